/-
C21 — the streaming traverser (`VecTraverser`) as a small-step machine, and its simulation by the
recursive value decoder: for every depth limit ≥ 1 the traverser reaches `End` on a payload exactly
when `decode_payload` accepts it.
-/
import RadixModel.Lemmas.Sbor
import RadixModel.Lemmas.SborFlavours

set_option linter.unusedSimpArgs false
set_option linter.unusedVariables false

namespace Radix.Sbor
open Radix.Generated

/-! ### small-step semantics of the traverser -/

/-- `Steps s s'`: calling `next_event` repeatedly takes the traverser from `s` to `s'`. -/
inductive Steps {X Y : Type} (F : Flavour X Y) (c : TCfg) : TState X → TState X → Prop where
  | refl (s : TState X) : Steps F c s s
  | step {s s' s'' : TState X} (ev : Located X Y) : tStep F c s = some (ev, s') → Steps F c s' s'' → Steps F c s s''

theorem Steps.trans {X Y : Type} {F : Flavour X Y} {c : TCfg} {a b d : TState X}
    (h1 : Steps F c a b) (h2 : Steps F c b d) : Steps F c a d := by
  induction h1 with
  | refl _ => exact h2
  | step ev hs _ ih => exact .step ev hs (ih h2)

theorem Steps.single {X Y : Type} {F : Flavour X Y} {c : TCfg} {a b : TState X} (ev : Located X Y)
    (h : tStep F c a = some (ev, b)) : Steps F c a b := .step ev h (.refl b)

/-- The traverser run from `s` ends with a `DecodeError` event. -/
def Fails {X Y : Type} (F : Flavour X Y) (c : TCfg) (s : TState X) : Prop :=
  ∃ s', Steps F c s s' ∧ s'.action = .errored

theorem Fails.of_steps {X Y : Type} {F : Flavour X Y} {c : TCfg} {a b : TState X}
    (h1 : Steps F c a b) (h2 : Fails F c b) : Fails F c a := by
  obtain ⟨s', hs, he⟩ := h2
  exact ⟨s', h1.trans hs, he⟩

theorem Fails.now {X Y : Type} {F : Flavour X Y} {c : TCfg} (bs : Bytes) (path : List (Ancestor X)) :
    Fails F c ⟨bs, path, .errored⟩ := ⟨_, .refl _, rfl⟩

/-! ### children of a container, as the traverser sees them -/

/-- Decode one child whose value kind is implicit (array/map) or read from the input (tuple/enum). -/
def decChild {X Y : Type} (kc : KindCodec X) (dec : VK X → Bytes → R (Value X Y)) (implicit : Option (VK X))
    (bs : Bytes) : R (Value X Y) :=
  match implicit with
  | some vk => dec vk bs
  | none =>
    match readValueKind kc bs with
    | .error e => .error e
    | .ok (vk, bs') => dec vk bs'

/-- Decode children `i, i+1, …, i+k-1` of a container with header `h`. -/
def decChildren {X Y : Type} (kc : KindCodec X) (dec : VK X → Bytes → R (Value X Y)) (h : Header X) :
    Nat → Nat → Bytes → R (List (Value X Y))
  | _, 0, bs => .ok ([], bs)
  | i, k + 1, bs =>
    match decChild kc dec (h.implicitKind i) bs with
    | .error e => .error e
    | .ok (v, bs') =>
      match decChildren kc dec h (i + 1) k bs' with
      | .error e => .error e
      | .ok (vs, bs'') => .ok (v :: vs, bs'')

/-- Acceptance-equivalence of two decoders: same remaining input on success, failure iff failure. -/
def SameAccept {α β : Type} (a : R α) (b : R β) : Prop :=
  (∀ x rest, a = .ok (x, rest) → ∃ y, b = .ok (y, rest)) ∧ (∀ e, a = .error e → ∃ e', b = .error e')

theorem children_tuple {X Y : Type} (F : Flavour X Y) (dec : VK X → Bytes → R (Value X Y)) (len : Nat) :
    ∀ (k i : Nat) (bs : Bytes), SameAccept (decMany (decField F dec) k bs) (decChildren F.kc dec (.tuple len) i k bs) := by
  intro k
  induction k with
  | zero => intro i bs; simp [SameAccept, decMany, decChildren]
  | succ k ih =>
    intro i bs
    simp only [decMany, decChildren, Header.implicitKind, decChild, decField]
    cases h1 : readValueKind F.kc bs with
    | error e => simp [SameAccept]
    | ok p =>
      obtain ⟨vk, bs'⟩ := p
      simp only []
      cases h2 : dec vk bs' with
      | error e => simp [SameAccept]
      | ok q =>
        obtain ⟨v, bs''⟩ := q
        simp only []
        have := ih (i + 1) bs''
        cases h3 : decMany (decField F dec) k bs'' with
        | error e =>
          obtain ⟨e', he'⟩ := this.2 e h3
          simp [SameAccept, h3, he']
        | ok r =>
          obtain ⟨vs, rest⟩ := r
          obtain ⟨ws, hws⟩ := this.1 vs rest h3
          simp [SameAccept, h3, hws]

theorem children_enum {X Y : Type} (F : Flavour X Y) (dec : VK X → Bytes → R (Value X Y)) (d : UInt8) (len : Nat) :
    ∀ (k i : Nat) (bs : Bytes), SameAccept (decMany (decField F dec) k bs) (decChildren F.kc dec (.enumVariant d len) i k bs) := by
  intro k
  induction k with
  | zero => intro i bs; simp [SameAccept, decMany, decChildren]
  | succ k ih =>
    intro i bs
    simp only [decMany, decChildren, Header.implicitKind, decChild, decField]
    cases h1 : readValueKind F.kc bs with
    | error e => simp [SameAccept]
    | ok p =>
      obtain ⟨vk, bs'⟩ := p
      simp only []
      cases h2 : dec vk bs' with
      | error e => simp [SameAccept]
      | ok q =>
        obtain ⟨v, bs''⟩ := q
        simp only []
        have := ih (i + 1) bs''
        cases h3 : decMany (decField F dec) k bs'' with
        | error e =>
          obtain ⟨e', he'⟩ := this.2 e h3
          simp [SameAccept, h3, he']
        | ok r =>
          obtain ⟨vs, rest⟩ := r
          obtain ⟨ws, hws⟩ := this.1 vs rest h3
          simp [SameAccept, h3, hws]

theorem children_array {X Y : Type} (F : Flavour X Y) (dec : VK X → Bytes → R (Value X Y)) (ek : VK X) (len : Nat) :
    ∀ (k i : Nat) (bs : Bytes), SameAccept (decMany (dec ek) k bs) (decChildren F.kc dec (.array ek len) i k bs) := by
  intro k
  induction k with
  | zero => intro i bs; simp [SameAccept, decMany, decChildren]
  | succ k ih =>
    intro i bs
    simp only [decMany, decChildren, Header.implicitKind, decChild]
    cases h2 : dec ek bs with
    | error e => simp [SameAccept]
    | ok q =>
      obtain ⟨v, bs''⟩ := q
      simp only []
      have := ih (i + 1) bs''
      cases h3 : decMany (dec ek) k bs'' with
      | error e =>
        obtain ⟨e', he'⟩ := this.2 e h3
        simp [SameAccept, he']
      | ok r =>
        obtain ⟨vs, rest⟩ := r
        obtain ⟨ws, hws⟩ := this.1 vs rest h3
        simp [SameAccept, hws]

theorem children_map {X Y : Type} (F : Flavour X Y) (dec : VK X → Bytes → R (Value X Y)) (kk vk : VK X) (len : Nat) :
    ∀ (k i : Nat) (bs : Bytes), i % 2 = 0 →
      SameAccept (decMany (decEntry kk vk dec) k bs) (decChildren F.kc dec (.map kk vk len) i (k * 2) bs) := by
  intro k
  induction k with
  | zero => intro i bs _; simp [SameAccept, decMany, decChildren]
  | succ k ih =>
    intro i bs hi
    have e : (k + 1) * 2 = k * 2 + 1 + 1 := by omega
    have hi1 : (i + 1) % 2 ≠ 0 := by omega
    rw [e]
    simp only [decMany, decChildren, Header.implicitKind, decChild, decEntry, hi, hi1, if_true, if_false]
    cases h1 : dec kk bs with
    | error e => simp [SameAccept]
    | ok p =>
      obtain ⟨kv, bs'⟩ := p
      simp only []
      cases h2 : dec vk bs' with
      | error e => simp [SameAccept]
      | ok q =>
        obtain ⟨v, bs''⟩ := q
        simp only []
        have := ih (i + 1 + 1) bs'' (by omega)
        cases h3 : decMany (decEntry kk vk dec) k bs'' with
        | error e =>
          obtain ⟨e', he'⟩ := this.2 e h3
          simp [SameAccept, he']
        | ok r =>
          obtain ⟨vs, rest⟩ := r
          obtain ⟨ws, hws⟩ := this.1 vs rest h3
          simp [SameAccept, hws]
theorem decBody_u8 {X Y : Type} (F : Flavour X Y) (D r : Nat) (bs : Bytes) :
    (∀ b t, bs = b :: t → ∃ v, decBody F D (r + 1) (.int .u8) bs = .ok (v, t)) ∧
    (bs = [] → ∃ e, decBody F D (r + 1) (.int .u8) bs = .error e) := by
  constructor
  · intro b t hb
    subst hb
    simp [decBody, decInt, readSlice, IntK.width]
  · intro hb
    subst hb
    simp [decBody, decInt, readSlice, IntK.width]

/-- Children of a byte array: the element-wise decoder accepts exactly when the batch read does. -/
theorem children_u8 {X Y : Type} (F : Flavour X Y) (D r len : Nat) :
    ∀ (k i : Nat) (bs : Bytes),
      (k ≤ bs.length → ∃ vs, decChildren F.kc (decBody F D (r + 1)) (.array (.int .u8) len) i k bs = .ok (vs, bs.drop k)) ∧
      (bs.length < k → ∃ e, decChildren F.kc (decBody F D (r + 1)) (.array (.int .u8) len) i k bs = .error e) := by
  intro k
  induction k with
  | zero => intro i bs; simp [decChildren]
  | succ k ih =>
    intro i bs
    simp only [decChildren, Header.implicitKind, decChild]
    cases bs with
    | nil =>
      obtain ⟨e, he⟩ := (decBody_u8 F D r []).2 rfl
      simp [he]
    | cons b t =>
      obtain ⟨v, hv⟩ := (decBody_u8 F D r (b :: t)).1 b t rfl
      simp only [hv, List.length_cons, List.drop_succ_cons]
      constructor
      · intro hk
        obtain ⟨vs, hvs⟩ := (ih (i + 1) t).1 (by omega)
        exact ⟨v :: vs, by simp [hvs]⟩
      · intro hk
        obtain ⟨e, he⟩ := (ih (i + 1) t).2 (by omega)
        exact ⟨e, by simp [he]⟩
/-! ### simulation of the recursive decoder by the traverser -/

/-- The simulation statement for reading one value body with `rem` levels left, below `path`. -/
def SimBody {X Y : Type} (F : Flavour X Y) (c : TCfg) (rem : Nat) : Prop :=
  ∀ (path : List (Ancestor X)) (start : Nat) (vk : VK X) (bs : Bytes),
    c.maxDepth = path.length + rem → 1 ≤ rem →
    (∀ v rest, decBody F c.maxDepth rem vk bs = .ok (v, rest) →
        Steps F c (tReadBody F c path start vk bs).2 ⟨rest, path, .readNext⟩) ∧
    (∀ e, decBody F c.maxDepth rem vk bs = .error e → Fails F c (tReadBody F c path start vk bs).2)

theorem decChild_zero_fails {X Y : Type} (F : Flavour X Y) (D : Nat) (implicit : Option (VK X)) (bs : Bytes) :
    ∃ e, decChild F.kc (decBody F D 0) implicit bs = .error e := by
  cases implicit with
  | some vk => exact ⟨(.maxDepthExceeded D, bs.length), by simp [decChild, decBody]⟩
  | none =>
    simp only [decChild]
    cases readValueKind F.kc bs with
    | error e => exact ⟨e, rfl⟩
    | ok p => exact ⟨(.maxDepthExceeded D, p.2.length), by simp [decBody]⟩

/-- Reading one child (kind implicit or read) in context. -/
theorem sim_readValue {X Y : Type} (F : Flavour X Y) (c : TCfg) (r : Nat) (hr : 1 ≤ r) (hP : SimBody F c r)
    (path : List (Ancestor X)) (hpath : c.maxDepth = path.length + r) (implicit : Option (VK X)) (bs : Bytes) :
    (∀ v rest, decChild F.kc (decBody F c.maxDepth r) implicit bs = .ok (v, rest) →
        Steps F c (tReadValue F c path implicit bs).2 ⟨rest, path, .readNext⟩) ∧
    (∀ e, decChild F.kc (decBody F c.maxDepth r) implicit bs = .error e →
        Fails F c (tReadValue F c path implicit bs).2) := by
  cases implicit with
  | some vk =>
    simp only [decChild, tReadValue]
    exact hP path _ vk bs hpath hr
  | none =>
    simp only [decChild, tReadValue]
    cases hk : readValueKind F.kc bs with
    | error e =>
      simp only []
      exact ⟨by intro v rest h; simp at h, by intro e' _; exact Fails.now _ _⟩
    | ok p =>
      obtain ⟨vk, bs'⟩ := p
      simp only []
      exact hP path _ vk bs' hpath hr

/-- The state after `m` children of the container `(h, cstart)` below `P` have been read. -/
def afterChildren {X : Type} (h : Header X) (cstart : Nat) (P : List (Ancestor X)) (m : Nat) (bs : Bytes) : TState X :=
  ⟨bs, ⟨h, cstart, m - 1⟩ :: P, .readNext⟩

theorem sim_children {X Y : Type} (F : Flavour X Y) (c : TCfg) (r : Nat) (hr : 1 ≤ r) (hP : SimBody F c r)
    (h : Header X) (cstart : Nat) (P : List (Ancestor X)) (hdepth : c.maxDepth = P.length + 1 + r) :
    ∀ (k m : Nat) (bs : Bytes), 1 ≤ m → m + k = h.childCount →
      (∀ ws rest, decChildren F.kc (decBody F c.maxDepth r) h m k bs = .ok (ws, rest) →
          Steps F c (afterChildren h cstart P m bs) ⟨rest, P, .readNext⟩) ∧
      (∀ e, decChildren F.kc (decBody F c.maxDepth r) h m k bs = .error e →
          Fails F c (afterChildren h cstart P m bs)) := by
  intro k
  induction k with
  | zero =>
    intro m bs hm hmk
    constructor
    · intro ws rest hd
      simp [decChildren] at hd
      obtain ⟨_, rfl⟩ := hd
      apply Steps.single (mkLoc (.containerEnd h) cstart (c.off bs) P)
      have : m - 1 + 1 ≥ h.childCount := by omega
      simp [tStep, afterChildren, this]
    · intro e hd
      simp [decChildren] at hd
  | succ k ih =>
    intro m bs hm hmk
    have hlt : ¬ (m - 1 + 1 ≥ h.childCount) := by omega
    have hm1 : m - 1 + 1 = m := by omega
    have hstep : tStep F c (afterChildren h cstart P m bs) =
        some (tReadValue F c (⟨h, cstart, m⟩ :: P) (h.implicitKind m) bs) := by
      have hlt' : ¬ (h.childCount ≤ m) := by omega
      simp [tStep, afterChildren, hlt', hm1]
    have hrv := sim_readValue F c r hr hP (⟨h, cstart, m⟩ :: P) (by simp; omega) (h.implicitKind m) bs
    simp only [decChildren]
    cases hc : decChild F.kc (decBody F c.maxDepth r) (h.implicitKind m) bs with
    | error e =>
      simp only []
      refine ⟨by intro ws rest hd; simp at hd, ?_⟩
      intro e' _
      exact Fails.of_steps (Steps.single _ hstep) (hrv.2 e hc)
    | ok p =>
      obtain ⟨v, bs'⟩ := p
      simp only []
      have hs1 : Steps F c (afterChildren h cstart P m bs) (afterChildren h cstart P (m + 1) bs') := by
        have := hrv.1 v bs' hc
        simp only [afterChildren, Nat.add_sub_cancel]
        exact (Steps.single _ hstep).trans this
      have ih' := ih (m + 1) bs' (by omega) (by omega)
      cases hcs : decChildren F.kc (decBody F c.maxDepth r) h (m + 1) k bs' with
      | error e =>
        simp only []
        refine ⟨by intro ws rest hd; simp at hd, ?_⟩
        intro e' _
        exact Fails.of_steps hs1 (ih'.2 e hcs)
      | ok q =>
        obtain ⟨vs, rest'⟩ := q
        simp only []
        refine ⟨?_, by intro e hd; simp at hd⟩
        intro ws rest hd
        simp at hd
        obtain ⟨_, rfl⟩ := hd
        exact hs1.trans (ih'.1 vs rest' hcs)
/-- `true` for the header whose children the traverser reads in one batch. -/
def Header.isByteArray {X : Type} : Header X → Bool
  | .array (.int .u8) _ => true
  | _ => false

theorem tStep_contentStart_general {X Y : Type} (F : Flavour X Y) (c : TCfg) (h : Header X) (cstart : Nat)
    (P : List (Ancestor X)) (bs : Bytes) (hn : h.childCount ≠ 0) (hd : ¬ (P.length + 1 ≥ c.maxDepth))
    (hb : h.isByteArray = false) :
    tStep F c ⟨bs, P, .contentStart h cstart⟩ =
      some (tReadValue F c (⟨h, cstart, 0⟩ :: P) (h.implicitKind 0) bs) := by
  have hd' : ¬ (c.maxDepth ≤ P.length + 1) := by omega
  cases h with
  | array ek len =>
    cases ek with
    | int k => cases k <;> simp_all [tStep, Header.isByteArray] <;> (intro hh; omega)
    | _ => simp_all [tStep] <;> (intro hh; omega)
  | _ => simp_all [tStep] <;> (intro hh; omega)

/-- From `ReadContainerContentStart` to the end of the container. -/
theorem sim_container {X Y : Type} (F : Flavour X Y) (c : TCfg) (r : Nat) (hP : 1 ≤ r → SimBody F c r)
    (h : Header X) (cstart : Nat) (P : List (Ancestor X)) (hdepth : c.maxDepth = P.length + 1 + r) (bs : Bytes) :
    (∀ ws rest, decChildren F.kc (decBody F c.maxDepth r) h 0 h.childCount bs = .ok (ws, rest) →
        Steps F c ⟨bs, P, .contentStart h cstart⟩ ⟨rest, P, .readNext⟩) ∧
    (∀ e, decChildren F.kc (decBody F c.maxDepth r) h 0 h.childCount bs = .error e →
        Fails F c ⟨bs, P, .contentStart h cstart⟩) := by
  by_cases hn : h.childCount = 0
  · rw [hn]
    constructor
    · intro ws rest hd
      simp [decChildren] at hd
      obtain ⟨_, rfl⟩ := hd
      exact Steps.single (mkLoc (.containerEnd h) cstart (c.off bs) P) (by simp [tStep, hn])
    · intro e hd; simp [decChildren] at hd
  · obtain ⟨n, hn'⟩ : ∃ n, h.childCount = n + 1 := ⟨h.childCount - 1, by omega⟩
    by_cases hr : r = 0
    · -- no level left for children: the traverser reports MaxDepthExceeded, the decoder fails on the first child
      subst hr
      have hfail : tStep F c ⟨bs, P, .contentStart h cstart⟩ =
          some (mkLoc (.decodeError (.maxDepthExceeded c.maxDepth)) (c.off bs) (c.off bs) (⟨h, cstart, 0⟩ :: P),
            ⟨[], ⟨h, cstart, 0⟩ :: P, .errored⟩) := by
        have : P.length + 1 ≥ c.maxDepth := by omega
        simp [tStep, hn, this]
      obtain ⟨e0, he0⟩ := decChild_zero_fails F c.maxDepth (h.implicitKind 0) bs
      rw [hn']
      simp only [decChildren, he0]
      refine ⟨by intro ws rest hd; simp at hd, ?_⟩
      intro e _
      exact Fails.of_steps (Steps.single _ hfail) (Fails.now _ _)
    · have hr1 : 1 ≤ r := by omega
      have hP' := hP hr1
      have hnd : ¬ (P.length + 1 ≥ c.maxDepth) := by omega
      by_cases hb : h.isByteArray = true
      · -- batch read of a byte array
        obtain ⟨len, rfl⟩ : ∃ len, h = .array (.int .u8) len := by
          cases h with
          | array ek len =>
            cases ek with
            | int k => cases k <;> simp_all [Header.isByteArray]
            | _ => simp [Header.isByteArray] at hb
          | _ => simp [Header.isByteArray] at hb
        simp only [Header.childCount] at hn hn' ⊢
        obtain ⟨r', rfl⟩ : ∃ r', r = r' + 1 := ⟨r - 1, by omega⟩
        have hu8 := children_u8 F c.maxDepth r' len len 0 bs
        by_cases hlen : len ≤ bs.length
        · obtain ⟨vs, hvs⟩ := hu8.1 hlen
          rw [hvs]
          refine ⟨?_, by intro e hd; simp at hd⟩
          intro ws rest hd
          simp at hd
          obtain ⟨_, rfl⟩ := hd
          have hstep : tStep F c ⟨bs, P, .contentStart (.array (.int .u8) len) cstart⟩ =
              some (mkLoc (.batchU8 (bs.take len)) (c.off bs) (c.off (bs.drop len)) (⟨.array (.int .u8) len, cstart, len - 1⟩ :: P),
                ⟨bs.drop len, ⟨.array (.int .u8) len, cstart, len - 1⟩ :: P, .readNext⟩) := by
            have : ¬ (bs.length < len) := by omega
            simp [tStep, Header.childCount, hn, hnd, readSlice, this]
          have hpop := (sim_children F c (r' + 1) hr1 hP' (.array (.int .u8) len) cstart P hdepth 0 len (bs.drop len)
            (by omega) (by simp [Header.childCount])).1 [] (bs.drop len) (by simp [decChildren])
          exact (Steps.single _ hstep).trans hpop
        · obtain ⟨e, he⟩ := hu8.2 (by omega)
          rw [he]
          refine ⟨by intro ws rest hd; simp at hd, ?_⟩
          intro e' _
          have hstep : tStep F c ⟨bs, P, .contentStart (.array (.int .u8) len) cstart⟩ =
              some (mkLoc (.decodeError (.bufferUnderflow len bs.length)) (c.off bs) (c.offR bs.length)
                  (⟨.array (.int .u8) len, cstart, len - 1⟩ :: P),
                ⟨[], ⟨.array (.int .u8) len, cstart, len - 1⟩ :: P, .errored⟩) := by
            have : bs.length < len := by omega
            simp [tStep, Header.childCount, hn, hnd, readSlice, this]
          exact Fails.of_steps (Steps.single _ hstep) (Fails.now _ _)
      · have hb' : h.isByteArray = false := by simpa using hb
        have hstep := tStep_contentStart_general F c h cstart P bs hn hnd hb'
        have hrv := sim_readValue F c r hr1 hP' (⟨h, cstart, 0⟩ :: P) (by simp; omega) (h.implicitKind 0) bs
        rw [hn']
        simp only [decChildren]
        cases hc : decChild F.kc (decBody F c.maxDepth r) (h.implicitKind 0) bs with
        | error e =>
          simp only []
          refine ⟨by intro ws rest hd; simp at hd, ?_⟩
          intro e' _
          exact Fails.of_steps (Steps.single _ hstep) (hrv.2 e hc)
        | ok p =>
          obtain ⟨v, bs'⟩ := p
          simp only []
          have hs1 : Steps F c ⟨bs, P, .contentStart h cstart⟩ (afterChildren h cstart P 1 bs') :=
            (Steps.single _ hstep).trans (hrv.1 v bs' hc)
          have hch := sim_children F c r hr1 hP' h cstart P hdepth n 1 bs' (by omega) (by omega)
          cases hcs : decChildren F.kc (decBody F c.maxDepth r) h (0 + 1) n bs' with
          | error e =>
            simp only []
            refine ⟨by intro ws rest hd; simp at hd, ?_⟩
            intro e' _
            exact Fails.of_steps hs1 (hch.2 e (by simpa using hcs))
          | ok q =>
            obtain ⟨vs, rest'⟩ := q
            simp only []
            refine ⟨?_, by intro e hd; simp at hd⟩
            intro ws rest hd
            simp at hd
            obtain ⟨_, rfl⟩ := hd
            exact hs1.trans (hch.1 vs rest' (by simpa using hcs))
theorem container_case {X Y : Type} {α : Type} (F : Flavour X Y) (c : TCfg) (r : Nat) (hP : 1 ≤ r → SimBody F c r)
    (h : Header X) (cstart : Nat) (P : List (Ancestor X)) (hdepth : c.maxDepth = P.length + 1 + r) (bs : Bytes)
    (dm : R α) (hsame : SameAccept dm (decChildren F.kc (decBody F c.maxDepth r) h 0 h.childCount bs)) :
    (∀ x rest, dm = .ok (x, rest) → Steps F c ⟨bs, P, .contentStart h cstart⟩ ⟨rest, P, .readNext⟩) ∧
    (∀ e, dm = .error e → Fails F c ⟨bs, P, .contentStart h cstart⟩) := by
  have hc := sim_container F c r hP h cstart P hdepth bs
  constructor
  · intro x rest hd
    obtain ⟨ws, hws⟩ := hsame.1 x rest hd
    exact hc.1 ws rest hws
  · intro e hd
    obtain ⟨e', he'⟩ := hsame.2 e hd
    exact hc.2 e' he'

/-- The traverser simulates the recursive decoder on every value body (limit ≥ 1). -/
theorem simBody_all {X Y : Type} (F : Flavour X Y) (c : TCfg) : ∀ rem, SimBody F c rem := by
  intro rem
  induction rem with
  | zero => intro path start vk bs _ hr; omega
  | succ r ih =>
    intro path start vk bs hdep _
    have hdepth : c.maxDepth = path.length + 1 + r := by omega
    have hP : 1 ≤ r → SimBody F c r := fun _ => ih
    cases vk with
    | bool =>
      simp only [decBody, tReadBody]
      cases decBool bs with
      | error e => exact ⟨by intro v rest h; simp at h, by intro e' _; exact Fails.now _ _⟩
      | ok p =>
        obtain ⟨b, bs'⟩ := p
        refine ⟨?_, by intro e h; simp at h⟩
        intro v rest h
        simp at h
        obtain ⟨_, rfl⟩ := h
        exact .refl _
    | int k =>
      simp only [decBody, tReadBody]
      cases decInt k bs with
      | error e => exact ⟨by intro v rest h; simp at h, by intro e' _; exact Fails.now _ _⟩
      | ok p =>
        obtain ⟨b, bs'⟩ := p
        refine ⟨?_, by intro e h; simp at h⟩
        intro v rest h
        simp at h
        obtain ⟨_, rfl⟩ := h
        exact .refl _
    | string =>
      simp only [decBody, tReadBody]
      cases decString F.utf8 bs with
      | error e => exact ⟨by intro v rest h; simp at h, by intro e' _; exact Fails.now _ _⟩
      | ok p =>
        obtain ⟨b, bs'⟩ := p
        refine ⟨?_, by intro e h; simp at h⟩
        intro v rest h
        simp at h
        obtain ⟨_, rfl⟩ := h
        exact .refl _
    | custom x =>
      simp only [decBody, tReadBody]
      cases F.decodeCustom x bs with
      | error e => exact ⟨by intro v rest h; simp at h, by intro e' _; exact Fails.now _ _⟩
      | ok p =>
        obtain ⟨b, bs'⟩ := p
        refine ⟨?_, by intro e h; simp at h⟩
        intro v rest h
        simp at h
        obtain ⟨_, rfl⟩ := h
        exact .refl _
    | tuple =>
      simp only [decBody, tReadBody]
      cases readSize bs with
      | error e => exact ⟨by intro v rest h; simp at h, by intro e' _; exact Fails.now _ _⟩
      | ok p =>
        obtain ⟨len, bs1⟩ := p
        simp only []
        have hc := container_case F c r hP (.tuple len) start path hdepth bs1 _
          (children_tuple F (decBody F c.maxDepth r) len len 0 bs1)
        constructor
        · intro v rest h
          cases hm : decMany (decField F (decBody F c.maxDepth r)) len bs1 with
          | error e => rw [hm] at h; simp at h
          | ok q =>
            obtain ⟨fs, rest'⟩ := q
            rw [hm] at h; simp at h
            obtain ⟨_, rfl⟩ := h
            exact hc.1 fs rest' hm
        · intro e h
          cases hm : decMany (decField F (decBody F c.maxDepth r)) len bs1 with
          | error e' => exact hc.2 e' hm
          | ok q => rw [hm] at h; simp at h
    | enum =>
      simp only [decBody, tReadBody]
      cases readByte bs with
      | error e => exact ⟨by intro v rest h; simp at h, by intro e' _; exact Fails.now _ _⟩
      | ok p0 =>
        obtain ⟨d, bs0⟩ := p0
        simp only []
        cases readSize bs0 with
        | error e => exact ⟨by intro v rest h; simp at h, by intro e' _; exact Fails.now _ _⟩
        | ok p =>
          obtain ⟨len, bs1⟩ := p
          simp only []
          have hc := container_case F c r hP (.enumVariant d len) start path hdepth bs1 _
            (children_enum F (decBody F c.maxDepth r) d len len 0 bs1)
          constructor
          · intro v rest h
            cases hm : decMany (decField F (decBody F c.maxDepth r)) len bs1 with
            | error e => rw [hm] at h; simp at h
            | ok q =>
              obtain ⟨fs, rest'⟩ := q
              rw [hm] at h; simp at h
              obtain ⟨_, rfl⟩ := h
              exact hc.1 fs rest' hm
          · intro e h
            cases hm : decMany (decField F (decBody F c.maxDepth r)) len bs1 with
            | error e' => exact hc.2 e' hm
            | ok q => rw [hm] at h; simp at h
    | array =>
      simp only [decBody, tReadBody]
      cases readValueKind F.kc bs with
      | error e => exact ⟨by intro v rest h; simp at h, by intro e' _; exact Fails.now _ _⟩
      | ok p0 =>
        obtain ⟨ek, bs0⟩ := p0
        simp only []
        cases readSize bs0 with
        | error e => exact ⟨by intro v rest h; simp at h, by intro e' _; exact Fails.now _ _⟩
        | ok p =>
          obtain ⟨len, bs1⟩ := p
          simp only []
          have hc := container_case F c r hP (.array ek len) start path hdepth bs1 _
            (children_array F (decBody F c.maxDepth r) ek len len 0 bs1)
          constructor
          · intro v rest h
            cases hm : decMany (decBody F c.maxDepth r ek) len bs1 with
            | error e => rw [hm] at h; simp at h
            | ok q =>
              obtain ⟨fs, rest'⟩ := q
              rw [hm] at h; simp at h
              obtain ⟨_, rfl⟩ := h
              exact hc.1 fs rest' hm
          · intro e h
            cases hm : decMany (decBody F c.maxDepth r ek) len bs1 with
            | error e' => exact hc.2 e' hm
            | ok q => rw [hm] at h; simp at h
    | map =>
      simp only [decBody, tReadBody]
      cases readValueKind F.kc bs with
      | error e => exact ⟨by intro v rest h; simp at h, by intro e' _; exact Fails.now _ _⟩
      | ok p0 =>
        obtain ⟨kk, bs0⟩ := p0
        simp only []
        cases readValueKind F.kc bs0 with
        | error e => exact ⟨by intro v rest h; simp at h, by intro e' _; exact Fails.now _ _⟩
        | ok p00 =>
          obtain ⟨vk, bs00⟩ := p00
          simp only []
          cases readSize bs00 with
          | error e => exact ⟨by intro v rest h; simp at h, by intro e' _; exact Fails.now _ _⟩
          | ok p =>
            obtain ⟨len, bs1⟩ := p
            simp only []
            have hc := container_case F c r hP (.map kk vk len) start path hdepth bs1 _
              (children_map F (decBody F c.maxDepth r) kk vk len len 0 bs1 rfl)
            constructor
            · intro v rest h
              cases hm : decMany (decEntry kk vk (decBody F c.maxDepth r)) len bs1 with
              | error e => rw [hm] at h; simp at h
              | ok q =>
                obtain ⟨fs, rest'⟩ := q
                rw [hm] at h; simp at h
                obtain ⟨_, rfl⟩ := h
                exact hc.1 fs rest' hm
            · intro e h
              cases hm : decMany (decEntry kk vk (decBody F c.maxDepth r)) len bs1 with
              | error e' => exact hc.2 e' hm
              | ok q => rw [hm] at h; simp at h
/-! ### from the relational semantics to the executable run -/

theorem tStep_none_of_done {X Y : Type} (F : Flavour X Y) (c : TCfg) (s : TState X) (b : Bool)
    (h : s.done = some b) : tStep F c s = none := by
  obtain ⟨bs, path, action⟩ := s
  cases action <;> simp [TState.done] at h <;> simp [tStep]

theorem Steps.eq_of_done {X Y : Type} {F : Flavour X Y} {c : TCfg} {s s' : TState X} {b : Bool}
    (h : Steps F c s s') (hd : s.done = some b) : s' = s := by
  cases h with
  | refl _ => rfl
  | step ev hs _ => rw [tStep_none_of_done F c s b hd] at hs; simp at hs

/-- A run that reaches a final state is reproduced by `tRun` with any sufficiently large fuel. -/
theorem tRun_of_steps {X Y : Type} (F : Flavour X Y) (c : TCfg) (s s' : TState X) (b : Bool)
    (h : Steps F c s s') (hd : s'.done = some b) (hs : s.done = none) :
    ∃ n, ∀ fuel, n ≤ fuel → (tRun F c fuel s).2 = some b := by
  induction h with
  | refl s => rw [hs] at hd; simp at hd
  | step ev hstep hrest ih =>
    rename_i s0 s1 s2
    cases hd1 : s1.done with
    | some b1 =>
      have := hrest.eq_of_done hd1
      subst this
      rw [hd] at hd1
      refine ⟨1, ?_⟩
      intro fuel hf
      obtain ⟨f, rfl⟩ : ∃ f, fuel = f + 1 := ⟨fuel - 1, by omega⟩
      simp [tRun, hstep, hd, hd1]
    | none =>
      obtain ⟨n, hn⟩ := ih hd hd1
      refine ⟨n + 1, ?_⟩
      intro fuel hf
      obtain ⟨f, rfl⟩ : ∃ f, fuel = f + 1 := ⟨fuel - 1, by omega⟩
      simp [tRun, hstep, hd1, hn f (by omega)]

/-- `tRun`'s verdict does not change when more fuel is given. -/
theorem tRun_mono {X Y : Type} (F : Flavour X Y) (c : TCfg) :
    ∀ (fuel : Nat) (s : TState X) (b : Bool) (k : Nat), (tRun F c fuel s).2 = some b →
      tRun F c (fuel + k) s = tRun F c fuel s := by
  intro fuel
  induction fuel with
  | zero => intro s b k h; simp [tRun] at h
  | succ f ih =>
    intro s b k h
    have e : f + 1 + k = (f + k) + 1 := by omega
    rw [e]
    simp only [tRun] at h ⊢
    cases hs : tStep F c s with
    | none => simp [hs] at h
    | some p =>
      obtain ⟨ev, s1⟩ := p
      rw [hs] at h
      simp only [] at h ⊢
      cases hd : s1.done with
      | some b1 => rfl
      | none =>
        rw [hd] at h
        simp only [] at h ⊢
        rw [ih s1 b k h]

/-! ### payload level -/

/-- Relational acceptance agreement on payloads, limit ≥ 1: `decode_payload` accepts exactly when the
traverser (payload prefix expected, exact end checked) reaches `End`; otherwise it reaches a
`DecodeError`. -/
theorem payload_sim {X Y : Type} (F : Flavour X Y) (d : Nat) (hd : 1 ≤ d) (bs : Bytes) :
    let c : TCfg := { maxDepth := d, checkExactEnd := true, total := bs.length }
    (∀ v, decodePayload F d bs = .ok v →
        ∃ s', Steps F c (tInit (.payloadPrefix F.payloadPrefix) bs) s' ∧ s'.done = some true) ∧
    (∀ e, decodePayload F d bs = .error e →
        ∃ s', Steps F c (tInit (.payloadPrefix F.payloadPrefix) bs) s' ∧ s'.done = some false) := by
  intro c
  have hsim := simBody_all F c d
  have hfail : ∀ s : TState X, Fails F c s → ∃ s', Steps F c s s' ∧ s'.done = some false := by
    intro s ⟨s', hs, he⟩
    exact ⟨s', hs, by simp [TState.done, he]⟩
  simp only [decodePayload, tInit]
  cases bs with
  | nil =>
    refine ⟨by intro v h; simp [readByte] at h, ?_⟩
    intro e _
    apply hfail
    have hstep : tStep F c ⟨[], [], .readPrefix F.payloadPrefix⟩ =
        some (mkLoc (.decodeError (.bufferUnderflow 1 0)) (c.off []) (c.offR 0) [], ⟨[], [], .errored⟩) := by
      simp [tStep, readByte]
    exact Fails.of_steps (Steps.single _ hstep) (Fails.now _ _)
  | cons p t =>
    simp only [readByte]
    by_cases hp : p = F.payloadPrefix
    · subst hp
      simp only [ne_eq, not_true_eq_false, if_false]
      -- first step: prefix ok, then read the root value
      have hstep : tStep F c ⟨F.payloadPrefix :: t, [], .readPrefix F.payloadPrefix⟩ =
          some (tReadValue F c [] none t) := by
        simp [tStep, readByte]
      simp only [decValue, decField, tReadValue] at hstep ⊢
      cases hk : readValueKind F.kc t with
      | error e =>
        simp only [hk] at hstep ⊢
        refine ⟨by intro v h; simp at h, ?_⟩
        intro e' _
        apply hfail
        exact Fails.of_steps (Steps.single _ hstep) (Fails.now _ _)
      | ok q =>
        obtain ⟨vk, t'⟩ := q
        simp only [hk] at hstep ⊢
        have hb := hsim [] (c.off t) vk t' (by simp [c]) hd
        cases hdec : decBody F d d vk t' with
        | error e =>
          simp only []
          refine ⟨by intro v h; simp at h, ?_⟩
          intro e' _
          apply hfail
          exact Fails.of_steps (Steps.single _ hstep) (hb.2 e hdec)
        | ok r =>
          obtain ⟨v, rest⟩ := r
          simp only []
          have hs1 : Steps F c ⟨F.payloadPrefix :: t, [], .readPrefix F.payloadPrefix⟩ ⟨rest, [], .readNext⟩ :=
            (Steps.single _ hstep).trans (hb.1 v rest hdec)
          by_cases hrest : rest.length = 0
          · simp only [hrest, ne_eq, not_true_eq_false, if_false]
            refine ⟨?_, by intro e h; simp at h⟩
            intro v' _
            have hend : tStep F c ⟨rest, [], .readNext⟩ =
                some (mkLoc .end_ (c.off rest) (c.off rest) [], ⟨rest, [], .ended⟩) := by
              simp [tStep, hrest]
            exact ⟨_, hs1.trans (Steps.single _ hend), rfl⟩
          · simp only [hrest, ne_eq, not_false_eq_true, if_true]
            refine ⟨by intro v' h; simp at h, ?_⟩
            intro e' _
            have hend : tStep F c ⟨rest, [], .readNext⟩ =
                some (mkLoc (.decodeError (.extraTrailingBytes rest.length)) (c.off rest) (c.off rest) [],
                  ⟨[], [], .errored⟩) := by
              simp [tStep, hrest, c]
            exact ⟨_, hs1.trans (Steps.single _ hend), rfl⟩
    · simp only [ne_eq, hp, not_false_eq_true, if_true]
      refine ⟨by intro v h; simp at h, ?_⟩
      intro e _
      apply hfail
      have hstep : tStep F c ⟨p :: t, [], .readPrefix F.payloadPrefix⟩ =
          some (mkLoc (.decodeError (.unexpectedPayloadPrefix F.payloadPrefix p)) (c.off (p :: t)) (c.off t) [],
            ⟨[], [], .errored⟩) := by
        simp [tStep, readByte, hp]
      exact Fails.of_steps (Steps.single _ hstep) (Fails.now _ _)
/-! ### every traversal terminates within `3·|input| + 3` events -/

/-- A custom body decoder consumes at least one byte. -/
def Flavour.Consumes {X Y : Type} (F : Flavour X Y) : Prop :=
  ∀ x bs c rest, F.decodeCustom x bs = .ok (c, rest) → rest.length < bs.length

theorem readByte_shrinks (bs : Bytes) (b : UInt8) (rest : Bytes) (h : readByte bs = .ok (b, rest)) :
    rest.length + 1 = bs.length := by
  cases bs with
  | nil => simp [readByte] at h
  | cons x t => simp [readByte] at h; obtain ⟨_, rfl⟩ := h; simp

theorem readSlice_shrinks (n : Nat) (bs a rest : Bytes) (h : readSlice n bs = .ok (a, rest)) :
    rest.length + n = bs.length := by
  obtain ⟨rfl, hl⟩ := readSlice_ok n bs a rest h
  simp; omega

theorem sizeBytes_length_pos (n : Nat) : 1 ≤ (sizeBytes n).length := by
  unfold sizeBytes
  rw [writeSizeLoop_succ]
  split <;> simp

theorem readSize_shrinks (bs : Bytes) (n : Nat) (rest : Bytes) (h : readSize bs = .ok (n, rest)) :
    rest.length < bs.length := by
  obtain ⟨_, rfl⟩ := readSize_canonical bs n rest h
  have := sizeBytes_length_pos n
  simp; omega

theorem readValueKind_shrinks {X : Type} (kc : KindCodec X) (bs : Bytes) (k : VK X) (rest : Bytes)
    (h : readValueKind kc bs = .ok (k, rest)) : rest.length + 1 = bs.length := by
  unfold readValueKind at h
  cases hb : readByte bs with
  | error e => simp [hb] at h
  | ok p =>
    obtain ⟨b, t⟩ := p
    simp only [hb] at h
    split at h
    · simp at h; obtain ⟨_, rfl⟩ := h; exact readByte_shrinks _ _ _ hb
    · simp at h

theorem IntK.width_pos (k : IntK) : 1 ≤ k.width := by cases k <;> decide

/-- The measure that strictly decreases along non-final steps. -/
def Action.weight {X : Type} : Action X → Nat
  | .readNext => 1
  | .errored => 0
  | .ended => 0
  | _ => 2

def TState.measure {X : Type} (s : TState X) : Nat := 3 * s.bs.length + s.path.length + s.action.weight

/-- Shape of the state after `read_value_body`: an error, or strictly less input and the same path. -/
theorem tReadBody_shape {X Y : Type} (F : Flavour X Y) (hc : F.Consumes) (c : TCfg) (path : List (Ancestor X))
    (start : Nat) (vk : VK X) (bs : Bytes) :
    let r := (tReadBody F c path start vk bs).2
    r.done = some false ∨ (r.done = none ∧ r.path = path ∧ r.bs.length < bs.length) := by
  intro r
  cases vk with
  | bool =>
    simp only [r, tReadBody]
    cases h : decBool bs with
    | error e => left; rfl
    | ok p =>
      obtain ⟨b, bs'⟩ := p
      right
      refine ⟨rfl, rfl, ?_⟩
      have := decBool_ok _ _ _ h
      subst this; simp
  | int k =>
    simp only [r, tReadBody]
    cases h : decInt k bs with
    | error e => left; rfl
    | ok p =>
      obtain ⟨b, bs'⟩ := p
      right
      refine ⟨rfl, rfl, ?_⟩
      have := decInt_ok _ _ _ _ h
      subst this
      have := k.width_pos
      simp [leBytes_length]; omega
  | string =>
    simp only [r, tReadBody]
    cases h : decString F.utf8 bs with
    | error e => left; rfl
    | ok p =>
      obtain ⟨b, bs'⟩ := p
      right
      refine ⟨rfl, rfl, ?_⟩
      obtain ⟨_, _, rfl⟩ := decString_ok _ _ _ _ h
      have := sizeBytes_length_pos b.length
      simp; omega
  | custom x =>
    simp only [r, tReadBody]
    cases h : F.decodeCustom x bs with
    | error e => left; rfl
    | ok p =>
      obtain ⟨b, bs'⟩ := p
      right
      exact ⟨rfl, rfl, hc x bs b bs' h⟩
  | tuple =>
    simp only [r, tReadBody]
    cases h : readSize bs with
    | error e => left; rfl
    | ok p =>
      obtain ⟨len, bs1⟩ := p
      right
      exact ⟨rfl, rfl, readSize_shrinks _ _ _ h⟩
  | enum =>
    simp only [r, tReadBody]
    cases h0 : readByte bs with
    | error e => left; rfl
    | ok p0 =>
      obtain ⟨d, bs0⟩ := p0
      simp only []
      cases h : readSize bs0 with
      | error e => left; rfl
      | ok p =>
        obtain ⟨len, bs1⟩ := p
        right
        have := readByte_shrinks _ _ _ h0
        have := readSize_shrinks _ _ _ h
        exact ⟨rfl, rfl, by simp only []; omega⟩
  | array =>
    simp only [r, tReadBody]
    cases h0 : readValueKind F.kc bs with
    | error e => left; rfl
    | ok p0 =>
      obtain ⟨ek, bs0⟩ := p0
      simp only []
      cases h : readSize bs0 with
      | error e => left; rfl
      | ok p =>
        obtain ⟨len, bs1⟩ := p
        right
        have := readValueKind_shrinks _ _ _ _ h0
        have := readSize_shrinks _ _ _ h
        exact ⟨rfl, rfl, by simp only []; omega⟩
  | map =>
    simp only [r, tReadBody]
    cases h0 : readValueKind F.kc bs with
    | error e => left; rfl
    | ok p0 =>
      obtain ⟨kk, bs0⟩ := p0
      simp only []
      cases h00 : readValueKind F.kc bs0 with
      | error e => left; rfl
      | ok p00 =>
        obtain ⟨vk, bs00⟩ := p00
        simp only []
        cases h : readSize bs00 with
        | error e => left; rfl
        | ok p =>
          obtain ⟨len, bs1⟩ := p
          right
          have := readValueKind_shrinks _ _ _ _ h0
          have := readValueKind_shrinks _ _ _ _ h00
          have := readSize_shrinks _ _ _ h
          exact ⟨rfl, rfl, by simp only []; omega⟩

theorem tReadBody_weight {X Y : Type} (F : Flavour X Y) (c : TCfg) (path : List (Ancestor X))
    (start : Nat) (vk : VK X) (bs : Bytes) : (tReadBody F c path start vk bs).2.action.weight ≤ 2 := by
  cases vk <;> simp only [tReadBody] <;> repeat' split <;> simp [Action.weight]

theorem tReadValue_shape {X Y : Type} (F : Flavour X Y) (hc : F.Consumes) (c : TCfg) (path : List (Ancestor X))
    (implicit : Option (VK X)) (bs : Bytes) :
    let r := (tReadValue F c path implicit bs).2
    r.done = some false ∨ (r.done = none ∧ r.path = path ∧ r.bs.length < bs.length ∧ r.action.weight ≤ 2) := by
  intro r
  cases implicit with
  | some vk =>
    simp only [r, tReadValue]
    rcases tReadBody_shape F hc c path (c.off bs) vk bs with h | ⟨h1, h2, h3⟩
    · left; exact h
    · right; exact ⟨h1, h2, h3, tReadBody_weight F c path _ vk bs⟩
  | none =>
    simp only [r, tReadValue]
    cases hk : readValueKind F.kc bs with
    | error e => left; rfl
    | ok p =>
      obtain ⟨vk, bs'⟩ := p
      simp only []
      have := readValueKind_shrinks _ _ _ _ hk
      rcases tReadBody_shape F hc c path (c.off bs) vk bs' with h | ⟨h1, h2, h3⟩
      · left; exact h
      · right; exact ⟨h1, h2, by omega, tReadBody_weight F c path _ vk bs'⟩
theorem measure_of_shape {X : Type} (r : TState X) (path : List (Ancestor X)) (n : Nat)
    (h : r.done = none ∧ r.path = path ∧ r.bs.length < n ∧ r.action.weight ≤ 2) :
    r.measure + 1 ≤ 3 * n + path.length := by
  obtain ⟨_, hp, hl, hw⟩ := h
  simp only [TState.measure, hp]
  omega

/-- Every step either finishes the run or strictly decreases the measure. -/
theorem tStep_measure {X Y : Type} (F : Flavour X Y) (hc : F.Consumes) (c : TCfg) (s : TState X)
    (ev : Located X Y) (s' : TState X) (h : tStep F c s = some (ev, s')) :
    s'.done ≠ none ∨ s'.measure < s.measure := by
  obtain ⟨bs, path, action⟩ := s
  cases action with
  | errored => simp [tStep] at h
  | ended => simp [tStep] at h
  | readPrefix p =>
    simp only [tStep] at h
    cases hb : readByte bs with
    | error e => simp [hb] at h; obtain ⟨_, rfl⟩ := h; left; simp [TState.done]
    | ok q =>
      obtain ⟨b, bs'⟩ := q
      simp only [hb] at h
      have hsh := readByte_shrinks _ _ _ hb
      split at h
      · simp at h; obtain ⟨_, rfl⟩ := h; left; simp [TState.done]
      · simp at h
        have hshape := tReadValue_shape F hc c path none bs'
        rw [h] at hshape
        simp only [] at hshape
        rcases hshape with hd | hd
        · left; simp [hd]
        · right
          have := measure_of_shape s' path bs'.length hd
          simp only [TState.measure, Action.weight] at this ⊢
          omega
  | readRootValue =>
    simp only [tStep] at h
    simp at h
    have hshape := tReadValue_shape F hc c path none bs
    rw [h] at hshape
    simp only [] at hshape
    rcases hshape with hd | hd
    · left; simp [hd]
    · right
      have := measure_of_shape s' path bs.length hd
      simp only [TState.measure, Action.weight] at this ⊢
      omega
  | readRootValueBody vk =>
    simp only [tStep] at h
    simp at h
    have hshape := tReadValue_shape F hc c path (some vk) bs
    rw [h] at hshape
    simp only [] at hshape
    rcases hshape with hd | hd
    · left; simp [hd]
    · right
      have := measure_of_shape s' path bs.length hd
      simp only [TState.measure, Action.weight] at this ⊢
      omega
  | contentStart hdr cstart =>
    simp only [tStep] at h
    split at h
    · simp at h; obtain ⟨_, rfl⟩ := h
      right; simp [TState.measure, Action.weight]
    · rename_i hn
      split at h
      · simp at h; obtain ⟨_, rfl⟩ := h; left; simp [TState.done]
      · by_cases hb : hdr.isByteArray = true
        · obtain ⟨len, rfl⟩ : ∃ len, hdr = .array (.int .u8) len := by
            cases hdr with
            | array ek len =>
              cases ek with
              | int k => cases k <;> simp_all [Header.isByteArray]
              | _ => simp [Header.isByteArray] at hb
            | _ => simp [Header.isByteArray] at hb
          simp only [] at h
          cases hs : readSlice len bs with
          | error e => simp [hs] at h; obtain ⟨_, rfl⟩ := h; left; simp [TState.done]
          | ok q =>
            obtain ⟨sl, bs'⟩ := q
            simp [hs] at h; obtain ⟨_, rfl⟩ := h
            right
            have := readSlice_shrinks _ _ _ _ hs
            simp [Header.childCount] at hn
            simp only [TState.measure, Action.weight, List.length_cons]
            omega
        · have hb' : hdr.isByteArray = false := by simpa using hb
          have hgen : some (ev, s') = some (tReadValue F c (⟨hdr, cstart, 0⟩ :: path) (hdr.implicitKind 0) bs) := by
            rw [← h]
            cases hdr with
            | array ek len =>
              cases ek with
              | int k => cases k <;> simp_all [Header.isByteArray]
              | _ => rfl
            | _ => rfl
          simp at hgen
          have hshape := tReadValue_shape F hc c (⟨hdr, cstart, 0⟩ :: path) (hdr.implicitKind 0) bs
          rw [← hgen] at hshape
          simp only [] at hshape
          rcases hshape with hd | hd
          · left; simp [hd]
          · right
            have := measure_of_shape s' _ bs.length hd
            simp only [TState.measure, Action.weight, List.length_cons] at this ⊢
            omega
  | readNext =>
    simp only [tStep] at h
    cases path with
    | nil =>
      simp only [] at h
      split at h <;> (simp at h; obtain ⟨_, rfl⟩ := h; left; simp [TState.done])
    | cons parent rest =>
      simp only [] at h
      split at h
      · simp at h; obtain ⟨_, rfl⟩ := h
        right; simp [TState.measure, Action.weight]
      · simp at h
        have hshape := tReadValue_shape F hc c (⟨parent.header, parent.start, parent.idx + 1⟩ :: rest)
          (parent.header.implicitKind (parent.idx + 1)) bs
        rw [h] at hshape
        simp only [] at hshape
        rcases hshape with hd | hd
        · left; simp [hd]
        · right
          have := measure_of_shape s' _ bs.length hd
          simp only [TState.measure, Action.weight, List.length_cons] at this ⊢
          omega

theorem tStep_some_of_not_done {X Y : Type} (F : Flavour X Y) (c : TCfg) (s : TState X) (h : s.done = none) :
    ∃ ev s', tStep F c s = some (ev, s') := by
  obtain ⟨bs, path, action⟩ := s
  cases action with
  | errored => simp [TState.done] at h
  | ended => simp [TState.done] at h
  | readPrefix p =>
    simp only [tStep]
    cases readByte bs with
    | error e => exact ⟨_, _, rfl⟩
    | ok q => simp only []; split <;> exact ⟨_, _, rfl⟩
  | readRootValue => exact ⟨_, _, rfl⟩
  | readRootValueBody vk => exact ⟨_, _, rfl⟩
  | contentStart hdr cstart =>
    simp only [tStep]
    split
    · exact ⟨_, _, rfl⟩
    · split
      · exact ⟨_, _, rfl⟩
      · split
        · split <;> exact ⟨_, _, rfl⟩
        · exact ⟨_, _, rfl⟩
  | readNext =>
    simp only [tStep]
    cases path with
    | nil => simp only []; split <;> exact ⟨_, _, rfl⟩
    | cons parent rest => simp only []; split <;> exact ⟨_, _, rfl⟩

/-- With fuel above the measure the run always reaches `End` or `DecodeError`. -/
theorem tRun_terminates {X Y : Type} (F : Flavour X Y) (hc : F.Consumes) (c : TCfg) :
    ∀ (fuel : Nat) (s : TState X), s.done = none → s.measure < fuel → (tRun F c fuel s).2 ≠ none := by
  intro fuel
  induction fuel with
  | zero => intro s _ h; omega
  | succ f ih =>
    intro s hs hm
    obtain ⟨ev, s', hstep⟩ := tStep_some_of_not_done F c s hs
    simp only [tRun, hstep]
    cases hd : s'.done with
    | some b => simp
    | none =>
      simp only []
      rcases tStep_measure F hc c s ev s' hstep with h1 | h1
      · exact absurd hd h1
      · exact ih s' hd (by omega)
/-! ### the three flavours consume input -/

theorem basic_consumes : basic.Consumes := fun x => x.elim

theorem decFixed_shrinks (n : Nat) (hn : 1 ≤ n) (bs a rest : Bytes) (h : decFixed n bs = .ok (a, rest)) :
    rest.length < bs.length := by
  have := readSlice_shrinks n bs a rest h
  omega

theorem decNFId_shrinks (utf8 : Bytes → Bool) (maxLen : Nat) (bs : Bytes) (id : NFId) (rest : Bytes)
    (h : decNFId utf8 maxLen bs = .ok (id, rest)) : rest.length < bs.length := by
  obtain ⟨_, enc, henc, rfl⟩ := decNFId_ok utf8 maxLen bs id rest h
  have : 1 ≤ enc.length := by
    cases id with
    | string s =>
      simp only [encNFId] at henc
      split at henc
      · simp at henc
      · simp at henc; subst henc; simp
    | integer v => simp [encNFId] at henc; subst henc; simp
    | bytes b =>
      simp only [encNFId] at henc
      split at henc
      · simp at henc
      · simp at henc; subst henc; simp
    | ruid b => simp [encNFId] at henc; subst henc; simp
  simp; omega

theorem scrypto_consumes : scrypto.Consumes := by
  intro x bs c rest h
  cases x with
  | reference =>
    simp only [scrypto, decScryptoCustom] at h
    split at h
    · simp at h
    · rename_i b r hb
      simp at h; obtain ⟨_, rfl⟩ := h
      exact decFixed_shrinks _ (by decide) _ _ _ hb
  | own =>
    simp only [scrypto, decScryptoCustom] at h
    split at h
    · simp at h
    · rename_i b r hb
      simp at h; obtain ⟨_, rfl⟩ := h
      exact decFixed_shrinks _ (by decide) _ _ _ hb
  | decimal =>
    simp only [scrypto, decScryptoCustom] at h
    split at h
    · simp at h
    · rename_i b r hb
      simp at h; obtain ⟨_, rfl⟩ := h
      exact decFixed_shrinks _ (by decide) _ _ _ hb
  | preciseDecimal =>
    simp only [scrypto, decScryptoCustom] at h
    split at h
    · simp at h
    · rename_i b r hb
      simp at h; obtain ⟨_, rfl⟩ := h
      exact decFixed_shrinks _ (by decide) _ _ _ hb
  | nonFungibleLocalId =>
    simp only [scrypto, decScryptoCustom] at h
    split at h
    · simp at h
    · rename_i b r hb
      simp at h; obtain ⟨_, rfl⟩ := h
      exact decNFId_shrinks _ _ _ _ _ hb

theorem manifest_consumes : manifest.Consumes := by
  intro x bs c rest h
  -- every accepted custom body is the (non-empty) encoding of the decoded value
  obtain ⟨hw, _, enc, henc, rfl⟩ := manifest_lawful.enc_dec x bs c rest h
  have : 1 ≤ enc.length := by
    cases c with
    | addressStatic n => simp [manifest, encManifestCustom] at henc; subst henc; simp
    | addressNamed i => simp [manifest, encManifestCustom] at henc; subst henc; simp
    | bucket i => simp [manifest, encManifestCustom] at henc; subst henc; simp [leBytes_length]
    | proof i => simp [manifest, encManifestCustom] at henc; subst henc; simp [leBytes_length]
    | expression a => simp [manifest, encManifestCustom] at henc; subst henc; simp
    | blob b =>
      simp [manifest, encManifestCustom] at henc; subst henc
      simp only [ManifestCustom.WF] at hw; omega
    | decimal b =>
      simp [manifest, encManifestCustom] at henc; subst henc
      simp only [ManifestCustom.WF, Sbor.DECIMAL_SIZE] at hw; omega
    | preciseDecimal b =>
      simp [manifest, encManifestCustom] at henc; subst henc
      simp only [ManifestCustom.WF, Sbor.PRECISE_DECIMAL_SIZE] at hw; omega
    | nonFungibleLocalId id =>
      simp only [manifest, encManifestCustom] at henc
      cases id with
      | string s =>
        simp only [encNFId] at henc
        split at henc
        · simp at henc
        · simp at henc; subst henc; simp
      | integer v => simp [encNFId] at henc; subst henc; simp
      | bytes b =>
        simp only [encNFId] at henc
        split at henc
        · simp at henc
        · simp at henc; subst henc; simp
      | ruid b => simp [encNFId] at henc; subst henc; simp
    | addressReservation i => simp [manifest, encManifestCustom] at henc; subst henc; simp [leBytes_length]
  simp; omega
/-! ### size of decoded values -/

mutual
/-- Number of `Value` nodes (what the decoder allocates, up to the constant size of a node). -/
def Value.nodes {X Y : Type} : Value X Y → Nat
  | .enum _ fs => 1 + nodesList fs
  | .array _ es => 1 + nodesList es
  | .tuple fs => 1 + nodesList fs
  | .map _ _ es => 1 + nodesEntries es
  | _ => 1
def nodesList {X Y : Type} : List (Value X Y) → Nat
  | [] => 0
  | v :: vs => v.nodes + nodesList vs
def nodesEntries {X Y : Type} : List (Value X Y × Value X Y) → Nat
  | [] => 0
  | (k, v) :: es => k.nodes + v.nodes + nodesEntries es
end

theorem decMany_size {α : Type} (f : Bytes → R α) (size : α → Nat)
    (hel : ∀ bs a rest, f bs = .ok (a, rest) → size a + rest.length ≤ bs.length) :
    ∀ (n : Nat) (bs : Bytes) (as : List α) (rest : Bytes), decMany f n bs = .ok (as, rest) →
      (as.map size).sum + rest.length ≤ bs.length := by
  intro n
  induction n with
  | zero => intro bs as rest h; simp [decMany] at h; obtain ⟨rfl, rfl⟩ := h; simp
  | succ n ih =>
    intro bs as rest h
    simp only [decMany] at h
    split at h
    · simp at h
    · rename_i a bs' hf
      split at h
      · simp at h
      · rename_i as' bs'' hm
        simp at h
        obtain ⟨rfl, rfl⟩ := h
        have h1 := hel _ _ _ hf
        have h2 := ih _ _ _ hm
        simp; omega

theorem nodesList_eq {X Y : Type} (vs : List (Value X Y)) : nodesList vs = (vs.map Value.nodes).sum := by
  induction vs with
  | nil => rfl
  | cons v vs ih => simp [nodesList, ih]

theorem nodesEntries_eq {X Y : Type} (es : List (Value X Y × Value X Y)) :
    nodesEntries es = (es.map (fun e => e.1.nodes + e.2.nodes)).sum := by
  induction es with
  | nil => rfl
  | cons e es ih => obtain ⟨k, v⟩ := e; simp [nodesEntries, ih]

/-- Every decoded node is paid for by at least one input byte. -/
theorem decBody_nodes {X Y : Type} (F : Flavour X Y) (hc : F.Consumes) (max rem : Nat) :
    ∀ (vk : VK X) (bs : Bytes) (v : Value X Y) (rest : Bytes), decBody F max rem vk bs = .ok (v, rest) →
      v.nodes + rest.length ≤ bs.length := by
  induction rem with
  | zero => intro vk bs v rest h; simp [decBody] at h
  | succ r ih =>
    intro vk bs v rest h
    have hfield : ∀ bs a rest, decField F (decBody F max r) bs = .ok (a, rest) → a.nodes + rest.length ≤ bs.length := by
      intro bs a rest ha
      simp only [decField] at ha
      split at ha
      · simp at ha
      · rename_i vk' bs' hk
        have := readValueKind_shrinks _ _ _ _ hk
        have := ih _ _ _ _ ha
        omega
    cases vk with
    | bool =>
      simp only [decBody] at h
      split at h
      · simp at h
      · rename_i b bs' hb
        simp at h; obtain ⟨rfl, rfl⟩ := h
        have := decBool_ok _ _ _ hb; subst this
        simp [Value.nodes]; omega
    | int k =>
      simp only [decBody] at h
      split at h
      · simp at h
      · rename_i b bs' hb
        simp at h; obtain ⟨rfl, rfl⟩ := h
        have := decInt_ok _ _ _ _ hb; subst this
        have := k.width_pos
        simp [Value.nodes, leBytes_length]; omega
    | string =>
      simp only [decBody] at h
      split at h
      · simp at h
      · rename_i b bs' hb
        simp at h; obtain ⟨rfl, rfl⟩ := h
        obtain ⟨_, _, rfl⟩ := decString_ok _ _ _ _ hb
        have := sizeBytes_length_pos b.length
        simp [Value.nodes]; omega
    | custom x =>
      simp only [decBody] at h
      split at h
      · simp at h
      · rename_i b bs' hb
        simp at h; obtain ⟨rfl, rfl⟩ := h
        have := hc _ _ _ _ hb
        simp [Value.nodes]; omega
    | tuple =>
      simp only [decBody] at h
      split at h
      · simp at h
      · rename_i len bs1 h1
        split at h
        · simp at h
        · rename_i fs bs2 h2
          simp at h; obtain ⟨rfl, rfl⟩ := h
          have := readSize_shrinks _ _ _ h1
          have := decMany_size _ Value.nodes hfield _ _ _ _ h2
          simp [Value.nodes, nodesList_eq]; omega
    | enum =>
      simp only [decBody] at h
      split at h
      · simp at h
      · rename_i d bs0 h0
        split at h
        · simp at h
        · rename_i len bs1 h1
          split at h
          · simp at h
          · rename_i fs bs2 h2
            simp at h; obtain ⟨rfl, rfl⟩ := h
            have := readByte_shrinks _ _ _ h0
            have := readSize_shrinks _ _ _ h1
            have := decMany_size _ Value.nodes hfield _ _ _ _ h2
            simp [Value.nodes, nodesList_eq]; omega
    | array =>
      simp only [decBody] at h
      split at h
      · simp at h
      · rename_i ek bs0 h0
        split at h
        · simp at h
        · rename_i len bs1 h1
          split at h
          · simp at h
          · rename_i fs bs2 h2
            simp at h; obtain ⟨rfl, rfl⟩ := h
            have := readValueKind_shrinks _ _ _ _ h0
            have := readSize_shrinks _ _ _ h1
            have := decMany_size _ Value.nodes (ih ek) _ _ _ _ h2
            simp [Value.nodes, nodesList_eq]; omega
    | map =>
      simp only [decBody] at h
      split at h
      · simp at h
      · rename_i kk bs0 h0
        split at h
        · simp at h
        · rename_i vk bs00 h00
          split at h
          · simp at h
          · rename_i len bs1 h1
            split at h
            · simp at h
            · rename_i es bs2 h2
              simp at h; obtain ⟨rfl, rfl⟩ := h
              have := readValueKind_shrinks _ _ _ _ h0
              have := readValueKind_shrinks _ _ _ _ h00
              have := readSize_shrinks _ _ _ h1
              have hentry : ∀ bs (e : Value X Y × Value X Y) rest, decEntry kk vk (decBody F max r) bs = .ok (e, rest) →
                  (e.1.nodes + e.2.nodes) + rest.length ≤ bs.length := by
                intro bs e rest he
                simp only [decEntry] at he
                split at he
                · simp at he
                · rename_i k b' hk
                  split at he
                  · simp at he
                  · rename_i v b'' hv
                    simp at he; obtain ⟨rfl, rfl⟩ := he
                    have := ih _ _ _ _ hk
                    have := ih _ _ _ _ hv
                    simp only []; omega
              have := decMany_size _ (fun (e : Value X Y × Value X Y) => e.1.nodes + e.2.nodes) hentry _ _ _ _ h2
              simp [Value.nodes, nodesEntries_eq]; omega
end Radix.Sbor
