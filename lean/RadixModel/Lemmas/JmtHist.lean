/-
C18 — abstract commit histories: what one commit does to the node store (`Step`), the state after a
history (`stateOf`), the per-commit facts (`StepOK`, `WF`), and helper lemmas for `Props/C18.lean`.
-/
import RadixModel.Model.JmtStore
namespace Radix.Jmt

/-- What one commit does, abstractly (sets of node keys). -/
structure Step where
  version : Nat
  new : NodeKey → Prop      -- inserted by the commit
  stale : NodeKey → Prop    -- covered by the stale parts the commit reports
  pruned : NodeKey → Prop   -- actually deleted from the store during the commit
  reach : NodeKey → Prop    -- reachable from the root the commit produces

/-- State after a history (latest commit first): current version, reachable set, store content. -/
def stateOf : List Step → Nat × (NodeKey → Prop) × (NodeKey → Prop)
  | [] => (0, (fun _ => False), (fun _ => False))
  | s :: older => (s.version, s.reach, fun k => ((stateOf older).2.2 k ∨ s.new k) ∧ ¬ s.pruned k)

/-- The per-commit facts. -/
def StepOK (prevVersion : Nat) (prevReach : NodeKey → Prop) (s : Step) : Prop :=
  prevVersion < s.version ∧
  (∀ k, s.new k → k.1 = s.version) ∧
  (∀ k, s.stale k → k.1 < s.version) ∧
  (∀ k, s.pruned k → s.stale k) ∧
  (∀ k, s.reach k → (prevReach k ∧ ¬ s.stale k) ∨ s.new k)

def WF : List Step → Prop
  | [] => True
  | s :: older => WF older ∧ StepOK (stateOf older).1 (stateOf older).2.1 s

theorem wf_tail (s' : Step) (l : List Step) (h : WF (s' :: l)) :
    WF l ∧ StepOK (stateOf l).1 (stateOf l).2.1 s' := h

theorem version_mono : ∀ (newer : List Step) (s : Step) (older : List Step),
    WF (newer ++ s :: older) → s.version ≤ (stateOf (newer ++ s :: older)).1 := by
  intro newer
  induction newer with
  | nil => intro s older _; exact Nat.le_refl _
  | cons s' newer ih =>
    intro s older hwf
    obtain ⟨hwf', hok⟩ := wf_tail s' (newer ++ s :: older) hwf
    have := ih s older hwf'
    have hlt := hok.1
    show s.version ≤ s'.version
    omega

theorem stale_old : ∀ (newer : List Step) (s : Step) (older : List Step),
    WF (newer ++ s :: older) → ∀ k, s.stale k → k.1 < s.version := by
  intro newer
  induction newer with
  | nil => intro s older hwf k hst; exact (wf_tail s older hwf).2.2.2.1 k hst
  | cons s' newer ih =>
    intro s older hwf k hst
    exact ih s older (wf_tail s' (newer ++ s :: older) hwf).1 k hst

end Radix.Jmt
