/-
C17 — the root hash is a function of the finite map represented by the tree: `smt` is invariant under
permutation, the leaves of a tree satisfying `Inv` are exactly the graph of `getT`, hence two trees
representing the same map have the same hash.
-/
import RadixModel.Lemmas.JmtTier
namespace Radix.Jmt

variable {α : Type}

theorem esize_perm {L1 L2 : List Ent} (h : L1.Perm L2) : esize L1 = esize L2 := by
  unfold esize
  exact (h.map _).sum_nat

theorem smt_perm (H : List UInt8 → Hash) :
    ∀ (n : Nat) (L1 L2 : List Ent), esize L1 ≤ n → L1.Perm L2 → smt H L1 = smt H L2 := by
  intro n
  induction n with
  | zero =>
    intro L1 L2 hs hp
    cases L1 with
    | nil => rw [List.nil_perm.mp hp]
    | cons e L => simp [esize] at hs
  | succ n ih =>
    intro L1 L2 hs hp
    match L1, hs, hp with
    | [], _, hp => rw [List.nil_perm.mp hp]
    | [e], _, hp => rw [List.perm_singleton.mp hp.symm]
    | e1 :: e2 :: rest, hs, hp =>
      have hl : 2 ≤ (e1 :: e2 :: rest).length := by simp
      have hl2 : 2 ≤ L2.length := by rw [← hp.length_eq]; exact hl
      rw [smt_split H _ hl, smt_split H _ hl2]
      have h1 := esize_strip_lt false e1 e2 rest
      have h2 := esize_strip_lt true e1 e2 rest
      rw [ih _ _ (by omega) (hp.filterMap (strip false)), ih _ _ (by omega) (hp.filterMap (strip true))]

theorem getT_mem_leaves (t : Tree α) (k : Key) (d : Nat) (val : Val α) (h : getT t k d = some val) :
    (k, val) ∈ leaves t := by
  induction t generalizing d with
  | null => simp [getT] at h
  | leaf v lk vh p s =>
    simp only [getT] at h
    by_cases hk : lk = k
    · simp only [hk, if_true] at h; injection h with h; subst h; subst hk; simp [leaves]
    · simp [hk] at h
  | node v hh c ih =>
    simp only [getT] at h
    cases hn : nib k d with
    | none => rw [hn] at h; cases h
    | some n =>
      rw [hn] at h; simp only at h
      simp only [leaves, List.mem_flatMap, List.mem_range]
      exact ⟨n, nib_lt k d n hn, ih n (d + 1) h⟩

theorem mem_leaves_getT (H : List UInt8 → Hash) (lp : Path) (t : Tree α) (hi : Inv H lp t) :
    ∀ l ∈ leaves t, getT t l.1 lp.length = some l.2 := by
  induction t generalizing lp with
  | null => intro l hl; simp [leaves] at hl
  | leaf v lk vh p s => intro l hl; simp [leaves] at hl; subst hl; simp [getT]
  | node v hh c ih =>
    intro l hl
    simp only [leaves, List.mem_flatMap, List.mem_range] at hl
    obtain ⟨i, _, hli⟩ := hl
    have hpre := leaves_prefix H (lp ++ [i]) (c i) (hi.2.1 i) l hli
    rw [getT_node_child v hh c lp i l.1 hpre]
    exact ih i (lp ++ [i]) (hi.2.1 i) l hli

theorem nodup_flatMap' {ι γ : Type} (l : List ι) (f : ι → List γ)
    (h1 : ∀ x ∈ l, (f x).Nodup) (h2 : l.Pairwise (fun a b => ∀ k, k ∈ f a → k ∉ f b)) :
    (l.flatMap f).Nodup := by
  induction l with
  | nil => simp
  | cons a l ih =>
    simp only [List.flatMap_cons]
    rw [List.pairwise_cons] at h2
    refine List.nodup_append.mpr ⟨h1 a (by simp), ih (fun x hx => h1 x (by simp [hx])) h2.2, ?_⟩
    intro x hx y hy e
    subst e
    obtain ⟨b, hb, hxb⟩ := List.mem_flatMap.mp hy
    exact h2.1 b hb x hx hxb

theorem leaves_nodup (H : List UInt8 → Hash) (lp : Path) (t : Tree α) (hi : Inv H lp t) :
    ((leaves t).map (·.1)).Nodup := by
  induction t generalizing lp with
  | null => simp [leaves]
  | leaf => simp [leaves]
  | node v hh c ih =>
    simp only [leaves, List.map_flatMap]
    refine nodup_flatMap' _ _ (fun i _ => ih i (lp ++ [i]) (hi.2.1 i)) ?_
    have hpw : List.Pairwise (fun i j : Nat => i ≠ j) (List.range 16) := List.nodup_range
    refine hpw.imp ?_
    intro i j hij k hki hkj
    obtain ⟨li, hli, hik⟩ := List.mem_map.mp hki
    obtain ⟨lj, hlj, hjk⟩ := List.mem_map.mp hkj
    have h1 := nib_of_prefix lp i _ (leaves_prefix H (lp ++ [i]) (c i) (hi.2.1 i) li hli)
    have h2 := nib_of_prefix lp j _ (leaves_prefix H (lp ++ [j]) (c j) (hi.2.1 j) lj hlj)
    rw [hik] at h1; rw [hjk, h1] at h2
    injection h2 with h2; exact hij h2

theorem nodup_of_nodup_map {β γ : Type} (f : β → γ) (l : List β) (h : (l.map f).Nodup) : l.Nodup := by
  induction l with
  | nil => simp
  | cons a l ih =>
    simp only [List.map_cons, List.nodup_cons] at h ⊢
    exact ⟨fun hm => h.1 (List.mem_map.mpr ⟨a, hm, rfl⟩), ih h.2⟩

/-- the entry of a leaf: key bits and `H(key ++ value_hash)`. -/
def entOf (H : List UInt8 → Hash) (l : Key × Val α) : Ent := (bits l.1, H (l.1 ++ l.2.1))

/-- **The root hash is a function of the represented map only.** -/
theorem hash_unique (H : List UInt8 → Hash) (t1 t2 : Tree α) (h1 : Inv H [] t1) (h2 : Inv H [] t2)
    (hsame : ∀ k, getT t1 k 0 = getT t2 k 0) : hashOf H t1 = hashOf H t2 := by
  rw [root_eq_smt_leaves H t1 h1, root_eq_smt_leaves H t2 h2]
  have hp : (leaves t1).Perm (leaves t2) := by
    rw [List.perm_ext_iff_of_nodup (nodup_of_nodup_map _ _ (leaves_nodup H [] t1 h1))
      (nodup_of_nodup_map _ _ (leaves_nodup H [] t2 h2))]
    intro l
    constructor
    · intro hl
      have := mem_leaves_getT H [] t1 h1 l hl
      rw [List.length_nil, hsame] at this
      exact getT_mem_leaves t2 l.1 0 l.2 this
    · intro hl
      have := mem_leaves_getT H [] t2 h2 l hl
      rw [List.length_nil, ← hsame] at this
      exact getT_mem_leaves t1 l.1 0 l.2 this
  exact smt_perm H _ _ _ (Nat.le_refl _) (hp.map _)

/-- … and equals the from-scratch commitment of **any** duplicate-free enumeration of that map. -/
theorem root_eq_smt_of_enum (H : List UInt8 → Hash) (t : Tree α) (hi : Inv H [] t)
    (L : List (Key × Val α)) (hnd : (L.map (·.1)).Nodup)
    (henum : ∀ k val, (k, val) ∈ L ↔ getT t k 0 = some val) :
    hashOf H t = smt H (L.map (entOf H)) := by
  rw [root_eq_smt_leaves H t hi]
  have hp : (leaves t).Perm L := by
    rw [List.perm_ext_iff_of_nodup (nodup_of_nodup_map _ _ (leaves_nodup H [] t hi))
      (nodup_of_nodup_map _ _ hnd)]
    intro l
    constructor
    · intro hl
      have := mem_leaves_getT H [] t hi l hl
      exact (henum l.1 l.2).mpr this
    · intro hl
      exact getT_mem_leaves t l.1 0 l.2 ((henum l.1 l.2).mp hl)
  exact smt_perm H _ _ _ (Nat.le_refl _) (hp.map _)

end Radix.Jmt
