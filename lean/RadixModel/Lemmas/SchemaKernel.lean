/-
C23: from a passing run of the comparison kernel to the hypotheses of `rel_sound`:
`shallow` passes ⇒ `NodeRel`; the pair work list ends with a closed cache.
-/
import RadixModel.Lemmas.SchemaSound

namespace Radix.Schema
open Radix.Sbor

/-- Well-known types only refer to well-known types. -/
def WkClosed (env : Env) : Prop :=
  ∀ x td, env.wk x = some td → ∀ t ∈ childrenOf td.kind, ∃ y, t = .wk y

theorem PairAll.refl {R : TypeId → TypeId → Prop} : ∀ (l : List TypeId), (∀ t ∈ l, R t t) → PairAll R l l
  | [], _ => trivial
  | a :: as, h => ⟨h a (by simp), PairAll.refl as (fun t ht => h t (by simp [ht]))⟩

theorem KindRel.refl {R : TypeId → TypeId → Prop} (k : TypeKind) (h : ∀ t ∈ childrenOf k, R t t) : KindRel R k k := by
  cases k
  case any => exact .inl rfl
  case array e => exact .inr (h e (by simp [childrenOf]))
  case tuple fs => exact .inr (PairAll.refl fs (fun t ht => h t (by simpa [childrenOf] using ht)))
  case enum vs =>
    refine .inr ?_
    intro d bf hd
    refine ⟨bf, hd, PairAll.refl bf (fun t ht => h t ?_)⟩
    simp only [childrenOf, List.mem_flatMap]
    exact ⟨(d, bf), alookup_mem hd, ht⟩
  case map k v => exact .inr ⟨h k (by simp [childrenOf]), h v (by simp [childrenOf])⟩
  all_goals exact .inr (by simp)

theorem resolveData_parts {env : Env} {S : Schema} {t : TypeId} {d : TypeData} (h : resolveData env S t = some d) :
    resolveKind env S t = some d.kind ∧ resolveValidation env S t = some d.validation := by
  cases t with
  | wk n => simp only [resolveData] at h; simp [resolveKind, resolveValidation, h]
  | loc i =>
    simp only [resolveData] at h
    cases hk : S.kinds[i]? <;> cases hm : S.metas[i]? <;> cases hv : S.validations[i]? <;> simp [hk, hm, hv] at h
    subst h
    simp [resolveKind, resolveValidation, hk, hv]

theorem compareValidation_ok {st : Settings} {vb vc : TV} (h : compareValidation st vb vc = true) :
    (validationChange vb vc).ok = true := by
  unfold compareValidation at h
  cases hc : validationChange vb vc <;> simp [hc, VChange.ok] at h ⊢

/-- The relation used for a passing run: visited pairs, plus identical well-known ids. -/
def RelOf (V : Pair → Prop) (x y : TypeId) : Prop := V (x, y) ∨ ∃ n, x = .wk n ∧ y = .wk n

theorem wk_nodeRel {env : Env} (hw : WkClosed env) (B C : Schema) (V : Pair → Prop) (n : Nat) :
    NodeRel env B C (RelOf V) (.wk n) (.wk n) := by
  constructor
  · intro kb hkb
    refine ⟨kb, hkb, KindRel.refl kb ?_⟩
    simp only [resolveKind] at hkb
    cases htd : env.wk n with
    | none => simp [htd] at hkb
    | some td =>
      simp only [htd, Option.map_some, Option.some.injEq] at hkb
      subst hkb
      intro t ht
      obtain ⟨y, hy⟩ := hw n td htd t ht
      exact .inr ⟨y, hy, hy⟩
  · intro vb hvb
    exact ⟨vb, hvb, ValRel.refl _ _⟩

theorem shallow_nodeRel {env : Env} (he : EnvOK env) (hw : WkClosed env) {B C : Schema} {st : Settings} {b c : TypeId}
    {ch : List Pair} {V : Pair → Prop}
    (h : shallow env B C st b c = some (true, ch)) (hV : ∀ p ∈ ch, V p) : NodeRel env B C (RelOf V) b c := by
  unfold shallow at h
  by_cases hcond : sameWk b c = true
  · cases b <;> cases c <;> simp [sameWk] at hcond
    subst hcond
    exact wk_nodeRel hw B C V _
  · rw [if_neg hcond] at h
    cases hb : resolveData env B b with
    | none => simp [hb] at h
    | some bd =>
      cases hc : resolveData env C c with
      | none => simp [hb, hc] at h
      | some cd =>
        simp only [hb, hc] at h
        cases hk : compareKind env st bd.kind cd.kind with
        | mk kindOk ch' =>
          simp only [hk] at h
          cases kindOk with
          | false => simp at h
          | true =>
            simp only [Bool.not_true, Bool.false_eq_true, if_false] at h
            cases hm : compareMeta st bd.kind bd.md cd.md with
            | none => simp [hm] at h
            | some metaOk =>
              simp only [hm, Option.some.injEq, Prod.mk.injEq, Bool.and_eq_true] at h
              obtain ⟨⟨_, hval⟩, hch⟩ := h
              subst hch
              obtain ⟨hbk, hbv⟩ := resolveData_parts hb
              obtain ⟨hck, hcv⟩ := resolveData_parts hc
              constructor
              · intro kb hkb
                rw [hbk] at hkb; simp only [Option.some.injEq] at hkb; subst hkb
                exact ⟨cd.kind, hck, KindRel.mono (fun a b hab => .inl hab) (compareKind_sound hk hV)⟩
              · intro vb hvb
                rw [hbv] at hvb; simp only [Option.some.injEq] at hvb; subst hvb
                exact ⟨cd.validation, hcv, validationChange_sound he (compareValidation_ok hval)⟩

/-! ## The pair work list -/

theorem runPairs_ok_mono (env : Env) (B C : Schema) (st : Settings) :
    ∀ (fuel : Nat) (wl cache : List Pair) (ok : Bool) (cache' : List Pair),
      runPairs env B C st fuel wl cache ok = .done (cache', true) → ok = true
  | 0, _, _, _, _, h => by simp [runPairs] at h
  | _ + 1, [], _, ok, _, h => by simp only [runPairs, Outcome.done.injEq, Prod.mk.injEq] at h; exact h.2
  | fuel + 1, p :: wl, cache, ok, cache', h => by
    simp only [runPairs] at h
    split at h
    · exact runPairs_ok_mono env B C st fuel wl cache ok cache' h
    · cases hs : shallow env B C st p.1 p.2 with
      | none => simp [hs] at h
      | some r =>
        obtain ⟨pass, ch⟩ := r
        simp only [hs] at h
        have := runPairs_ok_mono env B C st fuel _ _ _ cache' h
        simp only [Bool.and_eq_true] at this
        exact this.1

/-- Invariant of the loop: every cached pair passed shallowly and its children are cached or pending. -/
def PairsInv (env : Env) (B C : Schema) (st : Settings) (wl cache : List Pair) : Prop :=
  ∀ p ∈ cache, ∃ ch, shallow env B C st p.1 p.2 = some (true, ch) ∧ ∀ q ∈ ch, q ∈ cache ∨ q ∈ wl

theorem runPairs_closed (env : Env) (B C : Schema) (st : Settings) :
    ∀ (fuel : Nat) (wl cache : List Pair) (ok : Bool) (cache' : List Pair),
      runPairs env B C st fuel wl cache ok = .done (cache', true) → PairsInv env B C st wl cache →
        (∀ p ∈ wl, p ∈ cache') ∧ (∀ p ∈ cache, p ∈ cache') ∧ PairsInv env B C st [] cache'
  | 0, _, _, _, _, h, _ => by simp [runPairs] at h
  | _ + 1, [], cache, ok, cache', h, hinv => by
    simp only [runPairs, Outcome.done.injEq, Prod.mk.injEq] at h
    obtain ⟨h1, _⟩ := h
    subst h1
    exact ⟨by simp, fun p hp => hp, hinv⟩
  | fuel + 1, p :: wl, cache, ok, cache', h, hinv => by
    simp only [runPairs] at h
    split at h
    · rename_i hin
      have hin' : p ∈ cache := by simpa using hin
      have hinv' : PairsInv env B C st wl cache := by
        intro q hq
        obtain ⟨ch, h1, h2⟩ := hinv q hq
        refine ⟨ch, h1, fun r hr => ?_⟩
        rcases h2 r hr with a | a
        · exact .inl a
        · rcases List.mem_cons.mp a with e | e
          · subst e; exact .inl hin'
          · exact .inr e
      obtain ⟨a, b, c⟩ := runPairs_closed env B C st fuel wl cache ok cache' h hinv'
      refine ⟨fun q hq => ?_, b, c⟩
      rcases List.mem_cons.mp hq with e | e
      · subst e; exact b _ hin'
      · exact a q e
    · cases hs : shallow env B C st p.1 p.2 with
      | none => simp [hs] at h
      | some r =>
        obtain ⟨pass, ch⟩ := r
        simp only [hs] at h
        have hok := runPairs_ok_mono env B C st fuel _ _ _ cache' h
        simp only [Bool.and_eq_true] at hok
        obtain ⟨_, hpass⟩ := hok
        subst hpass
        have hinv' : PairsInv env B C st ((ch.filter (fun q => !cache.contains q)).reverse ++ wl) (p :: cache) := by
          intro q hq
          rcases List.mem_cons.mp hq with e | e
          · subst e
            refine ⟨ch, hs, fun r hr => ?_⟩
            by_cases hc : cache.contains r = true
            · exact .inl (List.mem_cons_of_mem _ (by simpa using hc))
            · refine .inr (List.mem_append_left _ ?_)
              simp only [List.mem_reverse, List.mem_filter]
              exact ⟨hr, by simpa using hc⟩
          · obtain ⟨ch', h1, h2⟩ := hinv q e
            refine ⟨ch', h1, fun r hr => ?_⟩
            rcases h2 r hr with a | a
            · exact .inl (List.mem_cons_of_mem _ a)
            · rcases List.mem_cons.mp a with e' | e'
              · subst e'; exact .inl (by simp)
              · exact .inr (List.mem_append_right _ e')
        obtain ⟨a, b, c⟩ := runPairs_closed env B C st fuel _ _ _ cache' h hinv'
        refine ⟨fun q hq => ?_, fun q hq => b q (List.mem_cons_of_mem _ hq), c⟩
        rcases List.mem_cons.mp hq with e | e
        · subst e; exact b _ (by simp)
        · exact a q (List.mem_append_right _ e)

end Radix.Schema
