/-
C20/C21 — lemmas about the SBOR size prefix (`write_size` / `read_size`, LEB128 with at most 4 bytes).
-/
import RadixModel.Model.Sbor

namespace Radix.Sbor
open Radix.Generated

theorem or128 (x : Nat) (h : x < 128) : x ||| 0x80 = x + 128 := by
  have : ∀ y : Fin 128, y.val ||| 0x80 = y.val + 128 := by decide
  exact this ⟨x, h⟩

theorem writeSizeLoop_succ (f n : Nat) :
    writeSizeLoop (f + 1) n =
      if n / 128 = 0 then [UInt8.ofNat (n % 128)]
      else UInt8.ofNat (n % 128 + 128) :: writeSizeLoop f (n / 128) := by
  have h1 : n &&& 0x7F = n % 128 := Nat.and_two_pow_sub_one_eq_mod n 7
  have h2 : n >>> 7 = n / 128 := Nat.shiftRight_eq_div_pow n 7
  simp only [writeSizeLoop, h1, h2]
  rw [or128 _ (Nat.mod_lt _ (by decide))]

theorem or_shift (size x shift : Nat) (h : size < 2 ^ shift) :
    size ||| (x <<< shift) = size + x * 2 ^ shift := by
  rw [Nat.shiftLeft_eq, Nat.or_comm, Nat.mul_comm, ← Nat.two_pow_add_eq_or_of_lt h]
  omega

theorem readSizeLoop_cons (f size shift : Nat) (b : UInt8) (bs : Bytes) (h : size < 2 ^ shift) :
    readSizeLoop (f + 1) size shift (b :: bs) =
      if b.toNat < 128 then
        (if b.toNat = 0 ∧ shift ≠ 0 then .error (.invalidSize, bs.length)
         else .ok (size + b.toNat * 2 ^ shift, bs))
      else if shift + 7 ≥ 28 then .error (.invalidSize, bs.length)
      else readSizeLoop f (size + (b.toNat % 128) * 2 ^ shift) (shift + 7) bs := by
  have hb : (b &&& 0x7F).toNat = b.toNat % 128 := by
    rw [UInt8.toNat_and]; exact Nat.and_two_pow_sub_one_eq_mod _ 7
  have hlt : (b < 0x80) ↔ b.toNat < 128 := UInt8.lt_iff_toNat_lt
  have hz : (b = 0) ↔ b.toNat = 0 := by
    rw [← UInt8.toNat_inj]; rfl
  simp only [readSizeLoop, readByte, hb, or_shift _ _ _ h]
  by_cases h1 : b.toNat < 128
  · have : b.toNat % 128 = b.toNat := Nat.mod_eq_of_lt h1
    simp [hlt, h1, hz, this]
  · simp [hlt, h1]

theorem readSizeLoop_nil (f size shift : Nat) :
    readSizeLoop (f + 1) size shift [] = .error (.bufferUnderflow 1 0, 0) := by
  simp [readSizeLoop, readByte]

theorem toNat_ofNat_lt (x : Nat) (h : x < 256) : (UInt8.ofNat x).toNat = x := by
  rw [UInt8.toNat_ofNat']; omega

/-- The canonical size bytes: what `write_size` emits below the cap. -/
def sizeBytes (n : Nat) : Bytes := writeSizeLoop 4 n

theorem readSize_sizeBytes (n : Nat) (rest : Bytes) (h : n ≤ Sbor.SBOR_MAX_SIZE) :
    readSize (sizeBytes n ++ rest) = .ok (n, rest) := by
  have hn : n < 268435456 := by simp [Sbor.SBOR_MAX_SIZE] at h; omega
  unfold sizeBytes readSize
  rw [writeSizeLoop_succ]
  by_cases c0 : n / 128 = 0
  · simp only [c0, if_true, List.cons_append, List.nil_append]
    rw [readSizeLoop_cons _ _ _ _ _ (by decide), toNat_ofNat_lt _ (by omega)]
    have : n % 128 < 128 := Nat.mod_lt _ (by decide)
    simp [this]; omega
  · simp only [c0, if_false, List.cons_append]
    rw [readSizeLoop_cons _ _ _ _ _ (by decide), toNat_ofNat_lt _ (by omega)]
    have e0 : ¬ (n % 128 + 128 < 128) := by omega
    simp only [e0, if_false]
    have e1 : ¬ (0 + 7 ≥ 28) := by decide
    simp only [e1, if_false]
    rw [writeSizeLoop_succ]
    by_cases c1 : n / 128 / 128 = 0
    · simp only [c1, if_true, List.cons_append, List.nil_append]
      rw [readSizeLoop_cons _ _ _ _ _ (by omega), toNat_ofNat_lt _ (by omega)]
      have : n / 128 % 128 < 128 := Nat.mod_lt _ (by decide)
      have hz : ¬ (n / 128 % 128 = 0) := by omega
      simp [this, hz]; omega
    · simp only [c1, if_false, List.cons_append]
      rw [readSizeLoop_cons _ _ _ _ _ (by omega), toNat_ofNat_lt _ (by omega)]
      have e0 : ¬ (n / 128 % 128 + 128 < 128) := by omega
      simp only [e0, if_false]
      have e1 : ¬ (0 + 7 + 7 ≥ 28) := by decide
      simp only [e1, if_false]
      rw [writeSizeLoop_succ]
      by_cases c2 : n / 128 / 128 / 128 = 0
      · simp only [c2, if_true, List.cons_append, List.nil_append]
        rw [readSizeLoop_cons _ _ _ _ _ (by omega), toNat_ofNat_lt _ (by omega)]
        have : n / 128 / 128 % 128 < 128 := Nat.mod_lt _ (by decide)
        have hz : ¬ (n / 128 / 128 % 128 = 0) := by omega
        simp [this, hz]; omega
      · simp only [c2, if_false, List.cons_append]
        rw [readSizeLoop_cons _ _ _ _ _ (by omega), toNat_ofNat_lt _ (by omega)]
        have e0 : ¬ (n / 128 / 128 % 128 + 128 < 128) := by omega
        simp only [e0, if_false]
        have e1 : ¬ (0 + 7 + 7 + 7 ≥ 28) := by decide
        simp only [e1, if_false]
        rw [writeSizeLoop_succ]
        have c3 : n / 128 / 128 / 128 / 128 = 0 := by omega
        simp only [c3, if_true, List.cons_append, List.nil_append]
        rw [readSizeLoop_cons _ _ _ _ _ (by omega), toNat_ofNat_lt _ (by omega)]
        have : n / 128 / 128 / 128 % 128 < 128 := Nat.mod_lt _ (by decide)
        have hz : ¬ (n / 128 / 128 / 128 % 128 = 0) := by omega
        simp [this, hz]; omega
theorem ofNat_mod128_add (b : UInt8) (h : ¬ b.toNat < 128) : UInt8.ofNat (b.toNat % 128 + 128) = b := by
  have : b.toNat < 256 := UInt8.toNat_lt b
  have e : b.toNat % 128 + 128 = b.toNat := by omega
  rw [e, UInt8.ofNat_toNat]

theorem readSize_canonical (bs : Bytes) (n : Nat) (rest : Bytes) (h : readSize bs = .ok (n, rest)) :
    n ≤ Sbor.SBOR_MAX_SIZE ∧ bs = sizeBytes n ++ rest := by
  unfold readSize at h
  unfold sizeBytes
  have hmax : Sbor.SBOR_MAX_SIZE = 268435455 := rfl
  rw [hmax]
  match bs, h with
  | [], h => simp [readSizeLoop_nil] at h
  | b0 :: t0, h =>
    have l0 := UInt8.toNat_lt b0
    rw [readSizeLoop_cons _ _ _ _ _ (by decide)] at h
    by_cases c0 : b0.toNat < 128
    · simp only [c0, if_true] at h
      split at h
      · simp at h
      · simp at h
        obtain ⟨rfl, rfl⟩ := h
        rw [writeSizeLoop_succ]
        have : b0.toNat / 128 = 0 := by omega
        simp [this, Nat.mod_eq_of_lt c0, UInt8.ofNat_toNat]
        omega
    · simp only [c0, if_false] at h
      have e1 : ¬ (0 + 7 ≥ 28) := by decide
      simp only [e1, if_false] at h
      match t0, h with
      | [], h => simp [readSizeLoop_nil] at h
      | b1 :: t1, h =>
        have l1 := UInt8.toNat_lt b1
        rw [readSizeLoop_cons _ _ _ _ _ (by omega)] at h
        by_cases c1 : b1.toNat < 128
        · simp only [c1, if_true] at h
          split at h
          · simp at h
          · rename_i hz
            simp at h
            obtain ⟨rfl, rfl⟩ := h
            simp at hz
            rw [writeSizeLoop_succ]
            have q0 : (b0.toNat % 128 + b1.toNat * 128) / 128 = b1.toNat := by omega
            have r0 : (b0.toNat % 128 + b1.toNat * 128) % 128 = b0.toNat % 128 := by omega
            have : ¬ (b1.toNat = 0) := hz
            simp only [q0, r0, this, if_false]
            rw [writeSizeLoop_succ]
            have : b1.toNat / 128 = 0 := by omega
            simp [this, Nat.mod_eq_of_lt c1, UInt8.ofNat_toNat, ofNat_mod128_add _ c0]
            omega
        · simp only [c1, if_false] at h
          have e2 : ¬ (0 + 7 + 7 ≥ 28) := by decide
          simp only [e2, if_false] at h
          match t1, h with
          | [], h => simp [readSizeLoop_nil] at h
          | b2 :: t2, h =>
            have l2 := UInt8.toNat_lt b2
            rw [readSizeLoop_cons _ _ _ _ _ (by omega)] at h
            by_cases c2 : b2.toNat < 128
            · simp only [c2, if_true] at h
              split at h
              · simp at h
              · rename_i hz
                simp at h
                obtain ⟨rfl, rfl⟩ := h
                simp at hz
                have hz' : ¬ (b2.toNat = 0) := hz
                rw [writeSizeLoop_succ]
                have q0 : (b0.toNat % 128 + b1.toNat % 128 * 128 + b2.toNat * 16384) / 128 = b1.toNat % 128 + b2.toNat * 128 := by omega
                have r0 : (b0.toNat % 128 + b1.toNat % 128 * 128 + b2.toNat * 16384) % 128 = b0.toNat % 128 := by omega
                have n0 : ¬ (b1.toNat % 128 + b2.toNat * 128 = 0) := by omega
                simp only [q0, r0, n0, if_false]
                rw [writeSizeLoop_succ]
                have q1 : (b1.toNat % 128 + b2.toNat * 128) / 128 = b2.toNat := by omega
                have r1 : (b1.toNat % 128 + b2.toNat * 128) % 128 = b1.toNat % 128 := by omega
                simp only [q1, r1, hz', if_false]
                rw [writeSizeLoop_succ]
                have : b2.toNat / 128 = 0 := by omega
                simp [this, Nat.mod_eq_of_lt c2, UInt8.ofNat_toNat, ofNat_mod128_add _ c0, ofNat_mod128_add _ c1]
                omega
            · simp only [c2, if_false] at h
              have e3 : ¬ (0 + 7 + 7 + 7 ≥ 28) := by decide
              simp only [e3, if_false] at h
              match t2, h with
              | [], h => simp [readSizeLoop_nil] at h
              | b3 :: t3, h =>
                have l3 := UInt8.toNat_lt b3
                rw [readSizeLoop_cons _ _ _ _ _ (by omega)] at h
                by_cases c3 : b3.toNat < 128
                · simp only [c3, if_true] at h
                  split at h
                  · simp at h
                  · rename_i hz
                    simp at h
                    obtain ⟨rfl, rfl⟩ := h
                    simp at hz
                    have hz' : ¬ (b3.toNat = 0) := hz
                    rw [writeSizeLoop_succ]
                    have q0 : (b0.toNat % 128 + b1.toNat % 128 * 128 + b2.toNat % 128 * 16384 + b3.toNat * 2097152) / 128 = b1.toNat % 128 + b2.toNat % 128 * 128 + b3.toNat * 16384 := by omega
                    have r0 : (b0.toNat % 128 + b1.toNat % 128 * 128 + b2.toNat % 128 * 16384 + b3.toNat * 2097152) % 128 = b0.toNat % 128 := by omega
                    have n0 : ¬ (b1.toNat % 128 + b2.toNat % 128 * 128 + b3.toNat * 16384 = 0) := by omega
                    simp only [q0, r0, n0, if_false]
                    rw [writeSizeLoop_succ]
                    have q1 : (b1.toNat % 128 + b2.toNat % 128 * 128 + b3.toNat * 16384) / 128 = b2.toNat % 128 + b3.toNat * 128 := by omega
                    have r1 : (b1.toNat % 128 + b2.toNat % 128 * 128 + b3.toNat * 16384) % 128 = b1.toNat % 128 := by omega
                    have n1 : ¬ (b2.toNat % 128 + b3.toNat * 128 = 0) := by omega
                    simp only [q1, r1, n1, if_false]
                    rw [writeSizeLoop_succ]
                    have q2 : (b2.toNat % 128 + b3.toNat * 128) / 128 = b3.toNat := by omega
                    have r2 : (b2.toNat % 128 + b3.toNat * 128) % 128 = b2.toNat % 128 := by omega
                    simp only [q2, r2, hz', if_false]
                    rw [writeSizeLoop_succ]
                    have : b3.toNat / 128 = 0 := by omega
                    simp [this, Nat.mod_eq_of_lt c3, UInt8.ofNat_toNat, ofNat_mod128_add _ c0, ofNat_mod128_add _ c1, ofNat_mod128_add _ c2]
                    omega
                · simp only [c3, if_false] at h
                  have e4 : (0 + 7 + 7 + 7 + 7 ≥ 28) := by decide
                  simp at h

/-- `write_size` below the cap is `sizeBytes`. -/
theorem writeSize_ok (n : Nat) (h : n ≤ Sbor.SBOR_MAX_SIZE) : writeSize n = .ok (sizeBytes n) := by
  unfold writeSize sizeBytes
  have : ¬ (n > Sbor.SBOR_MAX_SIZE) := by omega
  simp [this]

theorem writeSize_ok_iff (n : Nat) (bs : Bytes) : writeSize n = .ok bs ↔ n ≤ Sbor.SBOR_MAX_SIZE ∧ bs = sizeBytes n := by
  unfold writeSize sizeBytes
  by_cases h : n > Sbor.SBOR_MAX_SIZE
  · simp [h]; omega
  · simp [h]; constructor
    · intro e; exact ⟨by omega, e.symm⟩
    · intro e; exact e.2.symm

end Radix.Sbor
