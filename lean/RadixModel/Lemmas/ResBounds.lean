/-
C38 — helper lemmas about `RadixModel/Model/ResBounds.lean`: the bound arithmetic is sound with
respect to the meaning of bounds (`LowerBound.Sat` / `UpperBound.Sat` of C37), the `IndexSet`
helpers compute the set operations they are named after, and `normalize` never loses a concrete
balance.
-/
import RadixModel.Model.ResBounds
import RadixModel.Lemmas.ResConstraint
import RadixModel.Props.C37

namespace Radix.ResBounds
open Radix.ResConstraint

/-! ### `IndexSet` helpers -/

theorem mem_insertIfAbsent {l : List Nat} {x y : Nat} : y ∈ insertIfAbsent l x ↔ y ∈ l ∨ y = x := by
  unfold insertIfAbsent
  split
  · rename_i h
    simp only [List.contains_eq_mem, decide_eq_true_eq] at h
    constructor
    · exact fun hy => .inl hy
    · rintro (hy | rfl)
      · exact hy
      · exact h
  · simp

theorem nodup_insertIfAbsent {l : List Nat} {x : Nat} (h : l.Nodup) : (insertIfAbsent l x).Nodup := by
  unfold insertIfAbsent
  split
  · exact h
  · rename_i hc
    simp only [List.contains_eq_mem, decide_eq_true_eq] at hc
    rw [List.nodup_append]
    refine ⟨h, by simp, ?_⟩
    intro a ha b hb
    simp only [List.mem_singleton] at hb
    subst hb
    intro hab; subst hab; exact hc ha

theorem mem_extend : ∀ (other l : List Nat) {y : Nat}, y ∈ extend l other ↔ y ∈ l ∨ y ∈ other := by
  intro other
  induction other with
  | nil => intro l y; simp [extend]
  | cons x rest ih =>
    intro l y
    have := ih (insertIfAbsent l x) (y := y)
    simp only [extend, List.foldl_cons] at this ⊢
    rw [this, mem_insertIfAbsent]
    simp only [List.mem_cons]
    constructor
    · rintro ((h | h) | h)
      · exact .inl h
      · exact .inr (.inl h)
      · exact .inr (.inr h)
    · rintro (h | h | h)
      · exact .inl (.inl h)
      · exact .inl (.inr h)
      · exact .inr h

theorem nodup_extend : ∀ (other l : List Nat), l.Nodup → (extend l other).Nodup := by
  intro other
  induction other with
  | nil => intro l h; simpa [extend] using h
  | cons x rest ih =>
    intro l h
    simp only [extend, List.foldl_cons]
    exact ih _ (nodup_insertIfAbsent h)

theorem mem_dedup {l : List Nat} {y : Nat} : y ∈ dedup l ↔ y ∈ l := by
  unfold dedup; rw [mem_extend]; simp

theorem nodup_dedup (l : List Nat) : (dedup l).Nodup := nodup_extend l [] List.nodup_nil

theorem mem_difference {l o : List Nat} {y : Nat} : y ∈ difference l o ↔ y ∈ l ∧ y ∉ o := by
  simp [difference]

theorem mem_intersection {l o : List Nat} {y : Nat} : y ∈ intersection l o ↔ y ∈ l ∧ y ∈ o := by
  simp [intersection]

theorem nodup_difference {l o : List Nat} (h : l.Nodup) : (difference l o).Nodup := by
  unfold difference; exact h.filter _

theorem insertAllNew_ok : ∀ (other l : List Nat) {r : List Nat}, insertAllNew l other = .ok r →
    r = l ++ other ∧ (∀ x ∈ other, x ∉ l) := by
  intro other
  induction other with
  | nil => intro l r h; simp only [insertAllNew] at h; injection h with h; subst h; simp
  | cons x rest ih =>
    intro l r h
    simp only [insertAllNew] at h
    split at h
    · cases h
    · rename_i hc
      simp only [List.contains_eq_mem, decide_eq_true_eq] at hc
      obtain ⟨h1, h2⟩ := ih _ h
      refine ⟨by rw [h1]; simp, ?_⟩
      intro y hy
      rcases List.mem_cons.mp hy with rfl | hy
      · exact hc
      · intro hyl; exact h2 y hy (by simp [hyl])

/-! ### bound arithmetic -/

theorem fromLen_add (a b : Nat) : fromLen (a + b) = fromLen a + fromLen b := by
  simp only [fromLen_def]; push_cast; rw [Int.add_mul]

theorem lowerAdd_sound {l1 l2 lo : LowerBound} {a1 a2 : Int} (h : lowerAdd l1 l2 = .ok lo)
    (h1 : l1.Sat a1) (h2 : l2.Sat a2) (n1 : 0 ≤ a1) (n2 : 0 ≤ a2) : lo.Sat (a1 + a2) := by
  cases l1 with
  | nonZero =>
    cases l2 with
    | nonZero =>
      simp only [lowerAdd] at h; injection h with h; subst h
      simp only [LowerBound.Sat] at *; omega
    | inclusive b =>
      simp only [lowerAdd] at h; injection h with h; subst h
      simp only [LowerBound.Sat] at h1 h2
      split <;> simp only [LowerBound.Sat] <;> omega
  | inclusive a =>
    cases l2 with
    | nonZero =>
      simp only [lowerAdd] at h; injection h with h; subst h
      simp only [LowerBound.Sat] at h1 h2
      split <;> simp only [LowerBound.Sat] <;> omega
    | inclusive b =>
      simp only [lowerAdd, checkedAdd] at h
      split at h
      · rename_i s hs
        injection h with h; subst h
        split at hs
        · cases hs
        · injection hs with hs; subst hs
          simp only [LowerBound.Sat] at *; omega
      · cases h

theorem upperAdd_sound {u1 u2 up : UpperBound} {a1 a2 : Int} (h : upperAdd u1 u2 = .ok up)
    (h1 : u1.Sat a1) (h2 : u2.Sat a2) : up.Sat (a1 + a2) := by
  cases u1 with
  | unbounded =>
    cases u2 <;> (simp only [upperAdd] at h; injection h with h; subst h; trivial)
  | inclusive a =>
    cases u2 with
    | unbounded => simp only [upperAdd] at h; injection h with h; subst h; trivial
    | inclusive b =>
      simp only [upperAdd, checkedAdd] at h
      split at h
      · rename_i s hs
        injection h with h; subst h
        split at hs
        · cases hs
        · injection hs with hs; subst hs
          simp only [UpperBound.Sat] at *; omega
      · cases h

theorem lowerTake_sound {l : LowerBound} {a t : Int} (h : l.Sat a) (ht : 0 ≤ t) (hta : t ≤ a) :
    (lowerTake l t).Sat (a - t) := by
  cases l with
  | nonZero =>
    simp only [LowerBound.Sat] at h
    by_cases h0 : t = 0
    · simp only [lowerTake, h0, if_true, LowerBound.Sat]; omega
    · simp only [lowerTake, h0, if_false, LowerBound.Sat]; omega
  | inclusive x =>
    simp only [LowerBound.Sat] at h
    by_cases h0 : t > x
    · simp only [lowerTake, h0, if_true, LowerBound.Sat]; omega
    · simp only [lowerTake, h0, if_false, LowerBound.Sat]; omega

theorem upperTake_sound {u up : UpperBound} {a t : Int} (h : upperTake u t = .ok up) (hs : u.Sat a) :
    up.Sat (a - t) := by
  cases u with
  | unbounded => simp only [upperTake] at h; injection h with h; subst h; trivial
  | inclusive x =>
    simp only [upperTake] at h
    split at h
    · cases h
    · injection h with h; subst h
      simp only [UpperBound.Sat] at *; omega

/-- `upperTake` fails only when no balance within the bound could give `t` -/
theorem upperTake_error_complete {u : UpperBound} {t : Int} {e : BErr} (h : upperTake u t = .error e) :
    e = .takeCannotBeSatisfied ∧ ∀ a, u.Sat a → a < t := by
  cases u with
  | unbounded => simp [upperTake] at h
  | inclusive x =>
    simp only [upperTake] at h
    split at h
    · injection h with h
      refine ⟨h.symm, ?_⟩
      intro a ha; simp only [UpperBound.Sat] at ha; omega
    · cases h

theorem lowerMax_sound {l1 l2 : LowerBound} {a : Int} (h1 : l1.Sat a) (h2 : l2.Sat a) :
    (lowerMax l1 l2).Sat a := by
  unfold lowerMax; split <;> assumption

theorem upperMin_sound {u1 u2 : UpperBound} {a : Int} (h1 : u1.Sat a) (h2 : u2.Sat a) :
    (upperMin u1 u2).Sat a := by
  unfold upperMin; split <;> assumption

/-! ### `normalize` never loses a concrete balance -/

/-- For non-fungible use, with duplicate-free id sets (`IndexSet`s): every id set accepted before
`normalize` is accepted after it — for EVERY constraint, valid or not. -/
theorem normalize_sound_nf (g : General) (hreq : g.required.Nodup) (ids : List Nat) (hids : ids.Nodup)
    (h : g.MeansNF ids) : g.normalize.MeansNF ids := by
  obtain ⟨ha, hb, hc, hd⟩ := h
  have a' := (normLower_sat g hreq ids hc).mpr ha
  have b' := (normUpper_sat g ids hids hd).mpr hb
  have exact_req : fromLen g.required.length = (normUpper g).equiv → ∀ x ∈ ids, x ∈ g.required := by
    intro he
    apply superset_subset_of_length_le hreq hc
    cases hu : normUpper g with
    | unbounded =>
      rw [hu] at he; simp only [UpperBound.equiv] at he
      exact absurd he (fromLen_ne_DMAX _)
    | inclusive d =>
      rw [hu] at he b'; simp only [UpperBound.equiv, UpperBound.Sat] at he b'
      rw [← he] at b'
      exact fromLen_le.mp b'
  cases hal : g.allowed with
  | any =>
    rw [normalize_any g hal]
    split
    · rename_i he
      exact ⟨a', b', hc, exact_req he⟩
    · exact ⟨a', b', hc, trivial⟩
  | allowlist l =>
    rw [hal] at hd
    rw [normalize_allowlist g l hal]
    split
    · split
      · rename_i _ he
        exact ⟨a', b', hc, exact_req he⟩
      · split
        · rename_i _ _ he
          refine ⟨a', b', ?_, hd⟩
          apply superset_subset_of_length_le hids hd
          cases hl : normLower g with
          | nonZero =>
            rw [hl] at he; simp only [LowerBound.equiv, fromLen_def] at he; omega
          | inclusive dd =>
            rw [hl] at he a'; simp only [LowerBound.equiv, LowerBound.Sat] at he a'
            rw [← he] at a'
            exact fromLen_le.mp a'
        · exact ⟨a', b', hc, hd⟩
    · exact ⟨a', b', hc, hd⟩

/-- fungible well-formedness of a `ResourceBounds` used for a fungible resource: no required ids,
and an allowlist (necessarily empty) only together with a zero upper bound — what every
constructor produces, and what `normalize` needs in order not to lose fungible amounts. -/
def WFf (b : Bounds) : Prop :=
  b.required = [] ∧ ∀ l, b.allowed = .allowlist l → l = [] ∧ b.upper.equiv ≤ 0

theorem normLower_f {g : General} (hreq : g.required = []) {a : Int} (ha : 0 ≤ a) (h : g.lower.Sat a) :
    (normLower g).Sat a := by
  unfold normLower
  split
  · simp only [hreq, List.length_nil, LowerBound.Sat, fromLen_def]; omega
  · exact h

theorem normUpper_f {g : General} (hx : ∀ l, g.allowed = .allowlist l → l = [] ∧ g.upper.equiv ≤ 0) :
    normUpper g = g.upper := by
  unfold normUpper
  cases hal : g.allowed with
  | any => rfl
  | allowlist l =>
    obtain ⟨rfl, hu⟩ := hx l hal
    simp only
    split
    · rename_i h; simp only [List.length_nil, fromLen_def] at h; omega
    · rfl

theorem normalize_bounds (g : General) :
    g.normalize.lower = normLower g ∧ g.normalize.upper = normUpper g := by
  cases hal : g.allowed with
  | any => rw [normalize_any g hal]; split <;> exact ⟨rfl, rfl⟩
  | allowlist l =>
    rw [normalize_allowlist g l hal]
    split
    · split
      · exact ⟨rfl, rfl⟩
      · split <;> exact ⟨rfl, rfl⟩
    · exact ⟨rfl, rfl⟩

/-- For fungible use: every amount accepted before `normalize` is accepted after it, provided an
allowlist comes with a zero upper bound (`WFf`). Without that proviso this is FALSE (C37 finding). -/
theorem normalize_sound_f (g : General) (hw : WFf g) (a : Int) (ha : 0 ≤ a) (h : g.MeansF a) :
    g.normalize.MeansF a := by
  obtain ⟨h1, h2⟩ := h
  obtain ⟨e1, e2⟩ := normalize_bounds g
  refine ⟨by rw [e1]; exact normLower_f hw.1 ha h1, by rw [e2, normUpper_f hw.2]; exact h2⟩

theorem normalize_WFf (g : General) (hw : WFf g) : WFf g.normalize := by
  obtain ⟨hreq, hx⟩ := hw
  have hu := normUpper_f hx
  cases hal : g.allowed with
  | any =>
    rw [normalize_any g hal]
    split
    · rename_i he
      refine ⟨hreq, ?_⟩
      intro l hl
      simp only [AllowedIds.allowlist.injEq] at hl
      subst hl
      refine ⟨hreq, ?_⟩
      simp only [hreq, List.length_nil, fromLen_def] at he
      show (normUpper g).equiv ≤ 0
      omega
    · exact ⟨hreq, by intro l hl; cases hl⟩
  | allowlist l =>
    obtain ⟨rfl, hle⟩ := hx l hal
    rw [normalize_allowlist g [] hal]
    simp only [hreq, List.length_nil, Nat.lt_irrefl, gt_iff_lt, if_false]
    refine ⟨rfl, ?_⟩
    intro l' hl'
    simp only [AllowedIds.allowlist.injEq] at hl'
    subst hl'
    exact ⟨rfl, by show (normUpper g).equiv ≤ 0; rw [hu]; exact hle⟩


/-! ### list cardinalities -/

theorem filter_split_length (ids t : List Nat) :
    ids.length = (ids.filter (fun x => t.contains x)).length + (ids.filter (fun x => !t.contains x)).length := by
  induction ids with
  | nil => simp
  | cons a rest ih =>
    by_cases h : t.contains a = true
    · simp only [List.filter_cons, h, if_true, Bool.not_true, Bool.false_eq_true, if_false, List.length_cons]; omega
    · simp only [Bool.not_eq_true] at h
      simp only [List.filter_cons, h, Bool.false_eq_true, if_false, Bool.not_false, if_true, List.length_cons]; omega

theorem length_eq_of_same_mem {a b : List Nat} (ha : a.Nodup) (hb : b.Nodup) (h : ∀ x, x ∈ a ↔ x ∈ b) :
    a.length = b.length := by
  have h1 := length_le_of_subset ha (fun x hx => (h x).mp hx)
  have h2 := length_le_of_subset hb (fun x hx => (h x).mpr hx)
  omega

/-- removing a duplicate-free sub-list `t` of a duplicate-free list removes exactly `|t|` elements -/
theorem filter_notin_length_eq {ids t : List Nat} (hids : ids.Nodup) (ht : t.Nodup) (hsub : ∀ x ∈ t, x ∈ ids) :
    (ids.filter (fun x => !t.contains x)).length + t.length = ids.length := by
  have hs := filter_split_length ids t
  have : (ids.filter (fun x => t.contains x)).length = t.length := by
    apply length_eq_of_same_mem (hids.sublist List.filter_sublist) ht
    intro x
    simp only [List.mem_filter, List.contains_eq_mem, decide_eq_true_eq]
    exact ⟨fun h => h.2, fun h => ⟨hsub x h, h⟩⟩
  omega

theorem fromLen_sub {a b : Nat} (h : b ≤ a) : fromLen (a - b) = fromLen a - fromLen b := by
  have : a = (a - b) + b := by omega
  have e := fromLen_add (a - b) b
  rw [← this] at e
  omega


/-! ### the `IndexSet` (no duplicates) invariant of bounds used for a non-fungible resource -/

def WFn (b : Bounds) : Prop := b.required.Nodup ∧ ∀ l, b.allowed = .allowlist l → l.Nodup

theorem normalize_WFn (g : General) (hw : WFn g) : WFn g.normalize := by
  obtain ⟨hr, hl⟩ := hw
  cases hal : g.allowed with
  | any =>
    rw [normalize_any g hal]
    split
    · refine ⟨hr, ?_⟩
      intro l h; simp only [AllowedIds.allowlist.injEq] at h; subst h; exact hr
    · exact ⟨hr, by intro l h; cases h⟩
  | allowlist l =>
    have hln := hl l hal
    rw [normalize_allowlist g l hal]
    split
    · split
      · refine ⟨hr, ?_⟩
        intro l' h; simp only [AllowedIds.allowlist.injEq] at h; subst h; exact hr
      · split
        · refine ⟨hln, ?_⟩
          intro l' h; simp only [AllowedIds.allowlist.injEq] at h; subst h; exact hln
        · refine ⟨hr, ?_⟩
          intro l' h; simp only [AllowedIds.allowlist.injEq] at h; subst h; exact hln
    · refine ⟨hr, ?_⟩
      intro l' h; simp only [AllowedIds.allowlist.injEq] at h; subst h; exact hln

theorem nodup_intersection {l o : List Nat} (h : l.Nodup) : (intersection l o).Nodup := by
  unfold intersection; exact h.filter _

end Radix.ResBounds
