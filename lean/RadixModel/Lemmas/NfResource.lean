import RadixModel.Model.NfResource

/-! Helper lemmas for C43 (non-fungible resource manager model). -/
namespace Radix.Nf

@[simp] theorem setCell_same (d : Id → Cell) (id : Id) (c : Cell) : setCell d id c id = c := by
  simp [setCell]

theorem setCell_other (d : Id → Cell) (id x : Id) (c : Cell) (h : x ≠ id) : setCell d id c x = d x := by
  simp [setCell, h]

theorem count_le_one_of_nodup {α : Type} [BEq α] [LawfulBEq α] : ∀ (l : List α), l.Nodup → ∀ a, l.count a ≤ 1
  | [], _, a => by simp
  | x :: xs, h, a => by
    rw [List.nodup_cons] at h
    rw [List.count_cons]
    by_cases hx : x = a
    · subst hx
      have : xs.count x = 0 := List.count_eq_zero.mpr h.1
      simp [this]
    · have := count_le_one_of_nodup xs h.2 a
      have hb : (x == a) = false := by simpa using hx
      simp [hb]; exact this

/-! ### `create_non_fungibles` -/

/-- ids outside the entry list are untouched -/
theorem cnf_frame (t n : Nat) (chk : Bool) :
    ∀ (es : List (Id × List Nat)) (d d' : Id → Cell), createNonFungibles t n chk es d = .ok d' →
      ∀ id, id ∉ es.map (·.1) → d' id = d id := by
  intro es
  induction es with
  | nil => intro d d' h id _; simp [createNonFungibles] at h; subst h; rfl
  | cons e rest ih =>
    intro d d' h id hid
    obtain ⟨i, v⟩ := e
    simp only [List.map_cons, List.mem_cons, not_or] at hid
    unfold createNonFungibles at h
    split at h
    · cases h
    · split at h
      · cases h
      · split at h
        · cases h
        · split at h
          · cases h
          · rw [ih _ _ h id hid.2, setCell_other _ _ _ _ hid.1]

/-- every id of a successful call was unlocked before, has the requested type, and (with the existence
    check) had no value -/
theorem cnf_pre (t n : Nat) (chk : Bool) :
    ∀ (es : List (Id × List Nat)) (d d' : Id → Cell), createNonFungibles t n chk es d = .ok d' →
      ∀ id, id ∈ es.map (·.1) →
        (d id).locked = false ∧ id.1 = t ∧ (chk = true → (d id).value = none) := by
  intro es
  induction es with
  | nil => intro d d' _ id hid; simp at hid
  | cons e rest ih =>
    intro d d' h id hid
    obtain ⟨i, v⟩ := e
    unfold createNonFungibles at h
    split at h
    · cases h
    · rename_i hty
      split at h
      · cases h
      · rename_i hl
        split at h
        · cases h
        · rename_i hex
          split at h
          · cases h
          · simp only [List.map_cons, List.mem_cons] at hid
            by_cases hi : id = i
            · subst hi
              refine ⟨by simpa using hl, by simpa using hty, ?_⟩
              intro hc
              subst hc
              cases hv : (d id).value with
              | none => rfl
              | some x => simp [hv] at hex
            · have hr : id ∈ rest.map (·.1) := by
                rcases hid with h1 | h1
                · exact absurd h1 hi
                · exact h1
              have := ih _ _ h id hr
              rw [setCell_other _ _ _ _ hi] at this
              exact this

/-- with the existence check a successful call names every id at most once -/
theorem cnf_count_le_one (t n : Nat) :
    ∀ (es : List (Id × List Nat)) (d d' : Id → Cell), createNonFungibles t n true es d = .ok d' →
      ∀ id, (es.map (·.1)).count id ≤ 1 := by
  intro es
  induction es with
  | nil => intro d d' _ id; simp
  | cons e rest ih =>
    intro d d' h id
    obtain ⟨i, v⟩ := e
    have h0 := h
    unfold createNonFungibles at h
    split at h
    · cases h
    · split at h
      · cases h
      · split at h
        · cases h
        · split at h
          · cases h
          · have hrest := ih _ _ h id
            simp only [List.map_cons, List.count_cons]
            by_cases hi : i = id
            · subst hi
              -- `i` cannot occur in the rest: it would have a value there
              have : i ∉ rest.map (·.1) := by
                intro hm
                have := (cnf_pre t n true rest _ _ h i hm).2.2 rfl
                simp at this
              have hc : (rest.map (·.1)).count i = 0 := List.count_eq_zero.mpr this
              simp [hc]
            · have : (i == id) = false := by simpa using hi
              simp [this]; exact hrest

/-- after a successful call every named id holds a value and is unlocked -/
theorem cnf_post (t n : Nat) (chk : Bool) :
    ∀ (es : List (Id × List Nat)) (d d' : Id → Cell), createNonFungibles t n chk es d = .ok d' →
      ∀ id, id ∈ es.map (·.1) → (d' id).value.isSome = true ∧ (d' id).locked = false := by
  intro es
  induction es with
  | nil => intro d d' _ id hid; simp at hid
  | cons e rest ih =>
    intro d d' h id hid
    obtain ⟨i, v⟩ := e
    unfold createNonFungibles at h
    split at h
    · cases h
    · split at h
      · cases h
      · split at h
        · cases h
        · split at h
          · cases h
          · by_cases hr : id ∈ rest.map (·.1)
            · exact ih _ _ h id hr
            · simp only [List.map_cons, List.mem_cons] at hid
              have hi : id = i := by
                rcases hid with h1 | h1
                · exact h1
                · exact absurd h1 hr
              subst hi
              rw [cnf_frame t n chk rest _ _ h id hr]
              simp

/-! ### `initEntries` -/

theorem init_frame (t : Nat) :
    ∀ (es : List (Id × List Nat)) (d d' : Id → Cell), initEntries t es d = .ok d' →
      ∀ id, id ∉ es.map (·.1) → d' id = d id := by
  intro es
  induction es with
  | nil => intro d d' h id _; simp [initEntries] at h; subst h; rfl
  | cons e rest ih =>
    intro d d' h id hid
    obtain ⟨i, v⟩ := e
    simp only [List.map_cons, List.mem_cons, not_or] at hid
    unfold initEntries at h
    split at h
    · cases h
    · rw [ih _ _ h id hid.2, setCell_other _ _ _ _ hid.1]

theorem init_post (t : Nat) :
    ∀ (es : List (Id × List Nat)) (d d' : Id → Cell), initEntries t es d = .ok d' →
      ∀ id, id ∈ es.map (·.1) → (d' id).value.isSome = true ∧ (d' id).locked = false ∧ id.1 = t := by
  intro es
  induction es with
  | nil => intro d d' _ id hid; simp at hid
  | cons e rest ih =>
    intro d d' h id hid
    obtain ⟨i, v⟩ := e
    unfold initEntries at h
    split at h
    · cases h
    · rename_i hty
      by_cases hr : id ∈ rest.map (·.1)
      · exact ih _ _ h id hr
      · simp only [List.map_cons, List.mem_cons] at hid
        have hi : id = i := by
          rcases hid with h1 | h1
          · exact h1
          · exact absurd h1 hr
        subst hi
        rw [init_frame t rest _ _ h id hr]
        refine ⟨by simp, by simp, by simpa using hty⟩

/-! ### `burnIds` -/

theorem burn_frame :
    ∀ (ids : List Id) (d d' : Id → Cell), burnIds ids d = .ok d' → ∀ id, id ∉ ids → d' id = d id := by
  intro ids
  induction ids with
  | nil => intro d d' h id _; simp [burnIds] at h; subst h; rfl
  | cons i rest ih =>
    intro d d' h id hid
    simp only [List.mem_cons, not_or] at hid
    unfold burnIds at h
    split at h
    · cases h
    · rw [ih _ _ h id hid.2, setCell_other _ _ _ _ hid.1]

/-- a burned id ends as a locked empty entry (the tombstone) -/
theorem burn_post :
    ∀ (ids : List Id) (d d' : Id → Cell), burnIds ids d = .ok d' →
      ∀ id, id ∈ ids → d' id = ⟨none, true⟩ := by
  intro ids
  induction ids with
  | nil => intro d d' _ id hid; simp at hid
  | cons i rest ih =>
    intro d d' h id hid
    unfold burnIds at h
    split at h
    · cases h
    · by_cases hr : id ∈ rest
      · exact ih _ _ h id hr
      · simp only [List.mem_cons] at hid
        have hi : id = i := by
          rcases hid with h1 | h1
          · exact h1
          · exact absurd h1 hr
        subst hi
        rw [burn_frame rest _ _ h id hr]
        simp

/-- only unlocked entries can be burned -/
theorem burn_pre :
    ∀ (ids : List Id) (d d' : Id → Cell), burnIds ids d = .ok d' →
      ∀ id, id ∈ ids → (d id).locked = false := by
  intro ids
  induction ids with
  | nil => intro d d' _ id hid; simp at hid
  | cons i rest ih =>
    intro d d' h id hid
    unfold burnIds at h
    split at h
    · cases h
    · rename_i hl
      by_cases hi : id = i
      · subst hi; simpa using hl
      · simp only [List.mem_cons] at hid
        have hr : id ∈ rest := by
          rcases hid with h1 | h1
          · exact absurd h1 hi
          · exact h1
        have := ih _ _ h id hr
        rw [setCell_other _ _ _ _ hi] at this
        exact this

/-! ### operation-level facts -/

/-- what a successful explicit mint did -/
theorem mintExplicit_ok {r r' : Res} {es : List (Id × List Nat)} (h : mintExplicit r es = .ok r') :
    r.idType ≠ ruidType ∧
    createNonFungibles r.idType r.nFields true es r.data = .ok r'.data ∧
    r'.idType = r.idType ∧ r'.mutIdx = r.mutIdx ∧ r'.nFields = r.nFields := by
  unfold mintExplicit at h
  split at h
  · cases h
  · split at h
    · cases h
    · rename_i hty
      split at h
      · cases h
      · split at h
        · cases h
        · rename_i d hd
          cases h
          exact ⟨hty, hd, rfl, rfl, rfl⟩

theorem mintRuid_ok {r r' : Res} {es : List (Id × List Nat)} (h : mintRuid r es = .ok r') :
    r.idType = ruidType ∧
    createNonFungibles ruidType r.nFields false es r.data = .ok r'.data ∧
    r'.idType = r.idType ∧ r'.mutIdx = r.mutIdx ∧ r'.nFields = r.nFields := by
  unfold mintRuid at h
  split at h
  · cases h
  · split at h
    · cases h
    · rename_i hty
      split at h
      · cases h
      · split at h
        · cases h
        · rename_i d hd
          cases h
          exact ⟨by simpa using hty, hd, rfl, rfl, rfl⟩

theorem burn_ok {r r' : Res} {ids : List Id} (h : burn r ids = .ok r') :
    burnIds ids r.data = .ok r'.data ∧ r'.idType = r.idType ∧ r'.mutIdx = r.mutIdx ∧ r'.nFields = r.nFields := by
  unfold burn at h
  split at h
  · cases h
  · split at h
    · cases h
    · split at h
      · cases h
      · rename_i d hd
        cases h
        exact ⟨hd, rfl, rfl, rfl⟩

/-- what a successful `update_non_fungible_data` did -/
theorem update_ok {r r' : Res} {id : Id} {name v : Nat} {typed : Bool} (h : update r id name v typed = .ok r') :
    ∃ i fields, lookupField r.mutIdx name = some i ∧ (r.data id).value = some fields ∧
      (r.data id).locked = false ∧ i < fields.length ∧
      r'.data = setCell r.data id ⟨some (fields.set i v), false⟩ ∧
      r'.idType = r.idType ∧ r'.mutIdx = r.mutIdx ∧ r'.nFields = r.nFields ∧ r'.supply = r.supply := by
  unfold update at h
  split at h
  · cases h
  · split at h
    · cases h
    · rename_i i hi
      split at h
      · cases h
      · rename_i hl
        split at h
        · cases h
        · rename_i fields hf
          split at h
          · rename_i hlt
            split at h
            · cases h
              exact ⟨i, fields, hi, hf, by simpa using hl, hlt, rfl, rfl, rfl, rfl, rfl⟩
            · cases h
          · cases h

theorem apply_static {r r' : Res} {op : Op} (h : apply r op = .ok r') :
    r'.idType = r.idType ∧ r'.mutIdx = r.mutIdx ∧ r'.nFields = r.nFields := by
  cases op with
  | mint es => have := mintExplicit_ok h; exact ⟨this.2.2.1, this.2.2.2.1, this.2.2.2.2⟩
  | mintRuid es => have := mintRuid_ok h; exact ⟨this.2.2.1, this.2.2.2.1, this.2.2.2.2⟩
  | burn ids vv =>
    simp only [apply] at h
    split at h
    · cases h
    · split at h
      · have := burn_ok h; exact this.2
      · cases h
  | update id n v t =>
    obtain ⟨_, _, _, _, _, _, _, h1, h2, h3, _⟩ := update_ok h
    exact ⟨h1, h2, h3⟩

/-- A locked entry is never changed by any operation (the C51 mechanism on the data collection). -/
theorem apply_locked_frozen {r r' : Res} {op : Op} (h : apply r op = .ok r') (id : Id)
    (hl : (r.data id).locked = true) : r'.data id = r.data id := by
  cases op with
  | mint es =>
    have hm := mintExplicit_ok h
    apply cnf_frame _ _ _ _ _ _ hm.2.1
    intro hid
    have := (cnf_pre _ _ _ _ _ _ hm.2.1 id hid).1
    simp [hl] at this
  | mintRuid es =>
    have hm := mintRuid_ok h
    apply cnf_frame _ _ _ _ _ _ hm.2.1
    intro hid
    have := (cnf_pre _ _ _ _ _ _ hm.2.1 id hid).1
    simp [hl] at this
  | burn ids vv =>
    simp only [apply] at h
    split at h
    · cases h
    · split at h
      · have hb := burn_ok h
        apply burn_frame _ _ _ hb.1
        intro hid
        have := burn_pre _ _ _ hb.1 id hid
        simp [hl] at this
      · cases h
  | update uid n v t =>
    obtain ⟨i, fields, _, _, hul, _, hd, _⟩ := update_ok h
    rw [hd]
    by_cases hi : id = uid
    · subst hi; simp [hl] at hul
    · exact setCell_other _ _ _ _ hi

end Radix.Nf
