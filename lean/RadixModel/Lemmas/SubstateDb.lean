/-
Lemmas about the in-memory database model (`Model/SubstateDb.lean`): the pointwise meaning of a
commit, and preservation of the sortedness invariant.
-/
import RadixModel.Model.SubstateDb
import RadixModel.Lemmas.KV
namespace Radix.SubstateDb
open Radix.KV

/-- a partition seen as a function from sort key to value -/
abbrev PF := Nat → Option Nat

/-- pointwise meaning of one `PartitionDatabaseUpdates` -/
def applyPUpdF (f : PF) : PUpd → PF
  | .delta us => fun k => match lastBinding us k with | some c => c | none => f k
  | .reset vs => fun k => lastBinding vs k

/-- pointwise meaning of a node's updates on partition `p` (entries applied in order) -/
def applyNodeF (f : PF) (p : Nat) : NodeUpd → PF
  | [] => f
  | (p', u) :: t => applyNodeF (if p' = p then applyPUpdF f u else f) p t

/-- pointwise meaning of `DatabaseUpdates` on partition `pk` -/
def applyF (f : PF) (pk : PKey) : DbUpdates → PF
  | [] => f
  | (n, nu) :: t => applyF (if n = pk.1 then applyNodeF f pk.2 nu else f) pk t

def Db.WF (db : Db) : Prop := ∀ pk, SMap.Sorted (db pk)

theorem Db.wf_empty : Db.WF Db.empty := by intro pk; simp [Db.empty, SMap.Sorted]

theorem get?_applyDelta (part : List (Nat × Nat)) (us : List (Nat × DbUpdate)) (k : Nat) :
    SMap.get? (applyDelta part us) k
      = match lastBinding us k with | some c => c | none => SMap.get? part k := by
  induction us generalizing part with
  | nil => rfl
  | cons hd t ih =>
    obtain ⟨a, c⟩ := hd
    cases c with
    | some v =>
      simp only [applyDelta, ih, lastBinding, SMap.get?_insert]
      cases lastBinding t k with
      | some x => rfl
      | none => simp only []; split <;> rfl
    | none =>
      simp only [applyDelta, ih, lastBinding, SMap.get?_erase]
      cases lastBinding t k with
      | some x => rfl
      | none => simp only []; split <;> rfl

theorem sorted_applyDelta (part : List (Nat × Nat)) (us : List (Nat × DbUpdate))
    (h : SMap.Sorted part) : SMap.Sorted (applyDelta part us) := by
  induction us generalizing part with
  | nil => exact h
  | cons hd t ih =>
    obtain ⟨a, c⟩ := hd
    cases c with
    | some v => exact ih _ (SMap.sorted_insert part a v h)
    | none => exact ih _ (SMap.sorted_erase part a h)

theorem get?_applyPUpd (part : List (Nat × Nat)) (u : PUpd) (k : Nat) :
    SMap.get? (applyPUpd part u) k = applyPUpdF (SMap.get? part) u k := by
  cases u with
  | delta us => exact get?_applyDelta part us k
  | reset vs => exact SMap.get?_ofList vs k

theorem sorted_applyPUpd (part : List (Nat × Nat)) (u : PUpd) (h : SMap.Sorted part) :
    SMap.Sorted (applyPUpd part u) := by
  cases u with
  | delta us => exact sorted_applyDelta part us h
  | reset vs => exact SMap.sorted_ofList vs

theorem applyPUpdF_congr (f g : PF) (u : PUpd) (h : ∀ k, f k = g k) (k : Nat) :
    applyPUpdF f u k = applyPUpdF g u k := by
  cases u with
  | delta us => simp only [applyPUpdF]; rw [h]
  | reset vs => rfl

theorem applyNodeF_congr (f g : PF) (p : Nat) (nu : NodeUpd) (h : ∀ k, f k = g k) (k : Nat) :
    applyNodeF f p nu k = applyNodeF g p nu k := by
  induction nu generalizing f g with
  | nil => exact h k
  | cons hd t ih =>
    obtain ⟨p', u⟩ := hd
    simp only [applyNodeF]
    apply ih
    intro k'
    split
    · exact applyPUpdF_congr f g u h k'
    · exact h k'

theorem applyF_congr (f g : PF) (pk : PKey) (us : DbUpdates) (h : ∀ k, f k = g k) (k : Nat) :
    applyF f pk us k = applyF g pk us k := by
  induction us generalizing f g with
  | nil => exact h k
  | cons hd t ih =>
    obtain ⟨n, nu⟩ := hd
    simp only [applyF]
    apply ih
    intro k'
    split
    · exact applyNodeF_congr f g pk.2 nu h k'
    · exact h k'

theorem commitNode_other (db : Db) (n : Nat) (nu : NodeUpd) (pk : PKey) (h : pk.1 ≠ n) :
    commitNode db n nu pk = db pk := by
  induction nu generalizing db with
  | nil => rfl
  | cons hd t ih =>
    obtain ⟨p, u⟩ := hd
    simp only [commitNode, ih]
    unfold Db.set
    have : ¬ pk = (n, p) := by intro e; apply h; rw [e]
    simp [this]

theorem get?_commitNode (db : Db) (n : Nat) (nu : NodeUpd) (p : Nat) (k : Nat) :
    SMap.get? (commitNode db n nu (n, p)) k = applyNodeF (SMap.get? (db (n, p))) p nu k := by
  induction nu generalizing db with
  | nil => rfl
  | cons hd t ih =>
    obtain ⟨p', u⟩ := hd
    simp only [commitNode, applyNodeF, ih]
    apply applyNodeF_congr
    intro k'
    unfold Db.set
    by_cases hp : p' = p
    · subst hp; simp [get?_applyPUpd]
    · have : ¬ ((n, p) = (n, p')) := by intro e; apply hp; cases e; rfl
      simp [hp, this]

theorem wf_commitNode (db : Db) (n : Nat) (nu : NodeUpd) (h : Db.WF db) :
    Db.WF (commitNode db n nu) := by
  induction nu generalizing db with
  | nil => exact h
  | cons hd t ih =>
    obtain ⟨p, u⟩ := hd
    apply ih
    intro pk
    unfold Db.set
    split
    · exact sorted_applyPUpd _ u (h _)
    · exact h pk

/-- Pointwise meaning of `InMemorySubstateDatabase::commit`. -/
theorem get?_commit (db : Db) (us : DbUpdates) (pk : PKey) (k : Nat) :
    SMap.get? (Db.commit db us pk) k = applyF (SMap.get? (db pk)) pk us k := by
  induction us generalizing db with
  | nil => rfl
  | cons hd t ih =>
    obtain ⟨n, nu⟩ := hd
    simp only [Db.commit, applyF, ih]
    apply applyF_congr
    intro k'
    by_cases hn : n = pk.1
    · subst hn
      simp only [if_true]
      exact get?_commitNode db pk.1 nu pk.2 k'
    · simp only [hn, if_false]
      rw [commitNode_other db n nu pk (fun e => hn e.symm)]

theorem wf_commit (db : Db) (us : DbUpdates) (h : Db.WF db) : Db.WF (Db.commit db us) := by
  induction us generalizing db with
  | nil => exact h
  | cons hd t ih => exact ih _ (wf_commitNode db hd.1 hd.2 h)

/-- on a strictly sorted list the last binding is the lookup -/
theorem lastBinding_sorted {V : Type} (l : List (Nat × V)) (h : SMap.Sorted l) (k : Nat) :
    lastBinding l k = SMap.get? l k := by
  induction l with
  | nil => rfl
  | cons hd t ih =>
    obtain ⟨a, c⟩ := hd
    have h2 := (sorted_cons _ _).mp h
    simp only [lastBinding, SMap.get?_cons, ih h2.2]
    by_cases hk : k = a
    · subst hk
      rw [get?_none_of_sorted_cons_lt k c t k h (Nat.le_refl _)]
    · simp only [hk, if_false]
      cases SMap.get? t k <;> rfl

theorem applyNodeF_nodup (nu : NodeUpd) (hn : IMap.Nodup nu) (p : Nat) (f : PF) (k : Nat) :
    applyNodeF f p nu k = match IMap.get? nu p with | some u => applyPUpdF f u k | none => f k := by
  induction nu generalizing f with
  | nil => rfl
  | cons hd t ih =>
    obtain ⟨p', u⟩ := hd
    unfold IMap.Nodup at hn ih
    rw [List.pairwise_cons] at hn
    simp only [applyNodeF, IMap.get?_cons]
    rw [ih hn.2]
    by_cases hp : p' = p
    · subst hp
      simp only [if_true]
      rw [IMap.get?_eq_none_of_notin t p' (fun x hx e => hn.1 x hx e.symm)]
    · have : ¬ p = p' := fun e => hp e.symm
      simp only [hp, this, if_false]

theorem applyF_nodup (us : DbUpdates) (hn : IMap.Nodup us) (pk : PKey) (f : PF) (k : Nat) :
    applyF f pk us k
      = match IMap.get? us pk.1 with | some nu => applyNodeF f pk.2 nu k | none => f k := by
  induction us generalizing f with
  | nil => rfl
  | cons hd t ih =>
    obtain ⟨n, nu⟩ := hd
    unfold IMap.Nodup at hn ih
    rw [List.pairwise_cons] at hn
    simp only [applyF, IMap.get?_cons]
    rw [ih hn.2]
    by_cases hp : n = pk.1
    · subst hp
      simp only [if_true]
      rw [IMap.get?_eq_none_of_notin t pk.1 (fun x hx e => hn.1 x hx e.symm)]
    · have : ¬ pk.1 = n := fun e => hp e.symm
      simp only [hp, this, if_false]

end Radix.SubstateDb
