/-
C03 / C04 — fee finalisation of the ledger model: effect on the vault sums.
-/
import RadixModel.Lemmas.LedgerStep
namespace Radix.Ledger

/-- fields that fee finalisation never touches -/
structure Frame (s s' : St) : Prop where
  vaults : s'.vaults = s.vaults
  vres : s'.vres = s.vres
  res : s'.res = s.res
  supply : s'.supply = s.supply
  live : s'.live = s.live
  bkt : s'.bkt = s.bkt
  minted : s'.minted = s.minted
  idx : s'.idx = s.idx

theorem Frame.refl (s : St) : Frame s s := ⟨rfl, rfl, rfl, rfl, rfl, rfl, rfl, rfl⟩
theorem Frame.trans {a b c : St} (h1 : Frame a b) (h2 : Frame b c) : Frame a c :=
  ⟨h2.vaults.trans h1.vaults, h2.vres.trans h1.vres, h2.res.trans h1.res, h2.supply.trans h1.supply,
   h2.live.trans h1.live, h2.bkt.trans h1.bkt, h2.minted.trans h1.minted, h2.idx.trans h1.idx⟩

/-- the vault part of the well-formedness (all that finalisation needs) -/
structure VWF (s : St) : Prop where
  vnodup : s.vaults.Nodup
  vdom : ∀ v r, s.vres v = some r → v ∈ s.vaults

theorem VWF.of_frame {s s' : St} (h : VWF s) (f : Frame s s') : VWF s' :=
  ⟨by rw [f.vaults]; exact h.vnodup, by rw [f.vaults, f.vres]; exact h.vdom⟩

theorem creditVault_eff {s s' : St} {v r0 : Nat} {a : Int} (h : VWF s) (hv : s.vres v = some r0)
    (hs : creditVault s v a = .ok s') :
    Frame s s' ∧ s'.locks = s.locks ∧ s'.burned = s.burned ∧ s'.events = s.events ∧
    (∀ r, vsum s' r = vsum s r + (if r = r0 then a else 0)) ∧
    (∀ w, s'.bal w = if w = v then s.bal v + a else s.bal w) := by
  unfold creditVault at hs
  rw [hv] at hs
  simp only at hs
  split at hs
  · injection hs with hs; subst hs
    refine ⟨⟨rfl, rfl, rfl, rfl, rfl, rfl, rfl, rfl⟩, rfl, rfl, rfl, ?_, ?_⟩
    · intro r
      simp only [vsum_eq]
      rw [vsumC_upd _ h.vnodup (h.vdom v r0 hv) hv]
      by_cases e : r = r0
      · simp [e]; omega
      · simp [e]
    · intro w; simp [upd]
  · cases hs

/-- every royalty / rewards / paying vault is an XRD vault -/
def XrdVaults (s : St) (vs : List Nat) : Prop := ∀ v ∈ vs, s.vres v = some XRD

theorem payRoyalties_eff {s s' : St} {l : List (Nat × Int)} (h : VWF s) (hx : XrdVaults s (l.map (·.1)))
    (hs : payRoyalties s l = .ok s') :
    Frame s s' ∧ s'.locks = s.locks ∧ s'.burned = s.burned ∧
    (∀ r, vsum s' r = vsum s r + (if r = XRD then sumRoy l else 0)) := by
  induction l generalizing s with
  | nil =>
    simp only [payRoyalties] at hs; injection hs with hs; subst hs
    exact ⟨Frame.refl _, rfl, rfl, by intro r; simp [sumRoy]⟩
  | cons p t ih =>
    obtain ⟨v, a⟩ := p
    simp only [payRoyalties] at hs
    split at hs; · cases hs
    rename_i s1 hc
    have hv : s.vres v = some XRD := hx v (by simp)
    obtain ⟨f1, l1, b1, _, v1, _⟩ := creditVault_eff h hv hc
    have f1' : Frame s (emit s1 (.deposit v a)) := ⟨f1.vaults, f1.vres, f1.res, f1.supply, f1.live, f1.bkt, f1.minted, f1.idx⟩
    have hx' : XrdVaults (emit s1 (.deposit v a)) (t.map (·.1)) := by
      intro w hw
      show s1.vres w = some XRD
      rw [f1.vres]; exact hx w (by simp [hw])
    obtain ⟨f2, l2, b2, v2⟩ := ih (h.of_frame f1') hx' hs
    refine ⟨f1'.trans f2, l2.trans l1, b2.trans b1, ?_⟩
    intro r
    rw [v2 r]
    have : vsum (emit s1 (.deposit v a)) r = vsum s1 r := rfl
    rw [this, v1 r]
    simp only [sumRoy]
    by_cases e : r = XRD
    · simp [e]; omega
    · simp [e]

theorem payLocks_eff {s s' : St} {ls : List Lock} {success : Bool} {req col req' col' : Int} (h : VWF s)
    (hx : XrdVaults s (ls.map (·.vault))) (hs : payLocks success s req col ls = .ok (s', req', col')) :
    Frame s s' ∧ s'.locks = s.locks ∧ s'.burned = s.burned ∧ req - req' = col' - col ∧
    (∀ r, vsum s' r = vsum s r + (if r = XRD then sumLocks ls - (col' - col) else 0)) := by
  induction ls generalizing s req col with
  | nil =>
    simp only [payLocks] at hs; injection hs with hs
    simp only [Prod.mk.injEq] at hs
    obtain ⟨rfl, rfl, rfl⟩ := hs
    exact ⟨Frame.refl _, rfl, rfl, by omega, by intro r; simp [sumLocks]⟩
  | cons l t ih =>
    simp only [payLocks] at hs
    split at hs; · cases hs
    split at hs; · cases hs
    rename_i s1 hc
    have hv : s.vres l.vault = some XRD := hx l.vault (by simp)
    obtain ⟨f1, l1, b1, _, v1, _⟩ := creditVault_eff h hv hc
    generalize payAmount success l req = amount at hs hc v1
    have f1' : Frame s (emit s1 (.payFee l.vault amount)) := ⟨f1.vaults, f1.vres, f1.res, f1.supply, f1.live, f1.bkt, f1.minted, f1.idx⟩
    have hx' : XrdVaults (emit s1 (.payFee l.vault amount)) (t.map (·.vault)) := by
      intro w hw
      show s1.vres w = some XRD
      rw [f1.vres]; exact hx w (by simp [hw])
    obtain ⟨f2, l2, b2, q2, v2⟩ := ih (h.of_frame f1') hx' hs
    refine ⟨f1'.trans f2, l2.trans l1, b2.trans b1, by omega, ?_⟩
    intro r
    rw [v2 r]
    have : vsum (emit s1 (.payFee l.vault amount)) r = vsum s1 r := rfl
    rw [this, v1 r]
    simp only [sumLocks]
    by_cases e : r = XRD
    · simp [e]; omega
    · simp [e]

/-- what the receipt's fee summary must satisfy for the conservation statements: the reward and
royalty vaults hold XRD and nothing negative is burnt -/
structure FinOk (s : St) (f : Fin) : Prop where
  rewards : s.vres f.rewardsVault = some XRD
  royalty : XrdVaults s (f.royalties.map (·.1))
  burn : 0 ≤ f.toBurn

/-- Fee finalisation: what the fee reserve held (`fsum`) goes back to XRD vaults except `toBurn`,
which is recorded as burnt; no other resource moves; supplies are untouched. -/
theorem finalize_eff {s s' : St} {f : Fin} {success : Bool} (h : VWF s) (hl : XrdVaults s (s.locks.map (·.vault)))
    (hf : FinOk s f) (hs : finalize s f success = .ok s') :
    Frame s s' ∧ s'.locks = [] ∧
    (∀ r, vsum s' r = vsum s r + (if r = XRD then sumLocks s.locks - f.toBurn else 0)) ∧
    (∀ r, s'.burned r = s.burned r + (if r = XRD then f.toBurn else 0)) := by
  unfold finalize at hs
  split at hs; · cases hs
  rename_i s1 hr
  obtain ⟨f1, l1, b1, v1⟩ := payRoyalties_eff h hf.royalty hr
  split at hs; · cases hs
  rename_i s2 req col hp
  have hl1 : XrdVaults s1 (s1.locks.reverse.map (·.vault)) := by
    intro w hw
    rw [f1.vres]; apply hl w
    rw [l1] at hw
    simp only [List.mem_map, List.mem_reverse] at hw ⊢
    exact hw
  obtain ⟨f2, l2, b2, q2, v2⟩ := payLocks_eff (h.of_frame f1) hl1 hp
  split at hs; · cases hs
  rename_i hreq
  split at hs; · cases hs
  rename_i hbal
  have hreq : req = 0 := by simpa using hreq
  have hbal : col - sumRoy f.royalties = f.toProposer + f.toValidators + f.toBurn := by simpa using hbal
  have f12 := f1.trans f2
  have hsl : sumLocks s1.locks.reverse = sumLocks s.locks := by rw [sumLocks_reverse, l1]
  split at hs; · cases hs
  rename_i s4 h3
  injection hs with hs
  -- the rewards deposit
  have key : Frame s2 s4 ∧ s4.locks = s2.locks ∧ s4.burned = s2.burned ∧
      (∀ r, vsum s4 r = vsum s2 r + (if r = XRD then f.toProposer + f.toValidators else 0)) := by
    unfold payRewards at h3
    split at h3
    · split at h3; · cases h3
      split at h3; · cases h3
      rename_i s3 hc
      injection h3 with h3; subst h3
      have hv : s2.vres f.rewardsVault = some XRD := by rw [f12.vres]; exact hf.rewards
      obtain ⟨f3, l3, b3, _, v3, _⟩ := creditVault_eff ((h.of_frame f1).of_frame f2) hv hc
      exact ⟨⟨f3.vaults, f3.vres, f3.res, f3.supply, f3.live, f3.bkt, f3.minted, f3.idx⟩, l3, b3, fun r => v3 r⟩
    · rename_i hz
      injection h3 with h3; subst h3
      have : f.toProposer = 0 ∧ f.toValidators = 0 := by
        constructor
        · by_cases e : f.toProposer = 0
          · exact e
          · exact absurd (Or.inl e) hz
        · by_cases e : f.toValidators = 0
          · exact e
          · exact absurd (Or.inr e) hz
      exact ⟨Frame.refl _, rfl, rfl, by intro r; simp [this.1, this.2]⟩
  obtain ⟨f3, l3, b3, v3⟩ := key
  have f123 := f12.trans f3
  have hb := hf.burn
  subst hs
  have hv4 : ∀ r, vsum s4 r = vsum s r + (if r = XRD then sumLocks s.locks - f.toBurn else 0) := by
    intro r
    rw [v3 r, v2 r, v1 r, hsl]
    by_cases e : r = XRD
    · simp [e]; omega
    · simp [e]
  have hbb : s4.burned = s.burned := b3.trans (b2.trans b1)
  unfold burnFee
  refine ⟨?_, rfl, ?_, ?_⟩
  · split
    · exact ⟨f123.vaults, f123.vres, f123.res, f123.supply, f123.live, f123.bkt, f123.minted, f123.idx⟩
    · exact ⟨f123.vaults, f123.vres, f123.res, f123.supply, f123.live, f123.bkt, f123.minted, f123.idx⟩
  · intro r
    split
    · exact hv4 r
    · exact hv4 r
  · intro r
    split
    · simp only [emit, upd]
      by_cases e : r = XRD
      · subst e; simp [hbb]
      · simp [e, hbb]
    · rename_i hpos
      have : f.toBurn = 0 := by omega
      simp [hbb, this]

end Radix.Ledger
