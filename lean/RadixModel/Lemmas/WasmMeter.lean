/-
Helper lemmas for C46 (model: `RadixModel/Model/WasmMeter.lean`).
-/
import RadixModel.Model.WasmMeter

namespace Radix.WasmMeter

/-! ### instrumentation only sets charge fields -/

theorem strip_annotate (bs : List MBlock) (c : Code) (cur : Nat) : strip (annotate bs c cur).1 = strip c := by
  induction c generalizing cur with
  | done => rfl
  | op g o k ih => simp [annotate, strip, ih]
  | block g b k ihb ihk => simp [annotate, strip, ihb, ihk]
  | loop g b k ihb ihk => simp [annotate, strip, ihb, ihk]
  | ite g t e k iht ihe ihk => simp [annotate, strip, iht, ihe, ihk]

theorem strip_strip (c : Code) : strip (strip c) = strip c := by
  induction c with
  | done => rfl
  | op g o k ih => simp [strip, ih]
  | block g b k ihb ihk => simp [strip, ihb, ihk]
  | loop g b k ihb ihk => simp [strip, ihb, ihk]
  | ite g t e k iht ihe ihk => simp [strip, iht, ihe, ihk]

theorem meterFunc_strip {w : Weights} {f f' : Func} (h : meterFunc w f = some f') : stripFunc f' = stripFunc f := by
  unfold meterFunc at h
  split at h
  · cases h
  · simp only at h
    split at h
    · cases h
      simp [stripFunc, strip_annotate]
    · cases h

theorem allSome_map_eq {α β} (g : β → α) (f : α → Option β) (hf : ∀ a b, f a = some b → g b = a) :
    ∀ (l : List α) (l' : List β), allSome (l.map f) = some l' → l'.map g = l
  | [], l', h => by simp [allSome] at h; subst h; rfl
  | a :: r, l', h => by
    simp only [List.map, allSome] at h
    cases hfa : f a with
    | none => rw [hfa] at h; cases h
    | some b =>
      rw [hfa] at h
      cases hr : allSome (r.map f) with
      | none => simp [allSome, hr] at h
      | some r' =>
        simp [allSome, hr] at h
        subst h
        simp [hf a b hfa, allSome_map_eq g f hf r r' hr]

theorem meter_strip {w : Weights} {fs fs' : List Func} (h : meter w fs = some fs') :
    fs'.map stripFunc = fs.map stripFunc := by
  unfold meter at h
  induction fs generalizing fs' with
  | nil => simp [allSome] at h; subst h; rfl
  | cons f r ih =>
    simp only [List.map] at h
    cases hf : meterFunc w f with
    | none => simp [allSome, hf] at h
    | some f' =>
      cases hr : allSome (r.map (meterFunc w)) with
      | none => simp [allSome, hf, hr] at h
      | some r' =>
        simp [allSome, hf, hr] at h
        subst h
        simp [meterFunc_strip hf, ih hr]

/-! ### states and results up to the gas counter -/

def sim (s s0 : St) : Prop := s.stack = s0.stack ∧ s.locals = s0.locals

def Res.isOog : Res → Bool
  | .oog _ => true
  | _ => false

/-- same outcome up to the gas counters -/
def simR : Res → Res → Prop
  | .fall s, .fall s0 => sim s s0
  | .br d s, .br d0 s0 => d = d0 ∧ sim s s0
  | .ret s, .ret s0 => sim s s0
  | .trap t _, .trap t0 _ => t = t0
  | .timeout, .timeout => True
  | .stuck, .stuck => True
  | _, _ => False

/-- the instrumented run either ran out of gas or agrees with the reference run -/
def R (r r0 : Res) : Prop := r.isOog = true ∨ simR r r0

theorem R_andThen {r r0 : Res} {f f0 : St → Res} (h : R r r0)
    (hf : ∀ s s0, sim s s0 → R (f s) (f0 s0)) : R (r.andThen f) (r0.andThen f0) := by
  rcases h with h | h
  · cases r <;> simp [Res.isOog] at h
    exact Or.inl rfl
  · cases r <;> cases r0 <;> simp [simR] at h
    · exact hf _ _ h
    · exact Or.inr (by simpa [Res.andThen, simR] using h)
    · exact Or.inr (by simpa [Res.andThen, simR] using h)
    · exact Or.inr (by simpa [Res.andThen, simR] using h)
    · exact Or.inr (by simp [Res.andThen, simR])
    · exact Or.inr (by simp [Res.andThen, simR])

theorem R_leave {r r0 : Res} {outer : List Nat} {f f0 : St → Res} (h : R r r0)
    (hf : ∀ s s0, sim s s0 → R (f s) (f0 s0)) : R (r.leave outer f) (r0.leave outer f0) := by
  rcases h with h | h
  · cases r <;> simp [Res.isOog] at h
    exact Or.inl rfl
  · cases r <;> cases r0 <;> simp [simR] at h
    · exact hf _ _ ⟨rfl, h.2⟩
    · rename_i d s d0 s0
      obtain ⟨rfl, hs⟩ := h
      cases d with
      | zero => exact hf _ _ ⟨rfl, hs.2⟩
      | succ d => exact Or.inr (by simpa [Res.leave, simR] using hs)
    · exact Or.inr (by simpa [Res.leave, simR] using h)
    · exact Or.inr (by simpa [Res.leave, simR] using h)
    · exact Or.inr (by simp [Res.leave, simR])
    · exact Or.inr (by simp [Res.leave, simR])

theorem R_callResult {r r0 : Res} {st st0 : St} {rest : List Nat} (h : R r r0) (hl : st.locals = st0.locals) :
    R (callResult st rest r) (callResult st0 rest r0) := by
  rcases h with h | h
  · cases r <;> simp [Res.isOog] at h
    exact Or.inl rfl
  · cases r <;> cases r0 <;> simp [simR] at h
    all_goals try (right; simpa [callResult, simR] using h)
    all_goals
      first
      | (obtain ⟨hs, _⟩ := h
         right
         simp only [callResult]
         rw [← hs]
         split <;> simp [simR, sim, hl])
      | (obtain ⟨_, hs, _⟩ := h
         right
         simp only [callResult]
         rw [← hs]
         split <;> simp [simR, sim, hl])
      | (right; simp [callResult, simR])

/-- `stepOp` does not read or write the gas counter -/
theorem stepOp_gas (o : Op) (stk loc : List Nat) (g g0 : Nat) :
    stepOp o ⟨stk, loc, g0⟩ =
      match stepOp o ⟨stk, loc, g⟩ with
      | none => none
      | some (.inl t) => some (.inl t)
      | some (.inr s') => some (.inr { s' with gas := g0 }) := by
  cases o <;> simp only [stepOp]
  all_goals (repeat' split) <;> simp_all
  all_goals (try subst_vars)
  all_goals (try simp)

theorem stepOp_keeps_gas (o : Op) (s s' : St) (h : stepOp o s = some (.inr s')) : s'.gas = s.gas := by
  cases o <;> simp only [stepOp] at h
  all_goals (repeat' split at h) <;> simp_all
  all_goals (first | (obtain ⟨rfl⟩ := h; rfl) | (cases h; rfl) | skip)

theorem stepOp_sim (o : Op) {s s0 : St} (h : sim s s0) :
    match stepOp o s, stepOp o s0 with
    | none, none => True
    | some (.inl t), some (.inl t0) => t = t0
    | some (.inr s'), some (.inr s0') => sim s' s0'
    | _, _ => False := by
  obtain ⟨stk, loc, g⟩ := s
  obtain ⟨stk0, loc0, g0⟩ := s0
  obtain ⟨h1, h2⟩ := h
  simp only at h1 h2
  subst h1 h2
  rw [stepOp_gas o stk loc g g0]
  cases hs : stepOp o ⟨stk, loc, g⟩ with
  | none => simp
  | some v =>
    cases v with
    | inl t => simp
    | inr s' => simp [sim]

/-! ### the simulation: instrumented run under a budget vs. un-instrumented run -/

theorem charge_cases (B : Option Nat) (g : Nat) (st : St) :
    charge B g st = none ∨ ∃ st1, charge B g st = some st1 ∧ sim st1 st ∧ st1.gas = st.gas + g := by
  unfold charge
  cases B with
  | none => exact Or.inr ⟨_, rfl, ⟨rfl, rfl⟩, rfl⟩
  | some b =>
    by_cases h : st.gas + g > b
    · simp [h]
    · simp only [h, if_false]; exact Or.inr ⟨_, rfl, ⟨rfl, rfl⟩, rfl⟩

theorem charge_none_zero (st : St) : charge none 0 st = some st := rfl

theorem sim_trans {a b c : St} (h1 : sim a b) (h2 : sim b c) : sim a c :=
  ⟨h1.1.trans h2.1, h1.2.trans h2.2⟩

theorem strip_ite (p : Prop) [Decidable p] (a b : Code) : strip (if p then a else b) = if p then strip a else strip b := by
  split <;> rfl

theorem exec_sim (fs : List Func) (B : Option Nat) : ∀ fuel,
    (∀ c s s0, sim s s0 → R (exec fs B fuel c s) (exec (fs.map stripFunc) none fuel (strip c) s0)) ∧
    (∀ body k outer s s0, sim s s0 →
      R (loopExec fs B fuel body k outer s) (loopExec (fs.map stripFunc) none fuel (strip body) (strip k) outer s0)) := by
  intro fuel
  induction fuel with
  | zero =>
    constructor
    · intro c s s0 _; right; simp [exec, simR]
    · intro b k o s s0 _; right; simp [loopExec, simR]
  | succ n ih =>
    obtain ⟨ihE, ihL⟩ := ih
    constructor
    · intro c s s0 hs
      cases c with
      | done => right; simpa [exec, strip, simR] using hs
      | op g o k =>
        simp only [exec, strip]
        rcases charge_cases B g s with hc | ⟨st1, hc, hs1, _⟩
        · rw [hc]; exact Or.inl rfl
        · rw [hc, charge_none_zero]
          have h10 : sim st1 s0 := sim_trans hs1 hs
          have plain : ∀ o', R (stepK (stepOp o' st1) st1.gas (fun st' => exec fs B n k st'))
              (stepK (stepOp o' s0) s0.gas (fun st' => exec (fs.map stripFunc) none n (strip k) st')) := by
            intro o'
            have hso := stepOp_sim o' h10
            revert hso
            unfold stepK
            cases stepOp o' st1 with
            | none =>
              cases stepOp o' s0 with
              | none => intro _; right; simp [simR]
              | some v => cases v <;> simp
            | some v =>
              cases v with
              | inl t =>
                cases stepOp o' s0 with
                | none => simp
                | some v0 =>
                  cases v0 with
                  | inl t0 => intro h; right; simpa [simR] using h
                  | inr _ => simp
              | inr s' =>
                cases stepOp o' s0 with
                | none => simp
                | some v0 =>
                  cases v0 with
                  | inl _ => simp
                  | inr s0' => intro h; exact ihE k _ _ h
          cases o with
          | br d => right; simpa [simR] using h10
          | ret => right; simpa [simR] using h10
          | brIf d =>
            simp only
            rw [h10.1]
            cases hstk : s0.stack with
            | nil => right; simp [simR]
            | cons c r =>
              simp only
              by_cases hc0 : c = 0
              · simp only [hc0, if_true]
                exact ihE k _ _ ⟨rfl, h10.2⟩
              · simp only [hc0, if_false]
                right; simp [simR, sim, h10.2]
          | call f =>
            simp only [List.getElem?_map]
            cases hf : fs[f]? with
            | none => right; simp [simR]
            | some fn =>
              simp only [Option.map, stripFunc]
              rw [h10.1]
              by_cases hl : s0.stack.length < fn.params
              · simp only [hl, if_true]; right; simp [simR]
              · simp only [hl, if_false]
                exact R_andThen (R_callResult (ihE fn.body _ _ ⟨rfl, rfl⟩) h10.2) (fun a b hab => ihE k a b hab)
          | _ => (simp only; exact plain _)
      | block g b k =>
        simp only [exec, strip]
        rcases charge_cases B g s with hc | ⟨st1, hc, hs1, _⟩
        · rw [hc]; exact Or.inl rfl
        · rw [hc, charge_none_zero]
          have h10 : sim st1 s0 := sim_trans hs1 hs
          simp only
          rw [h10.1]
          exact R_leave (ihE b _ _ ⟨rfl, h10.2⟩) (fun a b hab => ihE k a b hab)
      | loop g b k =>
        simp only [exec, strip]
        rcases charge_cases B g s with hc | ⟨st1, hc, hs1, _⟩
        · rw [hc]; exact Or.inl rfl
        · rw [hc, charge_none_zero]
          have h10 : sim st1 s0 := sim_trans hs1 hs
          simp only
          rw [h10.1]
          exact ihL b k _ _ _ ⟨rfl, h10.2⟩
      | ite g t e k =>
        simp only [exec, strip]
        rcases charge_cases B g s with hc | ⟨st1, hc, hs1, _⟩
        · rw [hc]; exact Or.inl rfl
        · rw [hc, charge_none_zero]
          have h10 : sim st1 s0 := sim_trans hs1 hs
          simp only
          rw [h10.1]
          cases hstk : s0.stack with
          | nil => right; simp [simR]
          | cons c r =>
            simp only
            rw [← strip_ite]
            exact R_leave (ihE _ _ _ ⟨rfl, h10.2⟩) (fun a b hab => ihE k a b hab)
    · intro body k outer s s0 hs
      simp only [loopExec]
      have hb := ihE body s s0 hs
      generalize exec fs B n body s = r at hb ⊢
      generalize exec (fs.map stripFunc) none n (strip body) s0 = r0 at hb ⊢
      cases r <;> cases r0 <;> simp [R, simR, Res.isOog] at hb
      case fall.fall a b => exact ihE k _ _ ⟨rfl, hb.2⟩
      case br.br d a d0 b =>
        obtain ⟨rfl, hsim⟩ := hb
        cases d with
        | zero => exact ihL body k outer _ _ ⟨rfl, hsim.2⟩
        | succ d => right; simpa [simR] using hsim
      case ret.ret a b => right; simpa [simR] using hb
      case trap.trap t g t0 g0 => right; simpa [simR] using hb
      case timeout.timeout => right; simp [simR]
      case stuck.stuck => right; simp [simR]
      all_goals exact Or.inl rfl

end Radix.WasmMeter
