import RadixModel.Model.LockCells

/-! Helper lemmas for C51 (lockable cells of the system layer). -/
namespace Radix.LockCells

@[simp] theorem setCell_same (c : Addr → Cell) (a : Addr) (x : Cell) : setCell c a x a = x := by
  simp [setCell]

theorem setCell_other (c : Addr → Cell) (a b : Addr) (x : Cell) (h : b ≠ a) : setCell c a x b = c b := by
  simp [setCell, h]

/-- no open handle on `a` may write -/
def NoWriter (s : St) (a : Addr) : Prop :=
  ∀ h ∈ s.handles, h.isOpen = true → h.addr = a → h.writable = false

/-- `a` is locked with content `c`, and no write handle on it is open -/
def Frozen (s : St) (a : Addr) (c : Cell) : Prop :=
  s.cells a = c ∧ c.locked = true ∧ NoWriter s a

theorem getHandle_ok {s : St} {h : Nat} {hd : Handle} (hg : getHandle s h = .ok hd) :
    hd ∈ s.handles ∧ hd.isOpen = true := by
  unfold getHandle at hg
  split at hg
  · cases hg
  · rename_i x hx
    split at hg
    · rename_i ho
      cases hg
      exact ⟨List.mem_of_getElem? hx, ho⟩
    · cases hg

theorem mem_closeHandle {hs : List Handle} {h : Nat} {x : Handle} (hx : x ∈ closeHandle hs h) :
    x ∈ hs ∨ x.isOpen = false := by
  unfold closeHandle at hx
  split at hx
  · exact Or.inl hx
  · rcases List.mem_or_eq_of_mem_set hx with h1 | h1
    · exact Or.inl h1
    · right; rw [h1]

theorem noWriter_close {s : St} {a : Addr} {h : Nat} (hn : NoWriter s a) :
    NoWriter { s with handles := closeHandle s.handles h } a := by
  intro x hx ho ha
  rcases mem_closeHandle hx with h1 | h1
  · exact hn x h1 ho ha
  · rw [h1] at ho; cases ho

/-- a write through a handle cannot hit a frozen cell: the handle would be a writer on it -/
theorem writer_ne {s : St} {a : Addr} {h : Nat} {hd : Handle} (hn : NoWriter s a)
    (hg : getHandle s h = .ok hd) (hw : hd.writable = true) : hd.addr ≠ a := by
  intro ha
  have := getHandle_ok hg
  have := hn hd this.1 this.2 ha
  rw [hw] at this; cases this

/-- **Single API call.**  Whatever system-API call succeeds, a locked cell without an open write handle
    keeps its content and its lock, and still has no write handle. -/
theorem step_frozen {s s' : St} {a : Addr} {c : Cell} {st : Step} {o : Option (Option Nat)}
    (hf : Frozen s a c) (h : stepApi s st = .ok (s', o)) : Frozen s' a c := by
  obtain ⟨hc, hl, hn⟩ := hf
  cases st with
  | openC b m =>
    simp only [stepApi] at h
    split at h
    · cases h
    · split at h
      · cases h
      · rename_i hlk
        cases h
        refine ⟨hc, hl, ?_⟩
        intro x hx ho ha
        simp only [List.mem_append, List.mem_singleton] at hx
        rcases hx with hx | hx
        · exact hn x hx ho ha
        · subst hx
          simp only at ha ⊢
          subst ha
          -- opening `a` MUTABLE would have raised the locked error
          cases m with
          | false => rfl
          | true =>
            exfalso
            apply hlk
            simp [hc, hl]
  | fieldRead h' =>
    simp only [stepApi] at h
    split at h
    · cases h
    · split at h
      · cases h; exact ⟨hc, hl, hn⟩
      · cases h
  | kvGet h' =>
    simp only [stepApi] at h
    split at h
    · cases h
    · split at h
      · cases h; exact ⟨hc, hl, hn⟩
      · cases h
  | fieldWrite h' v =>
    simp only [stepApi] at h
    split at h
    · cases h
    · rename_i hd hg
      split at h
      · rename_i hcond
        cases h
        have hw : hd.writable = true := by simp at hcond; exact hcond.2
        exact ⟨by simp only; rw [setCell_other _ _ _ _ (Ne.symm (writer_ne hn hg hw))]; exact hc, hl, hn⟩
      · cases h
  | fieldLock h' =>
    simp only [stepApi] at h
    split at h
    · cases h
    · rename_i hd hg
      split at h
      · rename_i hcond
        cases h
        have hw : hd.writable = true := by simp at hcond; exact hcond.2
        exact ⟨by simp only; rw [setCell_other _ _ _ _ (Ne.symm (writer_ne hn hg hw))]; exact hc, hl, hn⟩
      · cases h
  | kvSet h' v =>
    simp only [stepApi] at h
    split at h
    · cases h
    · rename_i hd hg
      split at h
      · rename_i hcond
        cases h
        have hw : hd.writable = true := by simp at hcond; exact hcond.2
        exact ⟨by simp only; rw [setCell_other _ _ _ _ (Ne.symm (writer_ne hn hg hw))]; exact hc, hl, hn⟩
      · cases h
  | kvRemove h' =>
    simp only [stepApi] at h
    split at h
    · cases h
    · rename_i hd hg
      split at h
      · rename_i hcond
        cases h
        have hw : hd.writable = true := by simp at hcond; exact hcond.2
        exact ⟨by simp only; rw [setCell_other _ _ _ _ (Ne.symm (writer_ne hn hg hw))]; exact hc, hl, hn⟩
      · cases h
  | kvLock h' =>
    simp only [stepApi] at h
    split at h
    · cases h
    · rename_i hd hg
      split at h
      · rename_i hcond
        cases h
        have hw : hd.writable = true := by simp at hcond; exact hcond.2
        exact ⟨by simp only; rw [setCell_other _ _ _ _ (Ne.symm (writer_ne hn hg hw))]; exact hc, hl, hn⟩
      · cases h
  | fieldClose h' =>
    simp only [stepApi] at h
    split at h
    · cases h
    · split at h
      · cases h; exact ⟨hc, hl, noWriter_close hn⟩
      · cases h
  | kvClose h' =>
    simp only [stepApi] at h
    split at h
    · cases h
    · split at h
      · cases h; exact ⟨hc, hl, noWriter_close hn⟩
      · cases h

theorem runSteps_frozen (steps : List Step) : ∀ {s s' : St} {a : Addr} {c : Cell},
    Frozen s a c → runSteps s steps = .ok s' → Frozen s' a c := by
  induction steps with
  | nil => intro s s' a c hf h; simp [runSteps] at h; subst h; exact hf
  | cons st rest ih =>
    intro s s' a c hf h
    simp only [runSteps] at h
    split at h
    · cases h
    · rename_i s1 o h1
      exact ih (step_frozen hf h1) h

end Radix.LockCells
