/-
C02 — the execution phase: invariants of the transaction state (`Tx`) along every admissible op list.
Uses the forward-phase invariant of C12 (`inv_step`).
-/
import RadixModel.Lemmas.FailureCommit
import RadixModel.Props.C12
namespace Radix.FailureCommit
open Radix.KV Radix.SubstateDb Radix.Track

/-! ### admissible operations -/

/-- A kernel store call of the execution phase: C12's side condition (`create_node` on a fresh id, no
`revert`), and neither a bare `force_write` (the kernel only issues it when closing a lock that
carries `FORCE_WRITE`, i.e. inside `lock_fee`) nor `delete_partition` (its only call site is
`update_transaction_tracker`, after the revert — see `Generated/C02.lean`). -/
def StoreOK (t : Track) (op : Track.Op) : Prop :=
  Track.OpOK t op ∧
    (match op with
     | .forceWrite _ _ _ => False
     | .deletePartition _ _ => False
     | _ => True)

def TxOpOK (s : Tx) : TxOp → Prop
  | .store op => StoreOK s.track op
  | _ => True

def TxOpsOK (s : Tx) : List TxOp → Prop
  | [] => True
  | op :: rest => TxOpOK s op ∧ TxOpsOK (txStep s op).1 rest

theorem getTracked_force (t : Track) (n p k : Nat) :
    (getTracked t n p k).1.force = t.force ∧ (getTracked t n p k).1.deleted = t.deleted := by
  unfold getTracked; cases lookupTV t n p k <;> exact ⟨rfl, rfl⟩

theorem setSubstate_force (t : Track) (n p k v : Nat) :
    (setSubstate t n p k v).force = t.force := by
  unfold setSubstate; cases lookupTV t n p k <;> rfl

/-- store calls other than `force_write` / `delete_partition` / `revert` leave the force-write
record and the deleted-partition set alone -/
theorem step_force (t : Track) (op : Track.Op) (hop : StoreOK t op) :
    (step t op).1.force = t.force ∧ (step t op).1.deleted = t.deleted := by
  cases op with
  | get n p k => exact getTracked_force t n p k
  | set n p k v => exact ⟨setSubstate_force t n p k v, (setSubstate_fields t n p k v).2⟩
  | remove n p k => exact getTracked_force t n p k
  | create n subs => exact ⟨rfl, rfl⟩
  | scanKeys n p l =>
    unfold step scanKeys; simp only []
    rcases scanTrackedKeys l (trackedOr t n p) with ⟨items, rem⟩
    simp only []; split <;> exact ⟨rfl, rfl⟩
  | drain n p l =>
    unfold step drainSubstates; simp only []
    cases trackedPart t n p with
    | none => simp only []; split <;> exact ⟨rfl, rfl⟩
    | some part =>
      simp only []
      rcases drainTracked l part with ⟨part', items, rem⟩
      simp only []; split <;> exact ⟨rfl, rfl⟩
  | scanSorted n p l => exact ⟨rfl, rfl⟩
  | forceWrite n p k => exact hop.2.elim
  | deletePartition n p => exact hop.2.elim
  | revert => exact hop.1.elim

/-! ### `lock_fee` on the store -/

theorem getTracked_unmodified (t : Track) (n p k : Nat) (h : trackedInfo t n p k = .unmodified) :
    ∃ r, (getTracked t n p k).2 = .readOnly r := by
  unfold trackedInfo at h
  unfold getTracked
  cases hl : lookupTV t n p k with
  | none => exact ⟨_, rfl⟩
  | some tv =>
    rw [hl] at h
    cases tv with
    | readOnly r => exact ⟨r, rfl⟩
    | new v => simp at h
    | garbage => simp at h
    | writeOnly w => simp at h
    | readExistAndWrite o w => simp at h
    | readNonExistAndWrite v => simp at h

/-- the successful case of the balance part of `lock_fee`: the substate exists in the base database
with value `old ≥ amount`, it becomes `ReadExistAndWrite(old, Update(old - amount))` and exactly
that value is recorded as force-written -/
theorem lockFeeWrite_ok (t t3 : Track) (n p k a nb : Nat) (hinv : Inv t)
    (h : lockFeeWrite t n p k a = some (t3, .ok nb)) :
    ∃ old, t.db.get (n, p) k = some old ∧ a ≤ old ∧ nb = old - a
      ∧ Inv t3 ∧ t3.db = t.db ∧ t3.deleted = t.deleted
      ∧ t3.force = putIn t.force n p k (.readExistAndWrite old (.update (old - a))) := by
  unfold lockFeeWrite at h
  cases hi : trackedInfo t n p k with
  | new => rw [hi] at h; simp at h
  | updated => rw [hi] at h; simp at h
  | unmodified =>
    rw [hi] at h
    simp only [getSubstate] at h
    obtain ⟨r, hr⟩ := getTracked_unmodified t n p k hi
    have hgt := inv_getTracked t n p k hinv
    have hsp := getTracked_spec t n p k
    cases hv : (getTracked t n p k).2.get with
    | none => rw [hv] at h; simp at h
    | some bal =>
      rw [hv] at h
      simp only [] at h
      by_cases hlt : bal < a
      · simp [hlt] at h
      · simp only [hlt, if_false] at h
        have hle : a ≤ bal := Nat.le_of_not_lt hlt
        -- the cached read is `ReadOnly(Some(bal))` and coherent with the base database
        have hr' : r = some bal := by rw [hr] at hv; cases r <;> simp_all [TV.get]
        have hdb : t.db.get (n, p) k = some bal := by
          have := hgt.2.1; rw [hr, hr'] at this; exact this.symm
        -- `set_substate` turns it into `ReadExistAndWrite(bal, Update(bal - a))`
        have hl1 : lookupTV (getTracked t n p k).1 n p k = some (.readOnly (some bal)) := by
          rw [hsp.1, hr, hr']
        have hset : (setSubstate (getTracked t n p k).1 n p k (bal - a)).nodes
            = putIn (getTracked t n p k).1.nodes n p k (.readExistAndWrite bal (.update (bal - a))) := by
          unfold setSubstate; rw [hl1]; rfl
        have hl2 : lookupTV (setSubstate (getTracked t n p k).1 n p k (bal - a)) n p k
            = some (.readExistAndWrite bal (.update (bal - a))) := by
          unfold lookupTV; rw [hset, lookupIn_putIn]; simp
        have hinv2 : Inv (setSubstate (getTracked t n p k).1 n p k (bal - a)) := inv_set _ n p k _ hgt.1
        cases hfw : forceWrite (setSubstate (getTracked t n p k).1 n p k (bal - a)) n p k with
        | none => rw [hfw] at h; simp at h
        | some t3' =>
          rw [hfw] at h
          simp only [Option.some.injEq, Prod.mk.injEq, LockRes.ok.injEq] at h
          obtain ⟨rfl, rfl⟩ := h
          have hinv3 := inv_forceWrite _ _ n p k hinv2 hfw
          unfold forceWrite at hfw
          rw [hl2] at hfw
          simp only [Option.some.injEq] at hfw
          subst hfw
          refine ⟨bal, hdb, hle, rfl, hinv3, ?_, ?_, ?_⟩
          · show (setSubstate (getTracked t n p k).1 n p k (bal - a)).db = t.db
            rw [(setSubstate_fields _ n p k _).1, hgt.2.2]
          · show (setSubstate (getTracked t n p k).1 n p k (bal - a)).deleted = t.deleted
            rw [(setSubstate_fields _ n p k _).2, (getTracked_force t n p k).2]
          · show putIn (setSubstate (getTracked t n p k).1 n p k (bal - a)).force n p k _ = _
            rw [setSubstate_force, (getTracked_force t n p k).1]

/-- `lock_fee` never panics in `force_write` (the substate has just been written) and an error
leaves the force-write record alone -/
theorem lockFeeWrite_other (t : Track) (n p k a : Nat) (hinv : Inv t) :
    ∃ t' r, lockFeeWrite t n p k a = some (t', r) ∧ Inv t' ∧ t'.db = t.db ∧ t'.deleted = t.deleted
      ∧ ((∃ nb, r = .ok nb) ∨ t'.force = t.force) := by
  unfold lockFeeWrite
  cases hi : trackedInfo t n p k with
  | new => exact ⟨t, _, rfl, hinv, rfl, rfl, Or.inr rfl⟩
  | updated => exact ⟨t, _, rfl, hinv, rfl, rfl, Or.inr rfl⟩
  | unmodified =>
    simp only [getSubstate]
    have hgt := inv_getTracked t n p k hinv
    have hsp := getTracked_spec t n p k
    cases hv : (getTracked t n p k).2.get with
    | none =>
      exact ⟨_, _, rfl, hgt.1, hgt.2.2, (getTracked_force t n p k).2, Or.inr (getTracked_force t n p k).1⟩
    | some bal =>
      simp only []
      by_cases hlt : bal < a
      · simp only [hlt, if_true]
        exact ⟨_, _, rfl, hgt.1, hgt.2.2, (getTracked_force t n p k).2, Or.inr (getTracked_force t n p k).1⟩
      · simp only [hlt, if_false]
        have hinv2 : Inv (setSubstate (getTracked t n p k).1 n p k (bal - a)) := inv_set _ n p k _ hgt.1
        have hsome : ∃ tv, lookupTV (setSubstate (getTracked t n p k).1 n p k (bal - a)) n p k = some tv := by
          unfold setSubstate lookupTV
          cases lookupIn (getTracked t n p k).1.nodes n p k with
          | none => simp only [lookupIn_putIn]; exact ⟨TV.writeOnly (.update (bal - a)), by simp⟩
          | some tv => simp only [lookupIn_putIn]; exact ⟨tv.set (bal - a), by simp⟩
        obtain ⟨tv, htv⟩ := hsome
        have hfw : forceWrite (setSubstate (getTracked t n p k).1 n p k (bal - a)) n p k
            = some { setSubstate (getTracked t n p k).1 n p k (bal - a) with
                     force := putIn (setSubstate (getTracked t n p k).1 n p k (bal - a)).force n p k tv } := by
          unfold forceWrite; rw [htv]
        rw [hfw]
        refine ⟨_, _, rfl, inv_forceWrite _ _ n p k hinv2 hfw, ?_, ?_, Or.inl ⟨_, rfl⟩⟩
        · show (setSubstate (getTracked t n p k).1 n p k (bal - a)).db = t.db
          rw [(setSubstate_fields _ n p k _).1, hgt.2.2]
        · show (setSubstate (getTracked t n p k).1 n p k (bal - a)).deleted = t.deleted
          rw [(setSubstate_fields _ n p k _).2, (getTracked_force t n p k).2]

/-! ### the invariant of the execution phase -/

def lockEvent (l : Lock) : Event :=
  { force := true, emitter := l.n, name := EV_LOCK_FEE, payload := l.amount }

structure FwdInv (s : Tx) : Prop where
  inv : Inv s.track
  fnodup : NodesNodup s.track.force
  fsorted : ∀ n p, SMap.Sorted (partOf s.track.force n p)
  nodel : s.track.deleted = []
  /-- every force-written substate belongs to a recorded fee lock, exists in the base database with a
  value `old` at least the locked amount, and the recorded value is `old - amount` -/
  forced : ∀ n p k ftv, lookupIn s.track.force n p k = some ftv →
    ∃ l old, l ∈ s.locked ∧ l.key = (n, p, k) ∧ s.track.db.get (n, p) k = some old ∧ l.amount ≤ old
      ∧ ftv = .readExistAndWrite old (.update (old - l.amount))

theorem fwdInv_new (db : Db) (hdb : Db.WF db) : FwdInv (Tx.new db) := by
  refine ⟨inv_new db hdb, ⟨by simp [Tx.new, Track.new, IMap.Nodup], by simp [Tx.new, Track.new]⟩, ?_, rfl, ?_⟩
  · intro n p; simp [Tx.new, Track.new, partOf, SMap.Sorted]
  · intro n p k ftv h; simp [Tx.new, Track.new, lookupIn] at h

theorem fwdInv_step (s : Tx) (op : TxOp) (hop : TxOpOK s op) (h : FwdInv s) :
    FwdInv (txStep s op).1 ∧ (txStep s op).1.track.db = s.track.db := by
  cases op with
  | store o =>
    have hf := step_force s.track o hop
    have hdb := step_db s.track o hop.1
    have hi := inv_step s.track o hop.1 h.inv
    refine ⟨⟨hi, ?_, ?_, ?_, ?_⟩, hdb⟩
    · show NodesNodup (step s.track o).1.force; rw [hf.1]; exact h.fnodup
    · show ∀ n p, SMap.Sorted (partOf (step s.track o).1.force n p); rw [hf.1]; exact h.fsorted
    · show (step s.track o).1.deleted = []; rw [hf.2]; exact h.nodel
    · intro n p k ftv hl
      have hl' : lookupIn s.track.force n p k = some ftv := by
        have : lookupIn (step s.track o).1.force n p k = some ftv := hl
        rw [hf.1] at this; exact this
      obtain ⟨l, old, hm, hk, hd, hle, hv⟩ := h.forced n p k ftv hl'
      refine ⟨l, old, hm, hk, ?_, hle, hv⟩
      show (step s.track o).1.db.get (n, p) k = some old
      rw [hdb]; exact hd
  | emit f v e nm pl =>
    simp only [txStep]
    split
    · exact ⟨⟨h.inv, h.fnodup, h.fsorted, h.nodel, h.forced⟩, rfl⟩
    · exact ⟨h, rfl⟩
  | lockFee n p k a =>
    obtain ⟨t', r, hlf, hinv', hdb', hdel', hcase⟩ := lockFeeWrite_other s.track n p k a h.inv
    cases r with
    | ok nb =>
      obtain ⟨old, hd, hle, _, _, _, _, hforce⟩ := lockFeeWrite_ok s.track t' n p k a nb h.inv hlf
      simp only [txStep, hlf]
      have hsh := shape_putIn s.track.force n p k (.readExistAndWrite old (.update (old - a))) ⟨h.fnodup, h.fsorted⟩
      refine ⟨⟨hinv', ?_, ?_, ?_, ?_⟩, hdb'⟩
      · show NodesNodup t'.force; rw [hforce]; exact hsh.1
      · show ∀ n' p', SMap.Sorted (partOf t'.force n' p'); rw [hforce]; exact hsh.2
      · show t'.deleted = []; rw [hdel']; exact h.nodel
      · intro n' p' k' ftv hl
        have hl' : lookupIn t'.force n' p' k' = some ftv := hl
        rw [hforce, lookupIn_putIn] at hl'
        show ∃ l old', l ∈ s.locked ++ [{ n := n, p := p, k := k, amount := a }] ∧ l.key = (n', p', k')
          ∧ t'.db.get (n', p') k' = some old' ∧ l.amount ≤ old' ∧ ftv = _
        rw [hdb']
        by_cases hh : n' = n ∧ p' = p ∧ k' = k
        · obtain ⟨rfl, rfl, rfl⟩ := hh
          simp only [and_self, if_true, Option.some.injEq] at hl'
          exact ⟨{ n := n', p := p', k := k', amount := a }, old, by simp, rfl, hd, hle, hl'.symm⟩
        · simp only [hh, if_false] at hl'
          obtain ⟨l, old', hm, hk, hd', hle', hv⟩ := h.forced n' p' k' ftv hl'
          exact ⟨l, old', List.mem_append_left _ hm, hk, hd', hle', hv⟩
    | newSubstate | updatedSubstate | fault | insufficient b =>
      all_goals
        have hforce : t'.force = s.track.force := by
          rcases hcase with ⟨nb, hnb⟩ | hf
          · cases hnb
          · exact hf
        simp only [txStep, hlf]
        refine ⟨⟨hinv', ?_, ?_, ?_, ?_⟩, hdb'⟩
        · show NodesNodup t'.force; rw [hforce]; exact h.fnodup
        · show ∀ n' p', SMap.Sorted (partOf t'.force n' p'); rw [hforce]; exact h.fsorted
        · show t'.deleted = []; rw [hdel']; exact h.nodel
        · intro n' p' k' ftv hl
          have hl' : lookupIn t'.force n' p' k' = some ftv := hl
          rw [hforce] at hl'
          obtain ⟨l, old', hm, hk, hd', hle', hv⟩ := h.forced n' p' k' ftv hl'
          refine ⟨l, old', hm, hk, ?_, hle', hv⟩
          show t'.db.get (n', p') k' = some old'
          rw [hdb']; exact hd'

theorem fwdInv_fold (ops : List TxOp) (s : Tx) (hops : TxOpsOK s ops) (h : FwdInv s) :
    FwdInv (ops.foldl (fun s op => (txStep s op).1) s)
      ∧ (ops.foldl (fun s op => (txStep s op).1) s).track.db = s.track.db := by
  induction ops generalizing s with
  | nil => exact ⟨h, rfl⟩
  | cons op rest ih =>
    have h1 := fwdInv_step s op hops.1 h
    have h2 := ih _ hops.2 h1.1
    exact ⟨h2.1, h2.2.trans h1.2⟩

/-! ### force-flagged events -/

/-- no op list element is an `actor_emit_event(.., FORCE_WRITE)` by a fungible-vault actor: the
vault blueprint emits its only force-flagged event inside `lock_fee` (modelled by `.lockFee`) -/
def NoVaultForcedEmit (ops : List TxOp) : Prop :=
  ∀ op ∈ ops, ∀ e nm pl, op ≠ .emit true true e nm pl

theorem forced_events_step (s : Tx) (op : TxOp) (hop : ∀ e nm pl, op ≠ .emit true true e nm pl)
    (h : filterEvents false s.events = s.locked.map lockEvent) :
    filterEvents false (txStep s op).1.events = (txStep s op).1.locked.map lockEvent := by
  cases op with
  | store o => exact h
  | lockFee n p k a =>
    simp only [txStep]
    cases hl : lockFeeWrite s.track n p k a with
    | none => exact h
    | some tr =>
      obtain ⟨t', r⟩ := tr
      cases r with
      | ok nb =>
        simp only [filterEvents, List.filter_append, List.map_append] at h ⊢
        rw [h]
        simp [lockEvent]
      | newSubstate => exact h
      | updatedSubstate => exact h
      | fault => exact h
      | insufficient b => exact h
  | emit f v e nm pl =>
    simp only [txStep]
    by_cases hg : emitFlagsAllowed f v = true
    · simp only [hg, if_true]
      have hf : f = false := by
        cases f with
        | false => rfl
        | true =>
          cases v with
          | true => exact absurd rfl (hop e nm pl)
          | false => simp [emitFlagsAllowed] at hg
      subst hf
      simp only [filterEvents, List.filter_append] at h ⊢
      rw [h]; simp
    · simp only [hg, if_false]; exact h

theorem forced_events_fold (ops : List TxOp) (s : Tx) (hno : NoVaultForcedEmit ops)
    (h : filterEvents false s.events = s.locked.map lockEvent) :
    filterEvents false (ops.foldl (fun s op => (txStep s op).1) s).events
      = (ops.foldl (fun s op => (txStep s op).1) s).locked.map lockEvent := by
  induction ops generalizing s with
  | nil => exact h
  | cons op rest ih =>
    exact ih _ (fun o ho => hno o (List.mem_cons_of_mem _ ho))
      (forced_events_step s op (hno op (List.mem_cons_self ..)) h)

/-! ### which substates the finalization writes -/

/-- fee vaults that locked a fee, the validator-rewards field, the rewards vault, the transaction
tracker -/
def Allowed (sys : Sys) (locked : List Lock) (key : Key) : Prop :=
  key ∈ locked.map Lock.key ∨ key = (sys.cmNode, sys.cmPart, sys.cmRewardsKey) ∨ key = sys.rewardsVault
    ∨ key.1 = sys.trNode

theorem refundOps_written (ls : List Lock) (as : List Nat) (ops : List FinOp) (evs : List Event)
    (h : refundOps ls as = some (ops, evs)) :
    (∀ op ∈ ops, ∀ key, op.written = some key → key ∈ ls.map Lock.key) ∧ (∀ op ∈ ops, op.deleted = none)
      ∧ evs.length = ls.length ∧ (∀ e ∈ evs, e.force = false ∧ e.name = EV_PAY_FEE ∧ ∃ l ∈ ls, e.emitter = l.n) := by
  induction ls generalizing as ops evs with
  | nil =>
    cases as with
    | nil => simp only [refundOps, Option.some.injEq, Prod.mk.injEq] at h; obtain ⟨rfl, rfl⟩ := h; simp
    | cons a as => simp [refundOps] at h
  | cons l ls ih =>
    cases as with
    | nil => simp [refundOps] at h
    | cons a as =>
      simp only [refundOps] at h
      by_cases hlt : l.amount < a
      · simp [hlt] at h
      · simp only [hlt, if_false] at h
        cases hr : refundOps ls as with
        | none => rw [hr] at h; simp at h
        | some r =>
          obtain ⟨ops', evs'⟩ := r
          rw [hr] at h
          simp only [Option.some.injEq, Prod.mk.injEq] at h
          obtain ⟨rfl, rfl⟩ := h
          obtain ⟨i1, i2, i3, i4⟩ := ih as ops' evs' hr
          refine ⟨?_, ?_, by simp [i3], ?_⟩
          · intro op hop key hw
            rcases List.mem_cons.mp hop with rfl | hop
            · simp only [FinOp.written, Option.some.injEq] at hw
              subst hw; simp [Lock.key]
            · exact List.mem_cons_of_mem _ (i1 op hop key hw)
          · intro op hop
            rcases List.mem_cons.mp hop with rfl | hop
            · rfl
            · exact i2 op hop
          · intro e he
            rcases List.mem_cons.mp he with rfl | he
            · exact ⟨rfl, rfl, l, List.mem_cons_self .., rfl⟩
            · obtain ⟨a1, a2, l', hl', a3⟩ := i4 e he
              exact ⟨a1, a2, l', List.mem_cons_of_mem _ hl', a3⟩

theorem feeFinOps_written (sys : Sys) (locked : List Lock) (fi : FinInput) (ops : List FinOp) (evs : List Event)
    (h : feeFinOps sys locked fi = some (ops, evs)) :
    (∀ op ∈ ops, ∀ key, op.written = some key → Allowed sys locked key) ∧ (∀ op ∈ ops, op.deleted = none)
      ∧ (∀ e ∈ evs, e.force = false ∧ (e.name = EV_PAY_FEE ∨ e.name = EV_DEPOSIT ∨ e.name = EV_BURN)) := by
  unfold feeFinOps at h
  cases hr : refundOps locked.reverse fi.payments with
  | none => rw [hr] at h; simp at h
  | some r =>
    obtain ⟨rops, revs⟩ := r
    rw [hr] at h
    simp only [Option.some.injEq, Prod.mk.injEq] at h
    obtain ⟨rfl, rfl⟩ := h
    obtain ⟨i1, i2, _, i4⟩ := refundOps_written _ _ _ _ hr
    refine ⟨?_, ?_, ?_⟩
    · intro op hop key hw
      rcases List.mem_append.mp hop with hop | hop
      · left
        have := i1 op hop key hw
        simpa using this
      · by_cases hc : fi.toProposer ≠ 0 ∨ fi.toValidatorSet ≠ 0
        · simp only [hc, if_true, List.mem_cons, List.not_mem_nil, or_false] at hop
          rcases hop with rfl | rfl | rfl | rfl
          · simp [FinOp.written] at hw
          · simp [FinOp.written] at hw
          · simp only [FinOp.written, Option.some.injEq] at hw; subst hw; right; left; rfl
          · simp only [FinOp.written, Option.some.injEq] at hw; subst hw; right; right; left; rfl
        · simp [hc] at hop
    · intro op hop
      rcases List.mem_append.mp hop with hop | hop
      · exact i2 op hop
      · by_cases hc : fi.toProposer ≠ 0 ∨ fi.toValidatorSet ≠ 0
        · simp only [hc, if_true, List.mem_cons, List.not_mem_nil, or_false] at hop
          rcases hop with rfl | rfl | rfl | rfl <;> rfl
        · simp [hc] at hop
    · intro e he
      rcases List.mem_append.mp he with he | he
      · rcases List.mem_append.mp he with he | he
        · exact ⟨(i4 e he).1, Or.inl (i4 e he).2.1⟩
        · by_cases hc : fi.toProposer ≠ 0 ∨ fi.toValidatorSet ≠ 0
          · simp only [hc, if_true, List.mem_singleton] at he
            subst he; exact ⟨rfl, Or.inr (Or.inl rfl)⟩
          · simp [hc] at he
      · by_cases hb : fi.toBurn > 0
        · simp only [hb, if_true, List.mem_singleton] at he
          subst he; exact ⟨rfl, Or.inr (Or.inr rfl)⟩
        · simp [hb] at he

theorem trackerFinOps_written (sys : Sys) (fi : FinInput) :
    (∀ op ∈ trackerFinOps sys fi, ∀ key, op.written = some key → key.1 = sys.trNode)
      ∧ (∀ op ∈ trackerFinOps sys fi, ∀ np, op.deleted = some np → np.1 = sys.trNode) := by
  unfold trackerFinOps
  by_cases he : fi.hasEpoch = true
  · simp only [he, if_true]
    refine ⟨?_, ?_⟩
    · intro op hop key hw
      simp only [List.mem_append, List.mem_cons, List.not_mem_nil, or_false, List.mem_map] at hop
      rcases hop with ((rfl | ⟨ph, _, rfl⟩) | hop) | rfl
      · simp [FinOp.written] at hw
      · simp only [FinOp.written, Option.some.injEq] at hw; subst hw; rfl
      · cases hadv : fi.advance with
        | none => rw [hadv] at hop; simp at hop
        | some old => rw [hadv] at hop; simp at hop; subst hop; simp [FinOp.written] at hw
      · simp only [FinOp.written, Option.some.injEq] at hw; subst hw; rfl
    · intro op hop np hd
      simp only [List.mem_append, List.mem_cons, List.not_mem_nil, or_false, List.mem_map] at hop
      rcases hop with ((rfl | ⟨ph, _, rfl⟩) | hop) | rfl
      · simp [FinOp.deleted] at hd
      · simp [FinOp.deleted] at hd
      · cases hadv : fi.advance with
        | none => rw [hadv] at hop; simp at hop
        | some old =>
          rw [hadv] at hop; simp at hop; subst hop
          simp only [FinOp.deleted, Option.some.injEq] at hd; subst hd; rfl
      · simp [FinOp.deleted] at hd
  · simp [he]

end Radix.FailureCommit
