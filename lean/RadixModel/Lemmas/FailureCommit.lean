/-
C02 — lemmas about `revert`, the finalization writes and the final state updates
(`Model/FailureCommit.lean`, `Model/Track.lean`).
-/
import RadixModel.Model.FailureCommit
import RadixModel.Lemmas.Track
namespace Radix.FailureCommit
open Radix.KV Radix.SubstateDb Radix.Track

/-! ### `IndexMap::retain` -/

theorem get?_retain {V : Type} (m : List (Nat × V)) (q : Nat → V → Bool) (hn : IMap.Nodup m) (k : Nat) :
    IMap.get? (IMap.retain m q) k
      = match IMap.get? m k with
        | some v => if q k v then some v else none
        | none => none := by
  induction m with
  | nil => rfl
  | cons hd t ih =>
    obtain ⟨a, b⟩ := hd
    unfold IMap.Nodup at hn ih
    rw [List.pairwise_cons] at hn
    have ih' := ih hn.2
    unfold IMap.retain at ih' ⊢
    simp only [List.filter_cons]
    by_cases hk : k = a
    · subst hk
      have hnone : IMap.get? (List.filter (fun kv => q kv.1 kv.2) t) k = none := by
        apply IMap.get?_eq_none_of_notin
        intro x hx
        exact fun e => hn.1 x (List.mem_filter.mp hx).1 e.symm
      by_cases hq : q k b = true
      · simp [hq, IMap.get?_cons]
      · have hq' : q k b = false := by simpa using hq
        simp [hq', IMap.get?_cons, hnone]
    · by_cases hq : q a b = true
      · simp only [hq, if_true, IMap.get?_cons, hk, if_false]; exact ih'
      · have hq' : q a b = false := by simpa using hq
        simp only [hq', Bool.false_eq_true, if_false, IMap.get?_cons, hk]; exact ih'

/-! ### the tracked nodes kept and reset by `revert_non_force_write_changes` -/

/-- `tracked_nodes.retain(!is_new)` followed by `revert_writes` on every node -/
def keptNodes (nodes : Nodes) : Nodes :=
  (IMap.retain nodes (fun _ nd => !nd.isNew)).map (fun nn => (nn.1, nn.2.revertWrites))

theorem partOf_kept (nodes : Nodes) (hn : IMap.Nodup nodes) (n p : Nat) :
    partOf (keptNodes nodes) n p
      = if isNewIn nodes n = true then []
        else (partOf nodes n p).map (fun ktv => (ktv.1, ktv.2.revertWrites)) := by
  unfold partOf keptNodes isNewIn
  rw [IMap.get?_map, get?_retain _ _ hn]
  cases hg : IMap.get? nodes n with
  | none => simp
  | some nd =>
    simp only []
    cases hnew : nd.isNew with
    | true => simp
    | false =>
      simp only [Bool.not_false, if_true, Option.map_some, Bool.false_eq_true, if_false]
      unfold TNode.revertWrites
      simp only []
      rw [IMap.get?_map]
      cases IMap.get? nd.parts p <;> rfl

theorem isNewIn_kept (nodes : Nodes) (hn : IMap.Nodup nodes) (n : Nat) : isNewIn (keptNodes nodes) n = false := by
  unfold keptNodes isNewIn
  rw [IMap.get?_map, get?_retain _ _ hn]
  cases hg : IMap.get? nodes n with
  | none => simp
  | some nd =>
    simp only []
    cases hnew : nd.isNew with
    | true => simp
    | false => simp [TNode.revertWrites, hnew]

theorem nodesNodup_kept (nodes : Nodes) (hn : NodesNodup nodes) : NodesNodup (keptNodes nodes) := by
  unfold keptNodes
  refine ⟨?_, ?_⟩
  · apply IMap.nodup_map
    unfold IMap.retain IMap.Nodup
    exact List.Pairwise.filter _ hn.outer
  · intro x hx
    rw [List.mem_map] at hx
    obtain ⟨y, hy, rfl⟩ := hx
    have hy' : y ∈ nodes := (List.mem_filter.mp hy).1
    simp only [TNode.revertWrites]
    exact IMap.nodup_map _ _ (hn.inner y hy')

/-! ### applying the force-written values -/

theorem applyForcePart_spec (part : TPart) (hs : SMap.Sorted part) (nodes nodes' : Nodes) (n p : Nat)
    (h : applyForcePart nodes n p part = some nodes') (n' p' k' : Nat) :
    lookupIn nodes' n' p' k'
      = if n' = n ∧ p' = p then
          (match SMap.get? part k' with | some tv => some tv | none => lookupIn nodes n' p' k')
        else lookupIn nodes n' p' k' := by
  induction part generalizing nodes with
  | nil =>
    simp only [applyForcePart, Option.some.injEq] at h
    subst h
    simp [SMap.get?]
  | cons hd rest ih =>
    obtain ⟨k0, tv0⟩ := hd
    have h2 := (sorted_cons _ _).mp hs
    simp only [applyForcePart] at h
    cases hr : replaceExisting nodes n p k0 tv0 with
    | none => rw [hr] at h; simp at h
    | some nodes1 =>
      rw [hr] at h
      simp only [] at h
      have hn1 : nodes1 = putIn nodes n p k0 tv0 := by
        unfold replaceExisting at hr
        cases hl : lookupIn nodes n p k0 with
        | none => rw [hl] at hr; simp at hr
        | some x => rw [hl] at hr; simp at hr; exact hr.symm
      rw [ih h2.2 nodes1 h, hn1]
      by_cases hnp : n' = n ∧ p' = p
      · obtain ⟨rfl, rfl⟩ := hnp
        simp only [and_self, if_true, SMap.get?_cons, lookupIn_putIn, true_and]
        by_cases hk : k' = k0
        · subst hk
          rw [get?_none_of_sorted_cons_lt k' tv0 rest k' hs (Nat.le_refl _)]
          simp
        · simp only [hk, if_false]
      · simp only [hnp, if_false, lookupIn_putIn]
        have : ¬ (n' = n ∧ p' = p ∧ k' = k0) := fun hh => hnp ⟨hh.1, hh.2.1⟩
        simp only [this, if_false]

theorem applyForceNode_spec (parts : List (Nat × TPart)) (hn : IMap.Nodup parts)
    (hs : ∀ x ∈ parts, SMap.Sorted x.2) (nodes nodes' : Nodes) (n : Nat)
    (h : applyForceNode nodes n parts = some nodes') (n' p' k' : Nat) :
    lookupIn nodes' n' p' k'
      = if n' = n then
          (match IMap.get? parts p' with
           | some part => (match SMap.get? part k' with | some tv => some tv | none => lookupIn nodes n' p' k')
           | none => lookupIn nodes n' p' k')
        else lookupIn nodes n' p' k' := by
  induction parts generalizing nodes with
  | nil =>
    simp only [applyForceNode, Option.some.injEq] at h
    subst h
    simp
  | cons hd rest ih =>
    obtain ⟨p0, part0⟩ := hd
    unfold IMap.Nodup at hn ih
    rw [List.pairwise_cons] at hn
    simp only [applyForceNode] at h
    cases hr : applyForcePart nodes n p0 part0 with
    | none => rw [hr] at h; simp at h
    | some nodes1 =>
      rw [hr] at h
      simp only [] at h
      have hp := applyForcePart_spec part0 (hs _ (List.mem_cons_self ..)) nodes nodes1 n p0 hr
      rw [ih hn.2 (fun x hx => hs x (List.mem_cons_of_mem _ hx)) nodes1 h]
      by_cases hn' : n' = n
      · subst hn'
        simp only [if_true, IMap.get?_cons]
        by_cases hp' : p' = p0
        · subst hp'
          have : IMap.get? rest p' = none :=
            IMap.get?_eq_none_of_notin rest p' (fun x hx e => hn.1 x hx e.symm)
          simp only [this, if_true]
          rw [hp]; simp
        · simp only [hp', if_false]
          cases IMap.get? rest p' with
          | none => simp only []; rw [hp]; simp [hp']
          | some part =>
            simp only []
            cases SMap.get? part k' with
            | some tv => rfl
            | none => simp only []; rw [hp]; simp [hp']
      · simp only [hn', if_false]
        rw [hp]; simp [hn']

/-- every tracked partition of every node is a `BTreeMap` (membership form) -/
def PartsSorted (nodes : Nodes) : Prop := ∀ x ∈ nodes, ∀ y ∈ x.2.parts, SMap.Sorted y.2

theorem lookupIn_cons_ne (n0 : Nat) (nd : TNode) (rest : Nodes) (n p k : Nat) (h : n ≠ n0) :
    lookupIn ((n0, nd) :: rest) n p k = lookupIn rest n p k := by
  unfold lookupIn
  simp [IMap.get?_cons, h]

theorem lookupIn_cons_eq (n0 : Nat) (nd : TNode) (rest : Nodes) (p k : Nat) :
    lookupIn ((n0, nd) :: rest) n0 p k
      = match IMap.get? nd.parts p with | some part => SMap.get? part k | none => none := by
  unfold lookupIn
  simp only [IMap.get?_cons, if_true]
  cases IMap.get? nd.parts p <;> rfl

theorem applyForce_spec (force : Nodes) (hf : NodesNodup force) (hs : PartsSorted force)
    (nodes nodes' : Nodes) (h : applyForce nodes force = some nodes') (n' p' k' : Nat) :
    lookupIn nodes' n' p' k'
      = match lookupIn force n' p' k' with
        | some tv => some tv
        | none => lookupIn nodes n' p' k' := by
  induction force generalizing nodes with
  | nil =>
    simp only [applyForce, Option.some.injEq] at h
    subst h
    simp [lookupIn]
  | cons hd rest ih =>
    obtain ⟨n0, nd0⟩ := hd
    have ho := hf.outer
    unfold IMap.Nodup at ho
    rw [List.pairwise_cons] at ho
    simp only [applyForce] at h
    cases hr : applyForceNode nodes n0 nd0.parts with
    | none => rw [hr] at h; simp at h
    | some nodes1 =>
      rw [hr] at h
      simp only [] at h
      have hnode := applyForceNode_spec nd0.parts (hf.inner _ (List.mem_cons_self ..))
        (hs _ (List.mem_cons_self ..)) nodes nodes1 n0 hr
      have hrest : NodesNodup rest := ⟨ho.2, fun x hx => hf.inner x (List.mem_cons_of_mem _ hx)⟩
      rw [ih hrest (fun x hx => hs x (List.mem_cons_of_mem _ hx)) nodes1 h]
      by_cases hn' : n' = n0
      · subst hn'
        have hnone : lookupIn rest n' p' k' = none := by
          unfold lookupIn
          rw [IMap.get?_eq_none_of_notin rest n' (fun x hx e => ho.1 x hx e.symm)]
        rw [hnone, lookupIn_cons_eq, hnode]
        simp only [if_true]
        cases IMap.get? nd0.parts p' with
        | none => rfl
        | some part => cases SMap.get? part k' <;> rfl
      · rw [lookupIn_cons_ne _ _ _ _ _ _ hn', hnode]
        simp [hn']

/-- a property of the tracked nodes that every in-place replacement keeps -/
theorem applyForce_preserves (P : Nodes → Prop)
    (hP : ∀ nodes n p k tv, P nodes → P (putIn nodes n p k tv))
    (force nodes nodes' : Nodes) (h : applyForce nodes force = some nodes') (h0 : P nodes) : P nodes' := by
  have hpart : ∀ (part : TPart) (nodes nodes' : Nodes) (n p : Nat),
      applyForcePart nodes n p part = some nodes' → P nodes → P nodes' := by
    intro part
    induction part with
    | nil => intro nodes nodes' n p h h0; simp only [applyForcePart, Option.some.injEq] at h; subst h; exact h0
    | cons hd rest ih =>
      intro nodes nodes' n p h h0
      obtain ⟨k0, tv0⟩ := hd
      simp only [applyForcePart] at h
      cases hr : replaceExisting nodes n p k0 tv0 with
      | none => rw [hr] at h; simp at h
      | some nodes1 =>
        rw [hr] at h
        have hn1 : nodes1 = putIn nodes n p k0 tv0 := by
          unfold replaceExisting at hr
          cases hl : lookupIn nodes n p k0 with
          | none => rw [hl] at hr; simp at hr
          | some x => rw [hl] at hr; simp at hr; exact hr.symm
        exact ih nodes1 nodes' n p h (hn1 ▸ hP nodes n p k0 tv0 h0)
  have hnode : ∀ (parts : List (Nat × TPart)) (nodes nodes' : Nodes) (n : Nat),
      applyForceNode nodes n parts = some nodes' → P nodes → P nodes' := by
    intro parts
    induction parts with
    | nil => intro nodes nodes' n h h0; simp only [applyForceNode, Option.some.injEq] at h; subst h; exact h0
    | cons hd rest ih =>
      intro nodes nodes' n h h0
      obtain ⟨p0, part0⟩ := hd
      simp only [applyForceNode] at h
      cases hr : applyForcePart nodes n p0 part0 with
      | none => rw [hr] at h; simp at h
      | some nodes1 =>
        rw [hr] at h
        exact ih nodes1 nodes' n h (hpart part0 nodes nodes1 n p0 hr h0)
  induction force generalizing nodes with
  | nil => simp only [applyForce, Option.some.injEq] at h; subst h; exact h0
  | cons hd rest ih =>
    obtain ⟨n0, nd0⟩ := hd
    simp only [applyForce] at h
    cases hr : applyForceNode nodes n0 nd0.parts with
    | none => rw [hr] at h; simp at h
    | some nodes1 =>
      rw [hr] at h
      exact ih nodes1 h (hnode nd0.parts nodes nodes1 n0 hr h0)


/-! ### `revert_non_force_write_changes` -/

theorem revert_eq (t t' : Track) (h : revert t = some t') :
    ∃ nodes', applyForce (keptNodes t.nodes) t.force = some nodes'
      ∧ t' = { t with nodes := nodes', force := [] } := by
  unfold revert at h
  simp only [] at h
  change (match applyForce (keptNodes t.nodes) t.force with
    | none => none
    | some nodes' => some { t with nodes := nodes', force := [] }) = some t' at h
  cases ha : applyForce (keptNodes t.nodes) t.force with
  | none => rw [ha] at h; simp at h
  | some nodes' => rw [ha] at h; simp at h; exact ⟨nodes', rfl, h.symm⟩

/-- what is tracked after the revert: the force-written value where there is one, otherwise the
cached read of a node that existed before (its writes dropped), nothing for nodes created by the
transaction -/
theorem lookup_revert (t t' : Track) (hn : NodesNodup t.nodes) (hf : NodesNodup t.force)
    (hs : PartsSorted t.force) (h : revert t = some t') (n p k : Nat) :
    lookupIn t'.nodes n p k
      = match lookupIn t.force n p k with
        | some tv => some tv
        | none => if isNewIn t.nodes n = true then none
                  else (lookupIn t.nodes n p k).map TV.revertWrites := by
  obtain ⟨nodes', ha, rfl⟩ := revert_eq t t' h
  show lookupIn nodes' n p k = _
  rw [applyForce_spec t.force hf hs _ _ ha]
  cases lookupIn t.force n p k with
  | some tv => rfl
  | none =>
    simp only []
    rw [lookupIn_eq, partOf_kept _ hn.outer]
    split
    · rfl
    · rw [SMap.get?_map, lookupIn_eq]

theorem revert_fields (t t' : Track) (h : revert t = some t') :
    t'.db = t.db ∧ t'.deleted = t.deleted ∧ t'.force = [] := by
  obtain ⟨nodes', _, rfl⟩ := revert_eq t t' h
  exact ⟨rfl, rfl, rfl⟩

/-- representation invariants needed to read the final state updates -/
structure Shape (t : Track) : Prop where
  nodup : NodesNodup t.nodes
  sorted : ∀ n p, SMap.Sorted (partOf t.nodes n p)

theorem shape_putIn (nodes : Nodes) (n p k : Nat) (tv : TV)
    (h : NodesNodup nodes ∧ ∀ n p, SMap.Sorted (partOf nodes n p)) :
    NodesNodup (putIn nodes n p k tv) ∧ ∀ n' p', SMap.Sorted (partOf (putIn nodes n p k tv) n' p') := by
  refine ⟨nodesNodup_alterPart nodes n p _ h.1, ?_⟩
  intro n' p'
  unfold putIn
  rw [partOf_alterPart]
  split
  · exact SMap.sorted_insert _ k tv (h.2 n p)
  · exact h.2 n' p'

theorem shape_revert (t t' : Track) (hsh : Shape t) (h : revert t = some t') :
    Shape t' ∧ ∀ n, isNewIn t'.nodes n = false := by
  obtain ⟨nodes', ha, rfl⟩ := revert_eq t t' h
  have hk : NodesNodup (keptNodes t.nodes) ∧ ∀ n p, SMap.Sorted (partOf (keptNodes t.nodes) n p) := by
    refine ⟨nodesNodup_kept _ hsh.nodup, ?_⟩
    intro n p
    rw [partOf_kept _ hsh.nodup.outer]
    split
    · simp [SMap.Sorted]
    · exact SMap.sorted_map _ _ (hsh.sorted n p)
  have h1 := applyForce_preserves (fun nodes => NodesNodup nodes ∧ ∀ n p, SMap.Sorted (partOf nodes n p))
    (fun nodes n p k tv hh => shape_putIn nodes n p k tv hh) t.force _ _ ha hk
  have h2 := applyForce_preserves (fun nodes => ∀ n, isNewIn nodes n = false)
    (fun nodes n p k tv hh n' => by unfold putIn; rw [isNewIn_alterPart]; exact hh n') t.force _ _ ha
    (fun n => isNewIn_kept _ hsh.nodup.outer n)
  exact ⟨⟨h1.1, h1.2⟩, h2⟩

theorem revertWrites_toUpdate (tv : TV) : tv.revertWrites.toUpdate = none := by
  cases tv <;> rfl

/-- **revert, semantically**: what committing the reverted track would write — for a force-written
substate the force-written update, for everything else nothing (the base database value stays). -/
theorem effCommit_revert (t t' : Track) (hn : NodesNodup t.nodes) (hf : NodesNodup t.force)
    (hs : PartsSorted t.force) (h : revert t = some t') (n p k : Nat) :
    effCommit t' n p k
      = match lookupIn t.force n p k with
        | some ftv => (match ftv.toUpdate with | some u => u | none => t.db.get (n, p) k)
        | none => t.db.get (n, p) k := by
  unfold effCommit
  rw [← lookupIn_eq, lookup_revert t t' hn hf hs h, (revert_fields t t' h).1]
  cases lookupIn t.force n p k with
  | some tv => rfl
  | none =>
    simp only []
    by_cases hnew : isNewIn t.nodes n = true
    · simp only [hnew, if_true]
    · have hf' : isNewIn t.nodes n = false := by simpa using hnew
      rw [hf']
      cases lookupIn t.nodes n p k with
      | none => simp
      | some tv => simp [revertWrites_toUpdate]

/-! ### finalization writes -/

theorem set_toUpdate (tv : TV) (v : Nat) : (tv.set v).toUpdate = some (some v) := by
  cases tv with
  | new x => rfl
  | readOnly r => cases r <;> rfl
  | readExistAndWrite old w => cases w <;> rfl
  | readNonExistAndWrite x => rfl
  | writeOnly w => cases w <;> rfl
  | garbage => rfl

theorem effCommit_of_lookup (t : Track) (n p k : Nat) :
    effCommit t n p k = match lookupIn t.nodes n p k with
      | some tv => (match tv.toUpdate with | some u => u | none => t.db.get (n, p) k)
      | none => t.db.get (n, p) k := by
  unfold effCommit; rw [lookupIn_eq]; rfl

theorem effCommit_set (t : Track) (n p k v n' p' k' : Nat) :
    effCommit (setSubstate t n p k v) n' p' k'
      = if n' = n ∧ p' = p ∧ k' = k then some v else effCommit t n' p' k' := by
  rw [effCommit_of_lookup, effCommit_of_lookup]
  unfold setSubstate lookupTV
  cases hl : lookupIn t.nodes n p k with
  | none =>
    simp only [lookupIn_putIn]
    by_cases hh : n' = n ∧ p' = p ∧ k' = k
    · simp only [hh, and_self, if_true]; rfl
    · simp only [hh, if_false]
  | some tv =>
    simp only [lookupIn_putIn]
    by_cases hh : n' = n ∧ p' = p ∧ k' = k
    · simp only [hh, and_self, if_true, set_toUpdate]
    · simp only [hh, if_false]

theorem effCommit_getTracked (t : Track) (n p k n' p' k' : Nat) :
    effCommit (getTracked t n p k).1 n' p' k' = effCommit t n' p' k' := by
  rw [effCommit_of_lookup, effCommit_of_lookup]
  unfold getTracked lookupTV
  cases hl : lookupIn t.nodes n p k with
  | some tv => rfl
  | none =>
    simp only [lookupIn_putIn]
    by_cases hh : n' = n ∧ p' = p ∧ k' = k
    · obtain ⟨rfl, rfl, rfl⟩ := hh
      simp only [and_self, if_true, hl]; rfl
    · simp only [hh, if_false]

theorem shape_set (t : Track) (n p k v : Nat) (h : Shape t) : Shape (setSubstate t n p k v) := by
  unfold setSubstate
  cases lookupTV t n p k with
  | none => have := shape_putIn t.nodes n p k (.writeOnly (.update v)) ⟨h.nodup, h.sorted⟩; exact ⟨this.1, this.2⟩
  | some tv => have := shape_putIn t.nodes n p k (tv.set v) ⟨h.nodup, h.sorted⟩; exact ⟨this.1, this.2⟩

theorem shape_getTracked (t : Track) (n p k : Nat) (h : Shape t) : Shape (getTracked t n p k).1 := by
  unfold getTracked
  cases lookupTV t n p k with
  | some tv => exact h
  | none => have := shape_putIn t.nodes n p k (.readOnly (t.db.get (n, p) k)) ⟨h.nodup, h.sorted⟩; exact ⟨this.1, this.2⟩

theorem setSubstate_fields (t : Track) (n p k v : Nat) :
    (setSubstate t n p k v).db = t.db ∧ (setSubstate t n p k v).deleted = t.deleted := by
  unfold setSubstate; cases lookupTV t n p k <;> exact ⟨rfl, rfl⟩

theorem getTracked_fields (t : Track) (n p k : Nat) :
    (getTracked t n p k).1.db = t.db ∧ (getTracked t n p k).1.deleted = t.deleted := by
  unfold getTracked; cases lookupTV t n p k <;> exact ⟨rfl, rfl⟩

/-- one finalization write: shape kept, base database kept, `effCommit` changes only at the written
substate, the deleted-partition set grows only by the op's own partition -/
theorem finStep_spec (t t' : Track) (op : FinOp) (hsh : Shape t) (h : finStep t op = some t') :
    Shape t' ∧ t'.db = t.db
    ∧ (∀ n p k, op.written ≠ some (n, p, k) → effCommit t' n p k = effCommit t n p k)
    ∧ (∀ np, np ∈ t'.deleted → np ∈ t.deleted ∨ op.deleted = some np) := by
  cases op with
  | read n p k =>
    simp only [finStep, getSubstate] at h
    cases hv : (getTracked t n p k).2.get with
    | none => rw [hv] at h; simp at h
    | some bal =>
      rw [hv] at h; simp only [Option.some.injEq] at h; subst h
      refine ⟨shape_getTracked t n p k hsh, (getTracked_fields t n p k).1, ?_, ?_⟩
      · intro n' p' k' _; exact effCommit_getTracked t n p k n' p' k'
      · intro np hnp; left; rw [(getTracked_fields t n p k).2] at hnp; exact hnp
  | credit n p k a =>
    simp only [finStep, getSubstate] at h
    cases hv : (getTracked t n p k).2.get with
    | none => rw [hv] at h; simp at h
    | some bal =>
      rw [hv] at h; simp only [Option.some.injEq] at h; subst h
      refine ⟨shape_set _ n p k _ (shape_getTracked t n p k hsh), ?_, ?_, ?_⟩
      · rw [(setSubstate_fields _ n p k _).1, (getTracked_fields t n p k).1]
      · intro n' p' k' hw
        rw [effCommit_set]
        have : ¬ (n' = n ∧ p' = p ∧ k' = k) := by
          intro hh; obtain ⟨rfl, rfl, rfl⟩ := hh; exact hw rfl
        simp only [this, if_false]
        exact effCommit_getTracked t n p k n' p' k'
      · intro np hnp; left
        rw [(setSubstate_fields _ n p k _).2, (getTracked_fields t n p k).2] at hnp; exact hnp
  | put n p k v =>
    simp only [finStep, Option.some.injEq] at h; subst h
    refine ⟨shape_set t n p k v hsh, (setSubstate_fields t n p k v).1, ?_, ?_⟩
    · intro n' p' k' hw
      rw [effCommit_set]
      have : ¬ (n' = n ∧ p' = p ∧ k' = k) := by
        intro hh; obtain ⟨rfl, rfl, rfl⟩ := hh; exact hw rfl
      simp only [this, if_false]
    · intro np hnp; left; rw [(setSubstate_fields t n p k v).2] at hnp; exact hnp
  | delPart n p =>
    simp only [finStep, Option.some.injEq] at h; subst h
    refine ⟨⟨hsh.nodup, hsh.sorted⟩, rfl, fun _ _ _ _ => rfl, ?_⟩
    intro np hnp
    simp only [deletePartition, ISet.insert] at hnp
    split at hnp
    · left; exact hnp
    · rcases List.mem_append.mp hnp with hm | hm
      · left; exact hm
      · right; simp only [List.mem_singleton] at hm; rw [hm]; rfl

theorem finRun_spec (ops : List FinOp) (t t' : Track) (hsh : Shape t) (h : finRun t ops = some t') :
    Shape t' ∧ t'.db = t.db
    ∧ (∀ n p k, (∀ op ∈ ops, op.written ≠ some (n, p, k)) → effCommit t' n p k = effCommit t n p k)
    ∧ (∀ np, np ∈ t'.deleted → np ∈ t.deleted ∨ ∃ op ∈ ops, op.deleted = some np) := by
  induction ops generalizing t with
  | nil =>
    simp only [finRun, Option.some.injEq] at h; subst h
    exact ⟨hsh, rfl, fun _ _ _ _ => rfl, fun np hnp => Or.inl hnp⟩
  | cons op rest ih =>
    simp only [finRun] at h
    cases hs : finStep t op with
    | none => rw [hs] at h; simp at h
    | some t1 =>
      rw [hs] at h
      obtain ⟨s1, d1, e1, del1⟩ := finStep_spec t t1 op hsh hs
      obtain ⟨s2, d2, e2, del2⟩ := ih t1 s1 h
      refine ⟨s2, d2.trans d1, ?_, ?_⟩
      · intro n p k hw
        rw [e2 n p k (fun o ho => hw o (List.mem_cons_of_mem _ ho)), e1 n p k (hw op (List.mem_cons_self ..))]
      · intro np hnp
        rcases del2 np hnp with hm | ⟨o, ho, hod⟩
        · rcases del1 np hm with hm' | hm'
          · exact Or.inl hm'
          · exact Or.inr ⟨op, List.mem_cons_self .., hm'⟩
        · exact Or.inr ⟨o, List.mem_cons_of_mem _ ho, hod⟩

/-- the value the last finalization write to a substate left there -/
theorem finRun_written (ops : List FinOp) (t t' : Track) (hsh : Shape t) (h : finRun t ops = some t')
    (n p k : Nat) (hw : ∃ op ∈ ops, op.written = some (n, p, k)) :
    ∃ v, effCommit t' n p k = some v := by
  induction ops generalizing t with
  | nil => obtain ⟨op, ho, _⟩ := hw; simp at ho
  | cons op rest ih =>
    simp only [finRun] at h
    cases hs : finStep t op with
    | none => rw [hs] at h; simp at h
    | some t1 =>
      rw [hs] at h
      obtain ⟨s1, _, _, _⟩ := finStep_spec t t1 op hsh hs
      by_cases hr : ∃ o ∈ rest, o.written = some (n, p, k)
      · exact ih t1 s1 h hr
      · obtain ⟨_, _, e2, _⟩ := finRun_spec rest t1 t' s1 h
        have hnr : ∀ o ∈ rest, o.written ≠ some (n, p, k) := fun o ho e => hr ⟨o, ho, e⟩
        rw [e2 n p k hnr]
        obtain ⟨o, ho, hwo⟩ := hw
        rcases List.mem_cons.mp ho with rfl | ho'
        · cases o with
          | read a b c => simp [FinOp.written] at hwo
          | delPart a b => simp [FinOp.written] at hwo
          | credit a b c d =>
            simp only [FinOp.written, Option.some.injEq, Prod.mk.injEq] at hwo
            obtain ⟨rfl, rfl, rfl⟩ := hwo
            simp only [finStep, getSubstate] at hs
            cases hv : (getTracked t a b c).2.get with
            | none => rw [hv] at hs; simp at hs
            | some bal =>
              rw [hv] at hs; simp only [Option.some.injEq] at hs; subst hs
              exact ⟨bal + d, by rw [effCommit_set]; simp⟩
          | put a b c d =>
            simp only [FinOp.written, Option.some.injEq, Prod.mk.injEq] at hwo
            obtain ⟨rfl, rfl, rfl⟩ := hwo
            simp only [finStep, Option.some.injEq] at hs; subst hs
            exact ⟨d, by rw [effCommit_set]; simp⟩
        · exact absurd hwo (hnr o ho')

/-! ### the final state updates in the presence of deleted partitions -/

theorem sunodup_suOfDeleted (dl : List (Nat × Nat)) (su : DbUpdates) (h : SUNodup su) :
    SUNodup (suOfDeleted su dl) := by
  induction dl generalizing su with
  | nil => exact h
  | cons hd rest ih => obtain ⟨n, p⟩ := hd; exact ih _ (sunodup_suAlter su n p _ h)

theorem lookupSU_suOfDeleted (dl : List (Nat × Nat)) (su : DbUpdates) (n p : Nat) (h : (n, p) ∉ dl) :
    lookupSU (suOfDeleted su dl) n p = lookupSU su n p := by
  induction dl generalizing su with
  | nil => rfl
  | cons hd rest ih =>
    obtain ⟨n0, p0⟩ := hd
    simp only [suOfDeleted]
    rw [ih _ (fun hm => h (List.mem_cons_of_mem _ hm)), lookupSU_suAlter]
    have : ¬ (n = n0 ∧ p = p0) := fun hh => h (by rw [hh.1, hh.2]; exact List.mem_cons_self ..)
    simp only [this, if_false]

/-- `state_updates_meaning` (C12) for a partition that is not deleted, whatever else is deleted -/
theorem state_updates_meaning_del (t : Track) (hsh : Shape t) (n p k : Nat) (hnd : (n, p) ∉ t.deleted) :
    (t.db.commit (toStateUpdates t).2).get (n, p) k = effCommit t n p k := by
  unfold toStateUpdates Db.get
  simp only []
  have h0 : SUNodup (suOfDeleted [] t.deleted) := sunodup_suOfDeleted _ _ ⟨by simp [IMap.Nodup], by simp⟩
  have hsn : SUNodup (suOfNodes (suOfDeleted [] t.deleted) t.nodes) := sunodup_suOfNodes _ t.nodes h0
  rw [get?_commit_su _ _ hsn, lookupSU_suOfNodes _ t.nodes hsh.nodup, lookupSU_suOfDeleted _ _ _ _ hnd]
  have hl : lookupSU [] n p = none := rfl
  rw [hl]
  have := applyPUpdF_partPUpd (partOf t.nodes n p) (hsh.sorted n p) (SMap.get? (t.db (n, p))) k
  unfold partOf at this
  unfold effCommit partOf Db.get
  cases hg : IMap.get? t.nodes n with
  | none => rw [hg] at this; simpa [partPUpd_none_nil] using this
  | some nd =>
    rw [hg] at this
    simp only [] at this ⊢
    cases hp : IMap.get? nd.parts p with
    | none => rw [hp] at this; simpa [partPUpd_none_nil] using this
    | some part => rw [hp] at this; simpa using this

/-- the new-node list of the final receipt is empty when no tracked node is marked new -/
theorem newNodes_nil (t : Track) (h : ∀ n, isNewIn t.nodes n = false) (hn : IMap.Nodup t.nodes) :
    (toStateUpdates t).1 = [] := by
  unfold toStateUpdates
  simp only [List.map_eq_nil_iff, List.filter_eq_nil_iff]
  intro x hx
  have := h x.1
  unfold isNewIn at this
  rw [IMap.get?_of_mem t.nodes hn x.1 x.2 hx] at this
  simp [this]

end Radix.FailureCommit
