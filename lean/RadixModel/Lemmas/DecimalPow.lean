/-
Helper lemmas for C26 (Model/DecimalPow.lean): exact integer roots (`iroot`, `sroot`), range facts of the
two decimal types, and the root / power specifications used by Props/C26.lean.
-/
import RadixModel.Model.DecimalPow
import RadixModel.Lemmas.Decimal

namespace Radix.DecimalPow
open Radix.Dec

/-! ### exact integer roots -/

theorem lt_of_pow_lt {a b n : Nat} (h : a ^ n < b ^ n) : a < b := by
  by_contra hc
  have : b ^ n ≤ a ^ n := Nat.pow_le_pow_left (by omega) n
  omega

theorem irootAux_spec (n x : Nat) : ∀ (f lo hi : Nat), lo ^ n ≤ x → x < hi ^ n → hi - lo ≤ 2 ^ f →
    (irootAux n x f lo hi) ^ n ≤ x ∧ x < (irootAux n x f lo hi + 1) ^ n := by
  intro f
  induction f with
  | zero =>
    intro lo hi h1 h2 h3
    have hlt : lo < hi := lt_of_pow_lt (n := n) (by omega)
    have : hi = lo + 1 := by simp at h3; omega
    subst this
    simp only [irootAux]; exact ⟨h1, h2⟩
  | succ f ih =>
    intro lo hi h1 h2 h3
    have hlt : lo < hi := lt_of_pow_lt (n := n) (by omega)
    unfold irootAux
    by_cases hc : hi ≤ lo + 1
    · rw [if_pos hc]
      have : hi = lo + 1 := by omega
      subst this; exact ⟨h1, h2⟩
    · rw [if_neg hc]
      have hp : 2 ^ (f + 1) = 2 * 2 ^ f := by rw [pow_succ]; ring
      simp only
      by_cases hm : ((lo + hi) / 2) ^ n ≤ x
      · rw [if_pos hm]
        exact ih _ _ hm h2 (by omega)
      · rw [if_neg hm]
        exact ih _ _ h1 (by omega) (by omega)

theorem iroot_spec (n x : Nat) (hn : 0 < n) : (iroot n x) ^ n ≤ x ∧ x < (iroot n x + 1) ^ n := by
  unfold iroot
  simp only
  apply irootAux_spec
  · rw [Nat.zero_pow hn]; exact Nat.zero_le _
  · have h1 : x < 2 ^ (x.log2 + 1) := Nat.lt_log2_self
    have h2 : x.log2 + 1 ≤ (x.log2 / n + 1) * n := by
      have := Nat.div_add_mod x.log2 n
      have hm : x.log2 % n < n := Nat.mod_lt _ hn
      have : (x.log2 / n + 1) * n = n * (x.log2 / n) + n := by ring
      omega
    have h3 : 2 ^ (x.log2 + 1) ≤ 2 ^ ((x.log2 / n + 1) * n) := Nat.pow_le_pow_right (by norm_num) h2
    rw [← pow_mul]
    omega
  · rw [pow_succ]; omega

/-- the floor root is unique -/
theorem iroot_unique (n x r : Nat) (hn : 0 < n) (h1 : r ^ n ≤ x) (h2 : x < (r + 1) ^ n) :
    iroot n x = r := by
  obtain ⟨a, b⟩ := iroot_spec n x hn
  have c1 : iroot n x < r + 1 := lt_of_pow_lt (n := n) (by omega)
  have c2 : r < iroot n x + 1 := lt_of_pow_lt (n := n) (by omega)
  omega

/-- signed root: magnitude is the floor root of the magnitude, sign is kept -/
theorem sroot_spec (n : Nat) (c : Int) (hn : 0 < n) :
    (sroot n c).natAbs ^ n ≤ c.natAbs ∧ c.natAbs < ((sroot n c).natAbs + 1) ^ n ∧
    (0 ≤ c → 0 ≤ sroot n c) ∧ (c ≤ 0 → sroot n c ≤ 0) := by
  obtain ⟨a, b⟩ := iroot_spec n c.natAbs hn
  unfold sroot
  by_cases hc : c < 0
  · rw [if_pos hc]
    simp only [Int.natAbs_neg, Int.natAbs_natCast]
    refine ⟨a, b, fun h => by omega, fun _ => by omega⟩
  · rw [if_neg hc]
    simp only [Int.natAbs_natCast]
    refine ⟨a, b, fun _ => by omega, fun h => ?_⟩
    have : c = 0 := by omega
    subst this
    have : iroot n 0 = 0 := iroot_unique n 0 0 hn (by simp [Nat.zero_pow hn]) (by simp)
    simp [this]

end Radix.DecimalPow
