/-
Helper lemmas for C26 (Model/DecimalPow.lean): exact integer roots (`iroot`, `sroot`), range facts of the
two decimal types, and the root / power specifications used by Props/C26.lean.
-/
import RadixModel.Model.DecimalPow
import RadixModel.Lemmas.Decimal

namespace Radix.DecimalPow
open Radix.Dec

/-! ### exact integer roots -/

theorem lt_of_pow_lt {a b n : Nat} (h : a ^ n < b ^ n) : a < b := by
  by_contra hc
  have : b ^ n ≤ a ^ n := Nat.pow_le_pow_left (by omega) n
  omega

theorem irootAux_spec (n x : Nat) : ∀ (f lo hi : Nat), lo ^ n ≤ x → x < hi ^ n → hi - lo ≤ 2 ^ f →
    (irootAux n x f lo hi) ^ n ≤ x ∧ x < (irootAux n x f lo hi + 1) ^ n := by
  intro f
  induction f with
  | zero =>
    intro lo hi h1 h2 h3
    have hlt : lo < hi := lt_of_pow_lt (n := n) (by omega)
    have : hi = lo + 1 := by simp at h3; omega
    subst this
    simp only [irootAux]; exact ⟨h1, h2⟩
  | succ f ih =>
    intro lo hi h1 h2 h3
    have hlt : lo < hi := lt_of_pow_lt (n := n) (by omega)
    unfold irootAux
    by_cases hc : hi ≤ lo + 1
    · rw [if_pos hc]
      have : hi = lo + 1 := by omega
      subst this; exact ⟨h1, h2⟩
    · rw [if_neg hc]
      have hp : 2 ^ (f + 1) = 2 * 2 ^ f := by rw [pow_succ]; ring
      simp only
      by_cases hm : ((lo + hi) / 2) ^ n ≤ x
      · rw [if_pos hm]
        exact ih _ _ hm h2 (by omega)
      · rw [if_neg hm]
        exact ih _ _ h1 (by omega) (by omega)

theorem iroot_spec (n x : Nat) (hn : 0 < n) : (iroot n x) ^ n ≤ x ∧ x < (iroot n x + 1) ^ n := by
  unfold iroot
  simp only
  apply irootAux_spec
  · rw [Nat.zero_pow hn]; exact Nat.zero_le _
  · have h1 : x < 2 ^ (x.log2 + 1) := Nat.lt_log2_self
    have h2 : x.log2 + 1 ≤ (x.log2 / n + 1) * n := by
      have := Nat.div_add_mod x.log2 n
      have hm : x.log2 % n < n := Nat.mod_lt _ hn
      have : (x.log2 / n + 1) * n = n * (x.log2 / n) + n := by ring
      omega
    have h3 : 2 ^ (x.log2 + 1) ≤ 2 ^ ((x.log2 / n + 1) * n) := Nat.pow_le_pow_right (by norm_num) h2
    rw [← pow_mul]
    omega
  · rw [pow_succ]; omega

/-- the floor root is unique -/
theorem iroot_unique (n x r : Nat) (hn : 0 < n) (h1 : r ^ n ≤ x) (h2 : x < (r + 1) ^ n) :
    iroot n x = r := by
  obtain ⟨a, b⟩ := iroot_spec n x hn
  have c1 : iroot n x < r + 1 := lt_of_pow_lt (n := n) (by omega)
  have c2 : r < iroot n x + 1 := lt_of_pow_lt (n := n) (by omega)
  omega

/-- signed root: magnitude is the floor root of the magnitude, sign is kept -/
theorem sroot_spec (n : Nat) (c : Int) (hn : 0 < n) :
    (sroot n c).natAbs ^ n ≤ c.natAbs ∧ c.natAbs < ((sroot n c).natAbs + 1) ^ n ∧
    (0 ≤ c → 0 ≤ sroot n c) ∧ (c ≤ 0 → sroot n c ≤ 0) := by
  obtain ⟨a, b⟩ := iroot_spec n c.natAbs hn
  unfold sroot
  by_cases hc : c < 0
  · rw [if_pos hc]
    simp only [Int.natAbs_neg, Int.natAbs_natCast]
    refine ⟨a, b, fun h => by omega, fun _ => by omega⟩
  · rw [if_neg hc]
    simp only [Int.natAbs_natCast]
    refine ⟨a, b, fun _ => by omega, fun h => ?_⟩
    have : c = 0 := by omega
    subst this
    have : iroot n 0 = 0 := iroot_unique n 0 0 hn (by simp [Nat.zero_pow hn]) (by simp)
    simp [this]


/-! ### range facts of the two types -/

set_option exponentiation.threshold 600 in
theorem ty_facts (t : Ty) :
    0 < t.bits ∧ t.bits ≤ t.wide ∧ 0 < t.one ∧ t.one < half t.bits ∧
    half t.bits * t.one ≤ half t.wide := by
  cases t <;>
    norm_num [Ty.bits, Ty.wide, Ty.one, Ty.scale, half]

theorem inRange_abs {t : Ty} {x : Int} (h : t.InRange x) : |x| ≤ half t.bits := by
  unfold Ty.InRange InBits minOf maxOf at h
  rw [abs_le]; constructor <;> omega

theorem inRange_of_abs_lt {t : Ty} {x : Int} (h : |x| < half t.bits) :
    t.InRange x ∧ minOf t.bits < x ∧ x ≤ maxOf t.bits := by
  unfold Ty.InRange InBits minOf maxOf
  rw [abs_lt] at h
  refine ⟨⟨by omega, by omega⟩, by omega, by omega⟩

/-- magnitude bound of an `n`-th root (`n ≥ 2`) of `x · one^(n-1)` for `x` in range: it is in range -/
theorem root_in_range (t : Ty) (x r : Int) (n : Nat) (hn : 2 ≤ n) (hx : t.InRange x)
    (hr : |r| ^ n ≤ |x| * t.one ^ (n - 1)) : |r| < half t.bits := by
  obtain ⟨_, _, h1, h2, _⟩ := ty_facts t
  have hxa := inRange_abs hx
  by_contra hc
  have hge : half t.bits ≤ |r| := by omega
  have hh : 0 < half t.bits := half_pos _
  have a : half t.bits ^ n ≤ |r| ^ n := pow_le_pow_left₀ (le_of_lt hh) hge n
  have b : t.one ^ (n - 1) < half t.bits ^ (n - 1) :=
    pow_lt_pow_left₀ h2 (le_of_lt h1) (by omega)
  have c : |x| * t.one ^ (n - 1) < half t.bits * half t.bits ^ (n - 1) := by
    have p1 : 0 < t.one ^ (n - 1) := by positivity
    calc |x| * t.one ^ (n - 1) ≤ half t.bits * t.one ^ (n - 1) :=
          mul_le_mul_of_nonneg_right hxa (le_of_lt p1)
      _ < half t.bits * half t.bits ^ (n - 1) := mul_lt_mul_of_pos_left b hh
  have d : half t.bits * half t.bits ^ (n - 1) = half t.bits ^ n := by
    rw [← pow_succ']; congr 1; omega
  rw [d] at c
  omega

/-- the facts about `sroot n c` in `Int` / absolute-value form -/
theorem sroot_abs (n : Nat) (c : Int) (hn : 0 < n) :
    |sroot n c| ^ n ≤ |c| ∧ |c| < (|sroot n c| + 1) ^ n ∧
    (0 ≤ c → 0 ≤ sroot n c) ∧ (c ≤ 0 → sroot n c ≤ 0) := by
  obtain ⟨a, b, c1, c2⟩ := sroot_spec n c hn
  refine ⟨?_, ?_, c1, c2⟩
  · rw [← Int.natCast_natAbs, ← Int.natCast_natAbs]; exact_mod_cast a
  · rw [← Int.natCast_natAbs, ← Int.natCast_natAbs]; exact_mod_cast b

/-! ### nth root -/

theorem nthRoot_spec (t : Ty) (x : Int) (n : Nat) (hx : t.InRange x) :
    ((x < 0 ∧ n % 2 = 0) ∨ n = 0 → checkedNthRoot t x n = .none) ∧
    (¬ ((x < 0 ∧ n % 2 = 0) ∨ n = 0) → ∃ r : Int, checkedNthRoot t x n = .val r ∧ t.InRange r ∧
      |r| ^ n ≤ |x| * t.one ^ (n - 1) ∧ |x| * t.one ^ (n - 1) < (|r| + 1) ^ n ∧
      (0 ≤ x → 0 ≤ r) ∧ (x ≤ 0 → r ≤ 0)) := by
  obtain ⟨_, _, h1, h2, _⟩ := ty_facts t
  constructor
  · intro h; unfold checkedNthRoot; rw [if_pos h]
  · intro h
    unfold checkedNthRoot
    rw [if_neg h]
    simp only [not_or] at h
    by_cases hn1 : n = 1
    · subst hn1
      refine ⟨x, by simp, hx, by simp, by simp, fun h => h, fun h => h⟩
    · rw [if_neg hn1]
      have hn2 : 2 ≤ n := by omega
      by_cases hx0 : x = 0
      · subst hx0
        rw [if_pos rfl]
        refine ⟨0, rfl, hx, ?_, ?_, fun h => h, fun h => h⟩
        · simp [zero_pow (by omega : n ≠ 0)]
        · simp
      · rw [if_neg hx0]
        have hp : 0 < t.one ^ (n - 1) := by positivity
        obtain ⟨s1, s2, s3, s4⟩ := sroot_abs n (x * t.one ^ (n - 1)) (by omega)
        rw [abs_mul, abs_of_pos hp] at s1 s2
        have hrng := root_in_range t x _ n hn2 hx s1
        obtain ⟨r1, r2, r3⟩ := inRange_of_abs_lt hrng
        rw [chk_of_inBits r1]
        refine ⟨_, rfl, r1, s1, s2, ?_, ?_⟩
        · intro hx; exact s3 (mul_nonneg hx (le_of_lt hp))
        · intro hx; exact s4 (mul_nonpos_of_nonpos_of_nonneg hx (le_of_lt hp))



/-! ### square root -/

theorem sqrt_spec (t : Ty) (x : Int) (hx : t.InRange x) :
    (x < 0 → checkedSqrt t x = .none) ∧
    (0 ≤ x → ∃ r : Int, checkedSqrt t x = .val r ∧ t.InRange r ∧ 0 ≤ r ∧
      r ^ 2 ≤ x * t.one ∧ x * t.one < (r + 1) ^ 2) := by
  obtain ⟨hb0, hbw, h1, h2, h3⟩ := ty_facts t
  constructor
  · intro h; unfold checkedSqrt; rw [if_pos h]
  · intro h0
    unfold checkedSqrt
    rw [if_neg (by omega)]
    by_cases hx0 : x = 0
    · subst hx0
      rw [if_pos rfl]
      exact ⟨0, rfl, hx, le_refl _, by simp, by simp⟩
    · rw [if_neg hx0]
      have hxpos : 0 < x := by omega
      have hcpos : 0 < x * t.one := mul_pos hxpos h1
      have hxmax : x ≤ half t.bits - 1 := hx.2
      have hc : InBits t.wide (x * t.one) := by
        unfold InBits minOf maxOf
        have hw := half_pos t.wide
        constructor
        · omega
        · have : x * t.one ≤ (half t.bits - 1) * t.one := mul_le_mul_of_nonneg_right hxmax (le_of_lt h1)
          have : (half t.bits - 1) * t.one = half t.bits * t.one - t.one := by ring
          omega
      rw [chk_of_inBits hc]
      simp only
      rw [if_neg (by omega)]
      obtain ⟨s1, s2, s3, _⟩ := sroot_abs 2 (x * t.one) (by norm_num)
      have s0 := s3 (le_of_lt hcpos)
      rw [abs_of_nonneg s0, abs_of_pos hcpos] at s1 s2
      have hr1 : |sroot 2 (x * t.one)| ^ 2 ≤ |x| * t.one ^ (2 - 1) := by
        rw [abs_of_nonneg s0, abs_of_pos hxpos]; simpa using s1
      have hrng := root_in_range t x _ 2 (le_refl _) hx hr1
      obtain ⟨r1, r2, r3⟩ := inRange_of_abs_lt hrng
      have hwide : InBits t.wide (sroot 2 (x * t.one)) := by
        have := half_mono hbw
        unfold InBits minOf maxOf
        rw [abs_lt] at hrng
        constructor <;> omega
      rw [narrow_signed_spec t.wide t.bits hb0 hbw _ hwide, if_pos ⟨r2, r3⟩]
      exact ⟨_, rfl, r1, s0, s1, s2⟩

/-! ### cube root -/

set_option exponentiation.threshold 600 in
theorem dec_cbrt_facts : InBits 320 ((Ty.one .dec) ^ 2) ∧
    half 192 * (Ty.one .dec) ^ 2 ≤ half 320 - 1 ∧ (192 : Nat) ≤ 320 := by
  norm_num [Ty.one, Ty.scale, half, InBits, minOf, maxOf]

theorem cbrt_spec (t : Ty) (x : Int) (hx : t.InRange x) :
    ∃ r : Int, checkedCbrt t x = .val r ∧ t.InRange r ∧
      |r| ^ 3 ≤ |x| * t.one ^ 2 ∧ |x| * t.one ^ 2 < (|r| + 1) ^ 3 ∧
      (0 ≤ x → 0 ≤ r) ∧ (x ≤ 0 → r ≤ 0) := by
  obtain ⟨hb0, hbw, h1, h2, h3⟩ := ty_facts t
  unfold checkedCbrt
  by_cases hx0 : x = 0
  · subst hx0
    rw [if_pos rfl]
    exact ⟨0, rfl, hx, by simp, by simp, fun h => h, fun h => h⟩
  · rw [if_neg hx0]
    have hp : 0 < t.one ^ 2 := by positivity
    obtain ⟨s1, s2, s3, s4⟩ := sroot_abs 3 (x * t.one ^ 2) (by norm_num)
    rw [abs_mul, abs_of_pos hp] at s1 s2
    have hr1 : |sroot 3 (x * t.one ^ 2)| ^ 3 ≤ |x| * t.one ^ (3 - 1) := by simpa using s1
    have hrng := root_in_range t x _ 3 (by norm_num) hx hr1
    obtain ⟨r1, r2, r3⟩ := inRange_of_abs_lt hrng
    have hsign1 : 0 ≤ x → 0 ≤ sroot 3 (x * t.one ^ 2) := fun hx => s3 (mul_nonneg hx (le_of_lt hp))
    have hsign2 : x ≤ 0 → sroot 3 (x * t.one ^ 2) ≤ 0 :=
      fun hx => s4 (mul_nonpos_of_nonpos_of_nonneg hx (le_of_lt hp))
    cases t with
    | dec =>
      obtain ⟨f1, f2, f3⟩ := dec_cbrt_facts
      simp only [cbrtWide]
      rw [chk_of_inBits f1]
      simp only
      have hxa := inRange_abs hx
      have e192 : half Ty.dec.bits = half 192 := rfl
      rw [e192] at hxa hrng
      have hc : InBits 320 (x * Ty.one .dec ^ 2) := by
        have hh : |x * Ty.one .dec ^ 2| ≤ half 192 * Ty.one .dec ^ 2 := by
          rw [abs_mul, abs_of_pos hp]
          exact mul_le_mul_of_nonneg_right hxa (le_of_lt hp)
        rw [abs_le] at hh
        unfold InBits minOf maxOf
        constructor <;> omega
      rw [chk_of_inBits hc]
      simp only
      have hwide : InBits 320 (sroot 3 (x * Ty.one .dec ^ 2)) := by
        have : half 192 ≤ half 320 := half_mono f3
        unfold InBits minOf maxOf
        rw [abs_lt] at hrng
        constructor <;> omega
      rw [narrow_signed_spec 320 Ty.dec.bits hb0 f3 _ hwide, if_pos ⟨r2, r3⟩]
      exact ⟨_, rfl, r1, s1, s2, hsign1, hsign2⟩
    | pdec =>
      simp only [cbrtWide]
      rw [chk_of_inBits r1]
      exact ⟨_, rfl, r1, s1, s2, hsign1, hsign2⟩



/-! ### powers -/

/-- truncating division by a positive number: magnitude and sign -/
theorem tdiv_mag (a D : Int) (hD : 0 < D) :
    |Int.tdiv a D| * D ≤ |a| ∧ 0 ≤ Int.tdiv a D * a ∧ (0 ≤ a → 0 ≤ Int.tdiv a D) := by
  obtain ⟨p, n⟩ := tdiv_bounds a D hD
  by_cases ha : 0 ≤ a
  · obtain ⟨p1, p2, p3⟩ := p ha
    rw [abs_of_nonneg p3, abs_of_nonneg ha]
    exact ⟨p1, mul_nonneg p3 ha, fun _ => p3⟩
  · obtain ⟨n1, n2, n3⟩ := n (by omega)
    rw [abs_of_nonpos n3, abs_of_nonpos (by omega : a ≤ 0)]
    refine ⟨by linarith, ?_, fun h => absurd h ha⟩
    exact mul_nonneg_of_nonpos_of_nonpos n3 (by omega)

theorem square_spec (t : Ty) (x x2 : Int) (h : square t x = some x2) :
    x2 = Int.tdiv (x * x) t.one ∧ t.InRange x2 := by
  obtain ⟨hb0, hbw, h1, _, _⟩ := ty_facts t
  unfold square at h
  cases hc : chk t.wide (x * x) with
  | none => rw [hc] at h; cases h
  | some sq =>
    rw [hc] at h
    simp only at h
    obtain ⟨hin, rfl⟩ := chk_eq_some.mp hc
    have hq : InBits t.wide (Int.tdiv (x * x) t.one) := by
      obtain ⟨a, b⟩ := abs_tdiv_le (x * x) t.one
      unfold InBits minOf maxOf at hin ⊢
      have := abs_le.mpr ⟨by linarith [neg_abs_le (x * x)], le_abs_self (x * x)⟩
      have h1 : |x * x| ≤ half t.wide := by
        rw [abs_le]; constructor <;> omega
      have h2 : 0 ≤ x * x := mul_self_nonneg x
      rw [abs_of_nonneg h2] at a b
      constructor <;> omega
    rw [narrow_signed_spec t.wide t.bits hb0 hbw _ hq] at h
    split at h
    · rename_i hr
      cases h
      exact ⟨rfl, ⟨le_of_lt hr.1, hr.2⟩⟩
    · cases h

theorem checkedMul_spec (t : Ty) (a b r : Int) (ha : t.InRange a) (hb : t.InRange b)
    (h : checkedMul t a b = some r) : r = Int.tdiv (a * b) t.one ∧ t.InRange r := by
  rw [checkedMul_eq t ha hb] at h
  split at h
  · rename_i hr
    cases h
    exact ⟨rfl, ⟨le_of_lt hr.1, hr.2⟩⟩
  · cases h

/-- the result of `powiNat` never exceeds the exact power in magnitude and has its sign:
`|r| · one^(e-1) ≤ |x|^e` and `0 ≤ r · x^e` (for `e ≥ 1`), and is in range -/
theorem powiNat_spec (t : Ty) : ∀ (e : Nat) (x r : Int), t.InRange x → powiNat t x e = some r →
    t.InRange r ∧ (e = 0 → r = t.one) ∧
    (1 ≤ e → |r| * t.one ^ (e - 1) ≤ |x| ^ e ∧ 0 ≤ r * x ^ e ∧ (0 ≤ x → 0 ≤ r)) := by
  obtain ⟨hb0, hbw, h1, h2, _⟩ := ty_facts t
  intro e
  induction e using Nat.strong_induction_on with
  | _ e ih =>
    intro x r hx h
    unfold powiNat at h
    by_cases he0 : e = 0
    · rw [if_pos he0] at h
      cases h
      refine ⟨?_, fun _ => rfl, fun h => by omega⟩
      unfold Ty.InRange InBits minOf maxOf
      have := half_pos t.bits
      constructor <;> omega
    · rw [if_neg he0] at h
      by_cases he1 : e = 1
      · rw [if_pos he1] at h
        cases h
        subst he1
        refine ⟨hx, fun h => by omega, fun _ => ?_⟩
        simp only [Nat.sub_self, pow_zero, mul_one, pow_one, le_refl, true_and]
        exact ⟨mul_self_nonneg x, fun h => h⟩
      · rw [if_neg he1] at h
        cases hsq : square t x with
        | none => rw [hsq] at h; cases h
        | some x2 =>
          rw [hsq] at h
          simp only at h
          obtain ⟨hx2, hx2r⟩ := square_spec t x x2 hsq
          obtain ⟨m1, _, m3⟩ := tdiv_mag (x * x) t.one h1
          rw [← hx2] at m1 m3
          have hx2nn : 0 ≤ x2 := m3 (mul_self_nonneg x)
          rw [abs_of_nonneg hx2nn, abs_mul_self] at m1
          -- m1 : x2 * one ≤ x * x
          have hxx : x * x = |x| ^ 2 := by rw [sq_abs]; ring
          by_cases hev : e % 2 = 0
          · rw [if_pos hev] at h
            obtain ⟨k, hk⟩ : ∃ k, e = 2 * k := ⟨e / 2, by omega⟩
            have hk1 : 1 ≤ k := by omega
            have hdiv : e / 2 = k := by omega
            rw [hdiv] at h
            obtain ⟨i1, _, i3⟩ := ih k (by omega) x2 r hx2r h
            obtain ⟨j1, j2, j3⟩ := i3 hk1
            have hrnn : 0 ≤ r := j3 hx2nn
            refine ⟨i1, fun h => by omega, fun _ => ?_⟩
            rw [abs_of_nonneg hx2nn] at j1
            refine ⟨?_, ?_, fun _ => hrnn⟩
            · -- |r| one^(2k-1) = |r| one^(k-1) * one^k ≤ x2^k one^k = (x2 one)^k ≤ (x^2)^k
              have e1 : t.one ^ (e - 1) = t.one ^ (k - 1) * t.one ^ k := by
                rw [← pow_add]; congr 1; omega
              have e2 : |x| ^ e = (|x| ^ 2) ^ k := by rw [← pow_mul, hk]
              rw [e1, e2, ← hxx]
              have p1 : 0 ≤ t.one ^ k := by positivity
              calc |r| * (t.one ^ (k - 1) * t.one ^ k) = (|r| * t.one ^ (k - 1)) * t.one ^ k := by ring
                _ ≤ x2 ^ k * t.one ^ k := mul_le_mul_of_nonneg_right j1 p1
                _ = (x2 * t.one) ^ k := by rw [mul_pow]
                _ ≤ (x * x) ^ k := pow_le_pow_left₀ (by positivity) m1 k
            · have : x ^ e = (x ^ k) ^ 2 := by rw [← pow_mul, hk, mul_comm]
              rw [this]; positivity
          · rw [if_neg hev] at h
            obtain ⟨k, hk⟩ : ∃ k, e = 2 * k + 1 := ⟨e / 2, by omega⟩
            have hk1 : 1 ≤ k := by omega
            have hdiv : (e - 1) / 2 = k := by omega
            rw [hdiv] at h
            cases hb : powiNat t x2 k with
            | none => rw [hb] at h; cases h
            | some b =>
              rw [hb] at h
              simp only at h
              obtain ⟨i1, _, i3⟩ := ih k (by omega) x2 b hx2r hb
              obtain ⟨j1, j2, j3⟩ := i3 hk1
              have hbnn : 0 ≤ b := j3 hx2nn
              rw [abs_of_nonneg hx2nn, abs_of_nonneg hbnn] at j1
              obtain ⟨hr, hrr⟩ := checkedMul_spec t x b r hx i1 h
              obtain ⟨n1, n2, n3⟩ := tdiv_mag (x * b) t.one h1
              rw [← hr] at n1 n2 n3
              refine ⟨hrr, fun h => by omega, fun _ => ?_⟩
              refine ⟨?_, ?_, fun hx0 => n3 (mul_nonneg hx0 hbnn)⟩
              · have e1 : t.one ^ (e - 1) = t.one * (t.one ^ (k - 1) * t.one ^ k) := by
                  rw [← pow_add, ← pow_succ']; congr 1; omega
                have e2 : |x| ^ e = |x| * (|x| ^ 2) ^ k := by
                  rw [← pow_mul, hk, pow_succ']
                rw [e1, e2, ← hxx]
                have p1 : 0 ≤ t.one ^ k := by positivity
                have p2 : 0 ≤ t.one ^ (k - 1) * t.one ^ k := by positivity
                have q1 : b * t.one ^ (k - 1) * t.one ^ k ≤ (x * x) ^ k := by
                  calc b * t.one ^ (k - 1) * t.one ^ k ≤ x2 ^ k * t.one ^ k :=
                        mul_le_mul_of_nonneg_right j1 p1
                    _ = (x2 * t.one) ^ k := by rw [mul_pow]
                    _ ≤ (x * x) ^ k := pow_le_pow_left₀ (by positivity) m1 k
                have n1' : |r| * t.one ≤ |x| * b := by
                  rw [abs_mul, abs_of_nonneg hbnn] at n1; exact n1
                calc |r| * (t.one * (t.one ^ (k - 1) * t.one ^ k))
                    = (|r| * t.one) * (t.one ^ (k - 1) * t.one ^ k) := by ring
                  _ ≤ (|x| * b) * (t.one ^ (k - 1) * t.one ^ k) := mul_le_mul_of_nonneg_right n1' p2
                  _ = |x| * (b * t.one ^ (k - 1) * t.one ^ k) := by ring
                  _ ≤ |x| * (x * x) ^ k := mul_le_mul_of_nonneg_left q1 (abs_nonneg x)
              · -- sign
                have e3 : x ^ e = x * (x ^ k) ^ 2 := by rw [← pow_mul, hk, pow_succ', mul_comm k 2]
                rw [e3]
                have sq : 0 ≤ (x ^ k) ^ 2 := by positivity
                rcases eq_or_lt_of_le hbnn with hb0 | hbpos
                · -- b = 0 → r = 0
                  have : r = 0 := by rw [hr, ← hb0]; simp
                  rw [this]; simp
                · have : 0 ≤ r * x := by
                    have h3 : 0 ≤ (r * x) * b := by linarith [n2, mul_assoc r x b]
                    exact nonneg_of_mul_nonneg_left h3 hbpos
                  calc (0:Int) ≤ (r * x) * (x ^ k) ^ 2 := mul_nonneg this sq
                    _ = r * (x * (x ^ k) ^ 2) := by ring



/-- `one * one` fits the wide type -/
theorem one_sq_inBits (t : Ty) : InBits t.wide (t.one * t.one) := by
  obtain ⟨_, _, h1, h2, h3⟩ := ty_facts t
  have : t.one * t.one < half t.bits * t.one := mul_lt_mul_of_pos_right h2 h1
  have p : 0 < t.one * t.one := mul_pos h1 h1
  have := half_pos t.wide
  unfold InBits minOf maxOf
  constructor <;> omega

/-- truncating division by any non-zero divisor: magnitude and sign (for a non-negative dividend) -/
theorem tdiv_mag_any (a x : Int) (ha : 0 ≤ a) (hx : x ≠ 0) :
    |Int.tdiv a x| * |x| ≤ a ∧ 0 ≤ Int.tdiv a x * x := by
  rcases lt_or_gt_of_ne hx with hneg | hpos
  · obtain ⟨m1, _, m3⟩ := tdiv_mag a (-x) (by omega)
    rw [Int.tdiv_neg, abs_neg, abs_of_nonneg ha] at m1
    rw [Int.tdiv_neg] at m3
    rw [abs_of_neg hneg]
    refine ⟨m1, ?_⟩
    have := m3 ha
    exact mul_nonneg_of_nonpos_of_nonpos (by omega) (le_of_lt hneg)
  · obtain ⟨m1, _, m3⟩ := tdiv_mag a x hpos
    rw [abs_of_nonneg ha] at m1
    rw [abs_of_pos hpos]
    exact ⟨m1, mul_nonneg (m3 ha) (le_of_lt hpos)⟩

theorem checkedPowi_no_panic (t : Ty) (x e : Int) : checkedPowi t x e ≠ .panic := by
  unfold checkedPowi
  split
  · rw [chk_of_inBits (one_sq_inBits t)]
    simp only
    split
    · simp
    · split
      · simp
      · split
        · simp
        · split <;> simp
  · split <;> simp

/-- non-negative exponent: `checkedPowi` is `powiNat` -/
theorem checkedPowi_nonneg (t : Ty) (x : Int) (e : Int) (he : 0 ≤ e) :
    checkedPowi t x e = match powiNat t x e.toNat with
      | none => .none
      | some v => .val v := by
  unfold checkedPowi
  rw [if_neg (by omega)]
  rfl

/-- negative exponent: the reciprocal truncated to the scale, then `powiNat` -/
theorem checkedPowi_neg_val (t : Ty) (x e r : Int) (he : e < 0) (h : checkedPowi t x e = .val r) :
    ∃ r0 : Int, x ≠ 0 ∧ r0 = Int.tdiv (t.one * t.one) x ∧ t.InRange r0 ∧
      powiNat t r0 (-e).toNat = some r := by
  obtain ⟨hb0, hbw, _, _, _⟩ := ty_facts t
  unfold checkedPowi at h
  rw [if_pos he, chk_of_inBits (one_sq_inBits t)] at h
  simp only at h
  by_cases hx : x = 0
  · subst hx
    simp [iDiv] at h
  · unfold iDiv at h
    rw [if_neg hx] at h
    cases hc : chk t.wide (Int.tdiv (t.one * t.one) x) with
    | none => rw [hc] at h; cases h
    | some q =>
      rw [hc] at h
      simp only at h
      obtain ⟨hq, rfl⟩ := chk_eq_some.mp hc
      rw [narrow_signed_spec t.wide t.bits hb0 hbw _ hq] at h
      by_cases hr : minOf t.bits < Int.tdiv (t.one * t.one) x ∧ Int.tdiv (t.one * t.one) x ≤ maxOf t.bits
      · rw [if_pos hr] at h
        simp only at h
        by_cases he63 : e = -(2 : Int) ^ 63
        · rw [if_pos he63] at h; cases h
        · rw [if_neg he63] at h
          cases hp : powiNat t (Int.tdiv (t.one * t.one) x) (-e).toNat with
          | none => rw [hp] at h; cases h
          | some v =>
            rw [hp] at h
            cases h
            exact ⟨_, hx, rfl, ⟨le_of_lt hr.1, hr.2⟩, hp⟩
      · rw [if_neg hr] at h; cases h



/-- `x^k` is representable at the scale (as `q` subunits) and `q` is strictly inside the range -/
def ReprPow (t : Ty) (x : Int) (k : Nat) (q : Int) : Prop :=
  x ^ k = q * t.one ^ (k - 1) ∧ |q| < half t.bits

theorem square_exact (t : Ty) (x q2 : Int) (h : ReprPow t x 2 q2) : square t x = some q2 := by
  obtain ⟨hb0, hbw, h1, h2, h3⟩ := ty_facts t
  obtain ⟨he, hq⟩ := h
  have hxx : x * x = q2 * t.one := by simpa [pow_two] using he
  have hq' := inRange_of_abs_lt hq
  unfold square
  have hw : InBits t.wide (x * x) := by
    have : |x * x| < half t.bits * t.one := by
      rw [hxx, abs_mul, abs_of_pos h1]
      exact mul_lt_mul_of_pos_right hq h1
    rw [abs_lt] at this
    unfold InBits minOf maxOf
    constructor <;> omega
  rw [chk_of_inBits hw]
  simp only
  have htd : Int.tdiv (x * x) t.one = q2 := by
    rw [hxx]; exact Int.mul_tdiv_cancel q2 (ne_of_gt h1)
  rw [htd]
  have hwq : InBits t.wide q2 := by
    have := half_mono hbw
    rw [abs_lt] at hq
    unfold InBits minOf maxOf
    constructor <;> omega
  rw [narrow_signed_spec t.wide t.bits hb0 hbw _ hwq, if_pos ⟨hq'.2.1, hq'.2.2⟩]

theorem powiNat_unfold (t : Ty) (x : Int) (e : Nat) (he : 2 ≤ e) :
    powiNat t x e =
      match square t x with
      | none => none
      | some x2 =>
        if e % 2 = 0 then powiNat t x2 (e / 2)
        else
          match powiNat t x2 ((e - 1) / 2) with
          | none => none
          | some b => checkedMul t x b := by
  conv_lhs => unfold powiNat
  rw [if_neg (by omega), if_neg (by omega)]
  rfl

/-- exactness of `powiNat` when every intermediate power `x^k` (`1 ≤ k ≤ e`) is representable strictly
inside the range: the result is exactly `x^e / one^(e-1)`. -/
theorem powiNat_exact (t : Ty) : ∀ (e : Nat) (x : Int), 1 ≤ e →
    (∀ k, 1 ≤ k → k ≤ e → ∃ q, ReprPow t x k q) →
    ∃ q, ReprPow t x e q ∧ powiNat t x e = some q := by
  obtain ⟨hb0, hbw, h1, h2, h3⟩ := ty_facts t
  have hone : t.one ≠ 0 := ne_of_gt h1
  intro e
  induction e using Nat.strong_induction_on with
  | _ e ih =>
    intro x he H
    by_cases he1 : e = 1
    · subst he1
      obtain ⟨q, hq⟩ := H 1 (le_refl _) (le_refl _)
      have : q = x := by
        have := hq.1; simp at this; exact this.symm
      subst this
      refine ⟨q, hq, ?_⟩
      unfold powiNat; simp
    · have he2 : 2 ≤ e := by omega
      obtain ⟨q2, hq2⟩ := H 2 (by norm_num) he2
      have hsq := square_exact t x q2 hq2
      have hxx : x * x = q2 * t.one := by simpa [pow_two] using hq2.1
      -- representability of the powers of q2
      have Hq2 : ∀ j, 1 ≤ j → 2 * j ≤ e → ∀ Q, ReprPow t x (2 * j) Q → ReprPow t q2 j Q := by
        intro j hj hje Q hQ
        refine ⟨?_, hQ.2⟩
        have e1 : q2 ^ j * t.one ^ j = (Q * t.one ^ (j - 1)) * t.one ^ j := by
          calc q2 ^ j * t.one ^ j = (q2 * t.one) ^ j := by rw [mul_pow]
            _ = (x * x) ^ j := by rw [hxx]
            _ = x ^ (2 * j) := by rw [← pow_two, ← pow_mul]
            _ = Q * t.one ^ (2 * j - 1) := hQ.1
            _ = (Q * t.one ^ (j - 1)) * t.one ^ j := by
                rw [mul_assoc, ← pow_add]; congr 2; omega
        exact mul_right_cancel₀ (pow_ne_zero j hone) e1
      rw [powiNat_unfold t x e he2, hsq]
      simp only
      by_cases hev : e % 2 = 0
      · rw [if_pos hev]
        obtain ⟨k, hk⟩ : ∃ k, e = 2 * k := ⟨e / 2, by omega⟩
        have hdiv : e / 2 = k := by omega
        rw [hdiv]
        obtain ⟨Q, hQ⟩ := H e he (le_refl _)
        have Hk : ∀ j, 1 ≤ j → j ≤ k → ∃ q, ReprPow t q2 j q := by
          intro j hj hjk
          obtain ⟨Qj, hQj⟩ := H (2 * j) (by omega) (by omega)
          exact ⟨Qj, Hq2 j hj (by omega) Qj hQj⟩
        obtain ⟨q', hq', hp⟩ := ih k (by omega) q2 (by omega) Hk
        have hQk : ReprPow t q2 k Q := Hq2 k (by omega) (by omega) Q (by rw [← hk]; exact hQ)
        have : q' = Q := by
          have e1 := hq'.1; have e2 := hQk.1
          rw [e1] at e2
          exact mul_right_cancel₀ (pow_ne_zero _ hone) e2
        subst this
        exact ⟨q', hQ, hp⟩
      · rw [if_neg hev]
        obtain ⟨k, hk⟩ : ∃ k, e = 2 * k + 1 := ⟨e / 2, by omega⟩
        have hdiv : (e - 1) / 2 = k := by omega
        rw [hdiv]
        have hk1 : 1 ≤ k := by omega
        obtain ⟨Q, hQ⟩ := H e he (le_refl _)
        obtain ⟨Qk, hQk0⟩ := H (2 * k) (by omega) (by omega)
        have hQk : ReprPow t q2 k Qk := Hq2 k hk1 (by omega) Qk hQk0
        have Hk : ∀ j, 1 ≤ j → j ≤ k → ∃ q, ReprPow t q2 j q := by
          intro j hj hjk
          obtain ⟨Qj, hQj⟩ := H (2 * j) (by omega) (by omega)
          exact ⟨Qj, Hq2 j hj (by omega) Qj hQj⟩
        obtain ⟨q', hq', hp⟩ := ih k (by omega) q2 hk1 Hk
        have : q' = Qk := by
          have e1 := hq'.1; have e2 := hQk.1
          rw [e1] at e2
          exact mul_right_cancel₀ (pow_ne_zero _ hone) e2
        subst this
        rw [hp]
        simp only
        -- the final multiplication is exact
        obtain ⟨q1, hq1⟩ := H 1 (le_refl _) (by omega)
        have hx1 : q1 = x := by have := hq1.1; simp at this; exact this.symm
        subst hx1
        have hxr := (inRange_of_abs_lt hq1.2).1
        have hbr := (inRange_of_abs_lt hq'.2).1
        have hQr := inRange_of_abs_lt hQ.2
        have hprod : q1 * q' = Q * t.one := by
          have e1 : (q1 * q') * t.one ^ (2 * k - 1) = (Q * t.one) * t.one ^ (2 * k - 1) := by
            calc (q1 * q') * t.one ^ (2 * k - 1) = q1 * (q' * t.one ^ (2 * k - 1)) := by ring
              _ = q1 * q1 ^ (2 * k) := by rw [← hQk0.1]
              _ = q1 ^ e := by rw [hk, pow_succ']
              _ = Q * t.one ^ (e - 1) := hQ.1
              _ = (Q * t.one) * t.one ^ (2 * k - 1) := by
                  rw [mul_assoc, ← pow_succ']; congr 2; omega
          exact mul_right_cancel₀ (pow_ne_zero _ hone) e1
        rw [checkedMul_eq t hxr hbr, hprod, Int.mul_tdiv_cancel Q hone]
        have : Ty.min t < Q ∧ Q ≤ Ty.max t := ⟨hQr.2.1, hQr.2.2⟩
        rw [if_pos this]
        exact ⟨Q, hQ, rfl⟩


end Radix.DecimalPow
