/-
C28 — parse ∘ print lemmas per non-fungible id kind (`Model/AddrText.lean`).
-/
import RadixModel.Model.AddrText
import RadixModel.Lemmas.NfIdText

namespace Radix.AddrText
open Radix.Bech32 (Str Bytes utf8Len u8len)

/-! ### RUID layout -/

theorem ruidBody_facts (h : Str) (hl : h.length = 64) (hn : ∀ c ∈ h, c ≠ '-') :
    (ruidBody h).length = 67 ∧ (ruidBody h)[16]? = some '-' ∧ (ruidBody h)[33]? = some '-' ∧
    (ruidBody h)[50]? = some '-' ∧ (ruidBody h).filter (· ≠ '-') = h := by
  have e1 : h = h.take 16 ++ h.drop 16 := (List.take_append_drop 16 h).symm
  have e2 : h.drop 16 = (h.drop 16).take 16 ++ h.drop 32 := by
    have := (List.take_append_drop 16 (h.drop 16)).symm
    rwa [List.drop_drop] at this
  have e3 : h.drop 32 = (h.drop 32).take 16 ++ h.drop 48 := by
    have := (List.take_append_drop 16 (h.drop 32)).symm
    rwa [List.drop_drop] at this
  have e4 : (h.drop 48).take 16 = h.drop 48 := List.take_of_length_le (by simp [hl])
  have la : (h.take 16).length = 16 := by simp [hl]
  have lb : ((h.drop 16).take 16).length = 16 := by simp [hl]
  have lc : ((h.drop 32).take 16).length = 16 := by simp [hl]
  have ld : ((h.drop 48).take 16).length = 16 := by simp [hl]
  have hf : ∀ l : Str, (∀ c ∈ l, c ∈ h) → l.filter (· ≠ '-') = l := by
    intro l hlm
    rw [List.filter_eq_self]
    intro c hc
    simpa using hn c (hlm c hc)
  have ma : ∀ c ∈ h.take 16, c ∈ h := fun c hc => List.mem_of_mem_take hc
  have mb : ∀ c ∈ (h.drop 16).take 16, c ∈ h := fun c hc => List.mem_of_mem_drop (List.mem_of_mem_take hc)
  have mc : ∀ c ∈ (h.drop 32).take 16, c ∈ h := fun c hc => List.mem_of_mem_drop (List.mem_of_mem_take hc)
  have md : ∀ c ∈ (h.drop 48).take 16, c ∈ h := fun c hc => List.mem_of_mem_drop (List.mem_of_mem_take hc)
  refine ⟨?_, ?_, ?_, ?_, ?_⟩
  · simp only [ruidBody, List.length_append, List.length_cons, la, lb, lc, ld]
  · simp only [ruidBody]
    rw [List.getElem?_append_right (by omega), la]; rfl
  · simp only [ruidBody]
    rw [List.getElem?_append_right (by omega), la]
    show (_ :: _)[17]? = _
    rw [List.getElem?_cons_succ, List.getElem?_append_right (by omega), lb]; rfl
  · simp only [ruidBody]
    rw [List.getElem?_append_right (by omega), la]
    show (_ :: _)[34]? = _
    rw [List.getElem?_cons_succ, List.getElem?_append_right (by omega), lb]
    show (_ :: _)[17]? = _
    rw [List.getElem?_cons_succ, List.getElem?_append_right (by omega), lc]; rfl
  · have hd : (List.filter (fun x => decide (x ≠ '-')) ('-' :: ([] : Str))) = [] := by decide
    simp only [ruidBody, List.filter_append, List.filter_cons, hf _ ma, hf _ mb, hf _ mc, hf _ md]
    simp only [ne_eq, not_true_eq_false, decide_false, Bool.false_eq_true, if_false]
    rw [e4]
    conv => rhs; rw [e1, e2, e3]

/-! ### parse ∘ print per id kind -/

theorem isIdChar_ascii {c : Char} (h : isIdChar c = true) : c.toNat < 128 ∧ c ≠ ':' := by
  unfold isIdChar at h
  simp only [Bool.or_eq_true, Bool.and_eq_true, decide_eq_true_eq, beq_iff_eq] at h
  refine ⟨by omega, ?_⟩
  intro e; subst e
  have : ':'.toNat = 58 := by decide
  omega

theorem parse_print_str (cs : Str) (hv : (LocalId.str cs).Valid) :
    parseLocalId (printLocalId (.str cs)) = .ok (.str cs) := by
  obtain ⟨h1, h2, h3⟩ := hv
  have hasc : ∀ c ∈ cs, c.toNat < 128 := fun c hc => (isIdChar_ascii (List.all_eq_true.1 h3 c hc)).1
  have hlen := utf8Len_ascii cs hasc
  simp only [printLocalId, parseLocalId, startsWith_cons, endsWith_wrap, Bool.and_self, if_true]
  rw [inner_wrap _ _ _ (by decide) (by decide)]
  have hne : ¬ cs.length = 0 := by omega
  have hle : ¬ cs.length > MAXLEN := by omega
  simp [mkString, validateString, hlen, hne, hle, h3]

theorem parse_print_int (n : Nat) (hv : (LocalId.int n).Valid) :
    parseLocalId (printLocalId (.int n)) = .ok (.int n) := by
  have hv' : n < 2 ^ 64 := hv
  have hlt : utf8Len ('#' :: (printNat n ++ ['#'])) > 1 := by
    rw [utf8Len_cons, utf8Len_append, utf8Len_cons, utf8Len_nil]
    have := u8len_pos '#'; omega
  simp only [printLocalId, parseLocalId, startsWith_ne '#' '<' _ (by decide), Bool.false_and,
    Bool.false_eq_true, if_false, startsWith_cons, endsWith_wrap, Bool.and_self, hlt, decide_true, if_true]
  rw [inner_wrap _ _ _ (by decide) (by decide)]
  simp [isCanonicalInt_printNat, parseU64, parseNat_printNat, hv']

theorem parse_print_bytes (b : Bytes) (hv : (LocalId.bytes b).Valid) :
    parseLocalId (printLocalId (.bytes b)) = .ok (.bytes b) := by
  obtain ⟨h1, h2⟩ := hv
  have hne : ¬ b.length = 0 := by omega
  have hle : ¬ b.length > MAXLEN := by omega
  simp only [printLocalId, parseLocalId, startsWith_ne '[' '<' _ (by decide), startsWith_ne '[' '#' _ (by decide),
    Bool.false_and, Bool.and_false, Bool.false_eq_true, if_false, startsWith_cons, endsWith_wrap, Bool.and_self, if_true]
  rw [inner_wrap _ _ _ (by decide) (by decide)]
  simp [hexDecode_hexEncode, mkBytes, validateBytes, hne, hle]

theorem parse_print_ruid (b : Bytes) (hv : (LocalId.ruid b).Valid) :
    parseLocalId (printLocalId (.ruid b)) = .ok (.ruid b) := by
  have hv' : b.length = 32 := hv
  have hl : (hexEncode b).length = 64 := by rw [hexEncode_length, hv']
  have hch := hexEncode_chars b
  obtain ⟨f1, f2, f3, f4, f5⟩ := ruidBody_facts (hexEncode b) hl (fun c hc => (hch c hc).2.1)
  have hu : utf8Len (hexEncode b) = 64 := by
    rw [utf8Len_ascii _ (fun c hc => (hch c hc).1), hl]
  simp only [printLocalId, parseLocalId, startsWith_ne '{' '<' _ (by decide), startsWith_ne '{' '#' _ (by decide),
    startsWith_ne '{' '[' _ (by decide),
    Bool.false_and, Bool.and_false, Bool.false_eq_true, if_false, startsWith_cons, endsWith_wrap, Bool.and_self, if_true]
  rw [inner_wrap _ _ _ (by decide) (by decide)]
  simp only [parseRuidChars, f1, f2, f3, f4, f5, hu, hexDecode_hexEncode, hv', Nat.reduceMul, Nat.reduceAdd, if_true, and_self]

/-! ### totality and inversion of `from_str` -/

theorem mkString_ok {s : Str} {id : LocalId} (h : mkString s = .ok id) : id = .str s := by
  unfold mkString at h
  split at h
  · exact absurd h (by simp)
  · cases h; rfl

theorem mkBytes_ok {b : Bytes} {id : LocalId} (h : mkBytes b = .ok id) : id = .bytes b := by
  unfold mkBytes at h
  split at h
  · exact absurd h (by simp)
  · cases h; rfl

theorem getElem?_some_of_lt (l : Str) (i : Nat) (h : i < l.length) : ∃ c, l[i]? = some c :=
  ⟨l[i], List.getElem?_eq_getElem h⟩

theorem parseRuidChars_ne_panic (chars : Str) : parseRuidChars chars ≠ .panic := by
  unfold parseRuidChars
  split
  · rename_i hl
    obtain ⟨a, ha⟩ := getElem?_some_of_lt chars 16 (by omega)
    obtain ⟨b, hb⟩ := getElem?_some_of_lt chars 33 (by omega)
    obtain ⟨c, hc⟩ := getElem?_some_of_lt chars 50 (by omega)
    simp only [ha, hb, hc]
    split
    · split
      · rename_i hu
        cases hd : hexDecode (List.filter (fun x => decide (x ≠ '-')) chars) with
        | none => simp
        | some bs =>
          obtain ⟨h1, h2⟩ := hexDecode_some _ _ hd
          rw [utf8Len_ascii _ h2, h1] at hu
          have : bs.length = 32 := by omega
          simp [this]
      · simp
    · simp
  · simp

theorem parseRuidChars_ok {chars : Str} {id : LocalId} (h : parseRuidChars chars = .ok id) :
    ∃ b, id = .ruid b := by
  unfold parseRuidChars at h
  split at h
  · split at h
    · split at h
      · simp only at h
        split at h
        · split at h
          · exact absurd h (by simp)
          · split at h
            · cases h; exact ⟨_, rfl⟩
            · exact absurd h (by simp)
        · exact absurd h (by simp)
      · exact absurd h (by simp)
    · exact absurd h (by simp)
  · exact absurd h (by simp)

/-- `parse_total` for `NonFungibleLocalId::from_str`: no slice, index or unwrap can panic. -/
theorem parseLocalId_ne_panic (s : Str) : parseLocalId s ≠ .panic := by
  unfold parseLocalId
  split
  · rename_i h
    simp only [Bool.and_eq_true] at h
    obtain ⟨mid, rfl⟩ := wrap_of_starts_ends h.1 h.2 (Or.inl (by decide)) (by decide)
    rw [inner_wrap _ _ _ (by decide) (by decide)]
    simp only
    split <;> simp
  · split
    · rename_i h
      simp only [Bool.and_eq_true, decide_eq_true_eq] at h
      obtain ⟨mid, rfl⟩ := wrap_of_starts_ends h.1.2 h.2 (Or.inr h.1.1) (by decide)
      rw [inner_wrap _ _ _ (by decide) (by decide)]
      simp only
      split
      · simp
      · split <;> simp
    · split
      · rename_i h
        simp only [Bool.and_eq_true] at h
        obtain ⟨mid, rfl⟩ := wrap_of_starts_ends h.1 h.2 (Or.inl (by decide)) (by decide)
        rw [inner_wrap _ _ _ (by decide) (by decide)]
        simp only
        split
        · simp
        · split <;> simp
      · split
        · rename_i h
          simp only [Bool.and_eq_true] at h
          obtain ⟨mid, rfl⟩ := wrap_of_starts_ends h.1 h.2 (Or.inl (by decide)) (by decide)
          rw [inner_wrap _ _ _ (by decide) (by decide)]
          exact parseRuidChars_ne_panic mid
        · simp

/-- inversion: the only texts parsed to an integer id are `#` canonical-decimal `#` -/
theorem parseLocalId_int {s : Str} {n : Nat} (h : parseLocalId s = .ok (.int n)) :
    s = '#' :: (printNat n ++ ['#']) ∧ n < 2 ^ 64 := by
  unfold parseLocalId at h
  split at h
  · rename_i hc
    simp only [Bool.and_eq_true] at hc
    obtain ⟨mid, rfl⟩ := wrap_of_starts_ends hc.1 hc.2 (Or.inl (by decide)) (by decide)
    rw [inner_wrap _ _ _ (by decide) (by decide)] at h
    simp only at h
    split at h
    · exact absurd h (by simp)
    · rename_i id hm
      have := mkString_ok hm
      subst this
      exact absurd h (by simp)
  · split at h
    · rename_i hc
      simp only [Bool.and_eq_true, decide_eq_true_eq] at hc
      obtain ⟨mid, rfl⟩ := wrap_of_starts_ends hc.1.2 hc.2 (Or.inr hc.1.1) (by decide)
      rw [inner_wrap _ _ _ (by decide) (by decide)] at h
      simp only at h
      split at h
      · exact absurd h (by simp)
      · rename_i hcan
        have hcan' : isCanonicalInt mid = true := by
          cases hx : isCanonicalInt mid with
          | true => rfl
          | false => simp [hx] at hcan
        cases hp : parseU64 mid with
        | none => simp [hp] at h
        | some v =>
          simp only [hp, PR.ok.injEq, LocalId.int.injEq] at h
          subst h
          unfold parseU64 at hp
          split at hp
          · rename_i hlt
            cases hp
            exact ⟨by rw [printNat_parseNat_of_canonical mid hcan'], hlt⟩
          · exact absurd hp (by simp)
    · split at h
      · rename_i hc
        simp only [Bool.and_eq_true] at hc
        obtain ⟨mid, rfl⟩ := wrap_of_starts_ends hc.1 hc.2 (Or.inl (by decide)) (by decide)
        rw [inner_wrap _ _ _ (by decide) (by decide)] at h
        simp only at h
        split at h
        · exact absurd h (by simp)
        · split at h
          · exact absurd h (by simp)
          · rename_i id hm
            have := mkBytes_ok hm
            subst this
            exact absurd h (by simp)
      · split at h
        · rename_i hc
          simp only [Bool.and_eq_true] at hc
          obtain ⟨mid, rfl⟩ := wrap_of_starts_ends hc.1 hc.2 (Or.inl (by decide)) (by decide)
          rw [inner_wrap _ _ _ (by decide) (by decide)] at h
          obtain ⟨b, hb⟩ := parseRuidChars_ok h
          exact absurd hb (by simp)
        · exact absurd h (by simp)

end Radix.AddrText
