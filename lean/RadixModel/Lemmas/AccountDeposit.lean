/-
Helper lemmas for C39 (account deposit rules). Model: `RadixModel/Model/AccountDeposit.lean`.
-/
import RadixModel.Model.AccountDeposit

namespace Radix.Account

@[simp] theorem put_rule (s : Acct) (b : Bucket) : (put s b).rule = s.rule := rfl
@[simp] theorem put_pref (s : Acct) (b : Bucket) : (put s b).pref = s.pref := rfl
@[simp] theorem put_dep (s : Acct) (b : Bucket) : (put s b).dep = s.dep := rfl

theorem put_vault (s : Acct) (b : Bucket) (r : Nat) :
    (put s b).vault r = if r = b.res then some (vaultPut (s.vault r) b.amt) else s.vault r := rfl

@[simp] theorem putAll_rule (s : Acct) (bs : List Bucket) : (putAll s bs).rule = s.rule := by
  induction bs generalizing s with
  | nil => rfl
  | cons b bs ih => simp [putAll, ih]

@[simp] theorem putAll_pref (s : Acct) (bs : List Bucket) : (putAll s bs).pref = s.pref := by
  induction bs generalizing s with
  | nil => rfl
  | cons b bs ih => simp [putAll, ih]

@[simp] theorem putAll_dep (s : Acct) (bs : List Bucket) : (putAll s bs).dep = s.dep := by
  induction bs generalizing s with
  | nil => rfl
  | cons b bs ih => simp [putAll, ih]

/-- total amount of the buckets of resource `r`. -/
def sumOf (r : Nat) : List Bucket → Nat
  | [] => 0
  | b :: bs => (if b.res = r then b.amt else 0) + sumOf r bs

/-- exact vault effect of a batch deposit. -/
theorem putAll_vault (s : Acct) (bs : List Bucket) (r : Nat) :
    (putAll s bs).vault r =
      if r ∈ bs.map (·.res) then some (vaultPut (s.vault r) (sumOf r bs)) else s.vault r := by
  induction bs generalizing s with
  | nil => simp [putAll]
  | cons b bs ih =>
    simp only [putAll, ih, put_vault, List.map_cons, List.mem_cons, sumOf]
    by_cases h1 : r = b.res
    · subst h1
      simp only [if_true, true_or]
      by_cases h2 : b.res ∈ bs.map (·.res)
      · simp only [h2, if_true]
        cases s.vault b.res <;> simp [vaultPut, Nat.add_assoc]
      · simp only [h2, if_false]
        have : sumOf b.res bs = 0 := by
          clear ih
          induction bs with
          | nil => rfl
          | cons c cs ihc =>
            simp only [List.map_cons, List.mem_cons, not_or] at h2
            have hc : ¬ c.res = b.res := fun h => h2.1 h.symm
            simp [sumOf, hc, ihc h2.2]
        simp [this]
    · have h1' : ¬ b.res = r := fun h => h1 h.symm
      simp [h1, h1']

theorem putAll_vault_isSome (s : Acct) (bs : List Bucket) (r : Nat) :
    ((putAll s bs).vault r).isSome = ((s.vault r).isSome || decide (r ∈ bs.map (·.res))) := by
  rw [putAll_vault]
  by_cases h : r ∈ bs.map (·.res) <;> simp [h]

theorem offending_nil_iff (s : Acct) (bs : List Bucket) :
    (offending s bs).isEmpty = true ↔ ∀ b ∈ bs, isDepositAllowed s b.res = true := by
  simp [offending, List.isEmpty_iff, List.filter_eq_nil_iff]

theorem offending_sub (s : Acct) (bs : List Bucket) : ∀ b ∈ offending s bs, b ∈ bs ∧ isDepositAllowed s b.res = false := by
  intro b hb
  simpa [offending, List.mem_filter] using hb

/-- the part of `try_deposit_batch_or_refund` after the `offending_buckets.is_empty()` test failed. -/
def batchRefused (ver : Ver) (s : Acct) (bs : List Bucket) (badge : Option Nat) (proven : Bool) :
    Res (Option (List Bucket)) :=
  match badge with
  | some g =>
    if s.dep g then
      if proven then .ok (putAll s bs, bs.map depEv, none)
      else .error .badgeNotPresent
    else
      match ver with
      | .v1 => .error (.notAnAuthorizedDepositor g)
      | .bottlenose => .ok (s, (offending s bs).map rejEv, some bs)
  | none => .ok (s, (offending s bs).map rejEv, some bs)

theorem batch_all (ver : Ver) (s : Acct) (bs : List Bucket) (badge : Option Nat) (proven : Bool)
    (h : ∀ b ∈ bs, isDepositAllowed s b.res = true) :
    tryDepositBatchOrRefund ver s bs badge proven = .ok (putAll s bs, bs.map depEv, none) := by
  have ho := (offending_nil_iff s bs).2 h
  unfold tryDepositBatchOrRefund
  simp only [ho, if_true]

theorem batch_not_all (ver : Ver) (s : Acct) (bs : List Bucket) (badge : Option Nat) (proven : Bool)
    (h : ¬ ∀ b ∈ bs, isDepositAllowed s b.res = true) :
    tryDepositBatchOrRefund ver s bs badge proven = batchRefused ver s bs badge proven := by
  have ho : (offending s bs).isEmpty = false := by
    cases hx : (offending s bs).isEmpty
    · rfl
    · exact absurd ((offending_nil_iff s bs).1 hx) h
  unfold tryDepositBatchOrRefund batchRefused
  simp only [ho, Bool.false_eq_true, if_false]
  cases badge with
  | none => rfl
  | some g => rfl

/-- every successful return of the batch method is one of the two shapes. -/
theorem batch_ok_cases (ver : Ver) (s s' : Acct) (bs : List Bucket) (badge : Option Nat) (proven : Bool)
    (ev : List Ev) (ret : Option (List Bucket))
    (h : tryDepositBatchOrRefund ver s bs badge proven = .ok (s', ev, ret)) :
    (s' = putAll s bs ∧ ev = bs.map depEv ∧ ret = none) ∨
    (s' = s ∧ ev = (offending s bs).map rejEv ∧ ret = some bs) := by
  by_cases hall : ∀ b ∈ bs, isDepositAllowed s b.res = true
  · rw [batch_all ver s bs badge proven hall] at h
    injection h with h; injection h with h1 h; injection h with h2 h3
    exact Or.inl ⟨h1.symm, h2.symm, h3.symm⟩
  · rw [batch_not_all ver s bs badge proven hall] at h
    unfold batchRefused at h
    cases badge with
    | none =>
      injection h with h; injection h with h1 h; injection h with h2 h3
      exact Or.inr ⟨h1.symm, h2.symm, h3.symm⟩
    | some g =>
      cases hd : s.dep g <;> cases proven <;> cases ver <;> simp only [hd, if_true, if_false, Bool.false_eq_true] at h
      all_goals first
        | (injection h; done)
        | (injection h with h; injection h with h1 h; injection h with h2 h3
           first
             | exact Or.inr ⟨h1.symm, h2.symm, h3.symm⟩
             | exact Or.inl ⟨h1.symm, h2.symm, h3.symm⟩)

end Radix.Account
