/-
C23 core: if every related pair of type ids is either "compared = Any" or node-wise compatible
(`NodeRel`), then every value valid under the base type is valid under the compared type.
-/
import RadixModel.Lemmas.SchemaCompare

namespace Radix.Schema
open Radix.Sbor

/-- Node-level compatibility of type `b` (schema `B`) with type `c` (schema `C`): whenever `b`'s kind /
validation resolve, so do `c`'s, and they are related. -/
structure NodeRel (env : Env) (B C : Schema) (R : TypeId → TypeId → Prop) (b c : TypeId) : Prop where
  kind : ∀ kb, resolveKind env B b = some kb → ∃ kc, resolveKind env C c = some kc ∧ KindRel R kb kc
  val : ∀ vb, resolveValidation env B b = some vb → ∃ vc, resolveValidation env C c = some vc ∧ ValRel env vb vc

/-- The hypothesis on the relation. -/
def RelOK (env : Env) (B C : Schema) (R : TypeId → TypeId → Prop) : Prop :=
  ∀ b c, R b c → c = anyTid env ∨ NodeRel env B C R b c

theorem vkm_rel {R : TypeId → TypeId → Prop} {kb kc : TypeKind} (h : KindRel R kb kc) (vk : VK ScryptoKind)
    (hm : valueKindMatches vk kb = true) : valueKindMatches vk kc = true := by
  rcases h with h | h
  · subst h; exact valueKindMatches_any vk
  · cases kb <;> cases kc <;> simp only [] at h <;> (try exact h.elim) <;>
      cases vk <;> simp_all [valueKindMatches]

theorem lookKind_ok {env : Env} {S : Schema} {t : TypeId} {k : TypeKind} (h : lookKind env S t = .ok k) :
    resolveKind env S t = some k := by
  unfold lookKind at h
  cases hk : resolveKind env S t <;> simp_all

theorem lookKind_of {env : Env} {S : Schema} {t : TypeId} {k : TypeKind} (h : resolveKind env S t = some k) :
    lookKind env S t = .ok k := by
  simp [lookKind, h]

/-- container start, generic part: kind resolves, container check passes -/
theorem container_inv {env : Env} {S : Schema} {t : TypeId} {hd : Hdr}
    (h : validateContainer env S t hd = .ok ()) : ∃ v, resolveValidation env S t = some v ∧ containerCheck (some v) hd = .ok () := by
  unfold validateContainer at h
  cases hv : resolveValidation env S t with
  | none => simp [hv, containerCheck] at h
  | some v => exact ⟨v, rfl, by rw [hv] at h; exact h⟩

theorem container_rel {env : Env} {B C : Schema} {R : TypeId → TypeId → Prop} {b c : TypeId}
    (hn : NodeRel env B C R b c) {hd : Hdr} (h : validateContainer env B b hd = .ok ()) :
    validateContainer env C c hd = .ok () := by
  obtain ⟨vb, hvb, hc⟩ := container_inv h
  obtain ⟨vc, hvc, hvr⟩ := hn.val vb hvb
  unfold validateContainer; rw [hvc]; exact hvr.container _ hc

/-! ### inversion / introduction of the container-start functions -/

theorem startTuple_inv {env : Env} {S : Schema} {t : TypeId} {n : Nat} {tids : List TypeId}
    (h : startTuple env S t n = .ok tids) :
    ∃ k, resolveKind env S t = some k ∧ validateContainer env S t .tuple = .ok () ∧
      ((k = .any ∧ tids = List.replicate n (anyTid env)) ∨ ∃ fts, k = .tuple fts ∧ fts.length = n ∧ tids = fts) := by
  unfold startTuple lookKind at h
  cases hk : resolveKind env S t with
  | none => simp [hk] at h
  | some k =>
    refine ⟨k, rfl, ?_⟩
    simp only [hk] at h
    cases hc : validateContainer env S t .tuple with
    | error e => cases k <;> simp only [hc] at h <;> (try split at h) <;> simp at h
    | ok u =>
      refine ⟨rfl, ?_⟩
      cases k <;> simp only [hc] at h <;> (try (simp at h; done))
      · left; simp at h; exact ⟨rfl, h.symm⟩
      · rename_i fts
        right
        by_cases hl : fts.length = n
        · simp [hl] at h; exact ⟨fts, rfl, hl, h.symm⟩
        · simp [hl] at h

theorem startTuple_any {env : Env} {S : Schema} {t : TypeId} {n : Nat}
    (hk : resolveKind env S t = some .any) (hc : validateContainer env S t .tuple = .ok ()) :
    startTuple env S t n = .ok (List.replicate n (anyTid env)) := by
  simp [startTuple, lookKind, hk, hc]

theorem startTuple_tuple {env : Env} {S : Schema} {t : TypeId} {n : Nat} {fts : List TypeId}
    (hk : resolveKind env S t = some (.tuple fts)) (hl : fts.length = n)
    (hc : validateContainer env S t .tuple = .ok ()) : startTuple env S t n = .ok fts := by
  simp [startTuple, lookKind, hk, hc, hl]

theorem startEnum_inv {env : Env} {S : Schema} {t : TypeId} {d n : Nat} {tids : List TypeId}
    (h : startEnum env S t d n = .ok tids) :
    ∃ k, resolveKind env S t = some k ∧ validateContainer env S t .enum = .ok () ∧
      ((k = .any ∧ tids = List.replicate n (anyTid env)) ∨
        ∃ vs fts, k = .enum vs ∧ alookup d vs = some fts ∧ fts.length = n ∧ tids = fts) := by
  unfold startEnum lookKind at h
  cases hk : resolveKind env S t with
  | none => simp [hk] at h
  | some k =>
    refine ⟨k, rfl, ?_⟩
    simp only [hk] at h
    cases hc : validateContainer env S t .enum with
    | error e => cases k <;> simp only [hc] at h <;> (try split at h) <;> (try split at h) <;> simp at h
    | ok u =>
      refine ⟨rfl, ?_⟩
      cases k <;> simp only [hc] at h <;> (try (simp at h; done))
      · left; simp at h; exact ⟨rfl, h.symm⟩
      · rename_i vs
        right
        cases hl : alookup d vs with
        | none => simp [hl] at h
        | some fts =>
          by_cases hn : fts.length = n
          · simp [hl, hn] at h; exact ⟨vs, fts, rfl, hl, hn, h.symm⟩
          · simp [hl, hn] at h

theorem startEnum_any {env : Env} {S : Schema} {t : TypeId} {d n : Nat}
    (hk : resolveKind env S t = some .any) (hc : validateContainer env S t .enum = .ok ()) :
    startEnum env S t d n = .ok (List.replicate n (anyTid env)) := by
  simp [startEnum, lookKind, hk, hc]

theorem startEnum_enum {env : Env} {S : Schema} {t : TypeId} {d n : Nat} {vs : List (Nat × List TypeId)} {fts : List TypeId}
    (hk : resolveKind env S t = some (.enum vs)) (hv : alookup d vs = some fts) (hl : fts.length = n)
    (hc : validateContainer env S t .enum = .ok ()) : startEnum env S t d n = .ok fts := by
  simp [startEnum, lookKind, hk, hc, hv, hl]

theorem startArray_inv {env : Env} {S : Schema} {t : TypeId} {ek : VK ScryptoKind} {n : Nat} {et : TypeId}
    (h : startArray env S t ek n = .ok et) :
    ∃ k, resolveKind env S t = some k ∧ validateContainer env S t (.array n) = .ok () ∧
      ((k = .any ∧ et = anyTid env) ∨
        ∃ ekind, k = .array et ∧ resolveKind env S et = some ekind ∧ valueKindMatches ek ekind = true) := by
  unfold startArray at h
  cases hk0 : lookKind env S t with
  | error e => simp [hk0] at h
  | ok k =>
    refine ⟨k, lookKind_ok hk0, ?_⟩
    simp only [hk0] at h
    cases hc : validateContainer env S t (.array n) with
    | error e => simp only [hc] at h; split at h <;> simp at h
    | ok u =>
      refine ⟨rfl, ?_⟩
      simp only [hc] at h
      cases k <;> (try (simp at h; done))
      · left; simp at h; exact ⟨rfl, h.symm⟩
      · rename_i e0
        right
        simp only [] at h
        cases hke : lookKind env S e0 with
        | error e => simp [hke] at h
        | ok ekind =>
          by_cases hm : valueKindMatches ek ekind = true
          · simp [hke, hm] at h; subst h; exact ⟨ekind, rfl, lookKind_ok hke, hm⟩
          · simp [hke, hm] at h

theorem startArray_any {env : Env} {S : Schema} {t : TypeId} {ek : VK ScryptoKind} {n : Nat}
    (hk : resolveKind env S t = some .any) (hc : validateContainer env S t (.array n) = .ok ()) :
    startArray env S t ek n = .ok (anyTid env) := by
  simp [startArray, lookKind, hk, hc]

theorem startArray_array {env : Env} {S : Schema} {t et : TypeId} {ek : VK ScryptoKind} {n : Nat} {ekind : TypeKind}
    (hk : resolveKind env S t = some (.array et)) (hke : resolveKind env S et = some ekind)
    (hm : valueKindMatches ek ekind = true)
    (hc : validateContainer env S t (.array n) = .ok ()) : startArray env S t ek n = .ok et := by
  simp [startArray, lookKind, hk, hc, hke, hm]

theorem startMap_inv {env : Env} {S : Schema} {t : TypeId} {kk vk : VK ScryptoKind} {n : Nat} {kt vt : TypeId}
    (h : startMap env S t kk vk n = .ok (kt, vt)) :
    ∃ k, resolveKind env S t = some k ∧ validateContainer env S t (.map n) = .ok () ∧
      ((k = .any ∧ kt = anyTid env ∧ vt = anyTid env) ∨
        ∃ kkind vkind, k = .map kt vt ∧ resolveKind env S kt = some kkind ∧ valueKindMatches kk kkind = true ∧
          resolveKind env S vt = some vkind ∧ valueKindMatches vk vkind = true) := by
  unfold startMap at h
  cases hk0 : lookKind env S t with
  | error e => simp [hk0] at h
  | ok k =>
    refine ⟨k, lookKind_ok hk0, ?_⟩
    simp only [hk0] at h
    cases hc : validateContainer env S t (.map n) with
    | error e => simp only [hc] at h; split at h <;> simp at h
    | ok u =>
      refine ⟨rfl, ?_⟩
      simp only [hc] at h
      cases k <;> (try (simp at h; done))
      · left; simp at h; exact ⟨rfl, h.1.symm, h.2.symm⟩
      · rename_i k0 v0
        right
        simp only [] at h
        cases hkk : lookKind env S k0 with
        | error e => simp [hkk] at h
        | ok kkind =>
          by_cases hm : valueKindMatches kk kkind = true
          · cases hvk : lookKind env S v0 with
            | error e => simp [hkk, hm, hvk] at h
            | ok vkind =>
              by_cases hm2 : valueKindMatches vk vkind = true
              · simp [hkk, hm, hvk, hm2] at h
                obtain ⟨h1, h2⟩ := h; subst h1; subst h2
                exact ⟨kkind, vkind, rfl, lookKind_ok hkk, hm, lookKind_ok hvk, hm2⟩
              · simp [hkk, hm, hvk, hm2] at h
          · simp [hkk, hm] at h

theorem startMap_any {env : Env} {S : Schema} {t : TypeId} {kk vk : VK ScryptoKind} {n : Nat}
    (hk : resolveKind env S t = some .any) (hc : validateContainer env S t (.map n) = .ok ()) :
    startMap env S t kk vk n = .ok (anyTid env, anyTid env) := by
  simp [startMap, lookKind, hk, hc]

theorem startMap_map {env : Env} {S : Schema} {t kt vt : TypeId} {kk vk : VK ScryptoKind} {n : Nat} {kkind vkind : TypeKind}
    (hk : resolveKind env S t = some (.map kt vt)) (hkk : resolveKind env S kt = some kkind)
    (hm : valueKindMatches kk kkind = true) (hvk : resolveKind env S vt = some vkind)
    (hm2 : valueKindMatches vk vkind = true)
    (hc : validateContainer env S t (.map n) = .ok ()) : startMap env S t kk vk n = .ok (kt, vt) := by
  simp [startMap, lookKind, hk, hc, hkk, hm, hvk, hm2]

/-! ### terminals and batches -/

theorem terminal_rel {env : Env} {B C : Schema} {R : TypeId → TypeId → Prop} {b c : TypeId}
    (hn : NodeRel env B C R b c) (v : SV) (h : terminal env B b v = .ok ()) : terminal env C c v = .ok () := by
  unfold terminal at h ⊢
  cases hk : lookKind env B b with
  | error e => simp [hk] at h
  | ok kb =>
    obtain ⟨kc, hkc, hkr⟩ := hn.kind kb (lookKind_ok hk)
    simp only [hk] at h
    rw [lookKind_of hkc]
    by_cases hm : valueKindMatches (v.kind scrypto) kb = true
    · simp only [hm, Bool.not_true, Bool.false_eq_true, if_false] at h
      simp only [vkm_rel hkr _ hm, Bool.not_true, Bool.false_eq_true, if_false]
      cases v <;> simp only [] at h ⊢
      all_goals
        first
          | (unfold validateTerminalValue at h ⊢
             cases hvb : resolveValidation env B b with
             | none => simp [hvb, termCheck] at h
             | some vb =>
               obtain ⟨vc, hvc, hvr⟩ := hn.val vb hvb
               rw [hvb] at h; rw [hvc]; exact hvr.term _ h)
          | (unfold validateCustom at h ⊢
             cases hvb : resolveValidation env B b with
             | none => simp [hvb, customCheck] at h
             | some vb =>
               obtain ⟨vc, hvc, hvr⟩ := hn.val vb hvb
               rw [hvb] at h; rw [hvc]; exact hvr.custom _ h)
    · simp [hm] at h

theorem batch_rel {env : Env} {B C : Schema} {R : TypeId → TypeId → Prop} {b c : TypeId}
    (hn : NodeRel env B C R b c) (es : List SV) (h : validateBatch env B b es = .ok ()) :
    validateBatch env C c es = .ok () := by
  unfold validateBatch at h ⊢
  cases hk : lookKind env B b with
  | error e => simp [hk] at h
  | ok kb =>
    obtain ⟨kc, hkc, hkr⟩ := hn.kind kb (lookKind_ok hk)
    simp only [hk] at h
    rw [lookKind_of hkc]
    by_cases hm : valueKindMatches (.int .u8) kb = true
    · simp only [hm, Bool.not_true, Bool.false_eq_true, if_false] at h
      simp only [vkm_rel hkr _ hm, Bool.not_true, Bool.false_eq_true, if_false]
      cases hvb : resolveValidation env B b with
      | none => simp [hvb, batchCheck] at h
      | some vb =>
        obtain ⟨vc, hvc, hvr⟩ := hn.val vb hvb
        rw [hvb] at h; rw [hvc]; exact hvr.batch _ h
    · simp [hm] at h

/-! ### the induction -/

mutual
theorem rel_sound {env : Env} (he : EnvOK env) {B C : Schema} {R : TypeId → TypeId → Prop}
    (hR : RelOK env B C R) : ∀ (v : SV) (b c : TypeId), R b c → validate env B b v = .ok () → validate env C c v = .ok ()
  | .tuple fs, b, c, hr, h => by
    rcases hR b c hr with hany | hn
    · subst hany; exact validate_any he C _
    · simp only [validate] at h ⊢
      cases hs : startTuple env B b fs.length with
      | error e => simp [hs] at h
      | ok tids =>
        simp only [hs] at h
        obtain ⟨kb, hkb, hcb, hshape⟩ := startTuple_inv hs
        obtain ⟨kc, hkc, hkr⟩ := hn.kind kb hkb
        have hcc := container_rel hn hcb
        by_cases hca : kc = .any
        · subst hca
          rw [startTuple_any hkc hcc]
          exact validateFields_any he C fs
        · rcases hshape with ⟨hka, _⟩ | ⟨fts, hkt, hl, htids⟩
          · subst hka
            rcases hkr with hx | hx
            · exact absurd hx hca
            · cases kc <;> simp only [] at hx <;> exact hx.elim
          · subst hkt; subst htids
            rcases hkr with hx | hx
            · exact absurd hx hca
            · cases kc <;> simp only [] at hx <;> (try exact hx.elim)
              rename_i cf
              rw [startTuple_tuple hkc (by rw [← PairAll.length hx]; exact hl) hcc]
              exact rel_sound_fields he hR fs tids cf hx h
  | .enum d fs, b, c, hr, h => by
    rcases hR b c hr with hany | hn
    · subst hany; exact validate_any he C _
    · simp only [validate] at h ⊢
      cases hs : startEnum env B b d.toNat fs.length with
      | error e => simp [hs] at h
      | ok tids =>
        simp only [hs] at h
        obtain ⟨kb, hkb, hcb, hshape⟩ := startEnum_inv hs
        obtain ⟨kc, hkc, hkr⟩ := hn.kind kb hkb
        have hcc := container_rel hn hcb
        by_cases hca : kc = .any
        · subst hca
          rw [startEnum_any hkc hcc]
          exact validateFields_any he C fs
        · rcases hshape with ⟨hka, _⟩ | ⟨vs, fts, hkt, hlk, hl, htids⟩
          · subst hka
            rcases hkr with hx | hx
            · exact absurd hx hca
            · cases kc <;> simp only [] at hx <;> exact hx.elim
          · subst hkt; subst htids
            rcases hkr with hx | hx
            · exact absurd hx hca
            · cases kc <;> simp only [] at hx <;> (try exact hx.elim)
              rename_i cv
              obtain ⟨cf, hcf, hpa⟩ := hx _ _ hlk
              rw [startEnum_enum hkc hcf (by rw [← PairAll.length hpa]; exact hl) hcc]
              exact rel_sound_fields he hR fs tids cf hpa h
  | .array ek es, b, c, hr, h => by
    rcases hR b c hr with hany | hn
    · subst hany; exact validate_any he C _
    · simp only [validate] at h ⊢
      cases hs : startArray env B b ek es.length with
      | error e => simp [hs] at h
      | ok et =>
        simp only [hs] at h
        obtain ⟨kb, hkb, hcb, hshape⟩ := startArray_inv hs
        obtain ⟨kc, hkc, hkr⟩ := hn.kind kb hkb
        have hcc := container_rel hn hcb
        by_cases hca : kc = .any
        · subst hca
          rw [startArray_any hkc hcc]
          simp only []
          split
          · split
            · rfl
            · exact validateBatch_any he C es
          · exact validateAll_any he C es
        · rcases hshape with ⟨hka, _⟩ | ⟨ekind, hkt, hke, hm⟩
          · subst hka
            rcases hkr with hx | hx
            · exact absurd hx hca
            · cases kc <;> simp only [] at hx <;> exact hx.elim
          · subst hkt
            rcases hkr with hx | hx
            · exact absurd hx hca
            · cases kc <;> simp only [] at hx <;> (try exact hx.elim)
              rename_i ce
              -- the element pair
              rcases hR et ce hx with hce | hne
              · subst hce
                rw [startArray_array hkc (lookKind_ok (lookKind_any he C)) (valueKindMatches_any ek) hcc]
                simp only []
                split
                · split
                  · rfl
                  · exact validateBatch_any he C es
                · exact validateAll_any he C es
              · obtain ⟨kce, hkce, hkre⟩ := hne.kind ekind hke
                rw [startArray_array hkc hkce (vkm_rel hkre ek hm) hcc]
                simp only []
                split
                · rename_i hu8
                  simp only [hu8, if_true] at h
                  split
                  · rfl
                  · rename_i hne'
                    simp only [hne', Bool.false_eq_true, if_false] at h
                    exact batch_rel hne es h
                · rename_i hu8
                  simp only [hu8, if_false] at h
                  exact rel_sound_all he hR es et ce hx h
  | .map kk vk es, b, c, hr, h => by
    rcases hR b c hr with hany | hn
    · subst hany; exact validate_any he C _
    · simp only [validate] at h ⊢
      cases hs : startMap env B b kk vk es.length with
      | error e => simp [hs] at h
      | ok kv =>
        obtain ⟨kt, vt⟩ := kv
        simp only [hs] at h
        obtain ⟨kb, hkb, hcb, hshape⟩ := startMap_inv hs
        obtain ⟨kc, hkc, hkr⟩ := hn.kind kb hkb
        have hcc := container_rel hn hcb
        by_cases hca : kc = .any
        · subst hca
          rw [startMap_any hkc hcc]
          exact validateEntries_any he C es
        · rcases hshape with ⟨hka, _⟩ | ⟨kkind, vkind, hkt, hkk, hm, hvk, hm2⟩
          · subst hka
            rcases hkr with hx | hx
            · exact absurd hx hca
            · cases kc <;> simp only [] at hx <;> exact hx.elim
          · subst hkt
            rcases hkr with hx | hx
            · exact absurd hx hca
            · cases kc <;> simp only [] at hx <;> (try exact hx.elim)
              rename_i ck cvl
              obtain ⟨hrk, hrv⟩ := hx
              have key : ∃ kkc, resolveKind env C ck = some kkc ∧ valueKindMatches kk kkc = true := by
                rcases hR kt ck hrk with e | n
                · subst e; exact ⟨.any, lookKind_ok (lookKind_any he C), valueKindMatches_any kk⟩
                · obtain ⟨x, hx1, hx2⟩ := n.kind kkind hkk; exact ⟨x, hx1, vkm_rel hx2 kk hm⟩
              have val : ∃ vkc, resolveKind env C cvl = some vkc ∧ valueKindMatches vk vkc = true := by
                rcases hR vt cvl hrv with e | n
                · subst e; exact ⟨.any, lookKind_ok (lookKind_any he C), valueKindMatches_any vk⟩
                · obtain ⟨x, hx1, hx2⟩ := n.kind vkind hvk; exact ⟨x, hx1, vkm_rel hx2 vk hm2⟩
              obtain ⟨kkc, hk1, hk2⟩ := key
              obtain ⟨vkc, hv1, hv2⟩ := val
              rw [startMap_map hkc hk1 hk2 hv1 hv2 hcc]
              exact rel_sound_entries he hR es kt vt ck cvl hrk hrv h
  | .bool x, b, c, hr, h => by
    rcases hR b c hr with hany | hn
    · subst hany; exact validate_any he C _
    · simp only [validate] at h ⊢; exact terminal_rel hn _ h
  | .int k x, b, c, hr, h => by
    rcases hR b c hr with hany | hn
    · subst hany; exact validate_any he C _
    · simp only [validate] at h ⊢; exact terminal_rel hn _ h
  | .string x, b, c, hr, h => by
    rcases hR b c hr with hany | hn
    · subst hany; exact validate_any he C _
    · simp only [validate] at h ⊢; exact terminal_rel hn _ h
  | .custom x, b, c, hr, h => by
    rcases hR b c hr with hany | hn
    · subst hany; exact validate_any he C _
    · simp only [validate] at h ⊢; exact terminal_rel hn _ h
theorem rel_sound_fields {env : Env} (he : EnvOK env) {B C : Schema} {R : TypeId → TypeId → Prop}
    (hR : RelOK env B C R) : ∀ (vs : List SV) (bts cts : List TypeId), PairAll R bts cts →
      validateFields env B bts vs = .ok () → validateFields env C cts vs = .ok ()
  | [], _, _, _, _ => by simp [validateFields]
  | _ :: _, [], _, _, h => by simp [validateFields] at h
  | _ :: _, _ :: _, [], hp, _ => hp.elim
  | v :: vs, bt :: bts, ct :: cts, hp, h => by
    simp only [validateFields] at h ⊢
    cases hv : validate env B bt v with
    | error e => simp [hv] at h
    | ok u =>
      simp only [hv] at h
      rw [rel_sound he hR v bt ct hp.1 hv]
      exact rel_sound_fields he hR vs bts cts hp.2 h
theorem rel_sound_all {env : Env} (he : EnvOK env) {B C : Schema} {R : TypeId → TypeId → Prop}
    (hR : RelOK env B C R) : ∀ (vs : List SV) (bt ct : TypeId), R bt ct →
      validateAll env B bt vs = .ok () → validateAll env C ct vs = .ok ()
  | [], _, _, _, _ => by simp [validateAll]
  | v :: vs, bt, ct, hp, h => by
    simp only [validateAll] at h ⊢
    cases hv : validate env B bt v with
    | error e => simp [hv] at h
    | ok u =>
      simp only [hv] at h
      rw [rel_sound he hR v bt ct hp hv]
      exact rel_sound_all he hR vs bt ct hp h
theorem rel_sound_entries {env : Env} (he : EnvOK env) {B C : Schema} {R : TypeId → TypeId → Prop}
    (hR : RelOK env B C R) : ∀ (es : List (SV × SV)) (bk bv ck cv : TypeId), R bk ck → R bv cv →
      validateEntries env B bk bv es = .ok () → validateEntries env C ck cv es = .ok ()
  | [], _, _, _, _, _, _, _ => by simp [validateEntries]
  | (k, v) :: es, bk, bv, ck, cv, hk, hv, h => by
    simp only [validateEntries] at h ⊢
    cases h1 : validate env B bk k with
    | error e => simp [h1] at h
    | ok u =>
      simp only [h1] at h
      cases h2 : validate env B bv v with
      | error e => simp [h2] at h
      | ok u2 =>
        simp only [h2] at h
        rw [rel_sound he hR k bk ck hk h1, rel_sound he hR v bv cv hv h2]
        exact rel_sound_entries he hR es bk bv ck cv hk hv h
end

end Radix.Schema
