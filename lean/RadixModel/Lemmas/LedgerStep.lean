/-
C03 / C04 — every successful operation of the ledger model preserves the accounting invariant
`Good` and the per-resource balance `acct` (= vaults + buckets + fee reserve − minted + burned).
-/
import RadixModel.Lemmas.LedgerInv
namespace Radix.Ledger

/-- the result of one successful step -/
def StepOk (s s' : St) : Prop :=
  Good s' ∧ (∀ r, acct s' r = acct s r) ∧ (∀ r info, s.res r = some info → s'.res r = some info)

theorem ite_delta_sym {r x : Nat} {d : Int} : (if r = x then d else 0) = (if x = r then d else 0) := by
  by_cases e : r = x
  · subst e; simp
  · have : ¬ x = r := fun h => e h.symm
    simp [e, this]

theorem mintCore_good {s s' : St} {r : Nat} {info : ResInfo} {a : Int} {b : Nat} (h : Good s) (hres : s.res r = some info)
    (hnf : info.nf = false) (hs : mintCore s r info a b = .ok s') : StepOk s s' := by
  unfold mintCore at hs
  split at hs; · cases hs
  split at hs; · cases hs
  split at hs; · cases hs
  rename_i s1 hnb
  obtain ⟨hf, rfl⟩ := newBucket_ok hnb
  obtain ⟨e1, e2, e3, e4, e5, e6, e7, e8, e9, _, _, e12⟩ := bumpSupply_fields hs
  have hwf := h.toWF
  refine good_of_delta h (WF_newBucket (b := b) (k := { res := r, nf := false, amt := a, ids := [] }) hwf e2 e5 e3 e6 e1 e7 hf (by show s.res r ≠ none; rw [hres]; simp)) e1
    (fun x => if x = r then a else 0) ?_ ?_ ?_
  · intro r'
    rw [total_congr e2 e3 e4 e5 e6 e7]
    unfold total
    simp only [vsum_eq, bsum_eq, fsum, emit]
    rw [bsumC_new _ hf]
    simp only [contrib, Bkt.amount]
    rw [ite_delta_sym (r := r) (x := r')]
    simp; omega
  · intro r'
    rw [e8, e9]
    simp only [emit, upd]
    by_cases e : r' = r
    · subst e; simp; omega
    · simp [e]
  · intro x inf hx ht
    have := e12 x inf (by simpa [emit] using hx) ht (by intro e; subst e; rw [hres] at hx; injection hx with hx; exact hx.symm)
    simpa [emit] using this

theorem mintNfCore_good {s s' : St} {r : Nat} {info : ResInfo} {ids : List Nat} {b : Nat} (h : Good s) (hres : s.res r = some info)
    (hs : mintNfCore s r info ids b = .ok s') : StepOk s s' := by
  unfold mintNfCore at hs
  split at hs; · cases hs
  split at hs; · cases hs
  rename_i s1 hb
  split at hs; · cases hs
  rename_i d hd
  split at hs; · cases hs
  rename_i s2 hnb
  injection hs with hs
  obtain ⟨hf, rfl⟩ := newBucket_ok hnb
  subst hs
  obtain ⟨e1, e2, e3, e4, e5, e6, e7, e8, e9, _, _, e12⟩ := bumpSupply_fields hb
  have hwf := h.toWF
  refine good_of_delta h (WF_newBucket (b := b) (k := { res := r, nf := true, amt := 0, ids := ids }) hwf e2 (by simp only [emit]; rw [e5]) e3 (by simp only [emit]; rw [e6]) e1 e7 (by rw [← e5]; exact hf) (by show s.res r ≠ none; rw [hres]; simp)) e1
    (fun x => if x = r then (ids.length : Int) else 0) ?_ ?_ ?_
  · intro r'
    unfold total
    simp only [vsum_eq, bsum_eq, fsum, emit]
    rw [bsumC_new _ hf, e2, e3, e4, e5, e6, e7]
    simp only [contrib, Bkt.amount]
    rw [ite_delta_sym (r := r) (x := r')]
    simp; omega
  · intro r'
    simp only [emit, upd]
    rw [e8, e9]
    by_cases e : r' = r
    · subst e; simp; omega
    · simp [e]
  · intro x inf hx ht
    have := e12 x inf hx ht (by intro e; subst e; rw [hres] at hx; injection hx with hx; exact hx.symm)
    simpa [emit] using this

theorem takeCore_good {s s' : St} {v a b r info ev} (h : Good s) (hvr : s.vres v = some r) (hres : s.res r = some info)
    (hs : takeCore s v a b r info ev = .ok s') : StepOk s s' := by
  unfold takeCore at hs
  split at hs; · cases hs
  split at hs; · cases hs
  split at hs; · cases hs
  rename_i s1 hnb
  injection hs with hs
  obtain ⟨hf, rfl⟩ := newBucket_ok hnb
  subst hs
  have hwf : WF s := h.toWF
  refine good_of_delta h (WF_newBucket (b := b) (k := { res := r, nf := false, amt := a, ids := [] }) hwf rfl rfl rfl rfl rfl rfl hf (by show s.res r ≠ none; rw [hres]; simp)) rfl
    (fun _ => 0) ?_ ?_ ?_
  · intro r'
    unfold total
    simp only [vsum_eq, bsum_eq, fsum, emit]
    rw [vsumC_upd _ hwf.vnodup (hwf.vdom v r hvr) hvr, bsumC_new _ hf]
    simp only [contrib, Bkt.amount]
    rw [ite_delta_sym (r := r) (x := r')]
    by_cases e : r' = r
    · simp [e]; omega
    · simp [e]
  · intro r'; simp [emit]
  · intro x inf _ _; simp [emit]

theorem takeNfCore_good {s s' : St} {v ids b r ev} (h : Good s) (hvr : s.vres v = some r) (hres : s.res r ≠ none)
    (hs : takeNfCore s v ids b r ev = .ok s') : StepOk s s' := by
  unfold takeNfCore at hs
  split at hs; · cases hs
  split at hs; · cases hs
  split at hs; · cases hs
  split at hs; · cases hs
  rename_i l hl s1 hnb
  injection hs with hs
  obtain ⟨hf, rfl⟩ := newBucket_ok hnb
  subst hs
  have hwf : WF s := h.toWF
  refine good_of_delta h (WF_newBucket (b := b) (k := { res := r, nf := true, amt := 0, ids := ids }) hwf rfl rfl rfl rfl rfl rfl hf hres) rfl
    (fun _ => 0) ?_ ?_ ?_
  · intro r'
    unfold total
    simp only [vsum_eq, bsum_eq, fsum, emit]
    rw [vsumC_upd _ hwf.vnodup (hwf.vdom v r hvr) hvr, bsumC_new _ hf]
    simp only [contrib, Bkt.amount]
    rw [ite_delta_sym (r := r) (x := r')]
    by_cases e : r' = r
    · simp [e]; omega
    · simp [e]
  · intro r'; simp [emit]
  · intro x inf _ _; simp [emit]

theorem newRes_good {s : St} {r : Nat} {info : ResInfo} (h : Good s) (hnone : s.res r = none) :
    StepOk s { s with res := upd s.res r (some info), supply := upd s.supply r 0 } := by
  have hwf := h.toWF
  have hwf' : WF { s with res := upd s.res r (some info), supply := upd s.supply r 0 } := WF_newRes hwf rfl rfl rfl rfl rfl rfl
  have hT : ∀ x, total { s with res := upd s.res r (some info), supply := upd s.supply r 0 } x = total s x :=
    fun x => total_congr rfl rfl rfl rfl rfl rfl x
  refine ⟨⟨hwf', ?_⟩, ?_, ?_⟩
  · intro x inf hx ht
    have h1 := hT x
    unfold total at h1
    rw [h1]
    by_cases e : x = r
    · subst e
      have := total_of_noRes hwf hnone
      unfold total at this
      simp [upd]; omega
    · simp only [upd, e] at hx ⊢
      exact h.acc x inf hx ht
  · intro x; rw [acct_eq, acct_eq, hT]
  · intro x inf hx
    by_cases e : x = r
    · subst e; rw [hnone] at hx; cases hx
    · simp [upd, e, hx]

theorem StepOk.trans {s s1 s2 : St} (h1 : StepOk s s1) (h2 : StepOk s1 s2) : StepOk s s2 :=
  ⟨h2.1, fun r => (h2.2.1 r).trans (h1.2.1 r), fun r info hr => h2.2.2 r info (h1.2.2 r info hr)⟩

theorem step_good {s s' : St} {op : Op} (h : Good s) (hs : step s op = .ok s') : StepOk s s' := by
  have hwf := h.toWF
  cases op with
  | newRes r info =>
    simp only [step] at hs
    split at hs; · cases hs
    rename_i hnone
    injection hs with hs; subst hs
    exact newRes_good h hnone
  | create r info a b =>
    simp only [step] at hs
    split at hs; · cases hs
    rename_i hnone
    split at hs; · cases hs
    rename_i hnf
    have h1 := newRes_good (info := info) h hnone
    exact h1.trans (mintCore_good h1.1 (by simp [upd]) (by simpa using hnf) hs)
  | createNf r info ids b =>
    simp only [step] at hs
    split at hs; · cases hs
    rename_i hnone
    split at hs; · cases hs
    have h1 := newRes_good (info := info) h hnone
    exact h1.trans (mintNfCore_good h1.1 (by simp [upd]) hs)
  | newVault v r =>
    simp only [step] at hs
    split at hs; · cases hs
    rename_i inf hr
    split at hs; · cases hs
    rename_i hc
    injection hs with hs; subst hs
    have hf : v ∉ s.vaults := by simpa using hc
    refine good_of_delta h (WF_newVault hwf rfl rfl rfl rfl rfl rfl hf (by rw [hr]; simp)) rfl (fun _ => 0) ?_ ?_ ?_
    · intro r'
      unfold total
      simp only [vsum_eq, bsum_eq, fsum]
      rw [vsumC_new hf]; omega
    · intro r'; simp
    · intro x inf _ _; simp
  | mint r a b =>
    simp only [step] at hs
    split at hs; · cases hs
    rename_i info hr
    split at hs; · cases hs
    rename_i hnf
    split at hs; · cases hs
    exact mintCore_good h hr (by simpa using hnf) hs
  | mintNf r ids b =>
    simp only [step] at hs
    split at hs; · cases hs
    rename_i info hr
    split at hs; · cases hs
    split at hs; · cases hs
    exact mintNfCore_good h hr hs
  | burn b =>
    simp only [step] at hs
    split at hs; · cases hs
    rename_i k hk
    split at hs; · cases hs
    rename_i info hr
    split at hs; · cases hs
    have hb : b ∈ s.live := hwf.bdom b k hk
    split at hs
    · -- non-fungible
      split at hs; · cases hs
      rename_i s3 hbs
      injection hs with hs; subst hs
      obtain ⟨e1, e2, e3, e4, e5, e6, e7, e8, e9, _, _, e12⟩ := bumpSupply_fields hbs
      refine good_of_delta h (WF_setBkt (b := b) (o := none) hwf e2 e5 e3 e6 e1 e7 hb (by intro k' hk'; cases hk')) e1
        (fun x => if x = k.res then -k.amount else 0) ?_ ?_ ?_
      · intro r'
        unfold total
        simp only [vsum_eq, bsum_eq, fsum, emit]
        rw [e2, e3, e4, e5, e6, e7]
        simp only [dropBucket]
        rw [bsumC_set _ hwf.lnodup hb, hk]
        simp only [contrib]
        rw [ite_delta_sym (r := k.res) (x := r')]
        by_cases e : r' = k.res
        · simp [e]; omega
        · simp [e]
      · intro r'
        simp only [emit]
        rw [e8, e9]
        simp only [dropBucket, upd]
        by_cases e : r' = k.res
        · subst e; simp; omega
        · simp [e]
      · intro x inf hx ht
        have := e12 x inf hx ht (by intro e; subst e; rw [hr] at hx; injection hx with hx; exact hx.symm)
        simpa [emit, dropBucket] using this
    · obtain ⟨e1, e2, e3, e4, e5, e6, e7, e8, e9, _, _, e12⟩ := bumpSupply_fields hs
      refine good_of_delta h (WF_setBkt (b := b) (o := none) hwf e2 e5 e3 e6 e1 e7 hb (by intro k' hk'; cases hk')) e1
        (fun x => if x = k.res then -k.amount else 0) ?_ ?_ ?_
      · intro r'
        rw [total_congr e2 e3 e4 e5 e6 e7]
        unfold total
        simp only [vsum_eq, bsum_eq, fsum, emit, dropBucket]
        rw [bsumC_set _ hwf.lnodup hb, hk]
        simp only [contrib]
        rw [ite_delta_sym (r := k.res) (x := r')]
        by_cases e : r' = k.res
        · simp [e]; omega
        · simp [e]
      · intro r'
        rw [e8, e9]
        simp only [emit, dropBucket, upd]
        by_cases e : r' = k.res
        · subst e; simp; omega
        · simp [e]
      · intro x inf hx ht
        have := e12 x inf (by simpa [emit, dropBucket] using hx) ht (by intro e; subst e; rw [hr] at hx; injection hx with hx; exact hx.symm)
        simpa [emit, dropBucket] using this
  | take v a b =>
    simp only [step] at hs
    split at hs; · cases hs
    rename_i r hvr
    split at hs; · cases hs
    rename_i info hr
    split at hs; · cases hs
    exact takeCore_good h hvr hr hs
  | recall v a b =>
    simp only [step] at hs
    split at hs; · cases hs
    rename_i r hvr
    split at hs; · cases hs
    rename_i info hr
    split at hs; · cases hs
    split at hs; · cases hs
    exact takeCore_good h hvr hr hs
  | takeNf v ids b =>
    simp only [step] at hs
    split at hs; · cases hs
    rename_i r hvr
    split at hs; · cases hs
    rename_i info hr
    split at hs; · cases hs
    exact takeNfCore_good h hvr (by rw [hr]; simp) hs
  | recallNf v ids b =>
    simp only [step] at hs
    split at hs; · cases hs
    rename_i r hvr
    split at hs; · cases hs
    rename_i info hr
    split at hs; · cases hs
    split at hs; · cases hs
    exact takeNfCore_good h hvr (by rw [hr]; simp) hs
  | put v b =>
    simp only [step] at hs
    split at hs; · cases hs
    rename_i r hvr
    split at hs; · cases hs
    rename_i k hk
    split at hs; · cases hs
    rename_i hkr
    have hkr : k.res = r := by simpa using hkr
    have hb : b ∈ s.live := hwf.bdom b k hk
    have hvm := hwf.vdom v r hvr
    split at hs
    · rename_i hnf
      split at hs; · cases hs
      injection hs with hs; subst hs
      by_cases hem : k.ids.isEmpty = true
      · rw [if_pos hem]
        refine good_of_delta h (WF_setBkt (b := b) (o := none) hwf rfl rfl rfl rfl rfl rfl hb (by intro k' hk'; cases hk')) rfl (fun _ => 0) ?_ ?_ ?_
        · intro r'
          unfold total
          simp only [vsum_eq, bsum_eq, fsum, emit, dropBucket]
          rw [bsumC_set _ hwf.lnodup hb, hk]
          have : k.ids = [] := by simpa using hem
          simp [contrib, Bkt.amount, hnf, this]
        · intro r'; simp [emit, dropBucket]
        · intro x inf _ _; simp [emit, dropBucket]
      · rw [if_neg hem]
        refine good_of_delta h (WF_setBkt (b := b) (o := none) hwf rfl rfl rfl rfl rfl rfl hb (by intro k' hk'; cases hk')) rfl (fun _ => 0) ?_ ?_ ?_
        · intro r'
          unfold total
          simp only [vsum_eq, bsum_eq, fsum, emit, dropBucket]
          rw [vsumC_upd _ hwf.vnodup hvm hvr, bsumC_set _ hwf.lnodup hb, hk]
          simp only [contrib, Bkt.amount, hnf, hkr]
          rw [ite_delta_sym (r := r) (x := r')]
          by_cases e : r' = r
          · simp [e]; omega
          · simp [e]
        · intro r'; simp [emit, dropBucket]
        · intro x inf _ _; simp [emit, dropBucket]
    · rename_i hnf
      split at hs; · cases hs
      injection hs with hs; subst hs
      have hnf' : k.nf = false := by simpa using hnf
      by_cases hz : k.amt = 0
      · rw [if_pos hz]
        refine good_of_delta h (WF_setBkt (b := b) (o := none) hwf rfl rfl rfl rfl rfl rfl hb (by intro k' hk'; cases hk')) rfl (fun _ => 0) ?_ ?_ ?_
        · intro r'
          unfold total
          simp only [vsum_eq, bsum_eq, fsum, emit, dropBucket]
          rw [bsumC_set _ hwf.lnodup hb, hk]
          simp [contrib, Bkt.amount, hnf', hz]
        · intro r'; simp [emit, dropBucket]
        · intro x inf _ _; simp [emit, dropBucket]
      · rw [if_neg hz]
        refine good_of_delta h (WF_setBkt (b := b) (o := none) hwf rfl rfl rfl rfl rfl rfl hb (by intro k' hk'; cases hk')) rfl (fun _ => 0) ?_ ?_ ?_
        · intro r'
          unfold total
          simp only [vsum_eq, bsum_eq, fsum, emit, dropBucket]
          rw [vsumC_upd _ hwf.vnodup hvm hvr, bsumC_set _ hwf.lnodup hb, hk]
          simp only [contrib, Bkt.amount, hnf', hkr]
          rw [ite_delta_sym (r := r) (x := r')]
          by_cases e : r' = r
          · simp [e]; omega
          · simp [e]
        · intro r'; simp [emit, dropBucket]
        · intro x inf _ _; simp [emit, dropBucket]
  | bput b1 b2 =>
    simp only [step] at hs
    split at hs; · cases hs
    rename_i hne
    split at hs
    · rename_i k1 k2 hk1 hk2
      have hb1 : b1 ∈ s.live := hwf.bdom b1 k1 hk1
      have hb2 : b2 ∈ s.live := hwf.bdom b2 k2 hk2
      split at hs; · cases hs
      rename_i hres
      have hres : k1.res = k2.res := by simpa using hres
      split at hs; · cases hs
      rename_i hkind
      have hkind : k1.nf = k2.nf := by simpa using hkind
      split at hs; · cases hs
      split at hs; · cases hs
      rename_i hlen
      have hmid : WF (dropBucket s b2) := WF_setBkt (b := b2) (o := none) hwf rfl rfl rfl rfl rfl rfl hb2 (by intro k' hk'; cases hk')
      have hmid1 : upd s.bkt b2 none b1 = some k1 := by rw [upd_other _ _ hne]; exact hk1
      split at hs
      · rename_i hnf
        injection hs with hs; subst hs
        have hnf2 : k2.nf = true := by rw [← hkind]; exact hnf
        have hlen' : ((insertIds k1.ids k2.ids).length : Int) = k1.ids.length + k2.ids.length := by
          have : ¬ (k1.nf = true ∧ (insertIds k1.ids k2.ids).length ≠ k1.ids.length + k2.ids.length) := by simpa using hlen
          have h2 : (insertIds k1.ids k2.ids).length = k1.ids.length + k2.ids.length := by
            by_cases e : (insertIds k1.ids k2.ids).length = k1.ids.length + k2.ids.length
            · exact e
            · exact absurd ⟨hnf, e⟩ this
          omega
        refine good_of_delta h (WF_setBkt (b := b1) (o := some { k1 with ids := insertIds k1.ids k2.ids }) hmid rfl rfl rfl rfl rfl rfl hb1
          (by intro k' hk'; injection hk' with hk'; subst hk'; exact hwf.bktDom b1 k1 hk1)) rfl (fun _ => 0) ?_ ?_ ?_
        · intro r'
          unfold total
          simp only [vsum_eq, bsum_eq, fsum, dropBucket]
          rw [bsumC_set _ hwf.lnodup hb1, bsumC_set _ hwf.lnodup hb2, hmid1, hk2]
          simp only [contrib, Bkt.amount, hnf, hnf2, hres, if_true]
          by_cases e : k2.res = r'
          · simp [e]; omega
          · simp [e]
        · intro r'; simp [dropBucket]
        · intro x inf _ _; simp [dropBucket]
      · rename_i hnf
        injection hs with hs; subst hs
        have hnf' : k1.nf = false := by simpa using hnf
        have hnf2 : k2.nf = false := by rw [← hkind]; exact hnf'
        refine good_of_delta h (WF_setBkt (b := b1) (o := some { k1 with amt := k1.amt + k2.amt }) hmid rfl rfl rfl rfl rfl rfl hb1
          (by intro k' hk'; injection hk' with hk'; subst hk'; exact hwf.bktDom b1 k1 hk1)) rfl (fun _ => 0) ?_ ?_ ?_
        · intro r'
          unfold total
          simp only [vsum_eq, bsum_eq, fsum, dropBucket]
          rw [bsumC_set _ hwf.lnodup hb1, bsumC_set _ hwf.lnodup hb2, hmid1, hk2]
          simp only [contrib, Bkt.amount, hnf', hnf2, hres]
          by_cases e : k2.res = r'
          · simp [e]; omega
          · simp [e]
        · intro r'; simp [dropBucket]
        · intro x inf _ _; simp [dropBucket]
    · cases hs
  | btake b a b' =>
    simp only [step] at hs
    split at hs; · cases hs
    rename_i k hk
    split at hs; · cases hs
    rename_i info hr
    split at hs; · cases hs
    rename_i hnf
    have hnf' : k.nf = false := by simpa using hnf
    split at hs; · cases hs
    split at hs; · cases hs
    have hb : b ∈ s.live := hwf.bdom b k hk
    obtain ⟨hf, rfl⟩ := newBucket_ok hs
    have hmid : WF { s with bkt := upd s.bkt b (some { k with amt := k.amt - a }) } :=
      WF_setBkt (b := b) (o := some { k with amt := k.amt - a }) hwf rfl rfl rfl rfl rfl rfl hb
        (by intro k' hk'; injection hk' with hk'; subst hk'; exact hwf.bktDom b k hk)
    refine good_of_delta h (WF_newBucket (b := b') (k := { res := k.res, nf := false, amt := a, ids := [] }) hmid rfl rfl rfl rfl rfl rfl hf (hwf.bktDom b k hk)) rfl (fun _ => 0) ?_ ?_ ?_
    · intro r'
      unfold total
      simp only [vsum_eq, bsum_eq, fsum]
      rw [bsumC_new _ hf, bsumC_set _ hwf.lnodup hb, hk]
      simp only [contrib, Bkt.amount, hnf']
      by_cases e : k.res = r'
      · simp [e]; omega
      · simp [e]
    · intro r'; simp
    · intro x inf _ _; simp
  | btakeNf b ids b' =>
    simp only [step] at hs
    split at hs; · cases hs
    rename_i k hk
    split at hs; · cases hs
    rename_i hnf
    have hnf' : k.nf = true := by simpa using hnf
    split at hs; · cases hs
    split at hs; · cases hs
    rename_i l hl
    have hb : b ∈ s.live := hwf.bdom b k hk
    obtain ⟨hf, rfl⟩ := newBucket_ok hs
    have hlen := takeIds_length hl
    have hmid : WF { s with bkt := upd s.bkt b (some { k with ids := l }) } :=
      WF_setBkt (b := b) (o := some { k with ids := l }) hwf rfl rfl rfl rfl rfl rfl hb
        (by intro k' hk'; injection hk' with hk'; subst hk'; exact hwf.bktDom b k hk)
    refine good_of_delta h (WF_newBucket (b := b') (k := { res := k.res, nf := true, amt := 0, ids := ids }) hmid rfl rfl rfl rfl rfl rfl hf (hwf.bktDom b k hk)) rfl (fun _ => 0) ?_ ?_ ?_
    · intro r'
      unfold total
      simp only [vsum_eq, bsum_eq, fsum]
      rw [bsumC_new _ hf, bsumC_set _ hwf.lnodup hb, hk]
      simp only [contrib, Bkt.amount, hnf']
      by_cases e : k.res = r'
      · simp [e]; omega
      · simp [e]
    · intro r'; simp
    · intro x inf _ _; simp
  | dropEmpty b =>
    simp only [step] at hs
    split at hs; · cases hs
    rename_i k hk
    split at hs
    · rename_i hz
      injection hs with hs; subst hs
      have hb : b ∈ s.live := hwf.bdom b k hk
      refine good_of_delta h (WF_setBkt (b := b) (o := none) hwf rfl rfl rfl rfl rfl rfl hb (by intro k' hk'; cases hk')) rfl (fun _ => 0) ?_ ?_ ?_
      · intro r'
        unfold total
        simp only [vsum_eq, bsum_eq, fsum, dropBucket]
        rw [bsumC_set _ hwf.lnodup hb, hk]
        simp [contrib, hz]
      · intro r'; simp [dropBucket]
      · intro x inf _ _; simp [dropBucket]
    · cases hs
  | emptyBucket r b =>
    simp only [step] at hs
    split at hs; · cases hs
    rename_i info hr
    obtain ⟨hf, rfl⟩ := newBucket_ok hs
    refine good_of_delta h (WF_newBucket (b := b) (k := { res := r, nf := info.nf, amt := 0, ids := [] }) hwf rfl rfl rfl rfl rfl rfl hf (by show s.res r ≠ none; rw [hr]; simp)) rfl (fun _ => 0) ?_ ?_ ?_
    · intro r'
      unfold total
      simp only [vsum_eq, bsum_eq, fsum]
      rw [bsumC_new _ hf]
      simp [contrib, Bkt.amount]
    · intro r'; simp
    · intro x inf _ _; simp
  | lockFee v a c =>
    simp only [step] at hs
    split at hs; · cases hs
    rename_i r hvr
    split at hs; · cases hs
    rename_i hx
    have hx : r = XRD := by simpa using hx
    subst hx
    split at hs; · cases hs
    split at hs; · cases hs
    split at hs; · cases hs
    injection hs with hs; subst hs
    refine good_of_delta h (WF_lock (l := { vault := v, amt := a, contingent := c }) hwf rfl rfl rfl rfl rfl rfl hvr) rfl (fun _ => 0) ?_ ?_ ?_
    · intro r'
      unfold total
      simp only [vsum_eq, bsum_eq, fsum, emit]
      rw [vsumC_upd _ hwf.vnodup (hwf.vdom v XRD hvr) hvr, sumLocks_append]
      simp only [sumLocks]
      by_cases e : r' = XRD
      · simp [e]; omega
      · simp [e]
    · intro r'; simp [emit]
    · intro x inf _ _; simp [emit]

end Radix.Ledger
