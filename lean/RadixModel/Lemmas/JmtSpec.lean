/-
C17 — the from-scratch sparse-Merkle commitment `smt` (specification) and the key lemma
`mh_eq_smt`: the 4-level `merkle_hash` of an internal node equals the commitment of the union of the
children's entries, provided every child is classified correctly (absent / single leaf / ≥ 2 leaves).
-/
import RadixModel.Model.Jmt
namespace Radix.Jmt

/-- An entry of the commitment: the (remaining) key bits and the leaf hash `H(key ++ value_hash)`. -/
abbrev Ent := List Bool × Hash

/-- keep the entries whose next key bit is `b`, dropping that bit. -/
def strip (b : Bool) : Ent → Option Ent
  | (b' :: r, h) => if b' = b then some (r, h) else none
  | ([], _) => none

def esize (L : List Ent) : Nat := (L.map fun e => e.1.length + 1).sum

theorem esize_strip_le (b : Bool) (L : List Ent) :
    esize (L.filterMap (strip b)) + (L.filterMap (strip b)).length ≤ esize L := by
  induction L with
  | nil => simp [esize]
  | cons e L ih =>
    obtain ⟨bs, h⟩ := e
    cases bs with
    | nil => simp only [List.filterMap_cons, strip]; simp only [esize, List.map_cons, List.sum_cons] at *; omega
    | cons b' r =>
      by_cases hb : b' = b
      · simp only [List.filterMap_cons, strip, hb, if_true]
        simp only [esize, List.map_cons, List.sum_cons, List.length_cons] at *; omega
      · simp only [List.filterMap_cons, strip, hb, if_false]
        simp only [esize, List.map_cons, List.sum_cons, List.length_cons] at *; omega

theorem esize_strip_lt (b : Bool) (e1 e2 : Ent) (rest : List Ent) :
    esize ((e1 :: e2 :: rest).filterMap (strip b)) < esize (e1 :: e2 :: rest) := by
  have h := esize_strip_le b (e1 :: e2 :: rest)
  by_cases h0 : ((e1 :: e2 :: rest).filterMap (strip b)).length = 0
  · have : (e1 :: e2 :: rest).filterMap (strip b) = [] := List.eq_nil_of_length_eq_zero h0
    rw [this]; simp [esize]; omega
  · omega

/-- The sparse-Merkle commitment of a finite set of entries, computed from scratch:
empty ↦ 0³², singleton ↦ its leaf hash, otherwise `H(commit(bit 0 half) ++ commit(bit 1 half))`. -/
def smt (H : List UInt8 → Hash) : List Ent → Hash
  | [] => zeroHash
  | [e] => e.2
  | e1 :: e2 :: rest =>
    H (smt H ((e1 :: e2 :: rest).filterMap (strip false)) ++ smt H ((e1 :: e2 :: rest).filterMap (strip true)))
termination_by L => esize L
decreasing_by
  · exact esize_strip_lt false e1 e2 rest
  · exact esize_strip_lt true e1 e2 rest

theorem smt_nil (H) : smt H [] = zeroHash := by rw [smt]
theorem smt_single (H) (e : Ent) : smt H [e] = e.2 := by rw [smt]
theorem smt_split (H) (L : List Ent) (h : 2 ≤ L.length) :
    smt H L = H (smt H (L.filterMap (strip false)) ++ smt H (L.filterMap (strip true))) := by
  match L, h with
  | e1 :: e2 :: rest, _ => rw [smt]

/-- the `l`-bit big-endian representation of `j`. -/
def lbits : Nat → Nat → List Bool
  | 0, _ => []
  | l + 1, j => (j / 2 ^ l % 2 == 1) :: lbits l (j % 2 ^ l)

theorem lbits_length (l j : Nat) : (lbits l j).length = l := by
  induction l generalizing j with
  | zero => rfl
  | succ l ih => simp [lbits, ih]

def pre (bs : List Bool) (e : Ent) : Ent := (bs ++ e.1, e.2)

/-- entries of the children `s … s + 2^l - 1`, each prefixed with the `l` bits of its offset. -/
def cat (E : Nat → List Ent) (l s : Nat) : List Ent :=
  (List.range (2 ^ l)).flatMap fun j => (E (s + j)).map (pre (lbits l j))

theorem range_pow_succ (l : Nat) :
    List.range (2 ^ (l + 1)) = List.range (2 ^ l) ++ (List.range (2 ^ l)).map (2 ^ l + ·) := by
  have : 2 ^ (l + 1) = 2 ^ l + 2 ^ l := by rw [Nat.pow_succ]; omega
  rw [this, List.range_add]

theorem lbits_succ_lo (l j : Nat) (h : j < 2 ^ l) : lbits (l + 1) j = false :: lbits l j := by
  simp only [lbits]
  rw [Nat.div_eq_of_lt h, Nat.mod_eq_of_lt h]; rfl

theorem lbits_succ_hi (l j : Nat) (h : j < 2 ^ l) : lbits (l + 1) (2 ^ l + j) = true :: lbits l j := by
  simp only [lbits]
  have h1 : (2 ^ l + j) / 2 ^ l = 1 := by
    rw [Nat.add_div_left _ (Nat.two_pow_pos l), Nat.div_eq_of_lt h]
  have h2 : (2 ^ l + j) % 2 ^ l = j := by
    rw [Nat.add_mod_left, Nat.mod_eq_of_lt h]
  rw [h1, h2]; rfl

theorem flatMap_congr' {α β : Type} (l : List α) (f g : α → List β) (h : ∀ a ∈ l, f a = g a) :
    l.flatMap f = l.flatMap g := by
  induction l with
  | nil => rfl
  | cons a l ih =>
    simp only [List.flatMap_cons]
    rw [h a (by simp), ih (fun x hx => h x (by simp [hx]))]

theorem pre_nil : pre [] = id := by
  funext e; cases e; rfl

theorem cat_succ (E : Nat → List Ent) (l s : Nat) :
    cat E (l + 1) s = (cat E l s).map (pre [false]) ++ (cat E l (s + 2 ^ l)).map (pre [true]) := by
  unfold cat
  rw [range_pow_succ, List.flatMap_append]
  congr 1
  · rw [List.map_flatMap]
    apply flatMap_congr'
    intro j hj
    rw [List.mem_range] at hj
    rw [lbits_succ_lo l j hj, List.map_map]
    apply List.map_congr_left
    intro e _; simp [pre]
  · rw [List.flatMap_map, List.map_flatMap]
    apply flatMap_congr'
    intro j hj
    rw [List.mem_range] at hj
    rw [lbits_succ_hi l j hj, List.map_map, Nat.add_assoc]
    apply List.map_congr_left
    intro e _; simp [pre]

theorem strip_pre_same (b : Bool) (L : List Ent) : (L.map (pre [b])).filterMap (strip b) = L := by
  induction L with
  | nil => rfl
  | cons e L ih => simp [pre, strip, List.filterMap_cons, ih]

theorem strip_pre_other (b b' : Bool) (hb : b' ≠ b) (L : List Ent) :
    (L.map (pre [b'])).filterMap (strip b) = [] := by
  induction L with
  | nil => rfl
  | cons e L ih => simp [pre, strip, List.filterMap_cons, ih, hb]

theorem strip_cat_false (E : Nat → List Ent) (l s : Nat) :
    (cat E (l + 1) s).filterMap (strip false) = cat E l s := by
  rw [cat_succ, List.filterMap_append, strip_pre_same, strip_pre_other false true (by decide)]; simp

theorem strip_cat_true (E : Nat → List Ent) (l s : Nat) :
    (cat E (l + 1) s).filterMap (strip true) = cat E l (s + 2 ^ l) := by
  rw [cat_succ, List.filterMap_append, strip_pre_same, strip_pre_other true false (by decide)]; simp

/-- the existing children among `s … s + 2^l - 1` (what the bitmap range selects). -/
def present (ex : Nat → Bool) (l s : Nat) : List Nat := ((List.range (2 ^ l)).map (s + ·)).filter ex

theorem present_succ (ex : Nat → Bool) (l s : Nat) :
    present ex (l + 1) s = present ex l s ++ present ex l (s + 2 ^ l) := by
  unfold present
  rw [range_pow_succ, List.map_append, List.filter_append, List.map_map]
  congr 2
  apply List.map_congr_left
  intro j _; simp [Nat.add_assoc]

theorem present_zero (ex : Nat → Bool) (s : Nat) : present ex 0 s = if ex s then [s] else [] := by
  simp [present, List.filter_cons]

theorem cat_zero (E : Nat → List Ent) (s : Nat) : cat E 0 s = E s := by
  simp [cat, lbits, pre_nil]

theorem mem_present_ex (ex : Nat → Bool) (l s i : Nat) (h : i ∈ present ex l s) : ex i = true := by
  unfold present at h; exact (List.mem_filter.mp h).2

section crux
variable (H : List UInt8 → Hash) (E : Nat → List Ent) (ex : Nat → Bool)
variable (hex : ∀ i, ex i = true ↔ E i ≠ [])
include hex

theorem cat_nil_of_present_nil (l s : Nat) (h : present ex l s = []) : cat E l s = [] := by
  induction l generalizing s with
  | zero =>
    rw [present_zero] at h; rw [cat_zero]
    by_cases he : ex s = true
    · simp [he] at h
    · have := (not_congr (hex s)).mp he; simpa using this
  | succ l ih =>
    rw [present_succ] at h
    obtain ⟨h1, h2⟩ := List.append_eq_nil_iff.mp h
    rw [cat_succ, ih s h1, ih _ h2]; rfl

theorem cat_of_present_single (l s i : Nat) (h : present ex l s = [i]) :
    ∃ bs, cat E l s = (E i).map (pre bs) := by
  induction l generalizing s with
  | zero =>
    rw [present_zero] at h; rw [cat_zero]
    by_cases he : ex s = true
    · simp [he] at h; subst h; exact ⟨[], by simp [pre_nil]⟩
    · simp [he] at h
  | succ l ih =>
    rw [present_succ] at h
    rcases List.append_eq_singleton_iff.mp h with ⟨h1, h2⟩ | ⟨h1, h2⟩
    · obtain ⟨bs, hb⟩ := ih _ h2
      refine ⟨true :: bs, ?_⟩
      rw [cat_succ, cat_nil_of_present_nil E ex hex l s h1, hb, List.map_map]
      simp [pre, Function.comp_def]
    · obtain ⟨bs, hb⟩ := ih _ h1
      refine ⟨false :: bs, ?_⟩
      rw [cat_succ, cat_nil_of_present_nil E ex hex l _ h2, hb, List.map_map]
      simp [pre, Function.comp_def]

theorem cat_length_ge_present (l s : Nat) : (present ex l s).length ≤ (cat E l s).length := by
  induction l generalizing s with
  | zero =>
    rw [present_zero, cat_zero]
    by_cases he : ex s = true
    · have := (hex s).mp he
      simp [he]; exact List.length_pos_iff.mpr this
    · simp [he]
  | succ l ih =>
    rw [present_succ, cat_succ]
    simp only [List.length_append, List.length_map]
    have := ih s; have := ih (s + 2 ^ l); omega

end crux

/-- **Key lemma.** `merkle_hash` over a range of children = commitment of their (bit-prefixed) entries. -/
theorem mh_eq_smt (H : List UInt8 → Hash) (E : Nat → List Ent) (hs : Nat → Hash) (ex lf : Nat → Bool)
    (hex : ∀ i, ex i = true ↔ E i ≠ [])
    (hlf : ∀ i, ex i = true → (lf i = true ↔ (E i).length = 1))
    (hhs : ∀ i, hs i = smt H (E i)) (l s : Nat) :
    mh H hs ex lf l s = smt H (cat E l s) := by
  induction l generalizing s with
  | zero =>
    rw [cat_zero]; simp only [mh]
    by_cases he : ex s = true
    · simp [he, hhs]
    · have : E s = [] := by simpa using (not_congr (hex s)).mp he
      simp [he, this, smt_nil]
  | succ l ih =>
    have hsplit : 2 ≤ (cat E (l + 1) s).length →
        smt H (cat E (l + 1) s) = H (mh H hs ex lf l s ++ mh H hs ex lf l (s + 2 ^ l)) := by
      intro h2
      rw [smt_split H _ h2, strip_cat_false, strip_cat_true, ih s, ih (s + 2 ^ l)]
    have hpres : ((List.range (2 ^ (l + 1))).map (s + ·)).filter ex = present ex (l + 1) s := rfl
    simp only [mh]
    rw [hpres]
    match hp : present ex (l + 1) s with
    | [] =>
      simp only []
      rw [cat_nil_of_present_nil E ex hex _ _ hp, smt_nil]
    | [i] =>
      simp only []
      obtain ⟨bs, hb⟩ := cat_of_present_single E ex hex _ _ i hp
      have hexi : ex i = true := mem_present_ex ex _ _ i (by rw [hp]; simp)
      by_cases hl : lf i = true
      · have h1 := (hlf i hexi).mp hl
        match hE : E i, h1 with
        | [e], _ =>
          simp only [hl, if_true]
          rw [hb, hE, hhs i, hE]; simp [smt_single, pre]
      · simp only [hl]
        have hne : E i ≠ [] := (hex i).mp hexi
        have h1 : (E i).length ≠ 1 := fun h => hl ((hlf i hexi).mpr h)
        have h2 : 2 ≤ (E i).length := by
          have := List.length_pos_iff.mpr hne; omega
        rw [hsplit (by rw [hb, List.length_map]; exact h2)]
        simp
    | i :: j :: rest =>
      simp only []
      have := cat_length_ge_present E ex hex (l + 1) s
      rw [hp] at this
      rw [hsplit (by simp only [List.length_cons] at this; omega)]

end Radix.Jmt
