/-
Helper lemmas for Props/C01.lean.
-/
import RadixModel.Model.Determinism
import RadixModel.Model.Track
namespace Radix.C01
open Radix.Generated

/-! ### ids -/

/-- specification of an allocation sequence: the i-th id is `mkId H h (c + i) e_i` -/
def specIds (H : List UInt8 → List UInt8) (h : List UInt8) : Nat → List UInt8 → Except IdErr (List (List UInt8))
  | _, [] => .ok []
  | c, e :: es =>
    match mkId H h c e with
    | .error x => .error x
    | .ok id =>
      match specIds H h (c + 1) es with
      | .error x => .error x
      | .ok ids => .ok (id :: ids)

theorem allocAll_eq_spec (H : List UInt8 → List UInt8) (h : List UInt8) (es : List UInt8) :
    ∀ (c : Nat), c + es.length ≤ C01.ID_COUNTER_MAX →
    IdAllocator.allocAll H { transactionHash := h, nextId := c } es =
      (specIds H h c es).map (fun ids => (ids, { transactionHash := h, nextId := c + es.length })) := by
  induction es with
  | nil => intro c _; simp [IdAllocator.allocAll, specIds, Except.map]
  | cons e es ih =>
    intro c hc
    have hne : c ≠ C01.ID_COUNTER_MAX := by simp only [List.length_cons] at hc; omega
    have hc' : (c + 1) + es.length ≤ C01.ID_COUNTER_MAX := by simp only [List.length_cons] at hc; omega
    simp only [IdAllocator.allocAll, IdAllocator.nextNodeId, IdAllocator.next, specIds, hne, if_false]
    cases hm : mkId H h c e with
    | error x => simp [Except.map]
    | ok id =>
      simp only []
      rw [ih (c + 1) hc']
      cases hsp : specIds H h (c + 1) es with
      | error x => simp [Except.map]
      | ok ids => simp [Except.map, List.length_cons]; omega

theorem specIds_get (H : List UInt8 → List UInt8) (h : List UInt8) (es : List UInt8) :
    ∀ (c : Nat) (ids : List (List UInt8)), specIds H h c es = .ok ids →
    ∀ (i : Nat) (hi : i < es.length), ∃ hi' : i < ids.length, mkId H h (c + i) es[i] = .ok ids[i] := by
  induction es with
  | nil => intro c ids _ i hi; simp at hi
  | cons e es ih =>
    intro c ids hs i hi
    simp only [specIds] at hs
    cases hm : mkId H h c e with
    | error x => simp [hm] at hs
    | ok id =>
      simp only [hm] at hs
      cases hsp : specIds H h (c + 1) es with
      | error x => simp [hsp] at hs
      | ok ids' =>
        simp only [hsp] at hs
        injection hs with hs
        subst hs
        cases i with
        | zero => exact ⟨by simp, by simpa using hm⟩
        | succ j =>
          have hj : j < es.length := by simpa using hi
          obtain ⟨hj', hjm⟩ := ih (c + 1) ids' hsp j hj
          refine ⟨by simpa using hj', ?_⟩
          have : c + (j + 1) = c + 1 + j := by omega
          simpa [this] using hjm

theorem u8_ofNat_inj (a b : Nat) (ha : a < 256) (hb : b < 256) (h : UInt8.ofNat a = UInt8.ofNat b) : a = b := by
  have := congrArg UInt8.toNat h
  simp [UInt8.toNat_ofNat'] at this
  omega

theorem le32_inj (c1 c2 : Nat) (h1 : c1 < 4294967296) (h2 : c2 < 4294967296)
    (h : le32 c1 = le32 c2) : c1 = c2 := by
  unfold le32 at h
  simp only [List.cons.injEq, and_true] at h
  obtain ⟨a, b, c, d⟩ := h
  have a' := u8_ofNat_inj _ _ (by omega) (by omega) a
  have b' := u8_ofNat_inj _ _ (by omega) (by omega) b
  have c' := u8_ofNat_inj _ _ (by omega) (by omega) c
  have d' := u8_ofNat_inj _ _ (by omega) (by omega) d
  omega

/-! ### dispatch -/

theorem dispatchTo_invisible {σ τ ε : Type} (π : σ → τ)
    (hook : Module → σ → Except ε σ)
    (hDiag : ∀ m s, m.isDiagnostic = true → ∃ s', hook m s = .ok s' ∧ π s' = π s)
    (hOther : ∀ m s1 s2, m.isDiagnostic = false → π s1 = π s2 →
        (hook m s1).map π = (hook m s2).map π)
    (en1 en2 : EnabledModules)
    (hen : ∀ m, m.isDiagnostic = false → en1.has m = en2.has m) :
    ∀ (ms : List Module) (s1 s2 : σ), π s1 = π s2 →
      (dispatchTo en1 hook ms s1).map π = (dispatchTo en2 hook ms s2).map π := by
  intro ms
  induction ms with
  | nil => intro s1 s2 hs; simp [dispatchTo, Except.map, hs]
  | cons m ms ih =>
    intro s1 s2 hs
    cases hd : m.isDiagnostic with
    | true =>
      -- a diagnostic module: whether enabled or not on either side, π is unchanged
      have step : ∀ (en : EnabledModules) (s : σ),
          ∃ s', dispatchTo en hook (m :: ms) s = dispatchTo en hook ms s' ∧ π s' = π s := by
        intro en s
        simp only [dispatchTo]
        cases hh : en.has m with
        | false => exact ⟨s, by simp, rfl⟩
        | true =>
          obtain ⟨s', hs', hp⟩ := hDiag m s hd
          exact ⟨s', by simp [hs'], hp⟩
      obtain ⟨t1, e1, p1⟩ := step en1 s1
      obtain ⟨t2, e2, p2⟩ := step en2 s2
      rw [e1, e2]
      exact ih t1 t2 (by rw [p1, p2, hs])
    | false =>
      have hh := hen m hd
      simp only [dispatchTo]
      rw [hh]
      cases hb : en2.has m with
      | false => simpa using ih s1 s2 hs
      | true =>
        simp only [if_true]
        have ho := hOther m s1 s2 hd hs
        cases h1 : hook m s1 with
        | error x =>
          cases h2 : hook m s2 with
          | error y => simp [h1, h2, Except.map] at ho ⊢; exact ho
          | ok y => simp [h1, h2, Except.map] at ho
        | ok x =>
          cases h2 : hook m s2 with
          | error y => simp [h1, h2, Except.map] at ho
          | ok y =>
            simp only [h1, h2, Except.map] at ho
            injection ho with ho
            exact ih x y ho

theorem runEvents_invisible {σ τ ε Ev : Type} (π : σ → τ)
    (hooks : Ev → Module → σ → Except ε σ) (act : Ev → σ → Except ε σ)
    (hDiag : ∀ ev m s, m.isDiagnostic = true → ∃ s', hooks ev m s = .ok s' ∧ π s' = π s)
    (hOther : ∀ ev m s1 s2, m.isDiagnostic = false → π s1 = π s2 →
        (hooks ev m s1).map π = (hooks ev m s2).map π)
    (hAct : ∀ ev s1 s2, π s1 = π s2 → (act ev s1).map π = (act ev s2).map π)
    (en1 en2 : EnabledModules)
    (hen : ∀ m, m.isDiagnostic = false → en1.has m = en2.has m) :
    ∀ (evs : List Ev) (s1 s2 : σ), π s1 = π s2 →
      (runEvents en1 hooks act evs s1).map π = (runEvents en2 hooks act evs s2).map π := by
  intro evs
  induction evs with
  | nil => intro s1 s2 hs; simp [runEvents, Except.map, hs]
  | cons ev evs ih =>
    intro s1 s2 hs
    have hd := dispatchTo_invisible π (hooks ev) (hDiag ev) (hOther ev) en1 en2 hen dispatchOrder s1 s2 hs
    simp only [runEvents, dispatch]
    cases h1 : dispatchTo en1 (hooks ev) dispatchOrder s1 with
    | error x =>
      cases h2 : dispatchTo en2 (hooks ev) dispatchOrder s2 with
      | error y => simp [h1, h2, Except.map] at hd ⊢; exact hd
      | ok y => simp [h1, h2, Except.map] at hd
    | ok x =>
      cases h2 : dispatchTo en2 (hooks ev) dispatchOrder s2 with
      | error y => simp [h1, h2, Except.map] at hd
      | ok y =>
        simp only [h1, h2, Except.map] at hd
        injection hd with hd
        have ha := hAct ev x y hd
        simp only []
        cases a1 : act ev x with
        | error u =>
          cases a2 : act ev y with
          | error v => simp [a1, a2, Except.map] at ha ⊢; exact ha
          | ok v => simp [a1, a2, Except.map] at ha
        | ok u =>
          cases a2 : act ev y with
          | error v => simp [a1, a2, Except.map] at ha
          | ok v =>
            simp only [a1, a2, Except.map] at ha
            injection ha with ha
            exact ih u v ha

/-! ### emission order of `Track` (C12's model) -/

open Radix.Track Radix.KV Radix.SubstateDb

theorem iset_insert_cons_ne {K : Type} [DecidableEq K] (k' k : K) (l : List K) (h : k ≠ k') :
    ISet.insert (k' :: l) k = k' :: ISet.insert l k := by
  unfold ISet.insert
  by_cases hm : k ∈ l
  · simp [hm]
  · simp [hm, h]

theorem iset_insert_idem {K : Type} [DecidableEq K] (l : List K) (k : K) :
    ISet.insert (ISet.insert l k) k = ISet.insert l k := by
  unfold ISet.insert
  by_cases hm : k ∈ l <;> simp [hm]

theorem keys_alter {K V : Type} [DecidableEq K] (m : List (K × V)) (k : K) (d : V) (f : V → V) :
    (IMap.alter m k d f).map (·.1) = ISet.insert (m.map (·.1)) k := by
  induction m with
  | nil => simp [IMap.alter, ISet.insert]
  | cons kv t ih =>
    obtain ⟨k', v'⟩ := kv
    simp only [IMap.alter]
    by_cases h : k = k'
    · subst h; simp [ISet.insert]
    · simp only [h, if_false, List.map_cons, ih]
      rw [iset_insert_cons_ne k' k _ h]

theorem keys_set {K V : Type} [DecidableEq K] (m : List (K × V)) (k : K) (v : V) :
    (IMap.set m k v).map (·.1) = ISet.insert (m.map (·.1)) k := by
  induction m with
  | nil => simp [IMap.set, ISet.insert]
  | cons kv t ih =>
    obtain ⟨k', v'⟩ := kv
    simp only [IMap.set]
    by_cases h : k = k'
    · subst h; simp [ISet.insert]
    · simp only [h, if_false, List.map_cons, ih]
      rw [iset_insert_cons_ne k' k _ h]

/-- `b` extends `a`: same keys in the same places, possibly more at the end -/
def Ext (a b : Nodes) : Prop := ∃ s, b.map (·.1) = a.map (·.1) ++ s

theorem Ext.refl (a : Nodes) : Ext a a := ⟨[], by simp⟩
theorem Ext.trans {a b c : Nodes} (h1 : Ext a b) (h2 : Ext b c) : Ext a c := by
  obtain ⟨s1, e1⟩ := h1
  obtain ⟨s2, e2⟩ := h2
  exact ⟨s1 ++ s2, by rw [e2, e1, List.append_assoc]⟩

theorem iset_insert_ext {K : Type} [DecidableEq K] (l : List K) (k : K) : ∃ s, ISet.insert l k = l ++ s := by
  unfold ISet.insert
  by_cases hm : k ∈ l
  · exact ⟨[], by simp [hm]⟩
  · exact ⟨[k], by simp [hm]⟩

theorem ext_alterPart (nodes : Nodes) (n p : Nat) (f : TPart → TPart) : Ext nodes (alterPart nodes n p f) := by
  unfold alterPart Ext
  rw [keys_alter]
  exact iset_insert_ext _ _

theorem ext_putIn (nodes : Nodes) (n p k : Nat) (tv : TV) : Ext nodes (putIn nodes n p k tv) :=
  ext_alterPart nodes n p _

theorem ext_ensurePart (nodes : Nodes) (n p : Nat) : Ext nodes (ensurePart nodes n p) :=
  ext_alterPart nodes n p _

theorem ext_set (nodes : Nodes) (n : Nat) (nd : TNode) : Ext nodes (IMap.set nodes n nd) := by
  unfold Ext
  rw [keys_set]
  exact iset_insert_ext _ _

theorem ext_getTracked (t : Track) (n p k : Nat) : Ext t.nodes (getTracked t n p k).1.nodes := by
  unfold getTracked
  split
  · exact Ext.refl _
  · exact ext_putIn _ _ _ _ _

theorem ext_drain (t : Track) (n p limit : Nat) : Ext t.nodes (drainSubstates t n p limit).1.nodes := by
  unfold drainSubstates
  dsimp only
  repeat' (first
    | exact Ext.refl _
    | exact ext_alterPart _ _ _ _
    | exact Ext.trans (ext_alterPart _ _ _ _) (ext_alterPart _ _ _ _)
    | split)

theorem step_nodes_append_only (t : Track) (op : Track.Op) (hop : op ≠ .revert) :
    ∃ suffix, (Track.step t op).1.nodes.map (·.1) = t.nodes.map (·.1) ++ suffix := by
  show Ext t.nodes (Track.step t op).1.nodes
  cases op with
  | get n p k => exact ext_getTracked t n p k
  | set n p k v =>
    simp only [Track.step, setSubstate]
    split <;> exact ext_putIn _ _ _ _ _
  | remove n p k =>
    simp only [Track.step, removeSubstate]
    exact Ext.trans (ext_getTracked t n p k) (ext_putIn _ _ _ _ _)
  | create n subs => exact ext_set _ _ _
  | scanKeys n p l =>
    simp only [Track.step, scanKeys]
    split
    · exact Ext.refl _
    · exact ext_ensurePart _ _ _
  | drain n p l => exact ext_drain t n p l
  | scanSorted n p l => exact ext_ensurePart _ _ _
  | forceWrite n p k =>
    simp only [Track.step]
    cases h : forceWrite t n p k with
    | none => exact Ext.refl _
    | some t' =>
      unfold forceWrite at h
      split at h
      · simp at h
      · simp at h; subst h; exact Ext.refl _
  | deletePartition n p => exact Ext.refl _
  | revert => exact absurd rfl hop

/-- a tracked node contributes to the state updates iff one of its partitions has a non-empty update list -/
def nodeHasUpdates (nn : Nat × TNode) : Bool :=
  nn.2.parts.any (fun pp => !(partUpdates pp.2).isEmpty)

theorem keys_suAlter (su : DbUpdates) (n p : Nat) (f : PUpd → PUpd) :
    (suAlter su n p f).map (·.1) = ISet.insert (su.map (·.1)) n := by
  unfold suAlter
  exact keys_alter _ _ _ _

theorem keys_suOfDeleted (dl : List (Nat × Nat)) : ∀ su : DbUpdates,
    (suOfDeleted su dl).map (·.1) = (dl.map (·.1)).foldl ISet.insert (su.map (·.1)) := by
  induction dl with
  | nil => intro su; simp [suOfDeleted]
  | cons np rest ih =>
    intro su
    obtain ⟨n, p⟩ := np
    simp only [suOfDeleted, List.map_cons, List.foldl_cons]
    rw [ih, keys_suAlter]

theorem keys_suOfParts (n : Nat) (parts : List (Nat × TPart)) : ∀ su : DbUpdates,
    (suOfParts su n parts).map (·.1) =
      bif parts.any (fun pp => !(partUpdates pp.2).isEmpty) then ISet.insert (su.map (·.1)) n
      else su.map (·.1) := by
  induction parts with
  | nil => intro su; simp [suOfParts]
  | cons pp rest ih =>
    intro su
    obtain ⟨p, part⟩ := pp
    simp only [suOfParts]
    by_cases he : (partUpdates part).isEmpty = true
    · rw [if_pos he, ih]
      simp [he]
    · rw [if_neg he, ih, keys_suAlter]
      have he' : (partUpdates part).isEmpty = false := by simpa using he
      simp [he', iset_insert_idem]

theorem keys_suOfNodes (nodes : Nodes) : ∀ su : DbUpdates,
    (suOfNodes su nodes).map (·.1) =
      ((nodes.filter nodeHasUpdates).map (·.1)).foldl ISet.insert (su.map (·.1)) := by
  induction nodes with
  | nil => intro su; simp [suOfNodes]
  | cons nn rest ih =>
    intro su
    obtain ⟨n, nd⟩ := nn
    simp only [suOfNodes]
    rw [ih, keys_suOfParts]
    by_cases hu : nodeHasUpdates (n, nd) = true
    · have hu' : nd.parts.any (fun pp => !(partUpdates pp.2).isEmpty) = true := hu
      simp [hu, hu']
    · have hu' : nd.parts.any (fun pp => !(partUpdates pp.2).isEmpty) = false := by
        simpa [nodeHasUpdates] using hu
      have hu2 : nodeHasUpdates (n, nd) = false := by simpa using hu
      simp [hu2, hu']

theorem toStateUpdates_keys (t : Track) :
    (Track.toStateUpdates t).2.map (·.1) =
      ((t.deleted.map (·.1)) ++ ((t.nodes.filter nodeHasUpdates).map (·.1))).foldl ISet.insert [] := by
  unfold Track.toStateUpdates
  simp only
  rw [keys_suOfNodes, keys_suOfDeleted, List.foldl_append]
  simp

end Radix.C01
