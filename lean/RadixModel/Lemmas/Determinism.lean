/-
Helper lemmas for Props/C01.lean.
-/
import RadixModel.Model.Determinism
import RadixModel.Model.Track
namespace Radix.C01
open Radix.Generated

/-! ### ids -/

/-- specification of an allocation sequence: the i-th id is `mkId H h (c + i) e_i` -/
def specIds (H : List UInt8 → List UInt8) (h : List UInt8) : Nat → List UInt8 → Except IdErr (List (List UInt8))
  | _, [] => .ok []
  | c, e :: es =>
    match mkId H h c e with
    | .error x => .error x
    | .ok id =>
      match specIds H h (c + 1) es with
      | .error x => .error x
      | .ok ids => .ok (id :: ids)

theorem allocAll_eq_spec (H : List UInt8 → List UInt8) (h : List UInt8) (es : List UInt8) :
    ∀ (c : Nat), c + es.length ≤ C01.ID_COUNTER_MAX →
    IdAllocator.allocAll H { transactionHash := h, nextId := c } es =
      (specIds H h c es).map (fun ids => (ids, { transactionHash := h, nextId := c + es.length })) := by
  induction es with
  | nil => intro c _; simp [IdAllocator.allocAll, specIds, Except.map]
  | cons e es ih =>
    intro c hc
    have hne : c ≠ C01.ID_COUNTER_MAX := by simp only [List.length_cons] at hc; omega
    have hc' : (c + 1) + es.length ≤ C01.ID_COUNTER_MAX := by simp only [List.length_cons] at hc; omega
    simp only [IdAllocator.allocAll, IdAllocator.nextNodeId, IdAllocator.next, specIds, hne, if_false]
    cases hm : mkId H h c e with
    | error x => simp [Except.map]
    | ok id =>
      simp only []
      rw [ih (c + 1) hc']
      cases hsp : specIds H h (c + 1) es with
      | error x => simp [Except.map]
      | ok ids => simp [Except.map, List.length_cons]; omega

theorem specIds_get (H : List UInt8 → List UInt8) (h : List UInt8) (es : List UInt8) :
    ∀ (c : Nat) (ids : List (List UInt8)), specIds H h c es = .ok ids →
    ∀ (i : Nat) (hi : i < es.length), ∃ hi' : i < ids.length, mkId H h (c + i) es[i] = .ok ids[i] := by
  induction es with
  | nil => intro c ids _ i hi; simp at hi
  | cons e es ih =>
    intro c ids hs i hi
    simp only [specIds] at hs
    cases hm : mkId H h c e with
    | error x => simp [hm] at hs
    | ok id =>
      simp only [hm] at hs
      cases hsp : specIds H h (c + 1) es with
      | error x => simp [hsp] at hs
      | ok ids' =>
        simp only [hsp] at hs
        injection hs with hs
        subst hs
        cases i with
        | zero => exact ⟨by simp, by simpa using hm⟩
        | succ j =>
          have hj : j < es.length := by simpa using hi
          obtain ⟨hj', hjm⟩ := ih (c + 1) ids' hsp j hj
          refine ⟨by simpa using hj', ?_⟩
          have : c + (j + 1) = c + 1 + j := by omega
          simpa [this] using hjm

theorem u8_ofNat_inj (a b : Nat) (ha : a < 256) (hb : b < 256) (h : UInt8.ofNat a = UInt8.ofNat b) : a = b := by
  have := congrArg UInt8.toNat h
  simp [UInt8.toNat_ofNat'] at this
  omega

theorem le32_inj (c1 c2 : Nat) (h1 : c1 < 4294967296) (h2 : c2 < 4294967296)
    (h : le32 c1 = le32 c2) : c1 = c2 := by
  unfold le32 at h
  simp only [List.cons.injEq, and_true] at h
  obtain ⟨a, b, c, d⟩ := h
  have a' := u8_ofNat_inj _ _ (by omega) (by omega) a
  have b' := u8_ofNat_inj _ _ (by omega) (by omega) b
  have c' := u8_ofNat_inj _ _ (by omega) (by omega) c
  have d' := u8_ofNat_inj _ _ (by omega) (by omega) d
  omega

/-! ### dispatch -/

theorem dispatchTo_invisible {σ τ ε : Type} (π : σ → τ)
    (hook : Module → σ → Except ε σ)
    (hDiag : ∀ m s, m.isDiagnostic = true → ∃ s', hook m s = .ok s' ∧ π s' = π s)
    (hOther : ∀ m s1 s2, m.isDiagnostic = false → π s1 = π s2 →
        (hook m s1).map π = (hook m s2).map π)
    (en1 en2 : EnabledModules)
    (hen : ∀ m, m.isDiagnostic = false → en1.has m = en2.has m) :
    ∀ (ms : List Module) (s1 s2 : σ), π s1 = π s2 →
      (dispatchTo en1 hook ms s1).map π = (dispatchTo en2 hook ms s2).map π := by
  intro ms
  induction ms with
  | nil => intro s1 s2 hs; simp [dispatchTo, Except.map, hs]
  | cons m ms ih =>
    intro s1 s2 hs
    cases hd : m.isDiagnostic with
    | true =>
      -- a diagnostic module: whether enabled or not on either side, π is unchanged
      have step : ∀ (en : EnabledModules) (s : σ),
          ∃ s', dispatchTo en hook (m :: ms) s = dispatchTo en hook ms s' ∧ π s' = π s := by
        intro en s
        simp only [dispatchTo]
        cases hh : en.has m with
        | false => exact ⟨s, by simp, rfl⟩
        | true =>
          obtain ⟨s', hs', hp⟩ := hDiag m s hd
          exact ⟨s', by simp [hs'], hp⟩
      obtain ⟨t1, e1, p1⟩ := step en1 s1
      obtain ⟨t2, e2, p2⟩ := step en2 s2
      rw [e1, e2]
      exact ih t1 t2 (by rw [p1, p2, hs])
    | false =>
      have hh := hen m hd
      simp only [dispatchTo]
      rw [hh]
      cases hb : en2.has m with
      | false => simpa using ih s1 s2 hs
      | true =>
        simp only [if_true]
        have ho := hOther m s1 s2 hd hs
        cases h1 : hook m s1 with
        | error x =>
          cases h2 : hook m s2 with
          | error y => simp [h1, h2, Except.map] at ho ⊢; exact ho
          | ok y => simp [h1, h2, Except.map] at ho
        | ok x =>
          cases h2 : hook m s2 with
          | error y => simp [h1, h2, Except.map] at ho
          | ok y =>
            simp only [h1, h2, Except.map] at ho
            injection ho with ho
            exact ih x y ho

theorem runEvents_invisible {σ τ ε Ev : Type} (π : σ → τ)
    (hooks : Ev → Module → σ → Except ε σ) (act : Ev → σ → Except ε σ)
    (hDiag : ∀ ev m s, m.isDiagnostic = true → ∃ s', hooks ev m s = .ok s' ∧ π s' = π s)
    (hOther : ∀ ev m s1 s2, m.isDiagnostic = false → π s1 = π s2 →
        (hooks ev m s1).map π = (hooks ev m s2).map π)
    (hAct : ∀ ev s1 s2, π s1 = π s2 → (act ev s1).map π = (act ev s2).map π)
    (en1 en2 : EnabledModules)
    (hen : ∀ m, m.isDiagnostic = false → en1.has m = en2.has m) :
    ∀ (evs : List Ev) (s1 s2 : σ), π s1 = π s2 →
      (runEvents en1 hooks act evs s1).map π = (runEvents en2 hooks act evs s2).map π := by
  intro evs
  induction evs with
  | nil => intro s1 s2 hs; simp [runEvents, Except.map, hs]
  | cons ev evs ih =>
    intro s1 s2 hs
    have hd := dispatchTo_invisible π (hooks ev) (hDiag ev) (hOther ev) en1 en2 hen dispatchOrder s1 s2 hs
    simp only [runEvents, dispatch]
    cases h1 : dispatchTo en1 (hooks ev) dispatchOrder s1 with
    | error x =>
      cases h2 : dispatchTo en2 (hooks ev) dispatchOrder s2 with
      | error y => simp [h1, h2, Except.map] at hd ⊢; exact hd
      | ok y => simp [h1, h2, Except.map] at hd
    | ok x =>
      cases h2 : dispatchTo en2 (hooks ev) dispatchOrder s2 with
      | error y => simp [h1, h2, Except.map] at hd
      | ok y =>
        simp only [h1, h2, Except.map] at hd
        injection hd with hd
        have ha := hAct ev x y hd
        simp only []
        cases a1 : act ev x with
        | error u =>
          cases a2 : act ev y with
          | error v => simp [a1, a2, Except.map] at ha ⊢; exact ha
          | ok v => simp [a1, a2, Except.map] at ha
        | ok u =>
          cases a2 : act ev y with
          | error v => simp [a1, a2, Except.map] at ha
          | ok v =>
            simp only [a1, a2, Except.map] at ha
            injection ha with ha
            exact ih u v ha

end Radix.C01
