/-
C03 / C04 — the accounting invariant of the ledger model and its preservation by every operation
of the resource package (helper lemmas; the property theorems are in Props/C03.lean, Props/C04.lean).
-/
import RadixModel.Lemmas.Ledger
namespace Radix.Ledger

def contrib (o : Option Bkt) (r : Nat) : Int :=
  match o with
  | some k => if k.res = r then k.amount else 0
  | none => 0

def vsumC (vaults : List Nat) (vres : Nat → Option Nat) (bal : Nat → Int) (r : Nat) : Int :=
  sumOn vaults (fun v => if vres v = some r then bal v else 0)

def bsumC (live : List Nat) (bkt : Nat → Option Bkt) (r : Nat) : Int :=
  sumOn live (fun b => contrib (bkt b) r)

theorem vsum_eq (s : St) (r : Nat) : vsum s r = vsumC s.vaults s.vres s.bal r := rfl

theorem bsum_eq (s : St) (r : Nat) : bsum s r = bsumC s.live s.bkt r := by
  unfold bsum bsumC
  apply sumOn_congr
  intro b _
  unfold bktOf contrib; cases s.bkt b <;> rfl

theorem vsumC_upd {vaults : List Nat} {vres : Nat → Option Nat} {bal : Nat → Int} {v r0 : Nat} (x : Int)
    (hn : vaults.Nodup) (hm : v ∈ vaults) (hvr : vres v = some r0) (r : Nat) :
    vsumC vaults vres (upd bal v x) r = vsumC vaults vres bal r + (if r = r0 then x - bal v else 0) := by
  unfold vsumC
  rw [sumOn_update hn hm (g := fun v => if vres v = some r then bal v else 0)
        (g' := fun w => if vres w = some r then upd bal v x w else 0)]
  · simp only [hvr, upd_same]
    by_cases e : r = r0
    · subst e; simp
    · have : ¬ (some r0 = some r) := by intro h; injection h with h; exact e h.symm
      simp [e, this]
  · intro y hy; simp only [upd_other _ _ hy]

theorem vsumC_new {vaults : List Nat} {vres : Nat → Option Nat} {bal : Nat → Int} {v r0 : Nat}
    (hf : v ∉ vaults) (r : Nat) :
    vsumC (vaults ++ [v]) (upd vres v (some r0)) (upd bal v 0) r = vsumC vaults vres bal r := by
  unfold vsumC
  rw [sumOn_append, sumOn_single]
  simp only [upd_same]
  have : sumOn vaults (fun w => if upd vres v (some r0) w = some r then upd bal v 0 w else 0)
       = sumOn vaults (fun w => if vres w = some r then bal w else 0) := by
    apply sumOn_congr
    intro y hy
    have hne : y ≠ v := fun e => hf (e ▸ hy)
    simp only [upd_other _ _ hne]
  rw [this]; simp

theorem bsumC_new {live : List Nat} {bkt : Nat → Option Bkt} {b : Nat} (k : Bkt) (hf : b ∉ live) (r : Nat) :
    bsumC (live ++ [b]) (upd bkt b (some k)) r = bsumC live bkt r + contrib (some k) r := by
  unfold bsumC
  rw [sumOn_append, sumOn_single, upd_same]
  congr 1
  apply sumOn_congr
  intro y hy
  have hne : y ≠ b := fun e => hf (e ▸ hy)
  simp only [upd_other _ _ hne]

theorem bsumC_set {live : List Nat} {bkt : Nat → Option Bkt} {b : Nat} (o : Option Bkt) (hn : live.Nodup) (hm : b ∈ live) (r : Nat) :
    bsumC live (upd bkt b o) r = bsumC live bkt r + (contrib o r - contrib (bkt b) r) := by
  unfold bsumC
  rw [sumOn_update hn hm (g := fun b => contrib (bkt b) r) (g' := fun c => contrib (upd bkt b o c) r)]
  · simp only [upd_same]
  · intro y hy; simp only [upd_other _ _ hy]

structure WF (s : St) : Prop where
  vnodup : s.vaults.Nodup
  lnodup : s.live.Nodup
  vdom : ∀ v r, s.vres v = some r → v ∈ s.vaults
  bdom : ∀ b k, s.bkt b = some k → b ∈ s.live
  vresDom : ∀ v r, s.vres v = some r → s.res r ≠ none
  bktDom : ∀ b k, s.bkt b = some k → s.res k.res ≠ none
  lockXrd : ∀ l ∈ s.locks, s.vres l.vault = some XRD

def acct (s : St) (r : Nat) : Int := vsum s r + bsum s r + fsum s r - s.minted r + s.burned r

structure Good (s : St) : Prop extends WF s where
  acc : ∀ r info, s.res r = some info → info.tracks = true → s.supply r = vsum s r + bsum s r + fsum s r

theorem WF_congr {s s' : St} (h : WF s) (hv : s'.vaults = s.vaults) (hl : s'.live = s.live) (hr : s'.vres = s.vres)
    (hk : s'.bkt = s.bkt) (hres : s'.res = s.res) (hlk : s'.locks = s.locks) : WF s' := by
  constructor
  · rw [hv]; exact h.vnodup
  · rw [hl]; exact h.lnodup
  · rw [hv, hr]; exact h.vdom
  · rw [hl, hk]; exact h.bdom
  · rw [hr, hres]; exact h.vresDom
  · rw [hk, hres]; exact h.bktDom
  · rw [hr, hlk]; exact h.lockXrd

theorem WF_newBucket {s s' : St} (h : WF s) {b : Nat} {k : Bkt} (hv : s'.vaults = s.vaults) (hl : s'.live = s.live ++ [b])
    (hr : s'.vres = s.vres) (hk : s'.bkt = upd s.bkt b (some k)) (hres : s'.res = s.res) (hlk : s'.locks = s.locks)
    (hf : b ∉ s.live) (hkr : s.res k.res ≠ none) : WF s' := by
  constructor
  · rw [hv]; exact h.vnodup
  · rw [hl]; exact List.nodup_append.mpr ⟨h.lnodup, by simp, by intro a ha c hc; simp at hc; subst hc; exact fun e => hf (e ▸ ha)⟩
  · rw [hv, hr]; exact h.vdom
  · rw [hl, hk]; intro c k' hc
    by_cases e : c = b
    · subst e; simp
    · rw [upd_other _ _ e] at hc; simp [h.bdom c k' hc]
  · rw [hr, hres]; exact h.vresDom
  · rw [hk, hres]; intro c k' hc
    by_cases e : c = b
    · subst e; rw [upd_same] at hc; injection hc with hc; subst hc; exact hkr
    · rw [upd_other _ _ e] at hc; exact h.bktDom c k' hc
  · rw [hr, hlk]; exact h.lockXrd

theorem newBucket_ok {s s' : St} {b : Nat} {k : Bkt} (h : newBucket s b k = .ok s') :
    b ∉ s.live ∧ s' = { s with live := s.live ++ [b], bkt := upd s.bkt b (some k) } := by
  unfold newBucket at h
  split at h
  · cases h
  · rename_i hc
    injection h with h
    exact ⟨by simpa using hc, h.symm⟩

/-- everything of resource `r` that exists: in vaults, in buckets, locked in the fee reserve -/
def total (s : St) (r : Nat) : Int := vsum s r + bsum s r + fsum s r

theorem acct_eq (s : St) (r : Nat) : acct s r = total s r - s.minted r + s.burned r := rfl

theorem WF_setBkt {s s' : St} (h : WF s) {b : Nat} {o : Option Bkt} (hv : s'.vaults = s.vaults) (hl : s'.live = s.live)
    (hr : s'.vres = s.vres) (hk : s'.bkt = upd s.bkt b o) (hres : s'.res = s.res) (hlk : s'.locks = s.locks)
    (hb : b ∈ s.live) (ho : ∀ k, o = some k → s.res k.res ≠ none) : WF s' := by
  constructor
  · rw [hv]; exact h.vnodup
  · rw [hl]; exact h.lnodup
  · rw [hv, hr]; exact h.vdom
  · rw [hl, hk]; intro c k' hc
    by_cases e : c = b
    · subst e; exact hb
    · rw [upd_other _ _ e] at hc; exact h.bdom c k' hc
  · rw [hr, hres]; exact h.vresDom
  · rw [hk, hres]; intro c k' hc
    by_cases e : c = b
    · subst e; rw [upd_same] at hc; exact ho k' hc
    · rw [upd_other _ _ e] at hc; exact h.bktDom c k' hc
  · rw [hr, hlk]; exact h.lockXrd

theorem WF_newVault {s s' : St} (h : WF s) {v r : Nat} (hv : s'.vaults = s.vaults ++ [v]) (hl : s'.live = s.live)
    (hr : s'.vres = upd s.vres v (some r)) (hk : s'.bkt = s.bkt) (hres : s'.res = s.res) (hlk : s'.locks = s.locks)
    (hf : v ∉ s.vaults) (hrr : s.res r ≠ none) : WF s' := by
  constructor
  · rw [hv]; exact List.nodup_append.mpr ⟨h.vnodup, by simp, by intro a ha c hc; simp at hc; subst hc; exact fun e => hf (e ▸ ha)⟩
  · rw [hl]; exact h.lnodup
  · rw [hv, hr]; intro c r' hc
    by_cases e : c = v
    · subst e; simp
    · rw [upd_other _ _ e] at hc; simp [h.vdom c r' hc]
  · rw [hl, hk]; exact h.bdom
  · rw [hr, hres]; intro c r' hc
    by_cases e : c = v
    · subst e; rw [upd_same] at hc; injection hc with hc; subst hc; exact hrr
    · rw [upd_other _ _ e] at hc; exact h.vresDom c r' hc
  · rw [hk, hres]; exact h.bktDom
  · rw [hr, hlk]; intro l hl'
    have := h.lockXrd l hl'
    have hne : l.vault ≠ v := fun e => hf (e ▸ h.vdom _ _ this)
    rw [upd_other _ _ hne]; exact this

theorem WF_newRes {s s' : St} (h : WF s) {r : Nat} {info : ResInfo} (hv : s'.vaults = s.vaults) (hl : s'.live = s.live)
    (hr : s'.vres = s.vres) (hk : s'.bkt = s.bkt) (hres : s'.res = upd s.res r (some info)) (hlk : s'.locks = s.locks) : WF s' := by
  have key : ∀ x, s.res x ≠ none → upd s.res r (some info) x ≠ none := by
    intro x hx; by_cases e : x = r
    · subst e; simp [upd]
    · rw [upd_other _ _ e]; exact hx
  constructor
  · rw [hv]; exact h.vnodup
  · rw [hl]; exact h.lnodup
  · rw [hv, hr]; exact h.vdom
  · rw [hl, hk]; exact h.bdom
  · rw [hr, hres]; intro v x hv'; exact key x (h.vresDom v x hv')
  · rw [hk, hres]; intro b k hb; exact key k.res (h.bktDom b k hb)
  · rw [hr, hlk]; exact h.lockXrd

theorem WF_lock {s s' : St} (h : WF s) {l : Lock} (hv : s'.vaults = s.vaults) (hl : s'.live = s.live)
    (hr : s'.vres = s.vres) (hk : s'.bkt = s.bkt) (hres : s'.res = s.res) (hlk : s'.locks = s.locks ++ [l])
    (hx : s.vres l.vault = some XRD) : WF s' := by
  constructor
  · rw [hv]; exact h.vnodup
  · rw [hl]; exact h.lnodup
  · rw [hv, hr]; exact h.vdom
  · rw [hl, hk]; exact h.bdom
  · rw [hr, hres]; exact h.vresDom
  · rw [hk, hres]; exact h.bktDom
  · rw [hr, hlk]; intro l' hl'
    rcases List.mem_append.mp hl' with e | e
    · exact h.lockXrd l' e
    · simp at e; subst e; exact hx

/-- nothing of a resource that does not exist -/
theorem total_of_noRes {s : St} (h : WF s) {r : Nat} (hr : s.res r = none) : total s r = 0 := by
  have hv : vsum s r = 0 := by
    unfold vsum
    apply sumOn_zero
    intro v _
    unfold vaultOf
    split
    · rename_i e; exact absurd hr (h.vresDom v r e)
    · rfl
  have hb : bsum s r = 0 := by
    unfold bsum
    apply sumOn_zero
    intro b _
    unfold bktOf
    split
    · rename_i k e
      split
      · rename_i e2; subst e2; exact absurd hr (h.bktDom b k e)
      · rfl
    · rfl
  have hf : fsum s r = 0 := by
    unfold fsum
    split
    · rename_i e; subst e
      cases hl : s.locks with
      | nil => rfl
      | cons l t =>
        have := h.lockXrd l (by rw [hl]; simp)
        exact absurd hr (h.vresDom _ _ this)
    · rfl
  unfold total; omega

/-- The generic closing step: the new state is well-formed, resources are unchanged, and the
totals, the ghost counters and the recorded supplies all moved by the same `δ`. -/
theorem good_of_delta {s s' : St} (h : Good s) (hwf : WF s') (hres : s'.res = s.res) (δ : Nat → Int)
    (hT : ∀ r, total s' r = total s r + δ r)
    (hg : ∀ r, s'.minted r - s'.burned r = s.minted r - s.burned r + δ r)
    (hsup : ∀ r info, s.res r = some info → info.tracks = true → s'.supply r = s.supply r + δ r) :
    Good s' ∧ (∀ r, acct s' r = acct s r) ∧ (∀ r info, s.res r = some info → s'.res r = some info) := by
  refine ⟨⟨hwf, ?_⟩, ?_, ?_⟩
  · intro r info hr ht
    rw [hres] at hr
    have := h.acc r info hr ht
    have h1 := hT r
    have h2 := hsup r info hr ht
    unfold total at h1
    omega
  · intro r
    have h1 := hT r
    have h2 := hg r
    rw [acct_eq, acct_eq]; omega
  · intro r info hr; rw [hres]; exact hr

theorem bumpSupply_ok {s s' : St} {r : Nat} {info : ResInfo} {d : Int} (h : bumpSupply s r info d = .ok s') :
    (info.tracks = true ∧ s' = { s with supply := upd s.supply r (s.supply r + d) }) ∨ (info.tracks = false ∧ s' = s) := by
  unfold bumpSupply at h
  split at h
  · rename_i ht
    split at h
    · injection h with h; exact .inl ⟨ht, h.symm⟩
    · cases h
  · rename_i ht
    injection h with h
    exact .inr ⟨by simpa using ht, h.symm⟩

theorem bumpSupply_fields {s s' : St} {r : Nat} {info : ResInfo} {d : Int} (h : bumpSupply s r info d = .ok s') :
    s'.res = s.res ∧ s'.vaults = s.vaults ∧ s'.vres = s.vres ∧ s'.bal = s.bal ∧ s'.live = s.live ∧ s'.bkt = s.bkt ∧
    s'.locks = s.locks ∧ s'.minted = s.minted ∧ s'.burned = s.burned ∧ s'.data = s.data ∧ s'.idx = s.idx ∧
    (∀ x inf, s.res x = some inf → inf.tracks = true → (x = r → inf = info) → s'.supply x = s.supply x + (if x = r then d else 0)) := by
  rcases bumpSupply_ok h with ⟨ht, rfl⟩ | ⟨ht, rfl⟩
  · refine ⟨rfl, rfl, rfl, rfl, rfl, rfl, rfl, rfl, rfl, rfl, rfl, ?_⟩
    intro x inf _ _ _
    by_cases e : x = r
    · subst e; simp [upd]
    · simp [upd, e]
  · refine ⟨rfl, rfl, rfl, rfl, rfl, rfl, rfl, rfl, rfl, rfl, rfl, ?_⟩
    intro x inf _ hti hxe
    by_cases e : x = r
    · have := hxe e; subst this; rw [ht] at hti; cases hti
    · simp [e]

theorem total_congr {s s' : St} (hv : s'.vaults = s.vaults) (hr : s'.vres = s.vres) (hb : s'.bal = s.bal)
    (hl : s'.live = s.live) (hk : s'.bkt = s.bkt) (hlk : s'.locks = s.locks) (r : Nat) : total s' r = total s r := by
  unfold total vsum vaultOf bsum bktOf fsum
  rw [hv, hr, hb, hl, hk, hlk]

end Radix.Ledger
