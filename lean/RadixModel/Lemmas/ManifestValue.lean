/-
Lemmas for C30: hex / UTF-16 escape arithmetic and the string loop of the lexer on escaped text.
-/
import RadixModel.Model.ManifestValue
import RadixModel.Lemmas.ManifestSnippet
namespace Radix.Manifest

theorem kind_names_agree : MKind.all.map MKind.name = Radix.Generated.C30.kindNames := by decide

theorem hexDigit_facts : ∀ n : Fin 16, isAsciiHexDigit (hexDigitLower n.val) = true ∧ hexVal (hexDigitLower n.val) = n.val := by
  decide

theorem hexDigit_ok (n : Nat) (h : n < 16) : isAsciiHexDigit (hexDigitLower n) = true ∧ hexVal (hexDigitLower n) = n :=
  hexDigit_facts ⟨n, h⟩

/-- `Bytes("…")`: decoding the printed hex gives the bytes back. -/
theorem hexDecode_hexBytes (bs : List Nat) (h : ∀ b ∈ bs, b < 256) : hexDecode (bs.flatMap hexByte) = some bs := by
  induction bs with
  | nil => simp [hexDecode]
  | cons b r ih =>
    have hb : b < 256 := h b (by simp)
    have ih' := ih (fun x hx => h x (by simp [hx]))
    have h1 := hexDigit_ok (b / 16 % 16) (by omega)
    have h2 := hexDigit_ok (b % 16) (by omega)
    simp only [List.flatMap_cons, hexByte, List.cons_append, List.nil_append, hexDecode]
    simp [h1.1, h2.1, h1.2, h2.2, ih']
    omega

/-- `NonFungibleGlobalId("<address>:<local id>")`: splitting at the first colon recovers both parts. -/
theorem splitAtColon_append (a i : List Char) (h : ':' ∉ a) : splitAtColon (a ++ ':' :: i) = some (a, i) := by
  induction a with
  | nil => simp [splitAtColon]
  | cons c r ih =>
    have hc : c ≠ ':' := by intro e; apply h; simp [e]
    have hr : ':' ∉ r := by intro e; apply h; simp [e]
    simp [splitAtColon, hc, ih hr]

/-- the four hex digits of `\uXXXX` are read back as the unit -/
theorem readUnit_unitEscape (u : Nat) (hu : u < 65536) (rest : List Char) (p : Pos) :
    readUnit ⟨(unitEscape u).drop 2 ++ rest, p⟩ =
      .ok (u, ⟨rest, (((p.advance (hexDigitLower (u / 4096 % 16))).advance (hexDigitLower (u / 256 % 16))).advance
        (hexDigitLower (u / 16 % 16))).advance (hexDigitLower (u % 16))⟩) := by
  have h1 := hexDigit_ok (u / 4096 % 16) (by omega)
  have h2 := hexDigit_ok (u / 256 % 16) (by omega)
  have h3 := hexDigit_ok (u / 16 % 16) (by omega)
  have h4 := hexDigit_ok (u % 16) (by omega)
  simp only [unitEscape, List.drop, List.cons_append, List.nil_append, readUnit, advanceMatching, advance,
    h1.1, h2.1, h3.1, h4.1, h1.2, h2.2, h3.2, h4.2, if_true]
  congr 2
  omega

/-- UTF-16 arithmetic of the escaper and of the lexer are inverse: a code point above the BMP is
rebuilt from its surrogate pair, the first unit asks for a second one, the second is a low surrogate. -/
theorem surrogate_pair_roundtrip (n : Nat) (h1 : 0x10000 ≤ n) (h2 : n ≤ 0x10FFFF) :
    let hi := 0xD800 + (n - 0x10000) / 1024
    let lo := 0xDC00 + (n - 0x10000) % 1024
    hi < 65536 ∧ lo < 65536 ∧ (0xD800 ≤ hi ∧ hi ≤ 0xDFFF) ∧ 0x10000 + (hi - 0xD800) * 1024 + lo - 0xDC00 = n := by
  simp only
  omega

/-- a BMP character is never mistaken for the first half of a surrogate pair, and decodes to itself -/
theorem bmp_char_roundtrip (c : Char) (h : c.toNat < 0x10000) :
    ¬ (0xD800 ≤ c.toNat ∧ c.toNat ≤ 0xDFFF) ∧ charFromU32 c.toNat = some c := by
  have hv := c.valid
  constructor
  · intro hh
    rcases hv with hv | hv
    · have : c.toNat < 0xD800 := hv
      omega
    · have : 0xDFFF < c.toNat := hv.1
      omega
  · unfold charFromU32
    have : c.toNat.isValidChar := hv
    simp [this, Char.ofNatAux]
    rfl

/-- what one loop iteration of `strLoop` contributes after decoding `ch` and moving to `(T, q)` -/
def consRes (ch : Char) (r : Except LexErr (List Char × St)) : Except LexErr (List Char × St) :=
  match r with
  | .error e => .error e
  | .ok (cs, s3) => .ok (ch :: cs, s3)

theorem strLoop_raw (c : Char) (T : List Char) (p : Pos) (h1 : c ≠ '"') (h2 : c ≠ '\\') :
    strLoop (c :: T) p = consRes c (strLoop T (p.advance c)) := by
  rw [strLoop]
  simp only [h1, h2, if_false, consRes]
  rfl

theorem strLoop_escape (X T : List Char) (ch : Char) (p q : Pos)
    (h : lexEscape ⟨X ++ T, p.advance '\\'⟩ = .ok (ch, ⟨T, q⟩)) :
    strLoop ('\\' :: (X ++ T)) p = consRes ch (strLoop T q) := by
  rw [strLoop]
  have h1 : ('\\' : Char) ≠ '"' := by decide
  simp only [h1, if_false, if_true, h, consRes]
  have : T.length < ('\\' :: (X ++ T)).length := by simp; omega
  simp only [this, if_true]
  rfl

/-- the simple two-character escapes -/
theorem lexEscape_simple (e ch : Char) (T : List Char) (p : Pos)
    (h : (e, ch) ∈ [('"', '"'), ('\\', '\\'), ('b', Char.ofNat 8), ('f', Char.ofNat 12), ('n', '\n'), ('r', '\r'), ('t', '\t')]) :
    lexEscape ⟨[e] ++ T, p⟩ = .ok (ch, ⟨T, p.advance e⟩) := by
  simp only [List.mem_cons, Prod.mk.injEq, List.mem_nil_iff, or_false] at h
  rcases h with ⟨rfl, rfl⟩ | ⟨rfl, rfl⟩ | ⟨rfl, rfl⟩ | ⟨rfl, rfl⟩ | ⟨rfl, rfl⟩ | ⟨rfl, rfl⟩ | ⟨rfl, rfl⟩ <;>
    simp [lexEscape, advance]

end Radix.Manifest
