/-
Lemmas for C30: hex / UTF-16 escape arithmetic and the string loop of the lexer on escaped text.
-/
import RadixModel.Model.ManifestValue
import RadixModel.Lemmas.ManifestSnippet
namespace Radix.Manifest

theorem kind_names_agree : MKind.all.map MKind.name = Radix.Generated.C30.kindNames := by decide

theorem hexDigit_facts : ∀ n : Fin 16, isAsciiHexDigit (hexDigitLower n.val) = true ∧ hexVal (hexDigitLower n.val) = n.val := by
  decide

theorem hexDigit_ok (n : Nat) (h : n < 16) : isAsciiHexDigit (hexDigitLower n) = true ∧ hexVal (hexDigitLower n) = n :=
  hexDigit_facts ⟨n, h⟩

/-- `Bytes("…")`: decoding the printed hex gives the bytes back. -/
theorem hexDecode_hexBytes (bs : List Nat) (h : ∀ b ∈ bs, b < 256) : hexDecode (bs.flatMap hexByte) = some bs := by
  induction bs with
  | nil => simp [hexDecode]
  | cons b r ih =>
    have hb : b < 256 := h b (by simp)
    have ih' := ih (fun x hx => h x (by simp [hx]))
    have h1 := hexDigit_ok (b / 16 % 16) (by omega)
    have h2 := hexDigit_ok (b % 16) (by omega)
    simp only [List.flatMap_cons, hexByte, List.cons_append, List.nil_append, hexDecode]
    simp [h1.1, h2.1, h1.2, h2.2, ih']
    omega

/-- `NonFungibleGlobalId("<address>:<local id>")`: splitting at the first colon recovers both parts. -/
theorem splitAtColon_append (a i : List Char) (h : ':' ∉ a) : splitAtColon (a ++ ':' :: i) = some (a, i) := by
  induction a with
  | nil => simp [splitAtColon]
  | cons c r ih =>
    have hc : c ≠ ':' := by intro e; apply h; simp [e]
    have hr : ':' ∉ r := by intro e; apply h; simp [e]
    simp [splitAtColon, hc, ih hr]

/-- the four hex digits of `\uXXXX` are read back as the unit -/
theorem readUnit_unitEscape (u : Nat) (hu : u < 65536) (rest : List Char) (p : Pos) :
    readUnit ⟨(unitEscape u).drop 2 ++ rest, p⟩ =
      .ok (u, ⟨rest, (((p.advance (hexDigitLower (u / 4096 % 16))).advance (hexDigitLower (u / 256 % 16))).advance
        (hexDigitLower (u / 16 % 16))).advance (hexDigitLower (u % 16))⟩) := by
  have h1 := hexDigit_ok (u / 4096 % 16) (by omega)
  have h2 := hexDigit_ok (u / 256 % 16) (by omega)
  have h3 := hexDigit_ok (u / 16 % 16) (by omega)
  have h4 := hexDigit_ok (u % 16) (by omega)
  simp only [unitEscape, List.drop, List.cons_append, List.nil_append, readUnit, advanceMatching, advance,
    h1.1, h2.1, h3.1, h4.1, h1.2, h2.2, h3.2, h4.2, if_true]
  congr 2
  omega

/-- UTF-16 arithmetic of the escaper and of the lexer are inverse: a code point above the BMP is
rebuilt from its surrogate pair, the first unit asks for a second one, the second is a low surrogate. -/
theorem surrogate_pair_roundtrip (n : Nat) (h1 : 0x10000 ≤ n) (h2 : n ≤ 0x10FFFF) :
    let hi := 0xD800 + (n - 0x10000) / 1024
    let lo := 0xDC00 + (n - 0x10000) % 1024
    hi < 65536 ∧ lo < 65536 ∧ (0xD800 ≤ hi ∧ hi ≤ 0xDFFF) ∧ 0x10000 + (hi - 0xD800) * 1024 + lo - 0xDC00 = n := by
  simp only
  omega

/-- a BMP character is never mistaken for the first half of a surrogate pair, and decodes to itself -/
theorem bmp_char_roundtrip (c : Char) (h : c.toNat < 0x10000) :
    ¬ (0xD800 ≤ c.toNat ∧ c.toNat ≤ 0xDFFF) ∧ charFromU32 c.toNat = some c := by
  have hv := c.valid
  constructor
  · intro hh
    rcases hv with hv | hv
    · have : c.toNat < 0xD800 := hv
      omega
    · have : 0xDFFF < c.toNat := hv.1
      omega
  · unfold charFromU32
    have : c.toNat.isValidChar := hv
    simp [this, Char.ofNatAux]
    rfl

/-- what one loop iteration of `strLoop` contributes after decoding `ch` and moving to `(T, q)` -/
def consRes (ch : Char) (r : Except LexErr (List Char × St)) : Except LexErr (List Char × St) :=
  match r with
  | .error e => .error e
  | .ok (cs, s3) => .ok (ch :: cs, s3)

theorem strLoop_raw (c : Char) (T : List Char) (p : Pos) (h1 : c ≠ '"') (h2 : c ≠ '\\') :
    strLoop (c :: T) p = consRes c (strLoop T (p.advance c)) := by
  rw [strLoop]
  simp only [h1, h2, if_false, consRes]
  rfl

theorem strLoop_escape (X T : List Char) (ch : Char) (p q : Pos)
    (h : lexEscape ⟨X ++ T, p.advance '\\'⟩ = .ok (ch, ⟨T, q⟩)) :
    strLoop ('\\' :: (X ++ T)) p = consRes ch (strLoop T q) := by
  rw [strLoop]
  have h1 : ('\\' : Char) ≠ '"' := by decide
  simp only [h1, if_false, if_true, h, consRes]
  have : T.length < ('\\' :: (X ++ T)).length := by simp; omega
  simp only [this, if_true]
  rfl

/-- the simple two-character escapes -/
theorem lexEscape_simple (e ch : Char) (T : List Char) (p : Pos)
    (h : (e, ch) ∈ [('"', '"'), ('\\', '\\'), ('b', Char.ofNat 8), ('f', Char.ofNat 12), ('n', '\n'), ('r', '\r'), ('t', '\t')]) :
    lexEscape ⟨[e] ++ T, p⟩ = .ok (ch, ⟨T, p.advance e⟩) := by
  simp only [List.mem_cons, Prod.mk.injEq, List.mem_nil_iff, or_false] at h
  rcases h with ⟨rfl, rfl⟩ | ⟨rfl, rfl⟩ | ⟨rfl, rfl⟩ | ⟨rfl, rfl⟩ | ⟨rfl, rfl⟩ | ⟨rfl, rfl⟩ | ⟨rfl, rfl⟩ <;>
    simp [lexEscape, advance]

theorem charFromU32_toNat (c : Char) : charFromU32 c.toNat = some c := by
  unfold charFromU32
  have : c.toNat.isValidChar := c.valid
  simp [this, Char.ofNatAux]
  rfl

theorem char_le_max (c : Char) : c.toNat ≤ 0x10FFFF := by
  have := c.valid
  rcases this with h | h
  · have : c.toNat < 0xD800 := h
    omega
  · have : c.toNat < 0x110000 := h.2
    omega

theorem u_not_simple : ('u' : Char) ≠ '"' ∧ ('u' : Char) ≠ '\\' ∧ ('u' : Char) ≠ '/' ∧ ('u' : Char) ≠ 'b' ∧
    ('u' : Char) ≠ 'f' ∧ ('u' : Char) ≠ 'n' ∧ ('u' : Char) ≠ 'r' ∧ ('u' : Char) ≠ 't' := by decide

theorem lexEscape_u_bmp (R T : List Char) (p q : Pos) (n : Nat) (c : Char)
    (hru : readUnit ⟨R, p.advance 'u'⟩ = .ok (n, ⟨T, q⟩)) (hns : ¬ (0xD800 ≤ n ∧ n ≤ 0xDFFF))
    (hch : charFromU32 n = some c) :
    lexEscape ⟨'u' :: R, p⟩ = .ok (c, ⟨T, q⟩) := by
  obtain ⟨a1, a2, a3, a4, a5, a6, a7, a8⟩ := u_not_simple
  have hadv : advance ⟨'u' :: R, p⟩ = .ok ('u', ⟨R, p.advance 'u'⟩) := rfl
  unfold lexEscape
  rw [hadv]
  simp only [a1, a2, a3, a4, a5, a6, a7, a8, if_false, if_true]
  rw [hru]
  simp only [hns, if_false]
  rw [hch]

/-- the lexer decodes the `\\uXXXX` escape of any BMP character back to it -/
theorem lexEscape_utf16_bmp (c : Char) (hb : c.toNat < 0x10000) (T : List Char) (p : Pos) :
    lexEscape ⟨(utf16Escape c).drop 1 ++ T, p⟩ = .ok (c, ⟨T, advanceBy p ((utf16Escape c).drop 1)⟩) := by
  have hch := charFromU32_toNat c
  unfold utf16Escape
  obtain ⟨hns, _⟩ := bmp_char_roundtrip c hb
  have hru := readUnit_unitEscape c.toNat hb T (p.advance 'u')
  simp only [hb, if_true]
  simp only [unitEscape, List.drop, List.cons_append, List.nil_append] at hru ⊢
  rw [lexEscape_u_bmp _ T p _ c.toNat c hru hns hch]
  simp [advanceBy]

/-- one character of the escaped string body is decoded by one iteration of the string loop -/
theorem strLoop_escapeChar (esc : Char → Bool) (c : Char) (hc : c.toNat < 0x10000 ∨ esc c = false)
    (T : List Char) (p : Pos) :
    strLoop (escapeChar esc c ++ T) p = consRes c (strLoop T (advanceBy p (escapeChar esc c))) := by
  unfold escapeChar
  have simple : ∀ (e ch : Char), (e, ch) ∈ [('"', '"'), ('\\', '\\'), ('b', Char.ofNat 8), ('f', Char.ofNat 12), ('n', '\n'), ('r', '\r'), ('t', '\t')] →
      strLoop (['\\', e] ++ T) p = consRes ch (strLoop T (advanceBy p ['\\', e])) := by
    intro e ch h
    have := strLoop_escape [e] T ch p ((p.advance '\\').advance e) (lexEscape_simple e ch T (p.advance '\\') h)
    simpa [advanceBy] using this
  split
  · rename_i h; subst h; exact simple '\\' '\\' (by simp)
  split
  · rename_i h; subst h; exact simple 'n' '\n' (by simp)
  split
  · rename_i h; subst h; exact simple 'r' '\r' (by simp)
  split
  · rename_i h; subst h; exact simple 't' '\t' (by simp)
  split
  · rename_i h; subst h; exact simple 'b' (Char.ofNat 8) (by simp)
  split
  · rename_i h; subst h; exact simple 'f' (Char.ofNat 12) (by simp)
  split
  · rename_i h; subst h; exact simple '"' '"' (by simp)
  rename_i h1 h2 h3 h4 h5 h6 h7
  have raw : strLoop ([c] ++ T) p = consRes c (strLoop T (advanceBy p [c])) := by
    have := strLoop_raw c T p h7 h1
    simpa [advanceBy] using this
  split
  · exact raw
  split
  · rename_i hesc
    have hb : c.toNat < 0x10000 := by
      rcases hc with h | h
      · exact h
      · rw [h] at hesc; exact absurd hesc (by simp)
    have hl := lexEscape_utf16_bmp c hb T (p.advance '\\')
    have hform : utf16Escape c = '\\' :: (utf16Escape c).drop 1 := by
      unfold utf16Escape; simp only [hb, if_true, unitEscape, List.drop]
    have := strLoop_escape ((utf16Escape c).drop 1) T c p _ hl
    rw [hform]
    simp only [List.cons_append, advanceBy_cons]
    exact this
  · exact raw

/-- **Escaper round trip**: the string loop of the lexer, run on the escaped body of `s` followed
by the closing quote, returns exactly `s` and stops at the quote. -/
theorem strLoop_escapeBody_partial (esc : Char → Bool) (s : List Char)
    (hs : ∀ c ∈ s, c.toNat < 0x10000 ∨ esc c = false) (rest : List Char) (p : Pos) :
    strLoop (escapeBody esc s ++ '"' :: rest) p =
      .ok (s, ⟨'"' :: rest, advanceBy p (escapeBody esc s)⟩) := by
  induction s generalizing p with
  | nil => simp [escapeBody]; rw [strLoop]; simp
  | cons c r ih =>
    have hc := hs c (by simp)
    have hr : ∀ x ∈ r, x.toNat < 0x10000 ∨ esc x = false := fun x hx => hs x (by simp [hx])
    have e : escapeBody esc (c :: r) = escapeChar esc c ++ escapeBody esc r := by simp [escapeBody]
    rw [e, List.append_assoc, strLoop_escapeChar esc c hc, ih hr, advanceBy_append]
    rfl

end Radix.Manifest
