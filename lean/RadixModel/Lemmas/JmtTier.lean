/-
C17 — one tier as a whole: the value set (`BTreeMap` collection), `putTier`
(`generate_tier_update_batch` + `apply_tier_update_batch`) and arbitrary histories of puts.
-/
import RadixModel.Lemmas.JmtPut
namespace Radix.Jmt

variable {α : Type}

/-- apply a list of leaf updates to a finite map, in order (a later update of a key wins). -/
def applyUps (base : Key → Option (Val α)) (ups : List (KV α)) : Key → Option (Val α) :=
  ups.foldl (fun S kv => fun k => if kv.key = k then kv.val else S k) base

theorem find_map_replace_same (kv : KV α) (acc : List (KV α)) :
    (acc.map (fun x => if x.key = kv.key then kv else x)).find? (fun x => x.key = kv.key) =
      if acc.any (fun x => x.key = kv.key) then some kv else none := by
  induction acc with
  | nil => simp
  | cons x acc ih =>
    simp only [List.map_cons, List.find?_cons, List.any_cons]
    by_cases hx : x.key = kv.key
    · simp [hx]
    · simp only [hx, if_false, decide_false, Bool.false_or]
      exact ih

theorem find_map_replace_other (kv : KV α) (acc : List (KV α)) (k : Key) (hk : kv.key ≠ k) :
    (acc.map (fun x => if x.key = kv.key then kv else x)).find? (fun x => x.key = k) =
      acc.find? (fun x => x.key = k) := by
  induction acc with
  | nil => simp
  | cons x acc ih =>
    simp only [List.map_cons, List.find?_cons]
    by_cases hx : x.key = kv.key
    · have hxk : ¬ x.key = k := fun e => hk (hx ▸ e)
      simp only [hx, if_true, hk, decide_false, hxk]
      exact ih
    · simp only [hx, if_false]
      by_cases hxk : x.key = k
      · simp [hxk]
      · simp only [hxk, decide_false]; exact ih

theorem find_insertSorted (kv : KV α) (acc : List (KV α)) (k : Key)
    (hno : ∀ x ∈ acc, x.key ≠ kv.key) :
    (insertSorted kv acc).find? (fun x => x.key = k) =
      if kv.key = k then some kv else acc.find? (fun x => x.key = k) := by
  induction acc with
  | nil => by_cases hk : kv.key = k <;> simp [insertSorted, hk]
  | cons x acc ih =>
    have ih' := ih (fun y hy => hno y (by simp [hy]))
    have hx : x.key ≠ kv.key := hno x (by simp)
    simp only [insertSorted]
    by_cases hlt : keyLt kv.key x.key = true
    · simp only [hlt, if_true, List.find?_cons]
      by_cases hk : kv.key = k <;> simp [hk]
    · have hlt' : keyLt kv.key x.key = false := by simpa using hlt
      simp only [hlt', Bool.false_eq_true, if_false, List.find?_cons]
      by_cases hxk : x.key = k
      · have : ¬ kv.key = k := fun e => hx (hxk.trans e.symm)
        simp [hxk, this]
      · simp only [hxk, decide_false]
        by_cases hk : kv.key = k
        · simp only [hk, if_true] at ih' ⊢; exact ih'
        · simp only [hk, if_false] at ih' ⊢; exact ih'

theorem find_vsInsert (kv : KV α) (acc : List (KV α)) (k : Key) :
    (vsInsert kv acc).find? (fun x => x.key = k) =
      if kv.key = k then some kv else acc.find? (fun x => x.key = k) := by
  unfold vsInsert
  by_cases hany : acc.any (fun x => x.key = kv.key) = true
  · simp only [hany, if_true]
    by_cases hk : kv.key = k
    · subst hk; rw [find_map_replace_same]; simp [hany]
    · rw [find_map_replace_other kv acc k hk]; simp [hk]
  · have hany' : acc.any (fun x => x.key = kv.key) = false := by simpa using hany
    simp only [hany', Bool.false_eq_true, if_false]
    apply find_insertSorted
    intro x hx hxk
    exact hany (List.any_eq_true.mpr ⟨x, hx, by simpa using hxk⟩)

theorem over_vsInsert (kv : KV α) (acc : List (KV α)) (base : Key → Option (Val α)) (k : Key) :
    over (vsInsert kv acc) base k = if kv.key = k then kv.val else over acc base k := by
  unfold over; rw [find_vsInsert]
  by_cases hk : kv.key = k <;> simp [hk]

theorem over_foldl (ups : List (KV α)) (acc : List (KV α)) (base : Key → Option (Val α)) :
    over (ups.foldl (fun acc kv => vsInsert kv acc) acc) base = applyUps (over acc base) ups := by
  induction ups generalizing acc with
  | nil => rfl
  | cons kv ups ih =>
    simp only [List.foldl_cons, applyUps]
    rw [ih]
    unfold applyUps
    congr 1
    funext k
    exact over_vsInsert kv acc base k

theorem over_valueSet (ups : List (KV α)) (base : Key → Option (Val α)) :
    over (valueSet ups) base = applyUps base ups := by
  unfold valueSet; rw [over_foldl]; rfl

theorem insertSorted_perm (kv : KV α) (acc : List (KV α)) :
    ((insertSorted kv acc).map (·.key)).Perm (kv.key :: acc.map (·.key)) := by
  induction acc with
  | nil => simp [insertSorted]
  | cons x acc ih =>
    simp only [insertSorted]
    by_cases hlt : keyLt kv.key x.key = true
    · simp [hlt]
    · simp only [hlt, List.map_cons]
      exact (List.Perm.cons _ ih).trans (List.Perm.swap _ _ _)

theorem vsInsert_nodup (kv : KV α) (acc : List (KV α)) (h : KeysNodup acc) : KeysNodup (vsInsert kv acc) := by
  unfold vsInsert KeysNodup at *
  by_cases hany : acc.any (fun x => x.key = kv.key) = true
  · simp only [hany, if_true, List.map_map]
    have : (fun x : KV α => x.key) ∘ (fun x => if x.key = kv.key then kv else x) = fun x => x.key := by
      funext x; simp only [Function.comp]; by_cases hx : x.key = kv.key <;> simp [hx]
    rw [this]; exact h
  · have hany' : acc.any (fun x => x.key = kv.key) = false := by simpa using hany
    simp only [hany', Bool.false_eq_true, if_false]
    rw [(insertSorted_perm kv acc).nodup_iff]
    refine List.nodup_cons.mpr ⟨?_, h⟩
    intro hmem
    obtain ⟨x, hx, hxk⟩ := List.mem_map.mp hmem
    exact hany (List.any_eq_true.mpr ⟨x, hx, by simpa using hxk⟩)

theorem valueSet_nodup (ups : List (KV α)) : KeysNodup (valueSet ups) := by
  unfold valueSet
  have : ∀ acc : List (KV α), KeysNodup acc → KeysNodup (ups.foldl (fun acc kv => vsInsert kv acc) acc) := by
    induction ups with
    | nil => intro acc h; exact h
    | cons kv ups ih => intro acc h; exact ih _ (vsInsert_nodup kv acc h)
  exact this [] (by simp [KeysNodup])

theorem putTierCore_spec (H : List UInt8 → Hash) (v : Nat) (pfx : Path) (rv : Option Nat) (t : Tree α)
    (kvs : List (KV α)) (r : R α)
    (h : putTierCore H v pfx rv t kvs = .ok r) (hnd : KeysNodup kvs) (hinv : Inv H [] t)
    (hrv : rv = none → t = .null) :
    Rep H [] (over kvs (fun k => getT t k 0)) r.t := by
  have hpre : ∀ kv ∈ kvs, ([] : Path) <+: nibbles kv.key := fun _ _ => List.nil_prefix
  unfold putTierCore at h
  cases rv with
  | none =>
    have ht := hrv rfl
    subst ht
    exact upd_spec H v pfx _ [] _ r h hnd hpre
  | some pv =>
    cases t with
    | null =>
      simp only at h
      cases hu : updateSubtree H v pfx (fuelFor kvs) [] kvs with
      | error e => rw [hu] at h; cases h
      | ok r' =>
        rw [hu] at h; simp only at h
        injection h with h; subst h
        exact upd_spec H v pfx _ [] _ r' hu hnd hpre
    | leaf v' k vh p s => exact ins_spec H v pfx _ _ [] _ r h hnd hpre hinv rfl
    | node v' h' c => exact ins_spec H v pfx _ _ [] _ r h hnd hpre hinv rfl

/-- **`putTier` implements the overlay and re-establishes the invariant**, for every value set. -/
theorem putTier_spec (H : List UInt8 → Hash) (v : Nat) (pfx : Path) (rv : Option Nat) (t : Tree α)
    (ups : List (KV α)) (root : Option (Tree α)) (evs : List Ev)
    (h : putTier H v pfx rv t ups = .ok (root, evs)) (hinv : Inv H [] t)
    (hrv : rv = none → t = .null) :
    Rep H [] (applyUps (fun k => getT t k 0) ups) root := by
  unfold putTier at h
  rw [← over_valueSet]
  cases hc : putTierCore H v pfx rv t (valueSet ups) with
  | error e => rw [hc] at h; cases h
  | ok r =>
    rw [hc] at h; simp only at h
    have := putTierCore_spec H v pfx rv t _ r hc (valueSet_nodup ups) hinv hrv
    cases hrt : r.t with
    | none =>
      rw [hrt] at h this; simp only at h
      injection h with h; injection h with h1 h2; subst h1; exact this
    | some root' =>
      rw [hrt] at h this; simp only at h
      injection h with h; injection h with h1 h2; subst h1; exact this

end Radix.Jmt
