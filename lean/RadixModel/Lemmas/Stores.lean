import RadixModel.Model.Stores

namespace Radix.Stores

/-! ### byte-string order -/

theorem ltB_irrefl : ∀ a : Bytes, ltB a a = false
  | [] => rfl
  | x :: xs => by simp [ltB, ltB_irrefl xs]

theorem ltB_append_left : ∀ (p a b : Bytes), ltB (p ++ a) (p ++ b) = ltB a b
  | [], _, _ => rfl
  | x :: xs, a, b => by simp [ltB, ltB_append_left xs a b]

theorem ltB_asymm : ∀ a b : Bytes, ltB a b = true → ltB b a = false
  | [], [], h => by simp [ltB] at h
  | [], _ :: _, _ => by simp [ltB]
  | _ :: _, [], h => by simp [ltB] at h
  | x :: xs, y :: ys, h => by
    simp only [ltB, Bool.or_eq_true, decide_eq_true_eq, Bool.and_eq_true, beq_iff_eq] at h
    simp only [ltB, Bool.or_eq_false_iff, decide_eq_false_iff_not, Bool.and_eq_false_iff]
    rcases h with h | ⟨rfl, h⟩
    · exact ⟨by omega, Or.inl (by simp; omega)⟩
    · exact ⟨by omega, Or.inr (ltB_asymm xs ys h)⟩

/-- Anything between two strings that share a prefix `p` also has the prefix `p`:
entries of one partition are contiguous in the encoded key order. -/
theorem prefix_of_between : ∀ (p a b k : Bytes), leB (p ++ a) k = true → ltB k (p ++ b) = true →
    ∃ r, k = p ++ r
  | [], _, _, k, _, _ => ⟨k, rfl⟩
  | x :: xs, a, b, [], h1, _ => by simp [leB, ltB] at h1
  | x :: xs, a, b, y :: ys, h1, h2 => by
    simp only [leB, List.cons_append, ltB, Bool.not_eq_true', Bool.or_eq_false_iff,
      decide_eq_false_iff_not, Bool.and_eq_false_iff] at h1
    simp only [List.cons_append, ltB, Bool.or_eq_true, decide_eq_true_eq, Bool.and_eq_true,
      beq_iff_eq] at h2
    have hxy : y = x := by
      rcases h2 with h2 | ⟨h2, _⟩
      · rcases h1 with ⟨h1, h1' | h1'⟩
        · simp at h1'; omega
        · omega
      · exact h2
    subst hxy
    have h1' : leB (xs ++ a) ys = true := by
      rcases h1 with ⟨_, h | h⟩
      · simp at h
      · simp [leB, h]
    have h2' : ltB ys (xs ++ b) = true := by
      rcases h2 with h | ⟨_, h⟩
      · omega
      · exact h
    obtain ⟨r, hr⟩ := prefix_of_between xs a b ys h1' h2'
    exact ⟨r, by simp [hr]⟩

theorem nil_leB (k : Bytes) : leB [] k = true := by
  cases k <;> simp [leB, ltB]

theorem ltB_replicate : ∀ (m : Nat) (s : Bytes), s.length < m → (∀ b ∈ s, b ≤ 255) →
    ltB s (List.replicate m 255) = true
  | 0, _, h, _ => by omega
  | m + 1, [], _, _ => by simp [List.replicate, ltB]
  | m + 1, x :: xs, h, hb => by
    simp only [List.replicate, ltB, Bool.or_eq_true, decide_eq_true_eq, Bool.and_eq_true, beq_iff_eq]
    have hx : x ≤ 255 := hb x (by simp)
    by_cases hlt : x < 255
    · exact Or.inl hlt
    · refine Or.inr ⟨by omega, ?_⟩
      exact ltB_replicate m xs (by simp at h; omega) (fun b hb' => hb b (by simp [hb']))

/-! ### key encoding -/

theorem be32_decode (n : Nat) (h : n < 4294967296) :
    16777216 * (n / 16777216 % 256) + 65536 * (n / 65536 % 256) + 256 * (n / 256 % 256) + n % 256 = n := by
  omega

theorem decode_prefix (node : Bytes) (pn : Nat) (r : Bytes) (h : node.length < 4294967296) :
    decodeKey (be32 node.length ++ node ++ [pn] ++ r) = some (node, pn, r) := by
  have e : be32 node.length ++ node ++ [pn] ++ r =
      (node.length / 16777216 % 256) :: (node.length / 65536 % 256) :: (node.length / 256 % 256) ::
        (node.length % 256) :: (node ++ pn :: r) := by
    simp only [be32, List.cons_append, List.nil_append, List.append_assoc]
  rw [e]
  unfold decodeKey
  simp only []
  rw [be32_decode _ h]
  have hd : (node ++ pn :: r).drop node.length = pn :: r := List.drop_left
  have ht : (node ++ pn :: r).take node.length = node := List.take_left
  rw [hd]
  simp only [ht, List.length_append, Nat.le_add_right, if_true]

end Radix.Stores
