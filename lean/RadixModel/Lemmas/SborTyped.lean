/-
C22: values of the typed codecs validate against any schema that describes their type.
-/
import RadixModel.Model.SborTyped
import RadixModel.Lemmas.SborSchema

namespace Radix.Schema
open Radix.Sbor

theorem resolvesTo_spec {env : Env} {S : Schema} {tid : TypeId} {k : TypeKind} (h : resolvesTo env S tid k = true) :
    lookKind env S tid = .ok k ∧ resolveValidation env S tid = some .none := by
  simp only [resolvesTo, Bool.and_eq_true, decide_eq_true_eq] at h
  exact ⟨by simp [lookKind, h.1], h.2⟩

theorem validateAll_of_forall {env : Env} {S : Schema} {t : TypeId} :
    ∀ (es : List SV), (∀ e ∈ es, validate env S t e = .ok ()) → validateAll env S t es = .ok ()
  | [], _ => by simp [validateAll]
  | e :: es, h => by
    simp only [validateAll, h e (by simp)]
    exact validateAll_of_forall es (fun x hx => h x (by simp [hx]))

theorem validateEntries_of_forall {env : Env} {S : Schema} {kt vt : TypeId} :
    ∀ (es : List (SV × SV)), (∀ e ∈ es, validate env S kt e.1 = .ok () ∧ validate env S vt e.2 = .ok ()) →
      validateEntries env S kt vt es = .ok ()
  | [], _ => by simp [validateEntries]
  | (k, v) :: es, h => by
    have := h (k, v) (by simp)
    simp only [validateEntries, this.1, this.2]
    exact validateEntries_of_forall es (fun x hx => h x (by simp [hx]))

theorem terminal_plain {env : Env} {S : Schema} {tid : TypeId} {k : TypeKind} {v : SV}
    (hk : lookKind env S tid = .ok k) (hv : resolveValidation env S tid = some .none)
    (hm : valueKindMatches (v.kind scrypto) k = true)
    (hnc : match v with | .custom _ => False | _ => True) : terminal env S tid v = .ok () := by
  unfold terminal
  simp only [hk, hm, Bool.not_true, Bool.false_eq_true, if_false]
  cases v <;> simp_all [validateTerminalValue, termCheck]

theorem vkm_self (t : Ty) (k : TypeKind)
    (h : match t, k with
      | .bool, .bool => True | .int a, .int b => a = b | .string, .string => True
      | .unit, .tuple _ => True | .option _, .enum _ => True | .array _, .array _ => True
      | .pair _ _, .tuple _ => True | .map _ _, .map _ _ => True | .result _ _, .enum _ => True
      | _, _ => False) : valueKindMatches t.vk k = true := by
  cases t <;> cases k <;> simp_all [Ty.vk, valueKindMatches]

/-- the kind at a describing type id matches the value kind of the Rust type -/
theorem describes_vkm {env : Env} {S : Schema} : ∀ (ty : Ty) (tid : TypeId), describes env S tid ty = true →
    ∃ k, resolveKind env S tid = some k ∧ valueKindMatches ty.vk k = true := by
  intro ty tid h
  cases ty <;> simp only [describes] at h
  case bool => exact ⟨_, lookKind_ok' (resolvesTo_spec h).1, by simp [Ty.vk, valueKindMatches]⟩
  case int k => exact ⟨_, lookKind_ok' (resolvesTo_spec h).1, by simp [Ty.vk, valueKindMatches]⟩
  case string => exact ⟨_, lookKind_ok' (resolvesTo_spec h).1, by simp [Ty.vk, valueKindMatches]⟩
  case unit => exact ⟨_, lookKind_ok' (resolvesTo_spec h).1, by simp [Ty.vk, valueKindMatches]⟩
  all_goals
    (cases hk : resolveKind env S tid with
     | none => simp [hk] at h
     | some k =>
       refine ⟨k, rfl, ?_⟩
       simp only [hk] at h
       split at h <;> simp_all [Ty.vk, valueKindMatches])
where
  lookKind_ok' {env : Env} {S : Schema} {t : TypeId} {k : TypeKind} (h : lookKind env S t = .ok k) :
      resolveKind env S t = some k := by
    unfold lookKind at h
    cases hk : resolveKind env S t <;> simp_all

theorem containerNone {env : Env} {S : Schema} {tid : TypeId} {h : Hdr}
    (hv : resolveValidation env S tid = some .none) : validateContainer env S tid h = .ok () := by
  simp [validateContainer, containerCheck, hv]

theorem typed_validates {env : Env} {S : Schema} : ∀ (ty : Ty) (tid : TypeId) (v : SV),
    describes env S tid ty = true → inhabits ty v = true → validate env S tid v = .ok ()
  | .bool, tid, v, hd, hi => by
    obtain ⟨hk, hv⟩ := resolvesTo_spec (by simpa [describes] using hd)
    cases v <;> simp only [inhabits, Bool.false_eq_true] at hi
    simp only [validate]
    exact terminal_plain hk hv (by simp [Value.kind, valueKindMatches]) trivial
  | .int k, tid, v, hd, hi => by
    obtain ⟨hk, hv⟩ := resolvesTo_spec (by simpa [describes] using hd)
    cases v <;> simp only [inhabits, Bool.false_eq_true, decide_eq_true_eq] at hi
    subst hi
    simp only [validate]
    exact terminal_plain hk hv (by simp [Value.kind, valueKindMatches]) trivial
  | .string, tid, v, hd, hi => by
    obtain ⟨hk, hv⟩ := resolvesTo_spec (by simpa [describes] using hd)
    cases v <;> simp only [inhabits, Bool.false_eq_true] at hi
    simp only [validate]
    exact terminal_plain hk hv (by simp [Value.kind, valueKindMatches]) trivial
  | .unit, tid, v, hd, hi => by
    obtain ⟨hk, hv⟩ := resolvesTo_spec (by simpa [describes] using hd)
    cases v <;> simp only [inhabits, Bool.false_eq_true] at hi
    rename_i fs
    cases fs with
    | cons a as => simp at hi
    | nil => simp [validate, startTuple, hk, containerNone hv, validateFields]
  | .option t, tid, v, hd, hi => by
    simp only [describes] at hd
    cases hk : resolveKind env S tid with
    | none => simp [hk] at hd
    | some k =>
      simp only [hk] at hd
      split at hd <;> try (simp at hd; done)
      rename_i x heq
      simp only [Option.some.injEq] at heq
      subst heq
      simp only [Bool.and_eq_true, decide_eq_true_eq] at hd
      obtain ⟨hv, hx⟩ := hd
      cases v <;> simp only [inhabits, Bool.false_eq_true] at hi
      rename_i d fs
      simp only [validate, startEnum, lookKind, hk, containerNone hv]
      split at hi
      · rename_i _ _ hdq
        simp [hdq, alookup, validateFields]
      · rename_i _ _ yv hdq
        simp [hdq, alookup, validateFields, typed_validates t x yv hx hi]
      · simp at hi
  | .array t, tid, v, hd, hi => by
    simp only [describes] at hd
    cases hk : resolveKind env S tid with
    | none => simp [hk] at hd
    | some k =>
      simp only [hk] at hd
      split at hd <;> try (simp at hd; done)
      rename_i x heq
      simp only [Option.some.injEq] at heq
      subst heq
      simp only [Bool.and_eq_true, decide_eq_true_eq] at hd
      obtain ⟨hv, hx⟩ := hd
      cases v <;> simp only [inhabits, Bool.false_eq_true] at hi
      rename_i ek es
      simp only [Bool.and_eq_true, decide_eq_true_eq, List.all_eq_true] at hi
      obtain ⟨hek, hall⟩ := hi
      subst hek
      obtain ⟨kx, hkx, hmx⟩ := describes_vkm t x hx
      simp only [validate, startArray, lookKind, hk, hkx, hmx, if_true, containerNone hv]
      split
      · rename_i hu8
        split
        · rfl
        · -- byte array: the element type is a plain `U8`
          cases t <;> simp [Ty.vk] at hu8
          subst hu8
          obtain ⟨hk8, hv8⟩ := resolvesTo_spec (by simpa [describes] using hx)
          simp [validateBatch, hk8, hv8, batchCheck, valueKindMatches]
      · exact validateAll_of_forall es (fun e he => typed_validates t x e hx (hall e he))
  | .pair a b, tid, v, hd, hi => by
    simp only [describes] at hd
    cases hk : resolveKind env S tid with
    | none => simp [hk] at hd
    | some k =>
      simp only [hk] at hd
      split at hd <;> try (simp at hd; done)
      rename_i x y heq
      simp only [Option.some.injEq] at heq
      subst heq
      simp only [Bool.and_eq_true, decide_eq_true_eq] at hd
      obtain ⟨⟨hv, hx⟩, hy⟩ := hd
      cases v <;> simp only [inhabits, Bool.false_eq_true] at hi
      rename_i fs
      split at hi <;> try (simp at hi; done)
      rename_i p q
      simp only [Bool.and_eq_true] at hi
      simp [validate, startTuple, lookKind, hk, containerNone hv, validateFields,
        typed_validates a x p hx hi.1, typed_validates b y q hy hi.2]
  | .map kt vt, tid, v, hd, hi => by
    simp only [describes] at hd
    cases hk : resolveKind env S tid with
    | none => simp [hk] at hd
    | some k =>
      simp only [hk] at hd
      split at hd <;> try (simp at hd; done)
      rename_i x y heq
      simp only [Option.some.injEq] at heq
      subst heq
      simp only [Bool.and_eq_true, decide_eq_true_eq] at hd
      obtain ⟨⟨hv, hx⟩, hy⟩ := hd
      cases v <;> simp only [inhabits, Bool.false_eq_true] at hi
      rename_i kk vk es
      simp only [Bool.and_eq_true, decide_eq_true_eq, List.all_eq_true] at hi
      obtain ⟨⟨hkk, hvk⟩, hall⟩ := hi
      subst hkk; subst hvk
      obtain ⟨kx, hkx, hmx⟩ := describes_vkm kt x hx
      obtain ⟨ky, hky, hmy⟩ := describes_vkm vt y hy
      simp only [validate, startMap, lookKind, hk, hkx, hmx, hky, hmy, Bool.not_true, Bool.false_eq_true, if_false,
        containerNone hv]
      exact validateEntries_of_forall es (fun e he =>
        ⟨typed_validates kt x e.1 hx (hall e he).1, typed_validates vt y e.2 hy (hall e he).2⟩)
  | .result a b, tid, v, hd, hi => by
    simp only [describes] at hd
    cases hk : resolveKind env S tid with
    | none => simp [hk] at hd
    | some k =>
      simp only [hk] at hd
      split at hd <;> try (simp at hd; done)
      rename_i x y heq
      simp only [Option.some.injEq] at heq
      subst heq
      simp only [Bool.and_eq_true, decide_eq_true_eq] at hd
      obtain ⟨⟨hv, hx⟩, hy⟩ := hd
      cases v <;> simp only [inhabits, Bool.false_eq_true] at hi
      rename_i d fs
      simp only [validate, startEnum, lookKind, hk, containerNone hv]
      split at hi
      · rename_i _ _ pv hdq
        simp [hdq, alookup, validateFields, typed_validates a x pv hx hi]
      · rename_i _ _ qv hdq
        simp [hdq, alookup, validateFields, typed_validates b y qv hy hi]
      · simp at hi

end Radix.Schema
