import RadixModel.Model.TxValidation
/-
Helper lemmas for C34: one-step characterisations of the validators and of the aggregation.
-/
deriving instance DecidableEq for Except

namespace Radix.TxValidation

/-! ### timestamps -/

/-- `t` respects an optional inclusive lower bound -/
def loOk : Option Int → Int → Prop
  | none, _ => True
  | some l, t => l ≤ t

/-- `t` respects an optional exclusive upper bound -/
def hiOk : Option Int → Int → Prop
  | none, _ => True
  | some u, t => t < u

theorem mergeLo_ok (cur new : Option Int) (t : Int) :
    loOk (mergeLo cur new) t ↔ loOk cur t ∧ loOk new t := by
  cases cur with
  | none => cases new <;> simp [mergeLo, loOk]
  | some c =>
    cases new with
    | none => simp [mergeLo, loOk]
    | some t =>
      simp only [mergeLo]
      split <;> simp only [loOk] <;> omega

theorem mergeHi_ok (cur new : Option Int) (t : Int) :
    hiOk (mergeHi cur new) t ↔ hiOk cur t ∧ hiOk new t := by
  cases cur with
  | none => cases new <;> simp [mergeHi, hiOk]
  | some c =>
    cases new with
    | none => simp [mergeHi, hiOk]
    | some t =>
      simp only [mergeHi]
      split <;> simp only [hiOk] <;> omega

/-- the emptiness test of the code is exactly emptiness of the optional interval -/
theorem tsEmpty_false_iff (lo hi : Option Int) :
    tsEmpty lo hi = false ↔ ∃ t, loOk lo t ∧ hiOk hi t := by
  cases lo with
  | none =>
    cases hi with
    | none => simp [tsEmpty, loOk, hiOk]
    | some u => simp only [tsEmpty, loOk, hiOk, true_and, true_iff]; exact ⟨u - 1, by omega⟩
  | some l =>
    cases hi with
    | none => simp only [tsEmpty, loOk, hiOk, and_true, true_iff]; exact ⟨l, by omega⟩
    | some u =>
      simp only [tsEmpty, loOk, hiOk, decide_eq_false_iff_not]
      constructor
      · intro h; exact ⟨l, by omega⟩
      · rintro ⟨t, h1, h2⟩; omega

/-! ### headers -/

def NetOk (req : Option Nat) (net : Nat) : Prop := ∀ r, req = some r → net = r

theorem netMismatch_false_iff (req : Option Nat) (net : Nat) : netMismatch req net = false ↔ NetOk req net := by
  cases req <;> simp [netMismatch, NetOk]

/-- the epoch window of one intent is non-empty and no longer than the configured maximum
(computed without overflow, as `Epoch::after` does) -/
def EpochsOk (c : Config) (s e : Nat) : Prop :=
  s < e ∧ s + c.maxEpochRange ≤ U64MAX ∧ e ≤ s + c.maxEpochRange

theorem checkNetEpoch_ok_iff (c : Config) (req : Option Nat) (net s e : Nat) :
    checkNetEpoch c req net s e = .ok () ↔ NetOk req net ∧ EpochsOk c s e := by
  unfold checkNetEpoch EpochsOk
  rw [← netMismatch_false_iff]
  cases netMismatch req net
  · by_cases c1 : e ≤ s
    · simp [c1] <;> omega
    · by_cases c2 : s + c.maxEpochRange > U64MAX
      · simp [c1, c2] <;> omega
      · by_cases c3 : e > s + c.maxEpochRange
        · simp [c1, c2, c3] <;> omega
        · simp [c1, c2, c3] <;> omega
  · simp

/-- which error, in the order of the checks -/
theorem checkNetEpoch_error (c : Config) (req : Option Nat) (net s e : Nat) :
    (checkNetEpoch c req net s e = .error .invalidNetwork ↔ ¬ NetOk req net) ∧
    (checkNetEpoch c req net s e = .error .invalidEpochRange ↔ NetOk req net ∧ ¬ EpochsOk c s e) := by
  unfold checkNetEpoch EpochsOk
  rw [← netMismatch_false_iff]
  cases netMismatch req net
  · by_cases c1 : e ≤ s
    · simp [c1] <;> omega
    · by_cases c2 : s + c.maxEpochRange > U64MAX
      · simp [c1, c2] <;> omega
      · by_cases c3 : e > s + c.maxEpochRange
        · simp [c1, c2, c3] <;> omega
        · simp [c1, c2, c3] <;> omega
  · simp

/-- membership of an epoch in the aggregated window -/
def inAgg (a : Agg) (x : Nat) : Prop := a.startEpoch ≤ x ∧ x < a.endEpoch

def tsInAgg (a : Agg) (t : Int) : Prop := loOk a.startTs t ∧ hiOk a.endTs t

def inHeader (h : IntentHeaderV2) (x : Nat) : Prop := h.startEpoch ≤ x ∧ x < h.endEpoch

def tsInHeader (h : IntentHeaderV2) (t : Int) : Prop := loOk h.minTs t ∧ hiOk h.maxTs t

/-- one intent's header is within the configured limits -/
def HeaderOk (c : Config) (req : Option Nat) (h : IntentHeaderV2) : Prop :=
  NetOk req h.net ∧ EpochsOk c h.startEpoch h.endEpoch ∧ ∃ t, tsInHeader h t

theorem updateHeaders_ok_iff (a : Agg) (s e : Nat) (ts te : Option Int) (a' : Agg) :
    a.updateHeaders s e ts te = .ok a' ↔
      (∃ x, inAgg a x ∧ s ≤ x ∧ x < e) ∧ (∃ t, tsInAgg a t ∧ loOk ts t ∧ hiOk te t) ∧
      a' = { a with startEpoch := if s > a.startEpoch then s else a.startEpoch,
                    endEpoch := if e < a.endEpoch then e else a.endEpoch,
                    startTs := mergeLo a.startTs ts, endTs := mergeHi a.endTs te } := by
  unfold Agg.updateHeaders
  have hts : tsEmpty (mergeLo a.startTs ts) (mergeHi a.endTs te) = false ↔
      ∃ t, tsInAgg a t ∧ loOk ts t ∧ hiOk te t := by
    rw [tsEmpty_false_iff]
    constructor
    · rintro ⟨t, h1, h2⟩
      rw [mergeLo_ok] at h1; rw [mergeHi_ok] at h2
      exact ⟨t, ⟨h1.1, h2.1⟩, h1.2, h2.2⟩
    · rintro ⟨t, ⟨h1, h2⟩, h3, h4⟩
      exact ⟨t, (mergeLo_ok _ _ _).mpr ⟨h1, h3⟩, (mergeHi_ok _ _ _).mpr ⟨h2, h4⟩⟩
  have hep : ¬ ((if s > a.startEpoch then s else a.startEpoch) ≥ (if e < a.endEpoch then e else a.endEpoch)) ↔
      ∃ x, inAgg a x ∧ s ≤ x ∧ x < e := by
    unfold inAgg
    constructor
    · intro h
      refine ⟨if s > a.startEpoch then s else a.startEpoch, ?_⟩
      split at h <;> split at h <;> (split <;> omega)
    · rintro ⟨x, ⟨h1, h2⟩, h3, h4⟩
      split <;> split <;> omega
  simp only
  by_cases c1 : (if s > a.startEpoch then s else a.startEpoch) ≥ (if e < a.endEpoch then e else a.endEpoch)
  · rw [if_pos c1]
    have : ¬ ∃ x, inAgg a x ∧ s ≤ x ∧ x < e := fun hx => (hep.mpr hx) c1
    simp [this]
  · rw [if_neg c1]
    have hx := hep.mp c1
    cases hE : tsEmpty (mergeLo a.startTs ts) (mergeHi a.endTs te)
    · have ht := hts.mp hE
      simp only [Bool.false_eq_true, if_false, Except.ok.injEq]
      constructor
      · intro h; exact ⟨hx, ht, h.symm⟩
      · rintro ⟨_, _, h⟩; exact h.symm
    · have : ¬ ∃ t, tsInAgg a t ∧ loOk ts t ∧ hiOk te t := by
        intro ht; rw [hts.mpr ht] at hE; cases hE
      simp [this]

theorem tsEmpty_header_false_iff (h : IntentHeaderV2) :
    tsEmpty h.minTs h.maxTs = false ↔ ∃ t, tsInHeader h t := by
  rw [tsEmpty_false_iff]; rfl

/-- **one header step**: accepted iff the header is within limits and the running intersections stay
non-empty; the new aggregation is the intersection. -/
theorem validateIntentHeaderV2_ok_iff (c : Config) (req : Option Nat) (h : IntentHeaderV2) (a a' : Agg) :
    validateIntentHeaderV2 c req h a = .ok a' ↔
      HeaderOk c req h ∧ (∃ x, inAgg a x ∧ inHeader h x) ∧ (∃ t, tsInAgg a t ∧ tsInHeader h t) ∧
      a' = { a with startEpoch := if h.startEpoch > a.startEpoch then h.startEpoch else a.startEpoch,
                    endEpoch := if h.endEpoch < a.endEpoch then h.endEpoch else a.endEpoch,
                    startTs := mergeLo a.startTs h.minTs, endTs := mergeHi a.endTs h.maxTs } := by
  unfold validateIntentHeaderV2 HeaderOk
  cases hc : checkNetEpoch c req h.net h.startEpoch h.endEpoch with
  | error e =>
    have : ¬ (NetOk req h.net ∧ EpochsOk c h.startEpoch h.endEpoch) := by
      rw [← checkNetEpoch_ok_iff, hc]; simp
    refine ⟨fun h => (by cases h), ?_⟩
    rintro ⟨⟨h1, h2, _⟩, _⟩
    exact absurd ⟨h1, h2⟩ this
  | ok u =>
    have hne := (checkNetEpoch_ok_iff c req h.net h.startEpoch h.endEpoch).mp hc
    simp only
    cases hE : tsEmpty h.minTs h.maxTs
    · have ht := (tsEmpty_header_false_iff h).mp hE
      simp only [Bool.false_eq_true, if_false]
      rw [updateHeaders_ok_iff]
      unfold inHeader tsInHeader at *
      constructor
      · rintro ⟨hx, ht', ha⟩; exact ⟨⟨hne.1, hne.2, ht⟩, hx, ht', ha⟩
      · rintro ⟨_, hx, ht', ha⟩; exact ⟨hx, ht', ha⟩
    · have : ¬ ∃ t, tsInHeader h t := by
        intro ht; rw [(tsEmpty_header_false_iff h).mpr ht] at hE; cases hE
      simp only [if_true]
      refine ⟨fun h => (by cases h), ?_⟩
      rintro ⟨⟨_, _, ht⟩, _⟩
      exact absurd ht this

theorem inAgg_step (a : Agg) (h : IntentHeaderV2) (x : Nat) :
    inAgg { a with startEpoch := if h.startEpoch > a.startEpoch then h.startEpoch else a.startEpoch,
                   endEpoch := if h.endEpoch < a.endEpoch then h.endEpoch else a.endEpoch,
                   startTs := mergeLo a.startTs h.minTs, endTs := mergeHi a.endTs h.maxTs } x ↔
      inAgg a x ∧ inHeader h x := by
  unfold inAgg inHeader
  simp only
  split <;> split <;> omega

theorem tsInAgg_step (a : Agg) (h : IntentHeaderV2) (t : Int) :
    tsInAgg { a with startEpoch := if h.startEpoch > a.startEpoch then h.startEpoch else a.startEpoch,
                     endEpoch := if h.endEpoch < a.endEpoch then h.endEpoch else a.endEpoch,
                     startTs := mergeLo a.startTs h.minTs, endTs := mergeHi a.endTs h.maxTs } t ↔
      tsInAgg a t ∧ tsInHeader h t := by
  unfold tsInAgg tsInHeader
  simp only [mergeLo_ok, mergeHi_ok]
  constructor
  · rintro ⟨⟨a1, a2⟩, b1, b2⟩; exact ⟨⟨a1, b1⟩, a2, b2⟩
  · rintro ⟨⟨a1, b1⟩, a2, b2⟩; exact ⟨⟨a1, a2⟩, b1, b2⟩

/-! ### messages -/

def decSum : List DecEntry → Nat
  | [] => 0
  | d :: ds => d.count + decSum ds

theorem decLoop_ok_iff (total : Nat) (ds : List DecEntry) (t : Nat) :
    decLoop total ds = .ok t ↔ (∀ d ∈ ds, d.val = d.key ∧ 0 < d.count) ∧ t = total + decSum ds := by
  induction ds generalizing total with
  | nil => simp [decLoop, decSum]; exact eq_comm
  | cons d ds ih =>
    unfold decLoop
    by_cases c1 : d.val ≠ d.key
    · rw [if_pos c1]
      refine ⟨fun h => (by cases h), ?_⟩
      intro h
      exact absurd (h.1 d (List.mem_cons_self ..)).1 c1
    · have c1' : d.val = d.key := by simpa using c1
      by_cases c2 : d.count = 0
      · rw [if_neg c1, if_pos c2]
        refine ⟨fun h => (by cases h), ?_⟩
        intro h
        have := (h.1 d (List.mem_cons_self ..)).2
        omega
      · rw [if_neg c1, if_neg c2]
        simp only [List.mem_cons, forall_eq_or_imp]
        rw [ih]
        simp only [decSum]
        constructor
        · rintro ⟨h1, h2⟩; exact ⟨⟨⟨c1', by omega⟩, h1⟩, by omega⟩
        · rintro ⟨⟨_, h1⟩, h2⟩; exact ⟨h1, by omega⟩

/-! ### reference counts -/

def natSum : List Nat → Nat
  | [] => 0
  | n :: ns => n + natSum ns

theorem foldRefs_ok_iff (c : Config) (i : Nat) (a : Agg) (cs : List Nat) (a' : Agg) (ha : a.totalRefs ≤ USIZEMAX) :
    foldRefs c i a cs = .ok a' ↔
      (∀ n ∈ cs, n ≤ c.maxRefsPerIntent) ∧
      a' = { a with totalRefs := min (a.totalRefs + natSum cs) USIZEMAX } := by
  induction cs generalizing i a with
  | nil =>
    simp only [foldRefs, natSum, Except.ok.injEq, List.not_mem_nil, false_imp_iff, implies_true, true_and,
      Nat.add_zero]
    rw [Nat.min_eq_left ha]
    exact eq_comm
  | cons n ns ih =>
    unfold foldRefs Agg.recordReferenceCount
    by_cases c1 : n > c.maxRefsPerIntent
    · simp only [c1, if_true]
      refine ⟨fun h => (by cases h), ?_⟩
      intro h
      have := h.1 n (List.mem_cons_self ..)
      omega
    · simp only [c1, if_false, List.mem_cons, forall_eq_or_imp]
      rw [ih]
      · simp only [natSum]
        have e : min ((if a.totalRefs + n > USIZEMAX then USIZEMAX else a.totalRefs + n) + natSum ns) USIZEMAX
            = min (a.totalRefs + (n + natSum ns)) USIZEMAX := by
          split <;> omega
        rw [e]
        constructor
        · rintro ⟨h1, h2⟩; exact ⟨⟨by omega, h1⟩, h2⟩
        · rintro ⟨⟨_, h1⟩, h2⟩; exact ⟨h1, h2⟩
      · simp only; split <;> omega

/-! ### signature counts -/

theorem sigSubs_ok_iff (c : Config) (i total : Nat) (ns : List Nat) (t : Nat) :
    sigSubs c i total ns = .ok t ↔ (∀ n ∈ ns, n ≤ c.maxSignerSigsPerIntent) ∧ t = total + natSum ns := by
  induction ns generalizing i total with
  | nil => simp [sigSubs, natSum]; exact eq_comm
  | cons n ns ih =>
    unfold sigSubs
    by_cases c1 : n > c.maxSignerSigsPerIntent
    · simp only [c1, if_true]
      refine ⟨fun h => (by cases h), ?_⟩
      intro h
      have := h.1 n (List.mem_cons_self ..)
      omega
    · simp only [c1, if_false, List.mem_cons, forall_eq_or_imp]
      rw [ih]
      simp only [natSum]
      constructor
      · rintro ⟨h1, h2⟩; exact ⟨⟨by omega, h1⟩, by omega⟩
      · rintro ⟨⟨_, h1⟩, h2⟩; exact ⟨h1, by omega⟩

end Radix.TxValidation
