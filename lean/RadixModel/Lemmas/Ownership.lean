import RadixModel.Model.Ownership

/-! Helper lemmas for C05 (kernel ownership model). -/
namespace Radix.Own

open Radix.Locks (upd)

/-- every reference in every substate of the list is a global address -/
def AllRefsGlobal (subs : List (Nat × Val)) : Prop :=
  ∀ kv ∈ subs, ∀ r ∈ kv.2.refs, isGlobal r = true

/-- node `n` lives in the track (store) -/
def Stored (s : St) (n : Nat) : Prop := ∃ subs, s.node n = some ⟨.store, subs⟩

/-- every node owned by one of the substates lives in the track -/
def ChildrenStored (s : St) (subs : List (Nat × Val)) : Prop :=
  ∀ kv ∈ subs, ∀ o ∈ kv.2.owns, Stored s o

theorem upd_same {α β : Type} [DecidableEq α] (f : α → β) (a : α) (b : β) : upd f a b a = b := by
  simp [upd]

theorem upd_other {α β : Type} [DecidableEq α] (f : α → β) (a x : α) (b : β) (h : x ≠ a) :
    upd f a b x = f x := by
  simp [upd, h]

theorem anyRefs_false {subs : List (Nat × Val)}
    (h : (subs.any fun kv => kv.2.refs.any fun r => !isGlobal r) = false) : AllRefsGlobal subs := by
  intro kv hkv r hr
  rw [List.any_eq_false] at h
  have h1 := h kv hkv
  simp only [Bool.not_eq_true] at h1
  rw [List.any_eq_false] at h1
  have h2 := h1 r hr
  simpa using h2

/-- What one run of the queue loop of `move_node_from_heap_to_store` guarantees, for every fuel, queue
and start state: the frame's owned list and every substate value are untouched; a node is never
created or deleted; a node either keeps its device or goes heap → store, and in the latter case all
its references are global and all the nodes it owns are in the store at the end; every node that was
in the queue is in the store at the end. -/
theorem moveLoop_spec (fuel : Nat) : ∀ (q : List Nat) (s s' : St), moveLoop fuel q s = .ok s' →
    s'.owned = s.owned ∧ s'.created = s.created ∧ s'.opens = s.opens ∧ s'.locks = s.locks ∧
    (∀ p, s.node p = none → s'.node p = none) ∧
    (∀ p nd, s.node p = some nd →
      s'.node p = some nd ∨
      (nd.dev = .heap ∧ s'.node p = some ⟨.store, nd.subs⟩ ∧ AllRefsGlobal nd.subs ∧
        ChildrenStored s' nd.subs)) ∧
    (∀ n ∈ q, Stored s' n) := by
  induction fuel with
  | zero =>
    intro q s s' h
    cases q with
    | nil =>
      simp only [moveLoop, Except.ok.injEq] at h
      subst h
      exact ⟨rfl, rfl, rfl, rfl, fun _ hp => hp, fun _ _ hp => Or.inl hp, fun _ hn => by cases hn⟩
    | cons n q' => simp [moveLoop] at h
  | succ f ih =>
    intro q s s' h
    cases q with
    | nil =>
      simp only [moveLoop, Except.ok.injEq] at h
      subst h
      exact ⟨rfl, rfl, rfl, rfl, fun _ hp => hp, fun _ _ hp => Or.inl hp, fun _ hn => by cases hn⟩
    | cons n q' =>
      simp only [moveLoop] at h
      split at h
      · cases h
      · split at h
        · cases h
        · split at h
          next subs hn =>
            split at h
            · cases h
            next hrefs =>
              have hrefs' : AllRefsGlobal subs := anyRefs_false (by simpa using hrefs)
              obtain ⟨ho, hc, hop, hl, hnone, hsome, hq⟩ := ih _ _ _ h
              have hnS : s'.node n = some ⟨.store, subs⟩ := by
                have := hsome n ⟨.store, subs⟩ (by simp [upd])
                rcases this with h1 | ⟨h1, _⟩
                · exact h1
                · cases h1
              refine ⟨ho, hc, hop, hl, ?_, ?_, ?_⟩
              · intro p hp
                have hpn : p ≠ n := by
                  intro e; subst e; rw [hn] at hp; cases hp
                exact hnone p (by simp [upd, hpn, hp])
              · intro p nd hp
                by_cases hpn : p = n
                · subst hpn
                  rw [hn] at hp
                  cases hp
                  right
                  refine ⟨rfl, hnS, hrefs', ?_⟩
                  intro kv hkv o ho'
                  apply hq
                  apply List.mem_append_right
                  rw [List.mem_flatMap]
                  exact ⟨kv, hkv, ho'⟩
                · exact hsome p nd (by simp [upd, hpn, hp])
              · intro m hm
                rcases List.mem_cons.mp hm with e | hm'
                · subst e; exact ⟨subs, hnS⟩
                · exact hq m (List.mem_append_left _ hm')
          · cases h

/-- `take_node_internal` repeated: on success every taken node was frame-owned and not locked, the
taken nodes are pairwise distinct, and the frame afterwards owns exactly the others. -/
theorem takeAll_spec : ∀ (xs : List Nat) (s s' : St), takeAll xs s = .ok s' →
    s'.node = s.node ∧ s'.locks = s.locks ∧ s'.created = s.created ∧ s'.opens = s.opens ∧
    xs.Nodup ∧ (∀ x ∈ xs, x ∈ s.owned ∧ nodeIsLocked s x = false) ∧
    (∀ y, y ∈ s'.owned ↔ (y ∈ s.owned ∧ y ∉ xs)) := by
  intro xs
  induction xs with
  | nil =>
    intro s s' h
    simp only [takeAll, Except.ok.injEq] at h
    subst h
    simp
  | cons x r ih =>
    intro s s' h
    simp only [takeAll, takeNode] at h
    split at h
    · cases h
    next s1 h1 =>
      split at h1
      · cases h1
      next hl =>
        split at h1
        next hx =>
          simp only [Except.ok.injEq] at h1
          subst h1
          obtain ⟨a, b, c, d, e, f, g⟩ := ih _ _ h
          refine ⟨a, b, c, d, ?_, ?_, ?_⟩
          · refine List.nodup_cons.mpr ⟨?_, e⟩
            intro hxr
            have := (f x hxr).1
            simp at this
          · intro y hy
            rcases List.mem_cons.mp hy with e1 | hy'
            · subst e1
              exact ⟨hx, by simpa using hl⟩
            · have := f y hy'
              simp only [List.mem_filter] at this
              exact ⟨this.1.1, this.2⟩
          · intro y
            rw [g y]
            simp only [List.mem_filter, List.mem_cons, bne_iff_ne, ne_eq]
            constructor
            · rintro ⟨⟨h1, h2⟩, h3⟩
              exact ⟨h1, fun h4 => h4.elim h2 h3⟩
            · rintro ⟨h1, h2⟩
              exact ⟨⟨h1, fun e => h2 (Or.inl e)⟩, fun e => h2 (Or.inr e)⟩
        · cases h1

end Radix.Own
