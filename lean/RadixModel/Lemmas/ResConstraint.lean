/-
C37 — helper lemmas for `RadixModel/Model/ResConstraint.lean`.
-/
import RadixModel.Model.ResConstraint
import Batteries.Data.List.Perm

namespace Radix.ResConstraint

instance : DecidableEq (Except Err Unit) := fun a b =>
  match a, b with
  | .ok (), .ok () => isTrue rfl
  | .error e1, .error e2 =>
    if h : e1 = e2 then isTrue (by rw [h]) else isFalse (by intro hh; cases hh; exact h rfl)
  | .ok _, .error _ => isFalse (by intro h; cases h)
  | .error _, .ok _ => isFalse (by intro h; cases h)

/-! ### id sets as duplicate-free lists -/

theorem firstNotIn_eq_none {a b : List Nat} : firstNotIn a b = none ↔ ∀ x ∈ a, x ∈ b := by
  simp [firstNotIn, List.find?_eq_none]

theorem firstNotIn_eq_some {a b : List Nat} {x : Nat} (h : firstNotIn a b = some x) :
    x ∈ a ∧ x ∉ b := by
  unfold firstNotIn at h
  have h1 := List.mem_of_find?_eq_some h
  have h2 := List.find?_some h
  simp at h2
  exact ⟨h1, h2⟩

theorem firstNotIn_isSome {a b : List Nat} : (∃ x, firstNotIn a b = some x) ↔ ¬ ∀ x ∈ a, x ∈ b := by
  rw [← firstNotIn_eq_none]
  cases firstNotIn a b <;> simp

theorem length_le_of_subset {a b : List Nat} (ha : a.Nodup) (h : ∀ x ∈ a, x ∈ b) :
    a.length ≤ b.length :=
  (List.subperm_of_subset ha h).length_le

/-- A duplicate-free subset that is at least as long as its superset is the whole superset. -/
theorem superset_subset_of_length_le {a b : List Nat} (ha : a.Nodup) (h : ∀ x ∈ a, x ∈ b)
    (hl : b.length ≤ a.length) : ∀ x ∈ b, x ∈ a :=
  fun _ hx => ((List.subperm_of_subset ha h).perm_of_length_le hl).mem_iff.mpr hx

theorem isSubset_imp {a b : List Nat} (h : isSubset a b = true) :
    a.length ≤ b.length ∧ ∀ x ∈ a, x ∈ b := by
  simpa [isSubset] using h

theorem isSubset_iff {a b : List Nat} (ha : a.Nodup) : isSubset a b = true ↔ ∀ x ∈ a, x ∈ b := by
  constructor
  · exact fun h => (isSubset_imp h).2
  · intro h
    have := length_le_of_subset ha h
    simp [isSubset, this]
    exact h

/-! ### decimals -/

theorem fromLen_def (n : Nat) : fromLen n = (n : Int) * 1000000000000000000 := rfl

theorem fromLen_le {a b : Nat} : fromLen a ≤ fromLen b ↔ a ≤ b := by
  simp only [fromLen_def]; omega

theorem fromLen_lt {a b : Nat} : fromLen a < fromLen b ↔ a < b := by
  simp only [fromLen_def]; omega

theorem fromLen_inj {a b : Nat} : fromLen a = fromLen b ↔ a = b := by
  simp only [fromLen_def]; omega

theorem fromLen_nonneg (a : Nat) : 0 ≤ fromLen a := by
  simp only [fromLen_def]; omega

theorem fromLen_ne_DMAX (a : Nat) : fromLen a ≠ DMAX := by
  simp only [fromLen_def, DMAX]; omega

/-- `Decimal::from(usize)` cannot overflow: `usize::MAX * 10^18 ≤ Decimal::MAX`. -/
theorem fromLen_usize_in_range (n : Nat) (h : n < 2 ^ 64) : fromLen n ≤ DMAX := by
  simp only [fromLen_def, DMAX]; omega

/-- The validity test "non-negative and equal to its own floor" holds exactly for the whole
numbers `k·10^18`. -/
theorem nonNegInteger_iff (d : Int) : nonNegInteger d = true ↔ ∃ k : Nat, d = fromLen k := by
  unfold nonNegInteger checkedFloor
  constructor
  · intro h
    simp only [Bool.and_eq_true, Bool.not_eq_true', decide_eq_false_iff_not, Int.not_lt] at h
    obtain ⟨h0, h1⟩ := h
    by_cases hr : Int.tmod d ONE = 0
    · refine ⟨(d / ONE).toNat, ?_⟩
      have hm : d % ONE = 0 := by
        rw [Int.tmod_eq_emod_of_nonneg h0] at hr; exact hr
      simp only [fromLen_def]
      simp only [ONE] at hm ⊢
      omega
    · exfalso
      simp only [hr, if_false] at h1
      have hpos : 0 < Int.tmod d ONE := by
        have : 0 ≤ Int.tmod d ONE := Int.tmod_nonneg _ h0
        omega
      have hnl : ¬ (Int.tmod d ONE < 0) := by omega
      simp only [hnl, if_false] at h1
      split at h1
      · simp at h1
      · simp at h1; omega
  · rintro ⟨k, rfl⟩
    have h0 : ¬ (fromLen k < 0) := by have := fromLen_nonneg k; omega
    have hr : Int.tmod (fromLen k) ONE = 0 := by
      rw [Int.tmod_eq_emod_of_nonneg (fromLen_nonneg k)]
      simp only [fromLen_def, ONE]; omega
    simp [h0, hr]

theorem mem_le_sum {l : List Nat} {x : Nat} (h : x ∈ l) : x ≤ l.sum := by
  induction l with
  | nil => cases h
  | cons a t ih =>
    simp only [List.mem_cons] at h
    simp only [List.sum_cons]
    rcases h with rfl | h
    · omega
    · have := ih h; omega

/-- `k` ids that do not occur in `l`. -/
def fresh (l : List Nat) (k : Nat) : List Nat := (List.range k).map (fun i => i + l.sum + 1)

theorem fresh_length (l : List Nat) (k : Nat) : (fresh l k).length = k := by simp [fresh]

theorem fresh_nodup (l : List Nat) (k : Nat) : (fresh l k).Nodup := by
  unfold fresh
  simp only [List.Nodup, List.pairwise_map]
  have h : (List.range k).Pairwise (· ≠ ·) := List.nodup_range
  exact h.imp (fun {a b} hab => by omega)

theorem fresh_not_mem {l : List Nat} {k x : Nat} (h : x ∈ fresh l k) : x ∉ l := by
  intro hx
  have := mem_le_sum hx
  simp only [fresh, List.mem_map, List.mem_range] at h
  obtain ⟨i, _, rfl⟩ := h
  omega

/-- The part of `allow` outside `req` has at least `|allow| - |req|` elements. -/
theorem filter_notin_length {req allow : List Nat} (hallow : allow.Nodup) :
    allow.length ≤ (allow.filter (fun x => !req.contains x)).length + req.length := by
  have hsplit : allow.length = (allow.filter (fun x => req.contains x)).length
      + (allow.filter (fun x => !req.contains x)).length := by
    induction allow with
    | nil => simp
    | cons a t ih =>
      have := ih (List.nodup_cons.mp hallow).2
      by_cases h : req.contains a = true
      · simp only [List.filter_cons, h, if_true, Bool.not_true, Bool.false_eq_true, if_false, List.length_cons]; omega
      · simp only [Bool.not_eq_true] at h
        simp only [List.filter_cons, h, Bool.false_eq_true, if_false, Bool.not_false, if_true, List.length_cons]; omega
  have hin : (allow.filter (fun x => req.contains x)).length ≤ req.length := by
    apply length_le_of_subset (hallow.sublist List.filter_sublist)
    intro x hx
    simp only [List.mem_filter] at hx
    simpa using hx.2
  omega

end Radix.ResConstraint
