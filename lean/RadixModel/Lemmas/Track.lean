/-
Lemmas for C12 (`Model/Track.lean`): lookups through the tracked-node maps, the
`TrackedSubstateValue` state machine, and the representation invariants.
-/
import RadixModel.Model.Track
import RadixModel.Lemmas.SubstateDb
namespace Radix.Track
open Radix.KV Radix.SubstateDb

/-! ### TrackedSubstateValue -/

theorem TV.get_set (tv : TV) (v : Nat) : (tv.set v).get = some v := by
  cases tv with
  | new _ => rfl
  | readOnly r => cases r <;> rfl
  | readExistAndWrite old w => cases w <;> rfl
  | readNonExistAndWrite _ => rfl
  | writeOnly w => cases w <;> rfl
  | garbage => rfl

theorem TV.take_snd (tv : TV) : tv.take.2 = tv.get := by
  cases tv with
  | new _ => rfl
  | readOnly r => cases r <;> rfl
  | readExistAndWrite old w => cases w <;> rfl
  | readNonExistAndWrite _ => rfl
  | writeOnly w => cases w <;> rfl
  | garbage => rfl

theorem TV.take_fst_get (tv : TV) : tv.take.1.get = none := by
  cases tv with
  | new _ => rfl
  | readOnly r => cases r <;> rfl
  | readExistAndWrite old w => cases w <;> rfl
  | readNonExistAndWrite _ => rfl
  | writeOnly w => cases w <;> rfl
  | garbage => rfl

/-- taking an absent substate changes nothing -/
theorem TV.take_absent (tv : TV) (h : tv.get = none) : tv.take = (tv, none) := by
  cases tv with
  | new _ => simp [TV.get] at h
  | readOnly r => cases r <;> simp [TV.get] at h ⊢ <;> rfl
  | readExistAndWrite old w => cases w <;> simp [TV.get] at h ⊢ <;> rfl
  | readNonExistAndWrite _ => simp [TV.get] at h
  | writeOnly w => cases w <;> simp [TV.get] at h ⊢ <;> rfl
  | garbage => rfl

/-! ### lookups -/

/-- the tracked substates of partition `(n, p)` (empty when the node / partition is not tracked) -/
def partOf (nodes : Nodes) (n p : Nat) : TPart :=
  match IMap.get? nodes n with
  | none => []
  | some nd =>
    match IMap.get? nd.parts p with
    | none => []
    | some part => part

def isNewIn (nodes : Nodes) (n : Nat) : Bool :=
  match IMap.get? nodes n with
  | none => false
  | some nd => nd.isNew

theorem lookupIn_eq (nodes : Nodes) (n p k : Nat) :
    lookupIn nodes n p k = SMap.get? (partOf nodes n p) k := by
  unfold lookupIn partOf
  cases IMap.get? nodes n with
  | none => rfl
  | some nd => simp only []; cases IMap.get? nd.parts p <;> rfl

theorem partOf_alterPart (nodes : Nodes) (n p : Nat) (f : TPart → TPart) (n' p' : Nat) :
    partOf (alterPart nodes n p f) n' p'
      = if n' = n ∧ p' = p then f (partOf nodes n p) else partOf nodes n' p' := by
  unfold partOf alterPart
  rw [IMap.get?_alter]
  by_cases hn : n' = n
  · subst hn
    simp only [if_true, true_and]
    rw [IMap.get?_alter]
    by_cases hp : p' = p
    · subst hp
      simp only [if_true]
      cases IMap.get? nodes n' with
      | none => rfl
      | some nd => simp only []; cases IMap.get? nd.parts p' <;> rfl
    · simp only [hp, if_false]
      cases IMap.get? nodes n' with
      | none => rfl
      | some nd => rfl
  · simp only [hn, if_false, false_and]

theorem isNewIn_alterPart (nodes : Nodes) (n p : Nat) (f : TPart → TPart) (n' : Nat) :
    isNewIn (alterPart nodes n p f) n' = isNewIn nodes n' := by
  unfold isNewIn alterPart
  rw [IMap.get?_alter]
  by_cases hn : n' = n
  · subst hn
    simp only [if_true]
    cases IMap.get? nodes n' <;> rfl
  · simp only [hn, if_false]

theorem trackedOr_eq (t : Track) (n p : Nat) : trackedOr t n p = partOf t.nodes n p := by
  unfold trackedOr trackedPart partOf
  cases IMap.get? t.nodes n with
  | none => rfl
  | some nd => simp only []; cases IMap.get? nd.parts p <;> rfl

theorem nodeIsNew_eq (t : Track) (n : Nat) : nodeIsNew t n = isNewIn t.nodes n := rfl

theorem lookupIn_putIn (nodes : Nodes) (n p k : Nat) (tv : TV) (n' p' k' : Nat) :
    lookupIn (putIn nodes n p k tv) n' p' k'
      = if n' = n ∧ p' = p ∧ k' = k then some tv else lookupIn nodes n' p' k' := by
  simp only [lookupIn_eq, putIn, partOf_alterPart]
  by_cases h : n' = n ∧ p' = p
  · obtain ⟨rfl, rfl⟩ := h
    simp only [and_self, if_true, true_and, SMap.get?_insert]
  · simp only [h, if_false]
    have : ¬ (n' = n ∧ p' = p ∧ k' = k) := fun hh => h ⟨hh.1, hh.2.1⟩
    simp only [this, if_false]

theorem lookupIn_ensurePart (nodes : Nodes) (n p n' p' k' : Nat) :
    lookupIn (ensurePart nodes n p) n' p' k' = lookupIn nodes n' p' k' := by
  simp only [lookupIn_eq, ensurePart, partOf_alterPart]
  split
  · rename_i h; obtain ⟨rfl, rfl⟩ := h; rfl
  · rfl

/-! ### the abstraction -/

theorem eff_eq (t : Track) (n p k : Nat) :
    eff t n p k = match lookupIn t.nodes n p k with | some tv => tv.get | none => t.db.get (n, p) k := rfl

/-- `eff` after the tracked value of `(n,p,k)` is replaced by `tv` -/
theorem eff_putIn (t : Track) (n p k : Nat) (tv : TV) (n' p' k' : Nat) :
    eff { t with nodes := putIn t.nodes n p k tv } n' p' k'
      = if n' = n ∧ p' = p ∧ k' = k then tv.get else eff t n' p' k' := by
  simp only [eff_eq, lookupIn_putIn]
  by_cases h : n' = n ∧ p' = p ∧ k' = k
  · simp only [h, and_self, if_true]
  · simp only [h, if_false]

theorem getTracked_spec (t : Track) (n p k : Nat) :
    lookupTV (getTracked t n p k).1 n p k = some (getTracked t n p k).2 ∧
    (getTracked t n p k).2.get = eff t n p k ∧
    (∀ n' p' k', eff (getTracked t n p k).1 n' p' k' = eff t n' p' k') := by
  unfold getTracked
  cases h : lookupTV t n p k with
  | some tv =>
    refine ⟨h, ?_, fun _ _ _ => rfl⟩
    simp only [eff_eq]; unfold lookupTV at h; rw [h]
  | none =>
    simp only []
    refine ⟨?_, ?_, ?_⟩
    · unfold lookupTV; simp only [lookupIn_putIn, and_self, if_true]
    · unfold lookupTV at h
      simp only [eff_eq, h]
      cases t.db.get (n, p) k <;> rfl
    · intro n' p' k'
      rw [eff_putIn]
      split
      · rename_i hh; obtain ⟨rfl, rfl, rfl⟩ := hh
        unfold lookupTV at h
        simp only [eff_eq, h]
        cases t.db.get (n', p') k' <;> rfl
      · rfl

/-! ### representation invariant -/

/-- Representation invariant of a `Track`: the base database partitions and the tracked
partitions are `BTreeMap`s (strictly sorted), and a node marked `is_new` has nothing in the base
database ("Clients must ensure the `node_id` is new and unique"). -/
structure WF (t : Track) : Prop where
  dbWF : Db.WF t.db
  sorted : ∀ n p, SMap.Sorted (partOf t.nodes n p)
  fresh : ∀ n, isNewIn t.nodes n = true → ∀ p, t.db (n, p) = []

theorem eff_part (t : Track) (n p k : Nat) :
    eff t n p k = match SMap.get? (partOf t.nodes n p) k with
      | some tv => tv.get
      | none => SMap.get? (t.db (n, p)) k := by
  rw [eff_eq, lookupIn_eq]; rfl

theorem eff_ensurePart (t : Track) (n p n' p' k' : Nat) :
    eff { t with nodes := ensurePart t.nodes n p } n' p' k' = eff t n' p' k' := by
  simp only [eff_eq, lookupIn_ensurePart]

/-! ### scan_sorted_substates -/

/-- the tracked partition as the "changes" fed to the overlaying iterator -/
def changesOf (part : TPart) : List (Nat × Option Nat) := part.map (fun ktv => (ktv.1, ktv.2.get))

theorem scanSorted_eq (t : Track) (h : WF t) (n p limit : Nat) :
    (scanSortedSubstates t n p limit).2
      = (overlayIter (t.db (n, p)) (changesOf (partOf t.nodes n p))).take limit := by
  unfold scanSortedSubstates
  simp only [trackedOr_eq]
  have h1 : partOf (ensurePart t.nodes n p) n p = partOf t.nodes n p := by
    simp [ensurePart, partOf_alterPart]
  have h2 : isNewIn (ensurePart t.nodes n p) n = isNewIn t.nodes n := isNewIn_alterPart _ _ _ _ _
  rw [h1]
  show List.take limit (overlayIter (if isNewIn (ensurePart t.nodes n p) n = true then [] else t.db (n, p)) _) = _
  rw [h2]
  unfold changesOf
  by_cases hn : isNewIn t.nodes n = true
  · simp only [hn, if_true]
    rw [h.fresh n hn p]
  · simp only [hn]; rfl

theorem overlay_get?_eff (t : Track) (h : WF t) (n p k : Nat) :
    SMap.get? (overlayIter (t.db (n, p)) (changesOf (partOf t.nodes n p))) k = eff t n p k := by
  unfold changesOf
  rw [overlayIter_get? _ _ (h.dbWF (n, p)) (SMap.sorted_map _ _ (h.sorted n p))]
  unfold overlayGet
  rw [SMap.get?_map, eff_part]
  cases SMap.get? (partOf t.nodes n p) k <;> rfl

/-! ### scan_keys -/

def presentTracked (part : TPart) : List Nat :=
  (part.filter (fun x => x.2.get.isSome)).map (·.1)

def untrackedDb (part : TPart) (dbl : List (Nat × Nat)) : List (Nat × Nat) :=
  dbl.filter (fun x => !SMap.contains part x.1)

/-- all keys of partition `(n,p)` that a read finds present: tracked ones first (in key order),
then the untracked database ones (in key order) — the order in which `scan_keys` and
`drain_substates` visit them -/
def presentKeys (t : Track) (n p : Nat) : List Nat :=
  presentTracked (partOf t.nodes n p) ++ (untrackedDb (partOf t.nodes n p) (t.db (n, p))).map (·.1)

theorem scanTrackedKeys_eq (r : Nat) (part : TPart) :
    (scanTrackedKeys r part).1 = (presentTracked part).take r ∧
    (scanTrackedKeys r part).2 = r - ((presentTracked part).take r).length := by
  induction part generalizing r with
  | nil => cases r <;> simp [scanTrackedKeys, presentTracked]
  | cons hd rest ih =>
    obtain ⟨k, tv⟩ := hd
    cases r with
    | zero => simp [scanTrackedKeys]
    | succ r =>
      cases hg : tv.get with
      | some v =>
        have := ih r
        simp only [scanTrackedKeys, hg, presentTracked, List.filter_cons, Option.isSome_some, if_true,
          List.map_cons, List.take_succ_cons, List.length_cons]
        simp only [presentTracked] at this
        refine ⟨by rw [this.1], ?_⟩
        rw [this.2]; omega
      | none =>
        have := ih (r + 1)
        simp only [scanTrackedKeys, hg, presentTracked, List.filter_cons, Option.isSome_none]
        simp only [presentTracked] at this
        exact this

theorem scanDbKeys_eq (part : TPart) (r : Nat) (dbl : List (Nat × Nat)) :
    scanDbKeys part r dbl = ((untrackedDb part dbl).map (·.1)).take r := by
  induction dbl generalizing r with
  | nil => cases r <;> simp [scanDbKeys, untrackedDb]
  | cons hd rest ih =>
    obtain ⟨k, v⟩ := hd
    cases r with
    | zero => simp [scanDbKeys]
    | succ r =>
      simp only [scanDbKeys, untrackedDb, List.filter_cons]
      by_cases hc : SMap.contains part k = true
      · simp only [hc, if_true, Bool.not_true]
        have := ih (r + 1)
        simp only [untrackedDb] at this
        simpa using this
      · simp only [hc, Bool.not_eq_true] at hc ⊢
        simp only [hc, Bool.not_false, if_true, List.map_cons, List.take_succ_cons]
        have := ih r
        simp only [untrackedDb] at this
        simp [this]

theorem scanKeys_eq (t : Track) (h : WF t) (n p limit : Nat) :
    (scanKeys t n p limit).2 = (presentKeys t n p).take limit := by
  unfold scanKeys presentKeys
  simp only [trackedOr_eq]
  have hs := scanTrackedKeys_eq limit (partOf t.nodes n p)
  generalize hP : presentTracked (partOf t.nodes n p) = P at hs
  rcases hsc : scanTrackedKeys limit (partOf t.nodes n p) with ⟨items, rem⟩
  rw [hsc] at hs
  simp only at hs
  obtain ⟨h1, h2⟩ := hs
  have hlen : (P.take limit).length = min limit P.length := List.length_take
  simp only []
  by_cases hc : rem = 0 ∨ nodeIsNew t n = true
  · simp only [hc, if_true]
    rcases hc with hr | hnew
    · rw [h1, List.take_append_of_le_length (by omega)]
    · rw [h.fresh n hnew p]
      simp [untrackedDb, h1]
  · simp only [hc, if_false]
    rw [scanDbKeys_eq, h1, List.take_append]
    have : rem = limit - P.length := by omega
    rw [this]

theorem eff_scanKeys (t : Track) (n p limit n' p' k' : Nat) :
    eff (scanKeys t n p limit).1 n' p' k' = eff t n' p' k' := by
  unfold scanKeys
  simp only []
  rcases scanTrackedKeys limit (trackedOr t n p) with ⟨items, rem⟩
  simp only []
  split
  · rfl
  · exact eff_ensurePart t n p n' p' k'

theorem mem_presentKeys (t : Track) (h : WF t) (n p k : Nat) :
    k ∈ presentKeys t n p ↔ (eff t n p k).isSome = true := by
  unfold presentKeys presentTracked untrackedDb
  rw [eff_part]
  simp only [List.mem_append, List.mem_map, List.mem_filter, SMap.contains]
  constructor
  · rintro (⟨x, ⟨hx, hg⟩, rfl⟩ | ⟨x, ⟨hx, hc⟩, rfl⟩)
    · obtain ⟨k, tv⟩ := x
      rw [SMap.get?_of_mem _ (h.sorted n p) k tv hx]
      exact hg
    · obtain ⟨k, v⟩ := x
      simp only [Bool.not_eq_true', Option.isSome_eq_false_iff, Option.isNone_iff_eq_none] at hc
      simp only [hc]
      rw [SMap.get?_of_mem _ (h.dbWF (n, p)) k v hx]
      rfl
  · intro hk
    cases hg : SMap.get? (partOf t.nodes n p) k with
    | some tv =>
      rw [hg] at hk
      left
      exact ⟨(k, tv), ⟨SMap.mem_of_get? _ k tv hg, hk⟩, rfl⟩
    | none =>
      rw [hg] at hk
      simp only at hk
      cases hd : SMap.get? (t.db (n, p)) k with
      | none => rw [hd] at hk; simp at hk
      | some v =>
        right
        exact ⟨(k, v), ⟨SMap.mem_of_get? _ k v hd, by simp [hg]⟩, rfl⟩

theorem sorted_keys_nodup {V : Type} (l : List (Nat × V)) (h : SMap.Sorted l) : (l.map (·.1)).Nodup := by
  unfold SMap.Sorted at h
  rw [List.Nodup, List.pairwise_map]
  exact h.imp (fun hab => Nat.ne_of_lt hab)

theorem presentKeys_nodup (t : Track) (h : WF t) (n p : Nat) : (presentKeys t n p).Nodup := by
  unfold presentKeys presentTracked untrackedDb
  rw [List.nodup_append]
  refine ⟨?_, ?_, ?_⟩
  · exact (sorted_keys_nodup _ (h.sorted n p)).sublist ((List.filter_sublist).map _)
  · exact (sorted_keys_nodup _ (h.dbWF (n, p))).sublist ((List.filter_sublist).map _)
  · intro a ha b hb hab
    subst hab
    simp only [List.mem_map, List.mem_filter] at ha hb
    obtain ⟨x, ⟨hx, _⟩, rfl⟩ := ha
    obtain ⟨y, ⟨_, hc⟩, hy⟩ := hb
    obtain ⟨k, tv⟩ := x
    simp only at hy
    rw [hy] at hc
    simp only [SMap.contains, SMap.get?_of_mem _ (h.sorted n p) k tv hx] at hc
    simp at hc

/-! ### to_state_updates -/

def lookupSU (su : DbUpdates) (n p : Nat) : Option PUpd :=
  match IMap.get? su n with
  | none => none
  | some nu => IMap.get? nu p

def SUNodup (su : DbUpdates) : Prop := IMap.Nodup su ∧ ∀ x ∈ su, IMap.Nodup x.2

theorem lookupSU_suAlter (su : DbUpdates) (n p : Nat) (f : PUpd → PUpd) (n' p' : Nat) :
    lookupSU (suAlter su n p f) n' p'
      = if n' = n ∧ p' = p then
          some (f (match lookupSU su n p with | some pu => pu | none => .delta []))
        else lookupSU su n' p' := by
  unfold lookupSU suAlter
  rw [IMap.get?_alter]
  by_cases hn : n' = n
  · subst hn
    simp only [if_true, true_and]
    rw [IMap.get?_alter]
    by_cases hp : p' = p
    · subst hp
      simp only [if_true]
      cases IMap.get? su n' with
      | none => rfl
      | some nu => simp only []; cases IMap.get? nu p' <;> rfl
    · simp only [hp, if_false]
      cases IMap.get? su n' with
      | none => rfl
      | some nu => rfl
  · simp only [hn, if_false, false_and]

theorem sunodup_suAlter (su : DbUpdates) (n p : Nat) (f : PUpd → PUpd) (h : SUNodup su) :
    SUNodup (suAlter su n p f) := by
  refine ⟨IMap.nodup_alter su n _ _ h.1, ?_⟩
  apply IMap.forall_alter (fun nu => IMap.Nodup nu) su n [] _ h.2
  · intro w hw; exact IMap.nodup_alter w p _ _ hw
  · simp [IMap.Nodup]

/-- the partition update produced for one tracked partition -/
def partPUpd (prev : Option PUpd) (part : TPart) : Option PUpd :=
  if (partUpdates part).isEmpty then prev
  else some (PUpd.updateSubstates (match prev with | some pu => pu | none => .delta []) (partUpdates part))

theorem lookupSU_suOfParts (su : DbUpdates) (n : Nat) (parts : List (Nat × TPart))
    (hn : IMap.Nodup parts) (n' p' : Nat) :
    lookupSU (suOfParts su n parts) n' p'
      = if n' = n then
          (match IMap.get? parts p' with
           | some part => partPUpd (lookupSU su n p') part
           | none => lookupSU su n p')
        else lookupSU su n' p' := by
  induction parts generalizing su with
  | nil => simp only [suOfParts, IMap.get?_nil]; split <;> simp_all
  | cons hd rest ih =>
    obtain ⟨p0, part⟩ := hd
    unfold IMap.Nodup at hn ih
    rw [List.pairwise_cons] at hn
    have hnone : IMap.get? rest p0 = none :=
      IMap.get?_eq_none_of_notin rest p0 (fun x hx e => hn.1 x hx e.symm)
    simp only [suOfParts]
    by_cases he : (partUpdates part).isEmpty = true
    · simp only [he, if_true]
      rw [ih _ hn.2]
      by_cases hnn : n' = n
      · simp only [hnn, if_true, IMap.get?_cons]
        by_cases hp : p' = p0
        · subst hp; simp only [if_true, hnone, partPUpd, he]
        · simp only [hp, if_false]
      · simp only [hnn, if_false]
    · have he' : (partUpdates part).isEmpty = false := by simpa using he
      simp only [he', Bool.false_eq_true, if_false]
      rw [ih _ hn.2]
      by_cases hnn : n' = n
      · subst hnn
        simp only [if_true, IMap.get?_cons, lookupSU_suAlter, true_and]
        by_cases hp : p' = p0
        · subst hp
          simp only [if_true, hnone, partPUpd, he', Bool.false_eq_true, if_false]
        · simp only [hp, if_false]
      · simp only [hnn, if_false, lookupSU_suAlter, false_and]

theorem sunodup_suOfParts (su : DbUpdates) (n : Nat) (parts : List (Nat × TPart)) (h : SUNodup su) :
    SUNodup (suOfParts su n parts) := by
  induction parts generalizing su with
  | nil => exact h
  | cons hd rest ih =>
    obtain ⟨p0, part⟩ := hd
    simp only [suOfParts]
    split
    · exact ih _ h
    · exact ih _ (sunodup_suAlter su n p0 _ h)

structure NodesNodup (nodes : Nodes) : Prop where
  outer : IMap.Nodup nodes
  inner : ∀ x ∈ nodes, IMap.Nodup x.2.parts

theorem lookupSU_suOfNodes (su : DbUpdates) (nodes : Nodes) (hn : NodesNodup nodes) (n' p' : Nat) :
    lookupSU (suOfNodes su nodes) n' p'
      = match IMap.get? nodes n' with
        | some nd =>
          (match IMap.get? nd.parts p' with
           | some part => partPUpd (lookupSU su n' p') part
           | none => lookupSU su n' p')
        | none => lookupSU su n' p' := by
  induction nodes generalizing su with
  | nil => rfl
  | cons hd rest ih =>
    obtain ⟨n0, nd⟩ := hd
    have ho := hn.outer
    unfold IMap.Nodup at ho
    rw [List.pairwise_cons] at ho
    have hrest : NodesNodup rest := ⟨ho.2, fun x hx => hn.inner x (List.mem_cons_of_mem _ hx)⟩
    have hnd : IMap.Nodup nd.parts := hn.inner (n0, nd) (List.mem_cons_self ..)
    have hnone : IMap.get? rest n0 = none :=
      IMap.get?_eq_none_of_notin rest n0 (fun x hx e => ho.1 x hx e.symm)
    simp only [suOfNodes]
    rw [ih _ hrest, IMap.get?_cons]
    by_cases hnn : n' = n0
    · subst hnn
      simp only [if_true, hnone, lookupSU_suOfParts su n' nd.parts hnd]
    · simp only [hnn, if_false, lookupSU_suOfParts su n0 nd.parts hnd]

theorem sunodup_suOfNodes (su : DbUpdates) (nodes : Nodes) (h : SUNodup su) :
    SUNodup (suOfNodes su nodes) := by
  induction nodes generalizing su with
  | nil => exact h
  | cons hd rest ih => exact ih _ (sunodup_suOfParts su hd.1 hd.2.parts h)

/-- what committing the final state updates does to `(n,p,k)`: a tracked substate with a write
takes the written value (or is deleted), anything else keeps the base database value -/
def effCommit (t : Track) (n p k : Nat) : Option Nat :=
  match SMap.get? (partOf t.nodes n p) k with
  | some tv =>
    (match tv.toUpdate with
     | some u => u
     | none => t.db.get (n, p) k)
  | none => t.db.get (n, p) k

theorem get?_partUpdates (part : TPart) (h : SMap.Sorted part) (k : Nat) :
    lastBinding (partUpdates part) k
      = match SMap.get? part k with | some tv => tv.toUpdate | none => none := by
  induction part with
  | nil => rfl
  | cons hd rest ih =>
    obtain ⟨k0, tv⟩ := hd
    have h2 := (sorted_cons _ _).mp h
    have hnone : k = k0 → SMap.get? rest k = none := by
      intro e; subst e; exact get?_none_of_sorted_cons_lt k tv rest k h (Nat.le_refl _)
    simp only [partUpdates, List.filterMap_cons, SMap.get?_cons]
    simp only [partUpdates] at ih
    cases hu : tv.toUpdate with
    | none =>
      simp only []
      rw [ih h2.2]
      by_cases hk : k = k0
      · simp only [hk, if_true]; rw [← hk, hnone hk]; simp [hu]
      · simp only [hk, if_false]
    | some u =>
      simp only [lastBinding]
      rw [ih h2.2]
      by_cases hk : k = k0
      · simp only [hk, if_true]; rw [← hk, hnone hk]; simp [hu]
      · simp only [hk, if_false]
        cases SMap.get? rest k with
        | none => rfl
        | some tv' => simp only []; cases tv'.toUpdate <;> rfl

theorem applyPUpdF_partPUpd (part : TPart) (h : SMap.Sorted part) (f : PF) (k : Nat) :
    (match partPUpd none part with | some pu => applyPUpdF f pu k | none => f k)
      = match SMap.get? part k with
        | some tv => (match tv.toUpdate with | some u => u | none => f k)
        | none => f k := by
  have hg := get?_partUpdates part h k
  unfold partPUpd
  by_cases he : (partUpdates part).isEmpty = true
  · simp only [he, if_true]
    have : partUpdates part = [] := List.isEmpty_iff.mp he
    rw [this] at hg
    simp only [lastBinding] at hg
    cases hp : SMap.get? part k with
    | none => rfl
    | some tv => rw [hp] at hg; simp only [] at hg ⊢; rw [← hg]
  · have he' : (partUpdates part).isEmpty = false := by simpa using he
    simp only [he', Bool.false_eq_true, if_false]
    simp only [PUpd.updateSubstates, applyPUpdF]
    rw [lastBinding_nodup _ (IMap.nodup_foldl_set _ [] (by simp [IMap.Nodup])), IMap.get?_foldl_set', hg]
    cases hp : SMap.get? part k with
    | none => rfl
    | some tv => simp only []; cases tv.toUpdate <;> rfl

theorem partPUpd_none_nil : partPUpd none [] = none := rfl

theorem lookupSU_final (nodes : Nodes) (hn : NodesNodup nodes) (n p : Nat) :
    lookupSU (suOfNodes [] nodes) n p = partPUpd none (partOf nodes n p) := by
  rw [lookupSU_suOfNodes [] nodes hn]
  unfold partOf
  have h0 : lookupSU [] n p = none := rfl
  rw [h0]
  cases IMap.get? nodes n with
  | none => rfl
  | some nd =>
    simp only []
    cases IMap.get? nd.parts p with
    | none => rfl
    | some part => rfl

theorem get?_commit_su (db : Db) (su : DbUpdates) (h : SUNodup su) (n p k : Nat) :
    SMap.get? (db.commit su (n, p)) k
      = match lookupSU su n p with
        | some pu => applyPUpdF (SMap.get? (db (n, p))) pu k
        | none => SMap.get? (db (n, p)) k := by
  rw [get?_commit, applyF_nodup _ h.1]
  unfold lookupSU
  cases hsu : IMap.get? su n with
  | none => rfl
  | some nu =>
    simp only []
    rw [applyNodeF_nodup nu (h.2 (n, nu) (IMap.mem_of_get? _ n nu hsu))]
    cases IMap.get? nu p <;> rfl

/-! ### coherence with the base database, and the combined invariant -/

/-- what a tracked value records about the base database value of its key -/
def CohTV (db : Db) (n p k : Nat) : TV → Prop
  | .new _ => db.get (n, p) k = none
  | .readOnly r => r = db.get (n, p) k
  | .readExistAndWrite old _ => db.get (n, p) k = some old
  | .readNonExistAndWrite _ => db.get (n, p) k = none
  | .writeOnly _ => True
  | .garbage => db.get (n, p) k = none

/-- Coherence of the cache with the base database: what was cached by a read is the database
value; `New` / `Garbage` / `ReadNonExistAndWrite` entries only exist where the database has
nothing. Holds for every track reachable without `revert`. -/
def Coherent (t : Track) : Prop :=
  ∀ n p k tv, SMap.get? (partOf t.nodes n p) k = some tv → CohTV t.db n p k tv

structure Inv (t : Track) : Prop where
  wf : WF t
  nodup : NodesNodup t.nodes
  coh : Coherent t

theorem CohTV_set (db : Db) (n p k : Nat) (tv : TV) (v : Nat) (h : CohTV db n p k tv) :
    CohTV db n p k (tv.set v) := by
  cases tv with
  | new _ => exact h
  | readOnly r => cases r with
    | none => exact h.symm
    | some old => exact h.symm
  | readExistAndWrite old w => cases w <;> exact h
  | readNonExistAndWrite _ => exact h
  | writeOnly w => cases w <;> trivial
  | garbage => trivial

theorem CohTV_take (db : Db) (n p k : Nat) (tv : TV) (h : CohTV db n p k tv) :
    CohTV db n p k tv.take.1 := by
  cases tv with
  | new _ => exact h
  | readOnly r => cases r with
    | none => exact h
    | some old => exact h.symm
  | readExistAndWrite old w => exact h
  | readNonExistAndWrite _ => exact h.symm
  | writeOnly w => trivial
  | garbage => exact h

theorem nodesNodup_alterPart (nodes : Nodes) (n p : Nat) (f : TPart → TPart) (h : NodesNodup nodes) :
    NodesNodup (alterPart nodes n p f) := by
  refine ⟨IMap.nodup_alter nodes n _ _ h.outer, ?_⟩
  apply IMap.forall_alter (fun nd => IMap.Nodup nd.parts) nodes n _ _ h.inner
  · intro w hw; exact IMap.nodup_alter w.parts p _ _ hw
  · simp [IMap.Nodup]

/-- generic preservation: modifying one tracked partition -/
theorem inv_alterPart (t : Track) (n p : Nat) (f : TPart → TPart) (h : Inv t)
    (hs : SMap.Sorted (f (partOf t.nodes n p)))
    (hc : ∀ k tv, SMap.get? (f (partOf t.nodes n p)) k = some tv → CohTV t.db n p k tv) :
    Inv { t with nodes := alterPart t.nodes n p f } := by
  refine ⟨⟨h.wf.dbWF, ?_, ?_⟩, nodesNodup_alterPart t.nodes n p f h.nodup, ?_⟩
  · intro n' p'
    show SMap.Sorted (partOf (alterPart t.nodes n p f) n' p')
    rw [partOf_alterPart]
    split
    · exact hs
    · exact h.wf.sorted n' p'
  · intro n' hn'
    have : isNewIn (alterPart t.nodes n p f) n' = true := hn'
    rw [isNewIn_alterPart] at this
    exact h.wf.fresh n' this
  · intro n' p' k' tv hg
    have hg' : SMap.get? (partOf (alterPart t.nodes n p f) n' p') k' = some tv := hg
    rw [partOf_alterPart] at hg'
    split at hg'
    · rename_i hh; obtain ⟨rfl, rfl⟩ := hh
      exact hc k' tv hg'
    · exact h.coh n' p' k' tv hg'

theorem inv_putIn (t : Track) (n p k : Nat) (tv : TV) (h : Inv t) (hc : CohTV t.db n p k tv) :
    Inv { t with nodes := putIn t.nodes n p k tv } := by
  apply inv_alterPart t n p _ h
  · exact SMap.sorted_insert _ k tv (h.wf.sorted n p)
  · intro k' tv' hg
    rw [SMap.get?_insert] at hg
    split at hg
    · subst_vars; cases hg; exact hc
    · exact h.coh n p k' tv' hg

theorem inv_ensurePart (t : Track) (n p : Nat) (h : Inv t) :
    Inv { t with nodes := ensurePart t.nodes n p } :=
  inv_alterPart t n p id h (h.wf.sorted n p) (fun k tv hg => h.coh n p k tv hg)

theorem lookupTV_coh (t : Track) (h : Inv t) (n p k : Nat) (tv : TV) (hl : lookupTV t n p k = some tv) :
    CohTV t.db n p k tv := by
  unfold lookupTV at hl
  rw [lookupIn_eq] at hl
  exact h.coh n p k tv hl

theorem inv_getTracked (t : Track) (n p k : Nat) (h : Inv t) :
    Inv (getTracked t n p k).1 ∧ CohTV t.db n p k (getTracked t n p k).2 ∧ (getTracked t n p k).1.db = t.db := by
  unfold getTracked
  cases hl : lookupTV t n p k with
  | some tv => exact ⟨h, lookupTV_coh t h n p k tv hl, rfl⟩
  | none => exact ⟨inv_putIn t n p k _ h rfl, rfl, rfl⟩

theorem inv_get (t : Track) (n p k : Nat) (h : Inv t) : Inv (getSubstate t n p k).1 :=
  (inv_getTracked t n p k h).1

theorem inv_set (t : Track) (n p k v : Nat) (h : Inv t) : Inv (setSubstate t n p k v) := by
  unfold setSubstate
  cases hl : lookupTV t n p k with
  | none => exact inv_putIn t n p k _ h trivial
  | some tv => exact inv_putIn t n p k _ h (CohTV_set _ _ _ _ tv v (lookupTV_coh t h n p k tv hl))

theorem inv_remove (t : Track) (n p k : Nat) (h : Inv t) : Inv (removeSubstate t n p k).1 := by
  have hg := inv_getTracked t n p k h
  unfold removeSubstate
  show Inv { (getTracked t n p k).1 with nodes := putIn (getTracked t n p k).1.nodes n p k (getTracked t n p k).2.take.1 }
  apply inv_putIn _ n p k _ hg.1
  rw [hg.2.2]
  exact CohTV_take _ _ _ _ _ hg.2.1

end Radix.Track
