/-
Lemmas for C12 (`Model/Track.lean`): lookups through the tracked-node maps, the
`TrackedSubstateValue` state machine, and the representation invariants.
-/
import RadixModel.Model.Track
import RadixModel.Lemmas.SubstateDb
namespace Radix.Track
open Radix.KV Radix.SubstateDb

/-! ### TrackedSubstateValue -/

theorem TV.get_set (tv : TV) (v : Nat) : (tv.set v).get = some v := by
  cases tv with
  | new _ => rfl
  | readOnly r => cases r <;> rfl
  | readExistAndWrite old w => cases w <;> rfl
  | readNonExistAndWrite _ => rfl
  | writeOnly w => cases w <;> rfl
  | garbage => rfl

theorem TV.take_snd (tv : TV) : tv.take.2 = tv.get := by
  cases tv with
  | new _ => rfl
  | readOnly r => cases r <;> rfl
  | readExistAndWrite old w => cases w <;> rfl
  | readNonExistAndWrite _ => rfl
  | writeOnly w => cases w <;> rfl
  | garbage => rfl

theorem TV.take_fst_get (tv : TV) : tv.take.1.get = none := by
  cases tv with
  | new _ => rfl
  | readOnly r => cases r <;> rfl
  | readExistAndWrite old w => cases w <;> rfl
  | readNonExistAndWrite _ => rfl
  | writeOnly w => cases w <;> rfl
  | garbage => rfl

/-- taking an absent substate changes nothing -/
theorem TV.take_absent (tv : TV) (h : tv.get = none) : tv.take = (tv, none) := by
  cases tv with
  | new _ => simp [TV.get] at h
  | readOnly r => cases r <;> simp [TV.get] at h ⊢ <;> rfl
  | readExistAndWrite old w => cases w <;> simp [TV.get] at h ⊢ <;> rfl
  | readNonExistAndWrite _ => simp [TV.get] at h
  | writeOnly w => cases w <;> simp [TV.get] at h ⊢ <;> rfl
  | garbage => rfl

/-! ### lookups -/

/-- the tracked substates of partition `(n, p)` (empty when the node / partition is not tracked) -/
def partOf (nodes : Nodes) (n p : Nat) : TPart :=
  match IMap.get? nodes n with
  | none => []
  | some nd =>
    match IMap.get? nd.parts p with
    | none => []
    | some part => part

def isNewIn (nodes : Nodes) (n : Nat) : Bool :=
  match IMap.get? nodes n with
  | none => false
  | some nd => nd.isNew

theorem lookupIn_eq (nodes : Nodes) (n p k : Nat) :
    lookupIn nodes n p k = SMap.get? (partOf nodes n p) k := by
  unfold lookupIn partOf
  cases IMap.get? nodes n with
  | none => rfl
  | some nd => simp only []; cases IMap.get? nd.parts p <;> rfl

theorem partOf_alterPart (nodes : Nodes) (n p : Nat) (f : TPart → TPart) (n' p' : Nat) :
    partOf (alterPart nodes n p f) n' p'
      = if n' = n ∧ p' = p then f (partOf nodes n p) else partOf nodes n' p' := by
  unfold partOf alterPart
  rw [IMap.get?_alter]
  by_cases hn : n' = n
  · subst hn
    simp only [if_true, true_and]
    rw [IMap.get?_alter]
    by_cases hp : p' = p
    · subst hp
      simp only [if_true]
      cases IMap.get? nodes n' with
      | none => rfl
      | some nd => simp only []; cases IMap.get? nd.parts p' <;> rfl
    · simp only [hp, if_false]
      cases IMap.get? nodes n' with
      | none => rfl
      | some nd => rfl
  · simp only [hn, if_false, false_and]

theorem isNewIn_alterPart (nodes : Nodes) (n p : Nat) (f : TPart → TPart) (n' : Nat) :
    isNewIn (alterPart nodes n p f) n' = isNewIn nodes n' := by
  unfold isNewIn alterPart
  rw [IMap.get?_alter]
  by_cases hn : n' = n
  · subst hn
    simp only [if_true]
    cases IMap.get? nodes n' <;> rfl
  · simp only [hn, if_false]

theorem trackedOr_eq (t : Track) (n p : Nat) : trackedOr t n p = partOf t.nodes n p := by
  unfold trackedOr trackedPart partOf
  cases IMap.get? t.nodes n with
  | none => rfl
  | some nd => simp only []; cases IMap.get? nd.parts p <;> rfl

theorem nodeIsNew_eq (t : Track) (n : Nat) : nodeIsNew t n = isNewIn t.nodes n := rfl

theorem lookupIn_putIn (nodes : Nodes) (n p k : Nat) (tv : TV) (n' p' k' : Nat) :
    lookupIn (putIn nodes n p k tv) n' p' k'
      = if n' = n ∧ p' = p ∧ k' = k then some tv else lookupIn nodes n' p' k' := by
  simp only [lookupIn_eq, putIn, partOf_alterPart]
  by_cases h : n' = n ∧ p' = p
  · obtain ⟨rfl, rfl⟩ := h
    simp only [and_self, if_true, true_and, SMap.get?_insert]
  · simp only [h, if_false]
    have : ¬ (n' = n ∧ p' = p ∧ k' = k) := fun hh => h ⟨hh.1, hh.2.1⟩
    simp only [this, if_false]

theorem lookupIn_ensurePart (nodes : Nodes) (n p n' p' k' : Nat) :
    lookupIn (ensurePart nodes n p) n' p' k' = lookupIn nodes n' p' k' := by
  simp only [lookupIn_eq, ensurePart, partOf_alterPart]
  split
  · rename_i h; obtain ⟨rfl, rfl⟩ := h; rfl
  · rfl

/-! ### the abstraction -/

theorem eff_eq (t : Track) (n p k : Nat) :
    eff t n p k = match lookupIn t.nodes n p k with | some tv => tv.get | none => t.db.get (n, p) k := rfl

/-- `eff` after the tracked value of `(n,p,k)` is replaced by `tv` -/
theorem eff_putIn (t : Track) (n p k : Nat) (tv : TV) (n' p' k' : Nat) :
    eff { t with nodes := putIn t.nodes n p k tv } n' p' k'
      = if n' = n ∧ p' = p ∧ k' = k then tv.get else eff t n' p' k' := by
  simp only [eff_eq, lookupIn_putIn]
  by_cases h : n' = n ∧ p' = p ∧ k' = k
  · simp only [h, and_self, if_true]
  · simp only [h, if_false]

theorem getTracked_spec (t : Track) (n p k : Nat) :
    lookupTV (getTracked t n p k).1 n p k = some (getTracked t n p k).2 ∧
    (getTracked t n p k).2.get = eff t n p k ∧
    (∀ n' p' k', eff (getTracked t n p k).1 n' p' k' = eff t n' p' k') := by
  unfold getTracked
  cases h : lookupTV t n p k with
  | some tv =>
    refine ⟨h, ?_, fun _ _ _ => rfl⟩
    simp only [eff_eq]; unfold lookupTV at h; rw [h]
  | none =>
    simp only []
    refine ⟨?_, ?_, ?_⟩
    · unfold lookupTV; simp only [lookupIn_putIn, and_self, if_true]
    · unfold lookupTV at h
      simp only [eff_eq, h]
      cases t.db.get (n, p) k <;> rfl
    · intro n' p' k'
      rw [eff_putIn]
      split
      · rename_i hh; obtain ⟨rfl, rfl, rfl⟩ := hh
        unfold lookupTV at h
        simp only [eff_eq, h]
        cases t.db.get (n', p') k' <;> rfl
      · rfl

/-! ### representation invariant -/

/-- Representation invariant of a `Track`: the base database partitions and the tracked
partitions are `BTreeMap`s (strictly sorted), and a node marked `is_new` has nothing in the base
database ("Clients must ensure the `node_id` is new and unique"). -/
structure WF (t : Track) : Prop where
  dbWF : Db.WF t.db
  sorted : ∀ n p, SMap.Sorted (partOf t.nodes n p)
  fresh : ∀ n, isNewIn t.nodes n = true → ∀ p, t.db (n, p) = []

theorem eff_part (t : Track) (n p k : Nat) :
    eff t n p k = match SMap.get? (partOf t.nodes n p) k with
      | some tv => tv.get
      | none => SMap.get? (t.db (n, p)) k := by
  rw [eff_eq, lookupIn_eq]; rfl

theorem eff_ensurePart (t : Track) (n p n' p' k' : Nat) :
    eff { t with nodes := ensurePart t.nodes n p } n' p' k' = eff t n' p' k' := by
  simp only [eff_eq, lookupIn_ensurePart]

/-! ### scan_sorted_substates -/

/-- the tracked partition as the "changes" fed to the overlaying iterator -/
def changesOf (part : TPart) : List (Nat × Option Nat) := part.map (fun ktv => (ktv.1, ktv.2.get))

theorem scanSorted_eq (t : Track) (h : WF t) (n p limit : Nat) :
    (scanSortedSubstates t n p limit).2
      = (overlayIter (t.db (n, p)) (changesOf (partOf t.nodes n p))).take limit := by
  unfold scanSortedSubstates
  simp only [trackedOr_eq]
  have h1 : partOf (ensurePart t.nodes n p) n p = partOf t.nodes n p := by
    simp [ensurePart, partOf_alterPart]
  have h2 : isNewIn (ensurePart t.nodes n p) n = isNewIn t.nodes n := isNewIn_alterPart _ _ _ _ _
  rw [h1]
  show List.take limit (overlayIter (if isNewIn (ensurePart t.nodes n p) n = true then [] else t.db (n, p)) _) = _
  rw [h2]
  unfold changesOf
  by_cases hn : isNewIn t.nodes n = true
  · simp only [hn, if_true]
    rw [h.fresh n hn p]
  · simp only [hn]; rfl

theorem overlay_get?_eff (t : Track) (h : WF t) (n p k : Nat) :
    SMap.get? (overlayIter (t.db (n, p)) (changesOf (partOf t.nodes n p))) k = eff t n p k := by
  unfold changesOf
  rw [overlayIter_get? _ _ (h.dbWF (n, p)) (SMap.sorted_map _ _ (h.sorted n p))]
  unfold overlayGet
  rw [SMap.get?_map, eff_part]
  cases SMap.get? (partOf t.nodes n p) k <;> rfl

/-! ### scan_keys -/

def presentTracked (part : TPart) : List Nat :=
  (part.filter (fun x => x.2.get.isSome)).map (·.1)

def untrackedDb (part : TPart) (dbl : List (Nat × Nat)) : List (Nat × Nat) :=
  dbl.filter (fun x => !SMap.contains part x.1)

/-- all keys of partition `(n,p)` that a read finds present: tracked ones first (in key order),
then the untracked database ones (in key order) — the order in which `scan_keys` and
`drain_substates` visit them -/
def presentKeys (t : Track) (n p : Nat) : List Nat :=
  presentTracked (partOf t.nodes n p) ++ (untrackedDb (partOf t.nodes n p) (t.db (n, p))).map (·.1)

theorem scanTrackedKeys_eq (r : Nat) (part : TPart) :
    (scanTrackedKeys r part).1 = (presentTracked part).take r ∧
    (scanTrackedKeys r part).2 = r - ((presentTracked part).take r).length := by
  induction part generalizing r with
  | nil => cases r <;> simp [scanTrackedKeys, presentTracked]
  | cons hd rest ih =>
    obtain ⟨k, tv⟩ := hd
    cases r with
    | zero => simp [scanTrackedKeys]
    | succ r =>
      cases hg : tv.get with
      | some v =>
        have := ih r
        simp only [scanTrackedKeys, hg, presentTracked, List.filter_cons, Option.isSome_some, if_true,
          List.map_cons, List.take_succ_cons, List.length_cons]
        simp only [presentTracked] at this
        refine ⟨by rw [this.1], ?_⟩
        rw [this.2]; omega
      | none =>
        have := ih (r + 1)
        simp only [scanTrackedKeys, hg, presentTracked, List.filter_cons, Option.isSome_none]
        simp only [presentTracked] at this
        exact this

theorem scanDbKeys_eq (part : TPart) (r : Nat) (dbl : List (Nat × Nat)) :
    scanDbKeys part r dbl = ((untrackedDb part dbl).map (·.1)).take r := by
  induction dbl generalizing r with
  | nil => cases r <;> simp [scanDbKeys, untrackedDb]
  | cons hd rest ih =>
    obtain ⟨k, v⟩ := hd
    cases r with
    | zero => simp [scanDbKeys]
    | succ r =>
      simp only [scanDbKeys, untrackedDb, List.filter_cons]
      by_cases hc : SMap.contains part k = true
      · simp only [hc, if_true, Bool.not_true]
        have := ih (r + 1)
        simp only [untrackedDb] at this
        simpa using this
      · simp only [hc, Bool.not_eq_true] at hc ⊢
        simp only [hc, Bool.not_false, if_true, List.map_cons, List.take_succ_cons]
        have := ih r
        simp only [untrackedDb] at this
        simp [this]

theorem scanKeys_eq (t : Track) (h : WF t) (n p limit : Nat) :
    (scanKeys t n p limit).2 = (presentKeys t n p).take limit := by
  unfold scanKeys presentKeys
  simp only [trackedOr_eq]
  have hs := scanTrackedKeys_eq limit (partOf t.nodes n p)
  generalize hP : presentTracked (partOf t.nodes n p) = P at hs
  rcases hsc : scanTrackedKeys limit (partOf t.nodes n p) with ⟨items, rem⟩
  rw [hsc] at hs
  simp only at hs
  obtain ⟨h1, h2⟩ := hs
  have hlen : (P.take limit).length = min limit P.length := List.length_take
  simp only []
  by_cases hc : rem = 0 ∨ nodeIsNew t n = true
  · simp only [hc, if_true]
    rcases hc with hr | hnew
    · rw [h1, List.take_append_of_le_length (by omega)]
    · rw [h.fresh n hnew p]
      simp [untrackedDb, h1]
  · simp only [hc, if_false]
    rw [scanDbKeys_eq, h1, List.take_append]
    have : rem = limit - P.length := by omega
    rw [this]

theorem eff_scanKeys (t : Track) (n p limit n' p' k' : Nat) :
    eff (scanKeys t n p limit).1 n' p' k' = eff t n' p' k' := by
  unfold scanKeys
  simp only []
  rcases scanTrackedKeys limit (trackedOr t n p) with ⟨items, rem⟩
  simp only []
  split
  · rfl
  · exact eff_ensurePart t n p n' p' k'

theorem mem_presentKeys (t : Track) (h : WF t) (n p k : Nat) :
    k ∈ presentKeys t n p ↔ (eff t n p k).isSome = true := by
  unfold presentKeys presentTracked untrackedDb
  rw [eff_part]
  simp only [List.mem_append, List.mem_map, List.mem_filter, SMap.contains]
  constructor
  · rintro (⟨x, ⟨hx, hg⟩, rfl⟩ | ⟨x, ⟨hx, hc⟩, rfl⟩)
    · obtain ⟨k, tv⟩ := x
      rw [SMap.get?_of_mem _ (h.sorted n p) k tv hx]
      exact hg
    · obtain ⟨k, v⟩ := x
      simp only [Bool.not_eq_true', Option.isSome_eq_false_iff, Option.isNone_iff_eq_none] at hc
      simp only [hc]
      rw [SMap.get?_of_mem _ (h.dbWF (n, p)) k v hx]
      rfl
  · intro hk
    cases hg : SMap.get? (partOf t.nodes n p) k with
    | some tv =>
      rw [hg] at hk
      left
      exact ⟨(k, tv), ⟨SMap.mem_of_get? _ k tv hg, hk⟩, rfl⟩
    | none =>
      rw [hg] at hk
      simp only at hk
      cases hd : SMap.get? (t.db (n, p)) k with
      | none => rw [hd] at hk; simp at hk
      | some v =>
        right
        exact ⟨(k, v), ⟨SMap.mem_of_get? _ k v hd, by simp [hg]⟩, rfl⟩

theorem sorted_keys_nodup {V : Type} (l : List (Nat × V)) (h : SMap.Sorted l) : (l.map (·.1)).Nodup := by
  unfold SMap.Sorted at h
  rw [List.Nodup, List.pairwise_map]
  exact h.imp (fun hab => Nat.ne_of_lt hab)

theorem presentKeys_nodup (t : Track) (h : WF t) (n p : Nat) : (presentKeys t n p).Nodup := by
  unfold presentKeys presentTracked untrackedDb
  rw [List.nodup_append]
  refine ⟨?_, ?_, ?_⟩
  · exact (sorted_keys_nodup _ (h.sorted n p)).sublist ((List.filter_sublist).map _)
  · exact (sorted_keys_nodup _ (h.dbWF (n, p))).sublist ((List.filter_sublist).map _)
  · intro a ha b hb hab
    subst hab
    simp only [List.mem_map, List.mem_filter] at ha hb
    obtain ⟨x, ⟨hx, _⟩, rfl⟩ := ha
    obtain ⟨y, ⟨_, hc⟩, hy⟩ := hb
    obtain ⟨k, tv⟩ := x
    simp only at hy
    rw [hy] at hc
    simp only [SMap.contains, SMap.get?_of_mem _ (h.sorted n p) k tv hx] at hc
    simp at hc

/-! ### to_state_updates -/

def lookupSU (su : DbUpdates) (n p : Nat) : Option PUpd :=
  match IMap.get? su n with
  | none => none
  | some nu => IMap.get? nu p

def SUNodup (su : DbUpdates) : Prop := IMap.Nodup su ∧ ∀ x ∈ su, IMap.Nodup x.2

theorem lookupSU_suAlter (su : DbUpdates) (n p : Nat) (f : PUpd → PUpd) (n' p' : Nat) :
    lookupSU (suAlter su n p f) n' p'
      = if n' = n ∧ p' = p then
          some (f (match lookupSU su n p with | some pu => pu | none => .delta []))
        else lookupSU su n' p' := by
  unfold lookupSU suAlter
  rw [IMap.get?_alter]
  by_cases hn : n' = n
  · subst hn
    simp only [if_true, true_and]
    rw [IMap.get?_alter]
    by_cases hp : p' = p
    · subst hp
      simp only [if_true]
      cases IMap.get? su n' with
      | none => rfl
      | some nu => simp only []; cases IMap.get? nu p' <;> rfl
    · simp only [hp, if_false]
      cases IMap.get? su n' with
      | none => rfl
      | some nu => rfl
  · simp only [hn, if_false, false_and]

theorem sunodup_suAlter (su : DbUpdates) (n p : Nat) (f : PUpd → PUpd) (h : SUNodup su) :
    SUNodup (suAlter su n p f) := by
  refine ⟨IMap.nodup_alter su n _ _ h.1, ?_⟩
  apply IMap.forall_alter (fun nu => IMap.Nodup nu) su n [] _ h.2
  · intro w hw; exact IMap.nodup_alter w p _ _ hw
  · simp [IMap.Nodup]

/-- the partition update produced for one tracked partition -/
def partPUpd (prev : Option PUpd) (part : TPart) : Option PUpd :=
  if (partUpdates part).isEmpty then prev
  else some (PUpd.updateSubstates (match prev with | some pu => pu | none => .delta []) (partUpdates part))

theorem lookupSU_suOfParts (su : DbUpdates) (n : Nat) (parts : List (Nat × TPart))
    (hn : IMap.Nodup parts) (n' p' : Nat) :
    lookupSU (suOfParts su n parts) n' p'
      = if n' = n then
          (match IMap.get? parts p' with
           | some part => partPUpd (lookupSU su n p') part
           | none => lookupSU su n p')
        else lookupSU su n' p' := by
  induction parts generalizing su with
  | nil => simp only [suOfParts, IMap.get?_nil]; split <;> simp_all
  | cons hd rest ih =>
    obtain ⟨p0, part⟩ := hd
    unfold IMap.Nodup at hn ih
    rw [List.pairwise_cons] at hn
    have hnone : IMap.get? rest p0 = none :=
      IMap.get?_eq_none_of_notin rest p0 (fun x hx e => hn.1 x hx e.symm)
    simp only [suOfParts]
    by_cases he : (partUpdates part).isEmpty = true
    · simp only [he, if_true]
      rw [ih _ hn.2]
      by_cases hnn : n' = n
      · simp only [hnn, if_true, IMap.get?_cons]
        by_cases hp : p' = p0
        · subst hp; simp only [if_true, hnone, partPUpd, he]
        · simp only [hp, if_false]
      · simp only [hnn, if_false]
    · have he' : (partUpdates part).isEmpty = false := by simpa using he
      simp only [he', Bool.false_eq_true, if_false]
      rw [ih _ hn.2]
      by_cases hnn : n' = n
      · subst hnn
        simp only [if_true, IMap.get?_cons, lookupSU_suAlter, true_and]
        by_cases hp : p' = p0
        · subst hp
          simp only [if_true, hnone, partPUpd, he', Bool.false_eq_true, if_false]
        · simp only [hp, if_false]
      · simp only [hnn, if_false, lookupSU_suAlter, false_and]

theorem sunodup_suOfParts (su : DbUpdates) (n : Nat) (parts : List (Nat × TPart)) (h : SUNodup su) :
    SUNodup (suOfParts su n parts) := by
  induction parts generalizing su with
  | nil => exact h
  | cons hd rest ih =>
    obtain ⟨p0, part⟩ := hd
    simp only [suOfParts]
    split
    · exact ih _ h
    · exact ih _ (sunodup_suAlter su n p0 _ h)

structure NodesNodup (nodes : Nodes) : Prop where
  outer : IMap.Nodup nodes
  inner : ∀ x ∈ nodes, IMap.Nodup x.2.parts

theorem lookupSU_suOfNodes (su : DbUpdates) (nodes : Nodes) (hn : NodesNodup nodes) (n' p' : Nat) :
    lookupSU (suOfNodes su nodes) n' p'
      = match IMap.get? nodes n' with
        | some nd =>
          (match IMap.get? nd.parts p' with
           | some part => partPUpd (lookupSU su n' p') part
           | none => lookupSU su n' p')
        | none => lookupSU su n' p' := by
  induction nodes generalizing su with
  | nil => rfl
  | cons hd rest ih =>
    obtain ⟨n0, nd⟩ := hd
    have ho := hn.outer
    unfold IMap.Nodup at ho
    rw [List.pairwise_cons] at ho
    have hrest : NodesNodup rest := ⟨ho.2, fun x hx => hn.inner x (List.mem_cons_of_mem _ hx)⟩
    have hnd : IMap.Nodup nd.parts := hn.inner (n0, nd) (List.mem_cons_self ..)
    have hnone : IMap.get? rest n0 = none :=
      IMap.get?_eq_none_of_notin rest n0 (fun x hx e => ho.1 x hx e.symm)
    simp only [suOfNodes]
    rw [ih _ hrest, IMap.get?_cons]
    by_cases hnn : n' = n0
    · subst hnn
      simp only [if_true, hnone, lookupSU_suOfParts su n' nd.parts hnd]
    · simp only [hnn, if_false, lookupSU_suOfParts su n0 nd.parts hnd]

theorem sunodup_suOfNodes (su : DbUpdates) (nodes : Nodes) (h : SUNodup su) :
    SUNodup (suOfNodes su nodes) := by
  induction nodes generalizing su with
  | nil => exact h
  | cons hd rest ih => exact ih _ (sunodup_suOfParts su hd.1 hd.2.parts h)

/-- what committing the final state updates does to `(n,p,k)`: a tracked substate with a write
takes the written value (or is deleted), anything else keeps the base database value -/
def effCommit (t : Track) (n p k : Nat) : Option Nat :=
  match SMap.get? (partOf t.nodes n p) k with
  | some tv =>
    (match tv.toUpdate with
     | some u => u
     | none => t.db.get (n, p) k)
  | none => t.db.get (n, p) k

theorem get?_partUpdates (part : TPart) (h : SMap.Sorted part) (k : Nat) :
    lastBinding (partUpdates part) k
      = match SMap.get? part k with | some tv => tv.toUpdate | none => none := by
  induction part with
  | nil => rfl
  | cons hd rest ih =>
    obtain ⟨k0, tv⟩ := hd
    have h2 := (sorted_cons _ _).mp h
    have hnone : k = k0 → SMap.get? rest k = none := by
      intro e; subst e; exact get?_none_of_sorted_cons_lt k tv rest k h (Nat.le_refl _)
    simp only [partUpdates, List.filterMap_cons, SMap.get?_cons]
    simp only [partUpdates] at ih
    cases hu : tv.toUpdate with
    | none =>
      simp only []
      rw [ih h2.2]
      by_cases hk : k = k0
      · simp only [hk, if_true]; rw [← hk, hnone hk]; simp [hu]
      · simp only [hk, if_false]
    | some u =>
      simp only [lastBinding]
      rw [ih h2.2]
      by_cases hk : k = k0
      · simp only [hk, if_true]; rw [← hk, hnone hk]; simp [hu]
      · simp only [hk, if_false]
        cases SMap.get? rest k with
        | none => rfl
        | some tv' => simp only []; cases tv'.toUpdate <;> rfl

theorem applyPUpdF_partPUpd (part : TPart) (h : SMap.Sorted part) (f : PF) (k : Nat) :
    (match partPUpd none part with | some pu => applyPUpdF f pu k | none => f k)
      = match SMap.get? part k with
        | some tv => (match tv.toUpdate with | some u => u | none => f k)
        | none => f k := by
  have hg := get?_partUpdates part h k
  unfold partPUpd
  by_cases he : (partUpdates part).isEmpty = true
  · simp only [he, if_true]
    have : partUpdates part = [] := List.isEmpty_iff.mp he
    rw [this] at hg
    simp only [lastBinding] at hg
    cases hp : SMap.get? part k with
    | none => rfl
    | some tv => rw [hp] at hg; simp only [] at hg ⊢; rw [← hg]
  · have he' : (partUpdates part).isEmpty = false := by simpa using he
    simp only [he', Bool.false_eq_true, if_false]
    simp only [PUpd.updateSubstates, applyPUpdF]
    rw [lastBinding_nodup _ (IMap.nodup_foldl_set _ [] (by simp [IMap.Nodup])), IMap.get?_foldl_set', hg]
    cases hp : SMap.get? part k with
    | none => rfl
    | some tv => simp only []; cases tv.toUpdate <;> rfl

theorem partPUpd_none_nil : partPUpd none [] = none := rfl

theorem lookupSU_final (nodes : Nodes) (hn : NodesNodup nodes) (n p : Nat) :
    lookupSU (suOfNodes [] nodes) n p = partPUpd none (partOf nodes n p) := by
  rw [lookupSU_suOfNodes [] nodes hn]
  unfold partOf
  have h0 : lookupSU [] n p = none := rfl
  rw [h0]
  cases IMap.get? nodes n with
  | none => rfl
  | some nd =>
    simp only []
    cases IMap.get? nd.parts p with
    | none => rfl
    | some part => rfl

theorem get?_commit_su (db : Db) (su : DbUpdates) (h : SUNodup su) (n p k : Nat) :
    SMap.get? (db.commit su (n, p)) k
      = match lookupSU su n p with
        | some pu => applyPUpdF (SMap.get? (db (n, p))) pu k
        | none => SMap.get? (db (n, p)) k := by
  rw [get?_commit, applyF_nodup _ h.1]
  unfold lookupSU
  cases hsu : IMap.get? su n with
  | none => rfl
  | some nu =>
    simp only []
    rw [applyNodeF_nodup nu (h.2 (n, nu) (IMap.mem_of_get? _ n nu hsu))]
    cases IMap.get? nu p <;> rfl

/-! ### coherence with the base database, and the combined invariant -/

/-- what a tracked value records about the base database value of its key -/
def CohTV (db : Db) (n p k : Nat) : TV → Prop
  | .new _ => db.get (n, p) k = none
  | .readOnly r => r = db.get (n, p) k
  | .readExistAndWrite old _ => db.get (n, p) k = some old
  | .readNonExistAndWrite _ => db.get (n, p) k = none
  | .writeOnly _ => True
  | .garbage => db.get (n, p) k = none

/-- Coherence of the cache with the base database: what was cached by a read is the database
value; `New` / `Garbage` / `ReadNonExistAndWrite` entries only exist where the database has
nothing. Holds for every track reachable without `revert`. -/
def Coherent (t : Track) : Prop :=
  ∀ n p k tv, SMap.get? (partOf t.nodes n p) k = some tv → CohTV t.db n p k tv

structure Inv (t : Track) : Prop where
  wf : WF t
  nodup : NodesNodup t.nodes
  coh : Coherent t

theorem CohTV_set (db : Db) (n p k : Nat) (tv : TV) (v : Nat) (h : CohTV db n p k tv) :
    CohTV db n p k (tv.set v) := by
  cases tv with
  | new _ => exact h
  | readOnly r => cases r with
    | none => exact h.symm
    | some old => exact h.symm
  | readExistAndWrite old w => cases w <;> exact h
  | readNonExistAndWrite _ => exact h
  | writeOnly w => cases w <;> trivial
  | garbage => trivial

theorem CohTV_take (db : Db) (n p k : Nat) (tv : TV) (h : CohTV db n p k tv) :
    CohTV db n p k tv.take.1 := by
  cases tv with
  | new _ => exact h
  | readOnly r => cases r with
    | none => exact h
    | some old => exact h.symm
  | readExistAndWrite old w => exact h
  | readNonExistAndWrite _ => exact h.symm
  | writeOnly w => trivial
  | garbage => exact h

theorem nodesNodup_alterPart (nodes : Nodes) (n p : Nat) (f : TPart → TPart) (h : NodesNodup nodes) :
    NodesNodup (alterPart nodes n p f) := by
  refine ⟨IMap.nodup_alter nodes n _ _ h.outer, ?_⟩
  apply IMap.forall_alter (fun nd => IMap.Nodup nd.parts) nodes n _ _ h.inner
  · intro w hw; exact IMap.nodup_alter w.parts p _ _ hw
  · simp [IMap.Nodup]

/-- generic preservation: modifying one tracked partition -/
theorem inv_alterPart (t : Track) (n p : Nat) (f : TPart → TPart) (h : Inv t)
    (hs : SMap.Sorted (f (partOf t.nodes n p)))
    (hc : ∀ k tv, SMap.get? (f (partOf t.nodes n p)) k = some tv → CohTV t.db n p k tv) :
    Inv { t with nodes := alterPart t.nodes n p f } := by
  refine ⟨⟨h.wf.dbWF, ?_, ?_⟩, nodesNodup_alterPart t.nodes n p f h.nodup, ?_⟩
  · intro n' p'
    show SMap.Sorted (partOf (alterPart t.nodes n p f) n' p')
    rw [partOf_alterPart]
    split
    · exact hs
    · exact h.wf.sorted n' p'
  · intro n' hn'
    have : isNewIn (alterPart t.nodes n p f) n' = true := hn'
    rw [isNewIn_alterPart] at this
    exact h.wf.fresh n' this
  · intro n' p' k' tv hg
    have hg' : SMap.get? (partOf (alterPart t.nodes n p f) n' p') k' = some tv := hg
    rw [partOf_alterPart] at hg'
    split at hg'
    · rename_i hh; obtain ⟨rfl, rfl⟩ := hh
      exact hc k' tv hg'
    · exact h.coh n' p' k' tv hg'

theorem inv_putIn (t : Track) (n p k : Nat) (tv : TV) (h : Inv t) (hc : CohTV t.db n p k tv) :
    Inv { t with nodes := putIn t.nodes n p k tv } := by
  apply inv_alterPart t n p _ h
  · exact SMap.sorted_insert _ k tv (h.wf.sorted n p)
  · intro k' tv' hg
    rw [SMap.get?_insert] at hg
    split at hg
    · subst_vars; cases hg; exact hc
    · exact h.coh n p k' tv' hg

theorem inv_ensurePart (t : Track) (n p : Nat) (h : Inv t) :
    Inv { t with nodes := ensurePart t.nodes n p } :=
  inv_alterPart t n p id h (h.wf.sorted n p) (fun k tv hg => h.coh n p k tv hg)

theorem lookupTV_coh (t : Track) (h : Inv t) (n p k : Nat) (tv : TV) (hl : lookupTV t n p k = some tv) :
    CohTV t.db n p k tv := by
  unfold lookupTV at hl
  rw [lookupIn_eq] at hl
  exact h.coh n p k tv hl

theorem inv_getTracked (t : Track) (n p k : Nat) (h : Inv t) :
    Inv (getTracked t n p k).1 ∧ CohTV t.db n p k (getTracked t n p k).2 ∧ (getTracked t n p k).1.db = t.db := by
  unfold getTracked
  cases hl : lookupTV t n p k with
  | some tv => exact ⟨h, lookupTV_coh t h n p k tv hl, rfl⟩
  | none => exact ⟨inv_putIn t n p k _ h rfl, rfl, rfl⟩

theorem inv_get (t : Track) (n p k : Nat) (h : Inv t) : Inv (getSubstate t n p k).1 :=
  (inv_getTracked t n p k h).1

theorem inv_set (t : Track) (n p k v : Nat) (h : Inv t) : Inv (setSubstate t n p k v) := by
  unfold setSubstate
  cases hl : lookupTV t n p k with
  | none => exact inv_putIn t n p k _ h trivial
  | some tv => exact inv_putIn t n p k _ h (CohTV_set _ _ _ _ tv v (lookupTV_coh t h n p k tv hl))

theorem inv_remove (t : Track) (n p k : Nat) (h : Inv t) : Inv (removeSubstate t n p k).1 := by
  have hg := inv_getTracked t n p k h
  unfold removeSubstate
  show Inv { (getTracked t n p k).1 with nodes := putIn (getTracked t n p k).1.nodes n p k (getTracked t n p k).2.take.1 }
  apply inv_putIn _ n p k _ hg.1
  rw [hg.2.2]
  exact CohTV_take _ _ _ _ _ hg.2.1

def newParts (subs : NodeSubstates) : List (Nat × TPart) :=
  subs.foldl (fun acc ps => IMap.set acc ps.1 (SMap.ofList (ps.2.map (fun kv => (kv.1, TV.new kv.2))))) []

theorem createNode_nodes (t : Track) (n : Nat) (subs : NodeSubstates) :
    (createNode t n subs).nodes = IMap.set t.nodes n { parts := newParts subs, isNew := true } := rfl

theorem newParts_prop (subs : NodeSubstates) :
    ∀ x ∈ newParts subs, SMap.Sorted x.2 ∧ ∀ k tv, SMap.get? x.2 k = some tv → ∃ v, tv = TV.new v := by
  unfold newParts
  refine IMap.forall_foldl_set (fun (part : TPart) => SMap.Sorted part ∧ ∀ k tv, SMap.get? part k = some tv → ∃ v, tv = TV.new v)
    subs (fun kvs => SMap.ofList (kvs.map (fun kv => (kv.1, TV.new kv.2)))) [] (by simp) ?_
  · intro kvs
    refine ⟨SMap.sorted_ofList _, ?_⟩
    intro k tv hg
    rw [SMap.get?_ofList, lastBinding_map] at hg
    cases hl : lastBinding kvs k with
    | none => rw [hl] at hg; simp at hg
    | some v => rw [hl] at hg; simp at hg; exact ⟨v, hg.symm⟩

/-- `create_node` on a fresh node id (nothing in the base database under `n`) keeps the invariant -/
theorem inv_create (t : Track) (n : Nat) (subs : NodeSubstates) (h : Inv t)
    (hfresh : ∀ p, t.db (n, p) = []) : Inv (createNode t n subs) := by
  have hnodes := createNode_nodes t n subs
  have hpart : ∀ n' p', partOf (createNode t n subs).nodes n' p'
      = if n' = n then (match IMap.get? (newParts subs) p' with | none => [] | some part => part)
        else partOf t.nodes n' p' := by
    intro n' p'
    rw [hnodes]
    unfold partOf
    rw [IMap.get?_set]
    by_cases hnn : n' = n
    · simp only [hnn, if_true]
    · simp only [hnn, if_false]
  have hprop : ∀ p' part, IMap.get? (newParts subs) p' = some part →
      SMap.Sorted part ∧ ∀ k tv, SMap.get? part k = some tv → ∃ v, tv = TV.new v :=
    fun p' part hg => newParts_prop subs (p', part) (IMap.mem_of_get? _ p' part hg)
  refine ⟨⟨h.wf.dbWF, ?_, ?_⟩, ⟨?_, ?_⟩, ?_⟩
  · intro n' p'
    rw [hpart]
    split
    · cases hg : IMap.get? (newParts subs) p' with
      | none => simp [SMap.Sorted]
      | some part => exact (hprop p' part hg).1
    · exact h.wf.sorted n' p'
  · intro n' hn'
    have hn'' : isNewIn (IMap.set t.nodes n { parts := newParts subs, isNew := true }) n' = true := hn'
    unfold isNewIn at hn''
    rw [IMap.get?_set] at hn''
    by_cases hnn : n' = n
    · subst hnn; exact hfresh
    · simp only [hnn, if_false] at hn''
      exact h.wf.fresh n' hn''
  · rw [hnodes]; exact IMap.nodup_set _ _ _ h.nodup.outer
  · rw [hnodes]
    exact IMap.forall_set (fun (_ : Nat) (nd : TNode) => IMap.Nodup nd.parts) t.nodes n _ h.nodup.inner
      (by unfold newParts
          exact IMap.nodup_foldl_set_g subs (fun kvs => SMap.ofList (kvs.map (fun kv => (kv.1, TV.new kv.2)))) [] (by simp [IMap.Nodup]))
  · intro n' p' k tv hg
    rw [hpart] at hg
    by_cases hnn : n' = n
    · subst hnn
      simp only [if_true] at hg
      cases hgp : IMap.get? (newParts subs) p' with
      | none => rw [hgp] at hg; simp at hg
      | some part =>
        rw [hgp] at hg
        obtain ⟨v, rfl⟩ := (hprop p' part hgp).2 k tv hg
        show (createNode t n' subs).db.get (n', p') k = none
        show SMap.get? (t.db (n', p')) k = none
        rw [hfresh p']; rfl
    · simp only [hnn, if_false] at hg
      exact h.coh n' p' k tv hg

theorem inv_scanKeys (t : Track) (n p limit : Nat) (h : Inv t) : Inv (scanKeys t n p limit).1 := by
  unfold scanKeys
  simp only []
  rcases scanTrackedKeys limit (trackedOr t n p) with ⟨items, rem⟩
  simp only []
  split
  · exact h
  · exact inv_ensurePart t n p h

theorem inv_scanSorted (t : Track) (n p limit : Nat) (h : Inv t) :
    Inv (scanSortedSubstates t n p limit).1 := inv_ensurePart t n p h

theorem inv_forceWrite (t t' : Track) (n p k : Nat) (h : Inv t) (hf : forceWrite t n p k = some t') : Inv t' := by
  unfold forceWrite at hf
  cases hl : lookupTV t n p k with
  | none => rw [hl] at hf; simp at hf
  | some tv =>
    rw [hl] at hf
    simp only [Option.some.injEq] at hf
    subst hf
    exact ⟨⟨h.wf.dbWF, h.wf.sorted, h.wf.fresh⟩, h.nodup, h.coh⟩

theorem inv_deletePartition (t : Track) (n p : Nat) (h : Inv t) : Inv (deletePartition t n p) :=
  ⟨⟨h.wf.dbWF, h.wf.sorted, h.wf.fresh⟩, h.nodup, h.coh⟩

/-! ### drain_substates -/

def presentEntriesT (part : TPart) : List (Nat × Nat) :=
  part.filterMap (fun x => match x.2.get with | some v => some (x.1, v) | none => none)

/-- present entries of partition `(n,p)` in the order `drain_substates` visits them -/
def presentEntries (t : Track) (n p : Nat) : List (Nat × Nat) :=
  presentEntriesT (partOf t.nodes n p) ++ untrackedDb (partOf t.nodes n p) (t.db (n, p))

theorem TV.take_eq (tv : TV) : tv.take = (tv.take.1, tv.get) := by
  rw [← TV.take_snd]

theorem drainTracked_spec (r : Nat) (part : TPart) :
    (drainTracked r part).2.1 = (presentEntriesT part).take r ∧
    (drainTracked r part).2.2 = r - (drainTracked r part).2.1.length ∧
    (∀ k, SMap.get? (drainTracked r part).1 k
        = match SMap.get? part k with
          | none => none
          | some tv => if k ∈ (drainTracked r part).2.1.map (·.1) then some tv.take.1 else some tv) ∧
    (drainTracked r part).1.map (·.1) = part.map (·.1) := by
  induction part generalizing r with
  | nil =>
    cases r <;> simp [drainTracked, presentEntriesT]
  | cons hd rest ih =>
    obtain ⟨k0, tv⟩ := hd
    cases r with
    | zero =>
      refine ⟨by simp [drainTracked], by simp [drainTracked], ?_, by simp [drainTracked]⟩
      intro k
      simp only [drainTracked, List.map_nil, List.not_mem_nil, if_false]
      cases SMap.get? ((k0, tv) :: rest) k <;> rfl
    | succ r =>
      cases hg : tv.get with
      | some v =>
        have ih' := ih r
        rcases hrec : drainTracked r rest with ⟨l', it, r'⟩
        rw [hrec] at ih'
        simp only at ih'
        obtain ⟨i1, i2, i3, i4⟩ := ih'
        have hd : drainTracked (r + 1) ((k0, tv) :: rest) = ((k0, tv.take.1) :: l', (k0, v) :: it, r') := by
          simp only [drainTracked]
          rw [TV.take_eq tv, hg]
          simp only [hrec]
        rw [hd]
        simp only
        refine ⟨?_, ?_, ?_, ?_⟩
        · simp only [presentEntriesT, List.filterMap_cons, hg, List.take_succ_cons]
          rw [i1]; rfl
        · simp only [List.length_cons]; omega
        · intro k
          simp only [SMap.get?_cons, List.map_cons, List.mem_cons]
          by_cases hk : k = k0
          · simp only [hk, if_true, true_or]
          · simp only [hk, if_false, false_or]
            exact i3 k
        · simp only [List.map_cons, i4]
      | none =>
        have ih' := ih (r + 1)
        rcases hrec : drainTracked (r + 1) rest with ⟨l', it, r'⟩
        rw [hrec] at ih'
        simp only at ih'
        obtain ⟨i1, i2, i3, i4⟩ := ih'
        have hta : tv.take.1 = tv := by rw [TV.take_absent tv hg]
        have hd : drainTracked (r + 1) ((k0, tv) :: rest) = ((k0, tv) :: l', it, r') := by
          simp only [drainTracked]
          rw [TV.take_eq tv, hg, hta]
          simp only [hrec]
        rw [hd]
        simp only
        refine ⟨?_, i2, ?_, ?_⟩
        · simp only [presentEntriesT, List.filterMap_cons, hg]
          exact i1
        · intro k
          simp only [SMap.get?_cons]
          by_cases hk : k = k0
          · simp only [hk, if_true, hta]; split <;> rfl
          · simp only [hk, if_false]
            exact i3 k
        · simp only [List.map_cons, i4]

theorem sorted_of_keys_eq {V W : Type} (l1 : List (Nat × V)) (l2 : List (Nat × W))
    (h : l1.map (·.1) = l2.map (·.1)) (hs : SMap.Sorted l1) : SMap.Sorted l2 := by
  unfold SMap.Sorted at *
  have h1 : (l1.map (·.1)).Pairwise (· < ·) := by rw [List.pairwise_map]; exact hs
  rw [h, List.pairwise_map] at h1
  exact h1

theorem drainDb_eq (part : TPart) (r : Nat) (dbl : List (Nat × Nat)) :
    drainDb part r dbl = (untrackedDb part dbl).take r := by
  induction dbl generalizing r with
  | nil => cases r <;> simp [drainDb, untrackedDb]
  | cons hd rest ih =>
    obtain ⟨k, v⟩ := hd
    cases r with
    | zero => simp [drainDb]
    | succ r =>
      simp only [drainDb, untrackedDb, List.filter_cons]
      by_cases hc : SMap.contains part k = true
      · simp only [hc, if_true, Bool.not_true]
        have := ih (r + 1)
        simp only [untrackedDb] at this
        simpa using this
      · simp only [Bool.not_eq_true] at hc
        simp only [hc, Bool.not_false, if_true, List.take_succ_cons]
        have := ih r
        simp only [untrackedDb] at this
        simp [this]

theorem get?_insertDrained (part : TPart) (l : List (Nat × Nat)) (k : Nat) :
    SMap.get? (insertDrained part l) k
      = match lastBinding l k with
        | some v => some (TV.readExistAndWrite v .delete)
        | none => SMap.get? part k := by
  induction l generalizing part with
  | nil => rfl
  | cons hd t ih =>
    obtain ⟨a, c⟩ := hd
    simp only [insertDrained, ih, lastBinding]
    cases lastBinding t k with
    | some x => rfl
    | none =>
      simp only [SMap.get?_insert]
      split <;> rfl

theorem sorted_insertDrained (part : TPart) (l : List (Nat × Nat)) (h : SMap.Sorted part) :
    SMap.Sorted (insertDrained part l) := by
  induction l generalizing part with
  | nil => exact h
  | cons hd t ih => exact ih _ (SMap.sorted_insert part hd.1 _ h)

theorem untrackedDb_congr (p1 p2 : TPart) (dbl : List (Nat × Nat))
    (h : ∀ k, (SMap.get? p1 k).isSome = (SMap.get? p2 k).isSome) : untrackedDb p1 dbl = untrackedDb p2 dbl := by
  unfold untrackedDb SMap.contains
  congr 1
  funext x
  rw [h]

theorem lastBinding_mem {V : Type} (l : List (Nat × V)) (k : Nat) :
    (lastBinding l k).isSome = true ↔ k ∈ l.map (·.1) := by
  induction l with
  | nil => simp [lastBinding]
  | cons hd t ih =>
    obtain ⟨a, c⟩ := hd
    simp only [lastBinding, List.map_cons, List.mem_cons]
    cases hl : lastBinding t k with
    | some x =>
      rw [hl] at ih
      simp only [Option.isSome_some, true_iff] at ih ⊢
      exact Or.inr ih
    | none =>
      rw [hl] at ih
      have : k ∉ t.map (·.1) := fun hm => by simpa using ih.mpr hm
      by_cases hk : k = a
      · simp [hk]
      · simp [hk, this]

theorem get?_isSome_of_mem_keys {V : Type} (l : List (Nat × V)) (k : Nat) (h : k ∈ l.map (·.1)) :
    (SMap.get? l k).isSome = true := by
  induction l with
  | nil => simp at h
  | cons hd t ih =>
    obtain ⟨a, c⟩ := hd
    simp only [SMap.get?_cons]
    by_cases hk : k = a
    · simp [hk]
    · simp only [hk, if_false]
      apply ih
      simpa [hk] using h

theorem presentEntriesT_keys (part : TPart) : ∀ x ∈ presentEntriesT part, x.1 ∈ part.map (·.1) := by
  intro x hx
  unfold presentEntriesT at hx
  rw [List.mem_filterMap] at hx
  obtain ⟨y, hy, hxy⟩ := hx
  cases hg : y.2.get with
  | none => rw [hg] at hxy; simp at hxy
  | some v =>
    rw [hg] at hxy
    simp only [Option.some.injEq] at hxy
    rw [← hxy]
    exact List.mem_map_of_mem hy

/-- the tracked partition after `drain_substates`, the drained entries -/
def drainResult (t : Track) (n p limit : Nat) : TPart × List (Nat × Nat) :=
  let part := partOf t.nodes n p
  let r := drainTracked limit part
  let fromDb := if r.2.2 = 0 ∨ isNewIn t.nodes n = true then [] else drainDb r.1 r.2.2 (t.db (n, p))
  (insertDrained r.1 fromDb, r.2.1 ++ fromDb)

theorem trackedPart_some (t : Track) (n p : Nat) (part : TPart) (h : trackedPart t n p = some part) :
    partOf t.nodes n p = part := by
  rw [← trackedOr_eq]; unfold trackedOr; rw [h]

theorem trackedPart_none (t : Track) (n p : Nat) (h : trackedPart t n p = none) :
    partOf t.nodes n p = [] := by
  rw [← trackedOr_eq]; unfold trackedOr; rw [h]

/-- normal form of `drain_substates` in terms of observations -/
theorem drain_nf (t : Track) (n p limit : Nat) :
    (drainSubstates t n p limit).2 = (drainResult t n p limit).2 ∧
    (drainSubstates t n p limit).1.db = t.db ∧
    (∀ n', isNewIn (drainSubstates t n p limit).1.nodes n' = isNewIn t.nodes n') ∧
    (NodesNodup t.nodes → NodesNodup (drainSubstates t n p limit).1.nodes) ∧
    (∀ n' p', partOf (drainSubstates t n p limit).1.nodes n' p'
        = if n' = n ∧ p' = p then (drainResult t n p limit).1 else partOf t.nodes n' p') := by
  unfold drainSubstates drainResult
  cases htp : trackedPart t n p with
  | some part =>
    have hp := trackedPart_some t n p part htp
    rw [hp]
    simp only []
    rcases hdt : drainTracked limit part with ⟨part', items, rem⟩
    simp only []
    by_cases hc : rem = 0 ∨ nodeIsNew t n = true
    · have hc' : rem = 0 ∨ isNewIn t.nodes n = true := hc
      simp only [hc, hc', if_true, insertDrained, List.append_nil]
      refine ⟨trivial, trivial, fun n' => isNewIn_alterPart _ _ _ _ _, fun hn => nodesNodup_alterPart _ _ _ _ hn, ?_⟩
      intro n' p'
      rw [partOf_alterPart]
    · have hc' : ¬ (rem = 0 ∨ isNewIn t.nodes n = true) := hc
      simp only [hc, hc', if_false]
      refine ⟨trivial, trivial, ?_, ?_, ?_⟩
      · intro n'; rw [isNewIn_alterPart, isNewIn_alterPart]
      · intro hn; exact nodesNodup_alterPart _ _ _ _ (nodesNodup_alterPart _ _ _ _ hn)
      · intro n' p'
        rw [partOf_alterPart, partOf_alterPart]
        by_cases hh : n' = n ∧ p' = p
        · simp only [hh, and_self, if_true]
        · simp only [hh, if_false, partOf_alterPart]
  | none =>
    have hp := trackedPart_none t n p htp
    rw [hp]
    simp only []
    have hdt : drainTracked limit ([] : TPart) = ([], [], limit) := by cases limit <;> rfl
    rw [hdt]
    simp only []
    by_cases hc : limit = 0 ∨ nodeIsNew t n = true
    · have hc' : limit = 0 ∨ isNewIn t.nodes n = true := hc
      simp only [hc, hc', if_true, insertDrained, List.append_nil]
      refine ⟨trivial, trivial, fun _ => trivial, fun hn => hn, ?_⟩
      intro n' p'
      by_cases hh : n' = n ∧ p' = p
      · obtain ⟨rfl, rfl⟩ := hh; simp only [and_self, if_true]; exact hp
      · simp only [hh, if_false]
    · have hc' : ¬ (limit = 0 ∨ isNewIn t.nodes n = true) := hc
      simp only [hc, hc', if_false, List.nil_append]
      refine ⟨trivial, trivial, fun n' => isNewIn_alterPart _ _ _ _ _, fun hn => nodesNodup_alterPart _ _ _ _ hn, ?_⟩
      intro n' p'
      rw [partOf_alterPart, hp]

theorem drainTracked_isSome (r : Nat) (part : TPart) (k : Nat) :
    (SMap.get? (drainTracked r part).1 k).isSome = (SMap.get? part k).isSome := by
  rw [(drainTracked_spec r part).2.2.1 k]
  cases SMap.get? part k with
  | none => rfl
  | some tv => simp only []; split <;> rfl

theorem drainResult_items (t : Track) (h : WF t) (n p limit : Nat) :
    (drainResult t n p limit).2 = (presentEntries t n p).take limit := by
  unfold drainResult presentEntries
  simp only []
  have hs := drainTracked_spec limit (partOf t.nodes n p)
  obtain ⟨h1, h2, _, _⟩ := hs
  have hu : untrackedDb (drainTracked limit (partOf t.nodes n p)).1 (t.db (n, p))
      = untrackedDb (partOf t.nodes n p) (t.db (n, p)) :=
    untrackedDb_congr _ _ _ (drainTracked_isSome limit _)
  generalize hP : presentEntriesT (partOf t.nodes n p) = P at h1
  have hlen : (P.take limit).length = min limit P.length := List.length_take
  by_cases hc : (drainTracked limit (partOf t.nodes n p)).2.2 = 0 ∨ isNewIn t.nodes n = true
  · simp only [hc, if_true, List.append_nil]
    rcases hc with hr | hnew
    · rw [h1, List.take_append_of_le_length (by rw [h1] at h2; omega)]
    · rw [h.fresh n hnew p]
      simp [untrackedDb, h1]
  · simp only [hc, if_false]
    rw [drainDb_eq, hu, h1, List.take_append]
    have : (drainTracked limit (partOf t.nodes n p)).2.2 = limit - P.length := by
      rw [h1] at h2; omega
    rw [this]

theorem mem_take_keys {V : Type} (l : List (Nat × V)) (r : Nat) (k : Nat)
    (h : k ∈ (l.take r).map (·.1)) : k ∈ l.map (·.1) := by
  rw [List.mem_map] at h ⊢
  obtain ⟨x, hx, rfl⟩ := h
  exact ⟨x, List.mem_of_mem_take hx, rfl⟩

theorem drain_get_aux (t : Track) (n p limit k : Nat) (fromDb : List (Nat × Nat)) :
    (match SMap.get? (insertDrained (drainTracked limit (partOf t.nodes n p)).1 fromDb) k with
      | some tv => tv.get
      | none => SMap.get? (t.db (n, p)) k)
      = if k ∈ ((drainTracked limit (partOf t.nodes n p)).2.1 ++ fromDb).map (·.1) then none else eff t n p k := by
  have hs := drainTracked_spec limit (partOf t.nodes n p)
  obtain ⟨h1, _, h3, _⟩ := hs
  rw [get?_insertDrained, eff_part]
  simp only [List.map_append, List.mem_append]
  cases hl : lastBinding fromDb k with
  | some v =>
    have : k ∈ fromDb.map (·.1) := (lastBinding_mem fromDb k).mp (by rw [hl]; rfl)
    simp only [this, or_true, if_true]
    rfl
  | none =>
    have hnf : k ∉ fromDb.map (·.1) := fun hm => by
      have := (lastBinding_mem fromDb k).mpr hm
      rw [hl] at this; simp at this
    simp only [hnf, or_false]
    rw [h3 k]
    cases hg : SMap.get? (partOf t.nodes n p) k with
    | none =>
      have hni : k ∉ (drainTracked limit (partOf t.nodes n p)).2.1.map (·.1) := by
        intro hm
        rw [h1] at hm
        have hm' := mem_take_keys _ _ _ hm
        rw [List.mem_map] at hm'
        obtain ⟨x, hx, hxk⟩ := hm'
        have := get?_isSome_of_mem_keys _ k (by rw [← hxk]; exact presentEntriesT_keys _ x hx)
        rw [hg] at this; simp at this
      simp only [hni, if_false]
    | some tv =>
      simp only []
      by_cases hi : k ∈ (drainTracked limit (partOf t.nodes n p)).2.1.map (·.1)
      · simp only [hi, if_true]; exact TV.take_fst_get tv
      · simp only [hi, if_false]

/-- the tracked values after a drain: drained substates read as absent, the others are unchanged -/
theorem drainResult_get (t : Track) (n p limit k : Nat) :
    (match SMap.get? (drainResult t n p limit).1 k with
      | some tv => tv.get
      | none => SMap.get? (t.db (n, p)) k)
      = if k ∈ (drainResult t n p limit).2.map (·.1) then none else eff t n p k := by
  unfold drainResult
  exact drain_get_aux t n p limit k _

theorem inv_of_partOf (t t' : Track) (n p : Nat) (fp : TPart) (h : Inv t)
    (hdb : t'.db = t.db) (hnew : ∀ n', isNewIn t'.nodes n' = isNewIn t.nodes n')
    (hnd : NodesNodup t'.nodes)
    (hpart : ∀ n' p', partOf t'.nodes n' p' = if n' = n ∧ p' = p then fp else partOf t.nodes n' p')
    (hs : SMap.Sorted fp) (hc : ∀ k tv, SMap.get? fp k = some tv → CohTV t.db n p k tv) : Inv t' := by
  refine ⟨⟨by rw [hdb]; exact h.wf.dbWF, ?_, ?_⟩, hnd, ?_⟩
  · intro n' p'
    rw [hpart]
    split
    · exact hs
    · exact h.wf.sorted n' p'
  · intro n' hn'
    rw [hnew] at hn'
    rw [hdb]
    exact h.wf.fresh n' hn'
  · intro n' p' k' tv hg
    rw [hpart] at hg
    rw [hdb]
    split at hg
    · rename_i hh; obtain ⟨rfl, rfl⟩ := hh
      exact hc k' tv hg
    · exact h.coh n' p' k' tv hg

theorem lastBinding_mem_val {V : Type} (l : List (Nat × V)) (k : Nat) (v : V)
    (h : lastBinding l k = some v) : (k, v) ∈ l := by
  induction l with
  | nil => simp [lastBinding] at h
  | cons hd t ih =>
    obtain ⟨a, c⟩ := hd
    simp only [lastBinding] at h
    cases hl : lastBinding t k with
    | some x =>
      rw [hl] at h
      simp only [Option.some.injEq] at h
      subst h
      exact List.mem_cons_of_mem _ (ih hl)
    | none =>
      rw [hl] at h
      simp only at h
      split at h
      · subst_vars; simp only [Option.some.injEq] at h; subst h; exact List.mem_cons_self ..
      · simp at h

theorem inv_drain (t : Track) (n p limit : Nat) (h : Inv t) : Inv (drainSubstates t n p limit).1 := by
  obtain ⟨_, hdb, hnew, hnd, hpart⟩ := drain_nf t n p limit
  apply inv_of_partOf t _ n p _ h hdb hnew (hnd h.nodup) hpart
  · unfold drainResult
    apply sorted_insertDrained
    exact sorted_of_keys_eq _ _ (drainTracked_spec limit _).2.2.2.symm (h.wf.sorted n p)
  · intro k tv hg
    unfold drainResult at hg
    simp only [] at hg
    rw [get?_insertDrained] at hg
    split at hg
    · -- a drained database entry
      rename_i v hl
      simp only [Option.some.injEq] at hg
      subst hg
      have hm := lastBinding_mem_val _ k v hl
      split at hm
      · simp at hm
      · rw [drainDb_eq] at hm
        have hm2 := List.mem_of_mem_take hm
        unfold untrackedDb at hm2
        rw [List.mem_filter] at hm2
        exact SMap.get?_of_mem _ (h.wf.dbWF (n, p)) k v hm2.1
    · rw [(drainTracked_spec limit _).2.2.1 k] at hg
      cases hgp : SMap.get? (partOf t.nodes n p) k with
      | none => rw [hgp] at hg; simp at hg
      | some tv0 =>
        rw [hgp] at hg
        simp only [] at hg
        have hc0 := h.coh n p k tv0 hgp
        split at hg
        · simp only [Option.some.injEq] at hg; subst hg; exact CohTV_take _ _ _ _ _ hc0
        · simp only [Option.some.injEq] at hg; subst hg; exact hc0

theorem getTracked_db (t : Track) (n p k : Nat) : (getTracked t n p k).1.db = t.db :=
  by unfold getTracked; cases lookupTV t n p k <;> rfl

end Radix.Track
