/-
C17 — structural invariant `Inv` of a tier tree (canonical shape, key/path consistency, cached
hashes), its entries `ents`, and `hash_of_inv`: the hash of a tree satisfying `Inv` is the
from-scratch commitment of its leaves.
-/
import RadixModel.Model.JmtStore
import RadixModel.Lemmas.JmtSpec
namespace Radix.Jmt

variable {α : Type}

/-- key bits, most significant first. -/
def bits (k : Key) : List Bool := (nibbles k).flatMap (lbits 4)

/-- number of leaves. -/
def size : Tree α → Nat
  | .null => 0
  | .leaf .. => 1
  | .node _ _ c => ((List.range 16).map fun i => size (c i)).sum

/-- entries of a tree rooted at nibble depth `d` (key bits below that depth, leaf hash). -/
def ents (H : List UInt8 → Hash) : Nat → Tree α → List Ent
  | _, .null => []
  | d, .leaf _ k vh _ _ => [((bits k).drop (4 * d), H (k ++ vh))]
  | d, .node _ _ c => cat (fun i => ents H (d + 1) (c i)) 4 0

/-- The invariant of a (sub)tree stored at local path `p`:
* a leaf's key extends the path;
* an internal node caches the `merkle_hash` of its children, has children only at nibbles `< 16`, and
  has at least two leaves below it (so single-leaf subtrees are always collapsed into the leaf). -/
def Inv (H : List UInt8 → Hash) : Path → Tree α → Prop
  | _, .null => True
  | p, .leaf _ k _ _ _ => p <+: nibbles k
  | p, .node v h c =>
    h = internalHash H c ∧ (∀ i, Inv H (p ++ [i]) (c i)) ∧ (∀ i, 16 ≤ i → c i = .null) ∧
      2 ≤ size (.node v h c)

theorem cat_length (E : Nat → List Ent) (l s : Nat) :
    (cat E l s).length = ((List.range (2 ^ l)).map fun j => (E (s + j)).length).sum := by
  unfold cat
  rw [List.length_flatMap]
  congr 1
  apply List.map_congr_left
  intro j _; simp

theorem ents_length (H : List UInt8 → Hash) (d : Nat) (t : Tree α) : (ents H d t).length = size t := by
  induction t generalizing d with
  | null => rfl
  | leaf => rfl
  | node v h c ih =>
    simp only [ents, size]
    rw [cat_length]
    congr 1
    apply List.map_congr_left
    intro j _; simp [ih]

theorem size_pos_of_not_null (H : List UInt8 → Hash) (p : Path) (t : Tree α) (hi : Inv H p t)
    (hn : t.isNull = false) : 1 ≤ size t := by
  cases t with
  | null => simp [Tree.isNull] at hn
  | leaf => simp [size]
  | node v h c => have := hi.2.2.2; omega

/-- **`hash_of_canon`.** -/
theorem hash_of_inv (H : List UInt8 → Hash) (p : Path) (d : Nat) (t : Tree α) (hi : Inv H p t) :
    hashOf H t = smt H (ents H d t) := by
  induction t generalizing p d with
  | null => simp [hashOf, ents, smt_nil]
  | leaf => simp [hashOf, ents, smt_single]
  | node v h c ih =>
    obtain ⟨hh, hc, _, _⟩ := hi
    simp only [hashOf, ents]
    rw [hh]; unfold internalHash
    apply mh_eq_smt
    · intro i
      have hci := hc i
      cases hcase : c i with
      | null => simp [Tree.isNull, ents]
      | leaf => simp [Tree.isNull, ents]
      | node v' h' c' =>
        rw [hcase] at hci
        have h2 := hci.2.2.2
        have := ents_length H (d + 1) (Tree.node v' h' c')
        simp only [Tree.isNull, Bool.not_false, true_iff]
        intro h0; rw [h0] at this; simp at this; omega
    · intro i _
      have hci := hc i
      cases hcase : c i with
      | null => simp [Tree.isLeaf, ents]
      | leaf => simp [Tree.isLeaf, ents]
      | node v' h' c' =>
        rw [hcase] at hci
        have h2 := hci.2.2.2
        have := ents_length H (d + 1) (Tree.node v' h' c')
        simp only [Tree.isLeaf, Bool.false_eq_true, false_iff]
        omega
    · intro i
      exact ih i (p ++ [i]) (d + 1) (hc i)


/-! ### entries vs. in-order leaves -/

theorem leaves_prefix (H : List UInt8 → Hash) (p : Path) (t : Tree α) (hi : Inv H p t) :
    ∀ l ∈ leaves t, p <+: nibbles l.1 := by
  induction t generalizing p with
  | null => intro l hl; simp [leaves] at hl
  | leaf v k vh pl s => intro l hl; simp [leaves] at hl; subst hl; exact hi
  | node v h c ih =>
    intro l hl
    simp only [leaves, List.mem_flatMap] at hl
    obtain ⟨i, _, hli⟩ := hl
    have := ih i (p ++ [i]) (hi.2.1 i) l hli
    exact List.IsPrefix.trans (List.prefix_append p [i]) this

theorem flatMap_lbits_length (p : List Nat) : (p.flatMap (lbits 4)).length = 4 * p.length := by
  induction p with
  | nil => rfl
  | cons a p ih => simp [List.flatMap_cons, lbits_length, ih]; omega

theorem bits_drop (p : Path) (j : Nat) (k : Key) (h : (p ++ [j]) <+: nibbles k) :
    (bits k).drop (4 * p.length) = lbits 4 j ++ (bits k).drop (4 * (p.length + 1)) := by
  obtain ⟨rest, hr⟩ := h
  unfold bits
  rw [← hr]
  simp only [List.flatMap_append, List.flatMap_cons, List.flatMap_nil, List.append_nil, List.append_assoc]
  have h1 : (p.flatMap (lbits 4)).length = 4 * p.length := flatMap_lbits_length p
  have h2 : (p.flatMap (lbits 4) ++ lbits 4 j).length = 4 * (p.length + 1) := by
    simp [h1, lbits_length]; omega
  rw [List.drop_left' h1, ← List.append_assoc, List.drop_left' h2]

theorem pow4 : 2 ^ 4 = 16 := by decide

theorem ents_eq_leaves (H : List UInt8 → Hash) (p : Path) (t : Tree α) (hi : Inv H p t) :
    ents H p.length t =
      (leaves t).map fun l => ((bits l.1).drop (4 * p.length), H (l.1 ++ l.2.1)) := by
  induction t generalizing p with
  | null => rfl
  | leaf v k vh pl s => rfl
  | node v h c ih =>
    simp only [ents, leaves, cat, pow4, List.map_flatMap, Nat.zero_add]
    apply flatMap_congr'
    intro j _
    have hj := ih j (p ++ [j]) (hi.2.1 j)
    simp only [List.length_append, List.length_singleton] at hj
    rw [hj, List.map_map]
    apply List.map_congr_left
    intro l hl
    have hp := leaves_prefix H (p ++ [j]) (c j) (hi.2.1 j) l hl
    simp only [Function.comp, pre]
    rw [bits_drop p j l.1 hp]

/-- **`root_is_commitment` for one tier tree**: the (cached) root hash of a tree satisfying the
invariant is the from-scratch sparse-Merkle commitment of its leaves `(key bits, H(key ++ value_hash))`. -/
theorem root_eq_smt_leaves (H : List UInt8 → Hash) (t : Tree α) (hi : Inv H [] t) :
    hashOf H t = smt H ((leaves t).map fun l => (bits l.1, H (l.1 ++ l.2.1))) := by
  rw [hash_of_inv H [] 0 t hi]
  have := ents_eq_leaves H [] t hi
  simp only [List.length_nil, Nat.mul_zero, List.drop_zero] at this
  rw [this]

end Radix.Jmt
