/-
Helper lemmas for the transaction model (`Model/ResTx.lean`): bookkeeping of bucket nodes and the
per-resource fungible total used by the conservation theorem of C09.
-/
import RadixModel.Model.ResTx
import RadixModel.Lemmas.ResContainer
namespace Radix.Res

/-- fungible amount of resource `r` held by a bucket -/
def famt (b : Bucket) (r : Nat) : Int :=
  if b.res = r then (match b.c with | .f c => c.amount | .n _ => 0) else 0

def sumNodes : List (Nat × Bucket) → Nat → Int
  | [], _ => 0
  | e :: t, r => famt e.2 r + sumNodes t r

/-- Everything of fungible resource `r` inside the transaction: the account vault, every live bucket
(on the worktop or named) and what has been burned. -/
def tot (s : St) (r : Nat) : Int := (s.vaultF r).amount + sumNodes s.nodes r + s.burnedF r

def keys (l : List (Nat × Bucket)) : List Nat := l.map (·.1)

structure NodesOk (s : St) : Prop where
  nodup : (keys s.nodes).Nodup
  fresh : ∀ k ∈ keys s.nodes, k < s.nextNode

theorem lookup_nil {β : Type} (k : Nat) : lookup ([] : List (Nat × β)) k = none := rfl

theorem lookup_cons {β : Type} (e : Nat × β) (t : List (Nat × β)) (k : Nat) :
    lookup (e :: t) k = if e.1 = k then some e.2 else lookup t k := by
  unfold lookup
  simp only [List.find?_cons]
  by_cases h : e.1 = k
  · simp [h]
  · have : (e.1 == k) = false := by simp [h]
    simp [this, h]

theorem lookup_mem_keys {l : List (Nat × Bucket)} {k : Nat} {b : Bucket} (h : lookup l k = some b) :
    k ∈ keys l := by
  induction l with
  | nil => simp [lookup_nil] at h
  | cons e t ih =>
    rw [lookup_cons] at h
    simp only [keys, List.map_cons, List.mem_cons]
    by_cases he : e.1 = k
    · left; exact he.symm
    · simp only [he, if_false] at h; right; exact ih h

theorem remove_of_not_mem {l : List (Nat × Bucket)} {k : Nat} (h : k ∉ keys l) : remove l k = l := by
  induction l with
  | nil => rfl
  | cons e t ih =>
    simp only [keys, List.map_cons, List.mem_cons, not_or] at h
    have hne : e.1 ≠ k := fun x => h.1 x.symm
    simp only [remove, List.filter_cons]
    have : (e.1 != k) = true := by simp [hne]
    simp only [this, if_true]
    congr 1
    exact ih h.2

theorem setNode_of_not_mem {l : List (Nat × Bucket)} {k : Nat} (b : Bucket) (h : k ∉ keys l) :
    setNode l k b = l := by
  induction l with
  | nil => rfl
  | cons e t ih =>
    simp only [keys, List.map_cons, List.mem_cons, not_or] at h
    have hne : e.1 ≠ k := fun x => h.1 x.symm
    simp only [setNode, List.map_cons]
    have : (e.1 == k) = false := by simp [hne]
    simp only [this]
    congr 1
    exact ih h.2

theorem keys_remove_subset (l : List (Nat × Bucket)) (k : Nat) : ∀ x ∈ keys (remove l k), x ∈ keys l := by
  intro x hx
  simp only [keys, remove, List.mem_map, List.mem_filter] at hx ⊢
  obtain ⟨e, ⟨he, _⟩, rfl⟩ := hx
  exact ⟨e, he, rfl⟩

theorem keys_setNode (l : List (Nat × Bucket)) (k : Nat) (b : Bucket) : keys (setNode l k b) = keys l := by
  unfold keys setNode
  rw [List.map_map]
  apply List.map_congr_left
  intro e _
  by_cases h : e.1 = k
  · simp [h]
  · simp [h]

theorem nodup_remove {l : List (Nat × Bucket)} (k : Nat) (h : (keys l).Nodup) : (keys (remove l k)).Nodup := by
  unfold keys remove
  exact (List.Nodup.sublist (List.Sublist.map _ List.filter_sublist) h)

theorem sumNodes_append (l : List (Nat × Bucket)) (e : Nat × Bucket) (r : Nat) :
    sumNodes (l ++ [e]) r = sumNodes l r + famt e.2 r := by
  induction l with
  | nil => simp [sumNodes]
  | cons x t ih => simp only [List.cons_append, sumNodes, ih]; omega

theorem sumNodes_remove {l : List (Nat × Bucket)} {k : Nat} {b : Bucket} (r : Nat)
    (hnd : (keys l).Nodup) (h : lookup l k = some b) :
    sumNodes (remove l k) r = sumNodes l r - famt b r := by
  induction l with
  | nil => simp [lookup_nil] at h
  | cons e t ih =>
    rw [lookup_cons] at h
    simp only [keys, List.map_cons, List.nodup_cons] at hnd
    by_cases he : e.1 = k
    · simp only [he, if_true, Option.some.injEq] at h
      have hk : k ∉ keys t := by rw [← he]; exact hnd.1
      have : remove (e :: t) k = t := by
        simp only [remove, List.filter_cons]
        have : (e.1 != k) = false := by simp [he]
        simp only [this]
        exact remove_of_not_mem hk
      rw [this]; simp only [sumNodes, h]; omega
    · simp only [he, if_false] at h
      have : remove (e :: t) k = e :: remove t k := by
        simp only [remove, List.filter_cons]
        have : (e.1 != k) = true := by simp [he]
        simp [this]
      rw [this]; simp only [sumNodes, ih hnd.2 h]; omega

theorem sumNodes_setNode {l : List (Nat × Bucket)} {k : Nat} {b : Bucket} (b' : Bucket) (r : Nat)
    (hnd : (keys l).Nodup) (h : lookup l k = some b) :
    sumNodes (setNode l k b') r = sumNodes l r - famt b r + famt b' r := by
  induction l with
  | nil => simp [lookup_nil] at h
  | cons e t ih =>
    rw [lookup_cons] at h
    simp only [keys, List.map_cons, List.nodup_cons] at hnd
    by_cases he : e.1 = k
    · simp only [he, if_true, Option.some.injEq] at h
      have hk : k ∉ keys t := by rw [← he]; exact hnd.1
      have : setNode (e :: t) k b' = (k, b') :: t := by
        simp only [setNode, List.map_cons]
        have : (e.1 == k) = true := by simp [he]
        simp only [this, if_true]
        congr 1
        exact setNode_of_not_mem b' hk
      rw [this]; simp only [sumNodes, h]; omega
    · simp only [he, if_false] at h
      have : setNode (e :: t) k b' = e :: setNode t k b' := by
        simp only [setNode, List.map_cons]
        have : (e.1 == k) = false := by simp [he]
        simp [this]
      rw [this]; simp only [sumNodes, ih hnd.2 h]; omega

theorem lookup_remove_ne {l : List (Nat × Bucket)} {k k' : Nat} (h : k' ≠ k) :
    lookup (remove l k) k' = lookup l k' := by
  induction l with
  | nil => rfl
  | cons e t ih =>
    by_cases he : e.1 = k
    · have : remove (e :: t) k = remove t k := by
        simp only [remove, List.filter_cons]
        have : (e.1 != k) = false := by simp [he]
        simp [this]
      rw [this, ih, lookup_cons]
      have : e.1 ≠ k' := by rw [he]; exact fun x => h x.symm
      simp [this]
    · have : remove (e :: t) k = e :: remove t k := by
        simp only [remove, List.filter_cons]
        have : (e.1 != k) = true := by simp [he]
        simp [this]
      rw [this, lookup_cons, lookup_cons, ih]


/-! ### conservation of the fungible total by the primitives -/

theorem take_amount {c c' : FCont} {a : Int} {d : Nat} {w : Who} (h : c.take a d w = .ok c') :
    c'.amount = c.amount - a := by
  unfold FCont.take FCont.takeRaw at h
  by_cases hc : checkAmount a d = true
  · by_cases hlt : c.liquid < a
    · simp [hc, hlt] at h
    · simp [hc, hlt] at h; subst h; simp only [FCont.amount]; omega
  · simp [hc] at h

theorem lock_amount {c c' : FCont} {a : Int} {w : Who} (h : c.lock a w = .ok c') : c'.amount = c.amount := by
  have hn := maxL_nonneg c.locked
  rcases lock_cases c c' a w h with ⟨hgt, _, rfl⟩ | ⟨hle, rfl⟩
  · simp only [FCont.amount, maxL_cons]; split <;> omega
  · simp only [FCont.amount, maxL_cons]; split <;> omega

theorem createProof_amount {c c' : FCont} {a : Int} {d : Nat} {w : Who} (h : c.createProof a d w = .ok c') :
    c'.amount = c.amount := by
  unfold FCont.createProof at h
  by_cases hc : checkAmount a d = true
  · simp only [hc, if_true] at h
    cases hl : c.lock a w with
    | error e => simp [hl] at h
    | ok c1 =>
      simp only [hl] at h
      by_cases h0 : a = 0
      · simp [h0] at h
      · simp [h0] at h; subst h; exact lock_amount hl
  · simp [hc] at h

theorem unlock_amount {c c' : FCont} {a : Int} (h : c.unlock a = .ok c') : c'.amount = c.amount := by
  unfold FCont.unlock at h
  by_cases hm : a ∈ c.locked
  · simp only [hm, if_true, Except.ok.injEq] at h
    subst h; simp only [FCont.amount]; omega
  · simp [hm] at h

theorem newNode_spec (s : St) (b : Bucket) (r : Nat) (h : NodesOk s) :
    NodesOk (newNode s b).1 ∧ tot (newNode s b).1 r = tot s r + famt b r := by
  refine ⟨⟨?_, ?_⟩, ?_⟩
  · simp only [newNode, keys, List.map_append, List.map_cons, List.map_nil]
    rw [List.nodup_append]
    refine ⟨h.nodup, by simp, ?_⟩
    intro a ha b' hb'
    simp only [List.mem_singleton] at hb'
    have := h.fresh a ha
    omega
  · intro k hk
    simp only [newNode, keys, List.map_append, List.map_cons, List.map_nil, List.mem_append,
      List.mem_singleton] at hk
    rcases hk with hk | hk
    · have := h.fresh k hk; simp only [newNode]; omega
    · simp only [newNode]; omega
  · simp only [newNode, tot, sumNodes_append]; omega

theorem dropNode_spec {s s' : St} {node : Nat} {b : Bucket} (h : dropNode s node = .ok (s', b)) :
    lookup s.nodes node = some b ∧ b.c.borrowed = false ∧ s' = { s with nodes := remove s.nodes node } := by
  unfold dropNode at h
  cases hl : lookup s.nodes node with
  | none => simp [hl] at h
  | some b0 =>
    simp only [hl] at h
    by_cases hb : b0.c.borrowed = true
    · simp [hb] at h
    · simp only [hb] at h
      simp only [Bool.false_eq_true, if_false, Except.ok.injEq, Prod.mk.injEq] at h
      obtain ⟨rfl, rfl⟩ := h
      exact ⟨rfl, by simpa using hb, rfl⟩

theorem nodesOk_remove {s : St} (k : Nat) (h : NodesOk s) : NodesOk { s with nodes := remove s.nodes k } :=
  ⟨nodup_remove k h.nodup, fun x hx => h.fresh x (keys_remove_subset _ _ x hx)⟩

theorem nodesOk_setNode {s : St} (k : Nat) (b : Bucket) (h : NodesOk s) :
    NodesOk { s with nodes := setNode s.nodes k b } :=
  ⟨by simp only [keys_setNode]; exact h.nodup, fun x hx => h.fresh x (by simpa only [keys_setNode] using hx)⟩

theorem dropNode_tot {s s' : St} {node : Nat} {b : Bucket} (r : Nat) (hok : NodesOk s)
    (h : dropNode s node = .ok (s', b)) : NodesOk s' ∧ tot s' r = tot s r - famt b r ∧
      s'.vaultF = s.vaultF ∧ s'.burnedF = s.burnedF := by
  obtain ⟨hl, _, rfl⟩ := dropNode_spec h
  refine ⟨nodesOk_remove node hok, ?_, rfl, rfl⟩
  simp only [tot, sumNodes_remove r hok.nodup hl]; omega

/-- a bucket no proof references holds exactly its liquid part -/
theorem famt_unborrowed {b : Bucket} (r : Nat) (h : b.c.borrowed = false) :
    famt b r = if b.res = r then (match b.c with | .f c => c.liquid | .n _ => 0) else 0 := by
  unfold famt
  cases hc : b.c with
  | n c => rfl
  | f c =>
    simp only [hc, Cont.borrowed] at h
    have : c.locked = [] := by
      cases hl : c.locked with
      | nil => rfl
      | cons x t => simp [hl] at h
    simp [FCont.amount, this, maxL]

theorem dropEmpty_tot {s s' : St} {node : Nat} (r : Nat) (hok : NodesOk s) (h : dropEmpty s node = .ok s') :
    NodesOk s' ∧ tot s' r = tot s r := by
  unfold dropEmpty at h
  cases hd : dropNode s node with
  | error e => simp [hd] at h
  | ok p =>
    obtain ⟨s1, b⟩ := p
    simp only [hd] at h
    by_cases he : b.c.liquidEmpty = true
    · simp only [he, if_true, Except.ok.injEq] at h
      subst h
      obtain ⟨h1, h2, _⟩ := dropNode_tot r hok hd
      obtain ⟨_, hb, _⟩ := dropNode_spec hd
      refine ⟨h1, ?_⟩
      rw [h2, famt_unborrowed r hb]
      cases hc : b.c with
      | n c => simp
      | f c =>
        simp only [hc, Cont.liquidEmpty, beq_iff_eq] at he
        simp [he]
    · simp [he] at h

theorem bucketPut_tot {s s' : St} {target other : Nat} (r : Nat) (hok : NodesOk s)
    (h : bucketPut s target other = .ok s') : NodesOk s' ∧ tot s' r = tot s r := by
  unfold bucketPut at h
  cases hd : dropNode s other with
  | error e => simp [hd] at h
  | ok p =>
    obtain ⟨s1, ob⟩ := p
    simp only [hd] at h
    obtain ⟨h1, h2, _⟩ := dropNode_tot r hok hd
    obtain ⟨_, hb, _⟩ := dropNode_spec hd
    cases hl : lookup s1.nodes target with
    | none => simp [hl] at h
    | some tb =>
      simp only [hl] at h
      by_cases hres : tb.res = ob.res
      · have hres' : (tb.res != ob.res) = false := by simp [hres]
        simp only [hres', Bool.false_eq_true, if_false] at h
        cases htc : tb.c with
        | f t =>
          cases hoc : ob.c with
          | f o =>
            simp only [htc, hoc, Except.ok.injEq] at h
            subst h
            refine ⟨nodesOk_setNode _ _ h1, ?_⟩
            have h3 := sumNodes_setNode { tb with c := .f (t.put o.liquid) } r h1.nodup hl
            have hfo := famt_unborrowed r hb
            simp only [hoc] at hfo
            simp only [tot] at h2 ⊢
            rw [h3]
            have e1 : famt tb r = if ob.res = r then t.amount else 0 := by simp [famt, htc, hres]
            have e2 : famt { tb with c := .f (t.put o.liquid) } r
                = if ob.res = r then (t.put o.liquid).amount else 0 := by simp [famt, hres]
            rw [e1, e2]
            rw [hfo] at h2
            simp only [FCont.put, FCont.amount] at h2 ⊢
            split <;> simp_all <;> omega
          | n o => simp [htc, hoc] at h
        | n t =>
          cases hoc : ob.c with
          | f o => simp [htc, hoc] at h
          | n o =>
            simp only [htc, hoc, Except.ok.injEq] at h
            subst h
            refine ⟨nodesOk_setNode _ _ h1, ?_⟩
            have h3 := sumNodes_setNode { tb with c := .n (t.put o.liquid) } r h1.nodup hl
            have hfo := famt_unborrowed r hb
            simp only [hoc] at hfo
            simp only [tot] at h2 ⊢
            rw [h3]
            have e1 : famt tb r = 0 := by simp [famt, htc]
            have e2 : famt { tb with c := .n (t.put o.liquid) } r = 0 := by simp [famt]
            rw [e1, e2]
            rw [hfo] at h2
            simp only [ite_self] at h2
            omega
      · have hres' : (tb.res != ob.res) = true := by simp [hres]
        simp [hres'] at h


/-- "nodes in good shape and the fungible total of `r` unchanged" -/
def Keep (r : Nat) (s s' : St) : Prop := NodesOk s' ∧ tot s' r = tot s r

theorem wtPut_tot {s s' : St} {node : Nat} (r : Nat) (hok : NodesOk s) (h : wtPut s node = .ok s') :
    Keep r s s' := by
  unfold wtPut at h
  cases hl : lookup s.nodes node with
  | none => simp [hl] at h
  | some b =>
    simp only [hl] at h
    by_cases h0 : b.c.amount = 0
    · simp only [h0, if_true] at h; exact dropEmpty_tot r hok h
    · simp only [h0, if_false] at h
      cases hw : lookup s.worktop b.res with
      | some existing => simp only [hw] at h; exact bucketPut_tot r hok h
      | none =>
        simp only [hw, Except.ok.injEq] at h; subst h
        exact ⟨⟨hok.nodup, hok.fresh⟩, rfl⟩

theorem upd_same {β : Type} (f : Nat → β) (k : Nat) (v : β) : upd f k v k = v := by simp [upd]
theorem upd_other {β : Type} (f : Nat → β) (k x : Nat) (v : β) (h : x ≠ k) : upd f k v x = f x := by simp [upd, h]

theorem depositNodes_tot (r : Nat) (nodes : List Nat) : ∀ {s s' : St}, NodesOk s →
    depositNodes s nodes = .ok s' → Keep r s s' := by
  induction nodes with
  | nil => intro s s' hok h; simp only [depositNodes, Except.ok.injEq] at h; subst h; exact ⟨hok, rfl⟩
  | cons node rest ih =>
    intro s s' hok h
    simp only [depositNodes] at h
    cases hd : dropNode s node with
    | error e => simp [hd] at h
    | ok p =>
      obtain ⟨s1, b⟩ := p
      simp only [hd] at h
      obtain ⟨h1, h2, hv, hbn⟩ := dropNode_tot r hok hd
      obtain ⟨_, hb, _⟩ := dropNode_spec hd
      have hfo := famt_unborrowed r hb
      cases hc : b.c with
      | f c =>
        simp only [hc] at h hfo
        have hk := ih (s := { s1 with vaultF := upd s1.vaultF b.res ((s1.vaultF b.res).put c.liquid) })
          ⟨h1.nodup, h1.fresh⟩ h
        refine ⟨hk.1, ?_⟩
        rw [hk.2]
        simp only [tot] at h2 ⊢
        by_cases hr : b.res = r
        · subst hr
          simp only [upd_same, FCont.put, FCont.amount, if_true] at hfo ⊢
          simp only [FCont.amount] at h2
          omega
        · have hr' : r ≠ b.res := fun x => hr x.symm
          simp only [upd_other _ _ _ _ hr', hr, if_false] at hfo ⊢
          omega
      | n c =>
        simp only [hc] at h hfo
        have hk := ih (s := { s1 with vaultN := s1.vaultN.put c.liquid }) ⟨h1.nodup, h1.fresh⟩ h
        refine ⟨hk.1, ?_⟩
        rw [hk.2]
        simp only [tot] at h2 ⊢
        simp only [ite_self] at hfo
        omega

theorem dropWorktop_tot (r : Nat) (wt : List (Nat × Nat)) : ∀ {s s' : St}, NodesOk s →
    dropWorktop s wt = .ok s' → Keep r s s' := by
  induction wt with
  | nil => intro s s' hok h; simp only [dropWorktop, Except.ok.injEq] at h; subst h; exact ⟨hok, rfl⟩
  | cons e rest ih =>
    intro s s' hok h
    obtain ⟨r0, node⟩ := e
    simp only [dropWorktop] at h
    cases hd : dropEmpty s node with
    | error e => simp [hd] at h
    | ok s1 =>
      simp only [hd] at h
      have h1 := dropEmpty_tot r hok hd
      have h2 := ih h1.1 h
      exact ⟨h2.1, by rw [h2.2, h1.2]⟩

theorem famt_same_amount {b : Bucket} {c c' : FCont} (r : Nat) (hc : b.c = .f c) (h : c'.amount = c.amount) :
    famt { b with c := .f c' } r = famt b r := by
  simp [famt, hc, h]

theorem famt_n {b : Bucket} {c : NCont} (c' : NCont) (r : Nat) (hc : b.c = .n c) :
    famt { b with c := .n c' } r = famt b r := by
  simp [famt, hc]

/-- replacing a bucket by one holding the same fungible amount keeps the total -/
theorem setNode_same_tot {s : St} {node : Nat} {b b' : Bucket} (r : Nat) (hok : NodesOk s)
    (hl : lookup s.nodes node = some b) (hf : famt b' r = famt b r) :
    Keep r s { s with nodes := setNode s.nodes node b' } := by
  refine ⟨nodesOk_setNode _ _ hok, ?_⟩
  simp only [tot, sumNodes_setNode b' r hok.nodup hl]; omega

theorem vault_same_tot {s : St} {r0 : Nat} {c : FCont} (r : Nat) (hok : NodesOk s)
    (h : c.amount = (s.vaultF r0).amount) : Keep r s { s with vaultF := upd s.vaultF r0 c } := by
  refine ⟨⟨hok.nodup, hok.fresh⟩, ?_⟩
  simp only [tot]
  by_cases hr : r = r0
  · subst hr; simp only [upd_same]; omega
  · simp only [upd_other _ _ _ _ hr]

theorem lockOn_tot {s s' : St} {p : Prf} (r : Nat) (hok : NodesOk s) (h : lockOn s p = .ok s') : Keep r s s' := by
  unfold lockOn at h
  cases hsrc : p.src with
  | vault r0 =>
    simp only [hsrc] at h
    by_cases hnf : p.nf = true
    · simp only [hnf, if_true] at h
      cases hl : s.vaultN.lock p.ids .vault with
      | error e => simp [hl] at h
      | ok c => simp only [hl, Except.ok.injEq] at h; subst h; exact ⟨⟨hok.nodup, hok.fresh⟩, rfl⟩
    · simp only [hnf] at h
      cases hl : (s.vaultF r0).lock p.amt .vault with
      | error e => simp [hl] at h
      | ok c =>
        simp only [hl, Bool.false_eq_true, if_false, Except.ok.injEq] at h; subst h
        exact vault_same_tot r hok (lock_amount hl)
  | bucket node =>
    simp only [hsrc] at h
    cases hb : lookup s.nodes node with
    | none => simp [hb] at h
    | some b =>
      simp only [hb] at h
      cases hc : b.c with
      | f c =>
        simp only [hc] at h
        by_cases hnf : p.nf = true
        · simp [hnf] at h
        · simp only [hnf, Bool.false_eq_true, if_false] at h
          cases hl : c.lock p.amt .bucket with
          | error e => simp [hl] at h
          | ok c' =>
            simp only [hl, Except.ok.injEq] at h; subst h
            exact setNode_same_tot r hok hb (famt_same_amount r hc (lock_amount hl))
      | n c =>
        simp only [hc] at h
        by_cases hnf : p.nf = true
        · simp only [hnf, Bool.not_true, Bool.false_eq_true, if_false] at h
          cases hl : c.lock p.ids .bucket with
          | error e => simp [hl] at h
          | ok c' =>
            simp only [hl, Except.ok.injEq] at h; subst h
            exact setNode_same_tot r hok hb (famt_n c' r hc)
        · simp [hnf] at h

theorem unlockOn_tot {s s' : St} {p : Prf} (r : Nat) (hok : NodesOk s) (h : unlockOn s p = .ok s') : Keep r s s' := by
  unfold unlockOn at h
  cases hsrc : p.src with
  | vault r0 =>
    simp only [hsrc] at h
    by_cases hnf : p.nf = true
    · simp only [hnf, if_true] at h
      cases hl : s.vaultN.unlock p.ids with
      | error e => simp [hl] at h
      | ok c => simp only [hl, Except.ok.injEq] at h; subst h; exact ⟨⟨hok.nodup, hok.fresh⟩, rfl⟩
    · simp only [hnf] at h
      cases hl : (s.vaultF r0).unlock p.amt with
      | error e => simp [hl] at h
      | ok c =>
        simp only [hl, Bool.false_eq_true, if_false, Except.ok.injEq] at h; subst h
        exact vault_same_tot r hok (unlock_amount hl)
  | bucket node =>
    simp only [hsrc] at h
    cases hb : lookup s.nodes node with
    | none => simp [hb] at h
    | some b =>
      simp only [hb] at h
      cases hc : b.c with
      | f c =>
        simp only [hc] at h
        by_cases hnf : p.nf = true
        · simp [hnf] at h
        · simp only [hnf, Bool.false_eq_true, if_false] at h
          cases hl : c.unlock p.amt with
          | error e => simp [hl] at h
          | ok c' =>
            simp only [hl, Except.ok.injEq] at h; subst h
            exact setNode_same_tot r hok hb (famt_same_amount r hc (unlock_amount hl))
      | n c =>
        simp only [hc] at h
        by_cases hnf : p.nf = true
        · simp only [hnf, Bool.not_true, Bool.false_eq_true, if_false] at h
          cases hl : c.unlock p.ids with
          | error e => simp [hl] at h
          | ok c' =>
            simp only [hl, Except.ok.injEq] at h; subst h
            exact setNode_same_tot r hok hb (famt_n c' r hc)
        · simp [hnf] at h

theorem unlockAll_tot (r : Nat) (ps : List (Nat × Prf)) : ∀ {s s' : St}, NodesOk s →
    unlockAll s ps = .ok s' → Keep r s s' := by
  induction ps with
  | nil => intro s s' hok h; simp only [unlockAll, Except.ok.injEq] at h; subst h; exact ⟨hok, rfl⟩
  | cons e rest ih =>
    intro s s' hok h
    obtain ⟨k, p⟩ := e
    simp only [unlockAll] at h
    cases hd : unlockOn s p with
    | error e => simp [hd] at h
    | ok s1 =>
      simp only [hd] at h
      have h1 := unlockOn_tot r hok hd
      have h2 := ih h1.1 h
      exact ⟨h2.1, by rw [h2.2, h1.2]⟩

theorem Keep.trans {r : Nat} {s s1 s2 : St} (h1 : Keep r s s1) (h2 : Keep r s1 s2) : Keep r s s2 :=
  ⟨h2.1, by rw [h2.2, h1.2]⟩

theorem Keep.refl {r : Nat} {s : St} (h : NodesOk s) : Keep r s s := ⟨h, rfl⟩

end Radix.Res
