/-
Helper lemmas for C23: a passing validation comparison is a semantic weakening; a passing kind
comparison relates the children; the pair work list computes a closed set.
-/
import RadixModel.Lemmas.SborSchema

namespace Radix.Schema
open Radix.Sbor

/-! ## Validations -/

/-- Semantic "at least as permissive": every node-level check that passes under `vb` passes under `vc`. -/
structure ValRel (env : Env) (vb vc : TV) : Prop where
  container : ∀ h, containerCheck (some vb) h = .ok () → containerCheck (some vc) h = .ok ()
  term : ∀ v, termCheck (some vb) v = .ok () → termCheck (some vc) v = .ok ()
  custom : ∀ c, customCheck env (some vb) c = .ok () → customCheck env (some vc) c = .ok ()
  batch : ∀ es, batchCheck (some vb) es = .ok () → batchCheck (some vc) es = .ok ()

theorem ValRel.refl (env : Env) (v : TV) : ValRel env v v := ⟨fun _ h => h, fun _ h => h, fun _ h => h, fun _ h => h⟩

def VChange.ok : VChange → Bool
  | .unchanged => true
  | .weakened => true
  | _ => false

theorem boundsCompare_ok {bMin bMax cMin cMax : Int} (h : (boundsCompare bMin bMax cMin cMax).ok = true) :
    cMin ≤ bMin ∧ bMax ≤ cMax := by
  unfold boundsCompare at h
  by_cases h1 : cMin < bMin <;> by_cases h2 : cMin = bMin <;> by_cases h3 : cMax < bMax <;> by_cases h4 : cMax = bMax <;>
    simp [h1, h2, h3, h4, VChange.combine, VChange.ok] at h <;> omega

theorem numValid_mono {k : IntK} {x y : Bounds} (h : (numCompare k x y).ok = true) (n : Int)
    (hv : numValid k x n = true) : numValid k y n = true := by
  have := boundsCompare_ok h
  simp only [numValid, Bool.and_eq_true, decide_eq_true_eq] at hv ⊢
  omega

theorem lenValid_mono {x y : Bounds} (h : (lenCompare x y).ok = true) (n : Nat)
    (hv : lenValid x n = true) : lenValid y n = true := by
  have := boundsCompare_ok h
  simp only [lenValid, Bool.and_eq_true, decide_eq_true_eq] at hv ⊢
  omega

theorem nodeIn_mono {f g : Nat → Bool} (h : ∀ b, f b = true → g b = true) (node : Bytes)
    (hn : nodeIn f node = true) : nodeIn g node = true := by
  unfold nodeIn at *
  cases hb : firstByte node with
  | none => simp [hb] at hn
  | some b => simp only [hb] at hn ⊢; exact h b hn

theorem refOk_mono {env : Env} (he : EnvOK env) {x y : RefV} (h : (refCompare x y).ok = true) (node : Bytes)
    (hv : refOk env x node = true) : refOk env y node = true := by
  unfold refCompare at h
  by_cases e : x = y
  · subst e; exact hv
  · simp only [e, if_false] at h
    cases x <;> cases y <;> simp_all [VChange.ok, RefV.requiresGlobal, RefV.requiresInternal, refOk] <;>
      first
        | exact nodeIn_mono he.pkg node hv
        | exact nodeIn_mono he.comp node hv
        | exact nodeIn_mono he.res node hv

theorem batch_all_mono {x y : Bounds} (h : (numCompare .u8 x y).ok = true) (es : List SV)
    (hv : es.all (byteOk x) = true) : es.all (byteOk y) = true := by
  rw [List.all_eq_true] at hv ⊢
  intro e he
  have := hv e he
  unfold byteOk at this ⊢
  cases hb : byteOf e with
  | none => simp
  | some n => simp only [hb] at this ⊢; exact numValid_mono h n this

theorem validationChange_sound {env : Env} (he : EnvOK env) {vb vc : TV}
    (h : (validationChange vb vc).ok = true) : ValRel env vb vc := by
  cases vb <;> cases vc
  case num.num k x k' y =>
    simp only [validationChange] at h
    by_cases e : k = k'
    · subst e
      simp only [if_true] at h
      refine ⟨?_, ?_, ?_, ?_⟩
      · intro hd hh; simp [containerCheck] at hh
      · intro v hh
        cases v <;> simp only [termCheck] at hh ⊢ <;> try (simp at hh)
        rename_i k'' z
        by_cases e2 : k'' = k
        · subst e2
          simp only [dite_true] at hh ⊢
          by_cases hv : numValid k'' x (intVal k'' z) = true
          · simp [numValid_mono h _ hv]
          · simp [hv] at hh
        · simp [e2] at hh
      · intro c hh; simp [customCheck] at hh
      · intro es hh
        cases k <;> simp only [batchCheck] at hh ⊢ <;> try (simp at hh)
        by_cases hv : es.all (byteOk x) = true
        · rw [if_pos (batch_all_mono h es hv)]
        · exact absurd (List.all_eq_true.mpr hh) hv
    · simp [e, VChange.ok] at h
  case string.string x y =>
    simp only [validationChange] at h
    refine ⟨?_, ?_, ?_, ?_⟩
    · intro hd hh; simp [containerCheck] at hh
    · intro v hh
      cases v <;> simp only [termCheck] at hh ⊢ <;> try (simp at hh)
      rename_i s
      by_cases hv : lenValid x s.length = true
      · simp [lenValid_mono h _ hv]
      · simp [hv] at hh
    · intro c hh; simp [customCheck] at hh
    · intro es hh; simp [batchCheck] at hh
  case array.array x y =>
    simp only [validationChange] at h
    refine ⟨?_, ?_, ?_, ?_⟩
    · intro hd hh
      cases hd <;> simp only [containerCheck] at hh ⊢ <;> try (simp at hh)
      rename_i len
      by_cases hv : lenValid x len = true
      · simp [lenValid_mono h _ hv]
      · simp [hv] at hh
    · intro v hh; simp [termCheck] at hh
    · intro c hh; simp [customCheck] at hh
    · intro es hh; simp [batchCheck] at hh
  case map.map x y =>
    simp only [validationChange] at h
    refine ⟨?_, ?_, ?_, ?_⟩
    · intro hd hh
      cases hd <;> simp only [containerCheck] at hh ⊢ <;> try (simp at hh)
      rename_i len
      by_cases hv : lenValid x len = true
      · simp [lenValid_mono h _ hv]
      · simp [hv] at hh
    · intro v hh; simp [termCheck] at hh
    · intro c hh; simp [customCheck] at hh
    · intro es hh; simp [batchCheck] at hh
  case ref.ref x y =>
    simp only [validationChange] at h
    refine ⟨?_, ?_, ?_, ?_⟩
    · intro hd hh; simp [containerCheck] at hh
    · intro v hh; simp [termCheck] at hh
    · intro c hh
      cases c <;> simp only [customCheck] at hh ⊢ <;> try (simp at hh)
      rename_i node
      by_cases hv : refOk env x node = true
      · simp [refOk_mono he h _ hv]
      · simp [hv] at hh
    · intro es hh; simp [batchCheck] at hh
  case own.own x y =>
    simp only [validationChange, ownCompare] at h
    by_cases e : x = y
    · subst e; exact ValRel.refl _ _
    · simp [e, VChange.ok] at h
  all_goals
    first
      | (simp [validationChange, VChange.ok] at h; done)
      | exact ValRel.refl _ _
      | (refine ⟨?_, ?_, ?_, ?_⟩ <;> intros <;> simp [containerCheck, termCheck, customCheck, batchCheck])

/-! ## Kinds -/

def PairAll (R : TypeId → TypeId → Prop) : List TypeId → List TypeId → Prop
  | [], [] => True
  | a :: as, b :: bs => R a b ∧ PairAll R as bs
  | _, _ => False

/-- The compared kind is `Any`, or it has the base kind's shape with related children
(enums: every base variant exists in the compared enum with related fields). -/
def KindRel (R : TypeId → TypeId → Prop) (kb kc : TypeKind) : Prop :=
  kc = .any ∨
  match kb, kc with
  | .array be, .array ce => R be ce
  | .tuple bf, .tuple cf => PairAll R bf cf
  | .enum bv, .enum cv => ∀ d bf, alookup d bv = some bf → ∃ cf, alookup d cv = some cf ∧ PairAll R bf cf
  | .map bk bv, .map ck cv => R bk ck ∧ R bv cv
  | .bool, .bool => True
  | .int k, .int k' => k = k'
  | .string, .string => True
  | .custom c, .custom c' => c = c'
  | _, _ => False

theorem PairAll.mono {R R' : TypeId → TypeId → Prop} (h : ∀ a b, R a b → R' a b) :
    ∀ {l l'}, PairAll R l l' → PairAll R' l l'
  | [], [], _ => trivial
  | _ :: _, _ :: _, ⟨h1, h2⟩ => ⟨h _ _ h1, PairAll.mono h h2⟩
  | [], _ :: _, hf => hf.elim
  | _ :: _, [], hf => hf.elim

theorem KindRel.mono {R R' : TypeId → TypeId → Prop} (h : ∀ a b, R a b → R' a b) {kb kc : TypeKind}
    (hk : KindRel R kb kc) : KindRel R' kb kc := by
  rcases hk with hk | hk
  · exact .inl hk
  · refine .inr ?_
    cases kb <;> cases kc <;> simp only at hk ⊢ <;> try (first | exact hk | exact h _ _ hk | exact hk.elim)
    · exact PairAll.mono h hk
    · intro d bf hd
      obtain ⟨cf, h1, h2⟩ := hk d bf hd
      exact ⟨cf, h1, PairAll.mono h h2⟩
    · exact ⟨h _ _ hk.1, h _ _ hk.2⟩

theorem PairAll.length {R : TypeId → TypeId → Prop} : ∀ {l l'}, PairAll R l l' → l.length = l'.length
  | [], [], _ => rfl
  | _ :: _, _ :: _, ⟨_, h2⟩ => by simp [PairAll.length h2]
  | [], _ :: _, hf => hf.elim
  | _ :: _, [], hf => hf.elim

theorem zip_pairAll {V : Pair → Prop} : ∀ (bf cf : List TypeId), bf.length = cf.length →
    (∀ p ∈ bf.zip cf, V p) → PairAll (fun x y => V (x, y)) bf cf
  | [], [], _, _ => trivial
  | b :: bs, c :: cs, hl, h => by
    refine ⟨h (b, c) (by simp), zip_pairAll bs cs (by simpa using hl) ?_⟩
    intro p hp; exact h p (by simp [hp])
  | [], _ :: _, hl, _ => by simp at hl
  | _ :: _, [], hl, _ => by simp at hl

theorem alookup_mem {α : Type} {d : Nat} {x : α} : ∀ {l : List (Nat × α)}, alookup d l = some x → (d, x) ∈ l
  | [], h => by simp [alookup] at h
  | (k, a) :: r, h => by
    simp only [alookup] at h
    by_cases e : k = d
    · simp only [e, if_true, Option.some.injEq] at h; subst h; subst e; simp
    · simp only [e, if_false] at h; exact List.mem_cons_of_mem _ (alookup_mem h)

theorem enumPairs_spec (cv : List (Nat × List TypeId)) :
    ∀ (bv : List (Nat × List TypeId)) (ch : List Pair), enumPairs cv bv = (true, ch) →
      ∀ d bf, (d, bf) ∈ bv → ∀ cf, alookup d cv = some cf → bf.length = cf.length ∧ ∀ p ∈ bf.zip cf, p ∈ ch
  | [], _, _, d, bf, hm, _, _ => by simp at hm
  | (d0, bf0) :: rest, ch, h, d, bf, hm, cf, hc => by
    simp only [enumPairs] at h
    cases hr : enumPairs cv rest with
    | mk okR chR =>
      simp only [hr] at h
      cases h0 : alookup d0 cv with
      | none =>
        simp only [h0, Prod.mk.injEq] at h
        obtain ⟨h1, h2⟩ := h
        subst h1; subst h2
        rcases List.mem_cons.mp hm with e | e
        · simp only [Prod.mk.injEq] at e; obtain ⟨e1, _⟩ := e; subst e1; simp [h0] at hc
        · exact enumPairs_spec cv rest _ hr d bf e cf hc
      | some cf0 =>
        simp only [h0] at h
        by_cases hl : bf0.length ≠ cf0.length
        · simp [hl] at h
        · simp only [hl, if_false, Prod.mk.injEq] at h
          obtain ⟨h1, h2⟩ := h
          subst h1; subst h2
          rcases List.mem_cons.mp hm with e | e
          · simp only [Prod.mk.injEq] at e; obtain ⟨e1, e2⟩ := e; subst e1; subst e2
            rw [h0] at hc; simp only [Option.some.injEq] at hc; subst hc
            exact ⟨by simpa using hl, fun p hp => List.mem_append_left _ hp⟩
          · obtain ⟨a, b⟩ := enumPairs_spec cv rest _ hr d bf e cf hc
            exact ⟨a, fun p hp => List.mem_append_right _ (b p hp)⟩

theorem compareKind_sound {env : Env} {st : Settings} {kb kc : TypeKind} {ch : List Pair} {V : Pair → Prop}
    (h : compareKind env st kb kc = (true, ch)) (hV : ∀ p ∈ ch, V p) :
    KindRel (fun x y => V (x, y)) kb kc := by
  unfold compareKind at h
  by_cases hany : kc = .any ∧ kb ≠ .any ∧ st.allowReplacingWithAny = true
  · exact .inl hany.1
  · simp only [hany, if_false] at h
    by_cases hc : kc = .any
    · exact .inl hc
    · refine .inr ?_
      cases kb <;> cases kc <;> simp at h hc ⊢
      case int.int => exact h.1.symm
      case array.array => subst h; exact hV _ (by simp)
      case tuple.tuple bf cf =>
        by_cases hl : bf.length = cf.length
        · simp only [hl, if_true, Prod.mk.injEq, true_and] at h
          subst h
          exact zip_pairAll bf cf hl hV
        · simp [hl] at h
      case enum.enum bv cv =>
        obtain ⟨⟨⟨hmiss, _⟩, hfst⟩, hsnd⟩ := h
        intro d bf hd
        have hmem := alookup_mem hd
        have hk := hmiss d bf hmem
        unfold hasKey at hk
        cases hcf : alookup d cv with
        | none => simp [hcf] at hk
        | some cf =>
          refine ⟨cf, rfl, ?_⟩
          have hp : enumPairs cv bv = (true, ch) := by
            rw [← hfst, ← hsnd]
          obtain ⟨hl, hz⟩ := enumPairs_spec cv bv ch hp d bf hmem cf hcf
          exact zip_pairAll bf cf hl (fun p hp' => hV p (hz p hp'))
      case map.map => subst h; exact ⟨hV _ (by simp), hV _ (by simp)⟩
      case custom.custom => exact h.1.symm

end Radix.Schema
