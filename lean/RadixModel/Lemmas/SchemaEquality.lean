/-
C23, equality half: under settings that grant no structural or validation relaxation, a passing
shallow comparison is symmetric, so validity also transfers from compared to base.
-/
import RadixModel.Lemmas.SchemaKernel

namespace Radix.Schema
open Radix.Sbor

/-- No new enum variants, no replacement by `Any`, no validation weakening
(`require_equality()` is such a setting; names and completeness are irrelevant for payloads). -/
structure Settings.Strict (st : Settings) : Prop where
  noNew : st.allowNewEnumVariants = false
  noAny : st.allowReplacingWithAny = false
  noWeak : st.allowValidationWeakening = false

theorem boundsCompare_unchanged {a b c d : Int} (h : boundsCompare a b c d = .unchanged) : c = a ∧ d = b := by
  unfold boundsCompare at h
  by_cases h1 : c < a <;> by_cases h2 : c = a <;> by_cases h3 : d < b <;> by_cases h4 : d = b <;>
    simp [h1, h2, h3, h4, VChange.combine] at h <;> omega

theorem boundsCompare_self (a b : Int) : boundsCompare a b a b = .unchanged := by
  simp [boundsCompare, VChange.combine]

theorem validationChange_unchanged_rev {vb vc : TV} (h : validationChange vb vc = .unchanged) :
    validationChange vc vb = .unchanged := by
  cases vb <;> cases vc <;> simp only [validationChange] at h ⊢ <;> (first | exact h | (cases h; done) | skip)
  case num.num k x k' y =>
    by_cases e : k = k'
    · subst e
      simp only [if_true, numCompare] at h ⊢
      obtain ⟨h1, h2⟩ := boundsCompare_unchanged h
      rw [h1, h2]; exact boundsCompare_self _ _
    · simp [e] at h
  case string.string x y =>
    simp only [lenCompare] at h ⊢
    obtain ⟨h1, h2⟩ := boundsCompare_unchanged h
    rw [h1, h2]; exact boundsCompare_self _ _
  case array.array x y =>
    simp only [lenCompare] at h ⊢
    obtain ⟨h1, h2⟩ := boundsCompare_unchanged h
    rw [h1, h2]; exact boundsCompare_self _ _
  case map.map x y =>
    simp only [lenCompare] at h ⊢
    obtain ⟨h1, h2⟩ := boundsCompare_unchanged h
    rw [h1, h2]; exact boundsCompare_self _ _
  case ref.ref x y =>
    unfold refCompare at h ⊢
    by_cases e : x = y
    · subst e; simp
    · simp only [e, if_false] at h
      split at h <;> (try cases h)
      split at h <;> (try cases h)
      split at h <;> (try cases h)
      split at h <;> cases h
  case own.own x y =>
    unfold ownCompare at h ⊢
    by_cases e : x = y
    · subst e; simp
    · simp [e] at h

theorem compareValidation_strict {st : Settings} (hs : st.Strict) {vb vc : TV}
    (h : compareValidation st vb vc = true) : validationChange vb vc = .unchanged := by
  unfold compareValidation at h
  cases hc : validationChange vb vc <;> simp [hc, hs.noWeak] at h ⊢

theorem PairAll.swap {V : Pair → Prop} : ∀ {l l' : List TypeId},
    PairAll (fun x y => V (x, y)) l l' → PairAll (fun x y => V (y, x)) l' l
  | [], [], _ => trivial
  | _ :: _, _ :: _, ⟨h1, h2⟩ => ⟨h1, PairAll.swap h2⟩
  | [], _ :: _, hf => hf.elim
  | _ :: _, [], hf => hf.elim

theorem filter_isEmpty_all {α : Type} {l : List α} {p : α → Bool} (h : (l.filter p).isEmpty = true) :
    ∀ a ∈ l, p a = false := by
  intro a ha
  by_cases hp : p a = true
  · have : a ∈ l.filter p := List.mem_filter.mpr ⟨ha, hp⟩
    rw [List.isEmpty_iff] at h
    rw [h] at this; cases this
  · simpa using hp

theorem compareKind_sound_rev {env : Env} {st : Settings} (hs : st.Strict) {kb kc : TypeKind} {ch : List Pair}
    {V : Pair → Prop} (h : compareKind env st kb kc = (true, ch)) (hV : ∀ p ∈ ch, V p) :
    KindRel (fun x y => V (y, x)) kc kb := by
  have hfw := compareKind_sound h hV
  unfold compareKind at h
  have hany : ¬(kc = .any ∧ kb ≠ .any ∧ st.allowReplacingWithAny = true) := by simp [hs.noAny]
  simp only [hany, if_false] at h
  by_cases hb : kb = .any
  · exact .inl hb
  · refine .inr ?_
    cases kb <;> cases kc <;> simp at h hb ⊢
    case int.int => exact h.1
    case array.array => subst h; exact hV _ (by simp)
    case tuple.tuple bf cf =>
      by_cases hl : bf.length = cf.length
      · simp only [hl, if_true, Prod.mk.injEq, true_and] at h
        subst h
        exact PairAll.swap (zip_pairAll bf cf hl hV)
      · simp [hl] at h
    case enum.enum bv cv =>
      obtain ⟨⟨⟨_, hmiss⟩, hfst⟩, hsnd⟩ := h
      simp only [hs.noNew, Bool.false_eq_true, or_false] at hmiss
      intro d cf hd
      have hk := hmiss d cf (alookup_mem hd)
      unfold hasKey at hk
      cases hbf : alookup d bv with
      | none => simp [hbf] at hk
      | some bf =>
        refine ⟨bf, rfl, ?_⟩
        have hp : enumPairs cv bv = (true, ch) := by rw [← hfst, ← hsnd]
        obtain ⟨hl, hz⟩ := enumPairs_spec cv bv ch hp d bf (alookup_mem hbf) cf hd
        exact PairAll.swap (zip_pairAll bf cf hl (fun p hp' => hV p (hz p hp')))
    case map.map => subst h; exact ⟨hV _ (by simp), hV _ (by simp)⟩
    case custom.custom => exact h.1

/-- Reverse node relation from a strict shallow pass. -/
theorem shallow_nodeRel_rev {env : Env} (he : EnvOK env) (hw : WkClosed env) {B C : Schema} {st : Settings}
    (hs : st.Strict) {b c : TypeId} {ch : List Pair} {V : Pair → Prop}
    (h : shallow env B C st b c = some (true, ch)) (hV : ∀ p ∈ ch, V p) :
    NodeRel env C B (RelOf (fun p => V (p.2, p.1))) c b := by
  unfold shallow at h
  by_cases hcond : sameWk b c = true
  · cases b <;> cases c <;> simp [sameWk] at hcond
    subst hcond
    exact wk_nodeRel hw C B _ _
  · rw [if_neg hcond] at h
    cases hb : resolveData env B b with
    | none => simp [hb] at h
    | some bd =>
      cases hc : resolveData env C c with
      | none => simp [hb, hc] at h
      | some cd =>
        simp only [hb, hc] at h
        cases hk : compareKind env st bd.kind cd.kind with
        | mk kindOk ch' =>
          simp only [hk] at h
          cases kindOk with
          | false => simp at h
          | true =>
            simp only [Bool.not_true, Bool.false_eq_true, if_false] at h
            cases hm : compareMeta st bd.kind bd.md cd.md with
            | none => simp [hm] at h
            | some metaOk =>
              simp only [hm, Option.some.injEq, Prod.mk.injEq, Bool.and_eq_true] at h
              obtain ⟨⟨_, hval⟩, hch⟩ := h
              subst hch
              obtain ⟨hbk, hbv⟩ := resolveData_parts hb
              obtain ⟨hck, hcv⟩ := resolveData_parts hc
              constructor
              · intro kc hkc
                rw [hck] at hkc; simp only [Option.some.injEq] at hkc; subst hkc
                exact ⟨bd.kind, hbk, KindRel.mono (fun a b hab => .inl hab) (compareKind_sound_rev hs hk hV)⟩
              · intro vc hvc
                rw [hcv] at hvc; simp only [Option.some.injEq] at hvc; subst hvc
                refine ⟨bd.validation, hbv, validationChange_sound he ?_⟩
                rw [validationChange_unchanged_rev (compareValidation_strict hs hval)]; rfl

end Radix.Schema
