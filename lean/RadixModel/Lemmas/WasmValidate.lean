/-
Helper lemmas for C45 (model: `RadixModel/Model/WasmValidate.lean`).
-/
import RadixModel.Model.WasmValidate

namespace Radix.WasmValidate

/-! ### imports -/

/-- an import entry the host interface permits at the configured version -/
def Permitted (c : Config) (i : Import) : Prop :=
  i.modName = ENV ∧ ∃ h, lookupHost c.host i.name = some h ∧ h.minVersion ≤ c.version ∧ i.kind = .func h.sig

theorem checkImport_ok_iff (c : Config) (i : Import) : checkImport c i = .ok () ↔ Permitted c i := by
  unfold checkImport Permitted
  by_cases hm : i.modName = ENV
  · simp only [hm, if_true, true_and]
    cases hl : lookupHost c.host i.name with
    | none => simp
    | some h =>
      simp only [Option.some.injEq, exists_eq_left']
      by_cases hv : c.version < h.minVersion
      · simp [hv]; intro h'; omega
      · simp only [hv, if_false]
        cases hk : i.kind with
        | func sg =>
          by_cases hs : sg = h.sig
          · simp [hs]; omega
          · simp [hs]
        | global => simp
        | memory => simp
        | table => simp
        | tag => simp
  · simp [hm]

theorem enforceImports_ok_iff (c : Config) (is : List Import) :
    enforceImports c is = .ok () ↔ ∀ i ∈ is, Permitted c i := by
  induction is with
  | nil => simp [enforceImports]
  | cons i r ih =>
    unfold enforceImports
    cases h : checkImport c i with
    | error e =>
      simp only [List.mem_cons, forall_eq_or_imp]
      constructor
      · intro h'; cases h'
      · intro ⟨h1, _⟩
        rw [(checkImport_ok_iff c i).mpr h1] at h; cases h
    | ok u =>
      cases u
      simp only [List.mem_cons, forall_eq_or_imp, ih]
      exact ⟨fun h' => ⟨(checkImport_ok_iff c i).mp h, h'⟩, fun h' => h'.2⟩

theorem lookupHost_mem {host : List HostFn} {n : String} {h : HostFn} (hl : lookupHost host n = some h) :
    h ∈ host ∧ h.name = n := by
  unfold lookupHost at hl
  have := List.find?_some hl
  exact ⟨List.mem_of_find?_eq_some hl, by simpa using this⟩

/-- a permitted import is a function import -/
theorem Permitted.isFunc {c : Config} {i : Import} (h : Permitted c i) : ∃ sg, i.kind = .func sg := by
  obtain ⟨_, h', _, _, hk⟩ := h
  exact ⟨_, hk⟩

theorem filter_kind_nil_of_permitted {c : Config} {is : List Import} (k : IKind) (hk : ∀ sg, k ≠ .func sg)
    (h : ∀ i ∈ is, Permitted c i) : is.filter (fun i => i.kind = k) = [] := by
  rw [List.filter_eq_nil_iff]
  intro i hi
  obtain ⟨sg, hs⟩ := (h i hi).isFunc
  simp [hs]
  intro h'
  exact hk sg h'.symm

/-! ### version monotonicity -/

theorem Permitted.mono {c : Config} {i : Import} {v : Nat} (hv : c.version ≤ v) (h : Permitted c i) :
    Permitted { c with version := v } i := by
  obtain ⟨hm, hf, hl, hmin, hk⟩ := h
  exact ⟨hm, hf, hl, Nat.le_trans hmin hv, hk⟩

/-! ### list loops -/

theorem enforceBrTable_ok_iff (c : Config) (l : List Nat) :
    enforceBrTable c l = .ok () ↔ ∀ b ∈ l, b ≤ c.maxBrTable := by
  induction l with
  | nil => simp [enforceBrTable]
  | cons b r ih =>
    unfold enforceBrTable
    by_cases h : b > c.maxBrTable
    · simp [h]; omega
    · simp [h, ih]; omega

theorem enforceBrTable_err (c : Config) (l : List Nat) (e : Err) :
    enforceBrTable c l = .error e → e = .tooManyTargetsInBrTable := by
  induction l with
  | nil => simp [enforceBrTable]
  | cons b r ih =>
    unfold enforceBrTable
    by_cases h : b > c.maxBrTable
    · simp [h]; exact fun h => h.symm
    · simp [h]; exact ih

theorem sumLocalsFrom_some (acc : Nat) (l : List Nat) (n : Nat) :
    sumLocalsFrom acc l = some n → n = acc + l.sum := by
  induction l generalizing acc with
  | nil => simp [sumLocalsFrom]; omega
  | cons g r ih =>
    unfold sumLocalsFrom
    by_cases h : acc + g > U32_MAX
    · simp [h]
    · simp only [h, if_false]
      intro h'
      have := ih _ h'
      simp [List.sum_cons]; omega

theorem sumLocalsFrom_none (acc : Nat) (l : List Nat) :
    sumLocalsFrom acc l = none → acc + l.sum > U32_MAX := by
  induction l generalizing acc with
  | nil => simp [sumLocalsFrom]
  | cons g r ih =>
    unfold sumLocalsFrom
    by_cases h : acc + g > U32_MAX
    · simp [h, List.sum_cons]; omega
    · simp only [h, if_false]
      intro h'
      have := ih _ h'
      simp [List.sum_cons]; omega

theorem checkLocals_ok_iff (c : Config) (fs : List Func) (hmax : c.maxLocals ≤ U32_MAX) :
    checkLocals c fs = .ok () ↔ ∀ f ∈ fs, f.localGroups.sum ≤ c.maxLocals := by
  induction fs with
  | nil => simp [checkLocals]
  | cons f r ih =>
    unfold checkLocals
    cases hs : sumLocalsFrom 0 f.localGroups with
    | none =>
      have := sumLocalsFrom_none _ _ hs
      simp; omega
    | some n =>
      have := sumLocalsFrom_some _ _ _ hs
      by_cases h : n > c.maxLocals
      · simp [h]; omega
      · simp [h, ih]; omega

/-- without the `maxLocals ≤ u32::MAX` side condition: acceptance still bounds every function -/
theorem checkLocals_ok (c : Config) (fs : List Func) :
    checkLocals c fs = .ok () → ∀ f ∈ fs, f.localGroups.sum ≤ c.maxLocals := by
  induction fs with
  | nil => simp
  | cons f r ih =>
    unfold checkLocals
    cases hs : sumLocalsFrom 0 f.localGroups with
    | none => simp
    | some n =>
      have := sumLocalsFrom_some _ _ _ hs
      by_cases h : n > c.maxLocals
      · simp [h]
      · simp only [h, if_false]
        intro h' g hg
        rcases List.mem_cons.mp hg with rfl | hg
        · omega
        · exact ih h' g hg

theorem checkParamsAt_ok (c : Config) (fm : List Sig) (idx : List Nat) :
    checkParamsAt c fm idx = .ok () → ∀ i ∈ idx, ∀ sg, fm[i]? = some sg → sg.params.length ≤ c.maxParams := by
  induction idx with
  | nil => simp
  | cons i r ih =>
    unfold checkParamsAt
    cases hf : fm[i]? with
    | none => simp
    | some sg =>
      by_cases h : sg.params.length > c.maxParams
      · simp [h]
      · simp only [h, if_false]
        intro h' j hj sg' hsg'
        rcases List.mem_cons.mp hj with rfl | hj
        · rw [hf] at hsg'; cases hsg'; omega
        · exact ih h' j hj sg' hsg'

theorem checkParamsAt_ok_of (c : Config) (fm : List Sig) (idx : List Nat)
    (hin : ∀ i ∈ idx, i < fm.length)
    (h : ∀ i ∈ idx, ∀ sg, fm[i]? = some sg → sg.params.length ≤ c.maxParams) :
    checkParamsAt c fm idx = .ok () := by
  induction idx with
  | nil => simp [checkParamsAt]
  | cons i r ih =>
    unfold checkParamsAt
    have hi := hin i (by simp)
    have : fm[i]? = some fm[i] := List.getElem?_eq_getElem hi
    rw [this]
    have hb := h i (by simp) _ this
    simp only [show ¬ (fm[i].params.length > c.maxParams) by omega, if_false]
    exact ih (fun j hj => hin j (List.mem_cons_of_mem _ hj)) (fun j hj => h j (List.mem_cons_of_mem _ hj))

theorem checkParamsAt_not_moduleInfo (c : Config) (fm : List Sig) (idx : List Nat)
    (hin : ∀ i ∈ idx, i < fm.length) : checkParamsAt c fm idx ≠ .error .moduleInfoError := by
  induction idx with
  | nil => simp [checkParamsAt]
  | cons i r ih =>
    unfold checkParamsAt
    have hi := hin i (by simp)
    rw [List.getElem?_eq_getElem hi]
    by_cases h : fm[i].params.length > c.maxParams
    · simp [h]
    · simp only [h, if_false]
      exact ih (fun j hj => hin j (List.mem_cons_of_mem _ hj))

theorem checkLocals_not_moduleInfo (c : Config) (fs : List Func) : checkLocals c fs ≠ .error .moduleInfoError := by
  induction fs with
  | nil => simp [checkLocals]
  | cons f r ih =>
    unfold checkLocals
    cases sumLocalsFrom 0 f.localGroups with
    | none => simp
    | some n =>
      by_cases h : n > c.maxLocals
      · simp [h]
      · simp only [h, if_false]; exact ih

theorem funcMap_length (s : Summary) : s.funcs.length ≤ (funcMap s).length := by
  simp [funcMap]

theorem checkRequired_ok_iff (s : Summary) (exps : List Export) (req : List String) :
    checkRequired s exps req = .ok () ↔ ∀ n ∈ req, ∃ e ∈ exps, exportMatches s n e = true := by
  induction req with
  | nil => simp [checkRequired]
  | cons n r ih =>
    unfold checkRequired
    by_cases h : exps.any (exportMatches s n) = true
    · simp only [h, if_true, ih, List.mem_cons, forall_eq_or_imp]
      rw [List.any_eq_true] at h
      exact ⟨fun h' => ⟨h, h'⟩, fun h' => h'.2⟩
    · simp only [h]
      simp only [List.mem_cons, forall_eq_or_imp]
      constructor
      · intro h'; cases h'
      · intro ⟨h1, _⟩
        exact absurd (List.any_eq_true.mpr h1) h

theorem checkRequired_err (s : Summary) (exps : List Export) (req : List String) (e : Err) :
    checkRequired s exps req = .error e → ∃ n ∈ req, e = .missingExport n := by
  induction req with
  | nil => simp [checkRequired]
  | cons n r ih =>
    unfold checkRequired
    by_cases h : exps.any (exportMatches s n) = true
    · simp only [h, if_true]
      intro h'
      obtain ⟨m, hm, he⟩ := ih h'
      exact ⟨m, List.mem_cons_of_mem _ hm, he⟩
    · simp only [h]
      intro h'
      exact ⟨n, by simp, by cases h'; rfl⟩

theorem minStr_mem : ∀ (l : List String) (x : String), minStr l = some x → x ∈ l
  | [], x => by simp [minStr]
  | a :: r, x => by
    unfold minStr
    cases h : minStr r with
    | none => simp; intro h'; exact Or.inl h'.symm
    | some y =>
      have := minStr_mem r y h
      by_cases hlt : a < y
      · simp [hlt]; intro h'; exact Or.inl h'.symm
      · simp [hlt]; intro h'; subst h'; exact Or.inr this

theorem minStr_none : ∀ (l : List String), minStr l = none → l = []
  | [] => by simp
  | a :: r => by
    unfold minStr
    cases h : minStr r with
    | none => simp
    | some y => by_cases hlt : a < y <;> simp [hlt]

end Radix.WasmValidate
