/-
Helper lemmas for C45 (model: `RadixModel/Model/WasmValidate.lean`).
-/
import RadixModel.Model.WasmValidate

namespace Radix.WasmValidate

/-! ### imports -/

/-- an import entry the host interface permits at the configured version -/
def Permitted (c : Config) (i : Import) : Prop :=
  i.modName = ENV ∧ ∃ h, lookupHost c.host i.name = some h ∧ h.minVersion ≤ c.version ∧ i.kind = .func h.sig

theorem checkImport_ok_iff (c : Config) (i : Import) : checkImport c i = .ok () ↔ Permitted c i := by
  unfold checkImport Permitted
  by_cases hm : i.modName = ENV
  · simp only [hm, if_true, true_and]
    cases hl : lookupHost c.host i.name with
    | none => simp
    | some h =>
      simp only [Option.some.injEq, exists_eq_left']
      by_cases hv : c.version < h.minVersion
      · simp [hv]; intro h'; omega
      · simp only [hv, if_false]
        cases hk : i.kind with
        | func sg =>
          by_cases hs : sg = h.sig
          · simp [hs]; omega
          · simp [hs]
        | global => simp
        | memory => simp
        | table => simp
        | tag => simp
  · simp [hm]

theorem enforceImports_ok_iff (c : Config) (is : List Import) :
    enforceImports c is = .ok () ↔ ∀ i ∈ is, Permitted c i := by
  induction is with
  | nil => simp [enforceImports]
  | cons i r ih =>
    unfold enforceImports
    cases h : checkImport c i with
    | error e =>
      simp only [List.mem_cons, forall_eq_or_imp]
      constructor
      · intro h'; cases h'
      · intro ⟨h1, _⟩
        rw [(checkImport_ok_iff c i).mpr h1] at h; cases h
    | ok u =>
      cases u
      simp only [List.mem_cons, forall_eq_or_imp, ih]
      exact ⟨fun h' => ⟨(checkImport_ok_iff c i).mp h, h'⟩, fun h' => h'.2⟩

theorem lookupHost_mem {host : List HostFn} {n : String} {h : HostFn} (hl : lookupHost host n = some h) :
    h ∈ host ∧ h.name = n := by
  unfold lookupHost at hl
  have := List.find?_some hl
  exact ⟨List.mem_of_find?_eq_some hl, by simpa using this⟩

/-- a permitted import is a function import -/
theorem Permitted.isFunc {c : Config} {i : Import} (h : Permitted c i) : ∃ sg, i.kind = .func sg := by
  obtain ⟨_, h', _, _, hk⟩ := h
  exact ⟨_, hk⟩

theorem filter_kind_nil_of_permitted {c : Config} {is : List Import} (k : IKind) (hk : ∀ sg, k ≠ .func sg)
    (h : ∀ i ∈ is, Permitted c i) : is.filter (fun i => i.kind = k) = [] := by
  rw [List.filter_eq_nil_iff]
  intro i hi
  obtain ⟨sg, hs⟩ := (h i hi).isFunc
  simp [hs]
  intro h'
  exact hk sg h'.symm

/-! ### version monotonicity -/

theorem Permitted.mono {c : Config} {i : Import} {v : Nat} (hv : c.version ≤ v) (h : Permitted c i) :
    Permitted { c with version := v } i := by
  obtain ⟨hm, hf, hl, hmin, hk⟩ := h
  exact ⟨hm, hf, hl, Nat.le_trans hmin hv, hk⟩

/-! ### list loops -/

theorem enforceBrTable_ok_iff (c : Config) (l : List Nat) :
    enforceBrTable c l = .ok () ↔ ∀ b ∈ l, b ≤ c.maxBrTable := by
  induction l with
  | nil => simp [enforceBrTable]
  | cons b r ih =>
    unfold enforceBrTable
    by_cases h : b > c.maxBrTable
    · simp [h]; omega
    · simp [h, ih]; omega

theorem enforceBrTable_err (c : Config) (l : List Nat) (e : Err) :
    enforceBrTable c l = .error e → e = .tooManyTargetsInBrTable := by
  induction l with
  | nil => simp [enforceBrTable]
  | cons b r ih =>
    unfold enforceBrTable
    by_cases h : b > c.maxBrTable
    · simp [h]; exact fun h => h.symm
    · simp [h]; exact ih

theorem sumLocalsFrom_some (acc : Nat) (l : List Nat) (n : Nat) :
    sumLocalsFrom acc l = some n → n = acc + l.sum := by
  induction l generalizing acc with
  | nil => simp [sumLocalsFrom]; omega
  | cons g r ih =>
    unfold sumLocalsFrom
    by_cases h : acc + g > U32_MAX
    · simp [h]
    · simp only [h, if_false]
      intro h'
      have := ih _ h'
      simp [List.sum_cons]; omega

theorem sumLocalsFrom_none (acc : Nat) (l : List Nat) :
    sumLocalsFrom acc l = none → acc + l.sum > U32_MAX := by
  induction l generalizing acc with
  | nil => simp [sumLocalsFrom]
  | cons g r ih =>
    unfold sumLocalsFrom
    by_cases h : acc + g > U32_MAX
    · simp [h, List.sum_cons]; omega
    · simp only [h, if_false]
      intro h'
      have := ih _ h'
      simp [List.sum_cons]; omega

theorem checkLocals_ok_iff (c : Config) (fs : List Func) (hmax : c.maxLocals ≤ U32_MAX) :
    checkLocals c fs = .ok () ↔ ∀ f ∈ fs, f.localGroups.sum ≤ c.maxLocals := by
  induction fs with
  | nil => simp [checkLocals]
  | cons f r ih =>
    unfold checkLocals
    cases hs : sumLocalsFrom 0 f.localGroups with
    | none =>
      have := sumLocalsFrom_none _ _ hs
      simp; omega
    | some n =>
      have := sumLocalsFrom_some _ _ _ hs
      by_cases h : n > c.maxLocals
      · simp [h]; omega
      · simp [h, ih]; omega

/-- without the `maxLocals ≤ u32::MAX` side condition: acceptance still bounds every function -/
theorem checkLocals_ok (c : Config) (fs : List Func) :
    checkLocals c fs = .ok () → ∀ f ∈ fs, f.localGroups.sum ≤ c.maxLocals := by
  induction fs with
  | nil => simp
  | cons f r ih =>
    unfold checkLocals
    cases hs : sumLocalsFrom 0 f.localGroups with
    | none => simp
    | some n =>
      have := sumLocalsFrom_some _ _ _ hs
      by_cases h : n > c.maxLocals
      · simp [h]
      · simp only [h, if_false]
        intro h' g hg
        rcases List.mem_cons.mp hg with rfl | hg
        · omega
        · exact ih h' g hg

theorem checkParamsAt_ok (c : Config) (fm : List Sig) (idx : List Nat) :
    checkParamsAt c fm idx = .ok () → ∀ i ∈ idx, ∀ sg, fm[i]? = some sg → sg.params.length ≤ c.maxParams := by
  induction idx with
  | nil => simp
  | cons i r ih =>
    unfold checkParamsAt
    cases hf : fm[i]? with
    | none => simp
    | some sg =>
      by_cases h : sg.params.length > c.maxParams
      · simp [h]
      · simp only [h, if_false]
        intro h' j hj sg' hsg'
        rcases List.mem_cons.mp hj with rfl | hj
        · rw [hf] at hsg'; cases hsg'; omega
        · exact ih h' j hj sg' hsg'

theorem checkParamsAt_ok_of (c : Config) (fm : List Sig) (idx : List Nat)
    (hin : ∀ i ∈ idx, i < fm.length)
    (h : ∀ i ∈ idx, ∀ sg, fm[i]? = some sg → sg.params.length ≤ c.maxParams) :
    checkParamsAt c fm idx = .ok () := by
  induction idx with
  | nil => simp [checkParamsAt]
  | cons i r ih =>
    unfold checkParamsAt
    have hi := hin i (by simp)
    have : fm[i]? = some fm[i] := List.getElem?_eq_getElem hi
    rw [this]
    have hb := h i (by simp) _ this
    simp only [show ¬ (fm[i].params.length > c.maxParams) by omega, if_false]
    exact ih (fun j hj => hin j (List.mem_cons_of_mem _ hj)) (fun j hj => h j (List.mem_cons_of_mem _ hj))

theorem checkParamsAt_not_moduleInfo (c : Config) (fm : List Sig) (idx : List Nat)
    (hin : ∀ i ∈ idx, i < fm.length) : checkParamsAt c fm idx ≠ .error .moduleInfoError := by
  induction idx with
  | nil => simp [checkParamsAt]
  | cons i r ih =>
    unfold checkParamsAt
    have hi := hin i (by simp)
    rw [List.getElem?_eq_getElem hi]
    by_cases h : fm[i].params.length > c.maxParams
    · simp [h]
    · simp only [h, if_false]
      exact ih (fun j hj => hin j (List.mem_cons_of_mem _ hj))

theorem checkLocals_not_moduleInfo (c : Config) (fs : List Func) : checkLocals c fs ≠ .error .moduleInfoError := by
  induction fs with
  | nil => simp [checkLocals]
  | cons f r ih =>
    unfold checkLocals
    cases sumLocalsFrom 0 f.localGroups with
    | none => simp
    | some n =>
      by_cases h : n > c.maxLocals
      · simp [h]
      · simp only [h, if_false]; exact ih

theorem funcMap_length (s : Summary) : s.funcs.length ≤ (funcMap s).length := by
  simp [funcMap]

theorem checkRequired_ok_iff (s : Summary) (exps : List Export) (req : List String) :
    checkRequired s exps req = .ok () ↔ ∀ n ∈ req, ∃ e ∈ exps, exportMatches s n e = true := by
  induction req with
  | nil => simp [checkRequired]
  | cons n r ih =>
    unfold checkRequired
    by_cases h : exps.any (exportMatches s n) = true
    · simp only [h, if_true, ih, List.mem_cons, forall_eq_or_imp]
      rw [List.any_eq_true] at h
      exact ⟨fun h' => ⟨h, h'⟩, fun h' => h'.2⟩
    · simp only [h]
      simp only [List.mem_cons, forall_eq_or_imp]
      constructor
      · intro h'; cases h'
      · intro ⟨h1, _⟩
        exact absurd (List.any_eq_true.mpr h1) h

theorem checkRequired_err (s : Summary) (exps : List Export) (req : List String) (e : Err) :
    checkRequired s exps req = .error e → ∃ n ∈ req, e = .missingExport n := by
  induction req with
  | nil => simp [checkRequired]
  | cons n r ih =>
    unfold checkRequired
    by_cases h : exps.any (exportMatches s n) = true
    · simp only [h, if_true]
      intro h'
      obtain ⟨m, hm, he⟩ := ih h'
      exact ⟨m, List.mem_cons_of_mem _ hm, he⟩
    · simp only [h]
      intro h'
      exact ⟨n, by simp, by cases h'; rfl⟩

theorem enforceMemory_ok {c : Config} {s : Summary} {m : Mem} (h4 : enforceMemory c s = .ok m) :
    (∃ m0, s.memSection = some [m0] ∧ m0.initial ≤ c.maxMemPages ∧ m.initial = m0.initial ∧
      ∃ mx, m.maximum = some mx ∧ mx ≤ c.maxMemPages ∧
        (m0.maximum = some mx ∨ (m0.maximum = none ∧ mx = c.maxMemPages))) ∧ memoryExported s = true := by
  unfold enforceMemory at h4
  cases hsec : s.memSection with
  | none => rw [hsec] at h4; cases h4
  | some l =>
    cases l with
    | nil => rw [hsec] at h4; cases h4
    | cons m0 r =>
      cases r with
      | cons _ _ => rw [hsec] at h4; cases h4
      | nil =>
        rw [hsec] at h4; simp only at h4
        by_cases a : m0.initial > c.maxMemPages
        · rw [if_pos a] at h4; cases h4
        · rw [if_neg a] at h4
          cases hmx : m0.maximum with
          | some mx =>
            rw [hmx] at h4; simp only at h4
            by_cases b : mx > c.maxMemPages
            · rw [if_pos b] at h4; cases h4
            · rw [if_neg b] at h4
              by_cases e : memoryExported s = true
              · rw [if_pos e] at h4
                have hm : m = m0 := by cases h4; rfl
                subst hm
                exact ⟨⟨m, rfl, by omega, rfl, mx, hmx, by omega, Or.inl hmx⟩, e⟩
              · rw [if_neg e] at h4; cases h4
          | none =>
            rw [hmx] at h4; simp only at h4
            by_cases e : memoryExported s = true
            · rw [if_pos e] at h4; cases h4
              exact ⟨⟨m0, rfl, by omega, rfl, c.maxMemPages, rfl, Nat.le_refl _, Or.inr ⟨hmx, rfl⟩⟩, e⟩
            · rw [if_neg e] at h4; cases h4

theorem enforceMemory_err {c : Config} {s : Summary} {e : Err} (h4 : enforceMemory c s = .error e) :
    e = .missingMemorySection ∨ e = .noMemoryDefinition ∨ e = .memorySizeLimitExceeded ∨ e = .memoryNotExported ∨
    (e = .tooManyMemoryDefinition ∧ (s.memSection.getD []).length ≥ 2) := by
  unfold enforceMemory at h4
  cases hsec : s.memSection with
  | none => rw [hsec] at h4; cases h4; simp
  | some l =>
    cases l with
    | nil => rw [hsec] at h4; cases h4; simp
    | cons m0 r =>
      cases r with
      | cons _ _ => rw [hsec] at h4; cases h4; simp
      | nil =>
        rw [hsec] at h4; simp only at h4
        by_cases a : m0.initial > c.maxMemPages
        · rw [if_pos a] at h4; cases h4; simp
        · rw [if_neg a] at h4
          cases hmx : m0.maximum with
          | some mx =>
            rw [hmx] at h4; simp only at h4
            by_cases b : mx > c.maxMemPages
            · rw [if_pos b] at h4; cases h4; simp
            · rw [if_neg b] at h4
              by_cases e : memoryExported s = true
              · rw [if_pos e] at h4; cases h4
              · rw [if_neg e] at h4; cases h4; simp
          | none =>
            rw [hmx] at h4; simp only at h4
            by_cases e : memoryExported s = true
            · rw [if_pos e] at h4; cases h4
            · rw [if_neg e] at h4; cases h4; simp

theorem enforceTable_err {c : Config} {s : Summary} {e : Err} (h5 : enforceTable c s = .error e) :
    e = .initialTableSizeLimitExceeded ∨ (e = .moreThanOneTable ∧ (s.tableSection.getD []).length ≥ 2) := by
  unfold enforceTable at h5
  cases hs : s.tableSection with
  | none => rw [hs] at h5; cases h5
  | some sec =>
    rw [hs] at h5; simp only at h5
    by_cases a : sec.length > 1
    · rw [if_pos a] at h5; cases h5; simp; omega
    · rw [if_neg a] at h5
      cases sec with
      | nil => cases h5
      | cons t r =>
        simp only at h5
        by_cases b : t > c.maxTable
        · rw [if_pos b] at h5; cases h5; simp
        · rw [if_neg b] at h5; cases h5

theorem checkImport_err {c : Config} {i : Import} {e : Err} (h : checkImport c i = .error e) :
    (∃ n, e = .importNotAllowed n) ∨ (∃ n a b, e = .protocolMismatch n a b) ∨ (∃ n, e = .invalidFunctionType n) := by
  unfold checkImport at h
  by_cases hm : i.modName = ENV
  · rw [if_pos hm] at h
    cases hl : lookupHost c.host i.name with
    | none => rw [hl] at h; cases h; exact Or.inl ⟨_, rfl⟩
    | some hf =>
      rw [hl] at h; simp only at h
      by_cases hv : c.version < hf.minVersion
      · rw [if_pos hv] at h; cases h; exact Or.inr (Or.inl ⟨_, _, _, rfl⟩)
      · rw [if_neg hv] at h
        cases hk : i.kind with
        | func sg =>
          rw [hk] at h; simp only at h
          by_cases hs : sg = hf.sig
          · rw [if_pos hs] at h; cases h
          · rw [if_neg hs] at h; cases h; exact Or.inr (Or.inr ⟨_, rfl⟩)
        | global => rw [hk] at h; cases h; exact Or.inl ⟨_, rfl⟩
        | memory => rw [hk] at h; cases h; exact Or.inl ⟨_, rfl⟩
        | table => rw [hk] at h; cases h; exact Or.inl ⟨_, rfl⟩
        | tag => rw [hk] at h; cases h; exact Or.inl ⟨_, rfl⟩
  · rw [if_neg hm] at h; cases h; exact Or.inl ⟨_, rfl⟩

theorem enforceImports_err {c : Config} {is : List Import} {e : Err} (h : enforceImports c is = .error e) :
    (∃ n, e = .importNotAllowed n) ∨ (∃ n a b, e = .protocolMismatch n a b) ∨ (∃ n, e = .invalidFunctionType n) := by
  induction is with
  | nil => cases h
  | cons i r ih =>
    unfold enforceImports at h
    cases hc : checkImport c i with
    | ok _ => rw [hc] at h; exact ih h
    | error e' => rw [hc] at h; cases h; exact checkImport_err hc

theorem checkParamsAt_err {c : Config} {fm : List Sig} {idx : List Nat} {e : Err}
    (h : checkParamsAt c fm idx = .error e) : e = .moduleInfoError ∨ e = .tooManyFunctionParams := by
  induction idx with
  | nil => cases h
  | cons i r ih =>
    unfold checkParamsAt at h
    cases hf : fm[i]? with
    | none => rw [hf] at h; cases h; exact Or.inl rfl
    | some sg =>
      rw [hf] at h; simp only at h
      by_cases hp : sg.params.length > c.maxParams
      · rw [if_pos hp] at h; cases h; exact Or.inr rfl
      · rw [if_neg hp] at h; exact ih h

theorem checkLocals_err {c : Config} {fs : List Func} {e : Err} (h : checkLocals c fs = .error e) :
    e = .overflow ∨ ∃ a b, e = .tooManyFunctionLocals a b := by
  induction fs with
  | nil => cases h
  | cons f r ih =>
    unfold checkLocals at h
    cases hs : sumLocalsFrom 0 f.localGroups with
    | none => rw [hs] at h; cases h; exact Or.inl rfl
    | some n =>
      rw [hs] at h; simp only at h
      by_cases hp : n > c.maxLocals
      · rw [if_pos hp] at h; cases h; exact Or.inr ⟨_, _, rfl⟩
      · rw [if_neg hp] at h; exact ih h

theorem minStr_mem : ∀ (l : List String) (x : String), minStr l = some x → x ∈ l
  | [], x => by simp [minStr]
  | a :: r, x => by
    unfold minStr
    cases h : minStr r with
    | none => simp; intro h'; exact Or.inl h'.symm
    | some y =>
      have := minStr_mem r y h
      by_cases hlt : a < y
      · simp [hlt]; intro h'; exact Or.inl h'.symm
      · simp [hlt]; intro h'; subst h'; exact Or.inr this

theorem minStr_none : ∀ (l : List String), minStr l = none → l = []
  | [] => by simp
  | a :: r => by
    unfold minStr
    cases h : minStr r with
    | none => simp
    | some y => by_cases hlt : a < y <;> simp [hlt]

end Radix.WasmValidate
