/-
C08 — helper lemmas: the meaning of a rule depends on the zone only through `visible`
(congruence), is monotone in what is visible, and the pre-order visitor of `verify_access_rule`
computes exactly (max node depth, node count).
-/
import RadixModel.Model.Auth
import RadixModel.Lemmas.Auth

namespace Radix.Auth

/-- The meaning of a rule depends on the zone only through `visible`. -/
theorem matches_congr {z z' : Zone} (h : visible z = visible z') (x : RoN) : Matches z x ↔ Matches z' x := by
  simp [Matches, h]

theorem satBasic_congr {z z' : Zone} (h : visible z = visible z') (b : Basic) : SatBasic z b ↔ SatBasic z' b := by
  cases b <;> simp [SatBasic, Matches, HasAmount, h]

mutual
theorem satComp_congr {z z' : Zone} (h : visible z = visible z') : ∀ c : Comp, SatComp z c ↔ SatComp z' c
  | .basic b => by unfold SatComp; exact satBasic_congr h b
  | .anyOf rs => by unfold SatComp; exact satAny_congr h rs
  | .allOf rs => by unfold SatComp; exact satAll_congr h rs
theorem satAny_congr {z z' : Zone} (h : visible z = visible z') : ∀ rs : List Comp, SatAny z rs ↔ SatAny z' rs
  | [] => by simp [SatAny]
  | r :: rs => by unfold SatAny; rw [satComp_congr h r, satAny_congr h rs]
theorem satAll_congr {z z' : Zone} (h : visible z = visible z') : ∀ rs : List Comp, SatAll z rs ↔ SatAll z' rs
  | [] => by simp [SatAll]
  | r :: rs => by unfold SatAll; rw [satComp_congr h r, satAll_congr h rs]
end

theorem satRule_congr {z z' : Zone} (h : visible z = visible z') (r : Rule) : SatRule z r ↔ SatRule z' r := by
  cases r with
  | allowAll => simp [SatRule]
  | denyAll => simp [SatRule]
  | prot c => exact satComp_congr h c


/-- `v'` offers everything `v` offers -/
def View.le (v v' : View) : Prop :=
  (∀ p ∈ v.proofs, p ∈ v'.proofs) ∧ (∀ r ∈ v.simRes, r ∈ v'.simRes) ∧ (∀ g ∈ v.implicitNf, g ∈ v'.implicitNf)

/-- every visible zone of `z` is covered by a visible zone of `z'` -/
def Covers (z z' : Zone) : Prop := ∀ v ∈ visible z, ∃ v' ∈ visible z', v.le v'

theorem view_sat_mono {v v' : View} (h : v.le v') (x : RoN) (hs : v.Sat x) : v'.Sat x := by
  rcases hs with hs | ⟨p, hp, hh⟩
  · left
    cases x with
    | res r => exact hs.elim
    | nf g =>
      rcases hs with hs | hs
      · exact Or.inl (h.2.2 _ hs)
      · exact Or.inr (h.2.1 _ hs)
  · exact Or.inr ⟨p, h.1 p hp, hh⟩

theorem matches_mono {z z' : Zone} (h : Covers z z') (x : RoN) (hm : Matches z x) : Matches z' x := by
  obtain ⟨v, hv, hs⟩ := hm
  obtain ⟨v', hv', hle⟩ := h v hv
  exact ⟨v', hv', view_sat_mono hle x hs⟩

theorem satBasic_mono {z z' : Zone} (h : Covers z z') (b : Basic) (hs : SatBasic z b) : SatBasic z' b := by
  cases b with
  | require x => exact matches_mono h x hs
  | amountOf a r =>
    obtain ⟨v, hv, p, hp, hh⟩ := hs
    obtain ⟨v', hv', hle⟩ := h v hv
    exact ⟨v', hv', p, hle.1 p hp, hh⟩
  | countOf n xs =>
    obtain ⟨ys, h1, h2, h3⟩ := hs
    exact ⟨ys, h1, h2, fun y hy => matches_mono h y (h3 y hy)⟩
  | allOf xs => exact fun x hx => matches_mono h x (hs x hx)
  | anyOf xs =>
    obtain ⟨x, hx, hm⟩ := hs
    exact ⟨x, hx, matches_mono h x hm⟩

mutual
theorem satComp_mono {z z' : Zone} (h : Covers z z') : ∀ c : Comp, SatComp z c → SatComp z' c
  | .basic b => by unfold SatComp; exact satBasic_mono h b
  | .anyOf rs => by unfold SatComp; exact satAny_mono h rs
  | .allOf rs => by unfold SatComp; exact satAll_mono h rs
theorem satAny_mono {z z' : Zone} (h : Covers z z') : ∀ rs : List Comp, SatAny z rs → SatAny z' rs
  | [] => by simp [SatAny]
  | r :: rs => by
    unfold SatAny
    rintro (h1 | h1)
    · exact Or.inl (satComp_mono h r h1)
    · exact Or.inr (satAny_mono h rs h1)
theorem satAll_mono {z z' : Zone} (h : Covers z z') : ∀ rs : List Comp, SatAll z rs → SatAll z' rs
  | [] => by simp [SatAll]
  | r :: rs => by
    unfold SatAll
    rintro ⟨h1, h2⟩
    exact ⟨satComp_mono h r h1, satAll_mono h rs h2⟩
end


theorem chain_push (tz : Zone) (p : Proof) :
    ∃ hd tl, tz.chain = hd :: tl ∧ (tz.push p).chain = ⟨hd.proofs ++ [p], hd.simRes, hd.implicitNf⟩ :: tl := by
  cases tz with
  | mk ps s i k g pa =>
    cases pa with
    | none => exact ⟨_, _, chain_none _ _ _ _ _, by simp [Zone.push, chain_none]⟩
    | some q => exact ⟨_, _, chain_some _ _ _ _ _ _, by simp [Zone.push, chain_some]⟩


mutual
/-- greatest depth of a node, the root being at `depth` -/
def Comp.maxDepth (depth : Nat) : Comp → Nat
  | .basic _ => depth
  | .anyOf rs => max depth (Comp.maxDepthList (depth + 1) rs)
  | .allOf rs => max depth (Comp.maxDepthList (depth + 1) rs)
def Comp.maxDepthList (depth : Nat) : List Comp → Nat
  | [] => 0
  | r :: rs => max (r.maxDepth depth) (Comp.maxDepthList depth rs)
end

mutual
/-- number of `CompositeRequirement` nodes -/
def Comp.nodes : Comp → Nat
  | .basic _ => 1
  | .anyOf rs => 1 + Comp.nodesList rs
  | .allOf rs => 1 + Comp.nodesList rs
def Comp.nodesList : List Comp → Nat
  | [] => 0
  | r :: rs => r.nodes + Comp.nodesList rs
end

theorem visitNode_ok {d n depth cnt c : Nat} (h : visitNode d n depth cnt = .ok c) :
    depth ≤ d ∧ cnt + 1 ≤ n ∧ c = cnt + 1 := by
  unfold visitNode at h
  split at h
  · cases h
  · split at h
    · cases h
    · simp only [Except.ok.injEq] at h; omega

theorem visitNode_complete {d n depth cnt : Nat} (h1 : depth ≤ d) (h2 : cnt + 1 ≤ n) :
    visitNode d n depth cnt = .ok (cnt + 1) := by
  unfold visitNode
  rw [if_neg (by omega), if_neg (by omega)]

mutual
theorem visitComp_ok (d n : Nat) : ∀ (c : Comp) (depth cnt c' : Nat),
    visitComp d n depth cnt c = .ok c' → c' = cnt + c.nodes ∧ c.maxDepth depth ≤ d ∧ c' ≤ n
  | .basic _, depth, cnt, c', h => by
    unfold visitComp at h
    unfold Comp.maxDepth Comp.nodes
    have := visitNode_ok h
    omega
  | .anyOf rs, depth, cnt, c', h => by
    unfold visitComp at h
    unfold Comp.maxDepth Comp.nodes
    cases hv : visitNode d n depth cnt with
    | error e => simp [hv] at h
    | ok c1 =>
      simp only [hv] at h
      have h1 := visitNode_ok hv
      have h2 := visitList_ok d n rs (depth + 1) c1 c' h
      omega
  | .allOf rs, depth, cnt, c', h => by
    unfold visitComp at h
    unfold Comp.maxDepth Comp.nodes
    cases hv : visitNode d n depth cnt with
    | error e => simp [hv] at h
    | ok c1 =>
      simp only [hv] at h
      have h1 := visitNode_ok hv
      have h2 := visitList_ok d n rs (depth + 1) c1 c' h
      omega
theorem visitList_ok (d n : Nat) : ∀ (rs : List Comp) (depth cnt c' : Nat),
    visitList d n depth cnt rs = .ok c' →
      c' = cnt + Comp.nodesList rs ∧ Comp.maxDepthList depth rs ≤ d ∧ (cnt ≤ n → c' ≤ n)
  | [], depth, cnt, c', h => by
    unfold visitList at h
    unfold Comp.maxDepthList Comp.nodesList
    simp only [Except.ok.injEq] at h
    omega
  | r :: rs, depth, cnt, c', h => by
    unfold visitList at h
    unfold Comp.maxDepthList Comp.nodesList
    cases hv : visitComp d n depth cnt r with
    | error e => simp [hv] at h
    | ok c1 =>
      simp only [hv] at h
      have h1 := visitComp_ok d n r depth cnt c1 hv
      have h2 := visitList_ok d n rs depth c1 c' h
      omega
end

mutual
theorem visitComp_complete (d n : Nat) : ∀ (c : Comp) (depth cnt : Nat),
    c.maxDepth depth ≤ d → cnt + c.nodes ≤ n → visitComp d n depth cnt c = .ok (cnt + c.nodes)
  | .basic _, depth, cnt, h1, h2 => by
    unfold Comp.maxDepth at h1
    unfold Comp.nodes at h2 ⊢
    unfold visitComp
    exact visitNode_complete h1 h2
  | .anyOf rs, depth, cnt, h1, h2 => by
    unfold Comp.maxDepth at h1
    unfold Comp.nodes at h2 ⊢
    unfold visitComp
    rw [visitNode_complete (by omega) (by omega)]
    simp only
    rw [visitList_complete d n rs (depth + 1) (cnt + 1) (by omega) (by omega)]
    congr 1; omega
  | .allOf rs, depth, cnt, h1, h2 => by
    unfold Comp.maxDepth at h1
    unfold Comp.nodes at h2 ⊢
    unfold visitComp
    rw [visitNode_complete (by omega) (by omega)]
    simp only
    rw [visitList_complete d n rs (depth + 1) (cnt + 1) (by omega) (by omega)]
    congr 1; omega
theorem visitList_complete (d n : Nat) : ∀ (rs : List Comp) (depth cnt : Nat),
    Comp.maxDepthList depth rs ≤ d → cnt + Comp.nodesList rs ≤ n →
      visitList d n depth cnt rs = .ok (cnt + Comp.nodesList rs)
  | [], depth, cnt, _, _ => by
    unfold visitList Comp.nodesList
    rfl
  | r :: rs, depth, cnt, h1, h2 => by
    unfold Comp.maxDepthList at h1
    unfold Comp.nodesList at h2 ⊢
    unfold visitList
    rw [visitComp_complete d n r depth cnt (by omega) (by omega)]
    simp only
    rw [visitList_complete d n rs depth (cnt + r.nodes) (by omega) (by omega)]
    congr 1; omega
end


end Radix.Auth
