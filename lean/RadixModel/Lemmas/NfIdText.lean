/-
C28 — lemmas on the non-fungible id text/binary codecs of `Model/AddrText.lean`.
-/
import RadixModel.Model.AddrText
namespace Radix.AddrText
open Radix.Bech32 (Str Bytes utf8Len u8len)

/-! ### UTF-8 lengths and slicing -/

theorem u8len_pos (c : Char) : 1 ≤ u8len c := by
  unfold u8len; split <;> (try split) <;> (try split) <;> omega

theorem u8len_ascii {c : Char} (h : c.toNat < 128) : u8len c = 1 := by
  unfold u8len; simp [h]

theorem utf8Len_nil : utf8Len [] = 0 := rfl

theorem utf8Len_cons (c : Char) (cs : Str) : utf8Len (c :: cs) = u8len c + utf8Len cs := by
  simp [utf8Len]

theorem utf8Len_append (a b : Str) : utf8Len (a ++ b) = utf8Len a + utf8Len b := by
  induction a with
  | nil => simp [utf8Len]
  | cons x xs ih => simp only [List.cons_append, utf8Len_cons, ih]; omega

theorem utf8Len_ascii (cs : Str) (h : ∀ c ∈ cs, c.toNat < 128) : utf8Len cs = cs.length := by
  induction cs with
  | nil => rfl
  | cons x xs ih =>
    rw [utf8Len_cons, u8len_ascii (h x (by simp)), ih (fun c hc => h c (by simp [hc]))]
    simp; omega

theorem utf8Len_eq_zero {s : Str} (h : utf8Len s = 0) : s = [] := by
  cases s with
  | nil => rfl
  | cons c cs => rw [utf8Len_cons] at h; have := u8len_pos c; omega

theorem takeBytes_append (a b : Str) : ∀ n, n = utf8Len a → takeBytes (a ++ b) n = some a := by
  induction a with
  | nil => intro n hn; subst hn; cases b <;> rfl
  | cons x xs ih =>
    intro n hn
    rw [utf8Len_cons] at hn
    have hp := u8len_pos x
    cases n with
    | zero => omega
    | succ m =>
      simp only [List.cons_append, takeBytes]
      have h1 : u8len x ≤ m + 1 := by omega
      simp only [h1, if_true]
      rw [ih (m + 1 - u8len x) (by omega)]
      rfl

/-- `&s[1..s.len()-1]` of `c ++ mid ++ d` with one-byte delimiters is `mid`. -/
theorem inner_wrap (c d : Char) (mid : Str) (hc : u8len c = 1) (hd : u8len d = 1) :
    inner (c :: (mid ++ [d])) = some mid := by
  have hl : utf8Len (c :: (mid ++ [d])) = 1 + utf8Len mid + 1 := by
    rw [utf8Len_cons, utf8Len_append, utf8Len_cons, utf8Len_nil, hc, hd]; omega
  unfold inner
  rw [hl]
  have h1 : 1 + utf8Len mid + 1 ≥ 1 := by omega
  simp only [h1, if_true]
  unfold strSlice
  have h2 : 1 ≤ 1 + utf8Len mid + 1 - 1 := by omega
  simp only [h2, if_true]
  have h3 : dropBytes (c :: (mid ++ [d])) 1 = some (mid ++ [d]) := by
    simp [dropBytes, hc]
  rw [h3]
  exact takeBytes_append mid [d] _ (by omega)

theorem startsWith_cons (c : Char) (s : Str) : startsWith (c :: s) c = true := by
  simp [startsWith]

theorem startsWith_ne (c d : Char) (s : Str) (h : c ≠ d) : startsWith (c :: s) d = false := by
  simp [startsWith, h]

theorem endsWith_wrap (c d : Char) (mid : Str) : endsWith (c :: (mid ++ [d])) d = true := by
  have : c :: (mid ++ [d]) = (c :: mid) ++ [d] := rfl
  rw [endsWith, this, List.getLast?_concat]; simp

/-- A string that starts with `c`, ends with `d` and is not the single char `c = d` has the shape
`c ++ mid ++ d`. -/
theorem wrap_of_starts_ends {s : Str} {c d : Char} (hs : startsWith s c = true) (he : endsWith s d = true)
    (hne : c ≠ d ∨ utf8Len s > 1) (hc : u8len c = 1) : ∃ mid, s = c :: (mid ++ [d]) := by
  cases s with
  | nil => simp [startsWith] at hs
  | cons x t =>
    have hx : x = c := by simpa [startsWith] using hs
    subst hx
    rcases List.eq_nil_or_concat t with ht | ⟨mid, y, ht⟩
    · subst ht
      exfalso
      have : x = d := by simpa [endsWith] using he
      rcases hne with h | h
      · exact h this
      · rw [utf8Len_cons, utf8Len_nil, hc] at h; omega
    · subst ht
      have : x :: mid.concat y = (x :: mid) ++ [y] := by simp
      rw [endsWith, this, List.getLast?_concat] at he
      have : y = d := by simpa using he
      subst this
      exact ⟨mid, by simp⟩

/-! ### hex -/

theorem hexVal_hexNib : ∀ n, n < 16 → hexVal (hexNib n) = some n := by decide

theorem hexNib_ascii : ∀ n, n < 16 → (hexNib n).toNat < 128 ∧ hexNib n ≠ '-' ∧ hexNib n ≠ ':' := by decide

theorem hexDecode_hexEncode (b : Bytes) : hexDecode (hexEncode b) = some b := by
  induction b with
  | nil => rfl
  | cons x xs ih =>
    have hx := x.toNat_lt
    have h1 : x.toNat / 16 < 16 := by omega
    have h2 : x.toNat % 16 < 16 := by omega
    simp only [hexEncode, hexDecode, hexVal_hexNib _ h1, hexVal_hexNib _ h2, ih]
    have : x.toNat / 16 * 16 + x.toNat % 16 = x.toNat := by omega
    rw [this, UInt8.ofNat_toNat]

theorem hexEncode_length (b : Bytes) : (hexEncode b).length = 2 * b.length := by
  induction b with
  | nil => rfl
  | cons x xs ih => simp [hexEncode, ih]; omega

theorem hexEncode_chars (b : Bytes) : ∀ c ∈ hexEncode b, c.toNat < 128 ∧ c ≠ '-' ∧ c ≠ ':' := by
  induction b with
  | nil => intro c hc; simp [hexEncode] at hc
  | cons x xs ih =>
    intro c hc
    have hx := x.toNat_lt
    simp only [hexEncode, List.mem_cons] at hc
    rcases hc with rfl | rfl | hc
    · exact hexNib_ascii _ (by omega)
    · exact hexNib_ascii _ (by omega)
    · exact ih c hc

theorem hexVal_ascii {c : Char} {v : Nat} (h : hexVal c = some v) : c.toNat < 128 := by
  unfold hexVal at h
  simp only at h
  split at h
  · omega
  · split at h
    · omega
    · split at h
      · omega
      · exact absurd h (by simp)

/-- what a successful `hex::decode` implies about its input -/
theorem hexDecode_some : ∀ (cs : Str) (bs : Bytes), hexDecode cs = some bs →
    cs.length = 2 * bs.length ∧ ∀ c ∈ cs, c.toNat < 128
  | [], bs, h => by simp [hexDecode] at h; subst h; simp
  | [_], _, h => by simp [hexDecode] at h
  | a :: b :: rest, bs, h => by
    simp only [hexDecode] at h
    cases ha : hexVal a with
    | none => simp [ha] at h
    | some x =>
      cases hb : hexVal b with
      | none => simp [ha, hb] at h
      | some y =>
        cases hr : hexDecode rest with
        | none => simp [ha, hb, hr] at h
        | some r =>
          simp only [ha, hb, hr, Option.some.injEq] at h
          subst h
          have ih := hexDecode_some rest r hr
          refine ⟨by simp [ih.1]; omega, ?_⟩
          intro c hc
          simp only [List.mem_cons] at hc
          rcases hc with rfl | rfl | hc
          · exact hexVal_ascii ha
          · exact hexVal_ascii hb
          · exact ih.2 c hc

/-! ### decimal -/

theorem digitChar_toNat : ∀ d, d < 10 → (digitChar d).toNat = 48 + d := by decide

theorem printNat_lt {n : Nat} (h : n < 10) : printNat n = [digitChar n] := by
  rw [printNat]; simp [h]

theorem printNat_ge {n : Nat} (h : ¬ n < 10) : printNat n = printNat (n / 10) ++ [digitChar (n % 10)] := by
  rw [printNat]; simp [h]

theorem parseNat_append_single (cs : Str) (c : Char) :
    parseNat (cs ++ [c]) = parseNat cs * 10 + (c.toNat - 48) := by
  simp [parseNat, List.foldl_append]

theorem parseNat_printNat (n : Nat) : parseNat (printNat n) = n := by
  induction n using Nat.strongRecOn with
  | _ n ih =>
    by_cases h : n < 10
    · rw [printNat_lt h]
      simp [parseNat, digitChar_toNat n h]
    · rw [printNat_ge h, parseNat_append_single, ih (n / 10) (by omega),
        digitChar_toNat _ (by omega)]
      omega

theorem printNat_digits (n : Nat) : ∀ c ∈ printNat n, isDigit c = true := by
  induction n using Nat.strongRecOn with
  | _ n ih =>
    by_cases h : n < 10
    · rw [printNat_lt h]
      intro c hc
      simp only [List.mem_singleton] at hc
      subst hc
      simp [isDigit, digitChar_toNat n h]; omega
    · rw [printNat_ge h]
      intro c hc
      simp only [List.mem_append, List.mem_singleton] at hc
      rcases hc with hc | rfl
      · exact ih (n / 10) (by omega) c hc
      · simp [isDigit, digitChar_toNat _ (show n % 10 < 10 by omega)]; omega

theorem printNat_head (n : Nat) (hn : 0 < n) :
    ∃ c rest, printNat n = c :: rest ∧ 49 ≤ c.toNat ∧ c.toNat ≤ 57 := by
  induction n using Nat.strongRecOn with
  | _ n ih =>
    by_cases h : n < 10
    · exact ⟨digitChar n, [], printNat_lt h, by rw [digitChar_toNat n h]; omega, by rw [digitChar_toNat n h]; omega⟩
    · obtain ⟨c, rest, e, h1, h2⟩ := ih (n / 10) (by omega) (by omega)
      exact ⟨c, rest ++ [digitChar (n % 10)], by rw [printNat_ge h, e]; rfl, h1, h2⟩

theorem isCanonicalInt_printNat (n : Nat) : isCanonicalInt (printNat n) = true := by
  by_cases hn : n = 0
  · subst hn; rw [printNat_lt (by omega)]; decide
  · obtain ⟨c, rest, e, h1, h2⟩ := printNat_head n (by omega)
    have hd := printNat_digits n
    rw [e] at hd ⊢
    unfold isCanonicalInt
    split
    · rfl
    · have : rest.all isDigit = true := by
        rw [List.all_eq_true]; intro x hx; exact hd x (by simp [hx])
      simp [h1, h2, this]

theorem digitChar_of_digit {x : Char} (h1 : 48 ≤ x.toNat) (h2 : x.toNat ≤ 57) :
    digitChar (x.toNat - 48) = x := by
  have : 48 + (x.toNat - 48) = x.toNat := by omega
  simp [digitChar, this, Char.ofNat_toNat]

/-- extending a canonical prefix by digits keeps `print ∘ parse = id` -/
theorem printNat_parseNat_extend (r : Str) : ∀ pre : Str, r.all isDigit = true →
    printNat (parseNat pre) = pre → 1 ≤ parseNat pre →
    printNat (parseNat (pre ++ r)) = pre ++ r := by
  induction r with
  | nil => intro pre _ h _; simpa using h
  | cons x xs ih =>
    intro pre hr h1 h2
    simp only [List.all_cons, Bool.and_eq_true] at hr
    have hx := hr.1
    simp only [isDigit, Bool.and_eq_true, decide_eq_true_eq] at hx
    have e : pre ++ x :: xs = (pre ++ [x]) ++ xs := by simp
    rw [e]
    apply ih (pre ++ [x]) hr.2
    · rw [parseNat_append_single]
      have hge : ¬ (parseNat pre * 10 + (x.toNat - 48) < 10) := by omega
      rw [printNat_ge hge]
      have hdiv : (parseNat pre * 10 + (x.toNat - 48)) / 10 = parseNat pre := by omega
      have hmod : (parseNat pre * 10 + (x.toNat - 48)) % 10 = x.toNat - 48 := by omega
      rw [hdiv, hmod, h1, digitChar_of_digit hx.1 hx.2]
    · rw [parseNat_append_single]; omega

/-- the canonical decimal text of a number is unique: a canonical digit string is the print of its value -/
theorem printNat_parseNat_of_canonical (ds : Str) (h : isCanonicalInt ds = true) :
    printNat (parseNat ds) = ds := by
  by_cases h0 : ds = ['0']
  · subst h0
    have : parseNat ['0'] = 0 := by decide
    rw [this, printNat_lt (by omega)]; decide
  · unfold isCanonicalInt at h
    simp only [h0, if_false] at h
    cases ds with
    | nil => simp at h
    | cons c rest =>
      simp only [Bool.and_eq_true, decide_eq_true_eq] at h
      obtain ⟨⟨h1, h2⟩, h3⟩ := h
      have hv : parseNat [c] = c.toNat - 48 := by simp [parseNat]
      have := printNat_parseNat_extend rest [c] h3
        (by rw [hv, printNat_lt (by omega), digitChar_of_digit (by omega) h2])
        (by rw [hv]; omega)
      simpa using this

end Radix.AddrText
