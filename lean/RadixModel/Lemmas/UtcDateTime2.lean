/-
C29 — helper lemmas, part 2: order/monotonicity of the calendar specification, the derived `Ord`,
`UtcDateTime::new`, and the string functions. Core Lean only.
-/
import RadixModel.Lemmas.UtcDateTime
namespace Radix.Utc

theorem dby_mono (a b : Int) (h : a ≤ b) : daysBeforeYear a ≤ daysBeforeYear b := by
  unfold daysBeforeYear
  have := leapCount_mono (a - 1) (b - 1) (by omega)
  omega

theorem leapI_range (y : Int) : 0 ≤ leapI y ∧ leapI y ≤ 1 := by
  rcases leapI_cases y with ⟨_, h⟩ | ⟨_, h⟩ <;> omega

/-- a valid day lies inside its year -/
theorem dayOfYear_bounds (L : Int) (hL : 0 ≤ L ∧ L ≤ 1) (m d : Nat) (hm1 : 1 ≤ m) (hm2 : m ≤ 12)
    (hd1 : 1 ≤ d) (hd2 : (d : Int) ≤ monthLen L m) :
    0 ≤ daysBeforeMonth L m + ((d : Int) - 1) ∧ daysBeforeMonth L m + ((d : Int) - 1) ≤ 364 + L := by
  have hmc : m = 1 ∨ m = 2 ∨ m = 3 ∨ m = 4 ∨ m = 5 ∨ m = 6 ∨ m = 7 ∨ m = 8 ∨ m = 9 ∨ m = 10 ∨ m = 11 ∨ m = 12 := by omega
  rcases hmc with rfl | rfl | rfl | rfl | rfl | rfl | rfl | rfl | rfl | rfl | rfl | rfl <;>
    simp only [daysBeforeMonth, monthLen] at * <;> omega

/-- months are laid out one after the other -/
theorem dbm_lt (L : Int) (hL : 0 ≤ L ∧ L ≤ 1) (m m' : Nat) (hm1 : 1 ≤ m) (hlt : m < m') (hm2 : m' ≤ 12) :
    daysBeforeMonth L m + monthLen L m ≤ daysBeforeMonth L m' := by
  have hmc : m = 1 ∨ m = 2 ∨ m = 3 ∨ m = 4 ∨ m = 5 ∨ m = 6 ∨ m = 7 ∨ m = 8 ∨ m = 9 ∨ m = 10 ∨ m = 11 := by omega
  have hmc' : m' = 2 ∨ m' = 3 ∨ m' = 4 ∨ m' = 5 ∨ m' = 6 ∨ m' = 7 ∨ m' = 8 ∨ m' = 9 ∨ m' = 10 ∨ m' = 11 ∨ m' = 12 := by omega
  rcases hmc with rfl | rfl | rfl | rfl | rfl | rfl | rfl | rfl | rfl | rfl | rfl <;>
    rcases hmc' with rfl | rfl | rfl | rfl | rfl | rfl | rfl | rfl | rfl | rfl | rfl <;>
    simp only [daysBeforeMonth, monthLen] <;> omega

/-- lexicographic order on the six fields (what `#[derive(Ord)]` gives) -/
def LexLt (a b : DT) : Prop :=
  a.year < b.year ∨ (a.year = b.year ∧ (a.month < b.month ∨ (a.month = b.month ∧
    (a.day < b.day ∨ (a.day = b.day ∧ (a.hour < b.hour ∨ (a.hour = b.hour ∧
      (a.minute < b.minute ∨ (a.minute = b.minute ∧ a.second < b.second)))))))))

theorem then_lt (x y : Nat) (o : Ordering) :
    (compare x y).then o = .lt ↔ x < y ∨ (x = y ∧ o = .lt) := by
  rcases Nat.lt_trichotomy x y with h | h | h
  · rw [Nat.compare_eq_lt.2 h]; simp [Ordering.then, h]
  · subst h; simp [Ordering.then]
  · rw [Nat.compare_eq_gt.2 h]; simp [Ordering.then]; omega

theorem cmpDT_lt_iff (a b : DT) : cmpDT a b = .lt ↔ LexLt a b := by
  unfold cmpDT LexLt
  simp only [then_lt, Nat.compare_eq_lt]

theorem lex_trichotomy (a b : DT) : LexLt a b ∨ a = b ∨ LexLt b a := by
  obtain ⟨y, mo, d, h, mi, s⟩ := a
  obtain ⟨y', mo', d', h', mi', s'⟩ := b
  unfold LexLt
  simp only [DT.mk.injEq]
  omega

theorem specSecs_lt_of_lex (a b : DT) (ha : Valid a) (hb : Valid b) (h : LexLt a b) :
    specSecs a < specSecs b := by
  obtain ⟨y, mo, d, hh, mi, s⟩ := a
  obtain ⟨y', mo', d', hh', mi', s'⟩ := b
  unfold Valid at ha hb
  simp only at ha hb
  obtain ⟨a1, a2, a3, a4, a5, a6, a7, a8, a9⟩ := ha
  obtain ⟨b1, b2, b3, b4, b5, b6, b7, b8, b9⟩ := hb
  unfold LexLt at h
  simp only at h
  unfold specSecs daysFromCivil
  simp only
  have ra := dayOfYear_bounds _ (leapI_range y) mo d a3 a4 a5 a6
  have rb := dayOfYear_bounds _ (leapI_range y') mo' d' b3 b4 b5 b6
  rcases h with h | ⟨rfl, h⟩
  · have h1 := dby_mono ((y : Int) + 1) y' (by omega)
    have h2 := dby_succ (y : Int)
    omega
  · rcases h with h | ⟨rfl, h⟩
    · have := dbm_lt _ (leapI_range y) mo mo' a3 h b4
      omega
    · omega
/-! ### `UtcDateTime::new` -/

theorem new_ne_panic (y mo d h mi s : Nat) : new y mo d h mi s ≠ .error .panic := by
  unfold new
  split
  · simp
  · split
    · simp
    · next _ hm =>
      have hm' : 1 ≤ mo ∧ mo ≤ 12 := by omega
      have hmc : mo = 1 ∨ mo = 2 ∨ mo = 3 ∨ mo = 4 ∨ mo = 5 ∨ mo = 6 ∨ mo = 7 ∨ mo = 8 ∨ mo = 9 ∨ mo = 10 ∨ mo = 11 ∨ mo = 12 := by omega
      rcases hmc with rfl | rfl | rfl | rfl | rfl | rfl | rfl | rfl | rfl | rfl | rfl | rfl <;>
        simp only [LEAP_YEAR_DAYS_IN_MONTHS, Nat.reduceSub, List.getElem?_cons_zero, List.getElem?_cons_succ] <;>
        (repeat' split) <;> simp

/-- `new` accepts exactly the valid calendar date-times (for `u32` years) -/
theorem new_ok_iff (y mo d h mi s : Nat) (hy : y ≤ U32_MAX) (dt : DT) :
    new y mo d h mi s = .ok dt ↔ (dt = ⟨y, mo, d, h, mi, s⟩ ∧ Valid ⟨y, mo, d, h, mi, s⟩) := by
  unfold Valid
  simp only
  rw [leapI_eq]
  unfold new
  by_cases hy0 : y = 0
  · simp [hy0]
  · rw [if_neg hy0]
    by_cases hm : 1 ≤ mo ∧ mo ≤ 12
    · rw [if_neg (by omega)]
      have hmc : mo = 1 ∨ mo = 2 ∨ mo = 3 ∨ mo = 4 ∨ mo = 5 ∨ mo = 6 ∨ mo = 7 ∨ mo = 8 ∨ mo = 9 ∨ mo = 10 ∨ mo = 11 ∨ mo = 12 := by omega
      rcases hmc with rfl | rfl | rfl | rfl | rfl | rfl | rfl | rfl | rfl | rfl | rfl | rfl <;>
        cases hl : isLeapYear y <;>
        simp only [LEAP_YEAR_DAYS_IN_MONTHS, Nat.reduceSub, List.getElem?_cons_zero, List.getElem?_cons_succ,
          monthLen, bI] <;>
        simp <;> (repeat' split) <;> simp [eq_comm] <;> omega
    · rw [if_pos (by omega)]
      simp
      omega

/-! ### range of the specification on valid date-times -/

theorem specSecs_range (dt : DT) (hv : Valid dt) :
    MIN_SUPPORTED_TIMESTAMP ≤ specSecs dt ∧ specSecs dt ≤ MAX_SUPPORTED_TIMESTAMP := by
  obtain ⟨y, mo, d, h, mi, s⟩ := dt
  unfold Valid at hv
  simp only [U32_MAX] at hv
  obtain ⟨a1, a2, a3, a4, a5, a6, a7, a8, a9⟩ := hv
  have r := dayOfYear_bounds _ (leapI_range y) mo d a3 a4 a5 a6
  have m1 := dby_mono 1 (y : Int) (by omega)
  have m2 := dby_mono ((y : Int) + 1) 4294967296 (by omega)
  have s1 := dby_succ (y : Int)
  have e1 : daysBeforeYear 1 = 0 := by decide
  have e2 : daysBeforeYear 4294967296 = 1568704592244 := by decide
  unfold specSecs daysFromCivil MIN_SUPPORTED_TIMESTAMP MAX_SUPPORTED_TIMESTAMP
  simp only
  omega

theorem fromInstant_out_of_range (t : Int)
    (h : t < MIN_SUPPORTED_TIMESTAMP ∨ t > MAX_SUPPORTED_TIMESTAMP) :
    fromInstant t = .error .instantIsOutOfRange := by
  unfold fromInstant
  rw [if_pos h]

end Radix.Utc
