/-
C29 — helper lemmas, part 2: order/monotonicity of the calendar specification, the derived `Ord`,
`UtcDateTime::new`, and the string functions. Core Lean only.
-/
import RadixModel.Lemmas.UtcDateTime
namespace Radix.Utc

theorem dby_mono (a b : Int) (h : a ≤ b) : daysBeforeYear a ≤ daysBeforeYear b := by
  unfold daysBeforeYear
  have := leapCount_mono (a - 1) (b - 1) (by omega)
  omega

theorem leapI_range (y : Int) : 0 ≤ leapI y ∧ leapI y ≤ 1 := by
  rcases leapI_cases y with ⟨_, h⟩ | ⟨_, h⟩ <;> omega

/-- a valid day lies inside its year -/
theorem dayOfYear_bounds (L : Int) (hL : 0 ≤ L ∧ L ≤ 1) (m d : Nat) (hm1 : 1 ≤ m) (hm2 : m ≤ 12)
    (hd1 : 1 ≤ d) (hd2 : (d : Int) ≤ monthLen L m) :
    0 ≤ daysBeforeMonth L m + ((d : Int) - 1) ∧ daysBeforeMonth L m + ((d : Int) - 1) ≤ 364 + L := by
  have hmc : m = 1 ∨ m = 2 ∨ m = 3 ∨ m = 4 ∨ m = 5 ∨ m = 6 ∨ m = 7 ∨ m = 8 ∨ m = 9 ∨ m = 10 ∨ m = 11 ∨ m = 12 := by omega
  rcases hmc with rfl | rfl | rfl | rfl | rfl | rfl | rfl | rfl | rfl | rfl | rfl | rfl <;>
    simp only [daysBeforeMonth, monthLen] at * <;> omega

/-- months are laid out one after the other -/
theorem dbm_lt (L : Int) (hL : 0 ≤ L ∧ L ≤ 1) (m m' : Nat) (hm1 : 1 ≤ m) (hlt : m < m') (hm2 : m' ≤ 12) :
    daysBeforeMonth L m + monthLen L m ≤ daysBeforeMonth L m' := by
  have hmc : m = 1 ∨ m = 2 ∨ m = 3 ∨ m = 4 ∨ m = 5 ∨ m = 6 ∨ m = 7 ∨ m = 8 ∨ m = 9 ∨ m = 10 ∨ m = 11 := by omega
  have hmc' : m' = 2 ∨ m' = 3 ∨ m' = 4 ∨ m' = 5 ∨ m' = 6 ∨ m' = 7 ∨ m' = 8 ∨ m' = 9 ∨ m' = 10 ∨ m' = 11 ∨ m' = 12 := by omega
  rcases hmc with rfl | rfl | rfl | rfl | rfl | rfl | rfl | rfl | rfl | rfl | rfl <;>
    rcases hmc' with rfl | rfl | rfl | rfl | rfl | rfl | rfl | rfl | rfl | rfl | rfl <;>
    simp only [daysBeforeMonth, monthLen] <;> omega

/-- lexicographic order on the six fields (what `#[derive(Ord)]` gives) -/
def LexLt (a b : DT) : Prop :=
  a.year < b.year ∨ (a.year = b.year ∧ (a.month < b.month ∨ (a.month = b.month ∧
    (a.day < b.day ∨ (a.day = b.day ∧ (a.hour < b.hour ∨ (a.hour = b.hour ∧
      (a.minute < b.minute ∨ (a.minute = b.minute ∧ a.second < b.second)))))))))

theorem then_lt (x y : Nat) (o : Ordering) :
    (compare x y).then o = .lt ↔ x < y ∨ (x = y ∧ o = .lt) := by
  rcases Nat.lt_trichotomy x y with h | h | h
  · rw [Nat.compare_eq_lt.2 h]; simp [Ordering.then, h]
  · subst h; simp [Ordering.then]
  · rw [Nat.compare_eq_gt.2 h]; simp [Ordering.then]; omega

theorem cmpDT_lt_iff (a b : DT) : cmpDT a b = .lt ↔ LexLt a b := by
  unfold cmpDT LexLt
  simp only [then_lt, Nat.compare_eq_lt]

theorem lex_trichotomy (a b : DT) : LexLt a b ∨ a = b ∨ LexLt b a := by
  obtain ⟨y, mo, d, h, mi, s⟩ := a
  obtain ⟨y', mo', d', h', mi', s'⟩ := b
  unfold LexLt
  simp only [DT.mk.injEq]
  omega

theorem specSecs_lt_of_lex (a b : DT) (ha : Valid a) (hb : Valid b) (h : LexLt a b) :
    specSecs a < specSecs b := by
  obtain ⟨y, mo, d, hh, mi, s⟩ := a
  obtain ⟨y', mo', d', hh', mi', s'⟩ := b
  unfold Valid at ha hb
  simp only at ha hb
  obtain ⟨a1, a2, a3, a4, a5, a6, a7, a8, a9⟩ := ha
  obtain ⟨b1, b2, b3, b4, b5, b6, b7, b8, b9⟩ := hb
  unfold LexLt at h
  simp only at h
  unfold specSecs daysFromCivil
  simp only
  have ra := dayOfYear_bounds _ (leapI_range y) mo d a3 a4 a5 a6
  have rb := dayOfYear_bounds _ (leapI_range y') mo' d' b3 b4 b5 b6
  rcases h with h | ⟨rfl, h⟩
  · have h1 := dby_mono ((y : Int) + 1) y' (by omega)
    have h2 := dby_succ (y : Int)
    omega
  · rcases h with h | ⟨rfl, h⟩
    · have := dbm_lt _ (leapI_range y) mo mo' a3 h b4
      omega
    · omega
/-! ### `UtcDateTime::new` -/

theorem new_ne_panic (y mo d h mi s : Nat) : new y mo d h mi s ≠ .error .panic := by
  unfold new
  split
  · simp
  · split
    · simp
    · next _ hm =>
      have hm' : 1 ≤ mo ∧ mo ≤ 12 := by omega
      have hmc : mo = 1 ∨ mo = 2 ∨ mo = 3 ∨ mo = 4 ∨ mo = 5 ∨ mo = 6 ∨ mo = 7 ∨ mo = 8 ∨ mo = 9 ∨ mo = 10 ∨ mo = 11 ∨ mo = 12 := by omega
      rcases hmc with rfl | rfl | rfl | rfl | rfl | rfl | rfl | rfl | rfl | rfl | rfl | rfl <;>
        simp only [LEAP_YEAR_DAYS_IN_MONTHS, Nat.reduceSub, List.getElem?_cons_zero, List.getElem?_cons_succ] <;>
        (repeat' split) <;> simp

/-- `new` accepts exactly the valid calendar date-times (for `u32` years) -/
theorem new_ok_iff (y mo d h mi s : Nat) (hy : y ≤ U32_MAX) (dt : DT) :
    new y mo d h mi s = .ok dt ↔ (dt = ⟨y, mo, d, h, mi, s⟩ ∧ Valid ⟨y, mo, d, h, mi, s⟩) := by
  unfold Valid
  simp only
  rw [leapI_eq]
  unfold new
  by_cases hy0 : y = 0
  · simp [hy0]
  · rw [if_neg hy0]
    by_cases hm : 1 ≤ mo ∧ mo ≤ 12
    · rw [if_neg (by omega)]
      have hmc : mo = 1 ∨ mo = 2 ∨ mo = 3 ∨ mo = 4 ∨ mo = 5 ∨ mo = 6 ∨ mo = 7 ∨ mo = 8 ∨ mo = 9 ∨ mo = 10 ∨ mo = 11 ∨ mo = 12 := by omega
      rcases hmc with rfl | rfl | rfl | rfl | rfl | rfl | rfl | rfl | rfl | rfl | rfl | rfl <;>
        cases hl : isLeapYear y <;>
        simp only [LEAP_YEAR_DAYS_IN_MONTHS, Nat.reduceSub, List.getElem?_cons_zero, List.getElem?_cons_succ,
          monthLen, bI] <;>
        simp <;> (repeat' split) <;> simp [eq_comm] <;> omega
    · rw [if_pos (by omega)]
      simp
      omega

/-! ### range of the specification on valid date-times -/

theorem specSecs_range (dt : DT) (hv : Valid dt) :
    MIN_SUPPORTED_TIMESTAMP ≤ specSecs dt ∧ specSecs dt ≤ MAX_SUPPORTED_TIMESTAMP := by
  obtain ⟨y, mo, d, h, mi, s⟩ := dt
  unfold Valid at hv
  simp only [U32_MAX] at hv
  obtain ⟨a1, a2, a3, a4, a5, a6, a7, a8, a9⟩ := hv
  have r := dayOfYear_bounds _ (leapI_range y) mo d a3 a4 a5 a6
  have m1 := dby_mono 1 (y : Int) (by omega)
  have m2 := dby_mono ((y : Int) + 1) 4294967296 (by omega)
  have s1 := dby_succ (y : Int)
  have e1 : daysBeforeYear 1 = 0 := by decide
  have e2 : daysBeforeYear 4294967296 = 1568704592244 := by decide
  unfold specSecs daysFromCivil MIN_SUPPORTED_TIMESTAMP MAX_SUPPORTED_TIMESTAMP
  simp only
  omega

theorem fromInstant_out_of_range (t : Int)
    (h : t < MIN_SUPPORTED_TIMESTAMP ∨ t > MAX_SUPPORTED_TIMESTAMP) :
    fromInstant t = .error .instantIsOutOfRange := by
  unfold fromInstant
  rw [if_pos h]

/-! ### `from_str` never panics -/

theorem decode_ascii (s : List Nat) (h : isAscii s = true) : decodeUtf8 s = some s := by
  induction s with
  | nil => rfl
  | cons b rest ih =>
    unfold isAscii at h
    simp only [List.all_cons, Bool.and_eq_true, decide_eq_true_eq] at h
    unfold decodeUtf8
    rw [if_pos h.1, ih (by unfold isAscii; exact h.2)]
    rfl

theorem ascii_mem (s : List Nat) (h : isAscii s = true) (i : Nat) (b : Nat) (hb : s[i]? = some b) : b < 128 := by
  unfold isAscii at h
  rw [List.all_eq_true] at h
  have := h b (List.mem_of_getElem? hb)
  simpa using this

theorem isCharBoundary_ascii (s : List Nat) (h : isAscii s = true) (i : Nat) (hi : i ≤ s.length) :
    isCharBoundary s i = true := by
  unfold isCharBoundary
  split
  · rfl
  · cases hb : s[i]? with
    | none =>
      simp only [beq_iff_eq]
      have := List.getElem?_eq_none_iff.1 hb
      omega
    | some b =>
      have := ascii_mem s h i b hb
      simp only [isCont, Bool.not_eq_true', Bool.and_eq_false_iff, decide_eq_false_iff_not]
      omega

theorem sliceStr_ascii (s : List Nat) (h : isAscii s = true) (a b : Nat) (hab : a ≤ b) (hb : b ≤ s.length) :
    sliceStr s a b = some ((s.drop a).take (b - a)) := by
  unfold sliceStr
  rw [if_pos ⟨hab, isCharBoundary_ascii s h a (by omega), isCharBoundary_ascii s h b hb⟩]

theorem fromStrBody_ne_panic (s : List Nat) (h : isAscii s = true) (hl : s.length = 20) :
    fromStrBody s ≠ .error .panic := by
  unfold fromStrBody
  rw [sliceStr_ascii s h 0 4 (by omega) (by omega), sliceStr_ascii s h 5 7 (by omega) (by omega),
    sliceStr_ascii s h 8 10 (by omega) (by omega), sliceStr_ascii s h 11 13 (by omega) (by omega),
    sliceStr_ascii s h 14 16 (by omega) (by omega), sliceStr_ascii s h 17 19 (by omega) (by omega)]
  simp only
  repeat' split
  all_goals first
    | (intro hc; cases hc; done)
    | (exfalso; exact new_ne_panic _ _ _ _ _ _ ‹_›)

theorem shapeOk_length (chars : List Nat) (h : shapeOk chars = true) : chars.length = 20 := by
  unfold shapeOk at h
  simp only [Bool.and_eq_true, beq_iff_eq] at h
  exact h.1.1.1.1.1.1

theorem fromStr_ne_panic (s : List Nat) : fromStr s ≠ .error .panic := by
  unfold fromStr
  cases hd : decodeUtf8 s with
  | none => simp
  | some chars =>
    simp only
    by_cases hc : (isAscii s && shapeOk chars) = true
    · rw [if_pos hc]
      simp only [Bool.and_eq_true] at hc
      have := decode_ascii s hc.1
      rw [hd] at this
      cases this
      exact fromStrBody_ne_panic s hc.1 (shapeOk_length s hc.2)
    · rw [if_neg hc]; simp
/-! ### digits: `{:0w}` and `str::parse` -/

theorem natDigits_lt10 (n : Nat) (h : n < 10) : natDigits n = [48 + n] := by
  rw [natDigits, dif_pos h]; unfold digitChar; congr 1; omega

theorem natDigits_lt100 (n : Nat) (h1 : 10 ≤ n) (h : n < 100) : natDigits n = [48 + n / 10, 48 + n % 10] := by
  rw [natDigits, dif_neg (by omega), natDigits_lt10 (n / 10) (by omega)]; rfl

theorem natDigits_lt1000 (n : Nat) (h1 : 100 ≤ n) (h : n < 1000) :
    natDigits n = [48 + n / 100, 48 + n / 10 % 10, 48 + n % 10] := by
  rw [natDigits, dif_neg (by omega), natDigits_lt100 (n / 10) (by omega) (by omega)]
  have : n / 10 / 10 = n / 100 := by omega
  rw [this]; rfl

theorem natDigits_lt10000 (n : Nat) (h1 : 1000 ≤ n) (h : n < 10000) :
    natDigits n = [48 + n / 1000, 48 + n / 100 % 10, 48 + n / 10 % 10, 48 + n % 10] := by
  rw [natDigits, dif_neg (by omega), natDigits_lt1000 (n / 10) (by omega) (by omega)]
  have e1 : n / 10 / 100 = n / 1000 := by omega
  have e2 : n / 10 / 10 % 10 = n / 100 % 10 := by omega
  rw [e1, e2]; rfl

theorem padZero2 (n : Nat) (h : n < 100) : padZero 2 n = [48 + n / 10, 48 + n % 10] := by
  unfold padZero
  by_cases h1 : n < 10
  · rw [natDigits_lt10 n h1]
    have e1 : n / 10 = 0 := by omega
    have e2 : n % 10 = n := by omega
    rw [e1, e2]; rfl
  · rw [natDigits_lt100 n (by omega) h]; rfl

theorem padZero4 (n : Nat) (h : n < 10000) :
    padZero 4 n = [48 + n / 1000, 48 + n / 100 % 10, 48 + n / 10 % 10, 48 + n % 10] := by
  unfold padZero
  by_cases h1 : n < 10
  · rw [natDigits_lt10 n h1]
    have e1 : n / 1000 = 0 := by omega
    have e2 : n / 100 % 10 = 0 := by omega
    have e3 : n / 10 % 10 = 0 := by omega
    have e4 : n % 10 = n := by omega
    rw [e1, e2, e3, e4]; rfl
  · by_cases h2 : n < 100
    · rw [natDigits_lt100 n (by omega) h2]
      have e1 : n / 1000 = 0 := by omega
      have e2 : n / 100 % 10 = 0 := by omega
      have e3 : n / 10 % 10 = n / 10 := by omega
      rw [e1, e2, e3]; rfl
    · by_cases h3 : n < 1000
      · rw [natDigits_lt1000 n (by omega) h3]
        have e1 : n / 1000 = 0 := by omega
        have e2 : n / 100 % 10 = n / 100 := by omega
        rw [e1, e2]; rfl
      · rw [natDigits_lt10000 n (by omega) h]; rfl

theorem isDigit_add (a : Nat) (ha : a < 10) : isDigit (48 + a) = true := by
  unfold isDigit; simp; omega

theorem parseUnsigned_2 (max a b : Nat) (ha : a < 10) (hb : b < 10) (hm : a * 10 + b ≤ max) :
    parseUnsigned max [48 + a, 48 + b] = some (a * 10 + b) := by
  unfold parseUnsigned
  split
  · next h => cases h
  · next h => simp only [List.cons.injEq] at h; omega
  · next h => simp only [List.cons.injEq] at h; omega
  · next h => simp only [List.cons.injEq] at h; omega
  · simp only [parseDigits, isDigit_add a ha, isDigit_add b hb, if_true]
    rw [if_neg (by omega), if_neg (by omega)]
    congr 1; omega

theorem parseUnsigned_4 (max a b c d : Nat) (ha : a < 10) (hb : b < 10) (hc : c < 10) (hd : d < 10)
    (hm : ((a * 10 + b) * 10 + c) * 10 + d ≤ max) :
    parseUnsigned max [48 + a, 48 + b, 48 + c, 48 + d] = some (((a * 10 + b) * 10 + c) * 10 + d) := by
  unfold parseUnsigned
  split
  · next h => cases h
  · next h => simp only [List.cons.injEq] at h; omega
  · next h => simp only [List.cons.injEq] at h; omega
  · next h => simp only [List.cons.injEq] at h; omega
  · simp only [parseDigits, isDigit_add a ha, isDigit_add b hb, isDigit_add c hc, isDigit_add d hd, if_true]
    rw [if_neg (by omega), if_neg (by omega), if_neg (by omega), if_neg (by omega)]
    congr 1; omega
/-! ### print then parse -/

theorem monthLen_le (L : Int) (hL : L ≤ 1) (m : Nat) : monthLen L m ≤ 31 := by
  unfold monthLen; split <;> omega

/-- the printed form as an explicit 20-byte list -/
theorem display_eq (dt : DT) (hy : dt.year < 10000) (hm : dt.month < 100) (hd : dt.day < 100)
    (hh : dt.hour < 100) (hmi : dt.minute < 100) (hs : dt.second < 100) :
    display dt =
      [48 + dt.year / 1000, 48 + dt.year / 100 % 10, 48 + dt.year / 10 % 10, 48 + dt.year % 10, 45,
       48 + dt.month / 10, 48 + dt.month % 10, 45, 48 + dt.day / 10, 48 + dt.day % 10, 84,
       48 + dt.hour / 10, 48 + dt.hour % 10, 58, 48 + dt.minute / 10, 48 + dt.minute % 10, 58,
       48 + dt.second / 10, 48 + dt.second % 10, 90] := by
  unfold display
  rw [padZero4 _ hy, padZero2 _ hm, padZero2 _ hd, padZero2 _ hh, padZero2 _ hmi, padZero2 _ hs]
  rfl

theorem fromStr_display (dt : DT) (hv : Valid dt) (hy : dt.year ≤ 9999) :
    fromStr (display dt) = .ok dt := by
  have hv' := hv
  obtain ⟨y, mo, d, h, mi, s⟩ := dt
  unfold Valid at hv
  simp only at hv hy
  obtain ⟨a1, a2, a3, a4, a5, a6, a7, a8, a9⟩ := hv
  have hd31 : (d : Int) ≤ 31 := Int.le_trans a6 (monthLen_le _ (leapI_range _).2 _)
  rw [display_eq _ (by simp only; omega) (by simp only; omega) (by simp only; omega)
    (by simp only; omega) (by simp only; omega) (by simp only; omega)]
  simp only
  generalize hL : [48 + y / 1000, 48 + y / 100 % 10, 48 + y / 10 % 10, 48 + y % 10, 45,
       48 + mo / 10, 48 + mo % 10, 45, 48 + d / 10, 48 + d % 10, 84,
       48 + h / 10, 48 + h % 10, 58, 48 + mi / 10, 48 + mi % 10, 58,
       48 + s / 10, 48 + s % 10, 90] = L
  have hasc : isAscii L = true := by
    subst hL
    unfold isAscii
    simp only [List.all_cons, List.all_nil, Bool.and_true, Bool.and_eq_true, decide_eq_true_eq]
    omega
  have hshape : shapeOk L = true := by subst hL; rfl
  have hlen : L.length = 20 := by subst hL; rfl
  unfold fromStr
  rw [decode_ascii L hasc]
  simp only
  rw [if_pos (by rw [hasc, hshape]; rfl)]
  unfold fromStrBody
  rw [sliceStr_ascii L hasc 0 4 (by omega) (by omega), sliceStr_ascii L hasc 5 7 (by omega) (by omega),
    sliceStr_ascii L hasc 8 10 (by omega) (by omega), sliceStr_ascii L hasc 11 13 (by omega) (by omega),
    sliceStr_ascii L hasc 14 16 (by omega) (by omega), sliceStr_ascii L hasc 17 19 (by omega) (by omega)]
  subst hL
  simp only [List.drop, List.take, Nat.reduceSub]
  rw [parseUnsigned_4 U32_MAX _ _ _ _ (by omega) (by omega) (by omega) (by omega) (by unfold U32_MAX; omega),
    parseUnsigned_2 255 _ _ (by omega) (by omega) (by omega),
    parseUnsigned_2 255 _ _ (by omega) (by omega) (by omega),
    parseUnsigned_2 255 _ _ (by omega) (by omega) (by omega),
    parseUnsigned_2 255 _ _ (by omega) (by omega) (by omega),
    parseUnsigned_2 255 _ _ (by omega) (by omega) (by omega)]
  simp only
  have ey : ((y / 1000 * 10 + y / 100 % 10) * 10 + y / 10 % 10) * 10 + y % 10 = y := by omega
  have e2 : ∀ n : Nat, n / 10 * 10 + n % 10 = n := fun n => by omega
  rw [ey, e2, e2, e2, e2, e2]
  have hn := (new_ok_iff y mo d h mi s (by unfold U32_MAX; omega) ⟨y, mo, d, h, mi, s⟩).2 ⟨rfl, hv'⟩
  rw [hn]
/-! ### accepted strings denote valid date-times -/

theorem parseDigits_le (max : Nat) (bs : List Nat) (acc v : Nat) (h : parseDigits max bs acc = some v)
    (ha : acc ≤ max) : v ≤ max := by
  induction bs generalizing acc with
  | nil => unfold parseDigits at h; cases h; exact ha
  | cons b rest ih =>
    unfold parseDigits at h
    split at h
    · simp only at h
      split at h
      · cases h
      · exact ih _ h (by omega)
    · cases h

theorem parseUnsigned_le (max : Nat) (s : List Nat) (v : Nat) (h : parseUnsigned max s = some v) : v ≤ max := by
  unfold parseUnsigned at h
  split at h
  · cases h
  · cases h
  · cases h
  · exact parseDigits_le max _ 0 v h (by omega)
  · exact parseDigits_le max _ 0 v h (by omega)

theorem fromStrBody_ok_valid (s : List Nat) (dt : DT) (h : fromStrBody s = .ok dt) : Valid dt := by
  unfold fromStrBody at h
  repeat' split at h
  all_goals first
    | (cases h; done)
    | skip
  cases h
  have hyle := parseUnsigned_le U32_MAX _ _ ‹parseUnsigned U32_MAX _ = some _›
  have := (new_ok_iff _ _ _ _ _ _ hyle _).1 ‹new _ _ _ _ _ _ = Except.ok _›
  rw [this.1]; exact this.2

theorem fromStr_ok_valid (s : List Nat) (dt : DT) (h : fromStr s = .ok dt) : Valid dt := by
  unfold fromStr at h
  split at h
  · cases h
  · split at h
    · exact fromStrBody_ok_valid s dt h
    · cases h
end Radix.Utc
