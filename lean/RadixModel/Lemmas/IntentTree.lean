/-
C35 — helper lemmas for `RadixModel/Model/IntentTree.lean`.
-/
import RadixModel.Model.IntentTree
import Batteries.Data.List.Perm

namespace Radix.IntentTree

instance {α : Type} [DecidableEq α] : DecidableEq (Except Err α) := fun a b =>
  match a, b with
  | .ok x, .ok y => if h : x = y then isTrue (by rw [h]) else isFalse (by intro hh; cases hh; exact h rfl)
  | .error e1, .error e2 =>
    if h : e1 = e2 then isTrue (by rw [h]) else isFalse (by intro hh; cases hh; exact h rfl)
  | .ok _, .error _ => isFalse (by intro h; cases h)
  | .error _, .ok _ => isFalse (by intro h; cases h)

/-- The details list represents the subintent list: same keys in the same order, keys distinct,
and the stored index is the position (`IndexMap` invariant). -/
structure Good (subs : List Sub) (m : List Details) : Prop where
  hashes : m.map (·.hash) = subs.map (·.hash)
  nodup : (subs.map (·.hash)).Nodup
  index : ∀ i (h : i < m.length), m[i].index = i

theorem Good.length {subs : List Sub} {m : List Details} (g : Good subs m) : m.length = subs.length := by
  have := congrArg List.length g.hashes
  simpa using this

theorem Good.hash_get {subs : List Sub} {m : List Details} (g : Good subs m) (i : Nat)
    (h1 : i < m.length) (h2 : i < subs.length) : m[i].hash = subs[i].hash := by
  have := g.hashes
  have h3 : (m.map (·.hash))[i]'(by simpa using h1) = (subs.map (·.hash))[i]'(by simpa using h2) := by
    simp only [this]
  simpa using h3

/-- two entries with the same key are the same entry -/
theorem Good.inj {subs : List Sub} {m : List Details} (g : Good subs m) {i j : Nat}
    (hi : i < m.length) (hj : j < m.length) (h : m[i].hash = m[j].hash) : i = j := by
  have hn : (m.map (·.hash)).Nodup := by rw [g.hashes]; exact g.nodup
  have hi' : i < (m.map (·.hash)).length := by simpa using hi
  have h' : (m.map (·.hash))[i]? = (m.map (·.hash))[j]? := by
    simp only [List.getElem?_map, List.getElem?_eq_getElem hi, List.getElem?_eq_getElem hj, Option.map_some, h]
  exact (List.getElem?_inj hi' hn).mp h'

theorem find_hash {subs : List Sub} {m : List Details} (g : Good subs m) {h : Nat} {d : Details}
    (hf : m.find? (fun e => e.hash == h) = some d) :
    d.hash = h ∧ ∃ (hi : d.index < m.length), m[d.index] = d := by
  have h1 : d.hash = h := by simpa using List.find?_some hf
  have h2 := List.mem_of_find?_eq_some hf
  obtain ⟨i, hi, rfl⟩ := List.getElem_of_mem h2
  have := g.index i hi
  exact ⟨h1, by rw [this]; exact hi, by simp [this]⟩

theorem find_none_hash {m : List Details} {h : Nat}
    (hf : m.find? (fun e => e.hash == h) = none) : h ∉ m.map (·.hash) := by
  intro hm
  simp only [List.mem_map] at hm
  obtain ⟨e, he, rfl⟩ := hm
  have := List.find?_eq_none.mp hf e he
  simp at this

/-! ### field updates keep the representation -/

theorem map_update_length (m : List Details) (f : Details → Details) : (m.map f).length = m.length := by simp

theorem good_map {subs : List Sub} {m : List Details} (g : Good subs m) (f : Details → Details)
    (hh : ∀ e, (f e).hash = e.hash) (hi : ∀ e, (f e).index = e.index) : Good subs (m.map f) := by
  refine ⟨?_, g.nodup, ?_⟩
  · rw [← g.hashes, List.map_map]; congr 1; funext e; exact hh e
  · intro i h
    simp only [List.getElem_map, hi]
    exact g.index i (by simpa using h)

theorem good_setParent {subs : List Sub} {m : List Details} (g : Good subs m) (h : Nat) (p : IHash) :
    Good subs (setParent m h p) := by
  unfold setParent
  apply good_map g <;> intro e <;> split <;> rfl

theorem good_setChildren {subs : List Sub} {m : List Details} (g : Good subs m) (h : Nat) (cs : List Nat) :
    Good subs (setChildren m h cs) := by
  unfold setChildren
  apply good_map g <;> intro e <;> split <;> rfl

theorem good_setDepth {subs : List Sub} {m : List Details} (g : Good subs m) (i : Nat) (hi : i < m.length)
    (d : Nat) : Good subs (m.set i { m[i] with depth := d }) := by
  refine ⟨?_, g.nodup, ?_⟩
  · rw [← g.hashes]
    apply List.ext_getElem
    · simp
    · intro j h1 h2
      simp only [List.getElem_map, List.getElem_set]
      split
      · rename_i hij; subst hij; rfl
      · rfl
  · intro j h
    simp only [List.getElem_set]
    split
    · rename_i hij; subst hij; exact g.index i hi
    · exact g.index j (by simpa using h)

/-! ### Step 1 -/

theorem step1_spec (subs : List Sub) :
    ∀ (acc : List Details) (pre : List Sub), Good pre acc →
      (∀ m, step1 subs acc = .ok m →
        Good (pre ++ subs) m ∧ (∀ e ∈ m, e ∈ acc ∨ (e.parent = PLACEHOLDER ∧ e.depth = 0 ∧ e.children = [])))
      ∧ (∀ err, step1 subs acc = .error err → ¬ ((pre ++ subs).map (·.hash)).Nodup) := by
  induction subs with
  | nil =>
    intro acc pre g
    refine ⟨?_, ?_⟩
    · intro m hm
      simp only [step1, Except.ok.injEq] at hm
      subst hm
      simp only [List.append_nil]
      exact ⟨g, fun e he => Or.inl he⟩
    · intro err hm; simp [step1] at hm
  | cons s rest ih =>
    intro acc pre g
    by_cases hdup : acc.any (fun e => e.hash == s.hash) = true
    · refine ⟨?_, ?_⟩
      · intro m hm; simp [step1, hdup] at hm
      · intro err _ hnd
        simp only [List.any_eq_true, beq_iff_eq] at hdup
        obtain ⟨e, he, heq⟩ := hdup
        have hin : s.hash ∈ pre.map (·.hash) := by
          rw [← g.hashes]; exact List.mem_map.mpr ⟨e, he, heq⟩
        simp only [List.map_append, List.map_cons] at hnd
        have := (List.nodup_append.mp hnd).2.2 _ hin _ (List.mem_cons_self)
        exact this rfl
    · have hnew : s.hash ∉ pre.map (·.hash) := by
        intro hin
        rw [← g.hashes] at hin
        obtain ⟨e, he, heq⟩ := List.mem_map.mp hin
        apply hdup
        simp only [List.any_eq_true, beq_iff_eq]
        exact ⟨e, he, heq⟩
      have g' : Good (pre ++ [s]) (acc ++ [{ hash := s.hash, index := acc.length, parent := PLACEHOLDER, depth := 0, children := [] }]) := by
        refine ⟨?_, ?_, ?_⟩
        · simp [g.hashes]
        · simp only [List.map_append, List.map_cons, List.map_nil]
          rw [List.nodup_append]
          refine ⟨g.nodup, by simp, ?_⟩
          intro a ha b hb hab
          simp only [List.mem_singleton] at hb
          subst hb; subst hab
          exact hnew ha
        · intro i hi
          simp only [List.length_append, List.length_cons, List.length_nil] at hi
          by_cases hlt : i < acc.length
          · rw [List.getElem_append_left hlt]; exact g.index i hlt
          · have : i = acc.length := by omega
            subst this
            simp
      have hstep : step1 (s :: rest) acc = step1 rest (acc ++ [{ hash := s.hash, index := acc.length, parent := PLACEHOLDER, depth := 0, children := [] }]) := by
        simp [step1, hdup]
      obtain ⟨ih1, ih2⟩ := ih _ _ g'
      rw [hstep]
      have happ : pre ++ s :: rest = (pre ++ [s]) ++ rest := by simp
      refine ⟨?_, ?_⟩
      · intro m hm
        obtain ⟨a, b⟩ := ih1 m hm
        rw [happ]
        refine ⟨a, ?_⟩
        intro e he
        rcases b e he with hb | hb
        · rcases List.mem_append.mp hb with hb | hb
          · exact Or.inl hb
          · simp only [List.mem_singleton] at hb
            subst hb
            exact Or.inr ⟨rfl, rfl, rfl⟩
        · exact Or.inr hb
      · intro err hm
        rw [happ]; exact ih2 err hm

/-! ### Step 2 -/

/-- every declared child, in the order the validator processes them -/
def allClaims (t : Tree) : List Nat := t.rootChildren ++ t.subs.flatMap (·.children)

/-- `p` declares `h` as a child -/
def Declares (t : Tree) (p : IHash) (h : Nat) : Prop :=
  (p = t.root ∧ h ∈ t.rootChildren) ∨ (∃ s ∈ t.subs, p = (true, s.hash) ∧ h ∈ s.children)

/-- State invariant of step 2; `cl` = the children claimed so far. -/
structure S2 (t : Tree) (cl : List Nat) (m : List Details) : Prop where
  good : Good t.subs m
  claimed : ∀ e ∈ m, (e.parent ≠ PLACEHOLDER ↔ e.hash ∈ cl)
  clNodup : cl.Nodup
  clSub : ∀ c ∈ cl, c ∈ t.subs.map (·.hash)
  depth0 : ∀ e ∈ m, e.depth = 0
  parentOK : ∀ e ∈ m, e.parent ≠ PLACEHOLDER → Declares t e.parent e.hash

theorem setParent_getElem (m : List Details) (h : Nat) (p : IHash) (j : Nat) (hj : j < m.length) :
    (setParent m h p)[j]'(by simpa [setParent] using hj)
      = if m[j].hash == h then { m[j] with parent := p } else m[j] := by
  simp [setParent]

theorem claim_spec {t : Tree} {cl : List Nat} {m m' : List Details} {p : IHash} {h i : Nat}
    (s : S2 t cl m) (hp : p ≠ PLACEHOLDER) (hd : Declares t p h) (hc : claim m p h = .ok (m', i)) :
    S2 t (cl ++ [h]) m' ∧ m' = setParent m h p ∧ (∃ hi : i < m.length, m[i].hash = h) := by
  unfold claim at hc
  cases hf : m.find? (fun e => e.hash == h) with
  | none => simp [hf] at hc
  | some d =>
    simp only [hf] at hc
    by_cases hpl : (d.parent == PLACEHOLDER) = true
    · simp only [hpl, if_true, Except.ok.injEq, Prod.mk.injEq] at hc
      obtain ⟨rfl, rfl⟩ := hc
      obtain ⟨hdh, hdi, hdm⟩ := find_hash s.good hf
      have hdmem : d ∈ m := List.mem_of_find?_eq_some hf
      have hnotcl : h ∉ cl := by
        intro hin
        have := (s.claimed d hdmem).mpr (by rw [hdh]; exact hin)
        exact this (by simpa using hpl)
      refine ⟨⟨good_setParent s.good h p, ?_, ?_, ?_, ?_, ?_⟩, rfl, hdi, by rw [hdm]; exact hdh⟩
      · intro e he
        simp only [setParent, List.mem_map] at he
        obtain ⟨e0, he0, rfl⟩ := he
        by_cases heq : (e0.hash == h) = true
        · simp only [heq, if_true, List.mem_append, List.mem_singleton]
          have : e0.hash = h := by simpa using heq
          simp [this, hp]
        · simp only [heq, Bool.false_eq_true, if_false, List.mem_append, List.mem_singleton]
          have hne : e0.hash ≠ h := by simpa using heq
          rw [s.claimed e0 he0]
          simp [hne]
      · rw [List.nodup_append]
        refine ⟨s.clNodup, by simp, ?_⟩
        intro a ha b hb hab
        simp only [List.mem_singleton] at hb
        subst hb; subst hab
        exact hnotcl ha
      · intro c hc
        rcases List.mem_append.mp hc with hc | hc
        · exact s.clSub c hc
        · simp only [List.mem_singleton] at hc
          subst hc
          rw [← s.good.hashes]
          exact List.mem_map.mpr ⟨d, hdmem, hdh⟩
      · intro e he
        simp only [setParent, List.mem_map] at he
        obtain ⟨e0, he0, rfl⟩ := he
        split <;> exact s.depth0 e0 he0
      · intro e he
        simp only [setParent, List.mem_map] at he
        obtain ⟨e0, he0, rfl⟩ := he
        by_cases heq : (e0.hash == h) = true
        · simp only [heq, if_true]
          have : e0.hash = h := by simpa using heq
          intro _; rw [this]; exact hd
        · simp only [heq, Bool.false_eq_true, if_false]
          exact s.parentOK e0 he0
    · simp [hpl] at hc

/-- `hashAt m c` = the key of entry `c` -/
def hashAt (m : List Details) (c : Nat) : Option Nat := (m[c]?).map (·.hash)

theorem hashAt_setParent (m : List Details) (h : Nat) (p : IHash) (c : Nat) :
    hashAt (setParent m h p) c = hashAt m c := by
  unfold hashAt setParent
  simp only [List.getElem?_map, Option.map_map]
  cases m[c]? with
  | none => rfl
  | some e => simp only [Option.map_some, Function.comp]; split <;> rfl

theorem hashAt_setChildren (m : List Details) (h : Nat) (cs : List Nat) (c : Nat) :
    hashAt (setChildren m h cs) c = hashAt m c := by
  unfold hashAt setChildren
  simp only [List.getElem?_map, Option.map_map]
  cases m[c]? with
  | none => rfl
  | some e => simp only [Option.map_some, Function.comp]; split <;> rfl

theorem claimAll_spec {t : Tree} {p : IHash} (hp : p ≠ PLACEHOLDER) :
    ∀ (hs : List Nat) {cl : List Nat} {m m' : List Details} {acc cs : List Nat},
      S2 t cl m → (∀ h ∈ hs, Declares t p h) →
      claimAll m p hs acc = .ok (m', cs) →
      S2 t (cl ++ hs) m' ∧ (∀ c, hashAt m' c = hashAt m c)
        ∧ (∀ j (h1 : j < m.length) (h2 : j < m'.length), m'[j].children = m[j].children)
        ∧ ∃ new, cs = acc ++ new ∧ new.map (hashAt m) = hs.map some := by
  intro hs
  induction hs with
  | nil =>
    intro cl m m' acc cs s _ hc
    simp only [claimAll, Except.ok.injEq, Prod.mk.injEq] at hc
    obtain ⟨rfl, rfl⟩ := hc
    exact ⟨by simpa using s, fun _ => rfl, fun _ _ _ => rfl, [], by simp, by simp⟩
  | cons h rest ih =>
    intro cl m m' acc cs s hdecl hc
    simp only [claimAll] at hc
    cases h1 : claim m p h with
    | error e => simp [h1] at hc
    | ok r =>
      obtain ⟨m1, i⟩ := r
      simp only [h1] at hc
      obtain ⟨s1, hm1, hi, hih⟩ := claim_spec s hp (hdecl h (List.mem_cons_self)) h1
      obtain ⟨s2, hh2, hch2, new, hnew, hmap⟩ := ih s1 (fun x hx => hdecl x (List.mem_cons_of_mem _ hx)) hc
      have hat1 : ∀ c, hashAt m1 c = hashAt m c := by
        intro c; rw [hm1]; exact hashAt_setParent m h p c
      refine ⟨by simpa using s2, fun c => (hh2 c).trans (hat1 c), ?_, i :: new, ?_, ?_⟩
      · intro j hj1 hj2
        have hl1 : j < m1.length := by rw [hm1]; simpa [setParent] using hj1
        rw [hch2 j hl1 hj2]
        subst hm1
        rw [setParent_getElem m h p j hj1]
        split <;> rfl
      · rw [hnew]; simp
      · simp only [List.map_cons]
        congr 1
        · simp [hashAt, List.getElem?_eq_getElem hi, hih]
        · rw [← hmap]
          apply List.map_congr_left
          intro c _
          exact (hat1 c).symm

theorem setChildren_getElem (m : List Details) (h : Nat) (cs : List Nat) (j : Nat) (hj : j < m.length) :
    (setChildren m h cs)[j]'(by simpa [setChildren] using hj)
      = if m[j].hash == h then { m[j] with children := cs } else m[j] := by
  simp [setChildren]

theorem s2_setChildren {t : Tree} {cl : List Nat} {m : List Details} (s : S2 t cl m) (h : Nat) (cs : List Nat) :
    S2 t cl (setChildren m h cs) := by
  refine ⟨good_setChildren s.good h cs, ?_, s.clNodup, s.clSub, ?_, ?_⟩
  · intro e he
    simp only [setChildren, List.mem_map] at he
    obtain ⟨e0, he0, rfl⟩ := he
    split <;> exact s.claimed e0 he0
  · intro e he
    simp only [setChildren, List.mem_map] at he
    obtain ⟨e0, he0, rfl⟩ := he
    split <;> exact s.depth0 e0 he0
  · intro e he
    simp only [setChildren, List.mem_map] at he
    obtain ⟨e0, he0, rfl⟩ := he
    split <;> exact s.parentOK e0 he0

theorem sub_ne_placeholder (h : Nat) : ((true, h) : IHash) ≠ PLACEHOLDER := by
  intro e; cases e

/-- children index lists name exactly the declared children -/
def ChildrenOK (t : Tree) (m : List Details) (k : Nat) : Prop :=
  ∀ i (h1 : i < m.length) (h2 : i < t.subs.length), i < k →
    m[i].children.map (hashAt m) = (t.subs[i]).children.map some

theorem step2b_spec {t : Tree} :
    ∀ (rest pre : List Sub) {cl : List Nat} {m m2 : List Details},
      t.subs = pre ++ rest → S2 t cl m → ChildrenOK t m pre.length →
      step2b m rest = .ok m2 →
      S2 t (cl ++ rest.flatMap (·.children)) m2 ∧ (∀ c, hashAt m2 c = hashAt m c)
        ∧ ChildrenOK t m2 t.subs.length := by
  intro rest
  induction rest with
  | nil =>
    intro pre cl m m2 hsplit s hco hc
    simp only [step2b, Except.ok.injEq] at hc
    subst hc
    refine ⟨by simpa using s, fun _ => rfl, ?_⟩
    have : t.subs.length = pre.length := by rw [hsplit]; simp
    rw [this]; exact hco
  | cons sb rest ih =>
    intro pre cl m m2 hsplit s hco hc
    simp only [step2b] at hc
    cases h1 : claimAll m (true, sb.hash) sb.children [] with
    | error e => simp [h1] at hc
    | ok r =>
      obtain ⟨m1, cs⟩ := r
      simp only [h1] at hc
      have hsbmem : sb ∈ t.subs := by rw [hsplit]; simp
      have hdecl : ∀ h ∈ sb.children, Declares t (true, sb.hash) h :=
        fun h hh => Or.inr ⟨sb, hsbmem, rfl, hh⟩
      obtain ⟨s1, hat1, hch1, new, hnew, hmap⟩ :=
        claimAll_spec (sub_ne_placeholder sb.hash) sb.children s hdecl h1
      simp only [List.nil_append] at hnew
      subst hnew
      have s1' := s2_setChildren s1 sb.hash cs
      have hlen1 : m1.length = t.subs.length := s1.good.length
      have hlen0 : m.length = t.subs.length := s.good.length
      have hk : pre.length < t.subs.length := by rw [hsplit]; simp
      have hsubk : t.subs[pre.length]'hk = sb := by
        have : t.subs[pre.length]? = some sb := by rw [hsplit]; simp
        rw [List.getElem?_eq_getElem hk] at this
        exact Option.some.inj this
      have hkhash : (m1[pre.length]'(by omega)).hash = sb.hash := by
        rw [s1.good.hash_get pre.length (by omega) hk, hsubk]
      have hpos : ∀ i (hi : i < m1.length), (m1[i].hash == sb.hash) = true ↔ i = pre.length := by
        intro i hi
        constructor
        · intro he
          have he' : m1[i].hash = (m1[pre.length]'(by omega)).hash := by
            rw [hkhash]; simpa using he
          exact s1.good.inj hi (by omega) he'
        · rintro rfl; simpa using hkhash
      have hco' : ChildrenOK t (setChildren m1 sb.hash cs) (pre ++ [sb]).length := by
        intro i hi1 hi2 hlt
        have hi1' : i < m1.length := by simpa [setChildren] using hi1
        simp only [List.length_append, List.length_cons, List.length_nil] at hlt
        rw [setChildren_getElem m1 sb.hash cs i hi1']
        have hat : ∀ c, hashAt (setChildren m1 sb.hash cs) c = hashAt m c := by
          intro c; rw [hashAt_setChildren]; exact hat1 c
        by_cases hik : i = pre.length
        · subst hik
          have := (hpos pre.length hi1').mpr rfl
          simp only [this, if_true]
          rw [hsubk, ← hmap]
          apply List.map_congr_left
          intro c _; exact hat c
        · have hne : ¬ (m1[i].hash == sb.hash) = true := fun he => hik ((hpos i hi1').mp he)
          simp only [hne, Bool.false_eq_true, if_false]
          have hlt' : i < pre.length := by omega
          rw [hch1 i (by omega) hi1', ← hco i (by omega) hi2 hlt']
          apply List.map_congr_left
          intro c _; exact hat c
      have hsplit' : t.subs = (pre ++ [sb]) ++ rest := by rw [hsplit]; simp
      obtain ⟨s2, hat2, hco2⟩ := ih (pre ++ [sb]) hsplit' s1' hco' hc
      refine ⟨by simpa [List.flatMap_cons] using s2, ?_, hco2⟩
      intro c
      rw [hat2 c, hashAt_setChildren]; exact hat1 c

/-- **Result of steps 1 and 2.** -/
theorem steps12_spec {t : Tree} (hroot : t.root ≠ PLACEHOLDER) {m1 m2a m2 : List Details} {rootCs : List Nat}
    (h1 : step1 t.subs [] = .ok m1) (h2a : claimAll m1 t.root t.rootChildren [] = .ok (m2a, rootCs))
    (h2b : step2b m2a t.subs = .ok m2) :
    S2 t (allClaims t) m2 ∧ ChildrenOK t m2 t.subs.length
      ∧ rootCs.map (hashAt m2) = t.rootChildren.map some
      ∧ ∀ e ∈ m2, e.children = [] ∨ True := by
  have g0 : Good ([] : List Sub) ([] : List Details) := ⟨rfl, by simp, by intro i h; simp at h⟩
  obtain ⟨sp1, _⟩ := step1_spec t.subs [] [] g0
  obtain ⟨g1, hinit⟩ := sp1 m1 h1
  simp only [List.nil_append] at g1
  have s0 : S2 t [] m1 := by
    refine ⟨g1, ?_, by simp, by simp, ?_, ?_⟩
    · intro e he
      rcases hinit e he with hh | hh
      · simp at hh
      · simp [hh.1]
    · intro e he
      rcases hinit e he with hh | hh
      · simp at hh
      · exact hh.2.1
    · intro e he hne
      rcases hinit e he with hh | hh
      · simp at hh
      · exact absurd hh.1 hne
  have hdecl : ∀ h ∈ t.rootChildren, Declares t t.root h := fun h hh => Or.inl ⟨rfl, hh⟩
  obtain ⟨s2a, hat2a, _, new, hnew, hmap⟩ := claimAll_spec hroot t.rootChildren s0 hdecl h2a
  simp only [List.nil_append] at hnew
  subst hnew
  have hco0 : ChildrenOK t m2a ([] : List Sub).length := by
    intro i _ _ hlt; simp at hlt
  obtain ⟨s2, hat2, hco2⟩ := step2b_spec t.subs [] (by simp) s2a hco0 h2b
  refine ⟨by simpa [allClaims] using s2, hco2, ?_, fun _ _ => Or.inr trivial⟩
  rw [← hmap]
  apply List.map_congr_left
  intro c _
  rw [hat2 c, hat2a c]

/-! ### Step 3 — soundness of the depth marking -/

/-- index-level path from the root of length `d` ending in entry `i` (children lists of `m0`) -/
inductive IPath (m0 : List Details) (rootCs : List Nat) : Nat → Nat → Prop where
  | root {i : Nat} : i ∈ rootCs → IPath m0 rootCs 1 i
  | step {d p i : Nat} {e : Details} : IPath m0 rootCs d p → m0[p]? = some e → i ∈ e.children →
      IPath m0 rootCs (d + 1) i

/-- `m` is `m0` with some depths changed -/
def SameButDepth (m0 m : List Details) : Prop :=
  m.length = m0.length ∧ ∀ j (h0 : j < m0.length) (h : j < m.length),
    m[j].hash = m0[j].hash ∧ m[j].children = m0[j].children ∧ m[j].parent = m0[j].parent
      ∧ m[j].index = m0[j].index

def DepthOK (m0 : List Details) (rootCs : List Nat) (maxDepth : Nat) (m : List Details) : Prop :=
  ∀ j (h : j < m.length), m[j].depth ≠ 0 → IPath m0 rootCs m[j].depth j ∧ m[j].depth ≤ maxDepth

theorem mem_pushChildren {cs : List Nat} {d : Nat} {wl : List (Nat × Nat)} {x : Nat × Nat}
    (h : x ∈ pushChildren cs d wl) : (x.2 = d ∧ x.1 ∈ cs) ∨ x ∈ wl := by
  unfold pushChildren at h
  rcases List.mem_append.mp h with h | h
  · left
    simp only [List.mem_reverse, List.mem_map] at h
    obtain ⟨c, hc, rfl⟩ := h
    exact ⟨rfl, hc⟩
  · exact Or.inr h

theorem walk_sound (m0 : List Details) (rootCs : List Nat) (maxDepth : Nat) :
    ∀ (fuel : Nat) (m : List Details) (wl : List (Nat × Nat)) (m3 : List Details),
      SameButDepth m0 m → (∀ x ∈ wl, IPath m0 rootCs x.2 x.1) → DepthOK m0 rootCs maxDepth m →
      walk maxDepth fuel m wl = .ok m3 →
      SameButDepth m0 m3 ∧ DepthOK m0 rootCs maxDepth m3 := by
  intro fuel
  induction fuel with
  | zero => intro m wl m3 _ _ _ h; simp [walk] at h
  | succ fuel ih =>
    intro m wl m3 hs hw hd h
    cases wl with
    | nil =>
      simp only [walk, Except.ok.injEq] at h
      subst h; exact ⟨hs, hd⟩
    | cons x wl =>
      obtain ⟨i, d⟩ := x
      simp only [walk] at h
      cases hmi : m[i]? with
      | none => simp [hmi] at h
      | some e =>
        simp only [hmi] at h
        by_cases hgt : d > maxDepth
        · simp [hgt] at h
        · simp only [hgt, if_false] at h
          obtain ⟨hi, hei⟩ := List.getElem?_eq_some_iff.mp hmi
          have hpi : IPath m0 rootCs d i := hw (i, d) (List.mem_cons_self)
          have hi0 : i < m0.length := by rw [← hs.1]; exact hi
          have hsame := hs.2 i hi0 hi
          refine ih (m.set i { e with depth := d }) (pushChildren e.children (d + 1) wl) m3 ?_ ?_ ?_ h
          · refine ⟨by simp [hs.1], ?_⟩
            intro j h0 hj
            simp only [List.getElem_set]
            split
            · rename_i hij; subst hij
              rw [← hei]; exact hsame
            · exact hs.2 j h0 (by simpa using hj)
          · intro x hx
            rcases mem_pushChildren hx with ⟨hx2, hx1⟩ | hx
            · rw [hx2]
              refine IPath.step hpi (e := m0[i]) (List.getElem?_eq_getElem hi0) ?_
              rw [← hsame.2.1, hei]; exact hx1
            · exact hw x (List.mem_cons_of_mem _ hx)
          · intro j hj
            simp only [List.getElem_set]
            split
            · rename_i hij; subst hij
              intro _
              exact ⟨hpi, by simp only; omega⟩
            · exact hd j (by simpa using hj)

theorem step4_ok {m : List Details} (h : step4 m = .ok ()) : ∀ e ∈ m, e.depth ≠ 0 := by
  unfold step4 at h
  cases hf : m.find? (fun e => e.depth == 0) with
  | some e => simp [hf] at h
  | none =>
    intro e he h0
    have := List.find?_eq_none.mp hf e he
    simp [h0] at this

/-! ### Step 3 — termination of the work list -/

/-- children still to be pushed: those of the entries without a depth mark -/
def pendingOf (m : List Details) : List Nat :=
  (m.filter (fun e => e.depth == 0)).flatMap (·.children)

/-- everything the loop will still pop -/
def pending (m : List Details) (wl : List (Nat × Nat)) : List Nat := wl.map (·.1) ++ pendingOf m

structure TInv (m : List Details) (wl : List (Nat × Nat)) : Prop where
  nodup : (pending m wl).Nodup
  unvisited : ∀ x ∈ pending m wl, ∃ e, m[x]? = some e ∧ e.depth = 0
  depthPos : ∀ x ∈ wl, 1 ≤ x.2

theorem pendingOf_append (a b : List Details) : pendingOf (a ++ b) = pendingOf a ++ pendingOf b := by
  simp [pendingOf]

theorem pendingOf_cons_unvisited (e : Details) (b : List Details) (h : e.depth = 0) :
    pendingOf (e :: b) = e.children ++ pendingOf b := by
  simp [pendingOf, h]

theorem pendingOf_cons_visited (e : Details) (b : List Details) (h : e.depth ≠ 0) :
    pendingOf (e :: b) = pendingOf b := by
  simp [pendingOf, h]

/-- marking entry `i` (unvisited, with a non-zero depth) removes exactly its children from the
pending children -/
theorem pendingOf_set {m : List Details} {i : Nat} (hi : i < m.length) (h0 : m[i].depth = 0)
    {d : Nat} (hd : d ≠ 0) :
    pendingOf m = pendingOf (m.take i) ++ m[i].children ++ pendingOf (m.drop (i + 1))
    ∧ pendingOf (m.set i { m[i] with depth := d }) = pendingOf (m.take i) ++ pendingOf (m.drop (i + 1)) := by
  constructor
  · have hm : m = m.take i ++ (m[i] :: m.drop (i + 1)) := by
      rw [← List.drop_eq_getElem_cons hi, List.take_append_drop]
    conv => lhs; rw [hm]
    rw [pendingOf_append, pendingOf_cons_unvisited _ _ h0, List.append_assoc]
  · rw [List.set_eq_take_append_cons_drop]
    simp only [hi, if_true]
    rw [pendingOf_append, pendingOf_cons_visited _ _ (by simpa using hd)]

theorem nodup_of_map {α β : Type} (f : α → β) {l : List α} (h : (l.map f).Nodup) : l.Nodup := by
  simp only [List.Nodup, List.pairwise_map] at h
  exact h.imp (fun {a b} hab e => hab (by rw [e]))

theorem walk_terminates (maxDepth : Nat) :
    ∀ (fuel : Nat) (m : List Details) (wl : List (Nat × Nat)),
      TInv m wl → (pending m wl).length < fuel →
      walk maxDepth fuel m wl ≠ .error .outOfFuel ∧ walk maxDepth fuel m wl ≠ .error .panic := by
  intro fuel
  induction fuel with
  | zero => intro m wl _ h; omega
  | succ fuel ih =>
    intro m wl inv hlen
    cases wl with
    | nil => simp [walk]
    | cons x wl =>
      obtain ⟨i, d⟩ := x
      have hmem : i ∈ pending m ((i, d) :: wl) := by simp [pending]
      obtain ⟨e, hme, he0⟩ := inv.unvisited i hmem
      obtain ⟨hi, hei⟩ := List.getElem?_eq_some_iff.mp hme
      simp only [walk, hme]
      by_cases hgt : d > maxDepth
      · simp [hgt]
      · simp only [hgt, if_false]
        have hd1 : 1 ≤ d := inv.depthPos (i, d) (List.mem_cons_self)
        have h0 : m[i].depth = 0 := by rw [hei]; exact he0
        obtain ⟨hp1, hp2⟩ := pendingOf_set hi h0 (d := d) (by omega)
        rw [hei] at hp1 hp2
        -- the old pending list is `i ::` a permutation of the new one
        have hperm : (pending m ((i, d) :: wl)).Perm
            (i :: pending (m.set i { e with depth := d }) (pushChildren e.children (d + 1) wl)) := by
          simp only [pending, pushChildren, List.map_cons, List.map_append, List.map_reverse, List.map_map,
            List.cons_append]
          refine List.Perm.cons i ?_
          rw [hp1, hp2]
          have hmapfst : List.map ((fun x : Nat × Nat => x.1) ∘ fun c => (c, d + 1)) e.children = e.children := by
            simp [Function.comp_def]
          rw [hmapfst]
          -- wl ++ (A ++ C ++ B)  ~  (rev C ++ wl) ++ (A ++ B)
          have h1 : (e.children.reverse ++ List.map (fun x => x.1) wl ++ (pendingOf (List.take i m) ++ pendingOf (List.drop (i + 1) m))).Perm
              (e.children ++ (List.map (fun x => x.1) wl ++ (pendingOf (List.take i m) ++ pendingOf (List.drop (i + 1) m)))) := by
            rw [List.append_assoc]
            exact List.Perm.append_right _ (List.reverse_perm _)
          refine List.Perm.trans ?_ h1.symm
          -- move C to the front
          have h2 : (pendingOf (List.take i m) ++ e.children ++ pendingOf (List.drop (i + 1) m)).Perm
              (e.children ++ (pendingOf (List.take i m) ++ pendingOf (List.drop (i + 1) m))) := by
            rw [List.append_assoc, ← List.append_assoc e.children]
            exact List.Perm.trans (List.perm_append_comm_assoc _ _ _) (by rw [List.append_assoc])
          refine List.Perm.trans (List.Perm.append_left _ h2) ?_
          exact List.perm_append_comm_assoc _ _ _
        have hnd := (hperm.nodup_iff).mp inv.nodup
        have hni : i ∉ pending (m.set i { e with depth := d }) (pushChildren e.children (d + 1) wl) :=
          (List.nodup_cons.mp hnd).1
        have hlen' : (pending (m.set i { e with depth := d }) (pushChildren e.children (d + 1) wl)).length < fuel := by
          have := hperm.length_eq
          simp only [List.length_cons] at this
          omega
        apply ih _ _ ?_ hlen'
        refine ⟨(List.nodup_cons.mp hnd).2, ?_, ?_⟩
        · intro x hx
          have hxi : x ≠ i := fun e => hni (e ▸ hx)
          have hxold : x ∈ pending m ((i, d) :: wl) := hperm.mem_iff.mpr (List.mem_cons_of_mem _ hx)
          obtain ⟨ex, hex, hex0⟩ := inv.unvisited x hxold
          refine ⟨ex, ?_, hex0⟩
          rw [List.getElem?_set_ne (Ne.symm hxi)]; exact hex
        · intro x hx
          rcases mem_pushChildren hx with ⟨hx2, _⟩ | hx
          · omega
          · exact inv.depthPos x (List.mem_cons_of_mem _ hx)

theorem flatMap_congr_index {α β γ : Type} (f : α → List γ) (g : β → List γ) :
    ∀ (a : List α) (b : List β), a.length = b.length →
      (∀ i (h1 : i < a.length) (h2 : i < b.length), f a[i] = g b[i]) → a.flatMap f = b.flatMap g := by
  intro a
  induction a with
  | nil => intro b hl _; cases b with
    | nil => rfl
    | cons _ _ => simp at hl
  | cons x xs ih =>
    intro b hl h
    cases b with
    | nil => simp at hl
    | cons y ys =>
      simp only [List.flatMap_cons]
      have h0 := h 0 (by simp) (by simp)
      simp only [List.getElem_cons_zero] at h0
      rw [h0, ih ys (by simpa using hl)]
      intro i h1 h2
      have := h (i + 1) (by simp; omega) (by simp; omega)
      simpa using this

/-- After steps 1–2 the work list invariant holds and the pending list is no longer than the
number of subintents. -/
theorem tinv_init {t : Tree} {m2 : List Details} {rootCs : List Nat}
    (s2 : S2 t (allClaims t) m2) (hco : ChildrenOK t m2 t.subs.length)
    (hrc : rootCs.map (hashAt m2) = t.rootChildren.map some) :
    TInv m2 (pushChildren rootCs 1 []) ∧ (pending m2 (pushChildren rootCs 1 [])).length ≤ t.subs.length := by
  have hfilter : m2.filter (fun e => e.depth == 0) = m2 := by
    apply List.filter_eq_self.mpr
    intro e he; simp [s2.depth0 e he]
  have hpend : pending m2 (pushChildren rootCs 1 []) = rootCs.reverse ++ m2.flatMap (·.children) := by
    simp [pending, pendingOf, pushChildren, hfilter, Function.comp_def]
  -- the keys of the pending entries are exactly the declared children
  have hkeys : (rootCs ++ m2.flatMap (·.children)).map (hashAt m2) = (allClaims t).map some := by
    rw [List.map_append, hrc, List.map_flatMap]
    unfold allClaims
    rw [List.map_append, List.map_flatMap]
    congr 1
    apply flatMap_congr_index _ _ m2 t.subs s2.good.length
    intro i h1 h2
    exact hco i h1 h2 h2
  have hnd0 : (rootCs ++ m2.flatMap (·.children)).Nodup := by
    apply nodup_of_map (hashAt m2)
    rw [hkeys]
    simp only [List.Nodup, List.pairwise_map]
    exact s2.clNodup.imp (fun {a b} hab e => hab (Option.some.inj e))
  have hvalid : ∀ x ∈ rootCs ++ m2.flatMap (·.children), x < m2.length := by
    intro x hx
    have : hashAt m2 x ∈ (allClaims t).map some := by
      rw [← hkeys]; exact List.mem_map.mpr ⟨x, hx, rfl⟩
    obtain ⟨h, _, heq⟩ := List.mem_map.mp this
    unfold hashAt at heq
    cases hmx : m2[x]? with
    | none => rw [hmx] at heq; cases heq
    | some e => exact (List.getElem?_eq_some_iff.mp hmx).1
  have hperm : (rootCs.reverse ++ m2.flatMap (·.children)).Perm (rootCs ++ m2.flatMap (·.children)) :=
    List.Perm.append_right _ (List.reverse_perm _)
  refine ⟨⟨?_, ?_, ?_⟩, ?_⟩
  · rw [hpend]; exact hperm.nodup_iff.mpr hnd0
  · intro x hx
    rw [hpend] at hx
    have hlt := hvalid x (hperm.mem_iff.mp hx)
    exact ⟨m2[x], List.getElem?_eq_getElem hlt, s2.depth0 _ (List.getElem_mem hlt)⟩
  · intro x hx
    rcases mem_pushChildren hx with ⟨hx2, _⟩ | hx
    · omega
    · cases hx
  · rw [hpend, hperm.length_eq, ← s2.good.length]
    have hsub : (rootCs ++ m2.flatMap (·.children)) ⊆ List.range m2.length := by
      intro x hx; exact List.mem_range.mpr (hvalid x hx)
    have := (List.subperm_of_subset hnd0 hsub).length_le
    simpa using this

end Radix.IntentTree
