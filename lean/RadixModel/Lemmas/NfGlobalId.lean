/-
C28 — non-fungible global id text form (`to_canonical_string` / `try_from_canonical_string`).
-/
import RadixModel.Model.AddrText
import RadixModel.Lemmas.NfIdText
import RadixModel.Lemmas.NfIdParse
namespace Radix.AddrText
open Radix.Bech32 (Str Bytes utf8Len u8len)

theorem splitColon_no_colon (b : Str) (h : ∀ c ∈ b, c ≠ ':') : splitColon b = [b] := by
  induction b with
  | nil => rfl
  | cons x xs ih =>
    have hx : x ≠ ':' := h x (by simp)
    simp [splitColon, hx, ih (fun c hc => h c (by simp [hc]))]

theorem splitColon_append (a b : Str) (h : ∀ c ∈ a, c ≠ ':') :
    splitColon (a ++ ':' :: b) = a :: splitColon b := by
  induction a with
  | nil => simp [splitColon]
  | cons x xs ih =>
    have hx : x ≠ ':' := h x (by simp)
    simp [splitColon, hx, ih (fun c hc => h c (by simp [hc]))]

theorem charset_no_colon : ∀ c ∈ Radix.Bech32.CHARSET, c ≠ ':' := by decide

theorem isDigit_ne_colon {c : Char} (h : isDigit c = true) : c ≠ ':' := by
  intro e; subst e; revert h; decide

theorem mem_ruidBody {h : Str} {c : Char} (hc : c ∈ ruidBody h) : c ∈ h ∨ c = '-' := by
  simp only [ruidBody, List.mem_append, List.mem_cons] at hc
  rcases hc with hc | rfl | hc | rfl | hc | rfl | hc
  · exact Or.inl (List.mem_of_mem_take hc)
  · exact Or.inr rfl
  · exact Or.inl (List.mem_of_mem_drop (List.mem_of_mem_take hc))
  · exact Or.inr rfl
  · exact Or.inl (List.mem_of_mem_drop (List.mem_of_mem_take hc))
  · exact Or.inr rfl
  · exact Or.inl (List.mem_of_mem_drop (List.mem_of_mem_take hc))

/-- the text of a valid local id contains no ':' -/
theorem printLocalId_no_colon (id : LocalId) (hv : id.Valid) : ∀ c ∈ printLocalId id, c ≠ ':' := by
  intro c hc
  cases id with
  | str cs =>
    simp only [printLocalId, List.mem_cons, List.mem_append, List.mem_singleton, List.not_mem_nil, or_false] at hc
    rcases hc with rfl | hc | rfl
    · decide
    · exact (isIdChar_ascii (List.all_eq_true.1 hv.2.2 c hc)).2
    · decide
  | int n =>
    simp only [printLocalId, List.mem_cons, List.mem_append, List.mem_singleton, List.not_mem_nil, or_false] at hc
    rcases hc with rfl | hc | rfl
    · decide
    · exact isDigit_ne_colon (printNat_digits n c hc)
    · decide
  | bytes b =>
    simp only [printLocalId, List.mem_cons, List.mem_append, List.mem_singleton, List.not_mem_nil, or_false] at hc
    rcases hc with rfl | hc | rfl
    · decide
    · exact (hexEncode_chars b c hc).2.2
    · decide
  | ruid b =>
    simp only [printLocalId, List.mem_cons, List.mem_append, List.mem_singleton, List.not_mem_nil, or_false] at hc
    rcases hc with rfl | hc | rfl
    · decide
    · rcases mem_ruidBody hc with h | rfl
      · exact (hexEncode_chars b c h).2.2
      · decide
    · decide

end Radix.AddrText
