/-
C28 — helper lemmas for `Model/AddrText.lean` (address layer, text primitives).
-/
import RadixModel.Model.AddrText
namespace Radix.AddrText
open Radix.Bech32 (Str Bytes Variant Case checkHrp checkHrpGo lowerStr utf8Len u8len isAsciiLower isAsciiUpper)

/-! ### `check_hrp` never answers `Upper` for an HRP containing a lower-case letter -/

theorem checkHrpGo_upper (cs : Str) : ∀ (l u : Bool), ¬ (l = true ∧ u = true) →
    checkHrpGo cs l u = some .upper → l = false ∧ ∀ c ∈ cs, isAsciiLower c = false := by
  induction cs with
  | nil =>
    intro l u hlu h
    cases l <;> cases u <;> simp_all [checkHrpGo]
  | cons c cs ih =>
    intro l u hlu h
    simp only [checkHrpGo] at h
    split at h
    · exact absurd h (by simp)
    · split at h
      · exact absurd h (by simp)
      · rename_i h2
        have := ih _ _ (by simpa using h2) h
        obtain ⟨h3, h4⟩ := this
        simp only [Bool.or_eq_false_iff] at h3
        refine ⟨h3.1, ?_⟩
        intro c' hc'
        simp only [List.mem_cons] at hc'
        rcases hc' with rfl | hc'
        · exact h3.2
        · exact h4 c' hc'

theorem checkHrp_not_upper (hrp : Str) (c : Char) (hc : c ∈ hrp) (hl : isAsciiLower c = true) :
    checkHrp hrp ≠ some .upper := by
  intro h
  unfold checkHrp at h
  split at h
  · exact absurd h (by simp)
  · have := (checkHrpGo_upper hrp false false (by simp) h).2 c hc
    rw [hl] at this
    exact absurd this (by simp)

/-- side condition on the regenerated table: every HRP prefix contains a lower-case ASCII letter -/
theorem table_prefix_has_lower :
    ∀ r ∈ Radix.Generated.C28.ENTITY_TABLE, r.2.any isAsciiLower = true := by decide

/-- side condition: no HRP prefix contains ':' -/
theorem table_prefix_no_colon :
    ∀ r ∈ Radix.Generated.C28.ENTITY_TABLE, r.2.all (· ≠ ':') = true := by decide

/-- side condition: the table keys are distinct bytes (so `find?` is a function of the byte) -/
theorem table_keys_lt : ∀ r ∈ Radix.Generated.C28.ENTITY_TABLE, r.1 < 256 := by decide

theorem entityPrefix_mem {b : UInt8} {pre : Str} (h : entityPrefix b = some pre) :
    (b.toNat, pre) ∈ Radix.Generated.C28.ENTITY_TABLE := by
  unfold entityPrefix at h
  cases hf : List.find? (fun r => r.1 == b.toNat) Radix.Generated.C28.ENTITY_TABLE with
  | none => rw [hf] at h; exact absurd h (by simp)
  | some r =>
    rw [hf] at h
    simp only [Option.map_some, Option.some.injEq] at h
    have hm := List.mem_of_find?_eq_some hf
    have hp := List.find?_some hf
    simp only [beq_iff_eq] at hp
    rw [← hp, ← h]
    exact hm

theorem entityPrefix_has_lower {b : UInt8} {pre : Str} (h : entityPrefix b = some pre) :
    ∃ c ∈ pre, isAsciiLower c = true := by
  have := table_prefix_has_lower _ (entityPrefix_mem h)
  simpa [List.any_eq_true] using this

/-- What a successful `encode` did. -/
theorem encodeAddr_ok {B : Codec} {sfx : Str} {data : Bytes} {t : Str}
    (h : encodeAddr B sfx data = .ok t) :
    ∃ b rest pre, data = b :: rest ∧ entityPrefix b = some pre ∧
      (checkHrp (pre ++ sfx) = some .lower ∨ checkHrp (pre ++ sfx) = some .none) ∧
      t = B.write (pre ++ sfx) data := by
  cases data with
  | nil => simp [encodeAddr] at h
  | cons b rest =>
    simp only [encodeAddr] at h
    cases hp : entityPrefix b with
    | none => simp [hp] at h
    | some pre =>
      simp only [hp, hrpFor] at h
      obtain ⟨c, hc, hl⟩ := entityPrefix_has_lower hp
      have hnu := checkHrp_not_upper (pre ++ sfx) c (List.mem_append_left _ hc) hl
      cases hk : checkHrp (pre ++ sfx) with
      | none => simp [hk] at h
      | some k =>
        cases k with
        | upper => exact absurd hk hnu
        | lower =>
          simp only [hk] at h
          exact ⟨b, rest, pre, rfl, hp, Or.inl hk, by cases h; rfl⟩
        | none =>
          simp only [hk] at h
          exact ⟨b, rest, pre, rfl, hp, Or.inr hk, by cases h; rfl⟩

end Radix.AddrText
