/-
Helper lemmas for the pool model: floor-division specifications of the PreciseDecimal/Decimal
operations on non-negative operands, and the integer core of the "no gain" argument.
-/
import RadixModel.Model.Pool
import Mathlib.Tactic.Linarith
import Mathlib.Tactic.Ring
import Mathlib.Tactic.Positivity

namespace Radix.Pool

theorem P18_pos : (0 : Int) < P18 := by unfold P18; decide
theorem P36_pos : (0 : Int) < P36 := by unfold P36; decide
theorem P36_eq : P36 = P18 * P18 := by unfold P36 P18; decide

theorem unitOf_pos (d : Nat) : 0 < unitOf d := by unfold unitOf; positivity

/-- truncating division of a non-negative numerator by a positive denominator is the floor -/
theorem tdiv_spec {a b : Int} (ha : 0 ≤ a) (hb : 0 < b) :
    a.tdiv b * b ≤ a ∧ a < (a.tdiv b + 1) * b ∧ 0 ≤ a.tdiv b := by
  rw [Int.tdiv_eq_ediv_of_nonneg ha]
  refine ⟨Int.ediv_mul_le a (ne_of_gt hb), Int.lt_ediv_add_one_mul_self a hb, Int.ediv_nonneg ha (le_of_lt hb)⟩

theorem pdMul_spec {a b c : Int} (h : pdMul a b = some c) (ha : 0 ≤ a) (hb : 0 ≤ b) :
    c * P36 ≤ a * b ∧ a * b < (c + 1) * P36 ∧ 0 ≤ c := by
  unfold pdMul at h
  simp only at h
  split at h
  · cases h; exact tdiv_spec (mul_nonneg ha hb) P36_pos
  · cases h

theorem pdDiv_spec {a b c : Int} (h : pdDiv a b = some c) (ha : 0 ≤ a) (hb : 0 < b) :
    c * b ≤ a * P36 ∧ a * P36 < (c + 1) * b ∧ 0 ≤ c := by
  unfold pdDiv at h
  split at h
  · cases h
  · simp only at h
    split at h
    · cases h; exact tdiv_spec (mul_nonneg ha (le_of_lt P36_pos)) hb
    · cases h

theorem pdToDec_spec {a c : Int} (h : pdToDec a = some c) (ha : 0 ≤ a) :
    c * P18 ≤ a ∧ a < (c + 1) * P18 ∧ 0 ≤ c := by
  unfold pdToDec at h
  simp only at h
  split at h
  · cases h; exact tdiv_spec ha P18_pos
  · cases h

theorem chk192_eq {x y : Int} (h : chk192 x = some y) : y = x := by
  unfold chk192 at h; split at h
  · cases h; rfl
  · cases h

/-- rounding down to the divisibility: a multiple of the unit in `(d - unit, d]` -/
theorem decRound_down_spec {d x : Int} {places : Nat} (h : decRound d places .toNegInf = some x) :
    x ≤ d ∧ d < x + unitOf places ∧ unitOf places ∣ x := by
  have hm := unitOf_pos places
  unfold decRound at h
  simp only at h
  split at h
  · rename_i hr
    cases h
    exact ⟨le_refl _, by linarith, Int.dvd_of_emod_eq_zero hr⟩
  · simp only [resolve] at h
    have hx := chk192_eq h
    have he : d.emod (unitOf places) = d % unitOf places := rfl
    rw [he] at hx
    have h0 := Int.emod_nonneg d (ne_of_gt hm)
    have h1 := Int.emod_lt_of_pos d hm
    refine ⟨by rw [hx]; linarith, by rw [hx]; linarith, ?_⟩
    rw [hx]
    exact ⟨d / unitOf places, by linarith [Int.mul_ediv_add_emod d (unitOf places)]⟩

theorem decRound_down_nonneg {d x : Int} {places : Nat} (h : decRound d places .toNegInf = some x)
    (hd : 0 ≤ d) : 0 ≤ x := by
  have hm := unitOf_pos places
  obtain ⟨_, h2, ⟨t, ht⟩⟩ := decRound_down_spec h
  by_contra hneg
  have hx : x < 0 := not_le.mp hneg
  rw [ht] at hx h2
  have : t < 0 := by
    by_contra ht0
    have : 0 ≤ unitOf places * t := mul_nonneg (le_of_lt hm) (not_lt.mp ht0)
    linarith
  have : t ≤ -1 := by omega
  have : unitOf places * t ≤ unitOf places * (-1) := mul_le_mul_of_nonneg_left this (le_of_lt hm)
  linarith

/-- two multiples of `m`: strictly larger means larger by at least `m` -/
theorem dvd_lt_step {m a o : Int} (hm : 0 < m) (ha : m ∣ a) (ho : m ∣ o) (h : a < o) : a + m ≤ o := by
  obtain ⟨x, rfl⟩ := ha
  obtain ⟨y, rfl⟩ := ho
  have : x < y := by
    by_contra hxy
    have : m * y ≤ m * x := mul_le_mul_of_nonneg_left (not_lt.mp hxy) (le_of_lt hm)
    linarith
  have : x + 1 ≤ y := by omega
  have : m * (x + 1) ≤ m * y := mul_le_mul_of_nonneg_left this (le_of_lt hm)
  linarith [mul_add m x 1, mul_one m]

/-- Integer core of "contribute then redeem never gains":
`k` is the contribution ratio (scaled by `P`), `a` the accepted amount (a multiple of the unit `m`
within one unit below `r*k`), `u` the minted units (at most `S*k`), `o` the redeemed amount (a multiple
of `m`, at most the pro-rata share of the new reserves `r + a` for `u` of `S + u` units). -/
theorem no_gain_core {o a m u S r k P : Int} (hP : 0 < P) (hS : 0 < S) (hu : 0 ≤ u) (hm : 0 < m)
    (hr : 0 ≤ r)
    (H2 : r * k < (a + m) * P) (H3 : u * P ≤ S * k) (H4 : o * (S + u) ≤ u * (r + a))
    (hmo : m ∣ o) (hma : m ∣ a) : o ≤ a := by
  by_contra hlt
  have hstep := dvd_lt_step hm hma hmo (not_le.mp hlt)
  -- u*r < S*(a+m)
  have e1 : u * P * r ≤ S * k * r := mul_le_mul_of_nonneg_right H3 hr
  have e2 : r * k * S < (a + m) * P * S := mul_lt_mul_of_pos_right H2 hS
  have e3 : (u * r) * P < ((a + m) * S) * P := by nlinarith
  have e4 : u * r < (a + m) * S := lt_of_mul_lt_mul_right e3 (le_of_lt hP)
  have hSu : 0 < S + u := by linarith
  have e5 : (a + m) * (S + u) ≤ o * (S + u) := mul_le_mul_of_nonneg_right hstep (le_of_lt hSu)
  have e6 : 0 ≤ u * m := mul_nonneg hu (le_of_lt hm)
  nlinarith

/-- chain of floors in `calculate_amount_owed` -/
theorem owed_chain {o od ow q u s r : Int}
    (h1 : q * (s * P18) ≤ u * P18 * P36) (h2 : ow * P36 ≤ q * (r * P18)) (h3 : od * P18 ≤ ow)
    (h4 : o ≤ od) (hs : 0 < s) (hr : 0 ≤ r) : o * s ≤ u * r := by
  have hp18 := P18_pos
  have hp36 := P36_pos
  have a1 : o * s ≤ od * s := mul_le_mul_of_nonneg_right h4 (le_of_lt hs)
  have a2 : od * P18 * s ≤ ow * s := mul_le_mul_of_nonneg_right h3 (le_of_lt hs)
  have a3 : ow * P36 * s ≤ q * (r * P18) * s := mul_le_mul_of_nonneg_right h2 (le_of_lt hs)
  have a4 : q * (s * P18) * r ≤ u * P18 * P36 * r := mul_le_mul_of_nonneg_right h1 hr
  have a1' : o * s * (P18 * P36) ≤ od * s * (P18 * P36) :=
    mul_le_mul_of_nonneg_right a1 (le_of_lt (mul_pos hp18 hp36))
  have a2' : od * P18 * s * P36 ≤ ow * s * P36 := mul_le_mul_of_nonneg_right a2 (le_of_lt hp36)
  have key : (o * s) * (P18 * P36) ≤ (u * r) * (P18 * P36) := by nlinarith
  exact le_of_mul_le_mul_right key (mul_pos hp18 hp36)

theorem pdOfDec_nonneg {d : Int} (h : 0 ≤ d) : 0 ≤ pdOfDec d := mul_nonneg h (le_of_lt P18_pos)
theorem pdOfDec_pos {d : Int} (h : 0 < d) : 0 < pdOfDec d := mul_pos h P18_pos

/-- Specification of `calculate_amount_owed` for one reserve. -/
theorem amountOwed_spec {u s r o : Int} {d : Nat} (h : amountOwed u s r d = .ok o)
    (hu : 0 ≤ u) (hs : 0 < s) (hr : 0 ≤ r) :
    0 ≤ o ∧ o * s ≤ u * r ∧ unitOf d ∣ o := by
  unfold amountOwed at h
  split at h
  · cases h
  · rename_i q hq
    split at h
    · cases h
    · rename_i ow how
      split at h
      · cases h
      · rename_i od hod
        have hq' := pdDiv_spec hq (pdOfDec_nonneg hu) (pdOfDec_pos hs)
        have how' := pdMul_spec how hq'.2.2 (pdOfDec_nonneg hr)
        have hod' := pdToDec_spec hod how'.2.2
        cases hdr : decRound od d .toNegInf with
        | none => rw [hdr] at h; cases h
        | some x =>
          rw [hdr] at h
          simp only [orErr] at h
          cases h
          have hx := decRound_down_spec hdr
          refine ⟨decRound_down_nonneg hdr hod'.2.2, ?_, hx.2.2⟩
          exact owed_chain (by unfold pdOfDec at hq'; exact hq'.1) (by unfold pdOfDec at how'; exact how'.1)
            hod'.1 hx.1 hs hr

/-! ### lists -/

def All2 {α β : Type} (P : α → β → Prop) : List α → List β → Prop
  | [], [] => True
  | a :: as, b :: bs => P a b ∧ All2 P as bs
  | _, _ => False

theorem All2.imp {α β : Type} {P Q : α → β → Prop} :
    ∀ {l : List α} {m : List β}, (∀ a ∈ l, ∀ b, P a b → Q a b) → All2 P l m → All2 Q l m
  | [], [], _, _ => trivial
  | [], _ :: _, _, h => h.elim
  | _ :: _, [], _, h => h.elim
  | a :: as, b :: bs, hpq, h =>
    ⟨hpq a (List.mem_cons_self ..) b h.1,
     All2.imp (fun x hx y => hpq x (List.mem_cons_of_mem _ hx) y) h.2⟩

theorem all2_map_right {α β : Type} {P : α → β → Prop} (f : α → β) :
    ∀ (l : List α), (∀ a ∈ l, P a (f a)) → All2 P l (l.map f)
  | [], _ => trivial
  | a :: as, h => ⟨h a (List.mem_cons_self ..), all2_map_right f as (fun x hx => h x (List.mem_cons_of_mem _ hx))⟩

/-- What a redeemer of `u` out of `s` units may receive from a reserve `r` of divisibility `d`. -/
def OwedOk (u s : Int) (rd : Int × Nat) (o : Int) : Prop :=
  0 ≤ o ∧ o * s ≤ u * rd.1 ∧ unitOf rd.2 ∣ o ∧ (u ≤ s → o ≤ rd.1)

theorem amountsOwed_all2 {u s : Int} {rs : List (Int × Nat)} {os : List Int}
    (h : amountsOwed u s rs = .ok os) (hu : 0 ≤ u) (hs : 0 < s) (hr : ∀ x ∈ rs, 0 ≤ x.1) :
    All2 (OwedOk u s) rs os := by
  induction rs generalizing os with
  | nil => simp only [amountsOwed] at h; cases h; trivial
  | cons x rest ih =>
    obtain ⟨r, d⟩ := x
    simp only [amountsOwed] at h
    split at h
    · cases h
    · rename_i o ho
      split at h
      · cases h
      · rename_i os' hos
        cases h
        have hr0 : 0 ≤ r := hr (r, d) (List.mem_cons_self ..)
        have sp := amountOwed_spec ho hu hs hr0
        refine ⟨⟨sp.1, sp.2.1, sp.2.2, ?_⟩, ih hos (fun x hx => hr x (List.mem_cons_of_mem _ hx))⟩
        intro hus
        have h1 : u * r ≤ s * r := mul_le_mul_of_nonneg_right hus hr0
        have sp2 : o * s ≤ u * r := sp.2.1
        have h2 : o * s ≤ r * s := by linarith [mul_comm s r]
        exact le_of_mul_le_mul_right h2 hs

theorem amountOwed_err {u s r : Int} {d : Nat} {e : Err} (h : amountOwed u s r d = .error e) :
    e = .overflow := by
  unfold amountOwed at h
  split at h
  · cases h; rfl
  · split at h
    · cases h; rfl
    · split at h
      · cases h; rfl
      · rename_i od _
        cases hd : decRound od d .toNegInf with
        | none => rw [hd] at h; simp only [orErr] at h; cases h; rfl
        | some x => rw [hd] at h; simp only [orErr] at h; cases h

theorem amountsOwed_err {u s : Int} : ∀ (rs : List (Int × Nat)) {e : Err},
    amountsOwed u s rs = .error e → e = .overflow
  | [], _, h => by simp [amountsOwed] at h
  | (r, d) :: rest, e, h => by
    simp only [amountsOwed] at h
    split at h
    · rename_i e' he; cases h; exact amountOwed_err he
    · split at h
      · rename_i e' he; cases h; exact amountsOwed_err rest he
      · cases h

theorem amountsOwed_ne_insufficient (u s : Int) (rs : List (Int × Nat)) :
    ¬ amountsOwed u s rs = .error .vaultInsufficient := by
  intro h; have := amountsOwed_err rs h; cases this

theorem sub_nonneg_of_all2 {u s : Int} (hus : u ≤ s) :
    ∀ (rs : List Int) (ds : List Nat) (os : List Int), All2 (OwedOk u s) (rs.zip ds) os →
      ∀ x ∈ subLists rs os, 0 ≤ x
  | [], _, _, _ => by intro x hx; simp [subLists] at hx
  | r :: rs', [], os, h => by
    cases os with
    | nil => intro x hx; simp [subLists] at hx
    | cons o os' => simp [All2] at h
  | r :: rs', d :: ds', os, h => by
    cases os with
    | nil => simp [All2] at h
    | cons o os' =>
      simp only [List.zip_cons_cons, All2] at h
      intro x hx
      simp only [subLists, List.mem_cons] at hx
      rcases hx with rfl | hx
      · have h3 : o ≤ r := h.1.2.2.2 hus
        linarith
      · exact sub_nonneg_of_all2 hus rs' ds' os' h.2 x hx

theorem redeem_ne_insufficient {p : Pool} {u : Int} (hu : 0 < u) (hus : u ≤ p.supply)
    (hr : ∀ r ∈ p.reserves, 0 ≤ r) : redeem p u ≠ .error .vaultInsufficient := by
  unfold redeem
  split
  · rename_i e he
    intro hc
    cases hc
    -- amountsOwed never reports vaultInsufficient
    exact absurd he (amountsOwed_ne_insufficient _ _ _)
  · rename_i os hos
    have hall := amountsOwed_all2 hos (le_of_lt hu) (lt_of_lt_of_le hu hus)
      (fun x hx => hr x.1 (List.of_mem_zip hx).1)
    have hnn := sub_nonneg_of_all2 hus p.reserves p.divs os hall
    split
    · intro hc; cases hc
    · split
      · rename_i hany
        exfalso
        rw [List.any_eq_true] at hany
        obtain ⟨x, hx, hlt⟩ := hany
        have := hnn x hx
        simp only [decide_eq_true_eq] at hlt
        linarith
      · intro hc; cases hc

/-! ### minting -/

theorem mintUnits_spec {s u s2 : Int} (h : mintUnits s u = .ok s2) : s2 = s + u ∧ 0 ≤ u := by
  unfold mintUnits at h
  split at h
  · cases h
  · split at h
    · cases h
    · split at h
      · cases h
      · cases h; exact ⟨rfl, by omega⟩

/-! ### one resource pool -/

/-- units minted by the one-resource pool in normal operation are at most pro rata: `u * r ≤ c * s` -/
theorem oneUnits_spec {s r c u : Int} (h : oneUnits s r c = .ok u) (hs : 0 < s) (hr : 0 ≤ r) (hc : 0 ≤ c) :
    0 < r ∧ u * r ≤ c * s := by
  have hp18 := P18_pos
  have hp36 := P36_pos
  have hs' : pdOfDec s > 0 := pdOfDec_pos hs
  unfold oneUnits at h
  simp only [hs', decide_true] at h
  by_cases hr0 : pdOfDec r > 0
  · simp only [hr0, decide_true] at h
    have hrpos : 0 < r := by
      unfold pdOfDec at hr0
      by_contra hn
      have : r ≤ 0 := not_lt.mp hn
      have : r * P18 ≤ 0 := mul_nonpos_of_nonpos_of_nonneg this (le_of_lt hp18)
      linarith
    refine ⟨hrpos, ?_⟩
    cases hd : pdDiv (pdOfDec c) (pdOfDec r) with
    | none => rw [hd] at h; cases h
    | some q =>
      rw [hd] at h
      simp only at h
      cases hm : pdMul q (pdOfDec s) with
      | none => rw [hm] at h; simp only [orErr] at h; cases h
      | some u' =>
        rw [hm] at h
        simp only [orErr] at h
        cases ht : pdToDec u' with
        | none => rw [ht] at h; cases h
        | some ud =>
          rw [ht] at h
          simp only at h
          split at h
          · cases h
          · cases h
            have d1 := pdDiv_spec hd (pdOfDec_nonneg hc) hr0
            have d2 := pdMul_spec hm d1.2.2 (le_of_lt hs')
            have d3 := pdToDec_spec ht d2.2.2
            unfold pdOfDec at d1 d2
            -- u*P18 ≤ u' ; u'*P36 ≤ q*(s*P18) ; q*(r*P18) ≤ c*P18*P36
            have e1 : u * P18 * P36 ≤ u' * P36 := mul_le_mul_of_nonneg_right d3.1 (le_of_lt hp36)
            have e2 : u * P18 * P36 * r ≤ q * (s * P18) * r :=
              mul_le_mul_of_nonneg_right (le_trans e1 d2.1) hr
            have e3 : q * (r * P18) * s ≤ c * P18 * P36 * s := mul_le_mul_of_nonneg_right d1.1 (le_of_lt hs)
            have key : (u * r) * (P18 * P36) ≤ (c * s) * (P18 * P36) := by nlinarith
            exact le_of_mul_le_mul_right key (mul_pos hp18 hp36)
  · simp only [hr0, decide_false] at h
    cases h

theorem oneUnits_empty {c u : Int} (h : oneUnits 0 0 c = .ok u) (hc : 0 ≤ c) : u = c := by
  unfold oneUnits at h
  simp only [pdOfDec, Int.zero_mul, gt_iff_lt, lt_self_iff_false, decide_false] at h
  cases ht : pdToDec (c * P18) with
  | none => rw [ht] at h; cases h
  | some ud =>
    rw [ht] at h
    simp only at h
    split at h
    · cases h
    · cases h
      have d3 := pdToDec_spec ht (mul_nonneg hc (le_of_lt P18_pos))
      have hp := P18_pos
      have a1 : u ≤ c := le_of_mul_le_mul_right d3.1 hp
      have a2 : c < u + 1 := lt_of_mul_lt_mul_right d3.2.1 (le_of_lt hp)
      omega

theorem one_no_gain {s r c o : Int} {d : Nat} {res : Contributed}
    (h : oneContribute s r c = .ok res) (hs : 0 ≤ s) (hr : 0 ≤ r) (hc : 0 ≤ c)
    (hreg : 0 < s ∨ r = 0)
    (ho : amountOwed (res.supply - s) res.supply (r + c) d = .ok o) : o ≤ c := by
  unfold oneContribute at h
  split at h
  · cases h
  · rename_i hc0
    cases hu : oneUnits s r c with
    | error e => rw [hu] at h; cases h
    | ok u =>
      rw [hu] at h
      simp only at h
      cases hm : mintUnits s u with
      | error e => rw [hm] at h; cases h
      | ok s2 =>
        rw [hm] at h
        cases h
        obtain ⟨hs2, hu0⟩ := mintUnits_spec hm
        simp only at ho
        have hcpos : 0 < c := lt_of_le_of_ne hc (Ne.symm hc0)
        rcases lt_or_eq_of_le hs with hspos | hs0
        · -- normal operation
          obtain ⟨hrpos, hur⟩ := oneUnits_spec hu hspos hr hc
          rw [hs2] at ho
          have e : s + u - s = u := by ring
          rw [e] at ho
          have sp := amountOwed_spec ho hu0 (by linarith) (by linarith)
          have h4 : o * (s + u) ≤ u * (r + c) := sp.2.1
          have hsu : 0 < s + u := by linarith
          have key : o * (s + u) ≤ c * (s + u) := by nlinarith
          exact le_of_mul_le_mul_right key hsu
        · -- empty pool
          subst hs0
          have hr0 : r = 0 := by rcases hreg with h | h; exact absurd h (lt_irrefl 0); exact h
          subst hr0
          have huc := oneUnits_empty hu hc
          subst huc
          rw [hs2] at ho
          simp only [Int.zero_add, Int.sub_zero] at ho
          have sp := amountOwed_spec ho hc hcpos hc
          have h4 : o * u ≤ u * u := sp.2.1
          exact le_of_mul_le_mul_right h4 hcpos

end Radix.Pool
