/-
Helper lemmas for the pool model: floor-division specifications of the PreciseDecimal/Decimal
operations on non-negative operands, and the integer core of the "no gain" argument.
-/
import RadixModel.Model.Pool
import Mathlib.Tactic.Linarith
import Mathlib.Tactic.Ring
import Mathlib.Tactic.Positivity

namespace Radix.Pool

theorem P18_pos : (0 : Int) < P18 := by unfold P18; decide
theorem P36_pos : (0 : Int) < P36 := by unfold P36; decide
theorem P36_eq : P36 = P18 * P18 := by unfold P36 P18; decide

theorem unitOf_pos (d : Nat) : 0 < unitOf d := by unfold unitOf; positivity

/-- truncating division of a non-negative numerator by a positive denominator is the floor -/
theorem tdiv_spec {a b : Int} (ha : 0 ≤ a) (hb : 0 < b) :
    a.tdiv b * b ≤ a ∧ a < (a.tdiv b + 1) * b ∧ 0 ≤ a.tdiv b := by
  rw [Int.tdiv_eq_ediv_of_nonneg ha]
  refine ⟨Int.ediv_mul_le a (ne_of_gt hb), Int.lt_ediv_add_one_mul_self a hb, Int.ediv_nonneg ha (le_of_lt hb)⟩

theorem pdMul_spec {a b c : Int} (h : pdMul a b = some c) (ha : 0 ≤ a) (hb : 0 ≤ b) :
    c * P36 ≤ a * b ∧ a * b < (c + 1) * P36 ∧ 0 ≤ c := by
  unfold pdMul at h
  simp only at h
  split at h
  · cases h; exact tdiv_spec (mul_nonneg ha hb) P36_pos
  · cases h

theorem pdDiv_spec {a b c : Int} (h : pdDiv a b = some c) (ha : 0 ≤ a) (hb : 0 < b) :
    c * b ≤ a * P36 ∧ a * P36 < (c + 1) * b ∧ 0 ≤ c := by
  unfold pdDiv at h
  split at h
  · cases h
  · simp only at h
    split at h
    · cases h; exact tdiv_spec (mul_nonneg ha (le_of_lt P36_pos)) hb
    · cases h

theorem pdToDec_spec {a c : Int} (h : pdToDec a = some c) (ha : 0 ≤ a) :
    c * P18 ≤ a ∧ a < (c + 1) * P18 ∧ 0 ≤ c := by
  unfold pdToDec at h
  simp only at h
  split at h
  · cases h; exact tdiv_spec ha P18_pos
  · cases h

theorem chk192_eq {x y : Int} (h : chk192 x = some y) : y = x := by
  unfold chk192 at h; split at h
  · cases h; rfl
  · cases h

/-- rounding down to the divisibility: a multiple of the unit in `(d - unit, d]` -/
theorem decRound_down_spec {d x : Int} {places : Nat} (h : decRound d places .toNegInf = some x) :
    x ≤ d ∧ d < x + unitOf places ∧ unitOf places ∣ x := by
  have hm := unitOf_pos places
  unfold decRound at h
  simp only at h
  split at h
  · rename_i hr
    cases h
    exact ⟨le_refl _, by linarith, Int.dvd_of_emod_eq_zero hr⟩
  · simp only [resolve] at h
    have hx := chk192_eq h
    have he : d.emod (unitOf places) = d % unitOf places := rfl
    rw [he] at hx
    have h0 := Int.emod_nonneg d (ne_of_gt hm)
    have h1 := Int.emod_lt_of_pos d hm
    refine ⟨by rw [hx]; linarith, by rw [hx]; linarith, ?_⟩
    rw [hx]
    exact ⟨d / unitOf places, by linarith [Int.mul_ediv_add_emod d (unitOf places)]⟩

theorem decRound_down_nonneg {d x : Int} {places : Nat} (h : decRound d places .toNegInf = some x)
    (hd : 0 ≤ d) : 0 ≤ x := by
  have hm := unitOf_pos places
  obtain ⟨_, h2, ⟨t, ht⟩⟩ := decRound_down_spec h
  by_contra hneg
  have hx : x < 0 := not_le.mp hneg
  rw [ht] at hx h2
  have : t < 0 := by
    by_contra ht0
    have : 0 ≤ unitOf places * t := mul_nonneg (le_of_lt hm) (not_lt.mp ht0)
    linarith
  have : t ≤ -1 := by omega
  have : unitOf places * t ≤ unitOf places * (-1) := mul_le_mul_of_nonneg_left this (le_of_lt hm)
  linarith

/-- two multiples of `m`: strictly larger means larger by at least `m` -/
theorem dvd_lt_step {m a o : Int} (hm : 0 < m) (ha : m ∣ a) (ho : m ∣ o) (h : a < o) : a + m ≤ o := by
  obtain ⟨x, rfl⟩ := ha
  obtain ⟨y, rfl⟩ := ho
  have : x < y := by
    by_contra hxy
    have : m * y ≤ m * x := mul_le_mul_of_nonneg_left (not_lt.mp hxy) (le_of_lt hm)
    linarith
  have : x + 1 ≤ y := by omega
  have : m * (x + 1) ≤ m * y := mul_le_mul_of_nonneg_left this (le_of_lt hm)
  linarith [mul_add m x 1, mul_one m]

/-- Integer core of "contribute then redeem never gains":
`k` is the contribution ratio (scaled by `P`), `a` the accepted amount (a multiple of the unit `m`
within one unit below `r*k`), `u` the minted units (at most `S*k`), `o` the redeemed amount (a multiple
of `m`, at most the pro-rata share of the new reserves `r + a` for `u` of `S + u` units). -/
theorem no_gain_core {o a m u S r k P : Int} (hP : 0 < P) (hS : 0 < S) (hu : 0 ≤ u) (hm : 0 < m)
    (hr : 0 ≤ r)
    (H2 : r * k < (a + m) * P) (H3 : u * P ≤ S * k) (H4 : o * (S + u) ≤ u * (r + a))
    (hmo : m ∣ o) (hma : m ∣ a) : o ≤ a := by
  by_contra hlt
  have hstep := dvd_lt_step hm hma hmo (not_le.mp hlt)
  -- u*r < S*(a+m)
  have e1 : u * P * r ≤ S * k * r := mul_le_mul_of_nonneg_right H3 hr
  have e2 : r * k * S < (a + m) * P * S := mul_lt_mul_of_pos_right H2 hS
  have e3 : (u * r) * P < ((a + m) * S) * P := by nlinarith
  have e4 : u * r < (a + m) * S := lt_of_mul_lt_mul_right e3 (le_of_lt hP)
  have hSu : 0 < S + u := by linarith
  have e5 : (a + m) * (S + u) ≤ o * (S + u) := mul_le_mul_of_nonneg_right hstep (le_of_lt hSu)
  have e6 : 0 ≤ u * m := mul_nonneg hu (le_of_lt hm)
  nlinarith

/-- chain of floors in `calculate_amount_owed` -/
theorem owed_chain {o od ow q u s r : Int}
    (h1 : q * (s * P18) ≤ u * P18 * P36) (h2 : ow * P36 ≤ q * (r * P18)) (h3 : od * P18 ≤ ow)
    (h4 : o ≤ od) (hs : 0 < s) (hr : 0 ≤ r) : o * s ≤ u * r := by
  have hp18 := P18_pos
  have hp36 := P36_pos
  have a1 : o * s ≤ od * s := mul_le_mul_of_nonneg_right h4 (le_of_lt hs)
  have a2 : od * P18 * s ≤ ow * s := mul_le_mul_of_nonneg_right h3 (le_of_lt hs)
  have a3 : ow * P36 * s ≤ q * (r * P18) * s := mul_le_mul_of_nonneg_right h2 (le_of_lt hs)
  have a4 : q * (s * P18) * r ≤ u * P18 * P36 * r := mul_le_mul_of_nonneg_right h1 hr
  have a1' : o * s * (P18 * P36) ≤ od * s * (P18 * P36) :=
    mul_le_mul_of_nonneg_right a1 (le_of_lt (mul_pos hp18 hp36))
  have a2' : od * P18 * s * P36 ≤ ow * s * P36 := mul_le_mul_of_nonneg_right a2 (le_of_lt hp36)
  have key : (o * s) * (P18 * P36) ≤ (u * r) * (P18 * P36) := by nlinarith
  exact le_of_mul_le_mul_right key (mul_pos hp18 hp36)

theorem pdOfDec_nonneg {d : Int} (h : 0 ≤ d) : 0 ≤ pdOfDec d := mul_nonneg h (le_of_lt P18_pos)
theorem pdOfDec_pos {d : Int} (h : 0 < d) : 0 < pdOfDec d := mul_pos h P18_pos

/-- Specification of `calculate_amount_owed` for one reserve. -/
theorem amountOwed_spec {u s r o : Int} {d : Nat} (h : amountOwed u s r d = .ok o)
    (hu : 0 ≤ u) (hs : 0 < s) (hr : 0 ≤ r) :
    0 ≤ o ∧ o * s ≤ u * r ∧ unitOf d ∣ o := by
  unfold amountOwed at h
  split at h
  · cases h
  · rename_i q hq
    split at h
    · cases h
    · rename_i ow how
      split at h
      · cases h
      · rename_i od hod
        have hq' := pdDiv_spec hq (pdOfDec_nonneg hu) (pdOfDec_pos hs)
        have how' := pdMul_spec how hq'.2.2 (pdOfDec_nonneg hr)
        have hod' := pdToDec_spec hod how'.2.2
        cases hdr : decRound od d .toNegInf with
        | none => rw [hdr] at h; cases h
        | some x =>
          rw [hdr] at h
          simp only [orErr] at h
          cases h
          have hx := decRound_down_spec hdr
          refine ⟨decRound_down_nonneg hdr hod'.2.2, ?_, hx.2.2⟩
          exact owed_chain (by unfold pdOfDec at hq'; exact hq'.1) (by unfold pdOfDec at how'; exact how'.1)
            hod'.1 hx.1 hs hr

end Radix.Pool
