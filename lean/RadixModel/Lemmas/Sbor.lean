/-
C20/C21 — lemmas about the SBOR value codec model (`RadixModel/Model/Sbor.lean`): little-endian
integers, value kinds, primitive readers, and the two structural inductions
(decode ∘ encode, encode ∘ decode) that the property theorems in `Props/C20.lean` use.
-/
import RadixModel.Model.Sbor
import RadixModel.Lemmas.SborSize

set_option linter.unusedSimpArgs false
set_option linter.unusedVariables false

namespace Radix.Sbor
open Radix.Generated

/-! ### little-endian bytes -/

theorem leBytes_length (k n : Nat) : (leBytes k n).length = k := by
  induction k generalizing n with
  | zero => rfl
  | succ k ih => simp [leBytes, ih]

theorem leVal_lt (bs : Bytes) : leVal bs < 256 ^ bs.length := by
  induction bs with
  | nil => simp [leVal]
  | cons b bs ih =>
    have := UInt8.toNat_lt b
    simp only [leVal, List.length_cons, Nat.pow_succ]
    omega

theorem leVal_leBytes (k n : Nat) : leVal (leBytes k n) = n % 256 ^ k := by
  induction k generalizing n with
  | zero => simp [leBytes, leVal, Nat.mod_one]
  | succ k ih =>
    simp only [leBytes, leVal, ih, Nat.pow_succ]
    rw [UInt8.toNat_ofNat']
    have h1 : n % 256 % 2 ^ 8 = n % 256 := by omega
    rw [h1, Nat.mul_comm (256 ^ k) 256, Nat.mod_mul]

theorem leBytes_leVal (bs : Bytes) : leBytes bs.length (leVal bs) = bs := by
  induction bs with
  | nil => rfl
  | cons b bs ih =>
    have := UInt8.toNat_lt b
    simp only [List.length_cons, leBytes, leVal]
    have h1 : (b.toNat + 256 * leVal bs) % 256 = b.toNat := by omega
    have h2 : (b.toNat + 256 * leVal bs) / 256 = leVal bs := by omega
    rw [h1, h2, ih, UInt8.ofNat_toNat]

theorem pow256 (w : Nat) : 2 ^ (8 * w) = 256 ^ w := by
  rw [Nat.pow_mul]

/-! ### value kinds -/

/-- Laws of a `CustomValueKind` implementation. -/
structure KindCodec.Lawful {X : Type} (kc : KindCodec X) : Prop where
  of_to : ∀ x, kc.ofU8 (kc.toU8 x) = some x
  to_of : ∀ b x, kc.ofU8 b = some x → kc.toU8 x = b
  ge_start : ∀ x, (kc.toU8 x).toNat ≥ Sbor.CUSTOM_VALUE_KIND_START

theorem IntK.toNat_lt (k : IntK) : k.toNat < 128 := by
  cases k <;> decide

theorem VK.ofU8_toU8 {X : Type} (kc : KindCodec X) (hl : kc.Lawful) (k : VK X) :
    VK.ofU8 kc (VK.toU8 kc k) = some k := by
  cases k with
  | custom x =>
    have h := hl.ge_start x
    simp only [Sbor.CUSTOM_VALUE_KIND_START] at h
    simp only [VK.toU8, VK.ofU8, Sbor.VALUE_KIND_BOOL, Sbor.VALUE_KIND_I8, Sbor.VALUE_KIND_I16,
      Sbor.VALUE_KIND_I32, Sbor.VALUE_KIND_I64, Sbor.VALUE_KIND_I128, Sbor.VALUE_KIND_U8,
      Sbor.VALUE_KIND_U16, Sbor.VALUE_KIND_U32, Sbor.VALUE_KIND_U64, Sbor.VALUE_KIND_U128,
      Sbor.VALUE_KIND_STRING, Sbor.VALUE_KIND_TUPLE, Sbor.VALUE_KIND_ENUM, Sbor.VALUE_KIND_ARRAY,
      Sbor.VALUE_KIND_MAP, Sbor.CUSTOM_VALUE_KIND_START]
    have e : ∀ c : Nat, c < 128 → ¬ ((kc.toU8 x).toNat = c) := by intro c hc; omega
    simp [e, h, hl.of_to]
  | int k => cases k <;> rfl
  | _ => rfl

theorem VK.toU8_of_ofU8 {X : Type} (kc : KindCodec X) (hl : kc.Lawful) (b : UInt8) (k : VK X)
    (h : VK.ofU8 kc b = some k) : VK.toU8 kc k = b := by
  unfold VK.ofU8 at h
  have hb : ∀ c : Nat, c < 256 → b.toNat = c → UInt8.ofNat c = b := by
    intro c _ e; rw [← e, UInt8.ofNat_toNat]
  by_cases c0 : b.toNat = Sbor.VALUE_KIND_BOOL
  · rw [if_pos c0] at h; simp only [Option.some.injEq] at h; subst h
    simp only [VK.toU8, IntK.toNat]; exact hb _ (by decide) c0
  rw [if_neg c0] at h
  by_cases c1 : b.toNat = Sbor.VALUE_KIND_I8
  · rw [if_pos c1] at h; simp only [Option.some.injEq] at h; subst h
    simp only [VK.toU8, IntK.toNat]; exact hb _ (by decide) c1
  rw [if_neg c1] at h
  by_cases c2 : b.toNat = Sbor.VALUE_KIND_I16
  · rw [if_pos c2] at h; simp only [Option.some.injEq] at h; subst h
    simp only [VK.toU8, IntK.toNat]; exact hb _ (by decide) c2
  rw [if_neg c2] at h
  by_cases c3 : b.toNat = Sbor.VALUE_KIND_I32
  · rw [if_pos c3] at h; simp only [Option.some.injEq] at h; subst h
    simp only [VK.toU8, IntK.toNat]; exact hb _ (by decide) c3
  rw [if_neg c3] at h
  by_cases c4 : b.toNat = Sbor.VALUE_KIND_I64
  · rw [if_pos c4] at h; simp only [Option.some.injEq] at h; subst h
    simp only [VK.toU8, IntK.toNat]; exact hb _ (by decide) c4
  rw [if_neg c4] at h
  by_cases c5 : b.toNat = Sbor.VALUE_KIND_I128
  · rw [if_pos c5] at h; simp only [Option.some.injEq] at h; subst h
    simp only [VK.toU8, IntK.toNat]; exact hb _ (by decide) c5
  rw [if_neg c5] at h
  by_cases c6 : b.toNat = Sbor.VALUE_KIND_U8
  · rw [if_pos c6] at h; simp only [Option.some.injEq] at h; subst h
    simp only [VK.toU8, IntK.toNat]; exact hb _ (by decide) c6
  rw [if_neg c6] at h
  by_cases c7 : b.toNat = Sbor.VALUE_KIND_U16
  · rw [if_pos c7] at h; simp only [Option.some.injEq] at h; subst h
    simp only [VK.toU8, IntK.toNat]; exact hb _ (by decide) c7
  rw [if_neg c7] at h
  by_cases c8 : b.toNat = Sbor.VALUE_KIND_U32
  · rw [if_pos c8] at h; simp only [Option.some.injEq] at h; subst h
    simp only [VK.toU8, IntK.toNat]; exact hb _ (by decide) c8
  rw [if_neg c8] at h
  by_cases c9 : b.toNat = Sbor.VALUE_KIND_U64
  · rw [if_pos c9] at h; simp only [Option.some.injEq] at h; subst h
    simp only [VK.toU8, IntK.toNat]; exact hb _ (by decide) c9
  rw [if_neg c9] at h
  by_cases c10 : b.toNat = Sbor.VALUE_KIND_U128
  · rw [if_pos c10] at h; simp only [Option.some.injEq] at h; subst h
    simp only [VK.toU8, IntK.toNat]; exact hb _ (by decide) c10
  rw [if_neg c10] at h
  by_cases c11 : b.toNat = Sbor.VALUE_KIND_STRING
  · rw [if_pos c11] at h; simp only [Option.some.injEq] at h; subst h
    simp only [VK.toU8, IntK.toNat]; exact hb _ (by decide) c11
  rw [if_neg c11] at h
  by_cases c12 : b.toNat = Sbor.VALUE_KIND_TUPLE
  · rw [if_pos c12] at h; simp only [Option.some.injEq] at h; subst h
    simp only [VK.toU8, IntK.toNat]; exact hb _ (by decide) c12
  rw [if_neg c12] at h
  by_cases c13 : b.toNat = Sbor.VALUE_KIND_ENUM
  · rw [if_pos c13] at h; simp only [Option.some.injEq] at h; subst h
    simp only [VK.toU8, IntK.toNat]; exact hb _ (by decide) c13
  rw [if_neg c13] at h
  by_cases c14 : b.toNat = Sbor.VALUE_KIND_ARRAY
  · rw [if_pos c14] at h; simp only [Option.some.injEq] at h; subst h
    simp only [VK.toU8, IntK.toNat]; exact hb _ (by decide) c14
  rw [if_neg c14] at h
  by_cases c15 : b.toNat = Sbor.VALUE_KIND_MAP
  · rw [if_pos c15] at h; simp only [Option.some.injEq] at h; subst h
    simp only [VK.toU8, IntK.toNat]; exact hb _ (by decide) c15
  rw [if_neg c15] at h
  by_cases cc : Sbor.CUSTOM_VALUE_KIND_START ≤ b.toNat
  · rw [if_pos cc] at h; simp only [Option.map_eq_some_iff] at h; obtain ⟨x, hx, rfl⟩ := h
    simp only [VK.toU8]; exact hl.to_of _ _ hx
  · rw [if_neg cc] at h; simp at h

theorem readValueKind_toU8 {X : Type} (kc : KindCodec X) (hl : kc.Lawful) (k : VK X) (rest : Bytes) :
    readValueKind kc (VK.toU8 kc k :: rest) = .ok (k, rest) := by
  simp [readValueKind, readByte, VK.ofU8_toU8 kc hl]

theorem readValueKind_ok {X : Type} (kc : KindCodec X) (hl : kc.Lawful) (bs : Bytes) (k : VK X) (rest : Bytes)
    (h : readValueKind kc bs = .ok (k, rest)) : bs = VK.toU8 kc k :: rest := by
  unfold readValueKind at h
  cases bs with
  | nil => simp [readByte] at h
  | cons b t =>
    simp only [readByte] at h
    split at h
    · rename_i vk hv
      simp at h
      obtain ⟨rfl, rfl⟩ := h
      rw [VK.toU8_of_ofU8 kc hl _ _ hv]
    · simp at h

/-! ### primitive readers -/

theorem readSlice_append (n : Nat) (a rest : Bytes) (h : a.length = n) :
    readSlice n (a ++ rest) = .ok (a, rest) := by
  unfold readSlice
  have : ¬ ((a ++ rest).length < n) := by simp; omega
  simp [this, ← h]

theorem readSlice_ok (n : Nat) (bs a rest : Bytes) (h : readSlice n bs = .ok (a, rest)) :
    bs = a ++ rest ∧ a.length = n := by
  unfold readSlice at h
  split at h
  · simp at h
  · rename_i hl
    simp at h
    obtain ⟨rfl, rfl⟩ := h
    simp at hl
    simp [List.length_take]; omega

theorem decBool_enc (b : Bool) (rest : Bytes) :
    decBool ((if b then 1 else 0) :: rest) = .ok (b, rest) := by
  cases b <;> simp [decBool, readByte]

theorem decBool_ok (bs : Bytes) (b : Bool) (rest : Bytes) (h : decBool bs = .ok (b, rest)) :
    bs = (if b then 1 else 0) :: rest := by
  unfold decBool at h
  cases bs with
  | nil => simp [readByte] at h
  | cons x t =>
    simp only [readByte] at h
    by_cases h0 : x = 0
    · simp [h0] at h; obtain ⟨rfl, rfl⟩ := h; simp [h0]
    · by_cases h1 : x = 1
      · simp [h1] at h; obtain ⟨rfl, rfl⟩ := h; simp [h1]
      · simp [h0, h1] at h

theorem decInt_enc (k : IntK) (x : BitVec (8 * k.width)) (rest : Bytes) :
    decInt k (leBytes k.width x.toNat ++ rest) = .ok (x, rest) := by
  unfold decInt
  rw [readSlice_append _ _ _ (leBytes_length _ _)]
  simp only [leVal_leBytes]
  have h : x.toNat < 256 ^ k.width := by rw [← pow256]; exact x.isLt
  rw [Nat.mod_eq_of_lt h, BitVec.ofNat_toNat]
  simp

theorem decInt_ok (k : IntK) (bs : Bytes) (x : BitVec (8 * k.width)) (rest : Bytes)
    (h : decInt k bs = .ok (x, rest)) : bs = leBytes k.width x.toNat ++ rest := by
  unfold decInt at h
  split at h
  · simp at h
  · rename_i sl bs' hs
    simp at h
    obtain ⟨rfl, rfl⟩ := h
    obtain ⟨rfl, hl⟩ := readSlice_ok _ _ _ _ hs
    have hlt : leVal sl < 2 ^ (8 * k.width) := by rw [pow256, ← hl]; exact leVal_lt sl
    rw [BitVec.toNat_ofNat, Nat.mod_eq_of_lt hlt, ← hl, leBytes_leVal]

theorem decString_enc (utf8 : Bytes → Bool) (s rest : Bytes) (hu : utf8 s = true)
    (hl : s.length ≤ Sbor.SBOR_MAX_SIZE) :
    decString utf8 (sizeBytes s.length ++ (s ++ rest)) = .ok (s, rest) := by
  unfold decString
  rw [readSize_sizeBytes _ _ hl]
  simp only []
  rw [readSlice_append _ _ _ rfl]
  simp [hu]

theorem decString_ok (utf8 : Bytes → Bool) (bs s rest : Bytes) (h : decString utf8 bs = .ok (s, rest)) :
    utf8 s = true ∧ s.length ≤ Sbor.SBOR_MAX_SIZE ∧ bs = sizeBytes s.length ++ (s ++ rest) := by
  unfold decString at h
  split at h
  · simp at h
  · rename_i len bs1 h1
    split at h
    · simp at h
    · rename_i sl bs2 h2
      split at h
      · rename_i hu
        simp at h
        obtain ⟨rfl, rfl⟩ := h
        obtain ⟨hmax, rfl⟩ := readSize_canonical _ _ _ h1
        obtain ⟨rfl, hl⟩ := readSlice_ok _ _ _ _ h2
        subst hl
        exact ⟨hu, hmax, rfl⟩
      · simp at h

/-! ### sequences -/

theorem encMany_nil {α : Type} (g : α → Except EErr Bytes) : encMany g [] = .ok [] := rfl

theorem encMany_cons_ok {α : Type} (g : α → Except EErr Bytes) (a : α) (as : List α) (bs : Bytes) :
    encMany g (a :: as) = .ok bs ↔ ∃ b t, g a = .ok b ∧ encMany g as = .ok t ∧ bs = b ++ t := by
  simp only [encMany]
  cases hg : g a with
  | error e => simp
  | ok b =>
    cases hm : encMany g as with
    | error e => simp
    | ok t =>
      simp
      constructor
      · intro h; exact h.symm
      · intro h; exact h.symm

/-- decode ∘ encode for a sequence, from the element-wise statement. -/
theorem decMany_of_encMany {α : Type} (g : α → Except EErr Bytes) (f : Bytes → R α) (P : α → Prop)
    (hel : ∀ a, P a → ∀ b rest, g a = .ok b → f (b ++ rest) = .ok (a, rest))
    (as : List α) (hP : ∀ a ∈ as, P a) (bs rest : Bytes) (h : encMany g as = .ok bs) :
    decMany f as.length (bs ++ rest) = .ok (as, rest) := by
  induction as generalizing bs with
  | nil =>
    simp [encMany] at h
    subst h
    simp [decMany]
  | cons a as ih =>
    obtain ⟨b, t, hb, ht, rfl⟩ := (encMany_cons_ok g a as bs).1 h
    simp only [List.length_cons, decMany, List.append_assoc]
    rw [hel a (hP a (by simp)) b (t ++ rest) hb]
    simp only []
    rw [ih (fun x hx => hP x (by simp [hx])) t ht]

/-- encode ∘ decode for a sequence, from the element-wise statement. -/
theorem encMany_of_decMany {α : Type} (g : α → Except EErr Bytes) (f : Bytes → R α) (P : α → Prop)
    (hel : ∀ bs a rest, f bs = .ok (a, rest) → P a ∧ ∃ b, g a = .ok b ∧ bs = b ++ rest)
    (n : Nat) (bs : Bytes) (as : List α) (rest : Bytes) (h : decMany f n bs = .ok (as, rest)) :
    as.length = n ∧ (∀ a ∈ as, P a) ∧ ∃ body, encMany g as = .ok body ∧ bs = body ++ rest := by
  induction n generalizing bs as with
  | zero =>
    simp [decMany] at h
    obtain ⟨rfl, rfl⟩ := h
    simp [encMany]
  | succ n ih =>
    simp only [decMany] at h
    split at h
    · simp at h
    · rename_i a bs' hf
      split at h
      · simp at h
      · rename_i as' bs'' hm
        simp at h
        obtain ⟨rfl, rfl⟩ := h
        obtain ⟨hPa, b, hb, rfl⟩ := hel _ _ _ hf
        obtain ⟨hlen, hPs, body, hbody, rfl⟩ := ih _ _ hm
        refine ⟨by simp [hlen], ?_, b ++ body, ?_, by simp⟩
        · intro x hx
          simp at hx
          rcases hx with rfl | hx
          · exact hPa
          · exact hPs x hx
        · exact (encMany_cons_ok g a as' _).2 ⟨b, body, hb, hbody, rfl⟩

/-! ### well-formed values and lawful flavours -/

mutual
/-- The invariants the Rust types give for free: `String`s are UTF-8, custom values satisfy the
flavour's content predicate `wfc` (fixed lengths, validated ids). -/
def Value.WF {X Y : Type} (utf8 : Bytes → Bool) (wfc : Y → Prop) : Value X Y → Prop
  | .string s => utf8 s = true
  | .enum _ fs => WFList utf8 wfc fs
  | .array _ es => WFList utf8 wfc es
  | .tuple fs => WFList utf8 wfc fs
  | .map _ _ es => WFEntries utf8 wfc es
  | .custom c => wfc c
  | _ => True
def WFList {X Y : Type} (utf8 : Bytes → Bool) (wfc : Y → Prop) : List (Value X Y) → Prop
  | [] => True
  | v :: vs => v.WF utf8 wfc ∧ WFList utf8 wfc vs
def WFEntries {X Y : Type} (utf8 : Bytes → Bool) (wfc : Y → Prop) : List (Value X Y × Value X Y) → Prop
  | [] => True
  | (k, v) :: es => (k.WF utf8 wfc ∧ v.WF utf8 wfc) ∧ WFEntries utf8 wfc es
end

theorem WFList_iff {X Y : Type} (utf8 : Bytes → Bool) (wfc : Y → Prop) (vs : List (Value X Y)) :
    WFList utf8 wfc vs ↔ ∀ v ∈ vs, v.WF utf8 wfc := by
  induction vs with
  | nil => simp [WFList]
  | cons v vs ih => simp [WFList, ih]

theorem WFEntries_iff {X Y : Type} (utf8 : Bytes → Bool) (wfc : Y → Prop) (es : List (Value X Y × Value X Y)) :
    WFEntries utf8 wfc es ↔ ∀ e ∈ es, e.1.WF utf8 wfc ∧ e.2.WF utf8 wfc := by
  induction es with
  | nil => simp [WFEntries]
  | cons e es ih =>
    obtain ⟨k, v⟩ := e
    simp [WFEntries, ih]

/-- Laws a flavour's custom codec must satisfy (proved for basic, Scrypto and manifest in
`Lemmas/SborFlavours.lean`). `wfc` is the content predicate of custom values. -/
structure Flavour.Lawful {X Y : Type} (F : Flavour X Y) (wfc : Y → Prop) : Prop where
  kinds : F.kc.Lawful
  dec_enc : ∀ c enc rest, wfc c → F.encodeCustom c = .ok enc →
    F.decodeCustom (F.customKind c) (enc ++ rest) = .ok (c, rest)
  enc_dec : ∀ x bs c rest, F.decodeCustom x bs = .ok (c, rest) →
    wfc c ∧ F.customKind c = x ∧ ∃ enc, F.encodeCustom c = .ok enc ∧ bs = enc ++ rest


/-! ### decode ∘ encode -/

theorem decBody_encBody {X Y : Type} [DecidableEq X] (F : Flavour X Y) (wfc : Y → Prop) (hF : F.Lawful wfc)
    (max max' : Nat) (rem : Nat) :
    ∀ (v : Value X Y) (body rest : Bytes), v.WF F.utf8 wfc → encBody F max rem v = .ok body →
      decBody F max' rem (v.kind F) (body ++ rest) = .ok (v, rest) := by
  induction rem with
  | zero => intro v body rest _ h; simp [encBody] at h
  | succ rem ih =>
    intro v body rest hwf h
    have hk := hF.kinds
    cases v with
    | bool b =>
      simp [encBody] at h
      subst h
      simp [decBody, Value.kind, decBool_enc]
    | int k x =>
      simp [encBody] at h
      subst h
      simp [decBody, Value.kind, decInt_enc]
    | string s =>
      simp only [encBody] at h
      split at h
      · simp at h
      · rename_i sz hsz
        simp at h
        subst h
        obtain ⟨hmax, rfl⟩ := (writeSize_ok_iff _ _).1 hsz
        simp only [Value.WF] at hwf
        simp only [decBody, Value.kind, List.append_assoc, decString_enc F.utf8 s rest hwf hmax]
    | enum d fs =>
      simp only [encBody] at h
      split at h
      · simp at h
      · rename_i sz hsz
        split at h
        · simp at h
        · rename_i b hb
          simp at h
          subst h
          obtain ⟨hmax, rfl⟩ := (writeSize_ok_iff _ _).1 hsz
          simp only [Value.WF] at hwf
          simp only [decBody, Value.kind, List.cons_append, List.append_assoc, readByte,
            readSize_sizeBytes _ _ hmax]
          rw [decMany_of_encMany _ _ (fun a => a.WF F.utf8 wfc) ?_ fs ((WFList_iff _ _ _).1 hwf) b rest hb]
          intro a ha b' rest' hb'
          simp only [encField] at hb'
          split at hb'
          · simp at hb'
          · rename_i b'' hb''
            simp at hb'
            subst hb'
            simp only [decField, List.cons_append, readValueKind_toU8 F.kc hk]
            exact ih a b'' rest' ha hb''
    | tuple fs =>
      simp only [encBody] at h
      split at h
      · simp at h
      · rename_i sz hsz
        split at h
        · simp at h
        · rename_i b hb
          simp at h
          subst h
          obtain ⟨hmax, rfl⟩ := (writeSize_ok_iff _ _).1 hsz
          simp only [Value.WF] at hwf
          simp only [decBody, Value.kind, List.append_assoc, readSize_sizeBytes _ _ hmax]
          rw [decMany_of_encMany _ _ (fun a => a.WF F.utf8 wfc) ?_ fs ((WFList_iff _ _ _).1 hwf) b rest hb]
          intro a ha b' rest' hb'
          simp only [encField] at hb'
          split at hb'
          · simp at hb'
          · rename_i b'' hb''
            simp at hb'
            subst hb'
            simp only [decField, List.cons_append, readValueKind_toU8 F.kc hk]
            exact ih a b'' rest' ha hb''
    | array ek es =>
      simp only [encBody] at h
      split at h
      · simp at h
      · rename_i sz hsz
        split at h
        · simp at h
        · rename_i b hb
          simp at h
          subst h
          obtain ⟨hmax, rfl⟩ := (writeSize_ok_iff _ _).1 hsz
          simp only [Value.WF] at hwf
          simp only [decBody, Value.kind, List.cons_append, List.append_assoc,
            readValueKind_toU8 F.kc hk, readSize_sizeBytes _ _ hmax]
          rw [decMany_of_encMany _ (decBody F max' rem ek) (fun a => a.WF F.utf8 wfc) ?_ es
            ((WFList_iff _ _ _).1 hwf) b rest hb]
          intro a ha b' rest' hb'
          simp only [encElem] at hb'
          split at hb'
          · simp at hb'
          · rename_i hkind
            simp at hkind
            rw [← hkind]
            exact ih a b' rest' ha hb'
    | map kk vk es =>
      simp only [encBody] at h
      split at h
      · simp at h
      · rename_i sz hsz
        split at h
        · simp at h
        · rename_i b hb
          simp at h
          subst h
          obtain ⟨hmax, rfl⟩ := (writeSize_ok_iff _ _).1 hsz
          simp only [Value.WF] at hwf
          simp only [decBody, Value.kind, List.cons_append, List.append_assoc,
            readValueKind_toU8 F.kc hk, readSize_sizeBytes _ _ hmax]
          rw [decMany_of_encMany _ _ (fun (e : Value X Y × Value X Y) => e.1.WF F.utf8 wfc ∧ e.2.WF F.utf8 wfc) ?_ es
            ((WFEntries_iff _ _ _).1 hwf) b rest hb]
          intro e he b' rest' hb'
          simp only [encEntry] at hb'
          split at hb'
          · simp at hb'
          · rename_i hk1
            simp at hk1
            split at hb'
            · simp at hb'
            · rename_i kb hkb
              split at hb'
              · simp at hb'
              · rename_i hk2
                simp at hk2
                split at hb'
                · simp at hb'
                · rename_i vb hvb
                  simp at hb'
                  subst hb'
                  have e1 := ih e.1 kb (vb ++ rest') he.1 hkb
                  have e2 := ih e.2 vb rest' he.2 hvb
                  rw [hk1] at e1
                  rw [hk2] at e2
                  simp only [decEntry, List.append_assoc, e1, e2]
    | custom c =>
      simp only [encBody] at h
      simp only [Value.WF] at hwf
      simp only [decBody, Value.kind, hF.dec_enc c body rest hwf h]

/-! ### encode ∘ decode -/

theorem encBody_decBody {X Y : Type} [DecidableEq X] (F : Flavour X Y) (wfc : Y → Prop) (hF : F.Lawful wfc)
    (max max' : Nat) (rem : Nat) :
    ∀ (vk : VK X) (bs : Bytes) (v : Value X Y) (rest : Bytes), decBody F max rem vk bs = .ok (v, rest) →
      v.kind F = vk ∧ v.WF F.utf8 wfc ∧ ∃ body, encBody F max' rem v = .ok body ∧ bs = body ++ rest := by
  induction rem with
  | zero => intro vk bs v rest h; simp [decBody] at h
  | succ rem ih =>
    intro vk bs v rest h
    have hk := hF.kinds
    have hfield : ∀ (bs : Bytes) (a : Value X Y) (rest' : Bytes),
        decField F (decBody F max rem) bs = .ok (a, rest') →
        a.WF F.utf8 wfc ∧ ∃ b, encField F (encBody F max' rem) a = .ok b ∧ bs = b ++ rest' := by
      intro bs a rest' ha
      simp only [decField] at ha
      split at ha
      · simp at ha
      · rename_i vk' bs' hvk
        have := readValueKind_ok F.kc hk _ _ _ hvk
        subst this
        obtain ⟨hkind, hwf, b, hb, rfl⟩ := ih _ _ _ _ ha
        refine ⟨hwf, VK.toU8 F.kc vk' :: b, ?_, by simp⟩
        simp [encField, hb, hkind]
    have helem : ∀ (ek : VK X) (bs : Bytes) (a : Value X Y) (rest' : Bytes),
        decBody F max rem ek bs = .ok (a, rest') →
        a.WF F.utf8 wfc ∧ ∃ b, encElem F ek (encBody F max' rem) a = .ok b ∧ bs = b ++ rest' := by
      intro ek bs a rest' ha
      obtain ⟨hkind, hwf, b, hb, rfl⟩ := ih _ _ _ _ ha
      refine ⟨hwf, b, ?_, rfl⟩
      simp [encElem, hb, hkind]
    have hentry : ∀ (kk vk : VK X) (bs : Bytes) (e : Value X Y × Value X Y) (rest' : Bytes),
        decEntry kk vk (decBody F max rem) bs = .ok (e, rest') →
        (e.1.WF F.utf8 wfc ∧ e.2.WF F.utf8 wfc) ∧ ∃ b, encEntry F kk vk (encBody F max' rem) e = .ok b ∧ bs = b ++ rest' := by
      intro kk vk bs e rest' ha
      simp only [decEntry] at ha
      split at ha
      · simp at ha
      · rename_i k b' hkd
        split at ha
        · simp at ha
        · rename_i v b'' hvd
          simp at ha
          obtain ⟨rfl, rfl⟩ := ha
          obtain ⟨hkind1, hwf1, kb, hkb, rfl⟩ := ih _ _ _ _ hkd
          obtain ⟨hkind2, hwf2, vb, hvb, rfl⟩ := ih _ _ _ _ hvd
          refine ⟨⟨hwf1, hwf2⟩, kb ++ vb, ?_, by simp⟩
          simp [encEntry, hkb, hvb, hkind1, hkind2]
    cases vk with
    | bool =>
      simp only [decBody] at h
      split at h
      · simp at h
      · rename_i b bs' hb
        simp at h
        obtain ⟨rfl, rfl⟩ := h
        have := decBool_ok _ _ _ hb
        subst this
        exact ⟨rfl, trivial, _, rfl, rfl⟩
    | int k =>
      simp only [decBody] at h
      split at h
      · simp at h
      · rename_i x bs' hb
        simp at h
        obtain ⟨rfl, rfl⟩ := h
        have := decInt_ok _ _ _ _ hb
        subst this
        exact ⟨rfl, trivial, _, rfl, rfl⟩
    | string =>
      simp only [decBody] at h
      split at h
      · simp at h
      · rename_i s bs' hb
        simp at h
        obtain ⟨rfl, rfl⟩ := h
        obtain ⟨hu, hmax, rfl⟩ := decString_ok _ _ _ _ hb
        refine ⟨rfl, hu, sizeBytes s.length ++ s, ?_, by simp⟩
        simp [encBody, writeSize_ok _ hmax]
    | tuple =>
      simp only [decBody] at h
      split at h
      · simp at h
      · rename_i len bs1 h1
        split at h
        · simp at h
        · rename_i fs bs2 h2
          simp at h
          obtain ⟨rfl, rfl⟩ := h
          obtain ⟨hmax, rfl⟩ := readSize_canonical _ _ _ h1
          obtain ⟨hlen, hP, body, hbody, rfl⟩ := encMany_of_decMany
            (encField F (encBody F max' rem))
            _ (fun a => a.WF F.utf8 wfc) hfield _ _ _ _ h2
          · refine ⟨rfl, (WFList_iff _ _ _).2 hP, sizeBytes len ++ body, ?_, by simp⟩
            simp [encBody, hlen, writeSize_ok _ hmax, hbody]
    | enum =>
      simp only [decBody] at h
      split at h
      · simp at h
      · rename_i d bs0 h0
        split at h
        · simp at h
        · rename_i len bs1 h1
          split at h
          · simp at h
          · rename_i fs bs2 h2
            simp at h
            obtain ⟨rfl, rfl⟩ := h
            cases bs with
            | nil => simp [readByte] at h0
            | cons d' t =>
              simp [readByte] at h0
              obtain ⟨rfl, rfl⟩ := h0
              obtain ⟨hmax, rfl⟩ := readSize_canonical _ _ _ h1
              obtain ⟨hlen, hP, body, hbody, rfl⟩ := encMany_of_decMany
                (encField F (encBody F max' rem))
                _ (fun a => a.WF F.utf8 wfc) hfield _ _ _ _ h2
              · refine ⟨rfl, (WFList_iff _ _ _).2 hP, d' :: (sizeBytes len ++ body), ?_, by simp⟩
                simp [encBody, hlen, writeSize_ok _ hmax, hbody]
    | array =>
      simp only [decBody] at h
      split at h
      · simp at h
      · rename_i ek bs0 h0
        split at h
        · simp at h
        · rename_i len bs1 h1
          split at h
          · simp at h
          · rename_i es bs2 h2
            simp at h
            obtain ⟨rfl, rfl⟩ := h
            have := readValueKind_ok F.kc hk _ _ _ h0
            subst this
            obtain ⟨hmax, rfl⟩ := readSize_canonical _ _ _ h1
            obtain ⟨hlen, hP, body, hbody, rfl⟩ := encMany_of_decMany
              (encElem F ek (encBody F max' rem))
              _ (fun a => a.WF F.utf8 wfc) (helem ek) _ _ _ _ h2
            · refine ⟨rfl, (WFList_iff _ _ _).2 hP, VK.toU8 F.kc ek :: (sizeBytes len ++ body), ?_, by simp⟩
              simp [encBody, hlen, writeSize_ok _ hmax, hbody]
    | map =>
      simp only [decBody] at h
      split at h
      · simp at h
      · rename_i kk bs0 h0
        split at h
        · simp at h
        · rename_i vk bs00 h00
          split at h
          · simp at h
          · rename_i len bs1 h1
            split at h
            · simp at h
            · rename_i es bs2 h2
              simp at h
              obtain ⟨rfl, rfl⟩ := h
              have := readValueKind_ok F.kc hk _ _ _ h0
              subst this
              have := readValueKind_ok F.kc hk _ _ _ h00
              subst this
              obtain ⟨hmax, rfl⟩ := readSize_canonical _ _ _ h1
              obtain ⟨hlen, hP, body, hbody, rfl⟩ := encMany_of_decMany
                (encEntry F kk vk (encBody F max' rem))
                _ (fun (e : Value X Y × Value X Y) => e.1.WF F.utf8 wfc ∧ e.2.WF F.utf8 wfc) (hentry kk vk) _ _ _ _ h2
              · refine ⟨rfl, (WFEntries_iff _ _ _).2 hP, VK.toU8 F.kc kk :: VK.toU8 F.kc vk :: (sizeBytes len ++ body), ?_, by simp⟩
                simp [encBody, hlen, writeSize_ok _ hmax, hbody]
    | custom x =>
      simp only [decBody] at h
      split at h
      · simp at h
      · rename_i c bs' hc
        simp at h
        obtain ⟨rfl, rfl⟩ := h
        obtain ⟨hw, hkind, enc, henc, rfl⟩ := hF.enc_dec _ _ _ _ hc
        refine ⟨by simp [Value.kind, hkind], hw, enc, ?_, rfl⟩
        simp [encBody, henc]
end Radix.Sbor
