/-
C08 — denotational meaning of access rules (`Sat…`) and the lemmas relating the executable
transcription of `authorization.rs` (Model/Auth.lean) to it.
-/
import RadixModel.Model.Auth

namespace Radix.Auth

instance : DecidableEq (Except Err Bool) := fun a b =>
  match a, b with
  | .ok x, .ok y => if h : x = y then isTrue (by rw [h]) else isFalse (by intro e; cases e; exact h rfl)
  | .error x, .error y => if h : x = y then isTrue (by rw [h]) else isFalse (by intro e; cases e; exact h rfl)
  | .ok _, .error _ => isFalse (by intro e; cases e)
  | .error _, .ok _ => isFalse (by intro e; cases e)

/-! ### The meaning of rules -/

/-- what one auth zone contributes to a check -/
structure View where
  proofs : List Proof
  simRes : List Nat
  implicitNf : List NfId

/-- a zone followed by its `parent` chain (the walk of `global_auth_zone_matches`) -/
def Zone.chain : Zone → List View
  | .mk p s i _ _ parent => ⟨p, s, i⟩ :: (match parent with | some q => q.chain | none => [])

theorem chain_none (p s i k g) : (Zone.mk p s i k g none).chain = [⟨p, s, i⟩] := by
  unfold Zone.chain; rfl

theorem chain_some (p s i k g q) : (Zone.mk p s i k g (some q)).chain = ⟨p, s, i⟩ :: q.chain := by
  conv => lhs; unfold Zone.chain

theorem head_mem_chain (p s i k g parent) : (⟨p, s, i⟩ : View) ∈ (Zone.mk p s i k g parent).chain := by
  cases parent with
  | none => simp [chain_none]
  | some q => simp [chain_some]

/-- The documented zone walk for the frame whose auth zone is `z`:
    1. the frame's local implicit badges (package of the direct caller, global caller),
    2. the global caller's zone and its parents,
    3. the direct caller's zone (`parent`) and its parents.
    The frame's *own* proofs are not part of it. -/
def visible (z : Zone) : List View :=
  (if (localImplicit z).isEmpty then [] else [⟨[], [], localImplicit z⟩]) ++
  (match z.gc with | some (_, leaf) => leaf.chain | none => []) ++
  (match z.parent with | some p => p.chain | none => [])

/-- proof `p` proves possession of `x` -/
def Proof.Has (p : Proof) : RoN → Prop
  | .res r => p.res = r
  | .nf g => p.res = g.res ∧ p.fungible = false ∧ g.id ∈ p.ids

/-- one zone satisfies a resource-or-non-fungible requirement: by an implicit non-fungible proof,
    by a simulated resource (both for non-fungible requirements only), or by a proof -/
def View.Sat (v : View) (x : RoN) : Prop :=
  (match x with | .nf g => g ∈ v.implicitNf ∨ g.res ∈ v.simRes | .res _ => False) ∨ ∃ p ∈ v.proofs, p.Has x

def Matches (z : Zone) (x : RoN) : Prop := ∃ v ∈ visible z, v.Sat x

/-- some *single* visible proof of `r` has at least the amount -/
def HasAmount (z : Zone) (a : Int) (r : Nat) : Prop :=
  ∃ v ∈ visible z, ∃ p ∈ v.proofs, p.res = r ∧ a ≤ p.amount

def SatBasic (z : Zone) : Basic → Prop
  | .require x => Matches z x
  | .amountOf a r => HasAmount z a r
  /- at least `n` *entries* of `xs` are matched -/
  | .countOf n xs => ∃ ys : List RoN, ys.Sublist xs ∧ ys.length = n ∧ ∀ y ∈ ys, Matches z y
  | .allOf xs => ∀ x ∈ xs, Matches z x
  | .anyOf xs => ∃ x ∈ xs, Matches z x

mutual
def SatComp (z : Zone) : Comp → Prop
  | .basic b => SatBasic z b
  | .anyOf rs => SatAny z rs
  | .allOf rs => SatAll z rs
def SatAny (z : Zone) : List Comp → Prop
  | [] => False
  | r :: rs => SatComp z r ∨ SatAny z rs
def SatAll (z : Zone) : List Comp → Prop
  | [] => True
  | r :: rs => SatComp z r ∧ SatAll z rs
end

def SatRule (z : Zone) : Rule → Prop
  | .allowAll => True
  | .denyAll => False
  | .prot c => SatComp z c

theorem satAny_iff (z : Zone) (rs : List Comp) : SatAny z rs ↔ ∃ r ∈ rs, SatComp z r := by
  induction rs with
  | nil => simp [SatAny]
  | cons r rs ih => simp [SatAny, ih]

theorem satAll_iff (z : Zone) (rs : List Comp) : SatAll z rs ↔ ∀ r ∈ rs, SatComp z r := by
  induction rs with
  | nil => simp [SatAll]
  | cons r rs ih => simp [SatAll, ih]

/-! ### Typing: the only evaluation error -/

/-- no *fungible* proof of the resource named by a non-fungible requirement -/
def View.TypedFor (v : View) : RoN → Prop
  | .nf g => ∀ p ∈ v.proofs, p.res = g.res → p.fungible = false
  | .res _ => True

def TypedFor (z : Zone) (x : RoN) : Prop := ∀ v ∈ visible z, v.TypedFor x

def Basic.rons : Basic → List RoN
  | .require x => [x]
  | .amountOf _ _ => []
  | .countOf _ xs => xs
  | .allOf xs => xs
  | .anyOf xs => xs

mutual
def Comp.rons : Comp → List RoN
  | .basic b => b.rons
  | .anyOf rs => Comp.ronsList rs
  | .allOf rs => Comp.ronsList rs
def Comp.ronsList : List Comp → List RoN
  | [] => []
  | r :: rs => r.rons ++ Comp.ronsList rs
end

def Rule.rons : Rule → List RoN
  | .prot c => c.rons
  | _ => []

/-- every non-fungible requirement of the rule names a resource of which no fungible proof is visible -/
def WellTyped (z : Zone) (r : Rule) : Prop := ∀ x ∈ r.rons, TypedFor z x

/-! ### Leaves -/

theorem proofMatches_ok {x : RoN} {p : Proof} {b : Bool} (h : proofMatches x p = .ok b) :
    b = true ↔ p.Has x := by
  cases x with
  | res r =>
    simp only [proofMatches, Except.ok.injEq] at h
    subst h; simp [Proof.Has]
  | nf g =>
    simp only [proofMatches] at h
    by_cases hr : p.res = g.res
    · simp only [hr, if_true] at h
      cases hf : p.fungible with
      | true => simp [hf] at h
      | false =>
        simp only [hf, Bool.false_eq_true, if_false, Except.ok.injEq] at h
        subst h
        simp [Proof.Has, hr, hf]
    · simp only [hr, if_false, Except.ok.injEq] at h
      subst h
      simp [Proof.Has, hr]

theorem proofMatches_total {x : RoN} {p : Proof}
    (h : match x with | .nf g => p.res = g.res → p.fungible = false | .res _ => True) :
    ∃ b, proofMatches x p = .ok b := by
  cases x with
  | res r => exact ⟨_, rfl⟩
  | nf g =>
    simp only [proofMatches]
    by_cases hr : p.res = g.res
    · simp [hr, h hr]
    · simp [hr]

theorem anyProofMatches_ok {x : RoN} : ∀ {ps : List Proof} {b : Bool},
    anyProofMatches x ps = .ok b → (b = true ↔ ∃ p ∈ ps, p.Has x)
  | [], b, h => by
    simp only [anyProofMatches, Except.ok.injEq] at h
    subst h; simp
  | p :: ps, b, h => by
    simp only [anyProofMatches] at h
    cases hm : proofMatches x p with
    | error e => simp [hm] at h
    | ok b0 =>
      have h0 := proofMatches_ok hm
      cases b0 with
      | true =>
        simp only [hm, Except.ok.injEq] at h
        subst h
        simp only [true_iff]
        exact ⟨p, List.mem_cons_self, h0.mp rfl⟩
      | false =>
        simp only [hm] at h
        have ih := anyProofMatches_ok h
        rw [ih]
        constructor
        · rintro ⟨q, hq, hh⟩; exact ⟨q, List.mem_cons_of_mem _ hq, hh⟩
        · rintro ⟨q, hq, hh⟩
          rcases List.mem_cons.mp hq with rfl | hq
          · exact absurd (h0.mpr hh) (by simp)
          · exact ⟨q, hq, hh⟩

theorem anyProofMatches_total {x : RoN} : ∀ {ps : List Proof},
    (∀ p ∈ ps, match x with | .nf g => p.res = g.res → p.fungible = false | .res _ => True) →
    ∃ b, anyProofMatches x ps = .ok b
  | [], _ => ⟨_, rfl⟩
  | p :: ps, h => by
    simp only [anyProofMatches]
    obtain ⟨b0, hb0⟩ := proofMatches_total (x := x) (p := p) (h p List.mem_cons_self)
    rw [hb0]
    cases b0 with
    | true => exact ⟨_, rfl⟩
    | false => exact anyProofMatches_total (fun q hq => h q (List.mem_cons_of_mem _ hq))

theorem checkRule_ok {x : RoN} {ps : List Proof} {sr : List Nat} {im : List NfId} {b : Bool}
    (h : checkRule x ps sr im = .ok b) : b = true ↔ View.Sat ⟨ps, sr, im⟩ x := by
  cases x with
  | res r =>
    simp only [checkRule] at h
    rw [anyProofMatches_ok h]; simp [View.Sat]
  | nf g =>
    simp only [checkRule] at h
    by_cases h1 : im.contains g = true
    · simp only [h1, if_true, Except.ok.injEq] at h
      subst h
      simp only [View.Sat, true_iff]
      exact Or.inl (Or.inl (by simpa using h1))
    · simp only [h1, Bool.false_eq_true, if_false] at h
      by_cases h2 : sr.contains g.res = true
      · simp only [h2, if_true, Except.ok.injEq] at h
        subst h
        simp only [View.Sat, true_iff]
        exact Or.inl (Or.inr (by simpa using h2))
      · simp only [h2, Bool.false_eq_true, if_false] at h
        rw [anyProofMatches_ok h]
        have h1' : g ∉ im := by simpa using h1
        have h2' : g.res ∉ sr := by simpa using h2
        simp [View.Sat, h1', h2']

theorem checkRule_total {x : RoN} {v : View} (h : v.TypedFor x) :
    ∃ b, checkRule x v.proofs v.simRes v.implicitNf = .ok b := by
  cases x with
  | res r => exact anyProofMatches_total (fun _ _ => trivial)
  | nf g =>
    simp only [checkRule]
    split
    · exact ⟨_, rfl⟩
    · split
      · exact ⟨_, rfl⟩
      · exact anyProofMatches_total (x := .nf g) h

theorem checkAmount_ok {r : Nat} {a : Int} : ∀ {ps : List Proof} {b : Bool},
    checkAmount r a ps = .ok b → (b = true ↔ ∃ p ∈ ps, p.res = r ∧ a ≤ p.amount)
  | [], b, h => by
    simp only [checkAmount, Except.ok.injEq] at h
    subst h; simp
  | p :: ps, b, h => by
    simp only [checkAmount] at h
    by_cases hc : p.res = r ∧ p.amount ≥ a
    · simp only [hc, and_self, if_true, Except.ok.injEq] at h
      subst h
      simp only [true_iff]
      exact ⟨p, List.mem_cons_self, hc.1, hc.2⟩
    · rw [if_neg hc] at h
      rw [checkAmount_ok h]
      constructor
      · rintro ⟨q, hq, hh⟩; exact ⟨q, List.mem_cons_of_mem _ hq, hh⟩
      · rintro ⟨q, hq, hh⟩
        rcases List.mem_cons.mp hq with rfl | hq
        · exact absurd ⟨hh.1, hh.2⟩ hc
        · exact ⟨q, hq, hh⟩

theorem checkAmount_total (r : Nat) (a : Int) : ∀ (ps : List Proof), ∃ b, checkAmount r a ps = .ok b
  | [] => ⟨_, rfl⟩
  | p :: ps => by
    simp only [checkAmount]
    by_cases hc : p.res = r ∧ p.amount ≥ a
    · rw [if_pos hc]; exact ⟨_, rfl⟩
    · rw [if_neg hc]; exact checkAmount_total r a ps

/-! ### The zone walk, for any closure that decides a predicate on views -/

/-- `check` decides `P` whenever it answers -/
def Decides (check : Check) (P : View → Prop) : Prop :=
  ∀ ps sr im b, check ps sr im = .ok b → (b = true ↔ P ⟨ps, sr, im⟩)

theorem globalMatches_ok {check : Check} {P : View → Prop} (hd : Decides check P) :
    ∀ {z : Zone} {b : Bool}, globalMatches check z = .ok b → (b = true ↔ ∃ v ∈ z.chain, P v)
  | .mk ps sr im k g parent, b, h => by
    unfold globalMatches at h
    cases hc : check ps sr im with
    | error e => simp [hc] at h
    | ok b0 =>
      have h0 := hd ps sr im b0 hc
      cases b0 with
      | true =>
        simp only [hc, Except.ok.injEq] at h
        subst h
        simp only [true_iff]
        exact ⟨_, head_mem_chain _ _ _ _ _ _, h0.mp rfl⟩
      | false =>
        simp only [hc] at h
        have hnot : ¬ P ⟨ps, sr, im⟩ := fun hp => by simpa using h0.mpr hp
        cases parent with
        | none =>
          simp only [Except.ok.injEq] at h
          subst h
          simp [chain_none, hnot]
        | some q =>
          simp only at h
          have ih := globalMatches_ok hd h
          rw [ih]
          simp [chain_some, hnot]

theorem globalMatches_total {check : Check} {Q : View → Prop}
    (ht : ∀ v, Q v → ∃ b, check v.proofs v.simRes v.implicitNf = .ok b) :
    ∀ {z : Zone}, (∀ v ∈ z.chain, Q v) → ∃ b, globalMatches check z = .ok b
  | .mk ps sr im k g parent, h => by
    unfold globalMatches
    obtain ⟨b0, hb0⟩ := ht ⟨ps, sr, im⟩ (h _ (head_mem_chain _ _ _ _ _ _))
    simp only at hb0
    rw [hb0]
    cases b0 with
    | true => exact ⟨_, rfl⟩
    | false =>
      cases parent with
      | none => exact ⟨_, rfl⟩
      | some q =>
        simp only
        exact globalMatches_total ht (fun v hv => h v (by simp [chain_some, hv]))

theorem orE_ok {a b : Except Err Bool} {r : Bool} (h : orE a b = .ok r) :
    (a = .ok true ∧ r = true) ∨ (a = .ok false ∧ b = .ok r) := by
  unfold orE at h
  split at h
  · simp at h
  · simp only [Except.ok.injEq] at h; exact Or.inl ⟨rfl, h.symm⟩
  · exact Or.inr ⟨rfl, h⟩

theorem orE_total {a b : Except Err Bool} (ha : ∃ r, a = .ok r) (hb : ∃ r, b = .ok r) :
    ∃ r, orE a b = .ok r := by
  obtain ⟨ra, rfl⟩ := ha
  cases ra with
  | true => exact ⟨_, rfl⟩
  | false => simpa [orE] using hb

theorem localCheck_ok {check : Check} {P : View → Prop} (hd : Decides check P) {z : Zone} {b : Bool}
    (h : localCheck check z = .ok b) :
    b = true ↔ ∃ v ∈ (if (localImplicit z).isEmpty then [] else [(⟨[], [], localImplicit z⟩ : View)]), P v := by
  unfold localCheck at h
  by_cases he : (localImplicit z).isEmpty = true
  · simp only [he, if_true, Except.ok.injEq] at h
    subst h; simp [he]
  · simp only [he, Bool.false_eq_true, if_false] at h
    have := hd _ _ _ _ h
    simp [he, this]

theorem gcCheck_ok {check : Check} {P : View → Prop} (hd : Decides check P) {z : Zone} {b : Bool}
    (h : gcCheck check z = .ok b) :
    b = true ↔ ∃ v ∈ (match z.gc with | some (_, leaf) => leaf.chain | none => []), P v := by
  unfold gcCheck at h
  cases hg : z.gc with
  | none => simp only [hg, Except.ok.injEq] at h; subst h; simp
  | some cl =>
    obtain ⟨c, leaf⟩ := cl
    simp only [hg] at h
    simpa using globalMatches_ok hd h

theorem parentCheck_ok {check : Check} {P : View → Prop} (hd : Decides check P) {z : Zone} {b : Bool}
    (h : parentCheck check z = .ok b) :
    b = true ↔ ∃ v ∈ (match z.parent with | some p => p.chain | none => []), P v := by
  unfold parentCheck at h
  cases hp : z.parent with
  | none => simp only [hp, Except.ok.injEq] at h; subst h; simp
  | some p =>
    simp only [hp] at h
    simpa using globalMatches_ok hd h

theorem stackMatches_ok {check : Check} {P : View → Prop} (hd : Decides check P)
    {z : Zone} {b : Bool} (h : stackMatches check z = .ok b) :
    b = true ↔ ∃ v ∈ visible z, P v := by
  unfold stackMatches at h
  rcases orE_ok h with ⟨h1, rfl⟩ | ⟨h1, h'⟩
  · simp only [true_iff]
    obtain ⟨v, hv, hp⟩ := (localCheck_ok hd h1).mp rfl
    exact ⟨v, by simp only [visible, List.mem_append]; exact Or.inl (Or.inl hv), hp⟩
  · have n1 := localCheck_ok hd h1
    rcases orE_ok h' with ⟨h2, rfl⟩ | ⟨h2, h3⟩
    · simp only [true_iff]
      obtain ⟨v, hv, hp⟩ := (gcCheck_ok hd h2).mp rfl
      exact ⟨v, by simp only [visible, List.mem_append]; exact Or.inl (Or.inr hv), hp⟩
    · have n2 := gcCheck_ok hd h2
      rw [parentCheck_ok hd h3]
      constructor
      · rintro ⟨v, hv, hp⟩
        exact ⟨v, by simp only [visible, List.mem_append]; exact Or.inr hv, hp⟩
      · rintro ⟨v, hv, hp⟩
        simp only [visible, List.mem_append] at hv
        rcases hv with (hv | hv) | hv
        · exact absurd (n1.mpr ⟨v, hv, hp⟩) (by simp)
        · exact absurd (n2.mpr ⟨v, hv, hp⟩) (by simp)
        · exact ⟨v, hv, hp⟩

theorem stackMatches_total {check : Check} {Q : View → Prop}
    (ht : ∀ v, Q v → ∃ b, check v.proofs v.simRes v.implicitNf = .ok b)
    {z : Zone} (h : ∀ v ∈ visible z, Q v) : ∃ b, stackMatches check z = .ok b := by
  unfold stackMatches
  apply orE_total
  · unfold localCheck
    by_cases he : (localImplicit z).isEmpty = true
    · simp [he]
    · simp only [he, Bool.false_eq_true, if_false]
      exact ht ⟨[], [], localImplicit z⟩ (h _ (by simp [visible, he]))
  · apply orE_total
    · unfold gcCheck
      cases hg : z.gc with
      | none => exact ⟨_, rfl⟩
      | some cl =>
        obtain ⟨c, leaf⟩ := cl
        exact globalMatches_total ht (fun v hv => h v (by simp [visible, hg, hv]))
    · unfold parentCheck
      cases hp : z.parent with
      | none => exact ⟨_, rfl⟩
      | some p => exact globalMatches_total ht (fun v hv => h v (by simp [visible, hp, hv]))

theorem stackMatchesRule_ok {z : Zone} {x : RoN} {b : Bool} (h : stackMatchesRule z x = .ok b) :
    b = true ↔ Matches z x :=
  stackMatches_ok (P := fun v => v.Sat x) (fun _ _ _ _ hb => checkRule_ok hb) h

theorem stackMatchesRule_total {z : Zone} {x : RoN} (h : TypedFor z x) :
    ∃ b, stackMatchesRule z x = .ok b :=
  stackMatches_total (Q := fun v => v.TypedFor x) (fun _ hv => checkRule_total hv) h

theorem stackHasAmount_ok {z : Zone} {r : Nat} {a : Int} {b : Bool} (h : stackHasAmount z r a = .ok b) :
    b = true ↔ HasAmount z a r :=
  stackMatches_ok (P := fun v => ∃ p ∈ v.proofs, p.res = r ∧ a ≤ p.amount)
    (fun _ _ _ _ hb => checkAmount_ok hb) h

theorem stackHasAmount_total (z : Zone) (r : Nat) (a : Int) : ∃ b, stackHasAmount z r a = .ok b :=
  stackMatches_total (Q := fun _ => True) (fun v _ => checkAmount_total r a v.proofs) (fun _ _ => trivial)

/-! ### `verify_proof_rule` -/

theorem allMatch_ok {z : Zone} : ∀ {xs : List RoN} {b : Bool},
    allMatch z xs = .ok b → (b = true ↔ ∀ x ∈ xs, Matches z x)
  | [], b, h => by
    simp only [allMatch, Except.ok.injEq] at h
    subst h; simp
  | x :: xs, b, h => by
    simp only [allMatch] at h
    cases hm : stackMatchesRule z x with
    | error e => simp [hm] at h
    | ok b0 =>
      have h0 := stackMatchesRule_ok hm
      cases b0 with
      | false =>
        simp only [hm, Except.ok.injEq] at h
        subst h
        have : ¬ Matches z x := fun hx => by simpa using h0.mpr hx
        simp [this]
      | true =>
        simp only [hm] at h
        rw [allMatch_ok h]
        have : Matches z x := h0.mp rfl
        simp [this]

theorem allMatch_total {z : Zone} : ∀ {xs : List RoN}, (∀ x ∈ xs, TypedFor z x) → ∃ b, allMatch z xs = .ok b
  | [], _ => ⟨_, rfl⟩
  | x :: xs, h => by
    simp only [allMatch]
    obtain ⟨b0, hb0⟩ := stackMatchesRule_total (h x List.mem_cons_self)
    rw [hb0]
    cases b0 with
    | false => exact ⟨_, rfl⟩
    | true => exact allMatch_total (fun y hy => h y (List.mem_cons_of_mem _ hy))

theorem anyMatch_ok {z : Zone} : ∀ {xs : List RoN} {b : Bool},
    anyMatch z xs = .ok b → (b = true ↔ ∃ x ∈ xs, Matches z x)
  | [], b, h => by
    simp only [anyMatch, Except.ok.injEq] at h
    subst h; simp
  | x :: xs, b, h => by
    simp only [anyMatch] at h
    cases hm : stackMatchesRule z x with
    | error e => simp [hm] at h
    | ok b0 =>
      have h0 := stackMatchesRule_ok hm
      cases b0 with
      | true =>
        simp only [hm, Except.ok.injEq] at h
        subst h
        have : Matches z x := h0.mp rfl
        simp [this]
      | false =>
        simp only [hm] at h
        rw [anyMatch_ok h]
        have : ¬ Matches z x := fun hx => by simpa using h0.mpr hx
        simp [this]

theorem anyMatch_total {z : Zone} : ∀ {xs : List RoN}, (∀ x ∈ xs, TypedFor z x) → ∃ b, anyMatch z xs = .ok b
  | [], _ => ⟨_, rfl⟩
  | x :: xs, h => by
    simp only [anyMatch]
    obtain ⟨b0, hb0⟩ := stackMatchesRule_total (h x List.mem_cons_self)
    rw [hb0]
    cases b0 with
    | true => exact ⟨_, rfl⟩
    | false => exact anyMatch_total (fun y hy => h y (List.mem_cons_of_mem _ hy))

/-- "at least `n` entries of `xs` satisfy `P`" -/
def AtLeast (P : RoN → Prop) (n : Nat) (xs : List RoN) : Prop :=
  ∃ ys : List RoN, ys.Sublist xs ∧ ys.length = n ∧ ∀ y ∈ ys, P y

theorem atLeast_zero (P : RoN → Prop) (xs : List RoN) : AtLeast P 0 xs :=
  ⟨[], List.nil_sublist _, rfl, by simp⟩

theorem atLeast_nil (P : RoN → Prop) (n : Nat) : AtLeast P n [] ↔ n = 0 := by
  constructor
  · rintro ⟨ys, hs, hl, _⟩
    have : ys = [] := List.sublist_nil.mp hs
    subst this; simpa using hl.symm
  · rintro rfl; exact atLeast_zero _ _

theorem atLeast_cons_neg {P : RoN → Prop} {x : RoN} (hx : ¬ P x) (n : Nat) (xs : List RoN) :
    AtLeast P n (x :: xs) ↔ AtLeast P n xs := by
  constructor
  · rintro ⟨ys, hs, hl, hp⟩
    rcases List.sublist_cons_iff.mp hs with h | ⟨r, rfl, _⟩
    · exact ⟨ys, h, hl, hp⟩
    · exact absurd (hp x List.mem_cons_self) hx
  · rintro ⟨ys, hs, hl, hp⟩
    exact ⟨ys, List.Sublist.cons _ hs, hl, hp⟩

theorem atLeast_cons_pos {P : RoN → Prop} {x : RoN} (hx : P x) (n : Nat) (xs : List RoN) :
    AtLeast P (n + 1) (x :: xs) ↔ AtLeast P n xs := by
  constructor
  · rintro ⟨ys, hs, hl, hp⟩
    rcases List.sublist_cons_iff.mp hs with h | ⟨r, rfl, hr⟩
    · -- drop one element of ys
      cases ys with
      | nil => simp at hl
      | cons y ys' =>
        refine ⟨ys', (List.sublist_cons_self y ys').trans h, by simpa using hl, ?_⟩
        intro w hw; exact hp w (List.mem_cons_of_mem _ hw)
    · exact ⟨r, hr, by simpa using hl, fun w hw => hp w (List.mem_cons_of_mem _ hw)⟩
  · rintro ⟨ys, hs, hl, hp⟩
    refine ⟨x :: ys, List.Sublist.cons₂ _ hs, by simp [hl], ?_⟩
    intro w hw
    rcases List.mem_cons.mp hw with rfl | hw
    · exact hx
    · exact hp w hw

theorem countLoop_ok {z : Zone} : ∀ {xs : List RoN} {left : Nat} {b : Bool}, 0 < left →
    countLoop z left xs = .ok b → (b = true ↔ AtLeast (Matches z) left xs)
  | [], left, b, hl, h => by
    simp only [countLoop, Except.ok.injEq] at h
    subst h
    rw [atLeast_nil]; simp; omega
  | x :: xs, left, b, hl, h => by
    simp only [countLoop] at h
    cases hm : stackMatchesRule z x with
    | error e => simp [hm] at h
    | ok b0 =>
      have h0 := stackMatchesRule_ok hm
      cases b0 with
      | true =>
        simp only [hm] at h
        have hx : Matches z x := h0.mp rfl
        obtain ⟨m, rfl⟩ : ∃ m, left = m + 1 := ⟨left - 1, by omega⟩
        rw [atLeast_cons_pos hx]
        by_cases hz : m + 1 - 1 = 0
        · simp only [hz, if_true, Except.ok.injEq] at h
          subst h
          have : m = 0 := by omega
          subst this
          simp [atLeast_zero]
        · simp only [hz, if_false] at h
          have := countLoop_ok (by omega) h
          simpa using this
      | false =>
        simp only [hm] at h
        have hx : ¬ Matches z x := fun hx => by simpa using h0.mpr hx
        rw [atLeast_cons_neg hx]
        exact countLoop_ok hl h

theorem countLoop_total {z : Zone} : ∀ {xs : List RoN} (left : Nat), (∀ x ∈ xs, TypedFor z x) →
    ∃ b, countLoop z left xs = .ok b
  | [], _, _ => ⟨_, rfl⟩
  | x :: xs, left, h => by
    simp only [countLoop]
    obtain ⟨b0, hb0⟩ := stackMatchesRule_total (h x List.mem_cons_self)
    rw [hb0]
    cases b0 with
    | true =>
      simp only
      split
      · exact ⟨_, rfl⟩
      · exact countLoop_total _ (fun y hy => h y (List.mem_cons_of_mem _ hy))
    | false => exact countLoop_total _ (fun y hy => h y (List.mem_cons_of_mem _ hy))

theorem verifyBasic_ok {z : Zone} {bs : Basic} {b : Bool} (h : verifyBasic z bs = .ok b) :
    b = true ↔ SatBasic z bs := by
  cases bs with
  | require x => exact stackMatchesRule_ok h
  | amountOf a r => exact stackHasAmount_ok h
  | allOf xs => exact allMatch_ok h
  | anyOf xs => exact anyMatch_ok h
  | countOf n xs =>
    simp only [verifyBasic] at h
    by_cases hn : n = 0
    · simp only [hn, if_true, Except.ok.injEq] at h
      subst h; subst hn
      simp only [true_iff]
      exact atLeast_zero _ _
    · simp only [hn, if_false] at h
      exact countLoop_ok (by omega) h

theorem verifyBasic_total {z : Zone} {bs : Basic} (h : ∀ x ∈ bs.rons, TypedFor z x) :
    ∃ b, verifyBasic z bs = .ok b := by
  cases bs with
  | require x => exact stackMatchesRule_total (h x (by simp [Basic.rons]))
  | amountOf a r => exact stackHasAmount_total z r a
  | allOf xs => exact allMatch_total h
  | anyOf xs => exact anyMatch_total h
  | countOf n xs =>
    simp only [verifyBasic]
    split
    · exact ⟨_, rfl⟩
    · exact countLoop_total _ h

/-! ### `verify_auth_rule` -/

mutual
theorem verifyComp_ok (z : Zone) : ∀ (c : Comp) (b : Bool), verifyComp z c = .ok b → (b = true ↔ SatComp z c)
  | .basic bs, b, h => by
    unfold verifyComp at h
    unfold SatComp
    exact verifyBasic_ok h
  | .anyOf rs, b, h => by
    unfold verifyComp at h
    unfold SatComp
    exact verifyAny_ok z rs b h
  | .allOf rs, b, h => by
    unfold verifyComp at h
    unfold SatComp
    exact verifyAll_ok z rs b h
theorem verifyAny_ok (z : Zone) : ∀ (rs : List Comp) (b : Bool), verifyAny z rs = .ok b → (b = true ↔ SatAny z rs)
  | [], b, h => by
    unfold verifyAny at h
    simp only [Except.ok.injEq] at h
    subst h; simp [SatAny]
  | r :: rs, b, h => by
    unfold verifyAny at h
    unfold SatAny
    cases hm : verifyComp z r with
    | error e => simp [hm] at h
    | ok b0 =>
      have h0 := verifyComp_ok z r b0 hm
      cases b0 with
      | true =>
        simp only [hm, Except.ok.injEq] at h
        subst h
        simp [h0.mp rfl]
      | false =>
        simp only [hm] at h
        rw [verifyAny_ok z rs b h]
        have : ¬ SatComp z r := fun hx => by simpa using h0.mpr hx
        simp [this]
theorem verifyAll_ok (z : Zone) : ∀ (rs : List Comp) (b : Bool), verifyAll z rs = .ok b → (b = true ↔ SatAll z rs)
  | [], b, h => by
    unfold verifyAll at h
    simp only [Except.ok.injEq] at h
    subst h; simp [SatAll]
  | r :: rs, b, h => by
    unfold verifyAll at h
    unfold SatAll
    cases hm : verifyComp z r with
    | error e => simp [hm] at h
    | ok b0 =>
      have h0 := verifyComp_ok z r b0 hm
      cases b0 with
      | false =>
        simp only [hm, Except.ok.injEq] at h
        subst h
        have : ¬ SatComp z r := fun hx => by simpa using h0.mpr hx
        simp [this]
      | true =>
        simp only [hm] at h
        rw [verifyAll_ok z rs b h]
        simp [h0.mp rfl]
end

mutual
theorem verifyComp_total (z : Zone) : ∀ (c : Comp), (∀ x ∈ c.rons, TypedFor z x) → ∃ b, verifyComp z c = .ok b
  | .basic bs, h => by
    unfold verifyComp
    exact verifyBasic_total (by simpa [Comp.rons] using h)
  | .anyOf rs, h => by
    unfold verifyComp
    exact verifyAny_total z rs (by simpa [Comp.rons] using h)
  | .allOf rs, h => by
    unfold verifyComp
    exact verifyAll_total z rs (by simpa [Comp.rons] using h)
theorem verifyAny_total (z : Zone) : ∀ (rs : List Comp), (∀ x ∈ Comp.ronsList rs, TypedFor z x) → ∃ b, verifyAny z rs = .ok b
  | [], _ => by unfold verifyAny; exact ⟨_, rfl⟩
  | r :: rs, h => by
    unfold verifyAny
    have h1 : ∀ x ∈ r.rons, TypedFor z x := fun x hx => h x (by simp [Comp.ronsList, hx])
    have h2 : ∀ x ∈ Comp.ronsList rs, TypedFor z x := fun x hx => h x (by simp [Comp.ronsList, hx])
    obtain ⟨b0, hb0⟩ := verifyComp_total z r h1
    rw [hb0]
    cases b0 with
    | true => exact ⟨_, rfl⟩
    | false => exact verifyAny_total z rs h2
theorem verifyAll_total (z : Zone) : ∀ (rs : List Comp), (∀ x ∈ Comp.ronsList rs, TypedFor z x) → ∃ b, verifyAll z rs = .ok b
  | [], _ => by unfold verifyAll; exact ⟨_, rfl⟩
  | r :: rs, h => by
    unfold verifyAll
    have h1 : ∀ x ∈ r.rons, TypedFor z x := fun x hx => h x (by simp [Comp.ronsList, hx])
    have h2 : ∀ x ∈ Comp.ronsList rs, TypedFor z x := fun x hx => h x (by simp [Comp.ronsList, hx])
    obtain ⟨b0, hb0⟩ := verifyComp_total z r h1
    rw [hb0]
    cases b0 with
    | false => exact ⟨_, rfl⟩
    | true => exact verifyAll_total z rs h2
end

end Radix.Auth
