/-
Lemmas about the multi-resource pool contribution and the state-machine invariant.
-/
import RadixModel.Lemmas.Pool

namespace Radix.Pool

/-! ### bucket take -/

theorem bucketTake_spec {held amt a : Int} {d : Nat} (h : bucketTakeRoundedDown held amt d = .ok a) :
    0 ≤ a ∧ a ≤ held ∧ a ≤ amt ∧ amt < a + unitOf d ∧ unitOf d ∣ a := by
  unfold bucketTakeRoundedDown at h
  split at h
  · cases h
  · rename_i x hx
    split at h
    · cases h
    · rename_i hf
      split at h
      · cases h
      · rename_i hlt
        cases h
        have sp := decRound_down_spec hx
        simp only [fungibleOk, Bool.not_eq_true', Bool.and_eq_false_iff, not_or, Bool.not_eq_false,
          decide_eq_true_eq] at hf
        have ha0 : 0 ≤ a := by
          by_contra hn
          have : decide (0 ≤ a) = false := by simp [hn]
          have := hf
          simp_all
        exact ⟨ha0, not_lt.mp hlt, sp.1, sp.2.1, sp.2.2⟩

/-! ### minimum ratio -/

theorem minRatio_nonneg : ∀ (l : List (Int × Int)) {k : Int}, minRatio l = some k →
    (∀ x ∈ l, 0 ≤ x.1 ∧ 0 ≤ x.2) → 0 ≤ k
  | [], k, h, _ => by simp [minRatio] at h
  | (r, c) :: rest, k, h, hl => by
    have hrc := hl (r, c) (List.mem_cons_self ..)
    have hrest : ∀ x ∈ rest, 0 ≤ x.1 ∧ 0 ≤ x.2 := fun x hx => hl x (List.mem_cons_of_mem _ hx)
    simp only [minRatio] at h
    by_cases hr : pdOfDec r ≠ 0
    · simp only [hr, ne_eq, not_false_eq_true, ite_true] at h
      have hrpos : 0 < pdOfDec r := lt_of_le_of_ne (pdOfDec_nonneg hrc.1) (Ne.symm hr)
      cases hd : pdDiv (pdOfDec c) (pdOfDec r) with
      | none =>
        rw [hd] at h
        simp only at h
        exact minRatio_nonneg rest h hrest
      | some q =>
        rw [hd] at h
        have hq := (pdDiv_spec hd (pdOfDec_nonneg hrc.2) hrpos).2.2
        cases hm : minRatio rest with
        | none => rw [hm] at h; simp only at h; cases h; exact hq
        | some m =>
          rw [hm] at h
          simp only at h
          cases h
          have := minRatio_nonneg rest hm hrest
          exact le_min hq this
    · have hr' : ¬ (pdOfDec r ≠ 0) := hr
      simp only [hr', ite_false] at h
      exact minRatio_nonneg rest h hrest

/-! ### accepted amounts -/

/-- relation between a resource `(reserve, contribution, divisibility)`, the ratio `k` and the accepted
amount `a` -/
def AcceptOk (k : Int) (x : Int × Int × Nat) (a : Int) : Prop :=
  0 ≤ a ∧ a ≤ x.2.1 ∧ unitOf x.2.2 ∣ a ∧ a * P36 ≤ x.1 * k ∧ x.1 * k < (a + unitOf x.2.2) * P36

theorem multiAccept_spec {k : Int} (hk : 0 ≤ k) : ∀ (rs : List (Int × Int × Nat)) {as : List Int},
    multiAccept k rs = .ok as → (∀ x ∈ rs, 0 ≤ x.1 ∧ 0 ≤ x.2.1) → All2 (AcceptOk k) rs as
  | [], as, h, _ => by simp only [multiAccept] at h; cases h; trivial
  | (r, c, d) :: rest, as, h, hl => by
    have hrc := hl (r, c, d) (List.mem_cons_self ..)
    have hp18 := P18_pos
    have hp36 := P36_pos
    simp only [multiAccept] at h
    cases hb : (pdMul (pdOfDec r) k).bind pdToDec with
    | none => rw [hb] at h; cases h
    | some amt =>
      rw [hb] at h
      simp only at h
      cases ht : bucketTakeRoundedDown c amt d with
      | error e => rw [ht] at h; cases h
      | ok a =>
        rw [ht] at h
        simp only at h
        split at h
        · cases h
        · cases hrest : multiAccept k rest with
          | error e => rw [hrest] at h; cases h
          | ok as' =>
            rw [hrest] at h
            cases h
            refine ⟨?_, multiAccept_spec hk rest hrest (fun x hx => hl x (List.mem_cons_of_mem _ hx))⟩
            -- unpack the arithmetic
            cases hm : pdMul (pdOfDec r) k with
            | none => rw [hm] at hb; cases hb
            | some ap =>
              rw [hm] at hb
              simp only [Option.bind] at hb
              have m1 := pdMul_spec hm (pdOfDec_nonneg hrc.1) hk
              have m2 := pdToDec_spec hb m1.2.2
              have m3 := bucketTake_spec ht
              unfold pdOfDec at m1
              refine ⟨m3.1, m3.2.1, m3.2.2.2.2, ?_, ?_⟩
              · -- a*P36 ≤ r*k
                have e1 : a * P18 ≤ amt * P18 := mul_le_mul_of_nonneg_right m3.2.2.1 (le_of_lt hp18)
                have e2 : a * P18 * P36 ≤ ap * P36 := mul_le_mul_of_nonneg_right (le_trans e1 m2.1) (le_of_lt hp36)
                have key : (a * P36) * P18 ≤ (r * k) * P18 := by nlinarith [m1.1]
                exact le_of_mul_le_mul_right key hp18
              · -- r*k < (a+m)*P36
                have e1 : amt + 1 ≤ a + unitOf d := by linarith [m3.2.2.2.1]
                have e2 : ap + 1 ≤ (amt + 1) * P18 := by linarith [m2.2.1]
                have e3 : (amt + 1) * P18 ≤ (a + unitOf d) * P18 := mul_le_mul_of_nonneg_right e1 (le_of_lt hp18)
                have e4 : (ap + 1) * P36 ≤ (a + unitOf d) * P18 * P36 :=
                  mul_le_mul_of_nonneg_right (le_trans e2 e3) (le_of_lt hp36)
                have key : (r * k) * P18 < ((a + unitOf d) * P36) * P18 := by nlinarith [m1.2.1]
                exact lt_of_mul_lt_mul_right key (le_of_lt hp18)

theorem multiAccept_nonneg {k : Int} : ∀ (rs : List (Int × Int × Nat)) {as : List Int},
    multiAccept k rs = .ok as → ∀ a ∈ as, 0 ≤ a
  | [], as, h => by simp only [multiAccept] at h; cases h; intro a ha; cases ha
  | (r, c, d) :: rest, as, h => by
    simp only [multiAccept] at h
    cases hb : (pdMul (pdOfDec r) k).bind pdToDec with
    | none => rw [hb] at h; cases h
    | some amt =>
      rw [hb] at h
      simp only at h
      cases ht : bucketTakeRoundedDown c amt d with
      | error e => rw [ht] at h; cases h
      | ok a =>
        rw [ht] at h
        simp only at h
        split at h
        · cases h
        · cases hrest : multiAccept k rest with
          | error e => rw [hrest] at h; cases h
          | ok as' =>
            rw [hrest] at h
            cases h
            intro x hx
            rcases List.mem_cons.mp hx with rfl | hx
            · exact (bucketTake_spec ht).1
            · exact multiAccept_nonneg rest hrest x hx

/-- Decomposition of a successful multi-resource contribution with units in circulation. -/
theorem multi_normal {s : Int} {rs : List (Int × Int × Nat)} {res : Contributed}
    (h : multiContribute s rs = .ok res) (hs : 0 < s) :
    ∃ k units, minRatio (rs.map (fun x => (x.1, x.2.1))) = some k ∧ multiAccept k rs = .ok res.accepted ∧
      res.supply = s + units ∧ 0 < units ∧ (0 ≤ k → units * P36 ≤ s * k) := by
  have hp18 := P18_pos
  have hp36 := P36_pos
  have hs' : pdOfDec s ≠ 0 := ne_of_gt (pdOfDec_pos hs)
  unfold multiContribute at h
  simp only [hs', ite_false] at h
  cases hk : minRatio (rs.map (fun x => (x.1, x.2.1))) with
  | none => rw [hk] at h; cases h
  | some k =>
    rw [hk] at h
    simp only at h
    cases ha : multiAccept k rs with
    | error e => rw [ha] at h; cases h
    | ok as =>
      rw [ha] at h
      simp only at h
      cases hm : pdMul (pdOfDec s) k with
      | none => rw [hm] at h; cases h
      | some u' =>
        rw [hm] at h
        simp only at h
        cases ht : pdToDec u' with
        | none => rw [ht] at h; cases h
        | some units =>
          rw [ht] at h
          simp only at h
          split at h
          · cases h
          · rename_i hne
            cases hmint : mintUnits s units with
            | error e => rw [hmint] at h; cases h
            | ok s2 =>
              rw [hmint] at h
              cases h
              obtain ⟨hs2, hu0⟩ := mintUnits_spec hmint
              refine ⟨k, units, rfl, ha, hs2, lt_of_le_of_ne hu0 (Ne.symm hne), ?_⟩
              intro hk0
              have m1 := pdMul_spec hm (le_of_lt (pdOfDec_pos hs)) hk0
              have m2 := pdToDec_spec ht m1.2.2
              unfold pdOfDec at m1
              have e1 : units * P18 * P36 ≤ u' * P36 := mul_le_mul_of_nonneg_right m2.1 (le_of_lt hp36)
              have key : (units * P36) * P18 ≤ (s * k) * P18 := by nlinarith [m1.1]
              exact le_of_mul_le_mul_right key hp18

theorem multi_in_ratio {s : Int} {rs : List (Int × Int × Nat)} {res : Contributed}
    (h : multiContribute s rs = .ok res) (hs : 0 < s) (hrs : ∀ x ∈ rs, 0 ≤ x.1 ∧ 0 ≤ x.2.1) :
    ∃ k : Int, 0 ≤ k ∧ (res.supply - s) * P36 ≤ s * k ∧
      All2 (fun (x : Int × Int × Nat) (a : Int) =>
          0 ≤ a ∧ a ≤ x.2.1 ∧ unitOf x.2.2 ∣ a ∧ a * P36 ≤ x.1 * k ∧ x.1 * k < (a + unitOf x.2.2) * P36)
        rs res.accepted := by
  obtain ⟨k, units, hk, ha, hsup, _, hu⟩ := multi_normal h hs
  have hk0 : 0 ≤ k := minRatio_nonneg _ hk (by
    intro x hx
    obtain ⟨y, hy, rfl⟩ := List.mem_map.mp hx
    exact hrs y hy)
  refine ⟨k, hk0, ?_, multiAccept_spec hk0 rs ha hrs⟩
  rw [hsup]
  have : s + units - s = units := by ring
  rw [this]
  exact hu hk0

theorem multi_no_gain {s : Int} {rs : List (Int × Int × Nat)} {res : Contributed}
    (h : multiContribute s rs = .ok res) (hs : 0 < s)
    (hrs : ∀ x ∈ rs, 0 ≤ x.1 ∧ 0 ≤ x.2.1) :
    All2 (fun (x : Int × Int × Nat) (a : Int) =>
        ∀ o, amountOwed (res.supply - s) res.supply (x.1 + a) x.2.2 = .ok o → o ≤ a)
      rs res.accepted := by
  obtain ⟨k, units, hk, ha, hsup, hupos, hu⟩ := multi_normal h hs
  have hk0 : 0 ≤ k := minRatio_nonneg _ hk (by
    intro x hx
    obtain ⟨y, hy, rfl⟩ := List.mem_map.mp hx
    exact hrs y hy)
  have hacc := multiAccept_spec hk0 rs ha hrs
  refine All2.imp ?_ hacc
  intro x hx a hok o ho
  obtain ⟨ha0, _, hdvd, _, hlt⟩ := hok
  have hsub : res.supply - s = units := by rw [hsup]; ring
  rw [hsub, hsup] at ho
  have hx0 := (hrs x hx).1
  have sp := amountOwed_spec ho (le_of_lt hupos) (by linarith) (by linarith)
  exact no_gain_core P36_pos hs (le_of_lt hupos) (unitOf_pos _) hx0 hlt (hu hk0) sp.2.1 sp.2.2 hdvd

/-- first contribution: everything is accepted -/
theorem multi_first_no_gain {rs : List (Int × Int × Nat)} {res : Contributed}
    (h : multiContribute 0 rs = .ok res) (hrs : ∀ x ∈ rs, x.1 = 0 ∧ 0 ≤ x.2.1) :
    res.accepted = rs.map (fun x => x.2.1) ∧
    All2 (fun (x : Int × Int × Nat) (a : Int) =>
        ∀ o, amountOwed res.supply res.supply (x.1 + a) x.2.2 = .ok o → o ≤ a)
      rs res.accepted := by
  unfold multiContribute at h
  simp only [pdOfDec, Int.zero_mul, ite_true] at h
  split at h
  · cases h
  · rename_i u' as hstep
    split at hstep
    · cases hstep
    · cases hstep
      split at h
      · cases h
      · rename_i units ht
        split at h
        · cases h
        · rename_i hne
          cases hmint : mintUnits 0 units with
          | error e => rw [hmint] at h; cases h
          | ok s2 =>
            rw [hmint] at h
            cases h
            obtain ⟨hs2, hu0⟩ := mintUnits_spec hmint
            refine ⟨rfl, all2_map_right _ rs ?_⟩
            intro x hx o ho
            have hupos : 0 < units := lt_of_le_of_ne hu0 (Ne.symm hne)
            obtain ⟨hx1, hx2⟩ := hrs x hx
            rw [hs2, hx1] at ho
            simp only [Int.zero_add] at ho
            have sp := amountOwed_spec ho (le_of_lt hupos) hupos hx2
            have h4 : o * units ≤ units * x.2.1 := sp.2.1
            have : o * units ≤ x.2.1 * units := by linarith [mul_comm units x.2.1]
            exact le_of_mul_le_mul_right this hupos

end Radix.Pool
