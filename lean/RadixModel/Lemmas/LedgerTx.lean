/-
C03 / C04 — transaction level: the committed-state invariant `Inv`, the application phase
(`runOps`) and the success path of `commitTx`.
-/
import RadixModel.Lemmas.LedgerFin
namespace Radix.Ledger

/-- The invariant of committed states (between transactions). -/
structure Inv (s : St) : Prop where
  vnodup : s.vaults.Nodup
  vdom : ∀ v r, s.vres v = some r → v ∈ s.vaults
  vresDom : ∀ v r, s.vres v = some r → s.res r ≠ none
  /-- recorded total supply = Σ of all vault balances, for every resource that tracks it -/
  supply_eq : ∀ r info, s.res r = some info → info.tracks = true → s.supply r = vsum s r
  /-- XRD exists and does not track its supply (the fee burn only emits an event) -/
  xrd : ∃ info, s.res XRD = some info ∧ info.tracks = false

theorem good_beginTx {s : St} (h : Inv s) : Good (beginTx s) := by
  refine ⟨⟨h.vnodup, by simp [beginTx], h.vdom, by intro b k hb; simp [beginTx] at hb, h.vresDom,
    by intro b k hb; simp [beginTx] at hb, by intro l hl; simp [beginTx] at hl⟩, ?_⟩
  intro r info hr ht
  have : bsum (beginTx s) r = 0 := rfl
  have h2 : fsum (beginTx s) r = 0 := by simp [fsum, beginTx, sumLocks]
  have h3 : vsum (beginTx s) r = vsum s r := rfl
  rw [this, h2, h3]
  have := h.supply_eq r info hr ht
  simp only [beginTx] at *
  omega

theorem runOps_good {s s1 : St} {ops : List Op} {e : Option Err} (h : Good s) (hr : runOps s ops = (s1, e)) :
    StepOk s s1 := by
  induction ops generalizing s with
  | nil =>
    simp only [runOps] at hr
    injection hr with h1 h2; subst h1
    exact ⟨h, fun _ => rfl, fun _ _ hx => hx⟩
  | cons op rest ih =>
    simp only [runOps] at hr
    split at hr
    · injection hr with h1 h2; subst h1
      exact ⟨h, fun _ => rfl, fun _ _ hx => hx⟩
    · rename_i s' hs
      have h1 := step_good h hs
      exact h1.trans (ih h1.1 hr)

theorem bsum_of_noBuckets {s : St} (h : noBuckets s = true) (r : Nat) : bsum s r = 0 := by
  unfold bsum
  apply sumOn_zero
  intro b hb
  unfold noBuckets at h
  have := List.all_eq_true.mp h b hb
  unfold bktOf
  cases hk : s.bkt b with
  | none => rfl
  | some k => rw [hk] at this; simp at this

end Radix.Ledger
