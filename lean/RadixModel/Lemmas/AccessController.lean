/-
Helper lemmas for C40 (access controller): histories as snoc-lists, the generic "pending slot"
invariant, per-slot update laws of `step`, auth facts derived from the generated table.
-/
import RadixModel.Model.AccessController

namespace Radix.AC

/-- induction from the right end of a list -/
theorem snoc_ind {α : Type} {P : List α → Prop} (h0 : P [])
    (hs : ∀ l a, P l → P (l ++ [a])) : ∀ l, P l := by
  intro l
  have : ∀ r : List α, P r.reverse := by
    intro r
    induction r with
    | nil => simpa using h0
    | cons a r ih => simpa using hs _ a ih
  simpa using this l.reverse

/-! ## `run` / `final` over appended histories -/

theorem final_append (c : Ctl) (ks ks' : List Call) :
    final c (ks ++ ks') = final (final c ks) ks' := by
  induction ks generalizing c with
  | nil => rfl
  | cons k ks ih => simp [final, ih]

theorem run_append (c : Ctl) (ks ks' : List Call) :
    run c (ks ++ ks') = run c ks ++ run (final c ks) ks' := by
  induction ks generalizing c with
  | nil => rfl
  | cons k ks ih => simp [run, final, ih]

theorem run_snoc (c : Ctl) (ks : List Call) (k : Call) :
    run c (ks ++ [k]) = run c ks ++ [entryOf (final c ks) k] := by
  rw [run_append]; rfl

theorem final_snoc (c : Ctl) (ks : List Call) (k : Call) :
    final c (ks ++ [k]) = next (final c ks) (stepCall (final c ks) k) := by
  rw [final_append]; rfl

/-- every logged entry is the real step of the call in the state it ran in -/
theorem run_entry_sound (c : Ctl) (ks : List Call) :
    ∀ e ∈ run c ks, e.result = stepCall e.before e.call := by
  induction ks generalizing c with
  | nil => intro e h; cases h
  | cons k ks ih =>
    intro e h
    simp only [run, List.mem_cons] at h
    rcases h with rfl | h
    · rfl
    · exact ih _ e h

/-! ## Generic pending-slot invariant

A *slot* is a piece of the state (`val`) that is set by some successful calls (`opens`), cleared by
others (`closes`) and untouched by the rest. If the slot holds `v` after a history, then the log
splits as `pre ++ ini :: mid` where `ini` is a successful call that opened the slot with `v` and
nothing in `mid` succeeded in closing or re-opening it. -/

def Pending {α : Type} (opens : Ctl → Call → Option α) (closes : Method → Bool) (v : α)
    (log : List Entry) : Prop :=
  ∃ pre ini mid, log = pre ++ ini :: mid ∧ ini.ok = true ∧ opens ini.before ini.call = some v ∧
    closes ini.call.m = false ∧
    ∀ x ∈ mid, x.ok = true → closes x.call.m = false ∧ opens x.before x.call = none

/-- the update law a slot must satisfy for successful steps -/
def SlotLaw {α : Type} (val : Ctl → Option α) (opens : Ctl → Call → Option α)
    (closes : Method → Bool) : Prop :=
  ∀ c k c' eff, stepCall c k = .ok (c', eff) →
    val c' = if closes k.m then none else
      match opens c k with
      | some v => some v
      | none => val c

theorem pending_of_law {α : Type} (val : Ctl → Option α) (opens : Ctl → Call → Option α)
    (closes : Method → Bool) (law : SlotLaw val opens closes)
    (c0 : Ctl) (h0 : val c0 = none) :
    ∀ ks v, val (final c0 ks) = some v → Pending opens closes v (run c0 ks) := by
  intro ks
  induction ks using snoc_ind with
  | h0 => intro v h; simp [final, h0] at h
  | hs ks k ih =>
    intro v h
    rw [final_snoc] at h
    rw [run_snoc]
    cases hs : stepCall (final c0 ks) k with
    | error e =>
      rw [hs] at h
      simp only [next] at h
      obtain ⟨pre, ini, mid, hl, h1, h2, h3, h4⟩ := ih v h
      refine ⟨pre, ini, mid ++ [entryOf (final c0 ks) k], by simp [hl], h1, h2, h3, ?_⟩
      intro x hx
      simp only [List.mem_append, List.mem_singleton] at hx
      rcases hx with hx | rfl
      · exact h4 x hx
      · intro hok; simp [entryOf, Entry.ok, hs] at hok
    | ok r =>
      obtain ⟨c', eff⟩ := r
      rw [hs] at h
      simp only [next] at h
      have hl := law _ _ _ _ hs
      rw [hl] at h
      by_cases hc : closes k.m = true
      · simp [hc] at h
      · have hc' : closes k.m = false := by simpa using hc
        simp only [hc', Bool.false_eq_true, if_false] at h
        cases ho : opens (final c0 ks) k with
        | some w =>
          rw [ho] at h
          simp only [Option.some.injEq] at h
          subst h
          refine ⟨run c0 ks, entryOf (final c0 ks) k, [], by simp, ?_, ?_, ?_, ?_⟩
          · simp [entryOf, Entry.ok, hs]
          · simpa [entryOf] using ho
          · simpa [entryOf] using hc'
          · intro x hx; cases hx
        | none =>
          rw [ho] at h
          simp only at h
          obtain ⟨pre, ini, mid, hl2, h1, h2, h3, h4⟩ := ih v h
          refine ⟨pre, ini, mid ++ [entryOf (final c0 ks) k], by simp [hl2], h1, h2, h3, ?_⟩
          intro x hx
          simp only [List.mem_append, List.mem_singleton] at hx
          rcases hx with hx | rfl
          · exact h4 x hx
          · intro _; exact ⟨by simpa [entryOf] using hc', by simpa [entryOf] using ho⟩

/-- converse direction: an opened and not since closed slot is still set -/
theorem set_of_pending {α : Type} (val : Ctl → Option α) (opens : Ctl → Call → Option α)
    (closes : Method → Bool) (law : SlotLaw val opens closes) (c0 : Ctl) :
    ∀ ks v, Pending opens closes v (run c0 ks) → val (final c0 ks) = some v := by
  intro ks
  induction ks using snoc_ind with
  | h0 =>
    intro v ⟨pre, ini, mid, hl, _⟩
    simp [run] at hl
  | hs ks k ih =>
    intro v ⟨pre, ini, mid, hl, h1, h2, h3, h4⟩
    rw [run_snoc] at hl
    rw [final_snoc]
    -- either the last entry is `ini` (mid = []) or it is the last element of mid
    rcases List.eq_nil_or_concat mid with hm | ⟨mid', x, hm⟩
    · subst hm
      have hl' : run c0 ks ++ [entryOf (final c0 ks) k] = pre ++ [ini] := by simpa using hl
      have := List.append_inj' hl' rfl
      obtain ⟨_, hlast⟩ := this
      simp only [List.cons.injEq, and_true] at hlast
      subst hlast
      cases hs : stepCall (final c0 ks) k with
      | error e => simp [entryOf, Entry.ok, hs] at h1
      | ok r =>
        obtain ⟨c', eff⟩ := r
        simp only [next]
        rw [law _ _ _ _ hs]
        simp only [entryOf] at h2 h3
        simp [h3, h2]
    · subst hm
      have hl' : run c0 ks ++ [entryOf (final c0 ks) k] = (pre ++ ini :: mid') ++ [x] := by
        simpa [List.concat_eq_append] using hl
      have := List.append_inj' hl' rfl
      obtain ⟨hpre, hlast⟩ := this
      simp only [List.cons.injEq, and_true] at hlast
      subst hlast
      have ihv := ih v ⟨pre, ini, mid', hpre, h1, h2, h3, fun y hy => h4 y (by simp [List.concat_eq_append, hy])⟩
      cases hs : stepCall (final c0 ks) k with
      | error e => simpa [next] using ihv
      | ok r =>
        obtain ⟨c', eff⟩ := r
        simp only [next]
        rw [law _ _ _ _ hs]
        have hx := h4 (entryOf (final c0 ks) k) (by simp [List.concat_eq_append]) (by simp [entryOf, Entry.ok, hs])
        simp only [entryOf] at hx
        simp [hx.1, hx.2, ihv]

/-- weaker premise (later re-openings allowed), weaker conclusion (the slot holds *some* value) -/
theorem isSome_of_opened {α : Type} (val : Ctl → Option α) (opens : Ctl → Call → Option α)
    (closes : Method → Bool) (law : SlotLaw val opens closes) (c0 : Ctl) :
    ∀ ks, (∃ pre ini mid, run c0 ks = pre ++ ini :: mid ∧ ini.ok = true ∧
        (opens ini.before ini.call).isSome = true ∧ closes ini.call.m = false ∧
        ∀ x ∈ mid, x.ok = true → closes x.call.m = false) →
      (val (final c0 ks)).isSome = true := by
  intro ks
  induction ks using snoc_ind with
  | h0 =>
    intro ⟨pre, ini, mid, hl, _⟩
    simp [run] at hl
  | hs ks k ih =>
    intro ⟨pre, ini, mid, hl, h1, h2, h3, h4⟩
    rw [run_snoc] at hl
    rw [final_snoc]
    rcases List.eq_nil_or_concat mid with hm | ⟨mid', x, hm⟩
    · subst hm
      have hl' : run c0 ks ++ [entryOf (final c0 ks) k] = pre ++ [ini] := by simpa using hl
      have := List.append_inj' hl' rfl
      obtain ⟨_, hlast⟩ := this
      simp only [List.cons.injEq, and_true] at hlast
      subst hlast
      cases hs : stepCall (final c0 ks) k with
      | error e => simp [entryOf, Entry.ok, hs] at h1
      | ok r =>
        obtain ⟨c', eff⟩ := r
        simp only [next]
        rw [law _ _ _ _ hs]
        simp only [entryOf] at h2 h3
        simp only [h3, Bool.false_eq_true, if_false]
        cases ho : opens (final c0 ks) k with
        | none => rw [ho] at h2; simp at h2
        | some w => simp
    · subst hm
      have hl' : run c0 ks ++ [entryOf (final c0 ks) k] = (pre ++ ini :: mid') ++ [x] := by
        simpa [List.concat_eq_append] using hl
      have := List.append_inj' hl' rfl
      obtain ⟨hpre, hlast⟩ := this
      simp only [List.cons.injEq, and_true] at hlast
      subst hlast
      have ihv := ih ⟨pre, ini, mid', hpre, h1, h2, h3, fun y hy => h4 y (by simp [List.concat_eq_append, hy])⟩
      cases hs : stepCall (final c0 ks) k with
      | error e => simpa [next] using ihv
      | ok r =>
        obtain ⟨c', eff⟩ := r
        simp only [next]
        rw [law _ _ _ _ hs]
        have hx := h4 (entryOf (final c0 ks) k) (by simp [List.concat_eq_append]) (by simp [entryOf, Entry.ok, hs])
        simp only [entryOf] at hx
        simp only [hx, Bool.false_eq_true, if_false]
        cases ho : opens (final c0 ks) k with
        | none => simpa using ihv
        | some w => simp

/-! ## The slots of the access controller -/

def isConfirm : Method → Bool
  | .qcPrimaryRec _ | .qcRecoveryRec _ | .qcPrimaryWd | .qcRecoveryWd | .timedConfirm _ => true
  | _ => false

-- primary role's recovery proposal
def valPrimRec (c : Ctl) : Option Proposal := c.st.primRec
def opensPrimRec (_ : Ctl) (k : Call) : Option Proposal :=
  match k.m with | .initRecPrimary p => some p | _ => none
def closesPrimRec (m : Method) : Bool := isConfirm m || m == .cancelPrimaryRec

-- recovery role's recovery proposal (timed or not)
def valRecRec (c : Ctl) : Option Proposal :=
  match c.st.recRec with | .none => none | .untimed p => some p | .timed p _ => some p
def opensRecRec (_ : Ctl) (k : Call) : Option Proposal :=
  match k.m with | .initRecRecovery p => some p | _ => none
def closesRecRec (m : Method) : Bool := isConfirm m || m == .cancelRecoveryRec

-- the running timer of the recovery role's proposal: (proposal, allowed-after seconds)
def valTimer (c : Ctl) : Option (Proposal × Int) :=
  match c.st.recRec with | .timed p t => some (p, t) | _ => none
def opensTimer (c : Ctl) (k : Call) : Option (Proposal × Int) :=
  match k.m with
  | .initRecRecovery p =>
    match c.delay with
    | some d => some (p, currentInstant k.now + Int.ofNat d * 60)
    | none => none
  | _ => none
def closesTimer (m : Method) : Bool :=
  isConfirm m || m == .cancelRecoveryRec || (match m with | .stopTimed _ => true | _ => false)

-- badge withdraw attempts
def valPrimWd (c : Ctl) : Option Unit := if c.st.primWd then some () else none
def opensPrimWd (_ : Ctl) (k : Call) : Option Unit :=
  match k.m with | .initWdPrimary => some () | _ => none
def closesPrimWd (m : Method) : Bool := isConfirm m || m == .cancelPrimaryWd

def valRecWd (c : Ctl) : Option Unit := if c.st.recWd then some () else none
def opensRecWd (_ : Ctl) (k : Call) : Option Unit :=
  match k.m with | .initWdRecovery => some () | _ => none
def closesRecWd (m : Method) : Bool := isConfirm m || m == .cancelRecoveryWd

-- the primary-role lock
def valLock (c : Ctl) : Option Unit := if c.st.locked then some () else none
def opensLock (_ : Ctl) (k : Call) : Option Unit :=
  match k.m with | .lockPrimary => some () | _ => none
def closesLock (m : Method) : Bool := isConfirm m || m == .unlockPrimary

theorem addMinutes_some {s m t : Int} (h : addMinutes s m = some t) : t = s + m * 60 := by
  unfold addMinutes at h
  simp only at h
  split at h
  · split at h
    · simpa using h.symm
    · cases h
  · cases h

/-- a successful step passed the auth layer and is a successful `transition` -/
theorem step_ok_transition {c : Ctl} {held : List Nat} {now : Int} {m : Method} {r : Ctl × Effect}
    (h : step c held now m = .ok r) : transition c now m = .ok r := by
  unfold step at h
  split at h
  · cases h
  · exact h
  · split at h
    · cases h
    · exact h

macro "slot_law_tac" : tactic => `(tactic| (
  intro c k c' eff h
  have ht := step_ok_transition h
  obtain ⟨held, now, m⟩ := k
  simp only at ht ⊢
  cases m <;> simp only [transition] at ht <;>
    (repeat' split at ht) <;>
    first
    | (cases ht; done)
    | (simp only [Except.ok.injEq, Prod.mk.injEq, Ctl.withSt, Ctl.recovered, Ctl.withdrawn] at ht
       obtain ⟨hc1, hc2⟩ := ht
       subst hc1; subst hc2
       simp_all [St.default, isConfirm]) ))

theorem law_primRec : SlotLaw valPrimRec opensPrimRec closesPrimRec := by
  unfold SlotLaw valPrimRec opensPrimRec closesPrimRec stepCall
  slot_law_tac

theorem law_recRec : SlotLaw valRecRec opensRecRec closesRecRec := by
  unfold SlotLaw valRecRec opensRecRec closesRecRec stepCall
  slot_law_tac

theorem law_timer : SlotLaw valTimer opensTimer closesTimer := by
  unfold SlotLaw valTimer opensTimer closesTimer stepCall
  slot_law_tac
  all_goals (have := addMinutes_some ‹addMinutes _ _ = some _›; simp_all)

theorem law_primWd : SlotLaw valPrimWd opensPrimWd closesPrimWd := by
  unfold SlotLaw valPrimWd opensPrimWd closesPrimWd stepCall
  slot_law_tac

theorem law_recWd : SlotLaw valRecWd opensRecWd closesRecWd := by
  unfold SlotLaw valRecWd opensRecWd closesRecWd stepCall
  slot_law_tac

theorem law_lock : SlotLaw valLock opensLock closesLock := by
  unfold SlotLaw valLock opensLock closesLock stepCall
  slot_law_tac

/-- no method writes `timed_recovery_delay_in_minutes` -/
theorem step_delay {c : Ctl} {held : List Nat} {now : Int} {m : Method} {c' : Ctl} {eff : Effect}
    (h : step c held now m = .ok (c', eff)) : c'.delay = c.delay := by
  have ht := step_ok_transition h
  cases m <;> simp only [transition] at ht <;>
    (repeat' split at ht) <;>
    first
    | (cases ht; done)
    | (simp only [Except.ok.injEq, Prod.mk.injEq, Ctl.withSt, Ctl.recovered, Ctl.withdrawn] at ht
       obtain ⟨hc1, _⟩ := ht
       subst hc1
       rfl)

theorem final_delay (c0 : Ctl) (ks : List Call) : (final c0 ks).delay = c0.delay := by
  induction ks generalizing c0 with
  | nil => rfl
  | cons k ks ih =>
    simp only [final]
    rw [ih]
    cases hs : stepCall c0 k with
    | error e => rfl
    | ok r => obtain ⟨c', eff⟩ := r; exact step_delay hs

theorem run_before_delay (c0 : Ctl) (ks : List Call) :
    ∀ e ∈ run c0 ks, e.before.delay = c0.delay := by
  induction ks generalizing c0 with
  | nil => intro e h; cases h
  | cons k ks ih =>
    intro e h
    simp only [run, List.mem_cons] at h
    rcases h with rfl | h
    · rfl
    · rw [ih _ e h]
      cases hs : stepCall c0 k with
      | error e => rfl
      | ok r => obtain ⟨c', eff⟩ := r; exact step_delay hs

/-! ## Auth facts -/

/-- `r` is one of the roles the method's table entry lists -/
def allowedFor (m : Method) (r : Role) : Prop :=
  ∃ codes k, accessOf m = some (some codes) ∧ k ∈ codes ∧ Role.ofCode k = some r

/-- a successful call of a role-protected method was made by a caller whose badges satisfy the
current rule of one of the listed roles -/
theorem step_ok_role {c : Ctl} {held : List Nat} {now : Int} {m : Method} {r : Ctl × Effect}
    {codes : List Nat} (ha : accessOf m = some (some codes)) (h : step c held now m = .ok r) :
    ∃ role, allowedFor m role ∧ (c.roles.get role).sat held = true := by
  unfold step at h
  rw [ha] at h
  simp only at h
  split at h
  · cases h
  · rename_i hne
    unfold authRoles at hne
    rw [ha] at hne
    simp only at hne
    cases hl : codes.filterMap (heldRole c.roles held) with
    | nil => rw [hl] at hne; simp at hne
    | cons role rest =>
      have hmem : role ∈ codes.filterMap (heldRole c.roles held) := by rw [hl]; simp
      rw [List.mem_filterMap] at hmem
      obtain ⟨k, hk, hk2⟩ := hmem
      unfold heldRole at hk2
      cases hr : Role.ofCode k with
      | none => rw [hr] at hk2; cases hk2
      | some r' =>
        rw [hr] at hk2
        simp only at hk2
        split at hk2
        · rename_i hsat
          simp only [Option.some.injEq] at hk2
          subst hk2
          exact ⟨r', ⟨codes, k, ha, hk, hr⟩, hsat⟩
        · cases hk2

end Radix.AC
