/-
C16 — helper lemmas for the `SpreadPrefixKeyMapper` model (`Model/KeyMapper.lean`).
-/
import RadixModel.Model.KeyMapper
namespace Radix.KeyMapper

/-- The only assumption on the hash: its output length. -/
def HashLen (H : Bytes → Bytes) : Prop := ∀ x, (H x).length = HASH_LEN

/-- side condition on the regenerated constants: the hashed prefix is not longer than a hash. -/
theorem HPL_le_HASH_LEN : HPL ≤ HASH_LEN := by decide

theorem one_lt_HPL : 1 < HPL := by decide

theorem two_le_HPL : 2 ≤ HPL := by decide

/-- the hashed prefix of `b` -/
def hp (H : Bytes → Bytes) (b : Bytes) : Bytes := (H b).take HPL

theorem hp_length {H} (hH : HashLen H) (b : Bytes) : (hp H b).length = HPL := by
  have := hH b
  have := HPL_le_HASH_LEN
  simp [hp, List.length_take]; omega

theorem toHashPrefixed_eq {H} (hH : HashLen H) (b : Bytes) :
    toHashPrefixed H b = some (hp H b ++ b) := by
  have h1 := hH b
  have h2 := HPL_le_HASH_LEN
  have h3 : HPL ≤ (H b).length := by omega
  simp [toHashPrefixed, sliceTo, hp, h3]

theorem fromHashPrefixed_append (pre b : Bytes) (h : pre.length = HPL) :
    fromHashPrefixed (pre ++ b) = some b := by
  simp [fromHashPrefixed, sliceFrom, h, List.drop_left' h]

theorem fromHashPrefixed_eq (k : Bytes) :
    fromHashPrefixed k = if HPL ≤ k.length then some (k.drop HPL) else none := by
  simp [fromHashPrefixed, sliceFrom]

/-! ### byte-lexicographic order -/

theorem lexLt_irrefl : ∀ a : Bytes, lexLt a a = false
  | [] => rfl
  | x :: xs => by
    have : ¬ x < x := by simp
    simp [lexLt, this, lexLt_irrefl xs]

theorem lexLt_asymm : ∀ a b : Bytes, lexLt a b = true → lexLt b a = false
  | [], [] => by simp [lexLt]
  | [], _ :: _ => by simp [lexLt]
  | _ :: _, [] => by simp [lexLt]
  | x :: xs, y :: ys => by
    simp only [lexLt]
    by_cases h1 : x < y
    · have h2 : ¬ y < x := by simp [UInt8.lt_iff_toNat_lt] at *; omega
      simp [h1, h2]
    · by_cases h2 : y < x
      · simp [h1, h2]
      · simp only [h1, h2, if_false]
        exact lexLt_asymm xs ys

theorem u8_tri (x y : UInt8) : x < y ∨ x = y ∨ y < x := by
  simp only [UInt8.lt_iff_toNat_lt, ← UInt8.toNat_inj]; omega

theorem u8_lt_irrefl (x : UInt8) : ¬ x < x := by simp

theorem u8_lt_asymm {x y : UInt8} (h : x < y) : ¬ y < x := by
  simp only [UInt8.lt_iff_toNat_lt] at *; omega

theorem u8_lt_trans {x y z : UInt8} (h : x < y) (h' : y < z) : x < z := by
  simp only [UInt8.lt_iff_toNat_lt] at *; omega

theorem lexLt_trans : ∀ a b c : Bytes, lexLt a b = true → lexLt b c = true → lexLt a c = true
  | [], [], _ => by simp [lexLt]
  | [], _ :: _, [] => by simp [lexLt]
  | [], _ :: _, _ :: _ => by simp [lexLt]
  | _ :: _, [], _ => by simp [lexLt]
  | _ :: _, _ :: _, [] => by simp [lexLt]
  | x :: xs, y :: ys, z :: zs => by
    intro h1 h2
    simp only [lexLt] at h1 h2 ⊢
    rcases u8_tri x y with hxy | hxy | hxy
    · rcases u8_tri y z with hyz | hyz | hyz
      · simp [u8_lt_trans hxy hyz]
      · subst hyz; simp [hxy]
      · simp [u8_lt_asymm hyz, hyz] at h2
    · subst hxy
      simp only [u8_lt_irrefl x, if_false] at h1
      rcases u8_tri x z with hxz | hxz | hxz
      · simp [hxz]
      · subst hxz
        simp only [u8_lt_irrefl x, if_false] at h2 ⊢
        exact lexLt_trans xs ys zs h1 h2
      · simp [u8_lt_asymm hxz, hxz] at h2
    · simp [u8_lt_asymm hxy, hxy] at h1

theorem lexLt_total : ∀ a b : Bytes, lexLt a b = true ∨ a = b ∨ lexLt b a = true
  | [], [] => by simp
  | [], _ :: _ => by simp [lexLt]
  | _ :: _, [] => by simp [lexLt]
  | x :: xs, y :: ys => by
    simp only [lexLt]
    by_cases h1 : x < y
    · simp [h1]
    · by_cases h2 : y < x
      · simp [h1, h2]
      · have hxy : x = y := by
          simp only [UInt8.lt_iff_toNat_lt, ← UInt8.toNat_inj] at *; omega
        subst hxy
        simp only [h1, if_false]
        rcases lexLt_total xs ys with h | h | h
        · exact Or.inl h
        · exact Or.inr (Or.inl (by rw [h]))
        · exact Or.inr (Or.inr h)

/-- `lexLt` is the core order `<` on `List UInt8`. -/
theorem lexLt_iff_lt : ∀ a b : Bytes, lexLt a b = true ↔ a < b
  | [], [] => by simp [lexLt]
  | [], _ :: _ => by simp [lexLt]
  | _ :: _, [] => by simp [lexLt]
  | x :: xs, y :: ys => by
    rw [List.cons_lt_cons_iff]
    simp only [lexLt]
    by_cases h1 : x < y
    · simp [h1]
    · by_cases h2 : y < x
      · have : x ≠ y := by
          intro e; subst e; exact h1 h2
        simp [h1, h2, this]
      · have hxy : x = y := by
          simp only [UInt8.lt_iff_toNat_lt, ← UInt8.toNat_inj] at *; omega
        subst hxy
        simp only [h1, if_false, false_or, true_and]
        exact lexLt_iff_lt xs ys

/-- Equal-length prefixes decide the order of the concatenations. -/
theorem lexLt_append_of_lt : ∀ (p q : Bytes), p.length = q.length → lexLt p q = true →
    ∀ a b : Bytes, lexLt (p ++ a) (q ++ b) = true
  | [], [], _, h => by simp [lexLt] at h
  | [], _ :: _, hl, _ => by simp at hl
  | _ :: _, [], hl, _ => by simp at hl
  | x :: xs, y :: ys, hl, h => by
    intro a b
    simp only [List.cons_append, lexLt] at *
    by_cases h1 : x < y
    · simp [h1]
    · by_cases h2 : y < x
      · simp [h1, h2] at h
      · simp only [h1, h2, if_false] at h ⊢
        exact lexLt_append_of_lt xs ys (by simpa using hl) h a b

theorem lexLt_append_same : ∀ (p a b : Bytes), lexLt (p ++ a) (p ++ b) = lexLt a b
  | [], _, _ => rfl
  | x :: xs, a, b => by
    have : ¬ x < x := by simp
    simp [lexLt, this, lexLt_append_same xs a b]

theorem be16_length (v : Nat) : (be16 v).length = 2 := rfl

theorem be16_lt {a b : Nat} (hb : b < 65536) (h : a < b) : lexLt (be16 a) (be16 b) = true := by
  have ha : a < 65536 := by omega
  simp only [be16, lexLt, UInt8.lt_iff_toNat_lt, UInt8.toNat_ofNat']
  have e1 : a / 256 % 2 ^ 8 = a / 256 := Nat.mod_eq_of_lt (by omega)
  have e2 : b / 256 % 2 ^ 8 = b / 256 := Nat.mod_eq_of_lt (by omega)
  have e3 : a % 256 % 2 ^ 8 = a % 256 := Nat.mod_eq_of_lt (by omega)
  have e4 : b % 256 % 2 ^ 8 = b % 256 := Nat.mod_eq_of_lt (by omega)
  rw [e1, e2, e3, e4]
  by_cases h1 : a / 256 < b / 256
  · simp [h1]
  · have h2 : ¬ b / 256 < a / 256 := by omega
    have h3 : a % 256 < b % 256 := by omega
    simp [h1, h2, h3]

end Radix.KeyMapper
