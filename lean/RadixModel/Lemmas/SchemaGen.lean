/-
The hypotheses `EnvOK` / `WkClosed` hold for the environment regenerated from the compiled tree
(`Generated/SborSchema.lean`): re-checked by `lake build` on every run.
-/
import RadixModel.Lemmas.SchemaKernel

namespace Radix.Schema
open Radix.Generated

def isWkId : TypeId → Bool
  | .wk _ => true
  | .loc _ => false

/-- every entry of the generated table parses, and its children are well-known ids -/
def wkEntryOk (e : Nat × List Nat) : Bool :=
  match pTypeData e.2 with
  | some (td, []) => (childrenOf td.kind).all isWkId
  | _ => false

theorem wk_table_ok : SborSchema.WELL_KNOWN.all wkEntryOk = true := by decide

theorem genEnv_any : genEnv.wk genEnv.anyId = some ⟨.any, ⟨none, .none⟩, .none⟩ := by decide

theorem subset_of_all {l m : List Nat} (h : l.all (fun b => m.contains b) = true) (b : Nat) :
    l.contains b = true → m.contains b = true := by
  intro hb
  rw [List.all_eq_true] at h
  exact h b (by simpa using hb)

theorem genEnv_ok : EnvOK genEnv where
  any := ⟨_, genEnv_any⟩
  pkg := subset_of_all (by decide)
  comp := subset_of_all (by decide)
  res := subset_of_all (by decide)

theorem genEnv_wkClosed : WkClosed genEnv := by
  intro x td h t ht
  simp only [genEnv, genWk] at h
  cases hl : alookup x SborSchema.WELL_KNOWN with
  | none => simp [hl] at h
  | some toks =>
    simp only [hl] at h
    have hmem := alookup_mem hl
    have hall := wk_table_ok
    rw [List.all_eq_true] at hall
    have := hall _ hmem
    unfold wkEntryOk at this
    cases hp : pTypeData toks with
    | none => simp [hp] at h
    | some r =>
      obtain ⟨td', rest⟩ := r
      cases rest with
      | cons a as => simp [hp] at h
      | nil =>
        simp only [hp, Option.some.injEq] at h this
        subst h
        rw [List.all_eq_true] at this
        have ht' := this t ht
        cases t with
        | wk y => exact ⟨y, rfl⟩
        | loc i => simp [isWkId] at ht'

end Radix.Schema
