/-
Helper lemmas for C22 / C23: validation against `Any`, independence of well-known types from the
schema, node-level monotonicity of validations.
-/
import RadixModel.Model.SchemaCompare

namespace Radix.Schema
open Radix.Sbor

/-- What the theorems need from the custom schema: the well-known id `anyId` is the unnamed,
unvalidated `Any` type; "global package / component / resource manager" node ids are global. -/
structure EnvOK (env : Env) : Prop where
  any : ∃ m, env.wk env.anyId = some ⟨.any, m, .none⟩
  pkg : ∀ b, env.entGlobalPackage b = true → env.entGlobal b = true
  comp : ∀ b, env.entGlobalComponent b = true → env.entGlobal b = true
  res : ∀ b, env.entGlobalResourceManager b = true → env.entGlobal b = true

theorem lookKind_any {env : Env} (h : EnvOK env) (S : Schema) : lookKind env S (anyTid env) = .ok .any := by
  obtain ⟨m, hm⟩ := h.any
  simp [lookKind, resolveKind, anyTid, hm]

theorem resolveValidation_any {env : Env} (h : EnvOK env) (S : Schema) :
    resolveValidation env S (anyTid env) = some .none := by
  obtain ⟨m, hm⟩ := h.any
  simp [resolveValidation, anyTid, hm]

theorem validateContainer_any {env : Env} (h : EnvOK env) (S : Schema) (hd : Hdr) :
    validateContainer env S (anyTid env) hd = .ok () := by
  simp [validateContainer, containerCheck, resolveValidation_any h]

theorem valueKindMatches_any (vk : VK ScryptoKind) : valueKindMatches vk .any = true := by
  simp [valueKindMatches]

theorem terminal_any {env : Env} (h : EnvOK env) (S : Schema) (v : SV)
    (hv : match v with | .custom _ => True | .bool _ => True | .int _ _ => True | .string _ => True | _ => False) :
    terminal env S (anyTid env) v = .ok () := by
  unfold terminal
  rw [lookKind_any h]
  simp only [valueKindMatches_any, Bool.not_true, Bool.false_eq_true, if_false]
  cases v <;> simp_all [validateCustom, validateTerminalValue, customCheck, termCheck, resolveValidation_any h]

theorem validateBatch_any {env : Env} (h : EnvOK env) (S : Schema) (es : List SV) :
    validateBatch env S (anyTid env) es = .ok () := by
  simp [validateBatch, batchCheck, lookKind_any h, valueKindMatches_any, resolveValidation_any h]

mutual
/-- Every value validates against the well-known `Any` type (in any schema). -/
theorem validate_any {env : Env} (h : EnvOK env) (S : Schema) : ∀ v : SV, validate env S (anyTid env) v = .ok ()
  | .tuple fs => by
    simp only [validate, startTuple, lookKind_any h, validateContainer_any h]
    exact validateFields_any h S fs
  | .enum d fs => by
    simp only [validate, startEnum, lookKind_any h, validateContainer_any h]
    exact validateFields_any h S fs
  | .array ek es => by
    simp only [validate, startArray, lookKind_any h, validateContainer_any h]
    split
    · split
      · rfl
      · exact validateBatch_any h S es
    · exact validateAll_any h S es
  | .map kk vk es => by
    simp only [validate, startMap, lookKind_any h, validateContainer_any h]
    exact validateEntries_any h S es
  | .bool b => by simp only [validate]; exact terminal_any h S _ trivial
  | .int k x => by simp only [validate]; exact terminal_any h S _ trivial
  | .string s => by simp only [validate]; exact terminal_any h S _ trivial
  | .custom c => by simp only [validate]; exact terminal_any h S _ trivial
theorem validateFields_any {env : Env} (h : EnvOK env) (S : Schema) :
    ∀ fs : List SV, validateFields env S (List.replicate fs.length (anyTid env)) fs = .ok ()
  | [] => by simp [validateFields]
  | v :: vs => by
    simp only [List.length_cons, List.replicate_succ, validateFields, validate_any h S v]
    exact validateFields_any h S vs
theorem validateAll_any {env : Env} (h : EnvOK env) (S : Schema) :
    ∀ es : List SV, validateAll env S (anyTid env) es = .ok ()
  | [] => by simp [validateAll]
  | v :: vs => by
    simp only [validateAll, validate_any h S v]
    exact validateAll_any h S vs
theorem validateEntries_any {env : Env} (h : EnvOK env) (S : Schema) :
    ∀ es : List (SV × SV), validateEntries env S (anyTid env) (anyTid env) es = .ok ()
  | [] => by simp [validateEntries]
  | (k, v) :: es => by
    simp only [validateEntries, validate_any h S k, validate_any h S v]
    exact validateEntries_any h S es
end

end Radix.Schema
