/-
Lemmas about the containers of `Model/KV.lean`: sorted association lists (`SMap`), insertion-ordered
association lists (`IMap`) and the overlaying iterator.
-/
import RadixModel.Model.KV
namespace Radix.KV

variable {V : Type}

/-! ### SMap -/

@[simp] theorem SMap.get?_nil (k : Nat) : SMap.get? ([] : List (Nat × V)) k = none := rfl

theorem SMap.get?_cons (k' : Nat) (v : V) (t : List (Nat × V)) (k : Nat) :
    SMap.get? ((k', v) :: t) k = if k = k' then some v else SMap.get? t k := rfl

theorem SMap.get?_insert (m : List (Nat × V)) (k : Nat) (v : V) (k' : Nat) :
    SMap.get? (SMap.insert m k v) k' = if k' = k then some v else SMap.get? m k' := by
  induction m with
  | nil => simp [SMap.insert, SMap.get?_cons]
  | cons hd t ih =>
    obtain ⟨a, b⟩ := hd
    simp only [SMap.insert]
    split
    · simp [SMap.get?_cons]
    · split
      · subst_vars; simp only [SMap.get?_cons]; split <;> rfl
      · simp only [SMap.get?_cons, ih]
        split <;> split <;> first | rfl | omega

theorem SMap.get?_erase (m : List (Nat × V)) (k k' : Nat) :
    SMap.get? (SMap.erase m k) k' = if k' = k then none else SMap.get? m k' := by
  induction m with
  | nil => simp [SMap.erase]
  | cons hd t ih =>
    obtain ⟨a, b⟩ := hd
    simp only [SMap.erase]
    split
    · subst_vars; rw [ih]; simp only [SMap.get?_cons]; split <;> rfl
    · simp only [SMap.get?_cons, ih]
      split <;> split <;> first | rfl | omega

theorem SMap.get?_eq_none_of_lt (m : List (Nat × V)) (k : Nat)
    (h : ∀ x ∈ m, k < x.1) : SMap.get? m k = none := by
  induction m with
  | nil => rfl
  | cons hd t ih =>
    obtain ⟨a, b⟩ := hd
    have h1 := h (a, b) (by simp)
    simp only [SMap.get?_cons]
    have : ¬ k = a := by simp at h1; omega
    simp only [this, if_false]
    exact ih (fun x hx => h x (by simp [hx]))

theorem SMap.mem_of_get? (m : List (Nat × V)) (k : Nat) (v : V)
    (h : SMap.get? m k = some v) : (k, v) ∈ m := by
  induction m with
  | nil => simp at h
  | cons hd t ih =>
    obtain ⟨a, b⟩ := hd
    simp only [SMap.get?_cons] at h
    split at h
    · subst_vars; simp at h; subst h; simp
    · simp [ih h]

theorem SMap.insert_lb (m : List (Nat × V)) (k : Nat) (v : V) (b : Nat)
    (hb : ∀ x ∈ m, b < x.1) (hk : b < k) : ∀ x ∈ SMap.insert m k v, b < x.1 := by
  induction m with
  | nil => intro x hx; simp [SMap.insert] at hx; subst hx; exact hk
  | cons hd t ih =>
    obtain ⟨a, c⟩ := hd
    intro x hx
    simp only [SMap.insert] at hx
    split at hx
    · simp only [List.mem_cons] at hx
      rcases hx with rfl | rfl | hx
      · exact hk
      · exact hb _ (by simp)
      · exact hb _ (by simp [hx])
    · split at hx
      · simp only [List.mem_cons] at hx
        rcases hx with rfl | hx
        · exact hk
        · exact hb _ (by simp [hx])
      · simp only [List.mem_cons] at hx
        rcases hx with rfl | hx
        · exact hb _ (by simp)
        · exact ih (fun y hy => hb y (by simp [hy])) x hx

theorem SMap.sorted_insert (m : List (Nat × V)) (k : Nat) (v : V) (h : SMap.Sorted m) :
    SMap.Sorted (SMap.insert m k v) := by
  induction m with
  | nil => simp [SMap.insert, SMap.Sorted]
  | cons hd t ih =>
    obtain ⟨a, c⟩ := hd
    unfold SMap.Sorted at h ih ⊢
    rw [List.pairwise_cons] at h
    simp only [SMap.insert]
    split
    · rw [List.pairwise_cons, List.pairwise_cons]
      refine ⟨?_, h.1, h.2⟩
      intro x hx
      simp only [List.mem_cons] at hx
      rcases hx with rfl | hx
      · assumption
      · have := h.1 x hx; simp at *; omega
    · split
      · subst_vars
        rw [List.pairwise_cons]
        exact ⟨h.1, h.2⟩
      · rw [List.pairwise_cons]
        refine ⟨?_, ih h.2⟩
        exact SMap.insert_lb t k v a h.1 (by simp at *; omega)

theorem SMap.erase_sub (m : List (Nat × V)) (k : Nat) : ∀ x ∈ SMap.erase m k, x ∈ m := by
  induction m with
  | nil => simp [SMap.erase]
  | cons hd t ih =>
    obtain ⟨a, c⟩ := hd
    intro x hx
    simp only [SMap.erase] at hx
    split at hx
    · simp [ih x hx]
    · simp only [List.mem_cons] at hx ⊢
      rcases hx with rfl | hx
      · simp
      · exact Or.inr (ih x hx)

theorem SMap.sorted_erase (m : List (Nat × V)) (k : Nat) (h : SMap.Sorted m) :
    SMap.Sorted (SMap.erase m k) := by
  induction m with
  | nil => simp [SMap.erase, SMap.Sorted]
  | cons hd t ih =>
    obtain ⟨a, c⟩ := hd
    unfold SMap.Sorted at h ih ⊢
    rw [List.pairwise_cons] at h
    simp only [SMap.erase]
    split
    · exact ih h.2
    · rw [List.pairwise_cons]
      exact ⟨fun x hx => h.1 x (SMap.erase_sub t k x hx), ih h.2⟩

/-- Two strictly sorted association lists with the same lookups are equal. -/
theorem SMap.ext (m1 m2 : List (Nat × V)) (h1 : SMap.Sorted m1) (h2 : SMap.Sorted m2)
    (h : ∀ k, SMap.get? m1 k = SMap.get? m2 k) : m1 = m2 := by
  induction m1 generalizing m2 with
  | nil =>
    cases m2 with
    | nil => rfl
    | cons hd t =>
      obtain ⟨a, c⟩ := hd
      have := h a
      simp [SMap.get?_cons] at this
  | cons hd t ih =>
    obtain ⟨a, c⟩ := hd
    cases m2 with
    | nil =>
      have := h a
      simp [SMap.get?_cons] at this
    | cons hd2 t2 =>
      obtain ⟨a2, c2⟩ := hd2
      unfold SMap.Sorted at h1 h2
      rw [List.pairwise_cons] at h1 h2
      have e1 : SMap.get? t a = none := SMap.get?_eq_none_of_lt t a h1.1
      have e2 : SMap.get? t2 a2 = none := SMap.get?_eq_none_of_lt t2 a2 h2.1
      have haa : a = a2 := by
        rcases Nat.lt_trichotomy a a2 with hlt | heq | hgt
        · exfalso
          have := h a
          simp only [SMap.get?_cons, if_true] at this
          have hne : ¬ a = a2 := by omega
          simp only [hne, if_false] at this
          have hnone : SMap.get? t2 a = none :=
            SMap.get?_eq_none_of_lt t2 a (fun x hx => by have := h2.1 x hx; simp at *; omega)
          rw [hnone] at this; simp at this
        · exact heq
        · exfalso
          have := h a2
          simp only [SMap.get?_cons, if_true] at this
          have hne : ¬ a2 = a := by omega
          simp only [hne, if_false] at this
          have hnone : SMap.get? t a2 = none :=
            SMap.get?_eq_none_of_lt t a2 (fun x hx => by have := h1.1 x hx; simp at *; omega)
          rw [hnone] at this; simp at this
      subst haa
      have hc : c = c2 := by
        have := h a
        simpa [SMap.get?_cons] using this
      subst hc
      congr 1
      apply ih t2 h1.2 h2.2
      intro k
      have := h k
      simp only [SMap.get?_cons] at this
      by_cases hk : k = a
      · subst hk; rw [e1, e2]
      · simpa [hk] using this

theorem SMap.get?_of_mem (m : List (Nat × V)) (h : SMap.Sorted m) (k : Nat) (v : V)
    (hm : (k, v) ∈ m) : SMap.get? m k = some v := by
  induction m with
  | nil => simp at hm
  | cons hd t ih =>
    obtain ⟨a, c⟩ := hd
    unfold SMap.Sorted at h ih
    rw [List.pairwise_cons] at h
    simp only [List.mem_cons] at hm
    simp only [SMap.get?_cons]
    rcases hm with heq | hm
    · cases heq; simp
    · have := h.1 _ hm
      have hne : ¬ k = a := by simp at this; omega
      simp only [hne, if_false]
      exact ih h.2 hm

theorem SMap.mem_iff_get? (m : List (Nat × V)) (h : SMap.Sorted m) (k : Nat) (v : V) :
    (k, v) ∈ m ↔ SMap.get? m k = some v :=
  ⟨SMap.get?_of_mem m h k v, SMap.mem_of_get? m k v⟩

/-- last binding of `k` in an (unsorted, possibly duplicated) list -/
def lastBinding : List (Nat × V) → Nat → Option V
  | [], _ => none
  | (k', v) :: t, k =>
    match lastBinding t k with
    | some x => some x
    | none => if k = k' then some v else none

theorem SMap.get?_foldl_insert (l : List (Nat × V)) (m : List (Nat × V)) (k : Nat) :
    SMap.get? (l.foldl (fun m kv => SMap.insert m kv.1 kv.2) m) k
      = match lastBinding l k with
        | some x => some x
        | none => SMap.get? m k := by
  induction l generalizing m with
  | nil => rfl
  | cons hd t ih =>
    obtain ⟨a, c⟩ := hd
    simp only [List.foldl_cons, ih, lastBinding]
    cases lastBinding t k with
    | some x => rfl
    | none =>
      simp only [SMap.get?_insert]
      split <;> rfl

theorem SMap.get?_ofList (l : List (Nat × V)) (k : Nat) :
    SMap.get? (SMap.ofList l) k = lastBinding l k := by
  unfold SMap.ofList
  rw [SMap.get?_foldl_insert]
  cases lastBinding l k <;> rfl

theorem SMap.sorted_foldl_insert (l : List (Nat × V)) (m : List (Nat × V)) (h : SMap.Sorted m) :
    SMap.Sorted (l.foldl (fun m kv => SMap.insert m kv.1 kv.2) m) := by
  induction l generalizing m with
  | nil => exact h
  | cons hd t ih => exact ih _ (SMap.sorted_insert m hd.1 hd.2 h)

theorem SMap.sorted_ofList (l : List (Nat × V)) : SMap.Sorted (SMap.ofList l) :=
  SMap.sorted_foldl_insert l [] (by simp [SMap.Sorted])

theorem SMap.from_sub (m : List (Nat × V)) (f : Nat) : ∀ x ∈ SMap.from m f, x ∈ m := by
  induction m with
  | nil => simp [SMap.from]
  | cons hd t ih =>
    obtain ⟨a, c⟩ := hd
    intro x hx
    simp only [SMap.from] at hx
    split at hx
    · simp [ih x hx]
    · exact hx

theorem SMap.sorted_from (m : List (Nat × V)) (f : Nat) (h : SMap.Sorted m) :
    SMap.Sorted (SMap.from m f) := by
  induction m with
  | nil => simp [SMap.from, SMap.Sorted]
  | cons hd t ih =>
    obtain ⟨a, c⟩ := hd
    unfold SMap.Sorted at h ih ⊢
    simp only [SMap.from]
    split
    · exact ih (List.pairwise_cons.mp h).2
    · exact h

theorem SMap.get?_from (m : List (Nat × V)) (f : Nat) (h : SMap.Sorted m) (k : Nat) :
    SMap.get? (SMap.from m f) k = if k < f then none else SMap.get? m k := by
  induction m with
  | nil => simp [SMap.from]
  | cons hd t ih =>
    obtain ⟨a, c⟩ := hd
    unfold SMap.Sorted at h ih
    rw [List.pairwise_cons] at h
    simp only [SMap.from]
    split
    · rw [ih h.2]
      simp only [SMap.get?_cons]
      split
      · rfl
      · have : ¬ k = a := by omega
        simp [this]
    · split
      · rename_i h1 h2
        apply SMap.get?_eq_none_of_lt
        intro x hx
        simp only [List.mem_cons] at hx
        rcases hx with rfl | hx
        · simp; omega
        · have := h.1 x hx; simp at *; omega
      · rfl

/-! ### IMap -/

section IMap
variable {K W : Type} [DecidableEq K]

@[simp] theorem IMap.get?_nil (k : K) : IMap.get? ([] : List (K × W)) k = none := rfl

theorem IMap.get?_cons (k' : K) (v : W) (t : List (K × W)) (k : K) :
    IMap.get? ((k', v) :: t) k = if k = k' then some v else IMap.get? t k := rfl

theorem IMap.get?_set (m : List (K × W)) (k : K) (v : W) (k' : K) :
    IMap.get? (IMap.set m k v) k' = if k' = k then some v else IMap.get? m k' := by
  induction m with
  | nil => simp [IMap.set, IMap.get?_cons]
  | cons hd t ih =>
    obtain ⟨a, b⟩ := hd
    simp only [IMap.set]
    split
    · subst_vars; simp only [IMap.get?_cons]; split <;> rfl
    · simp only [IMap.get?_cons, ih]
      by_cases h1 : k' = a <;> by_cases h2 : k' = k <;> simp_all

theorem IMap.get?_alter (m : List (K × W)) (k : K) (d : W) (f : W → W) (k' : K) :
    IMap.get? (IMap.alter m k d f) k'
      = if k' = k then some (f (match IMap.get? m k with | some x => x | none => d))
        else IMap.get? m k' := by
  induction m with
  | nil => simp [IMap.alter, IMap.get?_cons]
  | cons hd t ih =>
    obtain ⟨a, b⟩ := hd
    simp only [IMap.alter]
    split
    · subst_vars; simp only [IMap.get?_cons, if_true]; split <;> rfl
    · rename_i hne
      simp only [IMap.get?_cons, ih, hne, if_false]
      by_cases h1 : k' = a <;> by_cases h2 : k' = k <;> simp_all

end IMap

/-! ### OverlayingIterator -/

/-- What the overlay of changes `os` over base `us` means pointwise. -/
def overlayGet (us : List (Nat × V)) (os : List (Nat × Option V)) (k : Nat) : Option V :=
  match SMap.get? os k with
  | some c => c
  | none => SMap.get? us k

theorem overlayIter_lb (us : List (Nat × V)) (os : List (Nat × Option V)) (b : Nat)
    (hu : ∀ x ∈ us, b < x.1) (ho : ∀ x ∈ os, b < x.1) :
    ∀ x ∈ overlayIter us os, b < x.1 := by
  fun_induction overlayIter us os with
  | case1 us => exact hu
  | case2 ok os v ih =>
    intro x hx
    rcases List.mem_cons.mp hx with rfl | hx
    · exact ho (ok, some v) (List.mem_cons_self ..)
    · exact ih (by simp) (fun y hy => ho y (List.mem_cons_of_mem _ hy)) x hx
  | case3 ok os ih =>
    exact ih (by simp) (fun y hy => ho y (List.mem_cons_of_mem _ hy))
  | case4 uk uv us ok c os hlt ih =>
    intro x hx
    rcases List.mem_cons.mp hx with rfl | hx
    · exact hu (uk, uv) (List.mem_cons_self ..)
    · exact ih (fun y hy => hu y (List.mem_cons_of_mem _ hy)) ho x hx
  | case5 uv us ok os v hnlt ih =>
    intro x hx
    rcases List.mem_cons.mp hx with rfl | hx
    · exact ho (ok, some v) (List.mem_cons_self ..)
    · exact ih (fun y hy => hu y (List.mem_cons_of_mem _ hy)) (fun y hy => ho y (List.mem_cons_of_mem _ hy)) x hx
  | case6 uv us ok os hnlt ih =>
    exact ih (fun y hy => hu y (List.mem_cons_of_mem _ hy)) (fun y hy => ho y (List.mem_cons_of_mem _ hy))
  | case7 uk uv us ok os hnlt hne v ih =>
    intro x hx
    rcases List.mem_cons.mp hx with rfl | hx
    · exact ho (ok, some v) (List.mem_cons_self ..)
    · exact ih hu (fun y hy => ho y (List.mem_cons_of_mem _ hy)) x hx
  | case8 uk uv us ok os hnlt hne ih =>
    exact ih hu (fun y hy => ho y (List.mem_cons_of_mem _ hy))

theorem sorted_cons {W : Type} (a : Nat × W) (l : List (Nat × W)) :
    SMap.Sorted (a :: l) ↔ (∀ x ∈ l, a.1 < x.1) ∧ SMap.Sorted l := by
  unfold SMap.Sorted; exact List.pairwise_cons

/-- `OverlayingIterator` over strictly sorted inputs yields a strictly sorted sequence -/
theorem overlayIter_sorted (us : List (Nat × V)) (os : List (Nat × Option V))
    (hu : SMap.Sorted us) (ho : SMap.Sorted os) : SMap.Sorted (overlayIter us os) := by
  fun_induction overlayIter us os with
  | case1 us => exact hu
  | case2 ok os v ih =>
    rw [sorted_cons] at ho ⊢
    exact ⟨overlayIter_lb [] os ok (by simp) ho.1, ih (by simp [SMap.Sorted]) ho.2⟩
  | case3 ok os ih =>
    rw [sorted_cons] at ho
    exact ih (by simp [SMap.Sorted]) ho.2
  | case4 uk uv us ok c os hlt ih =>
    rw [sorted_cons] at hu ⊢
    refine ⟨overlayIter_lb us ((ok, c) :: os) uk hu.1 ?_, ih hu.2 ho⟩
    intro x hx
    rcases List.mem_cons.mp hx with rfl | hx
    · exact hlt
    · have := ((sorted_cons _ _).mp ho).1 x hx
      simp at this ⊢; omega
  | case5 uv us ok os v hnlt ih =>
    rw [sorted_cons] at hu ho ⊢
    exact ⟨overlayIter_lb us os ok hu.1 ho.1, ih hu.2 ho.2⟩
  | case6 uv us ok os hnlt ih =>
    rw [sorted_cons] at hu ho
    exact ih hu.2 ho.2
  | case7 uk uv us ok os hnlt hne v ih =>
    rw [sorted_cons] at ho ⊢
    refine ⟨overlayIter_lb ((uk, uv) :: us) os ok ?_ ho.1, ih hu ho.2⟩
    intro x hx
    rcases List.mem_cons.mp hx with rfl | hx
    · simp; omega
    · have := ((sorted_cons _ _).mp hu).1 x hx
      simp at this ⊢; omega
  | case8 uk uv us ok os hnlt hne ih =>
    rw [sorted_cons] at ho
    exact ih hu ho.2

theorem get?_none_of_sorted_cons_lt {W : Type} (a : Nat) (w : W) (l : List (Nat × W)) (k : Nat)
    (h : SMap.Sorted ((a, w) :: l)) (hk : k ≤ a) : SMap.get? l k = none := by
  rw [sorted_cons] at h
  exact SMap.get?_eq_none_of_lt l k (fun x hx => by have := h.1 x hx; simp at this ⊢; omega)

theorem overlayIter_get? (us : List (Nat × V)) (os : List (Nat × Option V))
    (hu : SMap.Sorted us) (ho : SMap.Sorted os) (k : Nat) :
    SMap.get? (overlayIter us os) k = overlayGet us os k := by
  unfold overlayGet
  fun_induction overlayIter us os with
  | case1 us => simp
  | case2 ok os v ih =>
    have ho2 := ((sorted_cons _ _).mp ho).2
    by_cases hk : k = ok
    · simp [SMap.get?_cons, hk]
    · simp only [SMap.get?_cons, hk, if_false]; exact ih (by simp [SMap.Sorted]) ho2
  | case3 ok os ih =>
    have ho2 := ((sorted_cons _ _).mp ho).2
    by_cases hk : k = ok
    · subst hk
      rw [ih (by simp [SMap.Sorted]) ho2, get?_none_of_sorted_cons_lt k none os k ho (Nat.le_refl _)]
      simp [SMap.get?_cons]
    · simp only [SMap.get?_cons, hk, if_false]; exact ih (by simp [SMap.Sorted]) ho2
  | case4 uk uv us ok c os hlt ih =>
    have hu2 := ((sorted_cons _ _).mp hu).2
    by_cases hk : k = uk
    · subst hk
      have hne : ¬ k = ok := by omega
      have := get?_none_of_sorted_cons_lt ok c os k ho (by omega)
      simp [SMap.get?_cons, hne, this]
    · have := ih hu2 ho
      simp only [SMap.get?_cons, hk, if_false] at this ⊢
      exact this
  | case5 uv us ok os v hnlt ih =>
    have hu2 := ((sorted_cons _ _).mp hu).2
    have ho2 := ((sorted_cons _ _).mp ho).2
    by_cases hk : k = ok
    · simp [SMap.get?_cons, hk]
    · simp only [SMap.get?_cons, hk, if_false]; exact ih hu2 ho2
  | case6 uv us ok os hnlt ih =>
    have hu2 := ((sorted_cons _ _).mp hu).2
    have ho2 := ((sorted_cons _ _).mp ho).2
    by_cases hk : k = ok
    · subst hk
      rw [ih hu2 ho2, get?_none_of_sorted_cons_lt k none os k ho (Nat.le_refl _),
        get?_none_of_sorted_cons_lt k uv us k hu (Nat.le_refl _)]
      simp [SMap.get?_cons]
    · simp only [SMap.get?_cons, hk, if_false]; exact ih hu2 ho2
  | case7 uk uv us ok os hnlt hne v ih =>
    have ho2 := ((sorted_cons _ _).mp ho).2
    by_cases hk : k = ok
    · simp [SMap.get?_cons, hk]
    · have := ih hu ho2
      simp only [SMap.get?_cons, hk, if_false] at this ⊢
      exact this
  | case8 uk uv us ok os hnlt hne ih =>
    have ho2 := ((sorted_cons _ _).mp ho).2
    by_cases hk : k = ok
    · subst hk
      have h1 := get?_none_of_sorted_cons_lt k none os k ho (Nat.le_refl _)
      have h2 := get?_none_of_sorted_cons_lt uk uv us k hu (by omega)
      have hne' : ¬ k = uk := by omega
      rw [ih hu ho2]
      simp [SMap.get?_cons, h1, h2, hne']
    · have := ih hu ho2
      simp only [SMap.get?_cons, hk, if_false] at this ⊢
      exact this

/-- `overlayIter_spec`: over strictly sorted inputs the overlaying iterator produces *the* strictly
sorted listing of the base with the changes applied. -/
theorem overlayIter_spec (us : List (Nat × V)) (os : List (Nat × Option V))
    (hu : SMap.Sorted us) (ho : SMap.Sorted os) (l : List (Nat × V)) (hl : SMap.Sorted l)
    (h : ∀ k, SMap.get? l k = overlayGet us os k) : overlayIter us os = l :=
  SMap.ext _ _ (overlayIter_sorted us os hu ho) hl (fun k => by rw [overlayIter_get? us os hu ho, h])

section IMap2
variable {K W : Type} [DecidableEq K]

theorem IMap.get?_eq_none_of_notin (m : List (K × W)) (k : K) (h : ∀ x ∈ m, x.1 ≠ k) :
    IMap.get? m k = none := by
  induction m with
  | nil => rfl
  | cons hd t ih =>
    obtain ⟨a, b⟩ := hd
    have h1 : ¬ k = a := fun e => h (a, b) (List.mem_cons_self ..) e.symm
    simp only [IMap.get?_cons, h1, if_false]
    exact ih (fun x hx => h x (List.mem_cons_of_mem _ hx))

theorem IMap.mem_of_get? (m : List (K × W)) (k : K) (v : W) (h : IMap.get? m k = some v) :
    (k, v) ∈ m := by
  induction m with
  | nil => simp at h
  | cons hd t ih =>
    obtain ⟨a, b⟩ := hd
    simp only [IMap.get?_cons] at h
    split at h
    · subst_vars; simp at h; subst h; simp
    · simp [ih h]

theorem IMap.get?_of_mem (m : List (K × W)) (hn : IMap.Nodup m) (k : K) (v : W) (h : (k, v) ∈ m) :
    IMap.get? m k = some v := by
  induction m with
  | nil => simp at h
  | cons hd t ih =>
    obtain ⟨a, b⟩ := hd
    unfold IMap.Nodup at hn ih
    rw [List.pairwise_cons] at hn
    rcases List.mem_cons.mp h with e | h
    · cases e; simp [IMap.get?_cons]
    · have hne : ¬ k = a := fun e => hn.1 (k, v) h (by simp [e])
      simp only [IMap.get?_cons, hne, if_false]
      exact ih hn.2 h

theorem IMap.mem_set (m : List (K × W)) (k : K) (v : W) :
    ∀ x ∈ IMap.set m k v, x = (k, v) ∨ x ∈ m := by
  induction m with
  | nil => intro x hx; simp [IMap.set] at hx; exact Or.inl hx
  | cons hd t ih =>
    obtain ⟨a, b⟩ := hd
    intro x hx
    simp only [IMap.set] at hx
    split at hx
    · rcases List.mem_cons.mp hx with e | hx
      · exact Or.inl e
      · exact Or.inr (List.mem_cons_of_mem _ hx)
    · rcases List.mem_cons.mp hx with e | hx
      · exact Or.inr (by rw [e]; exact List.mem_cons_self ..)
      · rcases ih x hx with e | hx
        · exact Or.inl e
        · exact Or.inr (List.mem_cons_of_mem _ hx)

theorem IMap.nodup_set (m : List (K × W)) (k : K) (v : W) (h : IMap.Nodup m) :
    IMap.Nodup (IMap.set m k v) := by
  induction m with
  | nil => simp [IMap.set, IMap.Nodup]
  | cons hd t ih =>
    obtain ⟨a, b⟩ := hd
    unfold IMap.Nodup at h ih ⊢
    rw [List.pairwise_cons] at h
    simp only [IMap.set]
    split
    · subst_vars
      rw [List.pairwise_cons]
      exact ⟨h.1, h.2⟩
    · rename_i hne
      rw [List.pairwise_cons]
      refine ⟨?_, ih h.2⟩
      intro x hx
      rcases IMap.mem_set t k v x hx with e | hx
      · rw [e]; exact fun e' => hne e'.symm
      · exact h.1 x hx

theorem IMap.forall_set (P : K → W → Prop) (m : List (K × W)) (k : K) (v : W)
    (h : ∀ x ∈ m, P x.1 x.2) (hv : P k v) : ∀ x ∈ IMap.set m k v, P x.1 x.2 := by
  intro x hx
  rcases IMap.mem_set m k v x hx with e | hx
  · rw [e]; exact hv
  · exact h x hx

theorem IMap.get?_map {W' : Type} (m : List (K × W)) (g : W → W') (k : K) :
    IMap.get? (m.map (fun x => (x.1, g x.2))) k = (IMap.get? m k).map g := by
  induction m with
  | nil => rfl
  | cons hd t ih =>
    obtain ⟨a, b⟩ := hd
    simp only [List.map_cons, IMap.get?_cons, ih]
    split <;> rfl

omit [DecidableEq K] in
theorem IMap.nodup_map {W' : Type} (m : List (K × W)) (g : W → W') (h : IMap.Nodup m) :
    IMap.Nodup (m.map (fun x => (x.1, g x.2))) := by
  unfold IMap.Nodup at *
  rw [List.pairwise_map]
  exact h

theorem IMap.mem_alter (m : List (K × W)) (k : K) (d : W) (f : W → W) :
    ∀ x ∈ IMap.alter m k d f, x ∈ m ∨ x.1 = k := by
  induction m with
  | nil => intro x hx; simp [IMap.alter] at hx; right; rw [hx]
  | cons hd t ih =>
    obtain ⟨a, b⟩ := hd
    intro x hx
    simp only [IMap.alter] at hx
    split at hx
    · rcases List.mem_cons.mp hx with e | hx
      · right; rw [e]; subst_vars; rfl
      · left; exact List.mem_cons_of_mem _ hx
    · rcases List.mem_cons.mp hx with e | hx
      · left; rw [e]; exact List.mem_cons_self ..
      · rcases ih x hx with hx | e
        · left; exact List.mem_cons_of_mem _ hx
        · right; exact e

theorem IMap.nodup_alter (m : List (K × W)) (k : K) (d : W) (f : W → W) (h : IMap.Nodup m) :
    IMap.Nodup (IMap.alter m k d f) := by
  induction m with
  | nil => simp [IMap.alter, IMap.Nodup]
  | cons hd t ih =>
    obtain ⟨a, b⟩ := hd
    unfold IMap.Nodup at h ih ⊢
    rw [List.pairwise_cons] at h
    simp only [IMap.alter]
    split
    · rw [List.pairwise_cons]
      exact ⟨h.1, h.2⟩
    · rename_i hne
      rw [List.pairwise_cons]
      refine ⟨?_, ih h.2⟩
      intro x hx
      rcases IMap.mem_alter t k d f x hx with hx | e
      · exact h.1 x hx
      · rw [e]; exact fun e' => hne e'.symm

end IMap2
section IMap3
variable {K W A : Type} [DecidableEq K]

theorem IMap.get?_foldl_set (l : List (K × A)) (g : A → W) (hn : IMap.Nodup l) (m0 : List (K × W)) (k : K) :
    IMap.get? (l.foldl (fun m x => IMap.set m x.1 (g x.2)) m0) k
      = match IMap.get? l k with | some a => some (g a) | none => IMap.get? m0 k := by
  induction l generalizing m0 with
  | nil => rfl
  | cons hd t ih =>
    obtain ⟨a, b⟩ := hd
    unfold IMap.Nodup at hn ih
    rw [List.pairwise_cons] at hn
    simp only [List.foldl_cons, IMap.get?_cons]
    rw [ih hn.2, IMap.get?_set]
    by_cases hp : k = a
    · subst hp
      simp only [if_true]
      rw [IMap.get?_eq_none_of_notin t k (fun x hx e => hn.1 x hx e.symm)]
    · simp only [hp, if_false]

end IMap3

theorem lastBinding_map {V V' : Type} (l : List (Nat × V)) (g : V → V') (k : Nat) :
    lastBinding (l.map (fun kv => (kv.1, g kv.2))) k = (lastBinding l k).map g := by
  induction l with
  | nil => rfl
  | cons hd t ih =>
    obtain ⟨a, b⟩ := hd
    simp only [List.map_cons, lastBinding, ih]
    cases lastBinding t k with
    | some x => rfl
    | none => simp only [Option.map]; split <;> rfl

theorem SMap.get?_map {V V' : Type} (l : List (Nat × V)) (g : V → V') (k : Nat) :
    SMap.get? (l.map (fun kv => (kv.1, g kv.2))) k = (SMap.get? l k).map g := by
  induction l with
  | nil => rfl
  | cons hd t ih =>
    obtain ⟨a, b⟩ := hd
    simp only [List.map_cons, SMap.get?_cons, ih]
    split <;> rfl

theorem SMap.sorted_map {V V' : Type} (l : List (Nat × V)) (g : V → V') (h : SMap.Sorted l) :
    SMap.Sorted (l.map (fun kv => (kv.1, g kv.2))) := by
  unfold SMap.Sorted at *
  rw [List.pairwise_map]
  exact h


section
variable {K W : Type} [DecidableEq K]

theorem IMap.forall_alter (P : W → Prop) (m : List (K × W)) (k : K) (d : W) (f : W → W)
    (h : ∀ x ∈ m, P x.2) (hf : ∀ w, P w → P (f w)) (hd : P d) :
    ∀ x ∈ IMap.alter m k d f, P x.2 := by
  induction m with
  | nil => intro x hx; simp [IMap.alter] at hx; rw [hx]; exact hf d hd
  | cons hd' t ih =>
    obtain ⟨a, b⟩ := hd'
    intro x hx
    simp only [IMap.alter] at hx
    split at hx
    · rcases List.mem_cons.mp hx with e | hx
      · rw [e]; exact hf b (h (a, b) (List.mem_cons_self ..))
      · exact h x (List.mem_cons_of_mem _ hx)
    · rcases List.mem_cons.mp hx with e | hx
      · rw [e]; exact h (a, b) (List.mem_cons_self ..)
      · exact ih (fun y hy => h y (List.mem_cons_of_mem _ hy)) x hx
end

theorem lastBinding_nodup {V : Type} (l : List (Nat × V)) (h : IMap.Nodup l) (k : Nat) :
    lastBinding l k = IMap.get? l k := by
  induction l with
  | nil => rfl
  | cons hd t ih =>
    obtain ⟨a, c⟩ := hd
    unfold IMap.Nodup at h ih
    rw [List.pairwise_cons] at h
    simp only [lastBinding, IMap.get?_cons, ih h.2]
    by_cases hk : k = a
    · subst hk
      rw [IMap.get?_eq_none_of_notin t k (fun x hx e => h.1 x hx e.symm)]
    · simp only [hk, if_false]
      cases IMap.get? t k <;> rfl

theorem IMap.get?_foldl_set' {V : Type} (l : List (Nat × V)) (m : List (Nat × V)) (k : Nat) :
    IMap.get? (l.foldl (fun m kv => IMap.set m kv.1 kv.2) m) k
      = match lastBinding l k with
        | some x => some x
        | none => IMap.get? m k := by
  induction l generalizing m with
  | nil => rfl
  | cons hd t ih =>
    obtain ⟨a, c⟩ := hd
    simp only [List.foldl_cons, ih, lastBinding]
    cases lastBinding t k with
    | some x => rfl
    | none =>
      simp only [IMap.get?_set]
      split <;> rfl

theorem IMap.nodup_foldl_set {V : Type} (l : List (Nat × V)) (m : List (Nat × V)) (h : IMap.Nodup m) :
    IMap.Nodup (l.foldl (fun m kv => IMap.set m kv.1 kv.2) m) := by
  induction l generalizing m with
  | nil => exact h
  | cons hd t ih => exact ih _ (IMap.nodup_set m hd.1 hd.2 h)



section
variable {K W A : Type} [DecidableEq K]
theorem IMap.forall_foldl_set (P : W → Prop) (l : List (K × A)) (g : A → W) (m0 : List (K × W))
    (h0 : ∀ x ∈ m0, P x.2) (hg : ∀ a, P (g a)) :
    ∀ x ∈ l.foldl (fun m x => IMap.set m x.1 (g x.2)) m0, P x.2 := by
  induction l generalizing m0 with
  | nil => exact h0
  | cons hd t ih =>
    apply ih
    exact IMap.forall_set (fun _ w => P w) m0 hd.1 (g hd.2) h0 (hg hd.2)

theorem IMap.nodup_foldl_set_g (l : List (K × A)) (g : A → W) (m0 : List (K × W)) (h0 : IMap.Nodup m0) :
    IMap.Nodup (l.foldl (fun m x => IMap.set m x.1 (g x.2)) m0) := by
  induction l generalizing m0 with
  | nil => exact h0
  | cons hd t ih => exact ih _ (IMap.nodup_set m0 hd.1 (g hd.2) h0)
end

end Radix.KV
