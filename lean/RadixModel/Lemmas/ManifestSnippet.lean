/-
Lemmas about positions and the (repaired) `create_snippet` index arithmetic.
-/
import RadixModel.Model.Manifest
namespace Radix.Manifest

/-! ## positions -/

/-- number of `\n` in a text -/
def nlCount : List Char → Nat
  | [] => 0
  | c :: r => (if c = '\n' then 1 else 0) + nlCount r

/-- the position reached from `p` after consuming `cs` -/
def advanceBy (p : Pos) (cs : List Char) : Pos := cs.foldl Pos.advance p

/-- the position of char index `i` of `text` (what the lexer's cursor holds there) -/
def posAt (text : List Char) (i : Nat) : Pos := advanceBy Pos.zero (text.take i)

@[simp] theorem advanceBy_nil (p : Pos) : advanceBy p [] = p := rfl
@[simp] theorem advanceBy_cons (p : Pos) (c : Char) (cs : List Char) :
    advanceBy p (c :: cs) = advanceBy (p.advance c) cs := rfl

theorem advanceBy_append (p : Pos) (a b : List Char) : advanceBy p (a ++ b) = advanceBy (advanceBy p a) b := by
  simp [advanceBy, List.foldl_append]

theorem advance_full (p : Pos) (c : Char) : (p.advance c).full = p.full + 1 := by
  unfold Pos.advance; split <;> rfl

theorem advance_line (p : Pos) (c : Char) : (p.advance c).line = p.line + (if c = '\n' then 1 else 0) := by
  unfold Pos.advance; split <;> simp_all

theorem advanceBy_full (p : Pos) (cs : List Char) : (advanceBy p cs).full = p.full + cs.length := by
  induction cs generalizing p with
  | nil => simp
  | cons c r ih => simp [ih, advance_full]; omega

theorem advanceBy_line (p : Pos) (cs : List Char) : (advanceBy p cs).line = p.line + nlCount cs := by
  induction cs generalizing p with
  | nil => simp [nlCount]
  | cons c r ih => simp [ih, advance_line, nlCount]; omega

theorem posAt_full (text : List Char) (i : Nat) (h : i ≤ text.length) : (posAt text i).full = i := by
  simp [posAt, advanceBy_full, Pos.zero, List.length_take]; omega

theorem posAt_line (text : List Char) (i : Nat) : (posAt text i).line = nlCount (text.take i) := by
  simp [posAt, advanceBy_line, Pos.zero]

/-! ## lines -/

/-- the first `k` line pieces (with their endings), concatenated -/
def takeLines : Nat → List Char → List Char
  | 0, _ => []
  | _ + 1, [] => []
  | k + 1, c :: r => if c = '\n' then c :: takeLines k r else c :: takeLines (k + 1) r

/-- the text after the first `k` line pieces -/
def dropLines : Nat → List Char → List Char
  | 0, cs => cs
  | _ + 1, [] => []
  | k + 1, c :: r => if c = '\n' then dropLines k r else dropLines (k + 1) r

theorem take_drop_lines (k : Nat) (cs : List Char) : takeLines k cs ++ dropLines k cs = cs := by
  induction cs generalizing k with
  | nil => cases k <;> simp [takeLines, dropLines]
  | cons c r ih =>
    cases k with
    | zero => simp [takeLines, dropLines]
    | succ k =>
      simp only [takeLines, dropLines]
      split <;> simp [ih]

theorem takeLines_add (k m : Nat) (cs : List Char) :
    takeLines k cs ++ takeLines m (dropLines k cs) = takeLines (k + m) cs := by
  induction cs generalizing k with
  | nil => cases k <;> cases m <;> simp [takeLines, dropLines]
  | cons c r ih =>
    cases k with
    | zero => simp [takeLines, dropLines]
    | succ k =>
      have e : k + 1 + m = (k + m) + 1 := by omega
      rw [e]
      simp only [takeLines, dropLines]
      split
      · simp [ih]
      · have := ih (k + 1); rw [e] at this; simp [this]

theorem splitInclusive_eq_nil (cs : List Char) : splitInclusive cs = [] ↔ cs = [] := by
  cases cs with
  | nil => simp [splitInclusive]
  | cons c r =>
    simp only [splitInclusive]
    split
    · simp
    · split <;> simp

theorem flatten_split (cs : List Char) : (splitInclusive cs).flatten = cs := by
  induction cs with
  | nil => simp [splitInclusive]
  | cons c r ih =>
    simp only [splitInclusive]
    split
    · simp [ih]
    · split
      · rename_i h; rw [h] at ih; simp at ih; simp [← ih]
      · rename_i l ls h; rw [h] at ih; simp at ih; simp [← ih]

theorem flatten_take_split (k : Nat) (cs : List Char) : ((splitInclusive cs).take k).flatten = takeLines k cs := by
  induction cs generalizing k with
  | nil => cases k <;> simp [splitInclusive, takeLines]
  | cons c r ih =>
    cases k with
    | zero => simp [takeLines]
    | succ k =>
      simp only [splitInclusive, takeLines]
      split
      · simp [ih]
      · split
        · rename_i h
          have := ih (k + 1); rw [h] at this; simp at this
          simp [← this]
        · rename_i l ls h
          have := ih (k + 1); rw [h] at this; simp at this
          simp [← this]

theorem drop_split (k : Nat) (cs : List Char) : (splitInclusive cs).drop k = splitInclusive (dropLines k cs) := by
  induction cs generalizing k with
  | nil => cases k <;> simp [splitInclusive, dropLines]
  | cons c r ih =>
    cases k with
    | zero => simp [dropLines]
    | succ k =>
      simp only [dropLines]
      by_cases hc : c = '\n'
      · simp [splitInclusive, hc, ih]
      · simp only [splitInclusive, hc, if_false]
        split
        · rename_i h
          have := ih (k + 1); rw [h] at this; simp at this
          rw [this]; simp
        · rename_i l ls h
          have := ih (k + 1); rw [h] at this; simp at this
          simpa using this

theorem takeLines_all (k : Nat) (cs : List Char) (h : (splitInclusive cs).length ≤ k) : takeLines k cs = cs := by
  rw [← flatten_take_split, List.take_of_length_le h, flatten_split]

theorem takeLines_length_le (k : Nat) (cs : List Char) : (takeLines k cs).length ≤ cs.length := by
  have := congrArg List.length (take_drop_lines k cs)
  simp at this; omega

theorem takeLines_prefix (k : Nat) (cs : List Char) : takeLines k cs = cs.take (takeLines k cs).length := by
  have h := take_drop_lines k cs
  calc takeLines k cs = (takeLines k cs ++ dropLines k cs).take (takeLines k cs).length := by simp
    _ = cs.take (takeLines k cs).length := by rw [h]

/-- a text prefix containing at least `k` newlines contains the first `k` lines -/
theorem takeLines_le_of_nl (k : Nat) (cs : List Char) (i : Nat) (h : k ≤ nlCount (cs.take i)) :
    (takeLines k cs).length ≤ i := by
  induction cs generalizing k i with
  | nil => cases k <;> simp [takeLines]
  | cons c r ih =>
    cases k with
    | zero => simp [takeLines]
    | succ k =>
      cases i with
      | zero => simp [nlCount] at h
      | succ i =>
        simp only [List.take_succ_cons, nlCount] at h
        simp only [takeLines]
        split
        · rename_i hc
          simp [hc] at h
          have := ih k i (by omega)
          simp; omega
        · rename_i hc
          simp [hc] at h
          have := ih (k + 1) i (by omega)
          simp; omega

/-- a text prefix containing fewer than `k` newlines lies within the first `k` lines -/
theorem le_takeLines_of_nl (k : Nat) (cs : List Char) (j : Nat) (hj : j ≤ cs.length)
    (h : nlCount (cs.take j) < k) : j ≤ (takeLines k cs).length := by
  induction cs generalizing k j with
  | nil => simp at hj; omega
  | cons c r ih =>
    cases k with
    | zero => omega
    | succ k =>
      cases j with
      | zero => omega
      | succ j =>
        simp only [List.take_succ_cons, nlCount] at h
        simp only [takeLines]
        simp at hj
        split
        · rename_i hc
          simp [hc] at h
          have := ih k j hj (by omega)
          simp; omega
        · rename_i hc
          simp [hc] at h
          have := ih (k + 1) j hj (by omega)
          simp; omega

/-- a prefix with `k` newlines has at least `k` line pieces -/
theorem nl_le_pieces (cs : List Char) (i : Nat) : nlCount (cs.take i) ≤ (splitInclusive cs).length := by
  induction cs generalizing i with
  | nil => simp [nlCount, splitInclusive]
  | cons c r ih =>
    cases i with
    | zero => simp [nlCount]
    | succ i =>
      simp only [List.take_succ_cons, nlCount, splitInclusive]
      have := ih i
      split
      · simp; omega
      · split
        · rename_i h; rw [h] at this; simp at this; simp [this]
        · rename_i l ls h; rw [h] at this; simp at this ⊢; omega

/-! ## the loop of the repaired `create_snippet` -/

theorem snipLoop_new_after (ls le : Nat) (ps : List (List Char)) (i1 : Nat) (h : ls ≤ i1) :
    snipLoop List.length id ls le ps i1 = (0, (ps.take (le + 1 - i1)).flatten) := by
  induction ps generalizing i1 with
  | nil => simp [snipLoop]
  | cons l ps ih =>
    simp only [snipLoop]
    have h1 : ¬ i1 < ls := by omega
    simp only [h1, if_false]
    split
    · rename_i h2
      rw [ih (i1 + 1) (by omega)]
      have e : le + 1 - i1 = (le + 1 - (i1 + 1)) + 1 := by omega
      rw [e]; simp
    · rename_i h2
      have e : le + 1 - i1 = 0 := by omega
      rw [e]; simp

theorem snipLoop_new (ls le : Nat) (ps : List (List Char)) (i1 : Nat) (h : i1 ≤ ls) :
    snipLoop List.length id ls le ps i1 =
      (((ps.take (ls - i1)).flatten).length, ((ps.drop (ls - i1)).take (le + 1 - ls)).flatten) := by
  induction ps generalizing i1 with
  | nil => simp [snipLoop]
  | cons l ps ih =>
    by_cases h1 : i1 < ls
    · simp only [snipLoop, h1, if_true]
      rw [ih (i1 + 1) (by omega)]
      have e : ls - i1 = (ls - (i1 + 1)) + 1 := by omega
      rw [e]; simp
    · have e : i1 = ls := by omega
      subst e
      rw [snipLoop_new_after _ _ _ _ (Nat.le_refl _)]
      simp

theorem nlCount_take_mono (cs : List Char) (i j : Nat) (h : i ≤ j) : nlCount (cs.take i) ≤ nlCount (cs.take j) := by
  induction cs generalizing i j with
  | nil => simp [nlCount]
  | cons c r ih =>
    cases i with
    | zero => simp [nlCount]
    | succ i =>
      cases j with
      | zero => omega
      | succ j =>
        simp only [List.take_succ_cons, nlCount]
        have := ih i j (by omega)
        omega

/-- the arithmetic core: what the repaired loop computes, for a span of the text -/
theorem snippet_core (text : List Char) (i j : Nat) (hij : i ≤ j) (hj : j ≤ text.length)
    (k0 le : Nat) (hk0 : k0 ≤ nlCount (text.take i))
    (hle : le = Nat.min (nlCount (text.take j) + 1 + 5) (splitInclusive text).length) :
    ∃ sk n, snipLoop List.length id (k0 + 1) le (splitInclusive text) 1 = (sk, (text.drop sk).take n)
      ∧ sk ≤ i ∧ j ≤ sk + n ∧ sk + n ≤ text.length := by
  have hLM := nlCount_take_mono text i j hij
  have hLp := nl_le_pieces text i
  have hk0le : k0 ≤ le := by
    rw [hle]; simp [Nat.min_def]; split <;> omega
  rw [snipLoop_new _ _ _ 1 (by omega)]
  simp only [Nat.add_sub_cancel]
  rw [flatten_take_split, drop_split, flatten_take_split]
  have hadd := takeLines_add k0 (le + 1 - (k0 + 1)) text
  have e : k0 + (le + 1 - (k0 + 1)) = le := by omega
  rw [e] at hadd
  have hpre0 := takeLines_prefix k0 text
  have hpre := takeLines_prefix le text
  refine ⟨(takeLines k0 text).length, (takeLines (le + 1 - (k0 + 1)) (dropLines k0 text)).length, ?_, ?_, ?_, ?_⟩
  · congr 1
    have hlen : (takeLines le text).length = (takeLines k0 text).length + (takeLines (le + 1 - (k0 + 1)) (dropLines k0 text)).length := by
      rw [← hadd]; simp
    have h2 : text.take ((takeLines k0 text).length + (takeLines (le + 1 - (k0 + 1)) (dropLines k0 text)).length)
        = text.take (takeLines k0 text).length ++ (text.drop (takeLines k0 text).length).take (takeLines (le + 1 - (k0 + 1)) (dropLines k0 text)).length := by
      rw [List.take_add]
    rw [← hlen, ← hpre, ← hpre0, ← hadd] at h2
    exact List.append_cancel_left h2
  · exact takeLines_le_of_nl k0 text i hk0
  · have hlen : (takeLines le text).length = (takeLines k0 text).length + (takeLines (le + 1 - (k0 + 1)) (dropLines k0 text)).length := by
      rw [← hadd]; simp
    rw [← hlen]
    by_cases hM : nlCount (text.take j) < le
    · exact le_takeLines_of_nl le text j hj hM
    · have : (splitInclusive text).length ≤ le := by
        rw [hle] at hM ⊢; simp [Nat.min_def] at hM ⊢; split at hM <;> split <;> omega
      rw [takeLines_all le text this]; exact hj
  · have hlen : (takeLines le text).length = (takeLines k0 text).length + (takeLines (le + 1 - (k0 + 1)) (dropLines k0 text)).length := by
      rw [← hadd]; simp
    rw [← hlen]; exact takeLines_length_le le text


end Radix.Manifest
