/-
C29 — specification (proleptic Gregorian calendar) and helper lemmas for
`RadixModel/Model/UtcDateTime.lean`. Core Lean only (omega / simp / decide).
-/
import RadixModel.Model.UtcDateTime
namespace Radix.Utc

/-! ### The specification: proleptic Gregorian calendar

`leapI y` is the Gregorian leap rule (1 for a leap year, else 0). `daysBeforeYear y` is the number of
days from 0001-01-01 to y-01-01; it is *characterised* by `daysBeforeYear 1 = 0` and
`daysBeforeYear (y+1) = daysBeforeYear y + 365 + leapI y` (theorems `daysBeforeYear_one`,
`daysBeforeYear_succ` in `Props/C29.lean`), `daysBeforeMonth` by `daysBeforeMonth_succ`. -/

def LeapP (y : Int) : Prop := y % 4 = 0 ∧ (y % 100 ≠ 0 ∨ y % 400 = 0)

instance (y : Int) : Decidable (LeapP y) := by unfold LeapP; exact inferInstance

def leapI (y : Int) : Int := if LeapP y then 1 else 0

def daysBeforeYear (y : Int) : Int := 365 * (y - 1) + (y - 1) / 4 - (y - 1) / 100 + (y - 1) / 400

/-- length of month `m` (1-based) in a year with leap indicator `L` -/
def monthLen (L : Int) : Nat → Int
  | 2 => 28 + L
  | 4 | 6 | 9 | 11 => 30
  | _ => 31

/-- days of the year before the first of month `m` -/
def daysBeforeMonth (L : Int) : Nat → Int
  | 1 => 0 | 2 => 31 | 3 => 59 + L | 4 => 90 + L | 5 => 120 + L | 6 => 151 + L | 7 => 181 + L
  | 8 => 212 + L | 9 => 243 + L | 10 => 273 + L | 11 => 304 + L | 12 => 334 + L | _ => 0

/-- days from 1970-01-01 to the civil date y-m-d (719162 = days from 0001-01-01 to 1970-01-01) -/
def daysFromCivil (y : Int) (m d : Nat) : Int :=
  daysBeforeYear y + daysBeforeMonth (leapI y) m + ((d : Int) - 1) - 719162

/-- the Unix timestamp the calendar assigns to a date-time -/
def specSecs (dt : DT) : Int :=
  86400 * daysFromCivil dt.year dt.month dt.day + 3600 * dt.hour + 60 * dt.minute + dt.second

/-- a valid calendar date-time representable by `UtcDateTime` -/
def Valid (dt : DT) : Prop :=
  1 ≤ dt.year ∧ dt.year ≤ U32_MAX ∧ 1 ≤ dt.month ∧ dt.month ≤ 12 ∧ 1 ≤ dt.day ∧
    (dt.day : Int) ≤ monthLen (leapI dt.year) dt.month ∧ dt.hour ≤ 23 ∧ dt.minute ≤ 59 ∧ dt.second ≤ 59

theorem leapI_cases (y : Int) : (LeapP y ∧ leapI y = 1) ∨ (¬ LeapP y ∧ leapI y = 0) := by
  unfold leapI; by_cases h : LeapP y <;> simp [h]

/-! ### arithmetic helpers -/

theorem tdivmod_facts (a b : Int) (hb : 0 < b) :
    b * a.tdiv b + a.tmod b = a ∧ (0 ≤ a → 0 ≤ a.tmod b) ∧ (a ≤ 0 → a.tmod b ≤ 0) ∧
      a.tmod b < b ∧ -b < a.tmod b := by
  refine ⟨Int.mul_tdiv_add_tmod a b, fun h => Int.tmod_nonneg b h, ?_, Int.tmod_lt_of_pos a hb, Int.lt_tmod_of_pos a hb⟩
  intro h
  have : 0 ≤ (-a).tmod b := Int.tmod_nonneg b (by omega)
  rw [Int.neg_tmod] at this; omega

theorem divModFix_eq (a b : Int) (hb : 0 < b) : divModFix a b = (a / b, a % b) := by
  obtain ⟨h1, h2, h3, h4, h5⟩ := tdivmod_facts a b hb
  have key : ∀ q r : Int, r + b * q = a → 0 ≤ r → r < b → (q, r) = (a / b, a % b) := by
    intro q r e1 e2 e3
    have := (Int.ediv_emod_unique (a := a) (r := r) (q := q) hb).2 ⟨e1, e2, e3⟩
    rw [this.1, this.2]
  unfold divModFix
  simp only
  split
  · apply key
    · rw [Int.mul_sub]; omega
    · omega
    · omega
  · apply key <;> omega

theorem capDiv_spec (rd per cap : Int) (h : 0 ≤ rd) :
    ∃ c r, capDiv rd per cap = (c, r) ∧ c = (if rd / per = cap then cap - 1 else rd / per) ∧
      r = rd - c * per := by
  refine ⟨_, _, rfl, ?_, rfl⟩
  simp only [Int.tdiv_eq_ediv_of_nonneg h]
  split <;> omega

/-- the decomposition result, as linear facts -/
theorem marchYear_spec (days : Int) :
    ∃ y doy, marchYear days = (y, doy) ∧
    days = 365 * (y - 2000) + (y - 2000) / 4 - (y - 2000) / 100 + (y - 2000) / 400 + doy ∧ 0 ≤ doy ∧
      (doy ≤ 364 ∨ (doy = 365 ∧ (y + 1) % 4 = 0 ∧ ((y + 1) % 100 ≠ 0 ∨ (y + 1) % 400 = 0))) := by
  unfold marchYear
  rw [divModFix_eq _ _ (by decide)]
  have hq : DAYS_PER_400Y = 146097 := by decide
  have h100 : DAYS_PER_100Y = 36524 := by decide
  have h4 : DAYS_PER_4Y = 1461 := by decide
  rw [hq, h100, h4]
  simp only
  generalize hc400 : days / 146097 = c400
  generalize hrd1 : days % 146097 = rd1
  have b1 : 0 ≤ rd1 ∧ rd1 < 146097 := by omega
  have e0 : days = 146097 * c400 + rd1 := by omega
  clear hc400 hrd1
  obtain ⟨c100, rd2, e1, hc100, hrd2⟩ := capDiv_spec rd1 36524 4 b1.1
  rw [e1]; simp only
  have b2 : 0 ≤ rd2 := by
    by_cases hh : rd1 / 36524 = 4 <;> simp only [hh, if_true, if_false] at hc100 <;> omega
  obtain ⟨c4, rd3, e2, hc4, hrd3⟩ := capDiv_spec rd2 1461 25 b2
  rw [e2]; simp only
  have b3 : 0 ≤ rd3 := by
    by_cases hh : rd2 / 1461 = 25 <;> simp only [hh, if_true, if_false] at hc4 <;> omega
  obtain ⟨ry, rd4, e3, hry, hrd4⟩ := capDiv_spec rd3 365 4 b3
  rw [e3]; simp only
  refine ⟨_, _, rfl, ?_⟩
  -- bounds on the cycle counters
  have k100 : 0 ≤ c100 ∧ c100 ≤ 3 ∧ (c100 ≤ 2 → rd2 ≤ 36523) ∧ rd2 ≤ 36524 := by
    by_cases g1 : rd1 / 36524 = 4 <;> simp only [g1, if_true, if_false] at hc100 <;> omega
  have k4 : 0 ≤ c4 ∧ c4 ≤ 24 ∧ rd3 ≤ 1460 ∧ (rd3 = 1460 → c4 = 24 → c100 = 3) := by
    by_cases g2 : rd2 / 1461 = 25 <;> simp only [g2, if_true, if_false] at hc4 <;> omega
  have k1 : 0 ≤ ry ∧ ry ≤ 3 ∧ rd4 ≤ 365 ∧ (rd4 = 365 → ry = 3 ∧ rd3 = 1460) := by
    by_cases g3 : rd3 / 365 = 4 <;> simp only [g3, if_true, if_false] at hry <;> omega
  have q4 : (ry + 4 * c4 + 100 * c100 + 400 * c400 + 2000 - 2000) / 4 = c4 + 25 * c100 + 100 * c400 := by omega
  have q100 : (ry + 4 * c4 + 100 * c100 + 400 * c400 + 2000 - 2000) / 100 = c100 + 4 * c400 := by omega
  have q400 : (ry + 4 * c4 + 100 * c100 + 400 * c400 + 2000 - 2000) / 400 = c400 := by omega
  rw [q4, q100, q400]
  refine ⟨by omega, by omega, ?_⟩
  by_cases hd : rd4 = 365
  · right
    obtain ⟨hr3, hr1460⟩ := k1.2.2.2 hd
    have := k4.2.2.2 hr1460
    refine ⟨hd, by omega, ?_⟩
    by_cases hc : c4 = 24
    · right; have := this hc; omega
    · left; omega
  · left; omega
/-! ### the month loop -/

def marchCum : Nat → Int
  | 0 => 0 | 1 => 31 | 2 => 61 | 3 => 92 | 4 => 122 | 5 => 153 | 6 => 184 | 7 => 214 | 8 => 245
  | 9 => 275 | 10 => 306 | 11 => 337 | _ => 0
def marchLen : Nat → Int
  | 0 => 31 | 1 => 30 | 2 => 31 | 3 => 30 | 4 => 31 | 5 => 31 | 6 => 30 | 7 => 31 | 8 => 30
  | 9 => 31 | 10 => 31 | 11 => 29 | _ => 0

theorem marchTable : daysInMonthsStartingOnMarch = [31, 30, 31, 30, 31, 31, 30, 31, 30, 31, 31, 29] := by
  decide

theorem monthLoop_spec (doy : Int) (h0 : 0 ≤ doy) (h1 : doy ≤ 365) :
    ∃ m r, monthLoop daysInMonthsStartingOnMarch 0 doy = some (m, r) ∧ m ≤ 11 ∧ 0 ≤ r ∧
      marchCum m + r = doy ∧ r < marchLen m := by
  rw [marchTable]
  simp only [monthLoop]
  have hc : (0 ≤ doy ∧ doy < 31) ∨ (31 ≤ doy ∧ doy < 61) ∨ (61 ≤ doy ∧ doy < 92) ∨ (92 ≤ doy ∧ doy < 122) ∨ (122 ≤ doy ∧ doy < 153) ∨ (153 ≤ doy ∧ doy < 184) ∨ (184 ≤ doy ∧ doy < 214) ∨ (214 ≤ doy ∧ doy < 245) ∨ (245 ≤ doy ∧ doy < 275) ∨ (275 ≤ doy ∧ doy < 306) ∨ (306 ≤ doy ∧ doy < 337) ∨ (337 ≤ doy ∧ doy < 366) := by omega
  rcases hc with h|h|h|h|h|h|h|h|h|h|h|h
  all_goals (repeat (first | rw [if_pos (by omega)] | rw [if_neg (by omega)]))
  all_goals (refine ⟨_, _, rfl, ?_, ?_, ?_, ?_⟩ <;> (try simp only [marchCum, marchLen]) <;> omega)
end Radix.Utc
