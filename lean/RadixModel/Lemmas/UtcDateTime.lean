/-
C29 — specification (proleptic Gregorian calendar) and helper lemmas for
`RadixModel/Model/UtcDateTime.lean`. Core Lean only (omega / simp / decide).
-/
import RadixModel.Model.UtcDateTime
namespace Radix.Utc

/-! ### The specification: proleptic Gregorian calendar

`leapI y` is the Gregorian leap rule (1 for a leap year, else 0). `daysBeforeYear y` is the number of
days from 0001-01-01 to y-01-01; it is *characterised* by `daysBeforeYear 1 = 0` and
`daysBeforeYear (y+1) = daysBeforeYear y + 365 + leapI y` (theorems `daysBeforeYear_one`,
`daysBeforeYear_succ` in `Props/C29.lean`), `daysBeforeMonth` by `daysBeforeMonth_succ`. -/

def LeapP (y : Int) : Prop := y % 4 = 0 ∧ (y % 100 ≠ 0 ∨ y % 400 = 0)

instance (y : Int) : Decidable (LeapP y) := by unfold LeapP; exact inferInstance

def leapI (y : Int) : Int := if LeapP y then 1 else 0

def daysBeforeYear (y : Int) : Int := 365 * (y - 1) + (y - 1) / 4 - (y - 1) / 100 + (y - 1) / 400

/-- length of month `m` (1-based) in a year with leap indicator `L` -/
def monthLen (L : Int) : Nat → Int
  | 2 => 28 + L
  | 4 | 6 | 9 | 11 => 30
  | _ => 31

/-- days of the year before the first of month `m` -/
def daysBeforeMonth (L : Int) : Nat → Int
  | 1 => 0 | 2 => 31 | 3 => 59 + L | 4 => 90 + L | 5 => 120 + L | 6 => 151 + L | 7 => 181 + L
  | 8 => 212 + L | 9 => 243 + L | 10 => 273 + L | 11 => 304 + L | 12 => 334 + L | _ => 0

/-- days from 1970-01-01 to the civil date y-m-d (719162 = days from 0001-01-01 to 1970-01-01) -/
def daysFromCivil (y : Int) (m d : Nat) : Int :=
  daysBeforeYear y + daysBeforeMonth (leapI y) m + ((d : Int) - 1) - 719162

/-- the Unix timestamp the calendar assigns to a date-time -/
def specSecs (dt : DT) : Int :=
  86400 * daysFromCivil dt.year dt.month dt.day + 3600 * dt.hour + 60 * dt.minute + dt.second

/-- a valid calendar date-time representable by `UtcDateTime` -/
def Valid (dt : DT) : Prop :=
  1 ≤ dt.year ∧ dt.year ≤ U32_MAX ∧ 1 ≤ dt.month ∧ dt.month ≤ 12 ∧ 1 ≤ dt.day ∧
    (dt.day : Int) ≤ monthLen (leapI dt.year) dt.month ∧ dt.hour ≤ 23 ∧ dt.minute ≤ 59 ∧ dt.second ≤ 59

theorem leapI_cases (y : Int) : (LeapP y ∧ leapI y = 1) ∨ (¬ LeapP y ∧ leapI y = 0) := by
  unfold leapI; by_cases h : LeapP y <;> simp [h]

/-! ### arithmetic helpers -/

theorem tdivmod_facts (a b : Int) (hb : 0 < b) :
    b * a.tdiv b + a.tmod b = a ∧ (0 ≤ a → 0 ≤ a.tmod b) ∧ (a ≤ 0 → a.tmod b ≤ 0) ∧
      a.tmod b < b ∧ -b < a.tmod b := by
  refine ⟨Int.mul_tdiv_add_tmod a b, fun h => Int.tmod_nonneg b h, ?_, Int.tmod_lt_of_pos a hb, Int.lt_tmod_of_pos a hb⟩
  intro h
  have : 0 ≤ (-a).tmod b := Int.tmod_nonneg b (by omega)
  rw [Int.neg_tmod] at this; omega

theorem divModFix_eq (a b : Int) (hb : 0 < b) : divModFix a b = (a / b, a % b) := by
  obtain ⟨h1, h2, h3, h4, h5⟩ := tdivmod_facts a b hb
  have key : ∀ q r : Int, r + b * q = a → 0 ≤ r → r < b → (q, r) = (a / b, a % b) := by
    intro q r e1 e2 e3
    have := (Int.ediv_emod_unique (a := a) (r := r) (q := q) hb).2 ⟨e1, e2, e3⟩
    rw [this.1, this.2]
  unfold divModFix
  simp only
  split
  · apply key
    · rw [Int.mul_sub]; omega
    · omega
    · omega
  · apply key <;> omega

theorem capDiv_spec (rd per cap : Int) (h : 0 ≤ rd) :
    ∃ c r, capDiv rd per cap = (c, r) ∧ c = (if rd / per = cap then cap - 1 else rd / per) ∧
      r = rd - c * per := by
  refine ⟨_, _, rfl, ?_, rfl⟩
  simp only [Int.tdiv_eq_ediv_of_nonneg h]
  split <;> omega

/-- the decomposition result, as linear facts -/
theorem marchYear_spec (days : Int) :
    ∃ y doy, marchYear days = (y, doy) ∧
    days = 365 * (y - 2000) + (y - 2000) / 4 - (y - 2000) / 100 + (y - 2000) / 400 + doy ∧ 0 ≤ doy ∧
      (doy ≤ 364 ∨ (doy = 365 ∧ (y + 1) % 4 = 0 ∧ ((y + 1) % 100 ≠ 0 ∨ (y + 1) % 400 = 0))) := by
  unfold marchYear
  rw [divModFix_eq _ _ (by decide)]
  have hq : DAYS_PER_400Y = 146097 := by decide
  have h100 : DAYS_PER_100Y = 36524 := by decide
  have h4 : DAYS_PER_4Y = 1461 := by decide
  rw [hq, h100, h4]
  simp only
  generalize hc400 : days / 146097 = c400
  generalize hrd1 : days % 146097 = rd1
  have b1 : 0 ≤ rd1 ∧ rd1 < 146097 := by omega
  have e0 : days = 146097 * c400 + rd1 := by omega
  clear hc400 hrd1
  obtain ⟨c100, rd2, e1, hc100, hrd2⟩ := capDiv_spec rd1 36524 4 b1.1
  rw [e1]; simp only
  have b2 : 0 ≤ rd2 := by
    by_cases hh : rd1 / 36524 = 4 <;> simp only [hh, if_true, if_false] at hc100 <;> omega
  obtain ⟨c4, rd3, e2, hc4, hrd3⟩ := capDiv_spec rd2 1461 25 b2
  rw [e2]; simp only
  have b3 : 0 ≤ rd3 := by
    by_cases hh : rd2 / 1461 = 25 <;> simp only [hh, if_true, if_false] at hc4 <;> omega
  obtain ⟨ry, rd4, e3, hry, hrd4⟩ := capDiv_spec rd3 365 4 b3
  rw [e3]; simp only
  refine ⟨_, _, rfl, ?_⟩
  -- bounds on the cycle counters
  have k100 : 0 ≤ c100 ∧ c100 ≤ 3 ∧ (c100 ≤ 2 → rd2 ≤ 36523) ∧ rd2 ≤ 36524 := by
    by_cases g1 : rd1 / 36524 = 4 <;> simp only [g1, if_true, if_false] at hc100 <;> omega
  have k4 : 0 ≤ c4 ∧ c4 ≤ 24 ∧ rd3 ≤ 1460 ∧ (rd3 = 1460 → c4 = 24 → c100 = 3) := by
    by_cases g2 : rd2 / 1461 = 25 <;> simp only [g2, if_true, if_false] at hc4 <;> omega
  have k1 : 0 ≤ ry ∧ ry ≤ 3 ∧ rd4 ≤ 365 ∧ (rd4 = 365 → ry = 3 ∧ rd3 = 1460) := by
    by_cases g3 : rd3 / 365 = 4 <;> simp only [g3, if_true, if_false] at hry <;> omega
  have q4 : (ry + 4 * c4 + 100 * c100 + 400 * c400 + 2000 - 2000) / 4 = c4 + 25 * c100 + 100 * c400 := by omega
  have q100 : (ry + 4 * c4 + 100 * c100 + 400 * c400 + 2000 - 2000) / 100 = c100 + 4 * c400 := by omega
  have q400 : (ry + 4 * c4 + 100 * c100 + 400 * c400 + 2000 - 2000) / 400 = c400 := by omega
  rw [q4, q100, q400]
  refine ⟨by omega, by omega, ?_⟩
  by_cases hd : rd4 = 365
  · right
    obtain ⟨hr3, hr1460⟩ := k1.2.2.2 hd
    have := k4.2.2.2 hr1460
    refine ⟨hd, by omega, ?_⟩
    by_cases hc : c4 = 24
    · right; have := this hc; omega
    · left; omega
  · left; omega
/-! ### the month loop -/

def marchCum : Nat → Int
  | 0 => 0 | 1 => 31 | 2 => 61 | 3 => 92 | 4 => 122 | 5 => 153 | 6 => 184 | 7 => 214 | 8 => 245
  | 9 => 275 | 10 => 306 | 11 => 337 | _ => 0
def marchLen : Nat → Int
  | 0 => 31 | 1 => 30 | 2 => 31 | 3 => 30 | 4 => 31 | 5 => 31 | 6 => 30 | 7 => 31 | 8 => 30
  | 9 => 31 | 10 => 31 | 11 => 29 | _ => 0

theorem marchTable : daysInMonthsStartingOnMarch = [31, 30, 31, 30, 31, 31, 30, 31, 30, 31, 31, 29] := by
  decide

theorem monthLoop_spec (doy : Int) (h0 : 0 ≤ doy) (h1 : doy ≤ 365) :
    ∃ m r, monthLoop daysInMonthsStartingOnMarch 0 doy = some (m, r) ∧ m ≤ 11 ∧ 0 ≤ r ∧
      marchCum m + r = doy ∧ r < marchLen m := by
  rw [marchTable]
  simp only [monthLoop]
  have hc : (0 ≤ doy ∧ doy < 31) ∨ (31 ≤ doy ∧ doy < 61) ∨ (61 ≤ doy ∧ doy < 92) ∨ (92 ≤ doy ∧ doy < 122) ∨ (122 ≤ doy ∧ doy < 153) ∨ (153 ≤ doy ∧ doy < 184) ∨ (184 ≤ doy ∧ doy < 214) ∨ (214 ≤ doy ∧ doy < 245) ∨ (245 ≤ doy ∧ doy < 275) ∨ (275 ≤ doy ∧ doy < 306) ∨ (306 ≤ doy ∧ doy < 337) ∨ (337 ≤ doy ∧ doy < 366) := by omega
  rcases hc with h|h|h|h|h|h|h|h|h|h|h|h
  all_goals (repeat (first | rw [if_pos (by omega)] | rw [if_neg (by omega)]))
  all_goals (refine ⟨_, _, rfl, ?_, ?_, ?_, ?_⟩ <;> (try simp only [marchCum, marchLen]) <;> omega)
/-! ### `from_instant` meets the specification -/

theorem tryFrom_ok (max : Nat) (x : Int) (h0 : 0 ≤ x) (h1 : x ≤ max) : tryFrom max x = .ok x.toNat := by
  unfold tryFrom; simp [h0, h1]

theorem leapCount_mono (a b : Int) (h : a ≤ b) :
    a / 4 - a / 100 + a / 400 ≤ b / 4 - b / 100 + b / 400 := by
  have ha : a / 100 = a / 4 / 25 := by omega
  have hb : b / 100 = b / 4 / 25 := by omega
  have ha4 : a / 400 = a / 100 / 4 := by omega
  have hb4 : b / 400 = b / 100 / 4 := by omega
  have h1 : a / 4 ≤ b / 4 := by omega
  have h2 : a / 4 - a / 4 / 25 ≤ b / 4 - b / 4 / 25 := by omega
  have h3 : a / 100 ≤ b / 100 := by omega
  have h4 : a / 100 / 4 ≤ b / 100 / 4 := by omega
  omega

theorem dby_succ (y : Int) : daysBeforeYear (y + 1) = daysBeforeYear y + 365 + leapI y := by
  unfold daysBeforeYear
  have e : y + 1 - 1 = y := by omega
  rw [e]
  have h4 : y / 4 = (y - 1) / 4 + (if y % 4 = 0 then 1 else 0) := by split <;> omega
  have h100 : y / 100 = (y - 1) / 100 + (if y % 100 = 0 then 1 else 0) := by split <;> omega
  have h400 : y / 400 = (y - 1) / 400 + (if y % 400 = 0 then 1 else 0) := by split <;> omega
  rw [h4, h100, h400]
  rcases leapI_cases y with ⟨hl, h⟩ | ⟨hl, h⟩ <;> rw [h] <;> unfold LeapP at hl <;>
    (repeat' split) <;> omega

theorem march_dby (y : Int) :
    365 * (y - 2000) + (y - 2000) / 4 - (y - 2000) / 100 + (y - 2000) / 400
      = daysBeforeYear y + 59 + leapI y - 730179 := by
  have h := dby_succ y
  unfold daysBeforeYear at *
  have e : y + 1 - 1 = y := by omega
  rw [e] at h
  have h4 : (y - 2000) / 4 = y / 4 - 500 := by omega
  have h100 : (y - 2000) / 100 = y / 100 - 20 := by omega
  have h400 : (y - 2000) / 400 = y / 400 - 5 := by omega
  rw [h4, h100, h400]
  omega

theorem fromInstant_finish (t Y : Int) (mo : Nat) (r rem : Int) (hY : 1 ≤ Y ∧ Y ≤ 4294967295)
    (hmo : 1 ≤ mo ∧ mo ≤ 12) (hr : 0 ≤ r ∧ r + 1 ≤ monthLen (leapI Y) mo) (hrem : 0 ≤ rem ∧ rem < 86400)
    (hsecs : 86400 * (daysBeforeYear Y + daysBeforeMonth (leapI Y) mo + r - 719162) + rem = t) :
    ∃ dt,
      (match tryFrom 4294967295 Y, tryFrom 255 (mo : Int), tryFrom 255 (r + 1), tryFrom 255 (rem / 3600),
            tryFrom 255 (rem / 60 % 60), tryFrom 255 (rem % 60) with
          | Except.ok y, Except.ok mo, Except.ok d, Except.ok h, Except.ok mi, Except.ok s =>
            Except.ok { year := y, month := mo, day := d, hour := h, minute := mi, second := s }
          | _, _, _, _, _, _ => Except.error Err.panic) = Except.ok dt ∧
        Valid dt ∧ specSecs dt = t := by
  have hml : monthLen (leapI Y) mo ≤ 31 := by
    rcases leapI_cases Y with ⟨_, h⟩ | ⟨_, h⟩ <;> rw [h] <;> unfold monthLen <;> split <;> omega
  rw [tryFrom_ok _ Y (by omega) (by omega), tryFrom_ok _ (mo : Int) (by omega) (by omega),
    tryFrom_ok _ (r + 1) (by omega) (by omega), tryFrom_ok _ (rem / 3600) (by omega) (by omega),
    tryFrom_ok _ (rem / 60 % 60) (by omega) (by omega), tryFrom_ok _ (rem % 60) (by omega) (by omega)]
  refine ⟨_, rfl, ?_, ?_⟩
  · unfold Valid
    simp only [U32_MAX, Int.toNat_natCast]
    have e : ((Y.toNat : Nat) : Int) = Y := Int.toNat_of_nonneg (by omega)
    rw [e]
    refine ⟨by omega, by omega, hmo.1, hmo.2, by omega, by omega, by omega, by omega, by omega⟩
  · unfold specSecs daysFromCivil
    simp only [Int.toNat_natCast]
    have e : ((Y.toNat : Nat) : Int) = Y := Int.toNat_of_nonneg (by omega)
    rw [e]
    omega

set_option hygiene false in
/-- one month case of `fromInstant_spec`; `Y` is the calendar year of the case -/
local macro "fi_case" Y:term : tactic => `(tactic| (
    simp only [marchCum, marchLen] at hcum hlen
    simp only [ge_iff_le, Nat.reduceAdd, Nat.reduceLeDiff, Nat.reduceSub, if_true, if_false]
    apply fromInstant_finish
    · clear hy1' hS hy1; omega
    · omega
    · clear hy1' hS hy1
      rcases leapI_cases $Y with ⟨hl, h⟩ | ⟨hl, h⟩ <;> rw [h] <;> simp only [monthLen] <;> unfold LeapP at hl <;> omega
    · exact hrem0
    · clear hy1 hy3
      rcases leapI_cases y with ⟨hl, h⟩ | ⟨hl, h⟩ <;> simp only [daysBeforeMonth] <;> omega))

theorem fromInstant_spec (t : Int) (hmin : MIN_SUPPORTED_TIMESTAMP ≤ t) (hmax : t ≤ MAX_SUPPORTED_TIMESTAMP) :
    ∃ dt, fromInstant t = .ok dt ∧ Valid dt ∧ specSecs dt = t := by
  unfold fromInstant
  have hr : ¬ (t < MIN_SUPPORTED_TIMESTAMP ∨ t > MAX_SUPPORTED_TIMESTAMP) := by omega
  rw [if_neg hr]
  simp only [MIN_SUPPORTED_TIMESTAMP, MAX_SUPPORTED_TIMESTAMP] at hmin hmax
  have hs : SHIFT_FROM_UNIX_TIME_TO_MARCH_Y2K = 951868800 := by decide
  have hd : SECONDS_IN_A_DAY = 86400 := rfl
  have hh : SECONDS_IN_AN_HOUR = 3600 := rfl
  have hm : SECONDS_IN_A_MINUTE = 60 := rfl
  rw [hs, hd, hh, hm]
  simp only []
  rw [divModFix_eq _ _ (by decide)]
  simp only
  generalize hdays : (t - 951868800) / 86400 = days
  generalize hrem : (t - 951868800) % 86400 = rem
  have hrem0 : 0 ≤ rem ∧ rem < 86400 := by omega
  have ht : t = 951868800 + 86400 * days + rem := by omega
  clear hdays hrem
  obtain ⟨y, doy, e1, hy1, hy2, hy3⟩ := marchYear_spec days
  rw [e1]; simp only
  have hyU : y ≤ 4294967294 ∨ (y = 4294967295 ∧ doy ≤ 305) := by
    by_cases hb : y ≤ 4294967294
    · left; exact hb
    · right
      have := leapCount_mono 4294965295 (y - 2000) (by omega)
      omega
  have hyL : 1 ≤ y ∨ (y = 0 ∧ 306 ≤ doy) := by
    by_cases hb : 1 ≤ y
    · left; exact hb
    · right
      have := leapCount_mono (y - 2000) (-2000) (by omega)
      omega
  have hy1' := hy1
  rw [march_dby] at hy1'
  have hS := dby_succ y
  obtain ⟨m, r, e2, hm1, hr0, hcum, hlen⟩ := monthLoop_spec doy hy2 (by omega)
  rw [e2]; simp only
  simp only [Int.tdiv_eq_ediv_of_nonneg hrem0.1, Int.tmod_eq_emod_of_nonneg hrem0.1,
    Int.tmod_eq_emod_of_nonneg (show 0 ≤ rem / 60 by omega)]
  have hcases : m = 0 ∨ m = 1 ∨ m = 2 ∨ m = 3 ∨ m = 4 ∨ m = 5 ∨ m = 6 ∨ m = 7 ∨ m = 8 ∨ m = 9 ∨ m = 10 ∨ m = 11 := by omega
  simp only [U32_MAX]
  rcases hcases with rfl | rfl | rfl | rfl | rfl | rfl | rfl | rfl | rfl | rfl | rfl | rfl
  iterate 10 fi_case y
  all_goals fi_case (y + 1)
/-! ### `to_instant` meets the specification -/

theorem isLeapYear_iff (y : Nat) : isLeapYear y = true ↔ LeapP (y : Int) := by
  unfold isLeapYear LeapP
  simp only [Bool.and_eq_true, Bool.or_eq_true, beq_iff_eq, Bool.not_eq_true', beq_eq_false_iff_ne, ne_eq]
  omega

def bI (b : Bool) : Int := if b then 1 else 0

theorem leapI_eq (y : Nat) : leapI (y : Int) = bI (isLeapYear y) := by
  unfold leapI bI
  by_cases h : LeapP (y : Int)
  · rw [if_pos h, (isLeapYear_iff y).2 h]; rfl
  · have : isLeapYear y = false := by
      cases hh : isLeapYear y
      · rfl
      · exact absurd ((isLeapYear_iff y).1 hh) h
    rw [if_neg h, this]; rfl

theorem endedMonths_eq (leap : Bool) (mo : Nat) (h1 : 1 ≤ mo) (h2 : mo ≤ 12) :
    endedMonthsLoop leap (mo - 1) 255 0 0 = some (86400 * daysBeforeMonth (bI leap) mo) := by
  have hmc : mo = 1 ∨ mo = 2 ∨ mo = 3 ∨ mo = 4 ∨ mo = 5 ∨ mo = 6 ∨ mo = 7 ∨ mo = 8 ∨ mo = 9 ∨ mo = 10 ∨ mo = 11 ∨ mo = 12 := by omega
  rcases hmc with rfl | rfl | rfl | rfl | rfl | rfl | rfl | rfl | rfl | rfl | rfl | rfl <;>
    cases leap <;> decide

theorem nonStarted_eq (leap : Bool) (mo : Nat) (h1 : 1 ≤ mo) (h2 : mo ≤ 12) :
    nonStartedLoop leap (mo - 1) 12 11 0 =
      some (mo - 1, 86400 * (365 + bI leap - daysBeforeMonth (bI leap) mo - monthLen (bI leap) mo)) := by
  have hmc : mo = 1 ∨ mo = 2 ∨ mo = 3 ∨ mo = 4 ∨ mo = 5 ∨ mo = 6 ∨ mo = 7 ∨ mo = 8 ∨ mo = 9 ∨ mo = 10 ∨ mo = 11 ∨ mo = 12 := by omega
  rcases hmc with rfl | rfl | rfl | rfl | rfl | rfl | rfl | rfl | rfl | rfl | rfl | rfl <;>
    cases leap <;> decide

theorem dimTable_eq (leap : Bool) (mo : Nat) (h1 : 1 ≤ mo) (h2 : mo ≤ 12) :
    ∃ d₀ : Nat, LEAP_YEAR_DAYS_IN_MONTHS[mo - 1]? = some d₀ ∧
      (if (!leap && (mo - 1 == 1)) = true then (d₀ : Int) - 1 else (d₀ : Int)) = monthLen (bI leap) mo := by
  have hmc : mo = 1 ∨ mo = 2 ∨ mo = 3 ∨ mo = 4 ∨ mo = 5 ∨ mo = 6 ∨ mo = 7 ∨ mo = 8 ∨ mo = 9 ∨ mo = 10 ∨ mo = 11 ∨ mo = 12 := by omega
  rcases hmc with rfl | rfl | rfl | rfl | rfl | rfl | rfl | rfl | rfl | rfl | rfl | rfl <;>
    cases leap <;> exact ⟨_, rfl, by decide⟩

theorem numLeap_eq (y : Nat) (h : 1 ≤ y) :
    numLeapYearsUpToExclusive y = some ((y - 1) / 4 - (y - 1) / 100 + (y - 1) / 400) := by
  unfold numLeapYearsUpToExclusive
  rw [if_neg (by omega)]

theorem toInstant_spec (dt : DT) (hv : Valid dt) : toInstant dt = .ok (specSecs dt) := by
  obtain ⟨y, mo, d, h, mi, s⟩ := dt
  unfold Valid at hv
  simp only [U32_MAX] at hv
  obtain ⟨hy1, hy2, hm1, hm2, hd1, hd2, hh, hmi, hs⟩ := hv
  unfold toInstant
  have e70 : numLeapYearsUpToExclusive UNIX_EPOCH_YEAR = some 477 := by decide
  have e71 : numLeapYearsUpToExclusive (UNIX_EPOCH_YEAR + 1) = some 477 := by decide
  have eE : UNIX_EPOCH_YEAR = 1970 := rfl
  simp only [e70, e71, numLeap_eq y hy1, numLeap_eq (y + 1) (by omega), endedMonths_eq _ mo hm1 hm2,
    nonStarted_eq _ mo hm1 hm2]
  rw [eE]
  obtain ⟨d₀, ed, hdim⟩ := dimTable_eq (isLeapYear y) mo hm1 hm2
  rw [leapI_eq] at hd2
  unfold specSecs daysFromCivil
  simp only
  rw [leapI_eq]
  have c1 : SECONDS_IN_A_NON_LEAP_YEAR = 31536000 := by decide
  have c2 : SECONDS_IN_A_LEAP_YEAR = 31622400 := by decide
  have c3 : SECONDS_IN_A_DAY = 86400 := rfl
  have c4 : SECONDS_IN_AN_HOUR = 3600 := rfl
  have c5 : SECONDS_IN_A_MINUTE = 60 := rfl
  rw [c1, c2, c3, c4, c5]
  unfold daysBeforeYear
  split
  · next hge =>
    have hnl : ¬ ((y - 1) / 4 - (y - 1) / 100 + (y - 1) / 400 < 477) := by
      have := leapCount_mono 1969 ((y : Int) - 1) (by omega)
      omega
    rw [if_neg hnl, if_neg (by omega), if_neg (by omega)]
    refine congrArg Except.ok ?_
    generalize daysBeforeMonth (bI (isLeapYear y)) mo = dbm
    omega
  · next hlt =>
    have hnl : ¬ (477 < (y + 1 - 1) / 4 - (y + 1 - 1) / 100 + (y + 1 - 1) / 400) := by
      have := leapCount_mono (y : Int) 1969 (by omega)
      omega
    rw [if_neg hnl, if_neg (by omega), ed]
    simp only
    rw [if_neg (by omega), hdim]
    refine congrArg Except.ok ?_
    have hb : bI (isLeapYear y) = (y : Int) / 4 - ((y : Int) - 1) / 4 - ((y : Int) / 100 - ((y : Int) - 1) / 100)
        + ((y : Int) / 400 - ((y : Int) - 1) / 400) := by
      have h1 := dby_succ (y : Int)
      rw [leapI_eq] at h1
      unfold daysBeforeYear at h1
      have e : (y : Int) + 1 - 1 = y := by omega
      rw [e] at h1
      omega
    generalize daysBeforeMonth (bI (isLeapYear y)) mo = dbm
    generalize monthLen (bI (isLeapYear y)) mo = ml
    generalize bI (isLeapYear y) = L at hb ⊢
    omega
end Radix.Utc
