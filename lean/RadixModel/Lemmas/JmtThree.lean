/-
C17 — three tiers: the nested invariant `Good3` (every upper-tier leaf carries the root hash of a nested
tier tree that itself satisfies the invariant) is preserved by `putAtNextVersion`.
-/
import RadixModel.Lemmas.JmtUniq
namespace Radix.Jmt

variable {α : Type}

/-- every leaf's nested data is good (`G sub valueHash`). -/
def LeafGood (G : α → Hash → Prop) (t : Tree α) : Prop := ∀ l ∈ leaves t, G l.2.2.2 l.2.1

theorem applyUps_some (base : Key → Option (Val α)) (ups : List (KV α)) (k : Key) (val : Val α)
    (h : applyUps base ups k = some val) :
    (∃ kv ∈ ups, kv.val = some val) ∨ base k = some val := by
  unfold applyUps at h
  induction ups generalizing base with
  | nil => exact Or.inr h
  | cons kv ups ih =>
    simp only [List.foldl_cons] at h
    rcases ih _ h with ⟨kv', hm, hv⟩ | hb
    · exact Or.inl ⟨kv', by simp [hm], hv⟩
    · by_cases hk : kv.key = k
      · simp only [hk, if_true] at hb; exact Or.inl ⟨kv, by simp, hb⟩
      · simp only [hk, if_false] at hb; exact Or.inr hb

def rootOrNull (root : Option (Tree α)) : Tree α := match root with | some r => r | none => .null

theorem putTier_inv (H : List UInt8 → Hash) (v : Nat) (pfx : Path) (rv : Option Nat) (t : Tree α)
    (ups : List (KV α)) (root : Option (Tree α)) (evs : List Ev)
    (h : putTier H v pfx rv t ups = .ok (root, evs)) (hinv : Inv H [] t) (hrv : rv = none → t = .null) :
    Inv H [] (rootOrNull root) ∧
      ∀ k, getT (rootOrNull root) k 0 = applyUps (fun k => getT t k 0) ups k := by
  have hrep := putTier_spec H v pfx rv t ups root evs h hinv hrv
  cases root with
  | none =>
    constructor
    · show Inv H [] Tree.null; trivial
    · intro k; exact (hrep k List.nil_prefix).symm
  | some r =>
    constructor
    · exact hrep.2.1
    · intro k; exact hrep.2.2 k List.nil_prefix

theorem putTier_leafgood (H : List UInt8 → Hash) (G : α → Hash → Prop) (v : Nat) (pfx : Path)
    (rv : Option Nat) (t : Tree α) (ups : List (KV α)) (root : Option (Tree α)) (evs : List Ev)
    (h : putTier H v pfx rv t ups = .ok (root, evs)) (hinv : Inv H [] t) (hrv : rv = none → t = .null)
    (hg : LeafGood G t) (hups : ∀ kv ∈ ups, ∀ val, kv.val = some val → G val.2.2 val.1) :
    LeafGood G (rootOrNull root) := by
  obtain ⟨hi, hget⟩ := putTier_inv H v pfx rv t ups root evs h hinv hrv
  intro l hl
  have h1 := mem_leaves_getT H [] _ hi l hl
  rw [List.length_nil, hget] at h1
  rcases applyUps_some _ _ _ _ h1 with ⟨kv, hm, hv⟩ | hb
  · exact hups kv hm l.2 hv
  · exact hg (l.1, l.2) (getT_mem_leaves t l.1 0 l.2 hb)

theorem getLeaf_getT (t : Tree α) (k : Key) (d : Nat) (x : Option (Val α))
    (h : getLeaf t k d = .ok x) : getT t k d = x := by
  induction t generalizing d with
  | null => simp only [getLeaf] at h; injection h
  | leaf v lk vh p s => simp only [getLeaf] at h; injection h
  | node v hh c ih =>
    simp only [getLeaf] at h
    simp only [getT]
    cases hn : nib k d with
    | none => rw [hn] at h; cases h
    | some n => rw [hn] at h; exact ih n (d + 1) h

/-! ### substate tier -/

/-- partition-tier leaves carry a good substate-tier tree and its root hash. -/
def GP (H : List UInt8 → Hash) (s : STree) (vh : Hash) : Prop := Inv H [] s ∧ vh = hashOf H s

/-- entity-tier leaves carry a good partition-tier tree and its root hash. -/
def GE (H : List UInt8 → Hash) (p : PTree) (vh : Hash) : Prop :=
  Inv H [] p ∧ vh = hashOf H p ∧ LeafGood (GP H) p

/-- The nested invariant of the whole state tree. -/
def Good3 (H : List UInt8 → Hash) (t : ETree) : Prop := Inv H [] t ∧ LeafGood (GE H) t

theorem tierRoot_some {β : Type} (H : List UInt8 → Hash) (root : Option (Tree β)) (h : Hash) (r : Tree β)
    (hr : tierRoot H root = some (h, r)) : root = some r ∧ h = hashOf H r := by
  unfold tierRoot at hr
  cases root with
  | none => cases hr
  | some r' =>
    simp only at hr
    split at hr
    · cases hr
    · injection hr with hr; injection hr with h1 h2; subst h1; subst h2; exact ⟨rfl, rfl⟩

theorem applyPartition_good (H : List UInt8 → Hash) (v : Nat) (pfx : Path) (sub : Option (Nat × STree))
    (u : PUpd) (h : Hash) (s' : STree) (evs : List Ev)
    (hsub : ∀ pv s, sub = some (pv, s) → Inv H [] s)
    (hr : applyPartition H v pfx sub u = .ok (some (h, s'), evs)) : GP H s' h := by
  unfold applyPartition at hr
  cases u with
  | delta ups =>
    simp only at hr
    split at hr
    · cases hr
    · rename_i root evs' hp
      injection hr with hr; injection hr with h1 h2
      obtain ⟨hroot, hh⟩ := tierRoot_some H root h s' h1
      subst hroot
      have hinv : Inv H [] (tierTree sub) := by
        cases sub with
        | none => trivial
        | some x => exact hsub x.1 x.2 rfl
      have := putTier_inv H v pfx _ _ _ _ evs' hp hinv (by
        intro hn; cases sub with
        | none => rfl
        | some x => simp at hn)
      exact ⟨this.1, hh⟩
  | reset vals =>
    simp only at hr
    split at hr
    · cases hr
    · rename_i root evs' hp
      injection hr with hr; injection hr with h1 h2
      obtain ⟨hroot, hh⟩ := tierRoot_some H root h s' h1
      subst hroot
      have := putTier_inv H v pfx _ _ _ _ evs' hp (by trivial) (fun _ => rfl)
      exact ⟨this.1, hh⟩

theorem nestedTier_leaf {β : Type} (rv : Option Nat) (t : Tree β) (key : Key) (pv : Nat) (s : β)
    (h : nestedTier rv t key id = .ok (some (pv, s))) : ∃ vh, (key, (vh, pv, s)) ∈ leaves t := by
  unfold nestedTier at h
  cases rv with
  | none => simp at h
  | some _ =>
    simp only at h
    cases hg : getLeaf t key 0 with
    | error e => rw [hg] at h; cases h
    | ok x =>
      rw [hg] at h
      cases x with
      | none => simp at h
      | some val =>
        obtain ⟨vh, pl, s'⟩ := val
        simp only at h
        injection h with h; injection h with h; injection h with h1 h2
        subst h1; simp only [id] at h2; subst h2
        exact ⟨vh, getT_mem_leaves t key 0 _ (getLeaf_getT t key 0 _ hg)⟩

theorem partitionLeafUpdates_good (H : List UInt8 → Hash) (v : Nat) (ek : Key) (rv : Option Nat)
    (t : PTree) (hg : LeafGood (GP H) t) :
    ∀ (pus : List (Nat × PUpd)) (kvs : List (KV STree)) (evs : List Ev),
    partitionLeafUpdates H v ek rv t pus = .ok (kvs, evs) →
    ∀ kv ∈ kvs, ∀ val, kv.val = some val → GP H val.2.2 val.1 := by
  intro pus
  induction pus with
  | nil =>
    intro kvs evs h
    simp only [partitionLeafUpdates] at h
    injection h with h; injection h with h1 h2; subst h1
    intro kv hkv; simp at hkv
  | cons x pus ih =>
    intro kvs evs h
    obtain ⟨pn, pu⟩ := x
    simp only [partitionLeafUpdates] at h
    cases hn : nestedTier rv t [UInt8.ofNat pn] id with
    | error e => rw [hn] at h; cases h
    | ok sub =>
      rw [hn] at h; simp only at h
      cases ha : applyPartition H v (nibbles (ek ++ [TIER_SEPARATOR, UInt8.ofNat pn, TIER_SEPARATOR])) sub pu with
      | error e => rw [ha] at h; cases h
      | ok p =>
        obtain ⟨newRoot, evs1⟩ := p
        rw [ha] at h; simp only at h
        cases hrest : partitionLeafUpdates H v ek rv t pus with
        | error e => rw [hrest] at h; cases h
        | ok q =>
          obtain ⟨kvs', evs'⟩ := q
          rw [hrest] at h; simp only at h
          injection h with h; injection h with h1 h2; subst h1
          intro kv hkv val hval
          simp only [List.mem_cons] at hkv
          rcases hkv with rfl | hkv
          · simp only at hval
            cases newRoot with
            | none => simp at hval
            | some hs =>
              obtain ⟨hh, s'⟩ := hs
              simp only [Option.map_some] at hval
              injection hval with hval; subst hval
              refine applyPartition_good H v _ sub pu hh s' evs1 ?_ ha
              intro pv s hsub
              subst hsub
              obtain ⟨vh, hmem⟩ := nestedTier_leaf rv t _ pv s hn
              exact (hg _ hmem).1
          · exact ih kvs' evs' hrest kv hkv val hval

theorem applyEntity_good (H : List UInt8 → Hash) (v : Nat) (ek : Key) (part : Option (Nat × PTree))
    (pus : List (Nat × PUpd)) (h : Hash) (p' : PTree) (evs : List Ev)
    (hpart : ∀ pv p, part = some (pv, p) → Inv H [] p ∧ LeafGood (GP H) p)
    (hr : applyEntity H v ek part pus = .ok (some (h, p'), evs)) : GE H p' h := by
  unfold applyEntity at hr
  simp only at hr
  have hinv : Inv H [] (tierTree part) ∧ LeafGood (GP H) (tierTree part) := by
    cases part with
    | none => exact ⟨trivial, fun l hl => by simp [tierTree, leaves] at hl⟩
    | some x => exact hpart x.1 x.2 rfl
  have hrv : part.map (·.1) = none → tierTree part = .null := by
    intro hn; cases part with
    | none => rfl
    | some x => simp at hn
  split at hr
  · cases hr
  · rename_i kvs evs1 hl
    split at hr
    · cases hr
    · rename_i root evs2 hp
      injection hr with hr; injection hr with h1 h2
      obtain ⟨hroot, hh⟩ := tierRoot_some H root h p' h1
      subst hroot
      have hkv := partitionLeafUpdates_good H v ek _ _ hinv.2 pus kvs evs1 hl
      have h3 := putTier_inv H v _ _ _ kvs _ evs2 hp hinv.1 hrv
      have h4 := putTier_leafgood H (GP H) v _ _ _ kvs _ evs2 hp hinv.1 hrv hinv.2 hkv
      exact ⟨h3.1, hh, h4⟩

theorem entityLeafUpdates_good (H : List UInt8 → Hash) (v : Nat) (rv : Option Nat)
    (t : ETree) (hg : LeafGood (GE H) t) :
    ∀ (ups : List (Key × List (Nat × PUpd))) (kvs : List (KV PTree)) (evs : List Ev),
    entityLeafUpdates H v rv t ups = .ok (kvs, evs) →
    ∀ kv ∈ kvs, ∀ val, kv.val = some val → GE H val.2.2 val.1 := by
  intro ups
  induction ups with
  | nil =>
    intro kvs evs h
    simp only [entityLeafUpdates] at h
    injection h with h; injection h with h1 h2; subst h1
    intro kv hkv; simp at hkv
  | cons x ups ih =>
    intro kvs evs h
    obtain ⟨ek, pus⟩ := x
    simp only [entityLeafUpdates] at h
    cases hn : nestedTier rv t ek id with
    | error e => rw [hn] at h; cases h
    | ok part =>
      rw [hn] at h; simp only at h
      cases ha : applyEntity H v ek part pus with
      | error e => rw [ha] at h; cases h
      | ok p =>
        obtain ⟨newRoot, evs1⟩ := p
        rw [ha] at h; simp only at h
        cases hrest : entityLeafUpdates H v rv t ups with
        | error e => rw [hrest] at h; cases h
        | ok q =>
          obtain ⟨kvs', evs'⟩ := q
          rw [hrest] at h; simp only at h
          injection h with h; injection h with h1 h2; subst h1
          intro kv hkv val hval
          simp only [List.mem_cons] at hkv
          rcases hkv with rfl | hkv
          · simp only at hval
            cases newRoot with
            | none => simp at hval
            | some hs =>
              obtain ⟨hh, p'⟩ := hs
              simp only [Option.map_some] at hval
              injection hval with hval; subst hval
              refine applyEntity_good H v ek part pus hh p' evs1 ?_ ha
              intro pv p hsub
              subst hsub
              obtain ⟨vh, hmem⟩ := nestedTier_leaf rv t _ pv p hn
              have := hg _ hmem
              exact ⟨this.1, this.2.2⟩
          · exact ih kvs' evs' hrest kv hkv val hval

/-- **`Good3` is preserved by `put_at_next_version`** (whatever the store does with the events). -/
theorem good3_step (H : List UInt8 → Hash) (st st' : State) (ups : DbUpdates) (h : Hash) (evs : List Ev)
    (hg : Good3 H st.tree) (hrv : st.rootVersion = none → st.tree = .null)
    (hr : putAtNextVersion H st ups = .ok (st', h, evs)) :
    Good3 H st'.tree ∧ (st'.rootVersion = none → st'.tree = .null) ∧ h = hashOf H st'.tree := by
  unfold putAtNextVersion at hr
  simp only at hr
  cases hl : entityLeafUpdates H (st.rootVersion.getD 0 + 1) st.rootVersion st.tree ups with
  | error e => rw [hl] at hr; cases hr
  | ok q =>
    obtain ⟨kvs, evs1⟩ := q
    rw [hl] at hr; simp only at hr
    cases hp : putTier H (st.rootVersion.getD 0 + 1) [] st.rootVersion st.tree kvs with
    | error e => rw [hp] at hr; cases hr
    | ok p =>
      obtain ⟨root, evs2⟩ := p
      rw [hp] at hr; simp only at hr
      injection hr with hr; injection hr with h1 h2; injection h2 with h2 h3
      subst h1
      have hkv := entityLeafUpdates_good H _ _ _ hg.2 ups kvs evs1 hl
      have h3' := putTier_inv H _ _ _ _ kvs _ evs2 hp hg.1 hrv
      have h4 := putTier_leafgood H (GE H) _ _ _ _ kvs _ evs2 hp hg.1 hrv hg.2 hkv
      refine ⟨⟨?_, ?_⟩, fun hn => by simp at hn, ?_⟩
      · cases root <;> exact h3'.1
      · cases root <;> exact h4
      · rw [← h2]; cases root <;> rfl

end Radix.Jmt
