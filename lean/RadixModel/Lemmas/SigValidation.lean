/-
C33 — lemmas about the signature-validation model (`RadixModel/Model/SigValidation.lean`).
-/
import RadixModel.Model.SigValidation

set_option linter.unusedSectionVars false

namespace Radix.SigVal

variable {Key ISig NSig Hash : Type} [DecidableEq Key]

/-- soundness of the signature loop: what it returns is the accumulator followed by the recovered keys,
all signatures verified, no key repeated -/
theorem collect_spec (C : Crypto Key ISig NSig Hash) (h : Hash) :
    ∀ (ss : List ISig) (acc out : List Key), collect C h ss acc = .ok out →
      ∃ ks, ss.map (C.recover h) = ks.map some ∧ out = acc ++ ks ∧ (∀ k ∈ ks, k ∉ acc) ∧ ks.Nodup := by
  intro ss
  induction ss with
  | nil =>
    intro acc out hc
    simp [collect] at hc
    exact ⟨[], by simp, by simp [hc], by simp, by simp⟩
  | cons s ss ih =>
    intro acc out hc
    simp only [collect] at hc
    split at hc
    · simp at hc
    · rename_i k hk
      split at hc
      · simp at hc
      · rename_i hmem
        obtain ⟨ks, hm, ho, hn, hd⟩ := ih _ _ hc
        refine ⟨k :: ks, by simp [hk, hm], by simp [ho], ?_, ?_⟩
        · intro k' hk'
          simp at hk'
          rcases hk' with rfl | hk'
          · exact hmem
          · have := hn k' hk'
            simp at this
            exact this.1
        · refine List.nodup_cons.2 ⟨?_, hd⟩
          intro hin
          have := hn k hin
          simp at this

/-- completeness of the signature loop -/
theorem collect_complete (C : Crypto Key ISig NSig Hash) (h : Hash) :
    ∀ (ss : List ISig) (acc ks : List Key), ss.map (C.recover h) = ks.map some → (∀ k ∈ ks, k ∉ acc) → ks.Nodup →
      collect C h ss acc = .ok (acc ++ ks) := by
  intro ss
  induction ss with
  | nil =>
    intro acc ks hm _ _
    cases ks with
    | nil => simp [collect]
    | cons k ks => simp at hm
  | cons s ss ih =>
    intro acc ks hm hn hd
    cases ks with
    | nil => simp at hm
    | cons k ks =>
      simp at hm
      obtain ⟨hk, hm⟩ := hm
      have hd' := List.nodup_cons.1 hd
      simp only [collect, hk]
      have : k ∉ acc := hn k (by simp)
      simp only [this, if_false]
      have := ih (acc ++ [k]) ks (by simpa using hm) (by
        intro k' hk'
        simp
        refine ⟨hn k' (by simp [hk']), ?_⟩
        intro e
        subst e
        exact hd'.1 hk') hd'.2
      simpa using this

theorem collectKeys_iff : ∀ (ks acc out : List Key),
    collectKeys ks acc = .ok out ↔ (out = acc ++ ks ∧ (∀ k ∈ ks, k ∉ acc) ∧ ks.Nodup) := by
  intro ks
  induction ks with
  | nil => intro acc out; simp [collectKeys]; exact eq_comm
  | cons k ks ih =>
    intro acc out
    simp only [collectKeys]
    by_cases hmem : k ∈ acc
    · simp [hmem]
    · simp only [hmem, if_false, ih]
      constructor
      · rintro ⟨ho, hn, hd⟩
        refine ⟨by simp [ho], ?_, ?_⟩
        · intro k' hk'
          simp at hk'
          rcases hk' with rfl | hk'
          · exact hmem
          · have := hn k' hk'
            simp at this
            exact this.1
        · refine List.nodup_cons.2 ⟨?_, hd⟩
          intro hin
          have := hn k hin
          simp at this
      · rintro ⟨ho, hn, hd⟩
        have hd' := List.nodup_cons.1 hd
        refine ⟨by simp [ho], ?_, hd'.2⟩
        intro k' hk'
        simp
        refine ⟨hn k' (by simp [hk']), ?_⟩
        intro e
        subst e
        exact hd'.1 hk'

theorem addNonRoots_iff (cfg : Cfg) : ∀ (ps : List (Pending Key ISig NSig Hash)) (i t total : Nat),
    addNonRoots cfg ps i t = .ok total ↔
      ((∀ p ∈ ps, p.intentCount ≤ cfg.maxPerIntent) ∧ total = t + (ps.map Pending.intentCount).sum) := by
  intro ps
  induction ps with
  | nil => intro i t total; simp [addNonRoots]; exact eq_comm
  | cons p ps ih =>
    intro i t total
    simp only [addNonRoots]
    by_cases hp : p.intentCount > cfg.maxPerIntent
    · simp [hp]
      intro h
      omega
    · simp only [hp, if_false, ih]
      simp
      constructor
      · rintro ⟨h1, h2⟩
        exact ⟨⟨by omega, h1⟩, by omega⟩
      · rintro ⟨⟨_, h1⟩, h2⟩
        exact ⟨h1, by omega⟩

/-- the first over-limit batch is reported, with its index and count -/
theorem addNonRoots_error (cfg : Cfg) : ∀ (ps : List (Pending Key ISig NSig Hash)) (i t : Nat) (e : Loc × SErr),
    addNonRoots cfg ps i t = .error e →
      ∃ (j : Nat) (p : Pending Key ISig NSig Hash), ps[j]? = some p ∧ p.intentCount > cfg.maxPerIntent ∧
        e = (.nonRoot (i + j), .tooManySignatures p.intentCount cfg.maxPerIntent) ∧
        ∀ (j' : Nat) (p' : Pending Key ISig NSig Hash), j' < j → ps[j']? = some p' → p'.intentCount ≤ cfg.maxPerIntent := by
  intro ps
  induction ps with
  | nil => intro i t e h; simp [addNonRoots] at h
  | cons p ps ih =>
    intro i t e h
    simp only [addNonRoots] at h
    by_cases hp : p.intentCount > cfg.maxPerIntent
    · simp [hp] at h
      exact ⟨0, p, by simp, hp, by simp [h], by intro j' p' hj; omega⟩
    · simp only [hp, if_false] at h
      obtain ⟨j, q, hq, hgt, he, hmin⟩ := ih _ _ _ h
      refine ⟨j + 1, q, by simpa using hq, hgt, by rw [he]; congr 2; omega, ?_⟩
      intro j' p' hj' hp'
      cases j' with
      | zero => simp at hp'; subst hp'; omega
      | succ j' => exact hmin j' p' (by omega) (by simpa using hp')

theorem validateNonRoots_ok (C : Crypto Key ISig NSig Hash) (allow : Bool) :
    ∀ (ps : List (Pending Key ISig NSig Hash)) (i : Nat) (outs : List (List Key)),
      validateNonRoots C allow ps i = .ok outs →
        outs.length = ps.length ∧
        ∀ (j : Nat) (p : Pending Key ISig NSig Hash), ps[j]? = some p →
          ∃ ks, outs[j]? = some ks ∧ validateSignatures C allow p = .ok ks := by
  intro ps
  induction ps with
  | nil => intro i outs h; simp [validateNonRoots] at h; subst h; simp
  | cons p ps ih =>
    intro i outs h
    simp only [validateNonRoots] at h
    split at h
    · simp at h
    · rename_i ks hks
      split at h
      · simp at h
      · rename_i rest hrest
        simp at h
        subst h
        obtain ⟨hl, hall⟩ := ih _ _ hrest
        refine ⟨by simp [hl], ?_⟩
        intro j q hq
        cases j with
        | zero => simp at hq; subst hq; exact ⟨ks, by simp, hks⟩
        | succ j => simpa using hall j q (by simpa using hq)

end Radix.SigVal
