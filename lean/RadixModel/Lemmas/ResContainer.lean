/-
Helper lemmas for the container model (`Model/ResContainer.lean`).
-/
import RadixModel.Model.ResContainer
namespace Radix.Res

theorem maxL_nonneg (l : List Int) : 0 ≤ maxL l := by
  induction l with
  | nil => simp [maxL]
  | cons a t ih => simp only [maxL]; split <;> omega

theorem le_maxL_of_mem {l : List Int} {a : Int} (h : a ∈ l) : a ≤ maxL l := by
  induction l with
  | nil => cases h
  | cons b t ih =>
    simp only [maxL]
    rcases List.mem_cons.mp h with rfl | h
    · split <;> omega
    · have := ih h; split <;> omega

theorem maxL_zero_or_mem (l : List Int) : maxL l = 0 ∨ maxL l ∈ l := by
  induction l with
  | nil => left; rfl
  | cons b t ih =>
    simp only [maxL]
    split
    · right; exact List.mem_cons_self
    · rcases ih with h | h
      · left; exact h
      · right; exact List.mem_cons_of_mem _ h

theorem maxL_cons (a : Int) (t : List Int) : maxL (a :: t) = if a > maxL t then a else maxL t := rfl

/-- `maxL` only depends on the multiset. -/
theorem maxL_le_of_subset {l l' : List Int} (h : ∀ a ∈ l, a ∈ l') : maxL l ≤ maxL l' := by
  rcases maxL_zero_or_mem l with h0 | hm
  · rw [h0]; exact maxL_nonneg _
  · exact le_maxL_of_mem (h _ hm)

theorem maxL_erase_le (l : List Int) (a : Int) : maxL (l.erase a) ≤ maxL l :=
  maxL_le_of_subset (fun _ hx => List.mem_of_mem_erase hx)

theorem maxL_perm {l l' : List Int} (h : l.Perm l') : maxL l = maxL l' := by
  have h1 : maxL l ≤ maxL l' := maxL_le_of_subset (fun a ha => h.subset ha)
  have h2 : maxL l' ≤ maxL l := maxL_le_of_subset (fun a ha => h.symm.subset ha)
  omega

/-- the two ways `lock_amount` succeeds -/
theorem lock_cases (c c' : FCont) (a : Int) (w : Who) (h : c.lock a w = .ok c') :
    (a > maxL c.locked ∧ ¬ c.liquid < a - maxL c.locked ∧ c' = ⟨c.liquid - (a - maxL c.locked), a :: c.locked⟩) ∨
    (¬ a > maxL c.locked ∧ c' = ⟨c.liquid, a :: c.locked⟩) := by
  unfold FCont.lock FCont.takeRaw at h
  by_cases hgt : a > maxL c.locked
  · by_cases hlt : c.liquid < a - maxL c.locked
    · simp [hgt, hlt] at h
    · simp [hgt, hlt] at h
      exact Or.inl ⟨hgt, hlt, h.symm⟩
  · simp [hgt] at h
    exact Or.inr ⟨hgt, h.symm⟩

deriving instance DecidableEq for Except

/-! ### non-fungible id lists -/

theorem mem_of_mem_swapRemove {l l' : List Nat} {x y : Nat} (h : swapRemove l x = some l') (hy : y ∈ l') : y ∈ l := by
  unfold swapRemove at h
  by_cases hx : x ∈ l
  · simp only [hx, if_true] at h
    cases hl : l.getLast? with
    | none => simp [hl] at h
    | some last =>
      simp only [hl] at h
      have hlast : last ∈ l := List.mem_of_getLast? hl
      by_cases he : last = x
      · simp only [he, if_true, Option.some.injEq] at h; subst h; exact List.dropLast_subset l hy
      · simp only [he, if_false, Option.some.injEq] at h; subst h
        simp only [List.mem_map] at hy
        obtain ⟨z, hz, rfl⟩ := hy
        by_cases hzx : z = x
        · simp only [hzx, if_true]; exact hlast
        · simp only [hzx, if_false]; exact List.dropLast_subset l hz
  · simp [hx] at h

theorem takeIds_needs_liquid (w : Who) (ids : List Nat) : ∀ {l l' : List Nat}, takeIds l w ids = .ok l' →
    (∀ i ∈ ids, i ∈ l) ∧ (∀ y ∈ l', y ∈ l) := by
  induction ids with
  | nil => intro l l' h; simp only [takeIds, Except.ok.injEq] at h; subst h; exact ⟨(by intro i hi; cases hi), fun _ h => h⟩
  | cons id rest ih =>
    intro l l' h
    simp only [takeIds] at h
    cases hs : swapRemove l id with
    | none => simp [hs] at h
    | some l1 =>
      simp only [hs] at h
      obtain ⟨h1, h2⟩ := ih h
      have hid : id ∈ l := by
        unfold swapRemove at hs
        by_cases hx : id ∈ l
        · exact hx
        · simp [hx] at hs
      refine ⟨?_, fun y hy => mem_of_mem_swapRemove hs (h2 y hy)⟩
      intro i hi
      rcases List.mem_cons.mp hi with rfl | hi
      · exact hid
      · exact mem_of_mem_swapRemove hs (h1 i hi)

end Radix.Res
