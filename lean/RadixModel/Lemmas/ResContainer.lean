/-
Helper lemmas for the container model (`Model/ResContainer.lean`).
-/
import RadixModel.Model.ResContainer
namespace Radix.Res

theorem maxL_nonneg (l : List Int) : 0 ≤ maxL l := by
  induction l with
  | nil => simp [maxL]
  | cons a t ih => simp only [maxL]; split <;> omega

theorem le_maxL_of_mem {l : List Int} {a : Int} (h : a ∈ l) : a ≤ maxL l := by
  induction l with
  | nil => cases h
  | cons b t ih =>
    simp only [maxL]
    rcases List.mem_cons.mp h with rfl | h
    · split <;> omega
    · have := ih h; split <;> omega

theorem maxL_zero_or_mem (l : List Int) : maxL l = 0 ∨ maxL l ∈ l := by
  induction l with
  | nil => left; rfl
  | cons b t ih =>
    simp only [maxL]
    split
    · right; exact List.mem_cons_self
    · rcases ih with h | h
      · left; exact h
      · right; exact List.mem_cons_of_mem _ h

theorem maxL_cons (a : Int) (t : List Int) : maxL (a :: t) = if a > maxL t then a else maxL t := rfl

/-- `maxL` only depends on the multiset. -/
theorem maxL_le_of_subset {l l' : List Int} (h : ∀ a ∈ l, a ∈ l') : maxL l ≤ maxL l' := by
  rcases maxL_zero_or_mem l with h0 | hm
  · rw [h0]; exact maxL_nonneg _
  · exact le_maxL_of_mem (h _ hm)

theorem maxL_erase_le (l : List Int) (a : Int) : maxL (l.erase a) ≤ maxL l :=
  maxL_le_of_subset (fun _ hx => List.mem_of_mem_erase hx)

theorem maxL_perm {l l' : List Int} (h : l.Perm l') : maxL l = maxL l' := by
  have h1 : maxL l ≤ maxL l' := maxL_le_of_subset (fun a ha => h.subset ha)
  have h2 : maxL l' ≤ maxL l := maxL_le_of_subset (fun a ha => h.symm.subset ha)
  omega

/-- the two ways `lock_amount` succeeds -/
theorem lock_cases (c c' : FCont) (a : Int) (w : Who) (h : c.lock a w = .ok c') :
    (a > maxL c.locked ∧ ¬ c.liquid < a - maxL c.locked ∧ c' = ⟨c.liquid - (a - maxL c.locked), a :: c.locked⟩) ∨
    (¬ a > maxL c.locked ∧ c' = ⟨c.liquid, a :: c.locked⟩) := by
  unfold FCont.lock FCont.takeRaw at h
  by_cases hgt : a > maxL c.locked
  · by_cases hlt : c.liquid < a - maxL c.locked
    · simp [hgt, hlt] at h
    · simp [hgt, hlt] at h
      exact Or.inl ⟨hgt, hlt, h.symm⟩
  · simp [hgt] at h
    exact Or.inr ⟨hgt, h.symm⟩

deriving instance DecidableEq for Except

end Radix.Res
