/-
Lemmas for C14: the staged updates of the overlay, seen through the abstraction `absF`
(staged partition updates applied to a base partition, pointwise).
-/
import RadixModel.Model.Overlay
import RadixModel.Lemmas.SubstateDb
namespace Radix.Overlay
open Radix.KV Radix.SubstateDb

/-- the staged updates of one partition applied to the base partition `f`, pointwise -/
def absF (sp : Option SPart) (f : PF) : PF :=
  match sp with
  | none => f
  | some (.delta us) => fun k => match SMap.get? us k with | some c => c | none => f k
  | some (.reset vs) => fun k => SMap.get? vs k

def SPart.WF : SPart → Prop
  | .delta us => SMap.Sorted us
  | .reset vs => SMap.Sorted vs

/-- representation invariant of `StagingDatabaseUpdates`: no duplicate keys in the outer maps,
inner `BTreeMap`s sorted -/
structure SWF (s : Staging) : Prop where
  nodup : IMap.Nodup s
  inner : ∀ x ∈ s, IMap.Nodup x.2 ∧ ∀ y ∈ x.2, SPart.WF y.2

/-- `IndexMap`s have no duplicate keys -/
def UpdWF (u : DbUpdates) : Prop := ∀ x ∈ u, IMap.Nodup x.2

theorem absF_congr (sp : Option SPart) (f g : PF) (h : ∀ k, f k = g k) (k : Nat) :
    absF sp f k = absF sp g k := by
  cases sp with
  | none => exact h k
  | some sp =>
    cases sp with
    | delta us => simp only [absF]; rw [h]
    | reset vs => rfl

theorem absF_ofPUpd (u : PUpd) (f : PF) (k : Nat) :
    absF (some (SPart.ofPUpd u)) f k = applyPUpdF f u k := by
  cases u with
  | delta us =>
    simp only [SPart.ofPUpd, absF, applyPUpdF, SMap.get?_ofList]
    cases lastBinding us k <;> rfl
  | reset vs => simp only [SPart.ofPUpd, absF, applyPUpdF, SMap.get?_ofList]

theorem wf_ofPUpd (u : PUpd) : SPart.WF (SPart.ofPUpd u) := by
  cases u with
  | delta us => exact SMap.sorted_ofList us
  | reset vs => exact SMap.sorted_ofList vs

theorem get?_extendDelta (this other : List (Nat × DbUpdate)) (k : Nat) :
    SMap.get? (extendDelta this other) k
      = match lastBinding other k with | some c => some c | none => SMap.get? this k := by
  induction other generalizing this with
  | nil => rfl
  | cons hd t ih =>
    obtain ⟨a, c⟩ := hd
    simp only [extendDelta, ih, lastBinding, SMap.get?_insert]
    cases lastBinding t k with
    | some x => rfl
    | none => simp only []; split <;> rfl

theorem sorted_extendDelta (this other : List (Nat × DbUpdate)) (h : SMap.Sorted this) :
    SMap.Sorted (extendDelta this other) := by
  induction other generalizing this with
  | nil => exact h
  | cons hd t ih => exact ih _ (SMap.sorted_insert this hd.1 hd.2 h)

theorem applyOnReset_eq (this : List (Nat × Nat)) (other : List (Nat × DbUpdate)) :
    applyOnReset this other = applyDelta this other := by
  induction other generalizing this with
  | nil => rfl
  | cons hd t ih =>
    obtain ⟨a, c⟩ := hd
    cases c <;> simp only [applyOnReset, applyDelta, ih]

theorem absF_mergePart (sp : SPart) (u : PUpd) (f : PF) (k : Nat) :
    absF (some (mergePart sp u)) f k = applyPUpdF (absF (some sp) f) u k := by
  cases sp with
  | delta this =>
    cases u with
    | delta other =>
      simp only [mergePart, absF, applyPUpdF, get?_extendDelta]
      cases lastBinding other k <;> rfl
    | reset other => exact absF_ofPUpd (.reset other) f k
  | reset this =>
    cases u with
    | delta other =>
      simp only [mergePart, absF, applyPUpdF, applyOnReset_eq, get?_applyDelta]
    | reset other => exact absF_ofPUpd (.reset other) f k

theorem wf_mergePart (sp : SPart) (u : PUpd) (h : SPart.WF sp) : SPart.WF (mergePart sp u) := by
  cases sp with
  | delta this =>
    cases u with
    | delta other => exact sorted_extendDelta this other h
    | reset other => exact SMap.sorted_ofList other
  | reset this =>
    cases u with
    | delta other =>
      simp only [mergePart, SPart.WF, applyOnReset_eq]
      exact sorted_applyDelta this other h
    | reset other => exact SMap.sorted_ofList other

/-! ### node level -/

def SNode.WF (sn : SNode) : Prop := IMap.Nodup sn ∧ ∀ y ∈ sn, SPart.WF y.2

theorem absF_mergeNode (sn : SNode) (nu : NodeUpd) (p : Nat) (f : PF) (k : Nat) :
    absF (IMap.get? (mergeNode sn nu) p) f k = applyNodeF (absF (IMap.get? sn p) f) p nu k := by
  induction nu generalizing sn with
  | nil => rfl
  | cons hd t ih =>
    obtain ⟨p', u⟩ := hd
    simp only [mergeNode, applyNodeF]
    cases hsp : IMap.get? sn p' with
    | some sp =>
      simp only []
      rw [ih]
      apply applyNodeF_congr
      intro k'
      rw [IMap.get?_set]
      by_cases hp : p' = p
      · subst hp
        simp only [if_true, hsp]
        exact absF_mergePart sp u f k'
      · have : ¬ p = p' := fun e => hp e.symm
        simp only [this, hp, if_false]
    | none =>
      simp only []
      rw [ih]
      apply applyNodeF_congr
      intro k'
      rw [IMap.get?_set]
      by_cases hp : p' = p
      · subst hp
        simp only [if_true, hsp]
        exact absF_ofPUpd u f k'
      · have : ¬ p = p' := fun e => hp e.symm
        simp only [this, hp, if_false]

theorem wf_mergeNode (sn : SNode) (nu : NodeUpd) (h : SNode.WF sn) : SNode.WF (mergeNode sn nu) := by
  induction nu generalizing sn with
  | nil => exact h
  | cons hd t ih =>
    obtain ⟨p', u⟩ := hd
    simp only [mergeNode]
    cases hsp : IMap.get? sn p' with
    | some sp =>
      apply ih
      refine ⟨IMap.nodup_set sn p' _ h.1, ?_⟩
      apply IMap.forall_set (fun _ y => SPart.WF y) sn p' _ h.2
      exact wf_mergePart sp u (h.2 (p', sp) (IMap.mem_of_get? sn p' sp hsp))
    | none =>
      apply ih
      refine ⟨IMap.nodup_set sn p' _ h.1, ?_⟩
      exact IMap.forall_set (fun _ y => SPart.WF y) sn p' _ h.2 (wf_ofPUpd u)

theorem get?_ofNodeUpd_aux (nu : NodeUpd) (hn : IMap.Nodup nu) (m0 : SNode) (p : Nat) :
    IMap.get? (nu.foldl (fun m pu => IMap.set m pu.1 (SPart.ofPUpd pu.2)) m0) p
      = match IMap.get? nu p with | some u => some (SPart.ofPUpd u) | none => IMap.get? m0 p := by
  induction nu generalizing m0 with
  | nil => rfl
  | cons hd t ih =>
    obtain ⟨p', u⟩ := hd
    unfold IMap.Nodup at hn ih
    rw [List.pairwise_cons] at hn
    simp only [List.foldl_cons, IMap.get?_cons]
    rw [ih hn.2, IMap.get?_set]
    by_cases hp : p = p'
    · subst hp
      simp only [if_true]
      rw [IMap.get?_eq_none_of_notin t p (fun x hx e => hn.1 x hx e.symm)]
    · simp only [hp, if_false]

theorem absF_ofNodeUpd (nu : NodeUpd) (hn : IMap.Nodup nu) (p : Nat) (f : PF) (k : Nat) :
    absF (IMap.get? (SNode.ofNodeUpd nu) p) f k = applyNodeF f p nu k := by
  unfold SNode.ofNodeUpd
  rw [get?_ofNodeUpd_aux nu hn, applyNodeF_nodup nu hn]
  cases IMap.get? nu p with
  | some u => exact absF_ofPUpd u f k
  | none => rfl

theorem wf_ofNodeUpd_aux (nu : NodeUpd) (m0 : SNode) (h : SNode.WF m0) :
    SNode.WF (nu.foldl (fun m pu => IMap.set m pu.1 (SPart.ofPUpd pu.2)) m0) := by
  induction nu generalizing m0 with
  | nil => exact h
  | cons hd t ih =>
    apply ih
    exact ⟨IMap.nodup_set m0 _ _ h.1,
      IMap.forall_set (fun _ y => SPart.WF y) m0 _ _ h.2 (wf_ofPUpd hd.2)⟩

theorem wf_ofNodeUpd (nu : NodeUpd) : SNode.WF (SNode.ofNodeUpd nu) :=
  wf_ofNodeUpd_aux nu [] ⟨by simp [IMap.Nodup], by simp⟩

/-! ### whole updates -/

theorem stagedPart_eq (s : Staging) (pk : PKey) :
    stagedPart s pk = match IMap.get? s pk.1 with | none => none | some sn => IMap.get? sn pk.2 := rfl

/-- `merge_spec`: the staged updates after `merge_database_updates(this, other)` act on any base
partition like `other` applied after `this`. -/
theorem absF_mergeUpdates (s : Staging) (us : DbUpdates) (hu : UpdWF us) (pk : PKey) (f : PF) (k : Nat) :
    absF (stagedPart (mergeUpdates s us) pk) f k = applyF (absF (stagedPart s pk) f) pk us k := by
  induction us generalizing s with
  | nil => rfl
  | cons hd t ih =>
    obtain ⟨n, nu⟩ := hd
    have hnu : IMap.Nodup nu := hu (n, nu) (List.mem_cons_self ..)
    have ht : UpdWF t := fun x hx => hu x (List.mem_cons_of_mem _ hx)
    simp only [mergeUpdates, applyF]
    cases hsn : IMap.get? s n with
    | some sn =>
      simp only []
      rw [ih _ ht]
      apply applyF_congr
      intro k'
      simp only [stagedPart_eq, IMap.get?_set]
      by_cases hn : n = pk.1
      · subst hn
        simp only [if_true, hsn]
        exact absF_mergeNode sn nu pk.2 f k'
      · have : ¬ pk.1 = n := fun e => hn e.symm
        simp only [this, hn, if_false]
    | none =>
      simp only []
      rw [ih _ ht]
      apply applyF_congr
      intro k'
      simp only [stagedPart_eq, IMap.get?_set]
      by_cases hn : n = pk.1
      · subst hn
        simp only [if_true, hsn]
        exact absF_ofNodeUpd nu hnu pk.2 f k'
      · have : ¬ pk.1 = n := fun e => hn e.symm
        simp only [this, hn, if_false]

theorem swf_mergeUpdates (s : Staging) (us : DbUpdates) (h : SWF s) : SWF (mergeUpdates s us) := by
  induction us generalizing s with
  | nil => exact h
  | cons hd t ih =>
    obtain ⟨n, nu⟩ := hd
    simp only [mergeUpdates]
    cases hsn : IMap.get? s n with
    | some sn =>
      apply ih
      refine ⟨IMap.nodup_set s n _ h.nodup, ?_⟩
      apply IMap.forall_set (fun _ y => SNode.WF y) s n _ h.inner
      exact wf_mergeNode sn nu (h.inner (n, sn) (IMap.mem_of_get? s n sn hsn))
    | none =>
      apply ih
      refine ⟨IMap.nodup_set s n _ h.nodup, ?_⟩
      exact IMap.forall_set (fun _ y => SNode.WF y) s n _ h.inner (wf_ofNodeUpd nu)

theorem swf_nil : SWF [] := ⟨by simp [IMap.Nodup], by simp⟩

theorem swf_part (s : Staging) (h : SWF s) (pk : PKey) (sp : SPart) (hs : stagedPart s pk = some sp) :
    SPart.WF sp := by
  rw [stagedPart_eq] at hs
  cases hsn : IMap.get? s pk.1 with
  | none => rw [hsn] at hs; simp at hs
  | some sn =>
    rw [hsn] at hs
    simp only [] at hs
    exact (h.inner (pk.1, sn) (IMap.mem_of_get? s pk.1 sn hsn)).2 (pk.2, sp) (IMap.mem_of_get? sn pk.2 sp hs)

/-! ### committing the staged updates to the root -/

theorem applyPUpdF_toPUpd (sp : SPart) (h : SPart.WF sp) (f : PF) (k : Nat) :
    applyPUpdF f sp.toPUpd k = absF (some sp) f k := by
  cases sp with
  | delta us =>
    simp only [SPart.toPUpd, applyPUpdF, absF, lastBinding_sorted us h]
    cases SMap.get? us k <;> rfl
  | reset vs => simp only [SPart.toPUpd, applyPUpdF, absF, lastBinding_sorted vs h]

/-- the converted staged updates act on a base partition exactly like `absF` -/
theorem applyF_toUpdates (s : Staging) (h : SWF s) (pk : PKey) (f : PF) (k : Nat) :
    applyF f pk (Staging.toUpdates s) k = absF (stagedPart s pk) f k := by
  unfold Staging.toUpdates
  rw [applyF_nodup _ (IMap.nodup_map s _ h.nodup), IMap.get?_map, stagedPart_eq]
  cases hsn : IMap.get? s pk.1 with
  | none => rfl
  | some sn =>
    have hw := h.inner (pk.1, sn) (IMap.mem_of_get? s pk.1 sn hsn)
    simp only [Option.map]
    rw [applyNodeF_nodup _ (IMap.nodup_map sn _ hw.1), IMap.get?_map]
    cases hsp : IMap.get? sn pk.2 with
    | none => rfl
    | some sp =>
      simp only [Option.map]
      exact applyPUpdF_toPUpd sp (hw.2 (pk.2, sp) (IMap.mem_of_get? sn pk.2 sp hsp)) f k

end Radix.Overlay
