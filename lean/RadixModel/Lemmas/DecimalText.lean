import RadixModel.Model.DecimalText
import Mathlib.Tactic.Ring
import Mathlib.Tactic.Linarith
import Mathlib.Tactic.NormNum

namespace Radix.DecimalText

/-! ### digit bytes and their value -/

def IsDigit (b : Nat) : Prop := 48 ≤ b ∧ b ≤ 57

instance (b : Nat) : Decidable (IsDigit b) := by unfold IsDigit; exact inferInstance

/-- every byte of the list is an ASCII digit -/
def AllDigits (l : List Nat) : Prop := ∀ b ∈ l, IsDigit b

/-- numeric value of a digit byte (irreducible: `b - 48` under a recursive call sends `whnf` astray) -/
@[irreducible] def dig (b : Nat) : Nat := b - 48

theorem dig_eq (b : Nat) : dig b = b - 48 := by unfold dig; rfl

instance (l : List Nat) : Decidable (AllDigits l) := by unfold AllDigits; exact inferInstance

/-- value of a list of digit bytes, most significant first, starting from `acc` -/
def dvalAcc : Nat → List Nat → Nat
  | acc, [] => acc
  | acc, b :: bs => dvalAcc (acc * 10 + dig b) bs

/-- value of a list of digit bytes -/
def dval (l : List Nat) : Nat := dvalAcc 0 l

theorem digitOf_some {b d : Nat} : digitOf b = some d ↔ IsDigit b ∧ d = dig b := by
  unfold digitOf IsDigit
  rw [dig_eq]
  split <;> simp_all <;> omega

theorem digitOf_none {b : Nat} : digitOf b = none ↔ ¬ IsDigit b := by
  unfold digitOf IsDigit
  split <;> simp_all

theorem allDigits_nil : AllDigits [] := by intro b hb; cases hb

theorem allDigits_cons {b : Nat} {l : List Nat} : AllDigits (b :: l) ↔ IsDigit b ∧ AllDigits l := by
  simp [AllDigits]

theorem allDigits_append {a b : List Nat} : AllDigits (a ++ b) ↔ AllDigits a ∧ AllDigits b := by
  simp only [AllDigits, List.mem_append]
  constructor
  · intro h; exact ⟨fun x hx => h x (Or.inl hx), fun x hx => h x (Or.inr hx)⟩
  · rintro ⟨h1, h2⟩ x (hx | hx); exact h1 x hx; exact h2 x hx

theorem dvalAcc_eq (acc : Nat) (l : List Nat) : dvalAcc acc l = acc * 10 ^ l.length + dval l := by
  induction l generalizing acc with
  | nil => simp only [dvalAcc, dval, List.length_nil, pow_zero, mul_one, add_zero]
  | cons b bs ih =>
    simp only [dvalAcc, dval, List.length_cons]
    rw [ih, ih (0 * 10 + dig b)]
    ring

theorem dval_nil : dval [] = 0 := rfl

theorem dval_cons (b : Nat) (l : List Nat) : dval (b :: l) = dig b * 10 ^ l.length + dval l := by
  simp only [dval, dvalAcc]
  rw [dvalAcc_eq]; simp only [zero_mul, zero_add]; rfl

theorem dval_append (a b : List Nat) : dval (a ++ b) = dval a * 10 ^ b.length + dval b := by
  induction a with
  | nil => simp [dval_nil]
  | cons x xs ih =>
    simp only [List.cons_append, dval_cons, ih, List.length_append]
    ring

theorem dval_lt (l : List Nat) (h : AllDigits l) : dval l < 10 ^ l.length := by
  induction l with
  | nil => simp [dval_nil]
  | cons b bs ih =>
    rw [allDigits_cons] at h
    have := ih h.2
    have hb := h.1
    unfold IsDigit at hb
    rw [dval_cons, List.length_cons, pow_succ]
    have : dig b ≤ 9 := by rw [dig_eq]; omega
    nlinarith

theorem parseChunk_spec (acc : Nat) (l : List Nat) :
    parseChunk acc l = if AllDigits l then some (dvalAcc acc l) else none := by
  induction l generalizing acc with
  | nil => simp [parseChunk, dvalAcc, allDigits_nil]
  | cons b bs ih =>
    unfold parseChunk
    cases hd : digitOf b with
    | none =>
      have := digitOf_none.mp hd
      simp [allDigits_cons, this]
    | some d =>
      obtain ⟨h1, rfl⟩ := digitOf_some.mp hd
      simp only [ih, allDigits_cons, h1, true_and, dvalAcc]

/-! ### the chunk loop `go` -/


theorem BASE_def : BASE = 10 ^ 19 := by unfold BASE; rfl
theorem POWER_def : POWER = 19 := rfl

theorem go_nil (ub out n : Nat) : go ub out n 0 [] = .ok out := by
  simp [go]

theorem go_boundary_ovf (ub out : Nat) (b : Nat) (bs : List Nat) (h : ¬ out * BASE < 2 ^ ub) :
    go ub out 0 0 (b :: bs) = .error .posOverflow := by
  simp [go, h]

theorem go_boundary_bad (ub out : Nat) (b : Nat) (bs : List Nat) (h : out * BASE < 2 ^ ub)
    (hd : digitOf b = none) : go ub out 0 0 (b :: bs) = .error .invalidDigit := by
  simp [go, h, hd]

theorem go_boundary_ok (ub out : Nat) (b d : Nat) (bs : List Nat) (h : out * BASE < 2 ^ ub)
    (hd : digitOf b = some d) : go ub out 0 0 (b :: bs) = go ub (out * BASE) d 1 bs := by
  simp [go, h, hd, POWER_def]

theorem go_inner_bad (ub out n k : Nat) (b : Nat) (bs : List Nat) (hk : k ≠ 0)
    (hd : digitOf b = none) : go ub out n k (b :: bs) = .error .invalidDigit := by
  simp [go, hk, hd]

theorem go_inner_ok (ub out n k : Nat) (b d : Nat) (bs : List Nat) (hk : k ≠ 0) (hl : k + 1 ≠ 19)
    (hd : digitOf b = some d) : go ub out n k (b :: bs) = go ub out (n * 10 + d) (k + 1) bs := by
  simp [go, hk, hd, POWER_def, hl]

theorem go_last_ovf (ub out n k : Nat) (b d : Nat) (bs : List Nat) (hk : k ≠ 0) (hl : k + 1 = 19)
    (hd : digitOf b = some d) (h : ¬ out + (n * 10 + d) < 2 ^ ub) :
    go ub out n k (b :: bs) = .error .posOverflow := by
  simp [go, hk, hd, POWER_def, hl, h]

theorem go_last_ok (ub out n k : Nat) (b d : Nat) (bs : List Nat) (hk : k ≠ 0) (hl : k + 1 = 19)
    (hd : digitOf b = some d) (h : out + (n * 10 + d) < 2 ^ ub) :
    go ub out n k (b :: bs) = go ub (out + (n * 10 + d)) 0 0 bs := by
  simp [go, hk, hd, POWER_def, hl, h]



/-- state invariant of the chunk loop: `A` is the value of all digits consumed so far -/
def GoInv (ub out n k A : Nat) : Prop :=
  (k = 0 ∧ n = 0 ∧ out = A ∧ A < 2 ^ ub) ∨
  (0 < k ∧ k < 19 ∧ ∃ A0, out = A0 * BASE ∧ A = A0 * 10 ^ k + n)

theorem pow_ge_of_le {a b : Nat} (h : a ≤ b) : 10 ^ a ≤ 10 ^ b := Nat.pow_le_pow_right (by norm_num) h

theorem go_spec (ub : Nat) (bs : List Nat) : ∀ (out n k A : Nat), GoInv ub out n k A →
    (k + bs.length) % 19 = 0 →
    (AllDigits bs → go ub out n k bs =
      if A * 10 ^ bs.length + dval bs < 2 ^ ub then .ok (A * 10 ^ bs.length + dval bs) else .error .posOverflow) ∧
    (¬ AllDigits bs → ∃ e, go ub out n k bs = .error e) := by
  induction bs with
  | nil =>
    intro out n k A hinv hk
    rcases hinv with ⟨hk0, hn, hout, hA⟩ | ⟨h1, h2, _⟩
    · subst hk0 hn hout
      refine ⟨fun _ => ?_, fun h => absurd allDigits_nil h⟩
      rw [go_nil]
      simp [dval_nil, hA]
    · simp at hk; omega
  | cons b bs ih =>
    intro out n k A hinv hk
    rw [allDigits_cons]
    have hpos : 0 < (10:Nat) ^ bs.length := Nat.pow_pos (by norm_num)
    have hT : A * 10 ^ (b :: bs).length + dval (b :: bs) =
        (A * 10 + dig b) * 10 ^ bs.length + dval bs := by
      rw [dval_cons, List.length_cons]; ring
    rw [hT]
    simp only [List.length_cons] at hk
    rcases hinv with ⟨hk0, hn, hout, hA⟩ | ⟨hkpos, hk19, A0, hout, hAeq⟩
    · -- at a chunk boundary
      subst hk0 hn hout
      have hlen : 19 ≤ bs.length + 1 := by omega
      by_cases hmul : out * BASE < 2 ^ ub
      · cases hd : digitOf b with
        | none =>
          have hnd := digitOf_none.mp hd
          exact ⟨fun h => absurd h.1 hnd, fun _ => ⟨.invalidDigit, go_boundary_bad _ _ _ _ hmul hd⟩⟩
        | some d =>
          obtain ⟨hbd, rfl⟩ := digitOf_some.mp hd
          have hinv' : GoInv ub (out * BASE) (dig b) 1 (out * 10 + dig b) :=
            Or.inr ⟨by omega, by omega, out, rfl, by ring⟩
          obtain ⟨ih1, ih2⟩ := ih _ _ _ _ hinv' (by omega)
          rw [go_boundary_ok _ _ _ _ _ hmul hd]
          exact ⟨fun h => ih1 h.2, fun h => ih2 (fun h2 => h ⟨hbd, h2⟩)⟩
      · rw [go_boundary_ovf _ _ _ _ hmul]
        refine ⟨fun _ => ?_, fun _ => ⟨_, rfl⟩⟩
        have h0 : (10:Nat) ^ 19 ≤ 10 * 10 ^ bs.length := by
          have := pow_ge_of_le hlen
          rw [pow_succ] at this; omega
        have h1 : out * BASE ≤ out * (10 * 10 ^ bs.length) := by
          rw [BASE_def]; exact Nat.mul_le_mul_left _ h0
        have h2 : out * (10 * 10 ^ bs.length) ≤ (out * 10 + dig b) * 10 ^ bs.length := by
          have : out * (10 * 10 ^ bs.length) = (out * 10) * 10 ^ bs.length := by ring
          rw [this]; exact Nat.mul_le_mul_right _ (by omega)
        have : ¬ ((out * 10 + dig b) * 10 ^ bs.length + dval bs < 2 ^ ub) := by omega
        simp [this]
    · -- inside a chunk
      subst hout
      have hkne : k ≠ 0 := by omega
      cases hd : digitOf b with
      | none =>
        have hnd := digitOf_none.mp hd
        exact ⟨fun h => absurd h.1 hnd, fun _ => ⟨.invalidDigit, go_inner_bad _ _ _ _ _ _ hkne hd⟩⟩
      | some d =>
        obtain ⟨hbd, rfl⟩ := digitOf_some.mp hd
        by_cases hlast : k + 1 = 19
        · -- the chunk is complete: add
          have hA' : A * 10 + dig b = A0 * BASE + (n * 10 + dig b) := by
            rw [hAeq]
            have : BASE = 10 ^ k * 10 := by rw [BASE_def, ← pow_succ, hlast]
            rw [this]; ring
          by_cases hadd : A0 * BASE + (n * 10 + dig b) < 2 ^ ub
          · have hinv' : GoInv ub (A0 * BASE + (n * 10 + dig b)) 0 0 (A * 10 + dig b) :=
              Or.inl ⟨rfl, rfl, hA'.symm, by omega⟩
            obtain ⟨ih1, ih2⟩ := ih _ _ _ _ hinv' (by omega)
            rw [go_last_ok _ _ _ _ _ _ _ hkne hlast hd hadd]
            exact ⟨fun h => ih1 h.2, fun h => ih2 (fun h2 => h ⟨hbd, h2⟩)⟩
          · rw [go_last_ovf _ _ _ _ _ _ _ hkne hlast hd hadd]
            refine ⟨fun _ => ?_, fun _ => ⟨_, rfl⟩⟩
            have h1 : (A * 10 + dig b) * 1 ≤ (A * 10 + dig b) * 10 ^ bs.length :=
              Nat.mul_le_mul_left _ hpos
            have : ¬ ((A * 10 + dig b) * 10 ^ bs.length + dval bs < 2 ^ ub) := by omega
            simp [this]
        · have hinv' : GoInv ub (A0 * BASE) (n * 10 + dig b) (k + 1) (A * 10 + dig b) :=
            Or.inr ⟨by omega, by omega, A0, rfl, by rw [hAeq, pow_succ]; ring⟩
          obtain ⟨ih1, ih2⟩ := ih _ _ _ _ hinv' (by omega)
          rw [go_inner_ok _ _ _ _ _ _ _ hkne hlast hd]
          exact ⟨fun h => ih1 h.2, fun h => ih2 (fun h2 => h ⟨hbd, h2⟩)⟩


/-! ### `parseU`, `parseInt` -/


/-- length of the first chunk -/
def splitLen (ds : List Nat) : Nat := if ds.length % 19 = 0 then 19 else ds.length % 19

theorem parseU_eq (ub : Nat) (ds : List Nat) : parseU ub ds =
    match parseChunk 0 (ds.take (splitLen ds)) with
    | none => .error .invalidDigit
    | some first => go ub first 0 0 (ds.drop (splitLen ds)) := rfl

theorem parseU_spec (ub : Nat) (hub : 10 ^ 19 ≤ 2 ^ ub) (ds : List Nat) (hne : ds ≠ []) :
    (AllDigits ds → parseU ub ds =
      if dval ds < 2 ^ ub then .ok (dval ds) else .error .posOverflow) ∧
    (¬ AllDigits ds → ∃ e, parseU ub ds = .error e) := by
  have hlen : 0 < ds.length := List.length_pos_iff.mpr hne
  rw [parseU_eq]
  generalize hsplit : splitLen ds = split
  have hs1 : split ≤ ds.length := by
    rw [← hsplit]; unfold splitLen; split <;> omega
  have hs2 : (ds.length - split) % 19 = 0 := by
    rw [← hsplit]; unfold splitLen; split <;> omega
  have hs3 : split ≤ 19 := by
    rw [← hsplit]; unfold splitLen; split <;> omega
  have hds : ds = ds.take split ++ ds.drop split := (List.take_append_drop split ds).symm
  have hall : AllDigits ds ↔ AllDigits (ds.take split) ∧ AllDigits (ds.drop split) := by
    conv_lhs => rw [hds]
    exact allDigits_append
  have hval : dval ds = dval (ds.take split) * 10 ^ (ds.drop split).length + dval (ds.drop split) := by
    conv_lhs => rw [hds]
    exact dval_append _ _
  rw [parseChunk_spec]
  by_cases h1 : AllDigits (ds.take split)
  · rw [if_pos h1]
    have hlt : dval (ds.take split) < 2 ^ ub := by
      have := dval_lt _ h1
      have h2 : (ds.take split).length ≤ 19 := by rw [List.length_take]; omega
      have := pow_ge_of_le h2
      omega
    have hinv : GoInv ub (dvalAcc 0 (ds.take split)) 0 0 (dval (ds.take split)) :=
      Or.inl ⟨rfl, rfl, rfl, hlt⟩
    have hk : (0 + (ds.drop split).length) % 19 = 0 := by
      rw [List.length_drop]; omega
    obtain ⟨g1, g2⟩ := go_spec ub (ds.drop split) _ _ _ _ hinv hk
    rw [hall, hval]
    exact ⟨fun h => g1 h.2, fun h => g2 (fun h2 => h ⟨h1, h2⟩)⟩
  · rw [if_neg h1]
    rw [hall]
    exact ⟨fun h => absurd h.1 h1, fun _ => ⟨_, rfl⟩⟩

/-- `finishInt` applied to the outcome of parsing a magnitude of exact value `d` -/
theorem finishInt_ok_iff (bits : Nat) (hb : 0 < bits) (neg : Bool) (d : Nat) (v : Int) :
    finishInt bits neg (if d < 2 ^ bits then .ok d else .error .posOverflow) = .ok v ↔
      (if neg = true then d ≤ 2 ^ (bits - 1) ∧ v = -(d : Int) else d < 2 ^ (bits - 1) ∧ v = (d : Int)) := by
  have hpow : 2 ^ (bits - 1) < 2 ^ bits := Nat.pow_lt_pow_right (by norm_num) (by omega)
  by_cases hlt : d < 2 ^ bits
  · rw [if_pos hlt]
    cases neg
    · simp only [finishInt, Bool.false_eq_true, if_false]
      by_cases hr : 2 ^ (bits - 1) ≤ d
      · rw [if_pos hr]
        constructor
        · intro h; cases h
        · rintro ⟨h, _⟩; omega
      · rw [if_neg hr]
        constructor
        · intro h; cases h; exact ⟨by omega, rfl⟩
        · rintro ⟨_, rfl⟩; rfl
    · simp only [finishInt, if_true]
      by_cases hr : 2 ^ (bits - 1) ≤ d ∧ d ≠ 2 ^ (bits - 1)
      · rw [if_pos hr]
        constructor
        · intro h; cases h
        · rintro ⟨h, _⟩; omega
      · rw [if_neg hr]
        constructor
        · intro h; cases h; exact ⟨by omega, rfl⟩
        · rintro ⟨_, rfl⟩; rfl
  · rw [if_neg hlt]
    cases neg
    · simp only [finishInt, Bool.false_eq_true, and_false, if_false]
      constructor
      · intro h; cases h
      · rintro ⟨h, _⟩; omega
    · simp only [finishInt, and_self, if_true]
      constructor
      · intro h; cases h
      · rintro ⟨h, _⟩; omega

theorem finishInt_error (bits : Nat) (neg : Bool) (e : IErr) (v : Int) :
    finishInt bits neg (.error e) ≠ .ok v := by
  simp only [finishInt]
  split <;> simp

/-- the bytes after an optional leading sign -/
def intBody : List Nat → List Nat
  | [] => []
  | c :: rest => if c = 45 ∨ c = 43 then rest else c :: rest

/-- the text starts with `-` -/
def isNeg (s : List Nat) : Prop := s.head? = some 45

instance (s : List Nat) : Decidable (isNeg s) := by unfold isNeg; exact inferInstance

/-- acceptance and value of the signed integer parser -/
theorem parseU_ok_iff (bits : Nat) (hub : 10 ^ 19 ≤ 2 ^ bits) (ds : List Nat) (hne : ds ≠ []) (neg : Bool) (v : Int) :
    finishInt bits neg (parseU bits ds) = .ok v ↔
      AllDigits ds ∧
      (if neg = true then dval ds ≤ 2 ^ (bits - 1) ∧ v = -(dval ds : Int)
       else dval ds < 2 ^ (bits - 1) ∧ v = (dval ds : Int)) := by
  obtain ⟨p1, p2⟩ := parseU_spec bits hub ds hne
  by_cases hall : AllDigits ds
  · have hb : 0 < bits := by
      rcases Nat.eq_zero_or_pos bits with h | h
      · subst h; norm_num at hub
      · exact h
    rw [p1 hall, finishInt_ok_iff _ hb]
    simp only [hall, true_and]
  · obtain ⟨e, he⟩ := p2 hall
    rw [he]
    simp only [hall, false_and, iff_false]
    exact finishInt_error _ _ _ _

theorem parseInt_ok_iff (bits : Nat) (hub : 10 ^ 19 ≤ 2 ^ bits) (s : List Nat) (v : Int) :
    parseInt bits s = .ok v ↔
      intBody s ≠ [] ∧ AllDigits (intBody s) ∧
      (if isNeg s then dval (intBody s) ≤ 2 ^ (bits - 1) ∧ v = -(dval (intBody s) : Int)
       else dval (intBody s) < 2 ^ (bits - 1) ∧ v = (dval (intBody s) : Int)) := by
  cases s with
  | nil => simp [parseInt, intBody]
  | cons c rest =>
    unfold parseInt
    by_cases h45 : c = 45
    · subst h45
      have hbody : intBody (45 :: rest) = rest := by simp [intBody]
      have hneg : isNeg (45 :: rest) := by simp [isNeg]
      rw [hbody, if_pos hneg]
      simp only [if_true]
      cases rest with
      | nil => simp
      | cons r rs =>
        have hne : (r :: rs) ≠ [] := by simp
        simp only [List.isEmpty_cons, Bool.false_eq_true, if_false]
        rw [parseU_ok_iff bits hub _ hne]
        simp [hne]
    · by_cases h43 : c = 43
      · subst h43
        have hbody : intBody (43 :: rest) = rest := by simp [intBody]
        have hneg : ¬ isNeg (43 :: rest) := by simp [isNeg]
        rw [hbody, if_neg hneg]
        simp only [show ¬ ((43:Nat) = 45) by decide, if_false, if_true]
        cases rest with
        | nil => simp
        | cons r rs =>
          have hne : (r :: rs) ≠ [] := by simp
          simp only [List.isEmpty_cons, Bool.false_eq_true, if_false]
          rw [parseU_ok_iff bits hub _ hne]
          simp [hne]
      · have hbody : intBody (c :: rest) = c :: rest := by simp [intBody, h45, h43]
        have hneg : ¬ isNeg (c :: rest) := by simp [isNeg, h45]
        rw [hbody, if_neg hneg]
        simp only [h45, h43, if_false]
        have hne : (c :: rest) ≠ [] := by simp
        rw [parseU_ok_iff bits hub _ hne]
        simp [hne]



/-! ### `splitDot` -/

/-- inverse of `splitDot`: join the parts with `.` -/
def joinDot : List (List Nat) → List Nat
  | [] => []
  | [p] => p
  | p :: q :: r => p ++ 46 :: joinDot (q :: r)

theorem splitDot_ne_nil (s : List Nat) : splitDot s ≠ [] := by
  cases s with
  | nil => simp [splitDot]
  | cons c cs =>
    unfold splitDot
    split
    · simp
    · split <;> simp

theorem splitDot_spec (s : List Nat) :
    (∀ p ∈ splitDot s, 46 ∉ p) ∧ joinDot (splitDot s) = s := by
  induction s with
  | nil => simp [splitDot, joinDot]
  | cons c cs ih =>
    unfold splitDot
    cases h : splitDot cs with
    | nil => exact absurd h (splitDot_ne_nil cs)
    | cons p ps =>
      rw [h] at ih
      obtain ⟨ih1, ih2⟩ := ih
      by_cases hc : c = 46
      · subst hc
        simp only [if_true]
        constructor
        · intro q hq
          simp only [List.mem_cons] at hq
          rcases hq with rfl | hq
          · simp
          · exact ih1 q (by simpa using hq)
        · simp only [joinDot, List.nil_append, ih2]
      · simp only [hc, if_false]
        constructor
        · intro q hq
          simp only [List.mem_cons] at hq
          rcases hq with rfl | hq
          · have := ih1 p (by simp)
            simp only [List.mem_cons, not_or]
            exact ⟨fun h => hc h.symm, this⟩
          · exact ih1 q (by simp [hq])
        · cases ps with
          | nil => simpa [joinDot] using ih2
          | cons q r => simp only [joinDot, List.cons_append] at ih2 ⊢; rw [ih2]

theorem splitDot_cons (c : Nat) (cs : List Nat) : splitDot (c :: cs) =
    match splitDot cs with
    | [] => [[]]
    | p :: ps => if c = 46 then [] :: p :: ps else (c :: p) :: ps := by
  conv_lhs => unfold splitDot
  rfl

theorem splitDot_of_not_mem {s : List Nat} (h : 46 ∉ s) : splitDot s = [s] := by
  induction s with
  | nil => simp [splitDot]
  | cons c cs ih =>
    simp only [List.mem_cons, not_or] at h
    unfold splitDot
    rw [ih h.2]
    have : ¬ c = 46 := fun e => h.1 e.symm
    simp [this]

theorem splitDot_append_dot {a : List Nat} (b : List Nat) (h : 46 ∉ a) :
    splitDot (a ++ 46 :: b) = a :: splitDot b := by
  induction a with
  | nil =>
    simp only [List.nil_append]
    rw [splitDot_cons]
    cases hb : splitDot b with
    | nil => exact absurd hb (splitDot_ne_nil b)
    | cons p ps => simp
  | cons c cs ih =>
    simp only [List.mem_cons, not_or] at h
    simp only [List.cons_append]
    rw [splitDot_cons, ih h.2]
    have : ¬ c = 46 := fun e => h.1 e.symm
    simp [this]

theorem splitDot_one {s a : List Nat} (h : splitDot s = [a]) : s = a ∧ 46 ∉ a := by
  have := splitDot_spec s
  rw [h] at this
  exact ⟨by simpa [joinDot] using this.2.symm, this.1 a (by simp)⟩

theorem splitDot_two {s a b : List Nat} (h : splitDot s = [a, b]) :
    s = a ++ 46 :: b ∧ 46 ∉ a ∧ 46 ∉ b := by
  have := splitDot_spec s
  rw [h] at this
  exact ⟨by simpa [joinDot] using this.2.symm, this.1 a (by simp), this.1 b (by simp)⟩

theorem not_dot_of_digit {b : Nat} (h : IsDigit b) : b ≠ 46 := by unfold IsDigit at h; omega

theorem dot_not_mem_of_allDigits {l : List Nat} (h : AllDigits l) : 46 ∉ l := by
  intro hm; exact not_dot_of_digit (h 46 hm) rfl


end Radix.DecimalText
