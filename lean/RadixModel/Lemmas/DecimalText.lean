import RadixModel.Model.DecimalText
import Mathlib.Tactic.Ring
import Mathlib.Tactic.Linarith
import Mathlib.Tactic.NormNum

namespace Radix.DecimalText

/-! ### digit bytes and their value -/

def IsDigit (b : Nat) : Prop := 48 ≤ b ∧ b ≤ 57

instance (b : Nat) : Decidable (IsDigit b) := by unfold IsDigit; exact inferInstance

/-- every byte of the list is an ASCII digit -/
def AllDigits (l : List Nat) : Prop := ∀ b ∈ l, IsDigit b

/-- numeric value of a digit byte (irreducible: `b - 48` under a recursive call sends `whnf` astray) -/
@[irreducible] def dig (b : Nat) : Nat := b - 48

theorem dig_eq (b : Nat) : dig b = b - 48 := by unfold dig; rfl

instance (l : List Nat) : Decidable (AllDigits l) := by unfold AllDigits; exact inferInstance

/-- value of a list of digit bytes, most significant first, starting from `acc` -/
def dvalAcc : Nat → List Nat → Nat
  | acc, [] => acc
  | acc, b :: bs => dvalAcc (acc * 10 + dig b) bs

/-- value of a list of digit bytes -/
def dval (l : List Nat) : Nat := dvalAcc 0 l

theorem digitOf_some {b d : Nat} : digitOf b = some d ↔ IsDigit b ∧ d = dig b := by
  unfold digitOf IsDigit
  rw [dig_eq]
  split <;> simp_all <;> omega

theorem digitOf_none {b : Nat} : digitOf b = none ↔ ¬ IsDigit b := by
  unfold digitOf IsDigit
  split <;> simp_all

theorem allDigits_nil : AllDigits [] := by intro b hb; cases hb

theorem allDigits_cons {b : Nat} {l : List Nat} : AllDigits (b :: l) ↔ IsDigit b ∧ AllDigits l := by
  simp [AllDigits]

theorem allDigits_append {a b : List Nat} : AllDigits (a ++ b) ↔ AllDigits a ∧ AllDigits b := by
  simp only [AllDigits, List.mem_append]
  constructor
  · intro h; exact ⟨fun x hx => h x (Or.inl hx), fun x hx => h x (Or.inr hx)⟩
  · rintro ⟨h1, h2⟩ x (hx | hx); exact h1 x hx; exact h2 x hx

theorem dvalAcc_eq (acc : Nat) (l : List Nat) : dvalAcc acc l = acc * 10 ^ l.length + dval l := by
  induction l generalizing acc with
  | nil => simp only [dvalAcc, dval, List.length_nil, pow_zero, mul_one, add_zero]
  | cons b bs ih =>
    simp only [dvalAcc, dval, List.length_cons]
    rw [ih, ih (0 * 10 + dig b)]
    ring

theorem dval_nil : dval [] = 0 := rfl

theorem dval_cons (b : Nat) (l : List Nat) : dval (b :: l) = dig b * 10 ^ l.length + dval l := by
  simp only [dval, dvalAcc]
  rw [dvalAcc_eq]; simp only [zero_mul, zero_add]; rfl

theorem dval_append (a b : List Nat) : dval (a ++ b) = dval a * 10 ^ b.length + dval b := by
  induction a with
  | nil => simp [dval_nil]
  | cons x xs ih =>
    simp only [List.cons_append, dval_cons, ih, List.length_append]
    ring

theorem dval_lt (l : List Nat) (h : AllDigits l) : dval l < 10 ^ l.length := by
  induction l with
  | nil => simp [dval_nil]
  | cons b bs ih =>
    rw [allDigits_cons] at h
    have := ih h.2
    have hb := h.1
    unfold IsDigit at hb
    rw [dval_cons, List.length_cons, pow_succ]
    have : dig b ≤ 9 := by rw [dig_eq]; omega
    nlinarith

theorem parseChunk_spec (acc : Nat) (l : List Nat) :
    parseChunk acc l = if AllDigits l then some (dvalAcc acc l) else none := by
  induction l generalizing acc with
  | nil => simp [parseChunk, dvalAcc, allDigits_nil]
  | cons b bs ih =>
    unfold parseChunk
    cases hd : digitOf b with
    | none =>
      have := digitOf_none.mp hd
      simp [allDigits_cons, this]
    | some d =>
      obtain ⟨h1, rfl⟩ := digitOf_some.mp hd
      simp only [ih, allDigits_cons, h1, true_and, dvalAcc]

end Radix.DecimalText
