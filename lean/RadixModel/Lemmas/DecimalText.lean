import RadixModel.Model.DecimalText
import Mathlib.Tactic.Ring
import Mathlib.Tactic.Linarith
import Mathlib.Tactic.NormNum
import Mathlib.Tactic.Positivity

namespace Radix.DecimalText

/-! ### digit bytes and their value -/

def IsDigit (b : Nat) : Prop := 48 ≤ b ∧ b ≤ 57

instance (b : Nat) : Decidable (IsDigit b) := by unfold IsDigit; exact inferInstance

/-- every byte of the list is an ASCII digit -/
def AllDigits (l : List Nat) : Prop := ∀ b ∈ l, IsDigit b

/-- numeric value of a digit byte (irreducible: `b - 48` under a recursive call sends `whnf` astray) -/
@[irreducible] def dig (b : Nat) : Nat := b - 48

theorem dig_eq (b : Nat) : dig b = b - 48 := by unfold dig; rfl

instance (l : List Nat) : Decidable (AllDigits l) := by unfold AllDigits; exact inferInstance

/-- value of a list of digit bytes, most significant first, starting from `acc` -/
def dvalAcc : Nat → List Nat → Nat
  | acc, [] => acc
  | acc, b :: bs => dvalAcc (acc * 10 + dig b) bs

/-- value of a list of digit bytes -/
def dval (l : List Nat) : Nat := dvalAcc 0 l

theorem digitOf_some {b d : Nat} : digitOf b = some d ↔ IsDigit b ∧ d = dig b := by
  unfold digitOf IsDigit
  rw [dig_eq]
  split <;> simp_all <;> omega

theorem digitOf_none {b : Nat} : digitOf b = none ↔ ¬ IsDigit b := by
  unfold digitOf IsDigit
  split <;> simp_all

theorem allDigits_nil : AllDigits [] := by intro b hb; cases hb

theorem allDigits_cons {b : Nat} {l : List Nat} : AllDigits (b :: l) ↔ IsDigit b ∧ AllDigits l := by
  simp [AllDigits]

theorem allDigits_append {a b : List Nat} : AllDigits (a ++ b) ↔ AllDigits a ∧ AllDigits b := by
  simp only [AllDigits, List.mem_append]
  constructor
  · intro h; exact ⟨fun x hx => h x (Or.inl hx), fun x hx => h x (Or.inr hx)⟩
  · rintro ⟨h1, h2⟩ x (hx | hx); exact h1 x hx; exact h2 x hx

theorem dvalAcc_eq (acc : Nat) (l : List Nat) : dvalAcc acc l = acc * 10 ^ l.length + dval l := by
  induction l generalizing acc with
  | nil => simp only [dvalAcc, dval, List.length_nil, pow_zero, mul_one, add_zero]
  | cons b bs ih =>
    simp only [dvalAcc, dval, List.length_cons]
    rw [ih, ih (0 * 10 + dig b)]
    ring

theorem dval_nil : dval [] = 0 := rfl

theorem dval_cons (b : Nat) (l : List Nat) : dval (b :: l) = dig b * 10 ^ l.length + dval l := by
  simp only [dval, dvalAcc]
  rw [dvalAcc_eq]; simp only [zero_mul, zero_add]; rfl

theorem dval_append (a b : List Nat) : dval (a ++ b) = dval a * 10 ^ b.length + dval b := by
  induction a with
  | nil => simp [dval_nil]
  | cons x xs ih =>
    simp only [List.cons_append, dval_cons, ih, List.length_append]
    ring

theorem dval_lt (l : List Nat) (h : AllDigits l) : dval l < 10 ^ l.length := by
  induction l with
  | nil => simp [dval_nil]
  | cons b bs ih =>
    rw [allDigits_cons] at h
    have := ih h.2
    have hb := h.1
    unfold IsDigit at hb
    rw [dval_cons, List.length_cons, pow_succ]
    have : dig b ≤ 9 := by rw [dig_eq]; omega
    nlinarith

theorem parseChunk_spec (acc : Nat) (l : List Nat) :
    parseChunk acc l = if AllDigits l then some (dvalAcc acc l) else none := by
  induction l generalizing acc with
  | nil => simp [parseChunk, dvalAcc, allDigits_nil]
  | cons b bs ih =>
    unfold parseChunk
    cases hd : digitOf b with
    | none =>
      have := digitOf_none.mp hd
      simp [allDigits_cons, this]
    | some d =>
      obtain ⟨h1, rfl⟩ := digitOf_some.mp hd
      simp only [ih, allDigits_cons, h1, true_and, dvalAcc]

/-! ### the chunk loop `go` -/


theorem BASE_def : BASE = 10 ^ 19 := by unfold BASE; rfl
theorem POWER_def : POWER = 19 := rfl

theorem go_nil (ub out n : Nat) : go ub out n 0 [] = .ok out := by
  simp [go]

theorem go_boundary_ovf (ub out : Nat) (b : Nat) (bs : List Nat) (h : ¬ out * BASE < 2 ^ ub) :
    go ub out 0 0 (b :: bs) = .error .posOverflow := by
  simp [go, h]

theorem go_boundary_bad (ub out : Nat) (b : Nat) (bs : List Nat) (h : out * BASE < 2 ^ ub)
    (hd : digitOf b = none) : go ub out 0 0 (b :: bs) = .error .invalidDigit := by
  simp [go, h, hd]

theorem go_boundary_ok (ub out : Nat) (b d : Nat) (bs : List Nat) (h : out * BASE < 2 ^ ub)
    (hd : digitOf b = some d) : go ub out 0 0 (b :: bs) = go ub (out * BASE) d 1 bs := by
  simp [go, h, hd, POWER_def]

theorem go_inner_bad (ub out n k : Nat) (b : Nat) (bs : List Nat) (hk : k ≠ 0)
    (hd : digitOf b = none) : go ub out n k (b :: bs) = .error .invalidDigit := by
  simp [go, hk, hd]

theorem go_inner_ok (ub out n k : Nat) (b d : Nat) (bs : List Nat) (hk : k ≠ 0) (hl : k + 1 ≠ 19)
    (hd : digitOf b = some d) : go ub out n k (b :: bs) = go ub out (n * 10 + d) (k + 1) bs := by
  simp [go, hk, hd, POWER_def, hl]

theorem go_last_ovf (ub out n k : Nat) (b d : Nat) (bs : List Nat) (hk : k ≠ 0) (hl : k + 1 = 19)
    (hd : digitOf b = some d) (h : ¬ out + (n * 10 + d) < 2 ^ ub) :
    go ub out n k (b :: bs) = .error .posOverflow := by
  simp [go, hk, hd, POWER_def, hl, h]

theorem go_last_ok (ub out n k : Nat) (b d : Nat) (bs : List Nat) (hk : k ≠ 0) (hl : k + 1 = 19)
    (hd : digitOf b = some d) (h : out + (n * 10 + d) < 2 ^ ub) :
    go ub out n k (b :: bs) = go ub (out + (n * 10 + d)) 0 0 bs := by
  simp [go, hk, hd, POWER_def, hl, h]



/-- state invariant of the chunk loop: `A` is the value of all digits consumed so far -/
def GoInv (ub out n k A : Nat) : Prop :=
  (k = 0 ∧ n = 0 ∧ out = A ∧ A < 2 ^ ub) ∨
  (0 < k ∧ k < 19 ∧ ∃ A0, out = A0 * BASE ∧ A = A0 * 10 ^ k + n)

theorem pow_ge_of_le {a b : Nat} (h : a ≤ b) : 10 ^ a ≤ 10 ^ b := Nat.pow_le_pow_right (by norm_num) h

theorem go_spec (ub : Nat) (bs : List Nat) : ∀ (out n k A : Nat), GoInv ub out n k A →
    (k + bs.length) % 19 = 0 →
    (AllDigits bs → go ub out n k bs =
      if A * 10 ^ bs.length + dval bs < 2 ^ ub then .ok (A * 10 ^ bs.length + dval bs) else .error .posOverflow) ∧
    (¬ AllDigits bs → ∃ e, go ub out n k bs = .error e) := by
  induction bs with
  | nil =>
    intro out n k A hinv hk
    rcases hinv with ⟨hk0, hn, hout, hA⟩ | ⟨h1, h2, _⟩
    · subst hk0 hn hout
      refine ⟨fun _ => ?_, fun h => absurd allDigits_nil h⟩
      rw [go_nil]
      simp [dval_nil, hA]
    · simp at hk; omega
  | cons b bs ih =>
    intro out n k A hinv hk
    rw [allDigits_cons]
    have hpos : 0 < (10:Nat) ^ bs.length := Nat.pow_pos (by norm_num)
    have hT : A * 10 ^ (b :: bs).length + dval (b :: bs) =
        (A * 10 + dig b) * 10 ^ bs.length + dval bs := by
      rw [dval_cons, List.length_cons]; ring
    rw [hT]
    simp only [List.length_cons] at hk
    rcases hinv with ⟨hk0, hn, hout, hA⟩ | ⟨hkpos, hk19, A0, hout, hAeq⟩
    · -- at a chunk boundary
      subst hk0 hn hout
      have hlen : 19 ≤ bs.length + 1 := by omega
      by_cases hmul : out * BASE < 2 ^ ub
      · cases hd : digitOf b with
        | none =>
          have hnd := digitOf_none.mp hd
          exact ⟨fun h => absurd h.1 hnd, fun _ => ⟨.invalidDigit, go_boundary_bad _ _ _ _ hmul hd⟩⟩
        | some d =>
          obtain ⟨hbd, rfl⟩ := digitOf_some.mp hd
          have hinv' : GoInv ub (out * BASE) (dig b) 1 (out * 10 + dig b) :=
            Or.inr ⟨by omega, by omega, out, rfl, by ring⟩
          obtain ⟨ih1, ih2⟩ := ih _ _ _ _ hinv' (by omega)
          rw [go_boundary_ok _ _ _ _ _ hmul hd]
          exact ⟨fun h => ih1 h.2, fun h => ih2 (fun h2 => h ⟨hbd, h2⟩)⟩
      · rw [go_boundary_ovf _ _ _ _ hmul]
        refine ⟨fun _ => ?_, fun _ => ⟨_, rfl⟩⟩
        have h0 : (10:Nat) ^ 19 ≤ 10 * 10 ^ bs.length := by
          have := pow_ge_of_le hlen
          rw [pow_succ] at this; omega
        have h1 : out * BASE ≤ out * (10 * 10 ^ bs.length) := by
          rw [BASE_def]; exact Nat.mul_le_mul_left _ h0
        have h2 : out * (10 * 10 ^ bs.length) ≤ (out * 10 + dig b) * 10 ^ bs.length := by
          have : out * (10 * 10 ^ bs.length) = (out * 10) * 10 ^ bs.length := by ring
          rw [this]; exact Nat.mul_le_mul_right _ (by omega)
        have : ¬ ((out * 10 + dig b) * 10 ^ bs.length + dval bs < 2 ^ ub) := by omega
        simp [this]
    · -- inside a chunk
      subst hout
      have hkne : k ≠ 0 := by omega
      cases hd : digitOf b with
      | none =>
        have hnd := digitOf_none.mp hd
        exact ⟨fun h => absurd h.1 hnd, fun _ => ⟨.invalidDigit, go_inner_bad _ _ _ _ _ _ hkne hd⟩⟩
      | some d =>
        obtain ⟨hbd, rfl⟩ := digitOf_some.mp hd
        by_cases hlast : k + 1 = 19
        · -- the chunk is complete: add
          have hA' : A * 10 + dig b = A0 * BASE + (n * 10 + dig b) := by
            rw [hAeq]
            have : BASE = 10 ^ k * 10 := by rw [BASE_def, ← pow_succ, hlast]
            rw [this]; ring
          by_cases hadd : A0 * BASE + (n * 10 + dig b) < 2 ^ ub
          · have hinv' : GoInv ub (A0 * BASE + (n * 10 + dig b)) 0 0 (A * 10 + dig b) :=
              Or.inl ⟨rfl, rfl, hA'.symm, by omega⟩
            obtain ⟨ih1, ih2⟩ := ih _ _ _ _ hinv' (by omega)
            rw [go_last_ok _ _ _ _ _ _ _ hkne hlast hd hadd]
            exact ⟨fun h => ih1 h.2, fun h => ih2 (fun h2 => h ⟨hbd, h2⟩)⟩
          · rw [go_last_ovf _ _ _ _ _ _ _ hkne hlast hd hadd]
            refine ⟨fun _ => ?_, fun _ => ⟨_, rfl⟩⟩
            have h1 : (A * 10 + dig b) * 1 ≤ (A * 10 + dig b) * 10 ^ bs.length :=
              Nat.mul_le_mul_left _ hpos
            have : ¬ ((A * 10 + dig b) * 10 ^ bs.length + dval bs < 2 ^ ub) := by omega
            simp [this]
        · have hinv' : GoInv ub (A0 * BASE) (n * 10 + dig b) (k + 1) (A * 10 + dig b) :=
            Or.inr ⟨by omega, by omega, A0, rfl, by rw [hAeq, pow_succ]; ring⟩
          obtain ⟨ih1, ih2⟩ := ih _ _ _ _ hinv' (by omega)
          rw [go_inner_ok _ _ _ _ _ _ _ hkne hlast hd]
          exact ⟨fun h => ih1 h.2, fun h => ih2 (fun h2 => h ⟨hbd, h2⟩)⟩


/-! ### `parseU`, `parseInt` -/


/-- length of the first chunk -/
def splitLen (ds : List Nat) : Nat := if ds.length % 19 = 0 then 19 else ds.length % 19

theorem parseU_eq (ub : Nat) (ds : List Nat) : parseU ub ds =
    match parseChunk 0 (ds.take (splitLen ds)) with
    | none => .error .invalidDigit
    | some first => go ub first 0 0 (ds.drop (splitLen ds)) := rfl

theorem parseU_spec (ub : Nat) (hub : 10 ^ 19 ≤ 2 ^ ub) (ds : List Nat) (hne : ds ≠ []) :
    (AllDigits ds → parseU ub ds =
      if dval ds < 2 ^ ub then .ok (dval ds) else .error .posOverflow) ∧
    (¬ AllDigits ds → ∃ e, parseU ub ds = .error e) := by
  have hlen : 0 < ds.length := List.length_pos_iff.mpr hne
  rw [parseU_eq]
  generalize hsplit : splitLen ds = split
  have hs1 : split ≤ ds.length := by
    rw [← hsplit]; unfold splitLen; split <;> omega
  have hs2 : (ds.length - split) % 19 = 0 := by
    rw [← hsplit]; unfold splitLen; split <;> omega
  have hs3 : split ≤ 19 := by
    rw [← hsplit]; unfold splitLen; split <;> omega
  have hds : ds = ds.take split ++ ds.drop split := (List.take_append_drop split ds).symm
  have hall : AllDigits ds ↔ AllDigits (ds.take split) ∧ AllDigits (ds.drop split) := by
    conv_lhs => rw [hds]
    exact allDigits_append
  have hval : dval ds = dval (ds.take split) * 10 ^ (ds.drop split).length + dval (ds.drop split) := by
    conv_lhs => rw [hds]
    exact dval_append _ _
  rw [parseChunk_spec]
  by_cases h1 : AllDigits (ds.take split)
  · rw [if_pos h1]
    have hlt : dval (ds.take split) < 2 ^ ub := by
      have := dval_lt _ h1
      have h2 : (ds.take split).length ≤ 19 := by rw [List.length_take]; omega
      have := pow_ge_of_le h2
      omega
    have hinv : GoInv ub (dvalAcc 0 (ds.take split)) 0 0 (dval (ds.take split)) :=
      Or.inl ⟨rfl, rfl, rfl, hlt⟩
    have hk : (0 + (ds.drop split).length) % 19 = 0 := by
      rw [List.length_drop]; omega
    obtain ⟨g1, g2⟩ := go_spec ub (ds.drop split) _ _ _ _ hinv hk
    rw [hall, hval]
    exact ⟨fun h => g1 h.2, fun h => g2 (fun h2 => h ⟨h1, h2⟩)⟩
  · rw [if_neg h1]
    rw [hall]
    exact ⟨fun h => absurd h.1 h1, fun _ => ⟨_, rfl⟩⟩

/-- `finishInt` applied to the outcome of parsing a magnitude of exact value `d` -/
theorem finishInt_ok_iff (bits : Nat) (hb : 0 < bits) (neg : Bool) (d : Nat) (v : Int) :
    finishInt bits neg (if d < 2 ^ bits then .ok d else .error .posOverflow) = .ok v ↔
      (if neg = true then d ≤ 2 ^ (bits - 1) ∧ v = -(d : Int) else d < 2 ^ (bits - 1) ∧ v = (d : Int)) := by
  have hpow : 2 ^ (bits - 1) < 2 ^ bits := Nat.pow_lt_pow_right (by norm_num) (by omega)
  by_cases hlt : d < 2 ^ bits
  · rw [if_pos hlt]
    cases neg
    · simp only [finishInt, Bool.false_eq_true, if_false]
      by_cases hr : 2 ^ (bits - 1) ≤ d
      · rw [if_pos hr]
        constructor
        · intro h; cases h
        · rintro ⟨h, _⟩; omega
      · rw [if_neg hr]
        constructor
        · intro h; cases h; exact ⟨by omega, rfl⟩
        · rintro ⟨_, rfl⟩; rfl
    · simp only [finishInt, if_true]
      by_cases hr : 2 ^ (bits - 1) ≤ d ∧ d ≠ 2 ^ (bits - 1)
      · rw [if_pos hr]
        constructor
        · intro h; cases h
        · rintro ⟨h, _⟩; omega
      · rw [if_neg hr]
        constructor
        · intro h; cases h; exact ⟨by omega, rfl⟩
        · rintro ⟨_, rfl⟩; rfl
  · rw [if_neg hlt]
    cases neg
    · simp only [finishInt, Bool.false_eq_true, and_false, if_false]
      constructor
      · intro h; cases h
      · rintro ⟨h, _⟩; omega
    · simp only [finishInt, and_self, if_true]
      constructor
      · intro h; cases h
      · rintro ⟨h, _⟩; omega

theorem finishInt_error (bits : Nat) (neg : Bool) (e : IErr) (v : Int) :
    finishInt bits neg (.error e) ≠ .ok v := by
  simp only [finishInt]
  split <;> simp

/-- the bytes after an optional leading sign -/
def intBody : List Nat → List Nat
  | [] => []
  | c :: rest => if c = 45 ∨ c = 43 then rest else c :: rest

/-- the text starts with `-` -/
def isNeg (s : List Nat) : Prop := s.head? = some 45

instance (s : List Nat) : Decidable (isNeg s) := by unfold isNeg; exact inferInstance

/-- acceptance and value of the signed integer parser -/
theorem parseU_ok_iff (bits : Nat) (hub : 10 ^ 19 ≤ 2 ^ bits) (ds : List Nat) (hne : ds ≠ []) (neg : Bool) (v : Int) :
    finishInt bits neg (parseU bits ds) = .ok v ↔
      AllDigits ds ∧
      (if neg = true then dval ds ≤ 2 ^ (bits - 1) ∧ v = -(dval ds : Int)
       else dval ds < 2 ^ (bits - 1) ∧ v = (dval ds : Int)) := by
  obtain ⟨p1, p2⟩ := parseU_spec bits hub ds hne
  by_cases hall : AllDigits ds
  · have hb : 0 < bits := by
      rcases Nat.eq_zero_or_pos bits with h | h
      · subst h; norm_num at hub
      · exact h
    rw [p1 hall, finishInt_ok_iff _ hb]
    simp only [hall, true_and]
  · obtain ⟨e, he⟩ := p2 hall
    rw [he]
    simp only [hall, false_and, iff_false]
    exact finishInt_error _ _ _ _

theorem parseInt_ok_iff (bits : Nat) (hub : 10 ^ 19 ≤ 2 ^ bits) (s : List Nat) (v : Int) :
    parseInt bits s = .ok v ↔
      intBody s ≠ [] ∧ AllDigits (intBody s) ∧
      (if isNeg s then dval (intBody s) ≤ 2 ^ (bits - 1) ∧ v = -(dval (intBody s) : Int)
       else dval (intBody s) < 2 ^ (bits - 1) ∧ v = (dval (intBody s) : Int)) := by
  cases s with
  | nil => simp [parseInt, intBody]
  | cons c rest =>
    unfold parseInt
    by_cases h45 : c = 45
    · subst h45
      have hbody : intBody (45 :: rest) = rest := by simp [intBody]
      have hneg : isNeg (45 :: rest) := by simp [isNeg]
      rw [hbody, if_pos hneg]
      simp only [if_true]
      cases rest with
      | nil => simp
      | cons r rs =>
        have hne : (r :: rs) ≠ [] := by simp
        simp only [List.isEmpty_cons, Bool.false_eq_true, if_false]
        rw [parseU_ok_iff bits hub _ hne]
        simp [hne]
    · by_cases h43 : c = 43
      · subst h43
        have hbody : intBody (43 :: rest) = rest := by simp [intBody]
        have hneg : ¬ isNeg (43 :: rest) := by simp [isNeg]
        rw [hbody, if_neg hneg]
        simp only [show ¬ ((43:Nat) = 45) by decide, if_false, if_true]
        cases rest with
        | nil => simp
        | cons r rs =>
          have hne : (r :: rs) ≠ [] := by simp
          simp only [List.isEmpty_cons, Bool.false_eq_true, if_false]
          rw [parseU_ok_iff bits hub _ hne]
          simp [hne]
      · have hbody : intBody (c :: rest) = c :: rest := by simp [intBody, h45, h43]
        have hneg : ¬ isNeg (c :: rest) := by simp [isNeg, h45]
        rw [hbody, if_neg hneg]
        simp only [h45, h43, if_false]
        have hne : (c :: rest) ≠ [] := by simp
        rw [parseU_ok_iff bits hub _ hne]
        simp [hne]



/-! ### `splitDot` -/

/-- inverse of `splitDot`: join the parts with `.` -/
def joinDot : List (List Nat) → List Nat
  | [] => []
  | [p] => p
  | p :: q :: r => p ++ 46 :: joinDot (q :: r)

theorem splitDot_ne_nil (s : List Nat) : splitDot s ≠ [] := by
  cases s with
  | nil => simp [splitDot]
  | cons c cs =>
    unfold splitDot
    split
    · simp
    · split <;> simp

theorem splitDot_spec (s : List Nat) :
    (∀ p ∈ splitDot s, 46 ∉ p) ∧ joinDot (splitDot s) = s := by
  induction s with
  | nil => simp [splitDot, joinDot]
  | cons c cs ih =>
    unfold splitDot
    cases h : splitDot cs with
    | nil => exact absurd h (splitDot_ne_nil cs)
    | cons p ps =>
      rw [h] at ih
      obtain ⟨ih1, ih2⟩ := ih
      by_cases hc : c = 46
      · subst hc
        simp only [if_true]
        constructor
        · intro q hq
          simp only [List.mem_cons] at hq
          rcases hq with rfl | hq
          · simp
          · exact ih1 q (by simpa using hq)
        · simp only [joinDot, List.nil_append, ih2]
      · simp only [hc, if_false]
        constructor
        · intro q hq
          simp only [List.mem_cons] at hq
          rcases hq with rfl | hq
          · have := ih1 p (by simp)
            simp only [List.mem_cons, not_or]
            exact ⟨fun h => hc h.symm, this⟩
          · exact ih1 q (by simp [hq])
        · cases ps with
          | nil => simpa [joinDot] using ih2
          | cons q r => simp only [joinDot, List.cons_append] at ih2 ⊢; rw [ih2]

theorem splitDot_cons (c : Nat) (cs : List Nat) : splitDot (c :: cs) =
    match splitDot cs with
    | [] => [[]]
    | p :: ps => if c = 46 then [] :: p :: ps else (c :: p) :: ps := by
  conv_lhs => unfold splitDot
  rfl

theorem splitDot_of_not_mem {s : List Nat} (h : 46 ∉ s) : splitDot s = [s] := by
  induction s with
  | nil => simp [splitDot]
  | cons c cs ih =>
    simp only [List.mem_cons, not_or] at h
    unfold splitDot
    rw [ih h.2]
    have : ¬ c = 46 := fun e => h.1 e.symm
    simp [this]

theorem splitDot_append_dot {a : List Nat} (b : List Nat) (h : 46 ∉ a) :
    splitDot (a ++ 46 :: b) = a :: splitDot b := by
  induction a with
  | nil =>
    simp only [List.nil_append]
    rw [splitDot_cons]
    cases hb : splitDot b with
    | nil => exact absurd hb (splitDot_ne_nil b)
    | cons p ps => simp
  | cons c cs ih =>
    simp only [List.mem_cons, not_or] at h
    simp only [List.cons_append]
    rw [splitDot_cons, ih h.2]
    have : ¬ c = 46 := fun e => h.1 e.symm
    simp [this]

theorem splitDot_one {s a : List Nat} (h : splitDot s = [a]) : s = a ∧ 46 ∉ a := by
  have := splitDot_spec s
  rw [h] at this
  exact ⟨by simpa [joinDot] using this.2.symm, this.1 a (by simp)⟩

theorem splitDot_two {s a b : List Nat} (h : splitDot s = [a, b]) :
    s = a ++ 46 :: b ∧ 46 ∉ a ∧ 46 ∉ b := by
  have := splitDot_spec s
  rw [h] at this
  exact ⟨by simpa [joinDot] using this.2.symm, this.1 a (by simp), this.1 b (by simp)⟩

theorem not_dot_of_digit {b : Nat} (h : IsDigit b) : b ≠ 46 := by unfold IsDigit at h; omega

theorem dot_not_mem_of_allDigits {l : List Nat} (h : AllDigits l) : 46 ∉ l := by
  intro hm; exact not_dot_of_digit (h 46 hm) rfl



/-! ### the numeral grammar and `fromStr` -/

/-- optional sign prefix of a text -/
def signPart : List Nat → List Nat
  | [] => []
  | c :: _ => if c = 45 ∨ c = 43 then [c] else []

theorem sign_body (s : List Nat) : s = signPart s ++ intBody s := by
  cases s with
  | nil => rfl
  | cons c r =>
    simp only [signPart, intBody]
    split <;> simp

def IsSign (sign : List Nat) : Prop := sign = [] ∨ sign = [43] ∨ sign = [45]

theorem isSign_signPart (s : List Nat) : IsSign (signPart s) := by
  cases s with
  | nil => exact Or.inl rfl
  | cons c r =>
    simp only [signPart]
    split
    · rename_i h
      rcases h with h | h
      · subst h; exact Or.inr (Or.inr rfl)
      · subst h; exact Or.inr (Or.inl rfl)
    · exact Or.inl rfl

theorem signPart_neg (s : List Nat) : signPart s = [45] ↔ isNeg s := by
  cases s with
  | nil => simp [signPart, isNeg]
  | cons c r =>
    simp only [signPart, isNeg, List.head?_cons, Option.some.injEq]
    split
    · rename_i h; simp
    · rename_i h; simp only [not_or] at h; simp [h.1]

/-- exact value (in subunits of `10^-scale`) of the numeral `sign ip . f` -/
def numVal (scale : Nat) (sign ip f : List Nat) : Int :=
  (if sign = [45] then -1 else 1) *
    ((dval ip : Int) * (10 : Int) ^ scale + (dval f : Int) * (10 : Int) ^ (scale - f.length))

/-- `s` is an optionally signed decimal numeral with at most `scale` fractional digits and `v` is its
exact value in subunits: `s = [+-]? ip ('.' f)?` with `ip`, `f` non-empty digit strings
(`f = []` encodes the absence of a fractional part). -/
def Denotes (scale : Nat) (s : List Nat) (v : Int) : Prop :=
  ∃ sign ip f, IsSign sign ∧ ip ≠ [] ∧ AllDigits ip ∧ AllDigits f ∧ f.length ≤ scale ∧
    ((f = [] ∧ s = sign ++ ip) ∨ (f ≠ [] ∧ s = sign ++ ip ++ 46 :: f)) ∧
    v = numVal scale sign ip f

theorem chkI_some {bits : Nat} {x y : Int} : chkI bits x = some y ↔ InRange bits x ∧ y = x := by
  unfold chkI InRange
  split
  · rename_i h; simp [h, eq_comm]
  · rename_i h; simp [h]

theorem chkI_none {bits : Nat} {x : Int} : chkI bits x = none ↔ ¬ InRange bits x := by
  unfold chkI InRange
  split
  · rename_i h; simp [h]
  · rename_i h; simp [h]

theorem all_isDigitByte {l : List Nat} : l.all isDigitByte = true ↔ AllDigits l := by
  simp [List.all_eq_true, isDigitByte, AllDigits, IsDigit]

theorem intBody_of_digits {l : List Nat} (h : AllDigits l) : intBody l = l ∧ ¬ isNeg l := by
  cases l with
  | nil => simp [intBody, isNeg]
  | cons c r =>
    have hc := (allDigits_cons.mp h).1
    unfold IsDigit at hc
    have h1 : ¬ (c = 45 ∨ c = 43) := by omega
    have h2 : c ≠ 45 := by omega
    have h3 : c ≠ 43 := by omega
    simp [intBody, isNeg, h2, h3]

section
variable (bits scale : Nat) (hub : 10 ^ 19 ≤ 2 ^ bits) (hsc : 10 ^ scale < 2 ^ (bits - 1))
include hub hsc

omit hsc in
theorem fromStr_sound (s : List Nat) (v : Int) (hlen : s.length < 2 ^ 32)
    (h : fromStr bits scale s = .ok v) : Denotes scale s v ∧ InRange bits v := by
  unfold fromStr at h
  cases hsd : splitDot s with
  | nil => exact absurd hsd (splitDot_ne_nil s)
  | cons v0 tl =>
    rw [hsd] at h
    simp only at h
    by_cases htl : tl.length > 1
    · rw [if_pos htl] at h; cases h
    · rw [if_neg htl] at h
      cases hp : parseInt bits v0 with
      | error e => rw [hp] at h; cases h
      | ok ip =>
        rw [hp] at h
        simp only at h
        obtain ⟨hbne, hball, hbv⟩ := (parseInt_ok_iff bits hub v0 ip).mp hp
        cases hc : chkI bits (ip * (10 : Int) ^ scale) with
        | none => rw [hc] at h; cases h
        | some su =>
          rw [hc] at h
          simp only at h
          obtain ⟨hsur, rfl⟩ := chkI_some.mp hc
          cases tl with
          | nil =>
            simp only at h
            cases h
            obtain ⟨hs, _⟩ := splitDot_one hsd
            refine ⟨⟨signPart v0, intBody v0, [], isSign_signPart _, hbne, hball, allDigits_nil,
              Nat.zero_le _, Or.inl ⟨rfl, ?_⟩, ?_⟩, hsur⟩
            · rw [hs]; exact sign_body v0
            · unfold numVal
              by_cases hn : isNeg v0
              · rw [if_pos hn] at hbv
                rw [if_pos ((signPart_neg v0).mpr hn), hbv.2]; simp [dval_nil]
              · rw [if_neg hn] at hbv
                have : ¬ signPart v0 = [45] := fun hh => hn ((signPart_neg v0).mp hh)
                rw [if_neg this, hbv.2]; simp [dval_nil]
          | cons v1 tl2 =>
            have htl2 : tl2 = [] := by
              cases tl2 with
              | nil => rfl
              | cons _ _ => simp at htl
            subst htl2
            obtain ⟨hs, hnd0, hnd1⟩ := splitDot_two hsd
            simp only at h
            have hv1len : v1.length < 2 ^ 32 := by
              rw [hs] at hlen; simp at hlen; omega
            rw [Nat.mod_eq_of_lt hv1len] at h
            by_cases hsl : scale < v1.length
            · rw [if_pos hsl] at h; cases h
            · rw [if_neg hsl] at h
              by_cases hdig : v1.all isDigitByte = true
              · simp only [hdig, Bool.not_true, Bool.false_eq_true, if_false] at h
                have hall1 := all_isDigitByte.mp hdig
                obtain ⟨hb1, hn1⟩ := intBody_of_digits hall1
                cases hp1 : parseInt bits v1 with
                | error e => rw [hp1] at h; cases h
                | ok fp =>
                  rw [hp1] at h
                  simp only at h
                  obtain ⟨hfne, _, hfv⟩ := (parseInt_ok_iff bits hub v1 fp).mp hp1
                  rw [hb1] at hfne hfv
                  rw [if_neg hn1] at hfv
                  obtain ⟨_, rfl⟩ := hfv
                  cases hc1 : chkI bits ((10 : Int) ^ (scale - v1.length)) with
                  | none => rw [hc1] at h; cases h
                  | some p =>
                    rw [hc1] at h
                    simp only at h
                    obtain ⟨_, rfl⟩ := chkI_some.mp hc1
                    cases hc2 : chkI bits ((dval v1 : Int) * (10 : Int) ^ (scale - v1.length)) with
                    | none => rw [hc2] at h; cases h
                    | some fs =>
                      rw [hc2] at h
                      simp only at h
                      obtain ⟨_, rfl⟩ := chkI_some.mp hc2
                      have hden : ∀ w : Int, w = numVal scale (signPart v0) (intBody v0) v1 →
                          Denotes scale s w := by
                        intro w hw
                        refine ⟨signPart v0, intBody v0, v1, isSign_signPart _, hbne, hball, hall1,
                          by omega, Or.inr ⟨hfne, ?_⟩, hw⟩
                        rw [hs, ← sign_body v0]
                      by_cases hn : isNeg v0
                      · have hbr : ip < 0 ∨ v0.head? = some 45 := Or.inr hn
                        rw [if_pos hbr] at h
                        rw [if_pos hn] at hbv
                        cases hc3 : chkI bits (ip * (10 : Int) ^ scale - (dval v1 : Int) * (10 : Int) ^ (scale - v1.length)) with
                        | none => rw [hc3] at h; cases h
                        | some r =>
                          rw [hc3] at h
                          simp only at h
                          cases h
                          obtain ⟨hr, rfl⟩ := chkI_some.mp hc3
                          refine ⟨hden _ ?_, hr⟩
                          unfold numVal
                          rw [(signPart_neg v0).mpr hn, hbv.2]
                          simp only [if_true]; ring
                      · have hbr : ¬ (ip < 0 ∨ v0.head? = some 45) := by
                          rw [if_neg hn] at hbv
                          intro hh
                          rcases hh with hh | hh
                          · rw [hbv.2] at hh; omega
                          · exact hn hh
                        rw [if_neg hbr] at h
                        rw [if_neg hn] at hbv
                        cases hc3 : chkI bits (ip * (10 : Int) ^ scale + (dval v1 : Int) * (10 : Int) ^ (scale - v1.length)) with
                        | none => rw [hc3] at h; cases h
                        | some r =>
                          rw [hc3] at h
                          simp only at h
                          cases h
                          obtain ⟨hr, rfl⟩ := chkI_some.mp hc3
                          refine ⟨hden _ ?_, hr⟩
                          unfold numVal
                          have : ¬ signPart v0 = [45] := fun hh => hn ((signPart_neg v0).mp hh)
                          rw [if_neg this, hbv.2]
                          ring
              · simp only [hdig, Bool.not_false, if_true] at h
                cases h

end



theorem isSign_cases {sign ip : List Nat} (hs : IsSign sign) (_hne : ip ≠ []) (hall : AllDigits ip) :
    intBody (sign ++ ip) = ip ∧ (isNeg (sign ++ ip) ↔ sign = [45]) ∧ 46 ∉ (sign ++ ip) := by
  obtain ⟨hb, hn⟩ := intBody_of_digits hall
  have hd := dot_not_mem_of_allDigits hall
  rcases hs with rfl | rfl | rfl
  · simp only [List.nil_append]
    exact ⟨hb, ⟨fun h => absurd h hn, fun h => by cases h⟩, hd⟩
  · refine ⟨by simp [intBody], ⟨fun h => by simp [isNeg] at h, fun h => by cases h⟩, ?_⟩
    simp only [List.cons_append, List.nil_append, List.mem_cons, not_or]
    exact ⟨by decide, hd⟩
  · refine ⟨by simp [intBody], ⟨fun _ => rfl, fun _ => by simp [isNeg]⟩, ?_⟩
    simp only [List.cons_append, List.nil_append, List.mem_cons, not_or]
    exact ⟨by decide, hd⟩

section
variable (bits scale : Nat) (hub : 10 ^ 19 ≤ 2 ^ bits) (hsc : 10 ^ scale < 2 ^ (bits - 1))
include hub hsc

theorem fromStr_complete (hs32 : scale < 2 ^ 32) (s : List Nat) (v : Int)
    (hd : Denotes scale s v) (hr : InRange bits v) : fromStr bits scale s = .ok v := by
  obtain ⟨sign, ip, f, hsign, hipne, hipall, hfall, hflen, hshape, rfl⟩ := hd
  obtain ⟨hbody, hneg, hnodot⟩ := isSign_cases hsign hipne hipall
  -- arithmetic facts
  have hP1 : (1 : Int) ≤ (10 : Int) ^ scale := by
    have : (0:Int) < (10:Int) ^ scale := by positivity
    omega
  have hI0 : (0 : Int) ≤ (dval ip : Int) := Int.natCast_nonneg _
  have hIP : (dval ip : Int) ≤ (dval ip : Int) * (10 : Int) ^ scale := le_mul_of_one_le_right hI0 hP1
  have hFlt : dval f < 10 ^ f.length := dval_lt f hfall
  have hpowsplit : (10:Int) ^ f.length * (10:Int) ^ (scale - f.length) = (10:Int) ^ scale := by
    rw [← pow_add]; congr 1; omega
  have hK0 : (0 : Int) < (10 : Int) ^ (scale - f.length) := by positivity
  have hF0 : (0 : Int) ≤ (dval f : Int) * (10 : Int) ^ (scale - f.length) := by positivity
  have hFP : (dval f : Int) * (10 : Int) ^ (scale - f.length) < (10 : Int) ^ scale := by
    rw [← hpowsplit]
    have : (dval f : Int) < (10:Int) ^ f.length := by exact_mod_cast hFlt
    exact mul_lt_mul_of_pos_right this hK0
  have hscI : (10 : Int) ^ scale < (2 : Int) ^ (bits - 1) := by exact_mod_cast hsc
  have hKle : (10 : Int) ^ (scale - f.length) ≤ (10 : Int) ^ scale :=
    pow_le_pow_right₀ (by norm_num) (by omega)
  have hhalf : (2:Int) ^ (bits - 1) = ((2 ^ (bits - 1) : Nat) : Int) := by push_cast; rfl
  unfold InRange numVal at hr
  -- the integral part
  obtain ⟨ipv, hipv, hpi, hsu⟩ : ∃ ipv : Int, ipv = (if sign = [45] then -(dval ip : Int) else (dval ip : Int)) ∧
      parseInt bits (sign ++ ip) = .ok ipv ∧ InRange bits (ipv * (10 : Int) ^ scale) := by
    refine ⟨_, rfl, ?_, ?_⟩
    · rw [parseInt_ok_iff bits hub, hbody]
      refine ⟨hipne, hipall, ?_⟩
      by_cases hn : sign = [45]
      · rw [if_pos (hneg.mpr hn), if_pos hn]
        rw [if_pos hn] at hr
        refine ⟨?_, rfl⟩
        have : (dval ip : Int) ≤ (2:Int) ^ (bits - 1) := by linarith [hr.1]
        rw [hhalf] at this; exact_mod_cast this
      · rw [if_neg (fun h => hn (hneg.mp h)), if_neg hn]
        rw [if_neg hn] at hr
        refine ⟨?_, rfl⟩
        have : (dval ip : Int) < (2:Int) ^ (bits - 1) := by linarith [hr.2]
        rw [hhalf] at this; exact_mod_cast this
    · unfold InRange
      by_cases hn : sign = [45]
      · rw [if_pos hn]; rw [if_pos hn] at hr
        constructor <;> nlinarith [hr.1, hr.2]
      · rw [if_neg hn]; rw [if_neg hn] at hr
        constructor <;> nlinarith [hr.1, hr.2]
  have hchk0 := chkI_some.mpr ⟨hsu, rfl⟩
  unfold fromStr
  rcases hshape with ⟨rfl, rfl⟩ | ⟨hfne, rfl⟩
  · -- no fractional part
    rw [splitDot_of_not_mem hnodot]
    simp only [List.length_nil, gt_iff_lt, Nat.not_lt_zero, if_false, hpi, hchk0]
    congr 1
    rw [hipv]
    unfold numVal
    by_cases hn : sign = [45]
    · simp [hn, dval_nil]
    · simp [hn, dval_nil]
  · -- with a fractional part
    have hfd := dot_not_mem_of_allDigits hfall
    rw [splitDot_append_dot f hnodot, splitDot_of_not_mem hfd]
    obtain ⟨hfb, hfn⟩ := intBody_of_digits hfall
    have hf32 : f.length % 2 ^ 32 = f.length := Nat.mod_eq_of_lt (by omega)
    have hpf : parseInt bits f = .ok (dval f : Int) := by
      rw [parseInt_ok_iff bits hub, hfb, if_neg hfn]
      refine ⟨hfne, hfall, ?_, rfl⟩
      have h1 : 10 ^ f.length ≤ 10 ^ scale := pow_ge_of_le hflen
      omega
    have hc1 : chkI bits ((10 : Int) ^ (scale - f.length)) = some ((10 : Int) ^ (scale - f.length)) := by
      refine chkI_some.mpr ⟨?_, rfl⟩
      unfold InRange; constructor <;> linarith
    have hc2 : chkI bits ((dval f : Int) * (10 : Int) ^ (scale - f.length)) =
        some ((dval f : Int) * (10 : Int) ^ (scale - f.length)) := by
      refine chkI_some.mpr ⟨?_, rfl⟩
      unfold InRange; constructor <;> linarith
    have hall : f.all isDigitByte = true := all_isDigitByte.mpr hfall
    simp only [List.length_cons, List.length_nil, gt_iff_lt, Nat.lt_irrefl, if_false, hpi, hchk0,
      hf32, Nat.not_lt.mpr hflen, hall, Bool.not_true, Bool.false_eq_true, hpf, hc1, hc2, zero_add]
    by_cases hn : sign = [45]
    · have hbr : ipv < 0 ∨ (sign ++ ip).head? = some 45 := Or.inr (hneg.mpr hn)
      rw [if_pos hbr]
      rw [if_pos hn] at hr hipv
      have : chkI bits (ipv * 10 ^ scale - ↑(dval f) * 10 ^ (scale - f.length)) =
          some (ipv * 10 ^ scale - ↑(dval f) * 10 ^ (scale - f.length)) := by
        refine chkI_some.mpr ⟨?_, rfl⟩
        unfold InRange; rw [hipv]; constructor <;> linarith [hr.1, hr.2]
      rw [this]
      unfold numVal
      rw [if_pos hn, hipv]
      simp only [Res.ok.injEq]; ring
    · have hbr : ¬ (ipv < 0 ∨ (sign ++ ip).head? = some 45) := by
        rw [if_neg hn] at hipv
        intro hh
        rcases hh with hh | hh
        · rw [hipv] at hh; omega
        · exact hn (hneg.mp hh)
      rw [if_neg hbr]
      rw [if_neg hn] at hr hipv
      have : chkI bits (ipv * 10 ^ scale + ↑(dval f) * 10 ^ (scale - f.length)) =
          some (ipv * 10 ^ scale + ↑(dval f) * 10 ^ (scale - f.length)) := by
        refine chkI_some.mpr ⟨?_, rfl⟩
        unfold InRange; rw [hipv]; constructor <;> linarith [hr.1, hr.2]
      rw [this]
      unfold numVal
      rw [if_neg hn, hipv]
      simp only [Res.ok.injEq]; ring

end



/-! ### printing -/

theorem isDigit_add {d : Nat} (h : d < 10) : IsDigit (48 + d) := by unfold IsDigit; omega

theorem dig_add {d : Nat} : dig (48 + d) = d := by rw [dig_eq]; omega

theorem dval_snoc (a : List Nat) (b : Nat) : dval (a ++ [b]) = dval a * 10 + dig b := by
  rw [dval_append, dval_cons, dval_nil]; simp

theorem natDigitsF_spec : ∀ (f n : Nat), n < f →
    AllDigits (natDigitsF f n) ∧ dval (natDigitsF f n) = n ∧ natDigitsF f n ≠ [] := by
  intro f
  induction f with
  | zero => intro n h; omega
  | succ f ih =>
    intro n h
    unfold natDigitsF
    by_cases h10 : n < 10
    · rw [if_pos h10]
      refine ⟨?_, ?_, by simp⟩
      · intro b hb; simp only [List.mem_singleton] at hb; subst hb; exact isDigit_add h10
      · rw [dval_cons, dval_nil, dig_add]; simp
    · rw [if_neg h10]
      obtain ⟨i1, i2, _⟩ := ih (n / 10) (by omega)
      refine ⟨?_, ?_, by simp⟩
      · rw [allDigits_append]
        refine ⟨i1, ?_⟩
        intro b hb; simp only [List.mem_singleton] at hb; subst hb
        exact isDigit_add (Nat.mod_lt _ (by norm_num))
      · rw [dval_snoc, i2, dig_add]; omega

theorem natDigits_spec (n : Nat) :
    AllDigits (natDigits n) ∧ dval (natDigits n) = n ∧ natDigits n ≠ [] :=
  natDigitsF_spec (n + 1) n (by omega)

theorem padDigits_spec : ∀ (w n : Nat),
    (padDigits w n).length = w ∧ AllDigits (padDigits w n) ∧ dval (padDigits w n) = n % 10 ^ w := by
  intro w
  induction w with
  | zero => intro n; simp [padDigits, allDigits_nil, dval_nil, Nat.mod_one]
  | succ w ih =>
    intro n
    obtain ⟨i1, i2, i3⟩ := ih (n / 10)
    unfold padDigits
    refine ⟨by simp [i1], ?_, ?_⟩
    · rw [allDigits_append]
      refine ⟨i2, ?_⟩
      intro b hb; simp only [List.mem_singleton] at hb; subst hb
      exact isDigit_add (Nat.mod_lt _ (by norm_num))
    · rw [dval_snoc, i3, dig_add]
      have : n % 10 ^ (w + 1) = n % 10 + 10 * (n / 10 % 10 ^ w) := by
        rw [pow_succ, mul_comm]; exact Nat.mod_mul
      omega

theorem dropWhile48 (l : List Nat) :
    ∃ z, l = List.replicate z 48 ++ l.dropWhile (· == 48) := by
  induction l with
  | nil => exact ⟨0, rfl⟩
  | cons a t ih =>
    obtain ⟨z, hz⟩ := ih
    by_cases ha : a = 48
    · subst ha
      refine ⟨z + 1, ?_⟩
      simp only [List.dropWhile_cons, beq_self_eq_true, if_true, List.replicate_succ, List.cons_append]
      rw [← hz]
    · refine ⟨0, ?_⟩
      simp [List.dropWhile_cons, ha]

theorem trimEndZeros_spec (l : List Nat) :
    ∃ z, l = trimEndZeros l ++ List.replicate z 48 := by
  obtain ⟨z, hz⟩ := dropWhile48 l.reverse
  refine ⟨z, ?_⟩
  unfold trimEndZeros
  have := congrArg List.reverse hz
  rw [List.reverse_reverse, List.reverse_append, List.reverse_replicate] at this
  exact this

theorem dval_replicate_zero (z : Nat) : dval (List.replicate z 48) = 0 := by
  induction z with
  | zero => rfl
  | succ z ih =>
    rw [List.replicate_succ, dval_cons, ih, dig_eq]; simp

theorem allDigits_replicate_zero (z : Nat) : AllDigits (List.replicate z 48) := by
  intro b hb
  rw [List.mem_replicate] at hb
  rw [hb.2]; unfold IsDigit; omega

/-- the printed fractional part: digits `f` with `dval f * 10^(scale - |f|) = R`, non-empty when `R ≠ 0` -/
theorem frac_spec (scale R : Nat) (hR : R < 10 ^ scale) :
    let f := trimEndZeros (padDigits scale R)
    AllDigits f ∧ f.length ≤ scale ∧ dval f * 10 ^ (scale - f.length) = R ∧ (R ≠ 0 → f ≠ []) := by
  intro f
  obtain ⟨p1, p2, p3⟩ := padDigits_spec scale R
  obtain ⟨z, hz⟩ := trimEndZeros_spec (padDigits scale R)
  have hlen : f.length + z = scale := by
    have := congrArg List.length hz
    rw [List.length_append, List.length_replicate, p1] at this
    exact this.symm
  have hall : AllDigits f := by
    rw [hz, allDigits_append] at p2; exact p2.1
  have hv : dval f * 10 ^ z = R := by
    have := p3
    rw [hz, dval_append, dval_replicate_zero, List.length_replicate, Nat.mod_eq_of_lt hR] at this
    simpa using this
  refine ⟨hall, by omega, ?_, ?_⟩
  · have : scale - f.length = z := by omega
    rw [this]; exact hv
  · intro hR0 hf
    have : dval f = 0 := by rw [hf]; rfl
    rw [this] at hv; omega

theorem intDigits_eq (q : Int) :
    intDigits q = (if q < 0 then [45] else []) ++ natDigits q.natAbs := by
  unfold intDigits; split <;> simp

/-- `toStr` in terms of the sign and the natural quotient / remainder of `|v|` -/
theorem toStr_eq (scale : Nat) (v : Int) :
    toStr scale v =
      if v.natAbs % 10 ^ scale ≠ 0 then
        (if v < 0 then [45] else []) ++ natDigits (v.natAbs / 10 ^ scale) ++ [46] ++
          trimEndZeros (padDigits scale (v.natAbs % 10 ^ scale))
      else (if v < 0 then [45] else []) ++ natDigits (v.natAbs / 10 ^ scale) := by
  have hm : (0 : Int) < (10 : Int) ^ scale := by positivity
  have hmN : 0 < 10 ^ scale := Nat.pow_pos (by norm_num)
  have hcast : ((10 ^ scale : Nat) : Int) = (10 : Int) ^ scale := by push_cast; rfl
  obtain ⟨n, hn | hn⟩ := Int.eq_nat_or_neg v
  · -- v ≥ 0
    subst hn
    have hq : Int.tdiv (n : Int) ((10 : Int) ^ scale) = ((n / 10 ^ scale : Nat) : Int) := by
      rw [← hcast, ← Int.ofNat_tdiv]
    have hr : Int.tmod (n : Int) ((10 : Int) ^ scale) = ((n % 10 ^ scale : Nat) : Int) := by
      rw [← hcast, ← Int.ofNat_tmod]
    unfold toStr
    simp only [hq, hr, Int.natAbs_natCast, intDigits_eq]
    have h1 : ¬ ((n : Int) < 0) := not_lt.mpr (Int.natCast_nonneg _)
    have h2 : ¬ (((n / 10 ^ scale : Nat) : Int) < 0) := not_lt.mpr (Int.natCast_nonneg _)
    have h3 : ¬ (((n % 10 ^ scale : Nat) : Int) < 0) := not_lt.mpr (Int.natCast_nonneg _)
    simp only [h1, h2, h3, false_and, if_false, List.nil_append, Int.natCast_eq_zero, ne_eq]
  · -- v ≤ 0
    subst hn
    have hq : Int.tdiv (-(n : Int)) ((10 : Int) ^ scale) = -((n / 10 ^ scale : Nat) : Int) := by
      rw [Int.neg_tdiv, ← hcast, ← Int.ofNat_tdiv]
    have hr : Int.tmod (-(n : Int)) ((10 : Int) ^ scale) = -((n % 10 ^ scale : Nat) : Int) := by
      rw [Int.neg_tmod, ← hcast, ← Int.ofNat_tmod]
    unfold toStr
    simp only [hq, hr, Int.natAbs_neg, Int.natAbs_natCast, intDigits_eq, neg_eq_zero,
      Int.natCast_eq_zero, ne_eq]
    have hdm := Nat.div_add_mod n (10 ^ scale)
    generalize n / 10 ^ scale = Q at *
    generalize n % 10 ^ scale = R at *
    have hnegpos : ∀ k : Nat, (-(k : Int) < 0) ↔ k ≠ 0 := by intro k; omega
    have hnegz : ∀ k : Nat, (-(k : Int) = 0) ↔ k = 0 := by intro k; omega
    simp only [hnegpos]
    by_cases hR : R = 0
    · subst hR
      by_cases hQ : Q = 0
      · subst hQ
        have : n = 0 := by simpa using hdm.symm
        subst this; simp
      · have hn0 : n ≠ 0 := by
          intro h; subst h
          have : 10 ^ scale * Q = 0 := by omega
          rcases Nat.mul_eq_zero.mp this with h | h
          · omega
          · exact hQ h
        simp [hQ, hn0]
    · have hn0 : n ≠ 0 := by
        intro h; subst h
        have : R = 0 := by omega
        exact hR this
      by_cases hQ : Q = 0
      · simp [hQ, hR, hn0]
      · simp [hQ, hR, hn0]

/-- the numeral built from a sign, a quotient and a remainder denotes `± n` -/
theorem denotes_build (scale n : Nat) (sgn : List Nat) (hs : IsSign sgn) :
    Denotes scale
      (if n % 10 ^ scale ≠ 0 then
        sgn ++ natDigits (n / 10 ^ scale) ++ [46] ++ trimEndZeros (padDigits scale (n % 10 ^ scale))
       else sgn ++ natDigits (n / 10 ^ scale))
      ((if sgn = [45] then -1 else 1) * (n : Int)) := by
  have hmN : 0 < 10 ^ scale := Nat.pow_pos (by norm_num)
  obtain ⟨q1, q2, q3⟩ := natDigits_spec (n / 10 ^ scale)
  obtain ⟨f1, f2, f3, f4⟩ := frac_spec scale (n % 10 ^ scale) (Nat.mod_lt _ hmN)
  have hdm := Nat.div_add_mod n (10 ^ scale)
  generalize n / 10 ^ scale = Q at *
  generalize n % 10 ^ scale = R at *
  have hn : (n : Int) = (Q : Int) * (10 : Int) ^ scale + (R : Int) := by
    rw [← hdm]; push_cast; ring
  by_cases hR : R ≠ 0
  · rw [if_pos hR]
    refine ⟨sgn, natDigits Q, _, hs, q3, q1, f1, f2, Or.inr ⟨f4 hR, ?_⟩, ?_⟩
    · simp [List.append_assoc]
    · unfold numVal
      rw [q2, hn]
      congr 2
      exact_mod_cast f3.symm
  · rw [if_neg hR]
    refine ⟨sgn, natDigits Q, [], hs, q3, q1, allDigits_nil, Nat.zero_le _, Or.inl ⟨rfl, rfl⟩, ?_⟩
    unfold numVal
    have : R = 0 := by omega
    rw [q2, dval_nil, hn, this]; simp

theorem toStr_denotes (scale : Nat) (v : Int) : Denotes scale (toStr scale v) v := by
  rw [toStr_eq]
  obtain ⟨n, hn | hn⟩ := Int.eq_nat_or_neg v
  · subst hn
    have h1 : ¬ ((n : Int) < 0) := not_lt.mpr (Int.natCast_nonneg _)
    simp only [h1, if_false, Int.natAbs_natCast]
    have := denotes_build scale n [] (Or.inl rfl)
    simpa using this
  · subst hn
    simp only [Int.natAbs_neg, Int.natAbs_natCast]
    by_cases h0 : n = 0
    · subst h0
      have := denotes_build scale 0 [] (Or.inl rfl)
      simpa using this
    · have h1 : -(n : Int) < 0 := by omega
      simp only [h1, if_true]
      have := denotes_build scale n [45] (Or.inr (Or.inr rfl))
      simpa using this



section
variable (bits scale : Nat) (hub : 10 ^ 19 ≤ 2 ^ bits) (hsc : 10 ^ scale < 2 ^ (bits - 1))
include hub hsc

/-- none of the `expect` / `unreachable!` / indexing panics of `from_str` can fire (texts < 2^32 bytes) -/
theorem fromStr_no_panic (s : List Nat) (hlen : s.length < 2 ^ 32) : fromStr bits scale s ≠ .panic := by
  have hscI : (10 : Int) ^ scale < (2 : Int) ^ (bits - 1) := by exact_mod_cast hsc
  unfold fromStr
  cases hsd : splitDot s with
  | nil => exact absurd hsd (splitDot_ne_nil s)
  | cons v0 tl =>
    simp only
    by_cases htl : tl.length > 1
    · rw [if_pos htl]; simp
    · rw [if_neg htl]
      cases hp : parseInt bits v0 with
      | error e => simp
      | ok ip =>
        simp only
        cases hc : chkI bits (ip * (10 : Int) ^ scale) with
        | none => simp
        | some su =>
          simp only
          cases tl with
          | nil => simp
          | cons v1 tl2 =>
            have htl2 : tl2 = [] := by
              cases tl2 with
              | nil => rfl
              | cons _ _ => simp at htl
            subst htl2
            obtain ⟨hs, _, _⟩ := splitDot_two hsd
            simp only
            have hv1len : v1.length < 2 ^ 32 := by
              rw [hs] at hlen; simp at hlen; omega
            rw [Nat.mod_eq_of_lt hv1len]
            by_cases hsl : scale < v1.length
            · rw [if_pos hsl]; simp
            · rw [if_neg hsl]
              by_cases hdig : v1.all isDigitByte = true
              · simp only [hdig, Bool.not_true, Bool.false_eq_true, if_false]
                have hall1 := all_isDigitByte.mp hdig
                obtain ⟨hb1, hn1⟩ := intBody_of_digits hall1
                cases hp1 : parseInt bits v1 with
                | error e => simp
                | ok fp =>
                  simp only
                  obtain ⟨_, _, hfv⟩ := (parseInt_ok_iff bits hub v1 fp).mp hp1
                  rw [hb1, if_neg hn1] at hfv
                  obtain ⟨_, rfl⟩ := hfv
                  have hK0 : (0 : Int) < (10 : Int) ^ (scale - v1.length) := by positivity
                  have hKle : (10 : Int) ^ (scale - v1.length) ≤ (10 : Int) ^ scale :=
                    pow_le_pow_right₀ (by norm_num) (by omega)
                  have hc1 : chkI bits ((10 : Int) ^ (scale - v1.length)) =
                      some ((10 : Int) ^ (scale - v1.length)) := by
                    refine chkI_some.mpr ⟨?_, rfl⟩
                    unfold InRange; constructor <;> linarith
                  rw [hc1]
                  simp only
                  have hFlt : dval v1 < 10 ^ v1.length := dval_lt v1 hall1
                  have hpowsplit : (10:Int) ^ v1.length * (10:Int) ^ (scale - v1.length) = (10:Int) ^ scale := by
                    rw [← pow_add]; congr 1; omega
                  have hFP : (dval v1 : Int) * (10 : Int) ^ (scale - v1.length) < (10 : Int) ^ scale := by
                    rw [← hpowsplit]
                    have : (dval v1 : Int) < (10:Int) ^ v1.length := by exact_mod_cast hFlt
                    exact mul_lt_mul_of_pos_right this hK0
                  have hF0 : (0 : Int) ≤ (dval v1 : Int) * (10 : Int) ^ (scale - v1.length) := by positivity
                  have hc2 : chkI bits ((dval v1 : Int) * (10 : Int) ^ (scale - v1.length)) =
                      some ((dval v1 : Int) * (10 : Int) ^ (scale - v1.length)) := by
                    refine chkI_some.mpr ⟨?_, rfl⟩
                    unfold InRange; constructor <;> linarith
                  rw [hc2]
                  simp only
                  split
                  · split <;> simp
                  · split <;> simp
              · simp only [hdig, Bool.not_false, if_true]
                simp

end


end Radix.DecimalText
