/-
Bounds on the epoch emission and the reward split.
-/
import RadixModel.Lemmas.Staking

namespace Radix.Staking

theorem successRatio_range {made missed : Nat} {rel : Int} (h : successRatio made missed = some rel) :
    0 ≤ rel ∧ rel ≤ ONE := by
  have h1 := ONE_pos
  unfold successRatio at h
  split at h
  · cases h; exact ⟨le_of_lt h1, le_refl _⟩
  · rename_i hne
    have htot : (0 : Int) < ((made + missed : Nat) : Int) := by
      have : 0 < made + missed := Nat.pos_of_ne_zero hne
      exact_mod_cast this
    have hden : (0 : Int) < ((made + missed : Nat) : Int) * ONE := mul_pos htot h1
    have hmade : (0 : Int) ≤ (made : Int) * ONE := mul_nonneg (by exact_mod_cast Nat.zero_le made) (le_of_lt h1)
    have d := dDiv_spec h hmade hden
    refine ⟨d.2.2, ?_⟩
    have hle : (made : Int) ≤ ((made + missed : Nat) : Int) := by exact_mod_cast Nat.le_add_right made missed
    have e1 : (made : Int) * ONE * ONE ≤ ((made + missed : Nat) : Int) * ONE * ONE :=
      mul_le_mul_of_nonneg_right (mul_le_mul_of_nonneg_right hle (le_of_lt h1)) (le_of_lt h1)
    have key : rel * (((made + missed : Nat) : Int) * ONE) ≤ ONE * (((made + missed : Nat) : Int) * ONE) := by
      linarith [d.1]
    exact le_of_mul_le_mul_right key hden

theorem reliabilityFactor_range {rel minRel f : Int} (h : reliabilityFactor rel minRel = some f)
    (hr1 : rel ≤ ONE) : 0 ≤ f ∧ f ≤ ONE := by
  have h1 := ONE_pos
  unfold reliabilityFactor at h
  split at h
  · cases h
  · rename_i reserve hres
    have hres' := chk_eq (show chk (rel - minRel) = some reserve from hres)
    split at h
    · cases h; exact ⟨le_refl _, le_of_lt h1⟩
    · rename_i hneg
      split at h
      · cases h
      · rename_i mu hmu
        have hmu' := chk_eq (show chk (ONE - minRel) = some mu from hmu)
        split at h
        · split at h
          · cases h; exact ⟨le_of_lt h1, le_refl _⟩
          · cases h; exact ⟨le_refl _, le_of_lt h1⟩
        · rename_i hmu0
          have hres0 : 0 ≤ reserve := not_lt.mp hneg
          have hle : reserve ≤ mu := by rw [hres', hmu']; linarith
          have hmupos : 0 < mu := lt_of_le_of_ne (le_trans hres0 hle) (Ne.symm hmu0)
          have d := dDiv_spec h hres0 hmupos
          refine ⟨d.2.2, ?_⟩
          have e1 : reserve * ONE ≤ mu * ONE := mul_le_mul_of_nonneg_right hle (le_of_lt h1)
          have key : f * mu ≤ ONE * mu := by linarith [d.1]
          exact le_of_mul_le_mul_right key hmupos

theorem effectiveStake_range {m : Member} {minRel e : Int} (h : effectiveStake m minRel = some (some e)) :
    0 < m.stake ∧ 0 ≤ e ∧ e ≤ m.stake := by
  have h1 := ONE_pos
  unfold effectiveStake at h
  split at h
  · rename_i hpos
    split at h
    · cases h
    · rename_i rel hrel
      split at h
      · cases h
      · rename_i f hf
        split at h
        · cases h
        · rename_i e' he
          cases h
          have r := successRatio_range hrel
          have fr := reliabilityFactor_range hf r.2
          have m1 := dMul_spec he (le_of_lt hpos) fr.1
          refine ⟨hpos, m1.2.2, ?_⟩
          have e1 : m.stake * f ≤ m.stake * ONE := mul_le_mul_of_nonneg_left fr.2 (le_of_lt hpos)
          have key : e * ONE ≤ m.stake * ONE := le_trans m1.1 e1
          exact le_of_mul_le_mul_right key h1
  · cases h

theorem infos_spec (minRel : Int) : ∀ (set : List Member) {l : List (Member × Int)} {sum : Int},
    infos minRel set = some (l, sum) →
    (∀ x ∈ l, 0 ≤ x.2) ∧ sumList (l.map (fun x => x.2)) ≤ sum ∧ 0 ≤ sum ∧ (l ≠ [] → 0 < sum)
  | [], l, sum, h => by
    simp only [infos] at h
    cases h
    exact ⟨(by intro x hx; cases hx), le_refl _, le_refl _, fun h => absurd rfl h⟩
  | m :: rest, l, sum, h => by
    simp only [infos] at h
    split at h
    · rename_i r he hr
      cases h
      exact infos_spec minRel rest hr
    · rename_i e l' sum' he hr
      split at h
      · cases h
      · rename_i s hs
        cases h
        have ih := infos_spec minRel rest hr
        have er := effectiveStake_range he
        have hs' := chk_eq (show chk (m.stake + sum') = some sum from hs)
        refine ⟨?_, ?_, ?_, ?_⟩
        · intro x hx
          rcases List.mem_cons.mp hx with rfl | hx
          · exact er.2.1
          · exact ih.1 x hx
        · simp only [List.map_cons, sumList]; rw [hs']; linarith [ih.2.1, er.2.2]
        · rw [hs']; linarith [ih.2.2.1, er.1]
        · intro _; rw [hs']; linarith [ih.2.2.1, er.1]
    · cases h

/-- if every `x_i * ONE ≤ e_i * per` then `(Σ x_i) * ONE ≤ (Σ e_i) * per` -/
theorem scaleEach_sum {per : Int} : ∀ (l : List (Member × Int)) {r : List (Member × Int × Int)},
    scaleEach per l = some r → 0 ≤ per → (∀ x ∈ l, 0 ≤ x.2) →
    sumList (r.map (fun x => x.2.2)) * ONE ≤ sumList (l.map (fun x => x.2)) * per ∧ (∀ x ∈ r, 0 ≤ x.2.2)
  | [], r, h, _, _ => by
    simp only [scaleEach] at h; cases h
    exact ⟨by simp [sumList], by intro x hx; cases hx⟩
  | (m, e) :: rest, r, h, hper, hl => by
    simp only [scaleEach] at h
    split at h
    · rename_i x r' hx hr
      cases h
      have ih := scaleEach_sum rest hr hper (fun y hy => hl y (List.mem_cons_of_mem _ hy))
      have m1 := dMul_spec hx (hl (m, e) (List.mem_cons_self ..)) hper
      refine ⟨?_, ?_⟩
      · simp only [List.map_cons, sumList]
        have : x * ONE ≤ e * per := m1.1
        nlinarith [ih.1]
      · intro y hy
        rcases List.mem_cons.mp hy with rfl | hy
        · exact m1.2.2
        · exact ih.2 y hy
    · cases h

/-- The XRD minted at an epoch change never exceeds the configured emission. -/
theorem emissions_le_config {E minRel : Int} {set : List Member} {r : List (Member × Int × Int)}
    (h : emissions E minRel set = some r) (hE : 0 ≤ E) :
    sumList (r.map (fun x => x.2.2)) ≤ E ∧ ∀ x ∈ r, 0 ≤ x.2.2 := by
  have h1 := ONE_pos
  unfold emissions at h
  split at h
  · cases h
  · cases h; exact ⟨by simpa [sumList] using hE, by intro x hx; cases hx⟩
  · rename_i l sum hnil hinf
    split at h
    · cases h
    · rename_i per hper
      have sp := infos_spec minRel set hinf
      have hl : l ≠ [] := by
        intro hl; subst hl; simp at hnil
      have hsum := sp.2.2.2 hl
      have d := dDiv_spec hper hE hsum
      have sc := scaleEach_sum l h d.2.2 sp.1
      refine ⟨?_, sc.2⟩
      have e1 : sumList (l.map (fun x => x.2)) * per ≤ sum * per := mul_le_mul_of_nonneg_right sp.2.1 d.2.2
      have key : sumList (r.map (fun x => x.2.2)) * ONE ≤ E * ONE := by linarith [sc.1, d.1, mul_comm per sum]
      exact le_of_mul_le_mul_right key h1

theorem rewardEach_sum {per : Int} : ∀ (l : List (Member × Int × Int)) {r : List (Member × Int)},
    rewardEach per l = some r → 0 ≤ per → (∀ x ∈ l, 0 ≤ x.2.1) →
    (sumList (r.map (fun x => x.2)) - sumList (l.map (fun x => x.2.2))) * ONE ≤ sumList (l.map (fun x => x.2.1)) * per
  | [], r, h, _, _ => by
    simp only [rewardEach] at h; cases h
    simp [sumList]
  | (m, e, p) :: rest, r, h, hper, hl => by
    simp only [rewardEach] at h
    split at h
    · rename_i am r' ham hr
      split at h
      · rename_i t ht
        cases h
        have ih := rewardEach_sum rest hr hper (fun y hy => hl y (List.mem_cons_of_mem _ hy))
        have m1 := dMul_spec ham (hl (m, e, p) (List.mem_cons_self ..)) hper
        have ht' := chk_eq (show chk (p + am) = some t from ht)
        simp only [List.map_cons, sumList]
        have : am * ONE ≤ e * per := m1.1
        rw [ht']
        nlinarith [ih]
      · cases h
    · cases h

/-- The rewards handed out at an epoch change never exceed the rewards vault, provided the recorded
proposer rewards are covered by the vault and effective stakes are non-negative. -/
theorem rewards_le_vault {vault : Int} {l : List (Member × Int × Int)} {r : List (Member × Int)}
    (h : rewards vault l = some r) (hl : ∀ x ∈ l, 0 ≤ x.2.1)
    (hcov : sumList (l.map (fun x => x.2.2)) ≤ vault) :
    sumList (r.map (fun x => x.2)) ≤ vault := by
  have h1 := ONE_pos
  unfold rewards at h
  simp only at h
  split at h
  · cases h
  · rename_i claimable hc
    have hc' := chk_eq (show chk (vault - sumList (l.map (fun x => x.2.2))) = some claimable from hc)
    have hcl0 : 0 ≤ claimable := by rw [hc']; linarith
    have heff0 : 0 ≤ sumList (l.map (fun x => x.2.1)) := by
      clear h hcov hc hc' hcl0
      induction l with
      | nil => simp [sumList]
      | cons x xs ih =>
        simp only [List.map_cons, sumList]
        have := hl x (List.mem_cons_self ..)
        have := ih (fun y hy => hl y (List.mem_cons_of_mem _ hy))
        linarith
    split at h
    · cases h
    · rename_i per hper
      by_cases hz : sumList (l.map (fun x => x.2.1)) = 0
      · simp only [hz, ite_true] at hper
        cases hper
        have := rewardEach_sum l h (le_refl _) hl
        rw [hz] at this
        have : (sumList (r.map (fun x => x.2)) - sumList (l.map (fun x => x.2.2))) ≤ 0 := by
          by_contra hn
          have := mul_pos (not_le.mp hn) h1
          linarith
        linarith
      · simp only [hz, ite_false] at hper
        have hpos : 0 < sumList (l.map (fun x => x.2.1)) := lt_of_le_of_ne heff0 (Ne.symm hz)
        have d := dDiv_spec hper hcl0 hpos
        have rs := rewardEach_sum l h d.2.2 hl
        have key : (sumList (r.map (fun x => x.2)) - sumList (l.map (fun x => x.2.2))) * ONE ≤ claimable * ONE := by
          linarith [d.1, mul_comm per (sumList (l.map (fun x => x.2.1)))]
        have := le_of_mul_le_mul_right key h1
        rw [hc'] at this
        linarith

end Radix.Staking
