/-
C18 — every `put_node` emitted by the transcribed algorithm carries the new version (`fresh_keys`).
-/
import RadixModel.Model.JmtStore
namespace Radix.Jmt

variable {α : Type}

/-- all puts of a batch are keyed with version `v`. -/
def FreshB (v : Nat) (b : Batch) : Prop := ∀ e ∈ b.puts, e.1.1 = v

theorem freshB_empty (v : Nat) : FreshB v ({} : Batch) := by intro e he; cases he

theorem freshB_append (v : Nat) (a b : Batch) (ha : FreshB v a) (hb : FreshB v b) : FreshB v (a ++ b) := by
  intro e he
  have : e ∈ a.puts ++ b.puts := he
  rcases List.mem_append.mp this with h | h
  · exact ha e h
  · exact hb e h

theorem freshB_stale (v : Nat) (l : List NodeKey) : FreshB v ({ stale := l } : Batch) := by
  intro e he; cases he

theorem mkInternal_fresh (H : List UInt8 → Hash) (v : Nat) (pfx lp : Path) (cs : List (Nat × Tree α))
    (oldC : Nat → Tree α) : FreshB v ({ puts := (mkInternal H v pfx lp cs oldC).2 } : Batch) := by
  intro e he
  simp only [mkInternal, List.mem_map] at he
  obtain ⟨x, _, hx⟩ := he
  rw [← hx]

theorem finish_fresh (H : List UInt8 → Hash) (v : Nat) (pfx lp : Path) (cs : List (Nat × Tree α))
    (b : Batch) (hb : FreshB v b) : FreshB v (finish H v pfx lp cs b).b := by
  unfold finish
  split
  · exact hb
  · split
    · exact hb
    · exact freshB_append v _ _ hb (mkInternal_fresh H v pfx lp _ _)
  · exact freshB_append v _ _ hb (mkInternal_fresh H v pfx lp _ _)

theorem collapse_fresh (H : List UInt8 → Hash) (v : Nat) (pfx lp : Path) (newCs : List (Nat × Tree α))
    (oldC : Nat → Tree α) (b : Batch) (hb : FreshB v b) : FreshB v (collapse H v pfx lp newCs oldC b).b := by
  have hre := freshB_append v _ _ hb (mkInternal_fresh H v pfx lp newCs oldC)
  unfold collapse
  simp only []
  split
  · exact hb
  · split
    · exact hb
    · exact hre
  · split
    · exact hb
    · exact hre
  · split
    · exact freshB_append v _ _ hb (freshB_stale v _)
    · exact hre
  · exact hre

theorem mapGroups_fresh (v : Nat) (f : Nat → List (KV α) → Except Err (R α))
    (hf : ∀ n g r, f n g = .ok r → FreshB v r.b) :
    ∀ gs rs b, mapGroups f gs = .ok (rs, b) → FreshB v b := by
  intro gs
  induction gs with
  | nil =>
    intro rs b h
    simp only [mapGroups] at h
    injection h with h; injection h with h1 h2; subst h2
    exact freshB_empty v
  | cons x gs ih =>
    intro rs b h
    obtain ⟨n, g⟩ := x
    simp only [mapGroups] at h
    split at h
    · cases h
    · rename_i r hr
      split at h
      · cases h
      · rename_i rs' b' hm
        injection h with h; injection h with h1 h2; subst h2
        exact freshB_append v _ _ (hf n g r hr) (ih rs' b' hm)

theorem single_fresh (v : Nat) (kv : KV α) : FreshB v (single v kv).b := by
  unfold single; split <;> exact freshB_empty v

theorem upd_fresh (H : List UInt8 → Hash) (v : Nat) (pfx : Path) :
    ∀ fuel lp (kvs : List (KV α)) r, updateSubtree H v pfx fuel lp kvs = .ok r → FreshB v r.b := by
  intro fuel
  induction fuel with
  | zero => intro lp kvs r h; simp [updateSubtree] at h
  | succ fuel ih =>
    intro lp kvs r h
    unfold updateSubtree at h
    split at h
    · injection h with h; subst h; exact single_fresh v _
    · split at h
      · cases h
      · split at h
        · cases h
        · rename_i gs _ rs b hm
          injection h with h; subst h
          exact finish_fresh H v pfx lp _ b (mapGroups_fresh v _ (fun n g r hr => ih _ g r hr) _ rs b hm)

theorem wel_fresh (H : List UInt8 → Hash) (v : Nat) (pfx : Path) (ek : Key) (evh : Hash) (epl : Nat)
    (esub : α) :
    ∀ fuel lp (kvs : List (KV α)) r,
    withExistingLeaf H v pfx ek evh epl esub fuel lp kvs = .ok r → FreshB v r.b := by
  intro fuel
  induction fuel with
  | zero => intro lp kvs r h; simp [withExistingLeaf] at h
  | succ fuel ih =>
    intro lp kvs r h
    have general : ∀ r, (match nib ek lp.length with
      | none => .error (.panic "get_nibble out of range (existing leaf)")
      | some bucket =>
        match groups lp.length kvs with
        | .error e => .error e
        | .ok gs =>
          match mapGroups (fun n g =>
              if n = bucket then withExistingLeaf H v pfx ek evh epl esub fuel (lp ++ [n]) g
              else updateSubtree H v pfx fuel (lp ++ [n]) g) gs with
          | .error e => .error e
          | .ok (rs, b) =>
            let isolated := !(gs.any fun g => g.1 == bucket)
            let cs := someChildren rs ++
              (if isolated then [(bucket, Tree.leaf v ek evh epl esub)] else [])
            .ok (finish H v pfx lp cs b)) = Except.ok r → FreshB v r.b := by
      intro r h
      split at h
      · cases h
      · rename_i bucket _
        split at h
        · cases h
        · split at h
          · cases h
          · rename_i gs _ rs b hm
            injection h with h; subst h
            refine finish_fresh H v pfx lp _ b (mapGroups_fresh v _ ?_ _ rs b hm)
            intro n g r hr
            split at hr
            · exact ih _ g r hr
            · exact upd_fresh H v pfx fuel _ g r hr
    unfold withExistingLeaf at h
    simp only at h
    split at h
    · split at h
      · injection h with h; subst h; exact single_fresh v _
      · exact general r h
    · exact general r h

theorem ins_fresh (H : List UInt8 → Hash) (v : Nat) (pfx : Path) (fuel : Nat) :
    ∀ (t : Tree α) lp (kvs : List (KV α)) r, insertAt H v pfx fuel t lp kvs = .ok r → FreshB v r.b := by
  intro t
  induction t with
  | null => intro lp kvs r h; simp [insertAt] at h
  | leaf v' ek evh epl esub =>
    intro lp kvs r h
    simp only [insertAt] at h
    split at h
    · cases h
    · rename_i r' hw
      injection h with h; subst h
      exact freshB_append v _ _ (freshB_stale v _) (wel_fresh H v pfx ek evh epl esub fuel lp kvs r' hw)
  | node v' h' c ih =>
    intro lp kvs r h
    simp only [insertAt] at h
    split at h
    · cases h
    · split at h
      · cases h
      · rename_i gs _ rs b0 hm
        injection h with h; subst h
        refine collapse_fresh H v pfx lp _ _ _ (freshB_append v _ _ (freshB_stale v _) ?_)
        refine mapGroups_fresh v _ ?_ _ rs b0 hm
        intro n g r hr
        split at hr
        · exact upd_fresh H v pfx fuel _ g r hr
        · exact ih n _ g r hr

/-- all `put` events carry version `v`. -/
def FreshE (v : Nat) (evs : List Ev) : Prop := ∀ k n, Ev.put k n ∈ evs → k.1 = v

theorem freshE_append (v : Nat) (a b : List Ev) (ha : FreshE v a) (hb : FreshE v b) : FreshE v (a ++ b) := by
  intro k n h
  rcases List.mem_append.mp h with h | h
  · exact ha k n h
  · exact hb k n h

theorem events_fresh (v : Nat) (b : Batch) (hb : FreshB v b) : FreshE v b.events := by
  intro k n h
  unfold Batch.events at h
  rcases List.mem_append.mp h with h | h
  · obtain ⟨x, hx, hxe⟩ := List.mem_map.mp h
    injection hxe with h1 h2
    rw [← h1]; exact hb x hx
  · obtain ⟨x, _, hxe⟩ := List.mem_map.mp h
    cases hxe

theorem putTierCore_fresh (H : List UInt8 → Hash) (v : Nat) (pfx : Path) (rv : Option Nat) (t : Tree α)
    (kvs : List (KV α)) (r : R α) (h : putTierCore H v pfx rv t kvs = .ok r) : FreshB v r.b := by
  unfold putTierCore at h
  simp only at h
  split at h
  · exact upd_fresh H v pfx _ _ _ r h
  · split at h
    · split at h
      · cases h
      · rename_i r' hu
        injection h with h; subst h
        exact freshB_append v _ _ (freshB_stale v _) (upd_fresh H v pfx _ _ _ r' hu)
    · exact ins_fresh H v pfx _ _ _ _ r h

theorem putTier_fresh (H : List UInt8 → Hash) (v : Nat) (pfx : Path) (rv : Option Nat) (t : Tree α)
    (ups : List (KV α)) (root : Option (Tree α)) (evs : List Ev)
    (h : putTier H v pfx rv t ups = .ok (root, evs)) : FreshE v evs := by
  unfold putTier at h
  split at h
  · cases h
  · rename_i r hc
    have hb := putTierCore_fresh H v pfx rv t _ r hc
    have hroot : ∀ n : SNode, FreshB v ({ puts := [((v, pfx), n)] } : Batch) := by
      intro n e he; simp at he; subst he; rfl
    split at h
    · injection h with h; injection h with h1 h2; subst h2
      exact events_fresh v _ (freshB_append v _ _ hb (hroot _))
    · injection h with h; injection h with h1 h2; subst h2
      exact events_fresh v _ (freshB_append v _ _ hb (hroot _))

theorem applyPartition_fresh (H : List UInt8 → Hash) (v : Nat) (pfx : Path) (sub : Option (Nat × STree))
    (u : PUpd) (res : Option (Hash × STree)) (evs : List Ev)
    (h : applyPartition H v pfx sub u = .ok (res, evs)) : FreshE v evs := by
  unfold applyPartition at h
  split at h
  · simp only at h
    split at h
    · cases h
    · rename_i root evs' hp
      injection h with h; injection h with h1 h2; subst h2
      exact putTier_fresh H v pfx _ _ _ root evs' hp
  · simp only at h
    split at h
    · cases h
    · rename_i root evs' hp
      injection h with h; injection h with h1 h2; subst h2
      refine freshE_append v _ _ ?_ (putTier_fresh H v pfx _ _ _ root evs' hp)
      intro k n hk
      split at hk
      · simp at hk
      · simp at hk

theorem partitionLeafUpdates_fresh (H : List UInt8 → Hash) (v : Nat) (ek : Key) (rv : Option Nat)
    (t : PTree) : ∀ pus kvs evs, partitionLeafUpdates H v ek rv t pus = .ok (kvs, evs) → FreshE v evs := by
  intro pus
  induction pus with
  | nil =>
    intro kvs evs h
    simp only [partitionLeafUpdates] at h
    injection h with h; injection h with h1 h2; subst h2
    intro k n hk; cases hk
  | cons x pus ih =>
    intro kvs evs h
    obtain ⟨pn, pu⟩ := x
    simp only [partitionLeafUpdates] at h
    split at h
    · cases h
    · split at h
      · cases h
      · rename_i newRoot evs1 ha
        split at h
        · cases h
        · rename_i kvs' evs' hrest
          injection h with h; injection h with h1 h2; subst h2
          exact freshE_append v _ _ (applyPartition_fresh H v _ _ _ newRoot evs1 ha) (ih kvs' evs' hrest)

theorem applyEntity_fresh (H : List UInt8 → Hash) (v : Nat) (ek : Key) (part : Option (Nat × PTree))
    (pus : List (Nat × PUpd)) (res : Option (Hash × PTree)) (evs : List Ev)
    (h : applyEntity H v ek part pus = .ok (res, evs)) : FreshE v evs := by
  unfold applyEntity at h
  simp only at h
  split at h
  · cases h
  · rename_i kvs evs1 hl
    split at h
    · cases h
    · rename_i root evs2 hp
      injection h with h; injection h with h1 h2; subst h2
      exact freshE_append v _ _ (partitionLeafUpdates_fresh H v ek _ _ pus kvs evs1 hl)
        (putTier_fresh H v _ _ _ _ root evs2 hp)

theorem entityLeafUpdates_fresh (H : List UInt8 → Hash) (v : Nat) (rv : Option Nat)
    (t : ETree) : ∀ ups kvs evs, entityLeafUpdates H v rv t ups = .ok (kvs, evs) → FreshE v evs := by
  intro ups
  induction ups with
  | nil =>
    intro kvs evs h
    simp only [entityLeafUpdates] at h
    injection h with h; injection h with h1 h2; subst h2
    intro k n hk; cases hk
  | cons x ups ih =>
    intro kvs evs h
    obtain ⟨ek, pus⟩ := x
    simp only [entityLeafUpdates] at h
    split at h
    · cases h
    · split at h
      · cases h
      · rename_i newRoot evs1 ha
        split at h
        · cases h
        · rename_i kvs' evs' hrest
          injection h with h; injection h with h1 h2; subst h2
          exact freshE_append v _ _ (applyEntity_fresh H v ek _ pus newRoot evs1 ha) (ih kvs' evs' hrest)

end Radix.Jmt
