/-
C06 — helper lemmas: exactness of the `Decimal` products used by the fee reserve.
-/
import RadixModel.Model.FeeReserve
import Mathlib.Tactic.Linarith
import Mathlib.Tactic.Ring

namespace Radix.Fee

theorem ONE_pos : (0 : Int) < ONE := by decide
theorem ONE_ne : ONE ≠ 0 := by decide

theorem dadd_some {a b x : Int} (h : dadd a b = some x) : x = a + b := by
  unfold dadd at h; split at h <;> simp_all
theorem dsub_some {a b x : Int} (h : dsub a b = some x) : x = a - b := by
  unfold dsub at h; split at h <;> simp_all

/-- multiplying a `Decimal` by an integer is exact -/
theorem dmulNat_some {a : Int} {n : Nat} {x : Int} (h : dmulNat a n = some x) : x = a * n := by
  unfold dmulNat dmul at h
  split at h
  · simp only at h
    split at h
    · simp only [Option.some.injEq] at h
      rw [← h, show a * ((n : Int) * ONE) = (a * n) * ONE by ring]
      exact Int.mul_tdiv_cancel _ ONE_ne
    · cases h
  · cases h

/-- `Decimal` product of non-negative values = floor of the exact product -/
theorem dmul_some_nonneg {a b x : Int} (ha : 0 ≤ a) (hb : 0 ≤ b) (h : dmul a b = some x) : x = (a * b) / ONE := by
  unfold dmul at h
  split at h
  · simp only at h
    split at h
    · simp only [Option.some.injEq] at h
      rw [← h]
      exact Int.tdiv_eq_ediv_of_nonneg (Int.mul_nonneg ha hb)
    · cases h
  · cases h

theorem proportion_nonneg (t : Tip) : 0 ≤ t.proportion := by
  cases t <;> simp [Tip.proportion] <;> omega

/-- effective price = price + floor(price × tip) -/
theorem eff_decomp {p q : Int} : (p * (ONE + q)) / ONE = p + (p * q) / ONE := by
  rw [show p * (ONE + q) = p * q + ONE * p by ring, Int.add_mul_ediv_left _ _ ONE_ne]; ring

/-- The side condition: `price × tip proportion` has at most 18 decimals. -/
def Exact (price : Int) (t : Tip) : Prop := ONE ∣ price * t.proportion

/-- what the reserve charges for `u` units at the effective price vs. what `finalize` reports:
always `charged ≤ reported` … -/
theorem charged_le_reported (p q : Int) (u : Nat) (hp : 0 ≤ p) (hq : 0 ≤ q) :
    (p + (p * q) / ONE) * u ≤ p * u + (p * u * q) / ONE := by
  have h1 : (p * q) / ONE * u ≤ (p * u * q) / ONE := by
    apply Int.le_ediv_of_mul_le ONE_pos
    have := Int.ediv_mul_le (p * q) ONE_ne
    have hu : (0 : Int) ≤ u := Int.natCast_nonneg u
    calc (p * q) / ONE * u * ONE = ((p * q) / ONE * ONE) * u := by ring
      _ ≤ (p * q) * u := Int.mul_le_mul_of_nonneg_right this hu
      _ = p * u * q := by ring
  linarith [h1, show (p + (p * q) / ONE) * u = p * u + (p * q) / ONE * u by ring]

/-- … with equality under the side condition. -/
theorem charged_eq_reported (p q : Int) (u : Nat) (h : ONE ∣ p * q) :
    (p + (p * q) / ONE) * u = p * u + (p * u * q) / ONE := by
  obtain ⟨k, hk⟩ := h
  have e1 : (p * q) / ONE = k := by rw [hk]; exact Int.mul_ediv_cancel_left _ ONE_ne
  have e2 : (p * u * q) / ONE = k * u := by
    rw [show p * u * q = ONE * (k * u) by rw [show p * (u : Int) * q = (p * q) * u by ring, hk]; ring]
    exact Int.mul_ediv_cancel_left _ ONE_ne
  rw [e1, e2]; ring

/-- lifting lemma: a price that is a multiple of 10^4 attos is exact for *every* tip -/
theorem exact_of_multiple (price : Int) (h : (10000 : Int) ∣ price) (t : Tip) : Exact price t := by
  obtain ⟨k, rfl⟩ := h
  unfold Exact
  cases t with
  | none => simp [Tip.proportion]
  | pct p => exact ⟨k * p * 100, by simp only [Tip.proportion, ONE]; ring⟩
  | bp b => exact ⟨k * b, by simp only [Tip.proportion, ONE]; ring⟩

end Radix.Fee
