/-
C06 — helper lemmas: exactness of the `Decimal` products used by the fee reserve.
-/
import RadixModel.Model.FeeReserve
import Mathlib.Tactic.Linarith
import Mathlib.Tactic.Ring

namespace Radix.Fee

theorem ONE_pos : (0 : Int) < ONE := by decide
theorem ONE_ne : ONE ≠ 0 := by decide

theorem dadd_some {a b x : Int} (h : dadd a b = some x) : x = a + b := by
  unfold dadd at h; split at h <;> simp_all
theorem dsub_some {a b x : Int} (h : dsub a b = some x) : x = a - b := by
  unfold dsub at h; split at h <;> simp_all

/-- multiplying a `Decimal` by an integer is exact -/
theorem dmulNat_some {a : Int} {n : Nat} {x : Int} (h : dmulNat a n = some x) : x = a * n := by
  unfold dmulNat dmul at h
  split at h
  · simp only at h
    split at h
    · simp only [Option.some.injEq] at h
      rw [← h, show a * ((n : Int) * ONE) = (a * n) * ONE by ring]
      exact Int.mul_tdiv_cancel _ ONE_ne
    · cases h
  · cases h

/-- `Decimal` product of non-negative values = floor of the exact product -/
theorem dmul_some_nonneg {a b x : Int} (ha : 0 ≤ a) (hb : 0 ≤ b) (h : dmul a b = some x) : x = (a * b) / ONE := by
  unfold dmul at h
  split at h
  · simp only at h
    split at h
    · simp only [Option.some.injEq] at h
      rw [← h]
      exact Int.tdiv_eq_ediv_of_nonneg (Int.mul_nonneg ha hb)
    · cases h
  · cases h

theorem proportion_nonneg (t : Tip) : 0 ≤ t.proportion := by
  cases t <;> simp [Tip.proportion] <;> omega

/-- effective price = price + floor(price × tip) -/
theorem eff_decomp {p q : Int} : (p * (ONE + q)) / ONE = p + (p * q) / ONE := by
  rw [show p * (ONE + q) = p * q + ONE * p by ring, Int.add_mul_ediv_left _ _ ONE_ne]; ring

/-- The side condition: `price × tip proportion` has at most 18 decimals. -/
def Exact (price : Int) (t : Tip) : Prop := ONE ∣ price * t.proportion

/-- what the reserve charges for `u` units at the effective price vs. what `finalize` reports:
always `charged ≤ reported` … -/
theorem charged_le_reported (p q : Int) (u : Nat) (hp : 0 ≤ p) (hq : 0 ≤ q) :
    (p + (p * q) / ONE) * u ≤ p * u + (p * u * q) / ONE := by
  have h1 : (p * q) / ONE * u ≤ (p * u * q) / ONE := by
    apply Int.le_ediv_of_mul_le ONE_pos
    have := Int.ediv_mul_le (p * q) ONE_ne
    have hu : (0 : Int) ≤ u := Int.natCast_nonneg u
    calc (p * q) / ONE * u * ONE = ((p * q) / ONE * ONE) * u := by ring
      _ ≤ (p * q) * u := Int.mul_le_mul_of_nonneg_right this hu
      _ = p * u * q := by ring
  linarith [h1, show (p + (p * q) / ONE) * u = p * u + (p * q) / ONE * u by ring]

/-- … with equality under the side condition. -/
theorem charged_eq_reported (p q : Int) (u : Nat) (h : ONE ∣ p * q) :
    (p + (p * q) / ONE) * u = p * u + (p * u * q) / ONE := by
  obtain ⟨k, hk⟩ := h
  have e1 : (p * q) / ONE = k := by rw [hk]; exact Int.mul_ediv_cancel_left _ ONE_ne
  have e2 : (p * u * q) / ONE = k * u := by
    rw [show p * u * q = ONE * (k * u) by rw [show p * (u : Int) * q = (p * q) * u by ring, hk]; ring]
    exact Int.mul_ediv_cancel_left _ ONE_ne
  rw [e1, e2]; ring

/-- lifting lemma: a price that is a multiple of 10^4 attos is exact for *every* tip -/
theorem exact_of_multiple (price : Int) (h : (10000 : Int) ∣ price) (t : Tip) : Exact price t := by
  obtain ⟨k, rfl⟩ := h
  unfold Exact
  cases t with
  | none => simp [Tip.proportion]
  | pct p => exact ⟨k * p * 100, by simp only [Tip.proportion, ONE]; ring⟩
  | bp b => exact ⟨k * b, by simp only [Tip.proportion, ONE]; ring⟩

/-! ## the accounting invariant of the reserve and its preservation by every method -/

def ncLocked : List (Nat × Int × Bool) → Int
  | [] => 0
  | l :: ls => (if l.2.2 then 0 else l.2.1) + ncLocked ls

def sumBreakdown : List (Nat × Int) → Int
  | [] => 0
  | e :: es => e.2 + sumBreakdown es

def Reserve.spent (r : Reserve) : Int :=
  r.effExec * r.execCommitted + r.effFin * r.finCommitted + r.storageCommitted + r.royaltyCommitted

structure Inv (r : Reserve) : Prop where
  prices : 0 ≤ r.cp.execPrice ∧ 0 ≤ r.cp.finPrice ∧ 0 ≤ r.cp.usdPrice ∧ 0 ≤ r.cp.statePrice ∧ 0 ≤ r.cp.archivePrice ∧ 0 ≤ r.freeCredit
  eff : r.effExec = r.cp.execPrice + (r.cp.execPrice * r.tip.proportion) / ONE ∧
        r.effFin = r.cp.finPrice + (r.cp.finPrice * r.tip.proportion) / ONE
  limits : r.execCommitted ≤ r.cp.execLimit ∧ r.finCommitted ≤ r.cp.finLimit
  bal : 0 ≤ r.balance
  owed : 0 ≤ r.owed
  acct : r.balance - r.owed = r.freeCredit + ncLocked r.locked - r.spent
  roy : r.royaltyCommitted = sumBreakdown r.royaltyBreakdown ∧ 0 ≤ r.royaltyCommitted
  sto : 0 ≤ r.storageCommitted
  locks : ∀ l ∈ r.locked, 0 ≤ l.2.1

theorem checkLimit_none {c cu l : Nat} (h : checkLimit c cu l = none) : c + cu ≤ l := by
  unfold checkLimit at h
  split at h
  · cases h
  · split at h
    · cases h
    · omega

theorem inv_consumeExecInternal (r : Reserve) (cu : Nat) (h : Inv r) :
    Inv (consumeExecInternal r cu).1 := by
  unfold consumeExecInternal
  split
  · exact h
  · rename_i hl
    have hl := checkLimit_none hl
    split
    · exact h
    · rename_i amount ha
      have ha := dmulNat_some ha
      split
      · exact h
      · rename_i hlt
        split
        · exact h
        · rename_i b hb
          have hb := dsub_some hb
          obtain ⟨h1, h2, h3, h4, h5, h6, h7, h8, h9⟩ := h
          refine ⟨h1, h2, ?_, ?_, h5, ?_, h7, h8, h9⟩
          · exact ⟨hl, h3.2⟩
          · simp only; omega
          · simp only [Reserve.spent] at h6 ⊢
            push_cast
            rw [hb, ha]
            linarith

theorem inv_consumeFinInternal (r : Reserve) (cu : Nat) (h : Inv r) :
    Inv (consumeFinInternal r cu).1 := by
  unfold consumeFinInternal
  split
  · exact h
  · rename_i hl
    have hl := checkLimit_none hl
    split
    · exact h
    · rename_i amount ha
      have ha := dmulNat_some ha
      split
      · exact h
      · rename_i hlt
        split
        · exact h
        · rename_i b hb
          have hb := dsub_some hb
          obtain ⟨h1, h2, h3, h4, h5, h6, h7, h8, h9⟩ := h
          refine ⟨h1, h2, ?_, ?_, h5, ?_, h7, h8, h9⟩
          · exact ⟨h3.1, hl⟩
          · simp only; omega
          · simp only [Reserve.spent] at h6 ⊢
            push_cast
            rw [hb, ha]
            linarith

theorem inv_consumeStorage' (r : Reserve) (t : Storage) (n : Nat) (h : Inv r) (r' : Reserve) (res : Res)
    (hf : consumeStorage r t n = (r', res)) (hp : res ≠ .panic) : Inv r' := by
  unfold consumeStorage at hf
  simp only at hf
  have hprice : 0 ≤ (match t with | .state => r.cp.statePrice | .archive => r.cp.archivePrice) := by
    cases t
    · exact h.prices.2.2.2.1
    · exact h.prices.2.2.2.2.1
  split at hf
  · cases hf; exact h
  · rename_i amount ha
    have ha := dmulNat_some ha
    have hamt : 0 ≤ amount := by rw [ha]; exact Int.mul_nonneg hprice (Int.natCast_nonneg n)
    split at hf
    · cases hf; exact h
    · rename_i hlt
      split at hf
      · cases hf; exact h
      · rename_i b hb
        have hb := dsub_some hb
        split at hf
        · cases hf; exact absurd rfl hp
        · rename_i sc hsc
          have hsc := dadd_some hsc
          cases hf
          obtain ⟨h1, h2, h3, h4, h5, h6, h7, h8, h9⟩ := h
          refine ⟨h1, h2, h3, ?_, h5, ?_, h7, ?_, h9⟩
          · simp only; omega
          · simp only [Reserve.spent] at h6 ⊢
            rw [hb, hsc]
            linarith
          · simp only; omega

theorem inv_consumeStorage (r : Reserve) (t : Storage) (n : Nat) (h : Inv r)
    (hp : (consumeStorage r t n).2 ≠ .panic) : Inv (consumeStorage r t n).1 :=
  inv_consumeStorage' r t n h _ _ rfl hp

theorem inv_setDeferred (r : Reserve) (h : Inv r) (a b : Nat) (sd : List (Storage × Nat)) :
    Inv { r with execDeferred := a, finDeferred := b, storageDeferred := sd } :=
  ⟨h.1, h.2, h.3, h.4, h.5, h.6, h.7, h.8, h.9⟩

theorem inv_consumeExecInternal' (r : Reserve) (cu : Nat) (h : Inv r) (r' : Reserve) (res : Res)
    (hf : consumeExecInternal r cu = (r', res)) : Inv r' := by
  have := inv_consumeExecInternal r cu h; rw [hf] at this; exact this

theorem inv_consumeFinInternal' (r : Reserve) (cu : Nat) (h : Inv r) (r' : Reserve) (res : Res)
    (hf : consumeFinInternal r cu = (r', res)) : Inv r' := by
  have := inv_consumeFinInternal r cu h; rw [hf] at this; exact this

theorem inv_repayStorage' (ts : List Storage) : ∀ (r : Reserve), Inv r → ∀ (r' : Reserve) (res : Res),
    repayStorage r ts = (r', res) → res ≠ .panic → Inv r' := by
  induction ts with
  | nil => intro r h r' res hf _; unfold repayStorage at hf; cases hf; exact h
  | cons t ts ih =>
    intro r h r' res hf hp
    unfold repayStorage at hf
    split at hf
    · cases hf; exact h
    · rename_i size hs
      split at hf
      · rename_i r1 hc
        have i1 := inv_consumeStorage' r t size h r1 .ok hc (by simp)
        exact ih _ (inv_setDeferred r1 i1 r1.execDeferred r1.finDeferred _) r' res hf hp
      · rename_i r1 res1 hne hc
        cases hf
        exact inv_consumeStorage' r t size h _ _ hc hp

theorem inv_repayAll' (r : Reserve) (h : Inv r) (r' : Reserve) (res : Res)
    (hf : repayAll r = (r', res)) (hp : res ≠ .panic) : Inv r' := by
  unfold repayAll at hf
  split at hf
  · rename_i r1 hc1
    have i1 : Inv r1 := by have := inv_consumeExecInternal r r.execDeferred h; rw [hc1] at this; exact this
    have i1' := inv_setDeferred r1 i1 0 r1.finDeferred r1.storageDeferred
    simp only at hf
    split at hf
    · rename_i r2 hc2
      have i2 : Inv r2 := inv_consumeFinInternal' _ _ i1' _ _ hc2
      have i2' := inv_setDeferred r2 i2 r2.execDeferred 0 r2.storageDeferred
      split at hf
      · rename_i r3 hc3
        have i3 : Inv r3 := inv_repayStorage' _ _ i2' _ _ hc3 (by simp)
        split at hf
        · rename_i o b ho hb
          have ho := dsub_some ho
          have hb := dsub_some hb
          obtain ⟨h1, h2, h3, h4, h5, h6, h7, h8, h9⟩ := i3
          have inv4 : Inv { r3 with owed := o, balance := b } := by
            refine ⟨h1, h2, h3, ?_, ?_, ?_, h7, h8, h9⟩
            · simp only; omega
            · simp only; omega
            · simp only [Reserve.spent] at h6 ⊢
              omega
          split at hf
          · cases hf; exact inv4
          · split at hf
            · cases hf; exact inv4
            · cases hf; exact inv4
        · cases hf; exact absurd rfl hp
        · cases hf; exact absurd rfl hp
      · rename_i r3 res3 hne hc3
        cases hf
        exact inv_repayStorage' _ _ i2' _ _ hc3 hp
    · rename_i r2 res2 hne hc2
      cases hf
      exact inv_consumeFinInternal' _ _ i1' _ _ hc2
  · rename_i r1 res1 hne hc1
    cases hf
    have := inv_consumeExecInternal r r.execDeferred h; rw [hc1] at this; exact this

theorem inv_repayAll (r : Reserve) (h : Inv r) (hp : (repayAll r).2 ≠ .panic) : Inv (repayAll r).1 :=
  inv_repayAll' r h _ _ rfl hp

theorem inv_consumeExecution' (r : Reserve) (cu : Nat) (h : Inv r) (r' : Reserve) (res : Res)
    (hf : consumeExecution r cu = (r', res)) (hp : res ≠ .panic) : Inv r' := by
  unfold consumeExecution at hf
  split at hf
  · cases hf; exact h
  · split at hf
    · rename_i r1 hc1
      have i1 : Inv r1 := by have := inv_consumeExecInternal r cu h; rw [hc1] at this; exact this
      split at hf
      · exact inv_repayAll' r1 i1 r' res hf hp
      · cases hf; exact i1
    · rename_i r1 res1 hne hc1
      cases hf
      have := inv_consumeExecInternal r cu h; rw [hc1] at this; exact this

theorem inv_consumeExecution (r : Reserve) (cu : Nat) (h : Inv r) (hp : (consumeExecution r cu).2 ≠ .panic) :
    Inv (consumeExecution r cu).1 :=
  inv_consumeExecution' r cu h _ _ rfl hp

theorem inv_consumeFinalization (r : Reserve) (cu : Nat) (h : Inv r) : Inv (consumeFinalization r cu).1 := by
  unfold consumeFinalization
  split
  · exact h
  · exact inv_consumeFinInternal r cu h

theorem sum_bumpEntry (l : List (Nat × Int)) (k : Nat) (v : Int) (l' : List (Nat × Int))
    (h : bumpEntry l k v = some l') : sumBreakdown l' = sumBreakdown l + v := by
  induction l generalizing l' with
  | nil =>
    simp only [bumpEntry] at h
    split at h
    · rename_i s hs; have := dadd_some hs; simp at h; subst h; simp [sumBreakdown, this]
    · cases h
  | cons e l ih =>
    obtain ⟨k', x⟩ := e
    simp only [bumpEntry] at h
    split at h
    · split at h
      · rename_i s hs; have := dadd_some hs; simp at h; subst h; simp [sumBreakdown, this]; ring
      · cases h
    · split at h
      · rename_i rest' hr; simp at h; subst h; simp [sumBreakdown, ih rest' hr]; ring
      · cases h

theorem inv_consumeRoyalty' (r : Reserve) (ra : Royalty) (rcp : Nat) (h : Inv r) (r' : Reserve) (res : Res)
    (hf : consumeRoyalty r ra rcp = (r', res)) (hp : res ≠ .panic) : Inv r' := by
  unfold consumeRoyalty at hf
  split at hf
  · cases hf; exact h
  · rename_i hz
    split at hf
    · cases hf; exact h
    · rename_i hneg
      simp only at hf
      split at hf
      · cases hf; exact h
      · rename_i amount hamt
        have hnn : 0 ≤ amount := by
          cases ra with
          | free => simp at hamt; omega
          | xrd a => simp at hamt; simp [Royalty.isNegative] at hneg; omega
          | usd a =>
            simp at hamt
            simp [Royalty.isNegative] at hneg
            have := dmul_some_nonneg hneg h.prices.2.2.1 hamt
            rw [this]
            exact Int.ediv_nonneg (Int.mul_nonneg hneg h.prices.2.2.1) (le_of_lt ONE_pos)
        split at hf
        · cases hf; exact h
        · split at hf
          · cases hf; exact h
          · rename_i b hb
            have hb := dsub_some hb
            split at hf
            · cases hf; exact absurd rfl hp
            · rename_i bd hbd
              have hsum := sum_bumpEntry _ _ _ _ hbd
              split at hf
              · cases hf; exact absurd rfl hp
              · rename_i rc hrc
                have hrc := dadd_some hrc
                cases hf
                obtain ⟨h1, h2, h3, h4, h5, h6, h7, h8, h9⟩ := h
                refine ⟨h1, h2, h3, ?_, h5, ?_, ?_, h8, h9⟩
                · simp only; omega
                · simp only [Reserve.spent] at h6 ⊢
                  rw [hb, hrc]; linarith
                · simp only; rw [hsum, hrc]; exact ⟨by linarith [h7.1], by linarith [h7.2]⟩

theorem inv_consumeRoyalty (r : Reserve) (ra : Royalty) (rcp : Nat) (h : Inv r)
    (hp : (consumeRoyalty r ra rcp).2 ≠ .panic) : Inv (consumeRoyalty r ra rcp).1 :=
  inv_consumeRoyalty' r ra rcp h _ _ rfl hp

theorem ncLocked_append (l : List (Nat × Int × Bool)) (e : Nat × Int × Bool) :
    ncLocked (l ++ [e]) = ncLocked l + (if e.2.2 then 0 else e.2.1) := by
  induction l with
  | nil => simp [ncLocked]
  | cons x xs ih => simp [ncLocked, ih]; ring

theorem inv_lockFee (r : Reserve) (v : Nat) (a : Int) (c : Bool) (ha : 0 ≤ a) (h : Inv r) :
    Inv (lockFee r v a c).1 := by
  unfold lockFee
  obtain ⟨h1, h2, h3, h4, h5, h6, h7, h8, h9⟩ := h
  have hl : ∀ l ∈ r.locked ++ [(v, a, c)], 0 ≤ l.2.1 := by
    intro l hl
    rcases List.mem_append.mp hl with hl | hl
    · exact h9 l hl
    · simp at hl; subst hl; exact ha
  split
  · rename_i hc
    refine ⟨h1, h2, h3, h4, h5, ?_, h7, h8, hl⟩
    simp only [Reserve.spent] at h6 ⊢
    rw [ncLocked_append]; simp [hc]; linarith
  · rename_i hc
    split
    · exact ⟨h1, h2, h3, h4, h5, h6, h7, h8, h9⟩
    · rename_i b hb
      have hb := dadd_some hb
      refine ⟨h1, h2, h3, ?_, h5, ?_, h7, h8, hl⟩
      · simp only; omega
      · simp only [Reserve.spent] at h6 ⊢
        rw [ncLocked_append]; simp [hc]; rw [hb]; linarith

theorem inv_revertRoyalty (r : Reserve) (h : Inv r) : Inv (revertRoyalty r).1 := by
  unfold revertRoyalty
  split
  · exact h
  · rename_i b hb
    have hb := dadd_some hb
    obtain ⟨h1, h2, h3, h4, h5, h6, h7, h8, h9⟩ := h
    refine ⟨h1, h2, h3, ?_, h5, ?_, ?_, h8, h9⟩
    · simp only; omega
    · simp only [Reserve.spent] at h6 ⊢
      rw [hb]; linarith
    · simp [sumBreakdown]

theorem inv_deferExecution (r : Reserve) (cu : Nat) (h : Inv r) : Inv (deferExecution r cu).1 := by
  unfold deferExecution
  split
  · exact h
  · exact inv_setDeferred r h _ r.finDeferred r.storageDeferred

theorem inv_deferFinalization (r : Reserve) (cu : Nat) (h : Inv r) : Inv (deferFinalization r cu).1 := by
  unfold deferFinalization
  split
  · exact h
  · exact inv_setDeferred r h r.execDeferred _ r.storageDeferred

theorem inv_deferStorage (r : Reserve) (t : Storage) (n : Nat) (h : Inv r) : Inv (deferStorage r t n).1 := by
  unfold deferStorage
  split
  · exact h
  · exact inv_setDeferred r h r.execDeferred r.finDeferred _

theorem inv_new (cp : Costing) (tip : Tip) (free : Int) (ab : Bool) (r : Reserve)
    (h : Reserve.new cp tip free ab = some r) : Inv r ∧ r.cp = cp ∧ r.tip = tip ∧ r.freeCredit = free := by
  unfold Reserve.new at h
  split at h
  · cases h
  · rename_i hneg
    simp only [not_or, not_lt] at hneg
    split at h
    · cases h
    · rename_i effExec he
      split at h
      · cases h
      · rename_i effFin hf
        split at h
        · cases h
        · rename_i loan hl
          split at h
          · cases h
          · rename_i start hs
            simp only [Option.some.injEq] at h
            subst h
            have hq := proportion_nonneg tip
            have hm : 0 ≤ tip.multiplier := by unfold Tip.multiplier; have := ONE_pos; omega
            have he := dmul_some_nonneg hneg.1 hm he
            have hf := dmul_some_nonneg hneg.2.1 hm hf
            unfold Tip.multiplier at he hf
            rw [eff_decomp] at he hf
            have hl := dmulNat_some hl
            have hs := dadd_some hs
            have heff : 0 ≤ effExec := by
              rw [he]; have := Int.ediv_nonneg (Int.mul_nonneg hneg.1 hq) (le_of_lt ONE_pos); omega
            refine ⟨⟨⟨hneg.1, hneg.2.1, hneg.2.2.1, hneg.2.2.2.1, hneg.2.2.2.2.1, hneg.2.2.2.2.2⟩, ⟨he, hf⟩,
              ⟨Nat.zero_le _, Nat.zero_le _⟩, ?_, ?_, ?_, ⟨rfl, le_refl _⟩, le_refl _, ?_⟩, rfl, rfl, rfl⟩
            · simp only; rw [hs, hl]; have := Int.mul_nonneg heff (Int.natCast_nonneg cp.execLoan); omega
            · simp only; rw [hl]; exact Int.mul_nonneg heff (Int.natCast_nonneg cp.execLoan)
            · simp [Reserve.spent, ncLocked]; rw [hs]; ring
            · intro l hl; simp at hl

end Radix.Fee
