/-
C20/C21 — the three SBOR flavours (basic, Scrypto, manifest) satisfy the laws (`Flavour.Lawful`)
that the generic round-trip theorems need: custom value kinds and custom value bodies.
-/
import RadixModel.Lemmas.Sbor

set_option linter.unusedSimpArgs false
set_option linter.unusedVariables false

namespace Radix.Sbor
open Radix.Generated

/-! ### big-endian u64 -/

theorem beVal_beBytes (k n : Nat) : beVal (beBytes k n) = n % 256 ^ k := by
  simp [beVal, beBytes, leVal_leBytes]

theorem beBytes_beVal (bs : Bytes) : beBytes bs.length (beVal bs) = bs := by
  have := leBytes_leVal bs.reverse
  simp only [List.length_reverse] at this
  simp [beVal, beBytes, this]

theorem beBytes_length (k n : Nat) : (beBytes k n).length = k := by
  simp [beBytes, leBytes_length]

/-! ### non-fungible local ids -/

/-- Content validity of a non-fungible local id (what the private constructors enforce). -/
def NFId.WF (utf8 : Bytes → Bool) (maxLen : Nat) : NFId → Prop
  | .string s => utf8 s = true ∧ nfStringOk maxLen s = true
  | .integer _ => True
  | .bytes b => nfBytesOk maxLen b = true
  | .ruid b => b.length = 32

theorem decNFId_enc (utf8 : Bytes → Bool) (maxLen : Nat) (id : NFId) (enc rest : Bytes)
    (hw : id.WF utf8 maxLen) (h : encNFId id = .ok enc) :
    decNFId utf8 maxLen (enc ++ rest) = .ok (id, rest) := by
  cases id with
  | string s =>
    simp only [encNFId] at h
    split at h
    · simp at h
    · rename_i sz hsz
      simp at h; subst h
      obtain ⟨hmax, rfl⟩ := (writeSize_ok_iff _ _).1 hsz
      obtain ⟨hu, hv⟩ := hw
      simp only [decNFId, List.cons_append, List.append_assoc, readByte, readSize_sizeBytes _ _ hmax,
        readSlice_append _ _ _ rfl]
      simp [hu, hv]
  | integer v =>
    simp only [encNFId] at h
    simp at h; subst h
    simp only [decNFId, List.cons_append, readByte, readSlice_append _ _ _ (beBytes_length 8 _)]
    have : v.toNat % 256 ^ 8 = v.toNat := Nat.mod_eq_of_lt (by have := v.isLt; omega)
    simp [beVal_beBytes, this]
  | bytes b =>
    simp only [encNFId] at h
    split at h
    · simp at h
    · rename_i sz hsz
      simp at h; subst h
      obtain ⟨hmax, rfl⟩ := (writeSize_ok_iff _ _).1 hsz
      simp only [NFId.WF] at hw
      simp only [decNFId, List.cons_append, List.append_assoc, readByte, readSize_sizeBytes _ _ hmax,
        readSlice_append _ _ _ rfl]
      simp [hw]
  | ruid b =>
    simp only [encNFId] at h
    simp at h; subst h
    simp only [NFId.WF] at hw
    simp only [decNFId, List.cons_append, readByte, readSlice_append _ _ _ hw]
    simp

theorem decNFId_ok (utf8 : Bytes → Bool) (maxLen : Nat) (bs : Bytes) (id : NFId) (rest : Bytes)
    (h : decNFId utf8 maxLen bs = .ok (id, rest)) :
    id.WF utf8 maxLen ∧ ∃ enc, encNFId id = .ok enc ∧ bs = enc ++ rest := by
  unfold decNFId at h
  cases bs with
  | nil => simp [readByte] at h
  | cons d t =>
    simp only [readByte] at h
    by_cases d0 : d = 0
    · subst d0
      simp only [if_true] at h
      split at h
      · simp at h
      · rename_i len bs1 h1
        split at h
        · simp at h
        · rename_i sl bs2 h2
          by_cases hu : utf8 sl = true
          · by_cases hv : nfStringOk maxLen sl = true
            · simp [hu, hv] at h
              obtain ⟨rfl, rfl⟩ := h
              obtain ⟨hmax, rfl⟩ := readSize_canonical _ _ _ h1
              obtain ⟨rfl, hl⟩ := readSlice_ok _ _ _ _ h2
              subst hl
              refine ⟨⟨hu, hv⟩, 0 :: (sizeBytes sl.length ++ sl), ?_, by simp⟩
              simp [encNFId, writeSize_ok _ hmax]
            · simp [hu, hv] at h
          · simp [hu] at h
    · by_cases d1 : d = 1
      · subst d1
        simp only [d0, if_false, if_true] at h
        split at h
        · simp at h
        · rename_i sl bs1 h1
          simp at h
          obtain ⟨rfl, rfl⟩ := h
          obtain ⟨rfl, hl⟩ := readSlice_ok _ _ _ _ h1
          refine ⟨trivial, 1 :: sl, ?_, by simp⟩
          have hlt : beVal sl < 2 ^ 64 := by
            have := leVal_lt sl.reverse
            simp only [List.length_reverse, hl] at this
            simpa [beVal] using this
          simp [encNFId, BitVec.toNat_ofNat, Nat.mod_eq_of_lt hlt, ← hl, beBytes_beVal]
      · by_cases d2 : d = 2
        · subst d2
          simp only [d0, d1, if_false, if_true] at h
          split at h
          · simp at h
          · rename_i len bs1 h1
            split at h
            · simp at h
            · rename_i sl bs2 h2
              by_cases hv : nfBytesOk maxLen sl = true
              · simp [hv] at h
                obtain ⟨rfl, rfl⟩ := h
                obtain ⟨hmax, rfl⟩ := readSize_canonical _ _ _ h1
                obtain ⟨rfl, hl⟩ := readSlice_ok _ _ _ _ h2
                subst hl
                refine ⟨hv, 2 :: (sizeBytes sl.length ++ sl), ?_, by simp⟩
                simp [encNFId, writeSize_ok _ hmax]
              · simp [hv] at h
        · by_cases d3 : d = 3
          · subst d3
            simp only [d0, d1, d2, if_false, if_true] at h
            split at h
            · simp at h
            · rename_i sl bs1 h1
              simp at h
              obtain ⟨rfl, rfl⟩ := h
              obtain ⟨rfl, hl⟩ := readSlice_ok _ _ _ _ h1
              exact ⟨hl, 3 :: sl, by simp [encNFId], by simp⟩
          · simp [d0, d1, d2, d3] at h
/-! ### basic -/

theorem basic_lawful : basic.Lawful (fun _ => True) where
  kinds := { of_to := fun x => x.elim, to_of := fun _ x => x.elim, ge_start := fun x => x.elim }
  dec_enc := fun c => c.elim
  enc_dec := fun x => x.elim

/-! ### Scrypto -/

theorem ofNat_of_toNat (b : UInt8) (c : Nat) (h : b.toNat = c) : UInt8.ofNat c = b := by
  rw [← h, UInt8.ofNat_toNat]

theorem scryptoKinds_lawful : scryptoKinds.Lawful where
  of_to := by intro x; cases x <;> rfl
  to_of := by
    intro b x h
    simp only [scryptoKinds] at h ⊢
    by_cases c0 : b.toNat = Sbor.SCRYPTO_KIND_REFERENCE
    · rw [if_pos c0] at h; simp at h; subst h; exact ofNat_of_toNat _ _ c0
    rw [if_neg c0] at h
    by_cases c1 : b.toNat = Sbor.SCRYPTO_KIND_OWN
    · rw [if_pos c1] at h; simp at h; subst h; exact ofNat_of_toNat _ _ c1
    rw [if_neg c1] at h
    by_cases c2 : b.toNat = Sbor.SCRYPTO_KIND_DECIMAL
    · rw [if_pos c2] at h; simp at h; subst h; exact ofNat_of_toNat _ _ c2
    rw [if_neg c2] at h
    by_cases c3 : b.toNat = Sbor.SCRYPTO_KIND_PRECISE_DECIMAL
    · rw [if_pos c3] at h; simp at h; subst h; exact ofNat_of_toNat _ _ c3
    rw [if_neg c3] at h
    by_cases c4 : b.toNat = Sbor.SCRYPTO_KIND_NON_FUNGIBLE_LOCAL_ID
    · rw [if_pos c4] at h; simp at h; subst h; exact ofNat_of_toNat _ _ c4
    rw [if_neg c4] at h
    simp at h
  ge_start := by intro x; cases x <;> decide

/-- Content validity of Scrypto custom values (array lengths of the Rust types, validated ids). -/
def ScryptoCustom.WF : ScryptoCustom → Prop
  | .reference n => n.length = Sbor.NODE_ID_LENGTH
  | .own n => n.length = Sbor.NODE_ID_LENGTH
  | .decimal b => b.length = Sbor.DECIMAL_SIZE
  | .preciseDecimal b => b.length = Sbor.PRECISE_DECIMAL_SIZE
  | .nonFungibleLocalId id => id.WF utf8Valid Sbor.NON_FUNGIBLE_LOCAL_ID_MAX_LENGTH

theorem scrypto_lawful : scrypto.Lawful ScryptoCustom.WF where
  kinds := scryptoKinds_lawful
  dec_enc := by
    intro c enc rest hw h
    cases c with
    | reference n =>
      simp [scrypto, encScryptoCustom] at h; subst h
      simp [scrypto, ScryptoCustom.kind, decScryptoCustom, decFixed, readSlice_append _ _ _ hw]
    | own n =>
      simp [scrypto, encScryptoCustom] at h; subst h
      simp [scrypto, ScryptoCustom.kind, decScryptoCustom, decFixed, readSlice_append _ _ _ hw]
    | decimal n =>
      simp [scrypto, encScryptoCustom] at h; subst h
      simp [scrypto, ScryptoCustom.kind, decScryptoCustom, decFixed, readSlice_append _ _ _ hw]
    | preciseDecimal n =>
      simp [scrypto, encScryptoCustom] at h; subst h
      simp [scrypto, ScryptoCustom.kind, decScryptoCustom, decFixed, readSlice_append _ _ _ hw]
    | nonFungibleLocalId id =>
      simp only [scrypto, encScryptoCustom] at h
      simp [scrypto, ScryptoCustom.kind, decScryptoCustom, decNFId_enc _ _ id enc rest hw h]
  enc_dec := by
    intro x bs c rest h
    cases x with
    | reference =>
      simp only [scrypto, decScryptoCustom, decFixed] at h
      split at h
      · simp at h
      · rename_i b r hb
        simp at h; obtain ⟨rfl, rfl⟩ := h
        obtain ⟨rfl, hl⟩ := readSlice_ok _ _ _ _ hb
        exact ⟨hl, rfl, b, rfl, rfl⟩
    | own =>
      simp only [scrypto, decScryptoCustom, decFixed] at h
      split at h
      · simp at h
      · rename_i b r hb
        simp at h; obtain ⟨rfl, rfl⟩ := h
        obtain ⟨rfl, hl⟩ := readSlice_ok _ _ _ _ hb
        exact ⟨hl, rfl, b, rfl, rfl⟩
    | decimal =>
      simp only [scrypto, decScryptoCustom, decFixed] at h
      split at h
      · simp at h
      · rename_i b r hb
        simp at h; obtain ⟨rfl, rfl⟩ := h
        obtain ⟨rfl, hl⟩ := readSlice_ok _ _ _ _ hb
        exact ⟨hl, rfl, b, rfl, rfl⟩
    | preciseDecimal =>
      simp only [scrypto, decScryptoCustom, decFixed] at h
      split at h
      · simp at h
      · rename_i b r hb
        simp at h; obtain ⟨rfl, rfl⟩ := h
        obtain ⟨rfl, hl⟩ := readSlice_ok _ _ _ _ hb
        exact ⟨hl, rfl, b, rfl, rfl⟩
    | nonFungibleLocalId =>
      simp only [scrypto, decScryptoCustom] at h
      split at h
      · simp at h
      · rename_i id r hb
        simp at h; obtain ⟨rfl, rfl⟩ := h
        obtain ⟨hw, enc, henc, rfl⟩ := decNFId_ok _ _ _ _ _ hb
        exact ⟨hw, rfl, enc, henc, rfl⟩
/-! ### manifest -/

theorem manifestKinds_lawful : manifestKinds.Lawful where
  of_to := by intro x; cases x <;> rfl
  to_of := by
    intro b x h
    simp only [manifestKinds] at h ⊢
    by_cases c0 : b.toNat = Sbor.MANIFEST_KIND_ADDRESS
    · rw [if_pos c0] at h; simp at h; subst h; exact ofNat_of_toNat _ _ c0
    rw [if_neg c0] at h
    by_cases c1 : b.toNat = Sbor.MANIFEST_KIND_BUCKET
    · rw [if_pos c1] at h; simp at h; subst h; exact ofNat_of_toNat _ _ c1
    rw [if_neg c1] at h
    by_cases c2 : b.toNat = Sbor.MANIFEST_KIND_PROOF
    · rw [if_pos c2] at h; simp at h; subst h; exact ofNat_of_toNat _ _ c2
    rw [if_neg c2] at h
    by_cases c3 : b.toNat = Sbor.MANIFEST_KIND_EXPRESSION
    · rw [if_pos c3] at h; simp at h; subst h; exact ofNat_of_toNat _ _ c3
    rw [if_neg c3] at h
    by_cases c4 : b.toNat = Sbor.MANIFEST_KIND_BLOB
    · rw [if_pos c4] at h; simp at h; subst h; exact ofNat_of_toNat _ _ c4
    rw [if_neg c4] at h
    by_cases c5 : b.toNat = Sbor.MANIFEST_KIND_DECIMAL
    · rw [if_pos c5] at h; simp at h; subst h; exact ofNat_of_toNat _ _ c5
    rw [if_neg c5] at h
    by_cases c6 : b.toNat = Sbor.MANIFEST_KIND_PRECISE_DECIMAL
    · rw [if_pos c6] at h; simp at h; subst h; exact ofNat_of_toNat _ _ c6
    rw [if_neg c6] at h
    by_cases c7 : b.toNat = Sbor.MANIFEST_KIND_NON_FUNGIBLE_LOCAL_ID
    · rw [if_pos c7] at h; simp at h; subst h; exact ofNat_of_toNat _ _ c7
    rw [if_neg c7] at h
    by_cases c8 : b.toNat = Sbor.MANIFEST_KIND_ADDRESS_RESERVATION
    · rw [if_pos c8] at h; simp at h; subst h; exact ofNat_of_toNat _ _ c8
    rw [if_neg c8] at h
    simp at h
  ge_start := by intro x; cases x <;> decide

theorem decU32_enc (i : BitVec 32) (rest : Bytes) : decU32 (leBytes 4 i.toNat ++ rest) = .ok (i, rest) := by
  unfold decU32
  rw [readSlice_append _ _ _ (leBytes_length _ _)]
  have h : i.toNat % 256 ^ 4 = i.toNat := Nat.mod_eq_of_lt (by have := i.isLt; omega)
  simp [leVal_leBytes, h]

theorem decU32_ok (bs : Bytes) (i : BitVec 32) (rest : Bytes) (h : decU32 bs = .ok (i, rest)) :
    bs = leBytes 4 i.toNat ++ rest := by
  unfold decU32 at h
  split at h
  · simp at h
  · rename_i sl r hs
    simp at h
    obtain ⟨rfl, rfl⟩ := h
    obtain ⟨rfl, hl⟩ := readSlice_ok _ _ _ _ hs
    have hlt : leVal sl < 2 ^ 32 := by have := leVal_lt sl; rw [hl] at this; omega
    rw [BitVec.toNat_ofNat, Nat.mod_eq_of_lt hlt, ← hl, leBytes_leVal]

/-- Content validity of manifest custom values: array lengths of the Rust types, and the content
conditions that only the *decoder* enforces (entity type byte of a static address, id content). -/
def ManifestCustom.WF : ManifestCustom → Prop
  | .addressStatic n => n.length = Sbor.NODE_ID_LENGTH ∧ ∃ b0 t, n = b0 :: t ∧ isEntityType b0 = true
  | .blob h => h.length = 32
  | .decimal b => b.length = Sbor.DECIMAL_SIZE
  | .preciseDecimal b => b.length = Sbor.PRECISE_DECIMAL_SIZE
  | .nonFungibleLocalId id => id.WF utf8Valid Sbor.MANIFEST_NON_FUNGIBLE_LOCAL_ID_MAX_LENGTH
  | _ => True

theorem manifest_lawful : manifest.Lawful ManifestCustom.WF where
  kinds := manifestKinds_lawful
  dec_enc := by
    intro c enc rest hw h
    cases c with
    | addressStatic n =>
      simp [manifest, encManifestCustom] at h; subst h
      obtain ⟨hl, b0, t, rfl, he⟩ := hw
      simp only [manifest, ManifestCustom.kind, decManifestCustom, readByte, List.cons_append]
      have := readSlice_append _ (b0 :: t) rest hl
      simp only [List.cons_append] at this
      simp [this, he]
    | addressNamed i =>
      simp [manifest, encManifestCustom] at h; subst h
      simp [manifest, ManifestCustom.kind, decManifestCustom, readByte, decU32_enc]
    | bucket i =>
      simp [manifest, encManifestCustom] at h; subst h
      simp [manifest, ManifestCustom.kind, decManifestCustom, decU32_enc]
    | proof i =>
      simp [manifest, encManifestCustom] at h; subst h
      simp [manifest, ManifestCustom.kind, decManifestCustom, decU32_enc]
    | expression a =>
      simp [manifest, encManifestCustom] at h; subst h
      cases a <;> simp [manifest, ManifestCustom.kind, decManifestCustom, readSlice]
    | blob n =>
      simp [manifest, encManifestCustom] at h; subst h
      simp [manifest, ManifestCustom.kind, decManifestCustom, decFixed, readSlice_append _ _ _ hw]
    | decimal n =>
      simp [manifest, encManifestCustom] at h; subst h
      simp [manifest, ManifestCustom.kind, decManifestCustom, decFixed, readSlice_append _ _ _ hw]
    | preciseDecimal n =>
      simp [manifest, encManifestCustom] at h; subst h
      simp [manifest, ManifestCustom.kind, decManifestCustom, decFixed, readSlice_append _ _ _ hw]
    | nonFungibleLocalId id =>
      simp only [manifest, encManifestCustom] at h
      simp [manifest, ManifestCustom.kind, decManifestCustom, decNFId_enc _ _ id enc rest hw h]
    | addressReservation i =>
      simp [manifest, encManifestCustom] at h; subst h
      simp [manifest, ManifestCustom.kind, decManifestCustom, decU32_enc]
  enc_dec := by
    intro x bs c rest h
    cases x with
    | address =>
      simp only [manifest, decManifestCustom] at h
      cases bs with
      | nil => simp [readByte] at h
      | cons d t =>
        simp only [readByte] at h
        by_cases d0 : d = 0
        · subst d0
          simp only [if_true] at h
          split at h
          · simp at h
          · rename_i sl r hs
            obtain ⟨rfl, hl⟩ := readSlice_ok _ _ _ _ hs
            cases sl with
            | nil => simp at h
            | cons b0 t0 =>
              by_cases he : isEntityType b0 = true
              · simp [he] at h
                obtain ⟨rfl, rfl⟩ := h
                exact ⟨⟨hl, b0, t0, rfl, he⟩, rfl, _, rfl, by simp⟩
              · simp [he] at h
        · by_cases d1 : d = 1
          · subst d1
            simp only [d0, if_false, if_true] at h
            split at h
            · simp at h
            · rename_i i r hb
              simp at h; obtain ⟨rfl, rfl⟩ := h
              have := decU32_ok _ _ _ hb
              subst this
              exact ⟨trivial, rfl, _, rfl, by simp⟩
          · simp [d0, d1] at h
    | bucket =>
      simp only [manifest, decManifestCustom] at h
      split at h
      · simp at h
      · rename_i i r hb
        simp at h; obtain ⟨rfl, rfl⟩ := h
        have := decU32_ok _ _ _ hb
        subst this
        exact ⟨trivial, rfl, _, rfl, rfl⟩
    | proof =>
      simp only [manifest, decManifestCustom] at h
      split at h
      · simp at h
      · rename_i i r hb
        simp at h; obtain ⟨rfl, rfl⟩ := h
        have := decU32_ok _ _ _ hb
        subst this
        exact ⟨trivial, rfl, _, rfl, rfl⟩
    | expression =>
      simp only [manifest, decManifestCustom] at h
      split at h
      · simp at h
      · rename_i sl r hs
        obtain ⟨rfl, hl⟩ := readSlice_ok _ _ _ _ hs
        by_cases e0 : sl = [0]
        · subst e0
          simp at h; obtain ⟨rfl, rfl⟩ := h
          exact ⟨trivial, rfl, _, rfl, by simp⟩
        · by_cases e1 : sl = [1]
          · subst e1
            simp at h; obtain ⟨rfl, rfl⟩ := h
            exact ⟨trivial, rfl, _, rfl, by simp⟩
          · simp [e0, e1] at h
    | blob =>
      simp only [manifest, decManifestCustom, decFixed] at h
      split at h
      · simp at h
      · rename_i b r hb
        simp at h; obtain ⟨rfl, rfl⟩ := h
        obtain ⟨rfl, hl⟩ := readSlice_ok _ _ _ _ hb
        exact ⟨hl, rfl, b, rfl, rfl⟩
    | decimal =>
      simp only [manifest, decManifestCustom, decFixed] at h
      split at h
      · simp at h
      · rename_i b r hb
        simp at h; obtain ⟨rfl, rfl⟩ := h
        obtain ⟨rfl, hl⟩ := readSlice_ok _ _ _ _ hb
        exact ⟨hl, rfl, b, rfl, rfl⟩
    | preciseDecimal =>
      simp only [manifest, decManifestCustom, decFixed] at h
      split at h
      · simp at h
      · rename_i b r hb
        simp at h; obtain ⟨rfl, rfl⟩ := h
        obtain ⟨rfl, hl⟩ := readSlice_ok _ _ _ _ hb
        exact ⟨hl, rfl, b, rfl, rfl⟩
    | nonFungibleLocalId =>
      simp only [manifest, decManifestCustom] at h
      split at h
      · simp at h
      · rename_i id r hb
        simp at h; obtain ⟨rfl, rfl⟩ := h
        obtain ⟨hw, enc, henc, rfl⟩ := decNFId_ok _ _ _ _ _ hb
        exact ⟨hw, rfl, enc, henc, rfl⟩
    | addressReservation =>
      simp only [manifest, decManifestCustom] at h
      split at h
      · simp at h
      · rename_i i r hb
        simp at h; obtain ⟨rfl, rfl⟩ := h
        have := decU32_ok _ _ _ hb
        subst this
        exact ⟨trivial, rfl, _, rfl, rfl⟩

end Radix.Sbor
