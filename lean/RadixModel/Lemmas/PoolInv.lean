/-
State-machine invariant of the pool model: supply and reserves never go negative.
-/
import RadixModel.Lemmas.PoolMulti

namespace Radix.Pool

/-- State invariant: supply and every reserve are non-negative. -/
def Inv (p : Pool) : Prop := 0 ≤ p.supply ∧ ∀ r ∈ p.reserves, 0 ≤ r

theorem inv_newPool (k : Kind) (divs : List Nat) : Inv (newPool k divs) := by
  refine ⟨le_refl _, ?_⟩
  intro r hr
  simp only [newPool, List.mem_map] at hr
  obtain ⟨_, _, rfl⟩ := hr
  exact le_refl _

theorem mem_setAt : ∀ (l : List Int) (i : Nat) (v x : Int), x ∈ setAt l i v → x = v ∨ x ∈ l
  | [], _, _, _, h => by simp [setAt] at h
  | a :: as, 0, v, x, h => by
    simp only [setAt, List.mem_cons] at h
    rcases h with h | h
    · exact Or.inl h
    · exact Or.inr (List.mem_cons_of_mem _ h)
  | a :: as, i + 1, v, x, h => by
    simp only [setAt, List.mem_cons] at h
    rcases h with h | h
    · exact Or.inr (by rw [h]; exact List.mem_cons_self ..)
    · rcases mem_setAt as i v x h with h | h
      · exact Or.inl h
      · exact Or.inr (List.mem_cons_of_mem _ h)

theorem addLists_nonneg : ∀ (a b : List Int), (∀ x ∈ a, 0 ≤ x) → (∀ x ∈ b, 0 ≤ x) → ∀ x ∈ addLists a b, 0 ≤ x
  | [], _, _, _ => by intro x hx; simp [addLists] at hx
  | _ :: _, [], _, _ => by intro x hx; simp [addLists] at hx
  | a :: as, b :: bs, ha, hb => by
    intro x hx
    simp only [addLists, List.mem_cons] at hx
    rcases hx with rfl | hx
    · have := ha a (List.mem_cons_self ..); have := hb b (List.mem_cons_self ..); linarith
    · exact addLists_nonneg as bs (fun y hy => ha y (List.mem_cons_of_mem _ hy))
        (fun y hy => hb y (List.mem_cons_of_mem _ hy)) x hx

theorem bucketsOk_nonneg : ∀ (cs : List Int) (ds : List Nat), bucketsOk cs ds = true → ∀ c ∈ cs, 0 ≤ c
  | [], _, _ => by intro c hc; cases hc
  | c :: cs, [], h => by simp [bucketsOk] at h
  | c :: cs, d :: ds, h => by
    simp only [bucketsOk, Bool.and_eq_true, decide_eq_true_eq] at h
    intro x hx
    rcases List.mem_cons.mp hx with rfl | hx
    · exact h.1.1.1
    · exact bucketsOk_nonneg cs ds h.2 x hx

theorem zip3_mem : ∀ (a b : List Int) (c : List Nat) (x : Int × Int × Nat), x ∈ zip3 a b c → x.1 ∈ a ∧ x.2.1 ∈ b
  | [], _, _, _, h => by simp [zip3] at h
  | _ :: _, [], _, _, h => by simp [zip3] at h
  | _ :: _, _ :: _, [], _, h => by simp [zip3] at h
  | a :: as, b :: bs, c :: cs, x, h => by
    simp only [zip3, List.mem_cons] at h
    rcases h with rfl | h
    · exact ⟨List.mem_cons_self .., List.mem_cons_self ..⟩
    · have := zip3_mem as bs cs x h
      exact ⟨List.mem_cons_of_mem _ this.1, List.mem_cons_of_mem _ this.2⟩

theorem oneContribute_inv {s r c : Int} {res : Contributed} (h : oneContribute s r c = .ok res)
    (hs : 0 ≤ s) (hr : 0 ≤ r) (hc : 0 ≤ c) : 0 ≤ res.supply ∧ ∀ x ∈ res.reserves, 0 ≤ x := by
  unfold oneContribute at h
  split at h
  · cases h
  · split at h
    · cases h
    · split at h
      · cases h
      · rename_i s2 hm
        cases h
        obtain ⟨hs2, hu0⟩ := mintUnits_spec hm
        refine ⟨by rw [hs2]; linarith, ?_⟩
        intro x hx
        simp only [List.mem_singleton] at hx
        rw [hx]; linarith

theorem twoContribute_inv {s r1 r2 c1 c2 : Int} {d1 d2 : Nat} {res : Contributed}
    (h : twoContribute s r1 r2 c1 c2 d1 d2 = .ok res) (hs : 0 ≤ s) (hr1 : 0 ≤ r1) (hr2 : 0 ≤ r2) :
    0 ≤ res.supply ∧ ∀ x ∈ res.reserves, 0 ≤ x := by
  unfold twoContribute at h
  split at h
  · cases h
  · split at h
    · cases h
    · split at h
      · cases h
      · split at h
        · cases h
        · split at h
          · cases h
          · rename_i a1 ht1
            split at h
            · cases h
            · rename_i a2 ht2
              split at h
              · cases h
              · split at h
                · cases h
                · split at h
                  · cases h
                  · rename_i s2 hm
                    split at h
                    · cases h
                    · cases h
                      obtain ⟨hs2, hu0⟩ := mintUnits_spec hm
                      have b1 := (bucketTake_spec ht1).1
                      have b2 := (bucketTake_spec ht2).1
                      refine ⟨by rw [hs2]; linarith, ?_⟩
                      intro x hx
                      simp only [List.mem_cons, List.mem_singleton, List.not_mem_nil, or_false] at hx
                      rcases hx with rfl | rfl <;> linarith

theorem multi_shape {s : Int} {rs : List (Int × Int × Nat)} {res : Contributed}
    (h : multiContribute s rs = .ok res) :
    ∃ units, mintUnits s units = .ok res.supply ∧
      res.reserves = addLists (rs.map (fun x => x.1)) res.accepted ∧
      (res.accepted = rs.map (fun x => x.2.1) ∨ ∃ k, multiAccept k rs = .ok res.accepted) := by
  unfold multiContribute at h
  by_cases hs0 : pdOfDec s = 0
  · simp only [hs0, ite_true] at h
    cases hg : (geoFold (List.filter (fun c => decide (c ≠ 0)) (List.map (fun x => pdOfDec x.2.1) rs)).length
        (List.filter (fun c => decide (c ≠ 0)) (List.map (fun x => pdOfDec x.2.1) rs)) P36).bind pdRoundUp18 with
    | none => rw [hg] at h; cases h
    | some u' =>
      rw [hg] at h
      simp only at h
      cases ht : pdToDec u' with
      | none => rw [ht] at h; cases h
      | some units =>
        rw [ht] at h
        simp only at h
        split at h
        · cases h
        · cases hmint : mintUnits s units with
          | error e => rw [hmint] at h; cases h
          | ok s2 =>
            rw [hmint] at h
            cases h
            exact ⟨units, hmint, rfl, Or.inl rfl⟩
  · simp only [hs0, ite_false] at h
    cases hk : minRatio (rs.map (fun x => (x.1, x.2.1))) with
    | none => rw [hk] at h; cases h
    | some k =>
      rw [hk] at h
      simp only at h
      cases ha : multiAccept k rs with
      | error e => rw [ha] at h; cases h
      | ok as =>
        rw [ha] at h
        simp only at h
        cases hm : pdMul (pdOfDec s) k with
        | none => rw [hm] at h; cases h
        | some u' =>
          rw [hm] at h
          simp only at h
          cases ht : pdToDec u' with
          | none => rw [ht] at h; cases h
          | some units =>
            rw [ht] at h
            simp only at h
            split at h
            · cases h
            · cases hmint : mintUnits s units with
              | error e => rw [hmint] at h; cases h
              | ok s2 =>
                rw [hmint] at h
                cases h
                exact ⟨units, hmint, rfl, Or.inr ⟨k, ha⟩⟩

theorem multiContribute_inv {s : Int} {rs : List (Int × Int × Nat)} {res : Contributed}
    (h : multiContribute s rs = .ok res) (hs : 0 ≤ s) (hrs : ∀ x ∈ rs, 0 ≤ x.1 ∧ 0 ≤ x.2.1) :
    0 ≤ res.supply ∧ ∀ x ∈ res.reserves, 0 ≤ x := by
  obtain ⟨units, hmint, hres, hacc⟩ := multi_shape h
  obtain ⟨hs2, hu0⟩ := mintUnits_spec hmint
  refine ⟨by rw [hs2]; linarith, ?_⟩
  rw [hres]
  apply addLists_nonneg
  · intro x hx
    obtain ⟨y, hy, rfl⟩ := List.mem_map.mp hx
    exact (hrs y hy).1
  · rcases hacc with hacc | ⟨k, hacc⟩
    · rw [hacc]
      intro a ha
      obtain ⟨y, hy, rfl⟩ := List.mem_map.mp ha
      exact (hrs y hy).2
    · exact multiAccept_nonneg rs hacc

theorem contribute_inv {p : Pool} {cs : List Int} {c : Contributed} (h : contribute p cs = .ok c)
    (hp : Inv p) (hb : bucketsOk cs p.divs = true) : 0 ≤ c.supply ∧ ∀ x ∈ c.reserves, 0 ≤ x := by
  have hcs := bucketsOk_nonneg cs p.divs hb
  unfold contribute at h
  split at h
  · rename_i r cc _ _ hres _
    exact oneContribute_inv h hp.1 (hp.2 r (by rw [hres]; exact List.mem_cons_self ..))
      (hcs cc (List.mem_cons_self ..))
  · rename_i r1 r2 c1 c2 d1 d2 _ hres _
    exact twoContribute_inv h hp.1 (hp.2 r1 (by rw [hres]; exact List.mem_cons_self ..))
      (hp.2 r2 (by rw [hres]; exact List.mem_cons_of_mem _ (List.mem_cons_self ..)))
  · refine multiContribute_inv h hp.1 ?_
    intro x hx
    have := zip3_mem _ _ _ x hx
    exact ⟨hp.2 _ this.1, hcs _ this.2⟩
  · cases h

theorem vaultTake_le {held a t : Int} {d : Nat} {st : Strategy} (h : vaultTake held a d st = .ok t) :
    t ≤ held := by
  unfold vaultTake at h
  simp only at h
  split at h
  · cases h
  · split at h
    · cases h
    · split at h
      · cases h
      · rename_i hlt
        cases h
        exact not_lt.mp hlt

theorem inv_step' {p : Pool} (op : Op) (hp : Inv p) : Inv (step p op).1 := by
  cases op with
  | contribute cs =>
    simp only [step]
    split
    · exact hp
    · rename_i hb
      split
      · exact hp
      · rename_i c hc
        have := contribute_inv hc hp (by simpa using hb)
        exact ⟨this.1, this.2⟩
  | redeem u =>
    simp only [step]
    split
    · exact hp
    · rename_i hu
      split
      · exact hp
      · rename_i os hos
        have hu' : ¬ (u > p.supply) := fun h => hu (Or.inr h)
        refine ⟨by simp only [applyRedeem]; linarith [not_lt.mp hu'], ?_⟩
        simp only [applyRedeem]
        unfold redeem at hos
        split at hos
        · cases hos
        · split at hos
          · cases hos
          · split at hos
            · cases hos
            · rename_i hany
              cases hos
              intro x hx
              by_contra hneg
              apply hany
              rw [List.any_eq_true]
              exact ⟨x, hx, by simpa using not_le.mp hneg⟩
  | deposit i a =>
    simp only [step]
    split
    · rename_i r d hr hd
      split
      · exact hp
      · rename_i hcond
        refine ⟨hp.1, ?_⟩
        intro x hx
        rcases mem_setAt _ _ _ _ hx with h | h
        · have hr0 : 0 ≤ r := hp.2 r (List.mem_of_getElem? hr)
          have ha : ¬ (a ≤ 0) := fun h => hcond (Or.inl h)
          rw [h]; linarith [not_le.mp ha]
        · exact hp.2 x h
    · exact hp
  | withdraw i a st =>
    simp only [step]
    split
    · rename_i r d acc hr hd hacc
      split
      · exact hp
      · split
        · exact hp
        · rename_i t ht
          refine ⟨hp.1, ?_⟩
          intro x hx
          rcases mem_setAt _ _ _ _ hx with h | h
          · have := vaultTake_le ht
            rw [h]; linarith
          · exact hp.2 x h
    · exact hp

end Radix.Pool
