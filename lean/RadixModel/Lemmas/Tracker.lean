import RadixModel.Model.Tracker
/-
Helper lemmas for C07: closed form of `partitionForExpiry` on well-formed trackers, behaviour of
`advance`, and stability of the physical partition of an expiry epoch under `advance`.
-/
namespace Radix.Tracker

/-- number of partitions of the ring -/
def Tracker.n (t : Tracker) : Nat := t.re - t.rs + 1

/-- shape of every tracker made by `create` and moved by `advance` -/
structure Tracker.WF (t : Tracker) : Prop where
  lo : t.rs ≤ t.startPartition
  hi : t.startPartition ≤ t.re
  small : t.re - t.rs + 1 ≤ 255
  re_u8 : t.re ≤ 255
  epp_pos : 0 < t.epp

/-- the expiry epochs currently covered by the ring -/
def InWindow (t : Tracker) (E : Nat) : Prop :=
  t.startEpoch ≤ E ∧ E < t.startEpoch + t.n * t.epp

instance (t : Tracker) (E : Nat) : Decidable (InWindow t E) := by unfold InWindow; infer_instance

/-- the physical partition of expiry epoch `E` (pure arithmetic, no overflow cases) -/
def phys (t : Tracker) (E : Nat) : Nat :=
  let q := (E - t.startEpoch) / t.epp
  if t.startPartition + q > t.re then t.startPartition + q - t.n else t.startPartition + q

theorem slot_lt {t : Tracker} {E : Nat} (hw : InWindow t E) (hp : 0 < t.epp) :
    (E - t.startEpoch) / t.epp < t.n := by
  obtain ⟨h1, h2⟩ := hw
  rw [Nat.div_lt_iff_lt_mul hp]
  omega

theorem phys_range {t : Tracker} (hwf : t.WF) {E : Nat} (hw : InWindow t E) :
    t.rs ≤ phys t E ∧ phys t E ≤ t.re := by
  have hq := slot_lt hw hwf.epp_pos
  obtain ⟨h1, h2, h3, h5, _⟩ := hwf
  unfold phys
  generalize (E - t.startEpoch) / t.epp = q at hq ⊢
  simp only [Tracker.n] at hq ⊢
  split <;> omega

/-- `partition_for_expiry_epoch` never returns anything but the physical partition of an
in-window epoch (whatever the overflow situation). -/
theorem pfe_cases (t : Tracker) (hwf : t.WF) (E : Nat) :
    partitionForExpiry t E = .panic ∨ partitionForExpiry t E = .none ∨
      (partitionForExpiry t E = .some (phys t E) ∧ InWindow t E) := by
  unfold partitionForExpiry
  by_cases c1 : t.re < t.rs
  · simp [c1]
  by_cases c2 : t.re - t.rs + 1 > U8MAX
  · simp [c1, c2]
  by_cases c3 : (t.re - t.rs + 1) * t.epp > U64MAX
  · simp [c1, c2, c3]
  by_cases c4 : t.startEpoch + (t.re - t.rs + 1) * t.epp > U64MAX
  · simp [c1, c2, c3, c4]
  by_cases c5 : E < t.startEpoch ∨ E ≥ t.startEpoch + (t.re - t.rs + 1) * t.epp
  · simp [c1, c2, c3, c4, c5]
  · have hw : InWindow t E := by
      unfold InWindow Tracker.n; omega
    have hr := phys_range hwf hw
    right; right
    refine ⟨?_, hw⟩
    simp only [c1, c2, c3, c4, c5, if_false]
    have : ¬ (phys t E < t.rs ∨ phys t E > t.re) := by omega
    simp only [phys, Tracker.n] at this ⊢
    simp [this]

/-- closed form on well-formed trackers away from the `u64` limit -/
theorem pfe_spec (t : Tracker) (hwf : t.WF) (hov : t.startEpoch + t.n * t.epp ≤ U64MAX) (E : Nat) :
    partitionForExpiry t E = if InWindow t E then .some (phys t E) else .none := by
  obtain ⟨h1, h2, h3, h5, h4⟩ := hwf
  have hwf : t.WF := ⟨h1, h2, h3, h5, h4⟩
  unfold partitionForExpiry
  have c1 : ¬ t.re < t.rs := by omega
  have c2 : ¬ t.re - t.rs + 1 > U8MAX := by simp only [U8MAX]; omega
  have c4 : ¬ t.startEpoch + (t.re - t.rs + 1) * t.epp > U64MAX := by
    simp only [Tracker.n] at hov; omega
  have c3 : ¬ (t.re - t.rs + 1) * t.epp > U64MAX := by omega
  by_cases c5 : E < t.startEpoch ∨ E ≥ t.startEpoch + (t.re - t.rs + 1) * t.epp
  · have : ¬ InWindow t E := by unfold InWindow Tracker.n; omega
    simp [c1, c2, c3, c4, c5, this]
  · have hw : InWindow t E := by unfold InWindow Tracker.n; omega
    have hr := phys_range hwf hw
    simp only [c1, c2, c3, c4, c5, if_false, hw, if_true]
    have : ¬ (phys t E < t.rs ∨ phys t E > t.re) := by omega
    simp only [phys, Tracker.n] at this ⊢
    simp [this]

/-- the tracker after `advance` (pure) -/
def adv (t : Tracker) : Tracker :=
  { t with startEpoch := t.startEpoch + t.epp,
           startPartition := if t.startPartition = t.re then t.rs else t.startPartition + 1 }

theorem advance_spec (t : Tracker) (hwf : t.WF) (hov : t.startEpoch + t.epp ≤ U64MAX) :
    advance t = some (adv t, t.startPartition) := by
  obtain ⟨h1, h2, h3, h5, h4⟩ := hwf
  unfold advance adv
  have c1 : ¬ t.startEpoch + t.epp > U64MAX := by omega
  by_cases c2 : t.startPartition = t.re
  · simp [c1, c2]
  · have c3 : ¬ t.startPartition + 1 > U8MAX := by simp only [U8MAX]; omega
    simp [c1, c2, c3]

/-- `advance` either panics or yields `adv t` and the old start partition -/
theorem advance_cases (t : Tracker) :
    advance t = none ∨ advance t = some (adv t, t.startPartition) := by
  unfold advance adv
  by_cases c1 : t.startEpoch + t.epp > U64MAX
  · simp [c1]
  by_cases c2 : t.startPartition = t.re
  · simp [c1, c2]
  by_cases c3 : t.startPartition + 1 > U8MAX
  · simp [c1, c2, c3]
  · simp [c1, c2, c3]

theorem adv_wf {t : Tracker} (hwf : t.WF) : (adv t).WF := by
  obtain ⟨h1, h2, h3, h5, h4⟩ := hwf
  refine ⟨?_, ?_, ?_, ?_, ?_⟩ <;> simp only [adv] <;> (try split) <;> omega

@[simp] theorem adv_n (t : Tracker) : (adv t).n = t.n := rfl
@[simp] theorem adv_epp (t : Tracker) : (adv t).epp = t.epp := rfl
@[simp] theorem adv_rs (t : Tracker) : (adv t).rs = t.rs := rfl
@[simp] theorem adv_re (t : Tracker) : (adv t).re = t.re := rfl
@[simp] theorem adv_startEpoch (t : Tracker) : (adv t).startEpoch = t.startEpoch + t.epp := rfl

/-- an expiry that stays covered keeps its window status after `advance` -/
theorem inWindow_adv {t : Tracker} {E : Nat} (hw : InWindow t E) (hE : t.startEpoch + t.epp ≤ E) :
    InWindow (adv t) E := by
  obtain ⟨h1, h2⟩ := hw
  unfold InWindow
  simp only [adv_startEpoch, adv_n, adv_epp]
  omega

/-- **ring stability**: `advance` does not move the records of expiries that stay covered -/
theorem phys_adv {t : Tracker} (hwf : t.WF) {E : Nat} (hw : InWindow t E)
    (hE : t.startEpoch + t.epp ≤ E) : phys (adv t) E = phys t E := by
  have hq := slot_lt hw hwf.epp_pos
  obtain ⟨h1, h2, h3, h5, h4⟩ := hwf
  have hdiv : (E - t.startEpoch) / t.epp = (E - (t.startEpoch + t.epp)) / t.epp + 1 := by
    have : E - t.startEpoch = (E - (t.startEpoch + t.epp)) + t.epp := by omega
    rw [this, Nat.add_div_right _ h4]
  have key : ∀ q', q' + 1 < t.n →
      (if (adv t).startPartition + q' > t.re then (adv t).startPartition + q' - t.n else (adv t).startPartition + q') =
        (if t.startPartition + (q' + 1) > t.re then t.startPartition + (q' + 1) - t.n else t.startPartition + (q' + 1)) := by
    intro q' hq
    simp only [Tracker.n] at hq ⊢
    simp only [adv]
    by_cases c : t.startPartition = t.re
    · simp only [c, if_true]
      split <;> split <;> omega
    · simp only [c, if_false]
      split <;> split <;> omega
  unfold phys
  simp only [adv_startEpoch, adv_epp, adv_n, adv_re]
  rw [hdiv] at hq ⊢
  exact key _ hq

/-- the partition dropped by `advance` holds no record of an expiry that stays covered -/
theorem phys_ne_start {t : Tracker} (hwf : t.WF) {E : Nat} (hw : InWindow t E)
    (hE : t.startEpoch + t.epp ≤ E) : phys t E ≠ t.startPartition := by
  have hq := slot_lt hw hwf.epp_pos
  obtain ⟨h1, h2, h3, h5, h4⟩ := hwf
  have hq1 : 1 ≤ (E - t.startEpoch) / t.epp := by
    rw [Nat.le_div_iff_mul_le h4]; omega
  unfold phys
  generalize (E - t.startEpoch) / t.epp = q at hq hq1 ⊢
  simp only [Tracker.n] at hq ⊢
  split <;> omega

/-- the partition dropped by `advance` is exactly the one of the first slot -/
theorem phys_first_slot {t : Tracker} (hwf : t.WF) {E : Nat} (h1 : t.startEpoch ≤ E)
    (h2 : E < t.startEpoch + t.epp) : phys t E = t.startPartition := by
  have : (E - t.startEpoch) / t.epp = 0 := by
    apply Nat.div_eq_of_lt; omega
  unfold phys
  rw [this]
  have := hwf.hi
  simp; omega

/-- two covered expiries share a partition iff they are in the same slot -/
theorem phys_inj {t : Tracker} (hwf : t.WF) {E E' : Nat} (hw : InWindow t E) (hw' : InWindow t E') :
    phys t E = phys t E' ↔ (E - t.startEpoch) / t.epp = (E' - t.startEpoch) / t.epp := by
  have hq := slot_lt hw hwf.epp_pos
  have hq' := slot_lt hw' hwf.epp_pos
  obtain ⟨h1, h2, h3, h5, h4⟩ := hwf
  unfold phys
  generalize (E - t.startEpoch) / t.epp = q at hq ⊢
  generalize (E' - t.startEpoch) / t.epp = q' at hq' ⊢
  simp only [Tracker.n] at hq hq' ⊢
  constructor
  · intro h; split at h <;> split at h <;> omega
  · intro h; subst h; rfl

end Radix.Tracker
